(** The printable report lists the history entries in order (C11). *)
From Robo Require Import Prelude Str Wells Utils Labware.

Lemma report_entries_length L : length (report_entries L) = length (lw_hist L).
Proof. unfold report_entries. apply map_length. Qed.

Lemma report_entries_nth L i d :
  i < length (lw_hist L) ->
  nth i (report_entries L) d =
    (match fst (nth i (lw_hist L) (None, [])) with
     | Some l => if String.eqb l "" then None else Some l
     | None => None
     end,
     map round1c (snd (nth i (lw_hist L) (None, [])))).
Proof.
  intro H. unfold report_entries.
  set (f := fun h : option string * list Q =>
     (match fst h with Some l => if String.eqb l "" then None else Some l | None => None end,
      map round1c (snd h))).
  rewrite (nth_indep (map f (lw_hist L)) d (f (None, []))) by (rewrite map_length; exact H).
  rewrite (map_nth f). reflexivity.
Qed.

Lemma report_entries_app L h :
  report_entries (set_hist L (lw_hist L ++ [h])) =
  report_entries L ++ [(match fst h with Some l => if String.eqb l "" then None else Some l | None => None end,
                        map round1c (snd h))].
Proof. unfold report_entries. cbn [lw_hist set_hist]. rewrite map_app. reflexivity. Qed.
