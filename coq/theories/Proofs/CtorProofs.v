(** Lemmas about the constructors [mk_labware] / [mk_trough] (C20). *)
From Robo Require Import Prelude Str Wells Utils Labware Invariants.
From Coq Require Import Lqa DecimalString DecimalN.

(* ------------------------------------------------------------------ booleans on Q *)

Lemma Qltb_false a b : Qltb a b = false -> (b <= a)%Q.
Proof.
  unfold Qltb. intro H. apply Qle_bool_iff. destruct (Qle_bool b a); [reflexivity|discriminate].
Qed.

Lemma Qltb_true a b : Qltb a b = true -> (a < b)%Q.
Proof.
  unfold Qltb. intro H. apply Qnot_le_lt. intro Hle. apply Qle_bool_iff in Hle.
  rewrite Hle in H. discriminate.
Qed.

Lemma Qltb_true_intro a b : (a < b)%Q -> Qltb a b = true.
Proof.
  intro H. unfold Qltb. destruct (Qle_bool b a) eqn:E; [|reflexivity].
  apply Qle_bool_iff in E. lra.
Qed.

Lemma Qgtb_false a b : Qgtb a b = false -> (a <= b)%Q.
Proof.
  unfold Qgtb. intro H. apply Qle_bool_iff. destruct (Qle_bool a b); [reflexivity|discriminate].
Qed.

Lemma Qgtb_true_intro a b : (b < a)%Q -> Qgtb a b = true.
Proof.
  intro H. unfold Qgtb. destruct (Qle_bool a b) eqn:E; [|reflexivity].
  apply Qle_bool_iff in E. lra.
Qed.

Lemma Qle_bool_false a b : Qle_bool a b = false -> (b < a)%Q.
Proof.
  intro H. apply Qnot_le_lt. intro Hle. apply Qle_bool_iff in Hle. rewrite Hle in H. discriminate.
Qed.

Lemma Qle_bool_true_intro a b : (a <= b)%Q -> Qle_bool a b = true.
Proof. intro H. apply Qle_bool_iff. exact H. Qed.

Lemma Qeq_bool_true a b : Qeq_bool a b = true -> a == b.
Proof. apply Qeq_bool_iff. Qed.

Lemma Qeq_bool_false a b : Qeq_bool a b = false -> ~ a == b.
Proof. apply Qeq_bool_neq. Qed.

Lemma Qeq_bool_Qred v : Qeq_bool (Qred v) 0 = Qeq_bool v 0.
Proof.
  destruct (Qeq_bool v 0) eqn:E.
  - apply Qeq_bool_iff. rewrite Qred_correct. apply Qeq_bool_iff. exact E.
  - destruct (Qeq_bool (Qred v) 0) eqn:E2; [|reflexivity].
    apply Qeq_bool_iff in E2. rewrite Qred_correct in E2. apply Qeq_bool_neq in E. contradiction.
Qed.

(* ------------------------------------------------------------------ lists *)

Lemma nth_map_lt {A B} (f : A -> B) (l : list A) dA dB i :
  i < length l -> nth i (map f l) dB = f (nth i l dA).
Proof.
  revert i. induction l as [|x r IH]; intros i Hi; [cbn in Hi; lia|].
  destruct i as [|i]; cbn [map nth]; [reflexivity|]. apply IH. cbn in Hi. lia.
Qed.

Lemma upd_length {A} (l : list A) i x : length (upd l i x) = length l.
Proof.
  revert i. induction l as [|y r IH]; intros i; [reflexivity|].
  destruct i as [|i]; cbn [upd length]; [reflexivity|]. rewrite IH. reflexivity.
Qed.

Lemma nth_upd {A} (l : list A) i x p d :
  nth p (upd l i x) d = if ((p =? i) && (i <? length l))%nat then x else nth p l d.
Proof.
  revert i p. induction l as [|y r IH]; intros i p.
  - cbn [upd length]. rewrite Bool.andb_comm. destruct i; reflexivity.
  - destruct i as [|i]; destruct p as [|p]; cbn [upd nth length]; try reflexivity.
    rewrite IH. change (S p =? S i)%nat with (p =? i)%nat.
    change (S i <? S (length r))%nat with (i <? length r)%nat. reflexivity.
Qed.

Lemma nth_repeat0 (n p : nat) : nth p (repeat 0%Q n) 0%Q = 0%Q.
Proof.
  revert p. induction n as [|n IH]; intros p; destruct p as [|p]; cbn [repeat nth]; try reflexivity.
  apply IH.
Qed.

Lemma nth_repeat_lt {A} (x d : A) n p : p < n -> nth p (repeat x n) d = x.
Proof.
  revert p. induction n as [|n IH]; intros p Hp; [lia|].
  destruct p as [|p]; cbn [repeat nth]; [reflexivity|]. apply IH. lia.
Qed.

Lemma existsb_false_forall {A} (p : A -> bool) l :
  existsb p l = false -> forall x, In x l -> p x = false.
Proof.
  intros H x Hx. destruct (p x) eqn:E; [|reflexivity].
  assert (Ht : existsb p l = true) by (apply existsb_exists; exists x; split; assumption).
  rewrite Ht in H. discriminate.
Qed.

(* ------------------------------------------------------------------ association lists *)

Lemma assoc_set_keys {A} c (v : A) l k :
  In k (map fst (assoc_set c v l)) <-> k = c \/ In k (map fst l).
Proof.
  induction l as [|[k' v'] r IH]; cbn [assoc_set map fst In].
  - split; intros [H|H]; auto.
  - destruct (String.eqb k' c) eqn:E; cbn [map fst In].
    + apply String.eqb_eq in E. subst k'. split; [intros [H|H]; auto|intros [H|[H|H]]; auto].
    + rewrite IH. split; [intros [H|[H|H]]; auto|intros [H|[H|H]]; auto].
Qed.

Lemma assoc_set_NoDup {A} c (v : A) l : NoDup (map fst l) -> NoDup (map fst (assoc_set c v l)).
Proof.
  induction l as [|[k' v'] r IH]; intro H; cbn [assoc_set map fst].
  - constructor; [intros []|constructor].
  - cbn [map fst] in H. inversion H as [|x xs Hnin Hnd]; subst.
    destruct (String.eqb k' c) eqn:E; cbn [map fst].
    + constructor; assumption.
    + constructor; [|apply IH; exact Hnd]. rewrite assoc_set_keys. intros [Hk|Hk]; [|contradiction].
      subst k'. rewrite String.eqb_refl in E. discriminate.
Qed.

Lemma assoc_set_Forall {A} (P : A -> Prop) c v (l : list (string * A)) :
  P v -> Forall (fun ka => P (snd ka)) l -> Forall (fun ka => P (snd ka)) (assoc_set c v l).
Proof.
  intros Hv. induction l as [|[k' v'] r IH]; intro H; cbn [assoc_set].
  - constructor; [exact Hv|constructor].
  - inversion H as [|x xs Hx Hr]; subst. destruct (String.eqb k' c).
    + constructor; [exact Hv|exact Hr].
    + constructor; [exact Hx|apply IH; exact Hr].
Qed.

Lemma assoc_get_set {A} c (v : A) l k :
  assoc_get k (assoc_set c v l) = if String.eqb c k then Some v else assoc_get k l.
Proof.
  induction l as [|[k' v'] r IH]; cbn [assoc_set assoc_get]; [reflexivity|].
  destruct (String.eqb k' c) eqn:E; cbn [assoc_get].
  - apply String.eqb_eq in E. subst k'. destruct (String.eqb c k); reflexivity.
  - rewrite IH. destruct (String.eqb k' k) eqn:E2; [|reflexivity].
    apply String.eqb_eq in E2. subst k'. rewrite String.eqb_sym, E. reflexivity.
Qed.

Lemma assoc_get_In {A} k (a : A) l : assoc_get k l = Some a -> In (k, a) l.
Proof.
  induction l as [|[k' v'] r IH]; cbn [assoc_get]; [discriminate|].
  destruct (String.eqb k' k) eqn:E; intro H.
  - apply String.eqb_eq in E. injection H as ->. subst k'. left. reflexivity.
  - right. apply IH. exact H.
Qed.

Lemma In_assoc_get {A} k (a : A) l : NoDup (map fst l) -> In (k, a) l -> assoc_get k l = Some a.
Proof.
  induction l as [|[k' v'] r IH]; intros Hnd Hin; [destruct Hin|].
  cbn [map fst] in Hnd. inversion Hnd as [|x xs Hnin Hnd']; subst. cbn [assoc_get].
  destruct Hin as [Heq|Hin].
  - injection Heq as -> ->. rewrite String.eqb_refl. reflexivity.
  - destruct (String.eqb k' k) eqn:E; [|apply IH; assumption].
    apply String.eqb_eq in E. subst k'. exfalso. apply Hnin.
    apply in_map_iff. exists (k, a). split; [reflexivity|exact Hin].
Qed.

Lemma assoc_get_None {A} k (l : list (string * A)) : ~ In k (map fst l) -> assoc_get k l = None.
Proof.
  induction l as [|[k' v'] r IH]; intro H; cbn [assoc_get]; [reflexivity|].
  cbn [map fst In] in H. destruct (String.eqb k' k) eqn:E.
  - apply String.eqb_eq in E. exfalso. apply H. left. exact E.
  - apply IH. intro Hin. apply H. right. exact Hin.
Qed.

(* ------------------------------------------------------------------ finite values *)

Lemma xfinite_Some x v : xfinite x = Some v -> x = XQ v.
Proof. destruct x; cbn; intro H; try discriminate. injection H as ->. reflexivity. Qed.

Lemma all_finite_map xs vs : all_finite xs = Some vs -> xs = map XQ vs.
Proof.
  revert vs. induction xs as [|x r IH]; intros vs H; cbn [all_finite] in H.
  - injection H as <-. reflexivity.
  - destruct (xfinite x) as [v|] eqn:Ex; [|discriminate].
    destruct (all_finite r) as [vr|] eqn:Er; [|discriminate].
    injection H as <-. cbn [map]. rewrite (xfinite_Some _ _ Ex), (IH vr eq_refl). reflexivity.
Qed.

Lemma all_finite_None xs : all_finite xs = None -> exists x, In x xs /\ xfinite x = None.
Proof.
  induction xs as [|x r IH]; cbn [all_finite]; [discriminate|].
  destruct (xfinite x) as [v|] eqn:Ex.
  - destruct (all_finite r) as [vr|] eqn:Er; [discriminate|]. intros _.
    destruct (IH eq_refl) as [y [Hy Hf]]. exists y. split; [right; exact Hy|exact Hf].
  - intros _. exists x. split; [left; reflexivity|exact Ex].
Qed.

(* ------------------------------------------------------------------ the real well ids *)

Definition real_ids (rows cols : nat) : list string :=
  concat (map (fun r => map (fun c => well_id r c) (seq 0 cols)) (seq 0 rows)).

Lemma ids_from_length cols s rows :
  length (concat (map (fun r => map (fun c => well_id r c) (seq 0 cols)) (seq s rows))) = rows * cols.
Proof.
  revert s. induction rows as [|rows IH]; intros s; [reflexivity|].
  cbn [seq map concat]. rewrite app_length, map_length, seq_length, IH. lia.
Qed.

Lemma real_ids_length rows cols : length (real_ids rows cols) = rows * cols.
Proof. apply ids_from_length. Qed.

Lemma ids_from_nth cols d s rows i : i < rows * cols ->
  nth i (concat (map (fun r => map (fun c => well_id r c) (seq 0 cols)) (seq s rows))) d
  = well_id (s + i / cols) (i mod cols).
Proof.
  revert s i. induction rows as [|rows IH]; intros s i Hi; [lia|].
  assert (Hc : cols <> 0) by (intro Hz; subst cols; lia).
  cbn [seq map concat]. destruct (Nat.lt_ge_cases i cols) as [Hlt|Hge].
  - rewrite app_nth1 by (rewrite map_length, seq_length; exact Hlt).
    rewrite (nth_map_lt _ _ 0) by (rewrite seq_length; exact Hlt).
    rewrite seq_nth by exact Hlt. rewrite Nat.div_small, Nat.mod_small by exact Hlt.
    rewrite Nat.add_0_r. reflexivity.
  - rewrite app_nth2 by (rewrite map_length, seq_length; exact Hge).
    rewrite map_length, seq_length. rewrite IH by lia.
    replace i with ((i - cols) + 1 * cols) at 3 4 by lia.
    rewrite Nat.div_add, Nat.mod_add by exact Hc. f_equal. lia.
Qed.

Lemma real_ids_nth rows cols d i : i < rows * cols ->
  nth i (real_ids rows cols) d = well_id (i / cols) (i mod cols).
Proof. intro Hi. unfold real_ids. rewrite ids_from_nth by exact Hi. reflexivity. Qed.

Lemma real_ids_In rows cols w :
  In w (real_ids rows cols) <-> exists r c, r < rows /\ c < cols /\ w = well_id r c.
Proof.
  unfold real_ids. rewrite in_concat. split.
  - intros [l [Hl Hw]]. apply in_map_iff in Hl. destruct Hl as [r [<- Hr]].
    apply in_map_iff in Hw. destruct Hw as [c [<- Hc]]. apply in_seq in Hr. apply in_seq in Hc.
    exists r, c. repeat split; lia.
  - intros [r [c [Hr [Hc ->]]]]. exists (map (fun c0 => well_id r c0) (seq 0 cols)). split.
    + apply in_map_iff. exists r. split; [reflexivity|apply in_seq; lia].
    + apply in_map_iff. exists c. split; [reflexivity|apply in_seq; lia].
Qed.

Lemma existsb_eqb_In w l : existsb (String.eqb w) l = true <-> In w l.
Proof.
  rewrite existsb_exists. split.
  - intros [x [Hx E]]. apply String.eqb_eq in E. subst x. exact Hx.
  - intro H. exists w. split; [exact H|apply String.eqb_refl].
Qed.

(* ------------------------------------------------------------------ initial composition *)

Definition given_name (names : list (string * option string)) (w : string) : option string :=
  match assoc_get w names with Some (Some s) => Some s | _ => None end.

(** the component a non-empty well is filled with *)
Definition comp_name (name : string) (multi : bool) (names : list (string * option string))
    (w : string) : string :=
  match given_name names w with
  | Some s => s
  | None => if multi then (name ++ "." ++ w)%string else name
  end.

Definition getd (n : nat) (k : string) (c : list (string * list Q)) : list Q :=
  match assoc_get k c with Some a => a | None => repeat 0%Q n end.

Section InitialComposition.
Variables (name : string) (multi : bool) (n : nat) (names : list (string * option string)).

Lemma ic_cons w wr v vr i acc :
  initial_composition name multi n names (w :: wr) (v :: vr) i acc =
  if Qeq_bool v 0 then
    match given_name names w with
    | Some _ => Err EValue
    | None => initial_composition name multi n names wr vr (S i) acc
    end
  else initial_composition name multi n names wr vr (S i)
         (assoc_set (comp_name name multi names w)
                    (upd (getd n (comp_name name multi names w) acc) i 1%Q) acc).
Proof. reflexivity. Qed.

Lemma ic_nil_l vols i acc : initial_composition name multi n names [] vols i acc = Ok acc.
Proof. reflexivity. Qed.

Lemma ic_nil_r ws i acc : initial_composition name multi n names ws [] i acc = Ok acc.
Proof. destruct ws; reflexivity. Qed.

Lemma ic_err ws : forall vols i acc e,
  initial_composition name multi n names ws vols i acc = Err e -> e = EValue.
Proof.
  induction ws as [|w wr IH]; intros vols i acc e H; [rewrite ic_nil_l in H; discriminate|].
  destruct vols as [|v vr]; [rewrite ic_nil_r in H; discriminate|].
  rewrite ic_cons in H. destruct (Qeq_bool v 0).
  - destruct (given_name names w) as [s|]; [injection H as <-; reflexivity|]. exact (IH _ _ _ _ H).
  - exact (IH _ _ _ _ H).
Qed.

Definition len_ok (c : list (string * list Q)) : Prop := Forall (fun ka => length (snd ka) = n) c.

Lemma getd_length k c : len_ok c -> length (getd n k c) = n.
Proof.
  intro H. unfold getd. destruct (assoc_get k c) as [a|] eqn:E; [|apply repeat_length].
  apply assoc_get_In in E. unfold len_ok in H. rewrite Forall_forall in H. exact (H _ E).
Qed.

Lemma step_len_ok c i acc : len_ok acc -> len_ok (assoc_set c (upd (getd n c acc) i 1%Q) acc).
Proof.
  intro H. unfold len_ok. apply (assoc_set_Forall (fun a => length a = n)); [|exact H].
  rewrite upd_length. apply getd_length. exact H.
Qed.

(** shape of the result: distinct keys, arrays of the right length *)
Lemma ic_shape ws : forall vols i acc comp,
  initial_composition name multi n names ws vols i acc = Ok comp ->
  NoDup (map fst acc) -> len_ok acc -> NoDup (map fst comp) /\ len_ok comp.
Proof.
  induction ws as [|w wr IH]; intros vols i acc comp H Hnd Hlen.
  - rewrite ic_nil_l in H. injection H as <-. split; assumption.
  - destruct vols as [|v vr]; [rewrite ic_nil_r in H; injection H as <-; split; assumption|].
    rewrite ic_cons in H. destruct (Qeq_bool v 0).
    + destruct (given_name names w) as [s|]; [discriminate|]. exact (IH _ _ _ _ H Hnd Hlen).
    + apply (IH _ _ _ _ H); [apply assoc_set_NoDup; exact Hnd|apply step_len_ok; exact Hlen].
Qed.

(** which (well, component) pairs are written *)
Fixpoint hit (ws : list string) (vols : list Q) (i p : nat) (k : string) : bool :=
  match ws, vols with
  | w :: wr, v :: vr =>
      (negb (Qeq_bool v 0) && String.eqb (comp_name name multi names w) k && (p =? i)%nat)
      || hit wr vr (S i) p k
  | _, _ => false
  end.

Lemma hit_spec ws : forall vols i p k,
  hit ws vols i p k = true <->
  exists j, p = i + j /\ j < length ws /\ j < length vols /\
            ~ nth j vols 0%Q == 0 /\ comp_name name multi names (nth j ws EmptyString) = k.
Proof.
  induction ws as [|w wr IH]; intros vols i p k.
  - cbn [hit]. split; [discriminate|]. intros [j [_ [Hj _]]]. cbn in Hj. lia.
  - destruct vols as [|v vr].
    + cbn [hit]. split; [discriminate|]. intros [j [_ [_ [Hj _]]]]. cbn in Hj. lia.
    + cbn [hit]. rewrite Bool.orb_true_iff, IH. split.
      * intros [H|[j [Hp [Hj1 [Hj2 [Hv Hk]]]]]].
        -- apply Bool.andb_true_iff in H. destruct H as [H Hpi].
           apply Bool.andb_true_iff in H. destruct H as [Hv Hk].
           apply Nat.eqb_eq in Hpi. apply String.eqb_eq in Hk.
           exists 0. cbn [nth length]. repeat split; try lia; [|exact Hk].
           destruct (Qeq_bool v 0) eqn:E; [discriminate|]. apply Qeq_bool_neq. exact E.
        -- exists (S j). cbn [nth length]. repeat split; try lia; assumption.
      * intros [j [Hp [Hj1 [Hj2 [Hv Hk]]]]]. destruct j as [|j].
        -- left. cbn [nth] in Hv, Hk. rewrite Hk, String.eqb_refl.
           replace (p =? i)%nat with true by (symmetry; apply Nat.eqb_eq; lia).
           destruct (Qeq_bool v 0) eqn:E; [|reflexivity].
           apply Qeq_bool_iff in E. contradiction.
        -- right. exists j. cbn [nth length] in *. repeat split; try lia; assumption.
Qed.

(** the keys of the result *)
Lemma ic_keys ws : forall vols i acc comp,
  initial_composition name multi n names ws vols i acc = Ok comp ->
  forall k, In k (map fst comp) <->
            In k (map fst acc) \/
            exists j, j < length ws /\ j < length vols /\ ~ nth j vols 0%Q == 0 /\
                      comp_name name multi names (nth j ws EmptyString) = k.
Proof.
  induction ws as [|w wr IH]; intros vols i acc comp H k.
  - rewrite ic_nil_l in H. injection H as <-. split; [auto|].
    intros [Hk|[j [Hj _]]]; [exact Hk|cbn in Hj; lia].
  - destruct vols as [|v vr].
    + rewrite ic_nil_r in H. injection H as <-. split; [auto|].
      intros [Hk|[j [_ [Hj _]]]]; [exact Hk|cbn in Hj; lia].
    + rewrite ic_cons in H. destruct (Qeq_bool v 0) eqn:Ev.
      * destruct (given_name names w) as [s|]; [discriminate|]. rewrite (IH _ _ _ _ H k).
        apply Qeq_bool_iff in Ev. split.
        -- intros [Hk|[j [Hj1 [Hj2 [Hv Hk]]]]]; [left; exact Hk|].
           right. exists (S j). cbn [nth length]. repeat split; try lia; assumption.
        -- intros [Hk|[j [Hj1 [Hj2 [Hv Hk]]]]]; [left; exact Hk|].
           destruct j as [|j]; [cbn [nth] in Hv; contradiction|].
           right. exists j. cbn [nth length] in *. repeat split; try lia; assumption.
      * rewrite (IH _ _ _ _ H k), assoc_set_keys. apply Qeq_bool_neq in Ev. split.
        -- intros [[Hk|Hk]|[j [Hj1 [Hj2 [Hv Hk]]]]].
           ++ right. exists 0. cbn [nth length]. repeat split; try lia; [exact Ev|symmetry; exact Hk].
           ++ left. exact Hk.
           ++ right. exists (S j). cbn [nth length]. repeat split; try lia; assumption.
        -- intros [Hk|[j [Hj1 [Hj2 [Hv Hk]]]]]; [left; right; exact Hk|].
           destruct j as [|j].
           ++ left. left. cbn [nth] in Hk. symmetry. exact Hk.
           ++ right. exists j. cbn [nth length] in *. repeat split; try lia; assumption.
Qed.

(** the entries of the result *)
Lemma ic_values ws : forall vols i acc comp,
  initial_composition name multi n names ws vols i acc = Ok comp -> len_ok acc ->
  forall k p, nth p (getd n k comp) 0%Q =
              if ((p <? n)%nat && hit ws vols i p k)%bool then 1%Q else nth p (getd n k acc) 0%Q.
Proof.
  induction ws as [|w wr IH]; intros vols i acc comp H Hlen k p.
  - rewrite ic_nil_l in H. injection H as <-. cbn [hit]. rewrite Bool.andb_false_r. reflexivity.
  - destruct vols as [|v vr].
    + rewrite ic_nil_r in H. injection H as <-. cbn [hit]. rewrite Bool.andb_false_r. reflexivity.
    + rewrite ic_cons in H. cbn [hit]. destruct (Qeq_bool v 0) eqn:Ev.
      * destruct (given_name names w) as [s|]; [discriminate|].
        rewrite (IH _ _ _ _ H Hlen k p). cbn [negb andb orb]. reflexivity.
      * rewrite (IH _ _ _ _ H (step_len_ok _ _ _ Hlen) k p). cbn [negb andb].
        destruct ((p <? n)%nat && hit wr vr (S i) p k)%bool eqn:Eh.
        -- apply Bool.andb_true_iff in Eh. destruct Eh as [E1 E2]. rewrite E1, E2.
           rewrite Bool.orb_true_r. reflexivity.
        -- unfold getd at 1. rewrite assoc_get_set.
           destruct (String.eqb (comp_name name multi names w) k) eqn:Ek.
           ++ apply String.eqb_eq in Ek. rewrite nth_upd, getd_length by exact Hlen. subst k.
              destruct (p =? i)%nat eqn:Epi.
              ** apply Nat.eqb_eq in Epi. subst p. cbn [andb orb].
                 destruct (i <? n)%nat; reflexivity.
              ** cbn [andb orb]. rewrite Eh. reflexivity.
           ++ cbn [andb orb]. rewrite Eh. reflexivity.
Qed.

(** a well with volume 0 carries no user-given name *)
Lemma ic_empty_unnamed ws : forall vols i acc comp,
  initial_composition name multi n names ws vols i acc = Ok comp ->
  forall j, j < length ws -> j < length vols -> nth j vols 0%Q == 0 ->
            given_name names (nth j ws EmptyString) = None.
Proof.
  induction ws as [|w wr IH]; intros vols i acc comp H j Hj1 Hj2 Hv; [cbn in Hj1; lia|].
  destruct vols as [|v vr]; [cbn in Hj2; lia|].
  rewrite ic_cons in H. destruct (Qeq_bool v 0) eqn:Ev.
  - destruct (given_name names w) as [s|] eqn:Eg; [discriminate|].
    destruct j as [|j]; [exact Eg|]. cbn [nth length] in *. apply (IH _ _ _ _ H j); try lia. exact Hv.
  - destruct j as [|j].
    + cbn [nth] in Hv. apply Qeq_bool_neq in Ev. contradiction.
    + cbn [nth length] in *. apply (IH _ _ _ _ H j); try lia. exact Hv.
Qed.

(** ... and conversely a user-given name on an empty well is refused *)
Lemma ic_named_empty ws : forall vols i acc j,
  j < length ws -> j < length vols -> nth j vols 0%Q == 0 ->
  given_name names (nth j ws EmptyString) <> None ->
  forall comp, initial_composition name multi n names ws vols i acc <> Ok comp.
Proof.
  intros vols i acc j Hj1 Hj2 Hv Hg comp H.
  apply Hg. exact (ic_empty_unnamed _ _ _ _ _ H j Hj1 Hj2 Hv).
Qed.

End InitialComposition.

(** The complete description of the composition built from nothing ([acc = []], first index 0)
    for [n] wells: entry [j] of component [k] is 1 iff well [j] is non-empty and filled with [k]. *)
Lemma ic_top name multi n names ws vols comp :
  initial_composition name multi n names ws vols 0 [] = Ok comp ->
  length ws = n -> length vols = n ->
  NoDup (map fst comp) /\
  Forall (fun ka => length (snd ka) = n) comp /\
  (forall k arr, In (k, arr) comp ->
     exists j, j < n /\ ~ nth j vols 0%Q == 0 /\ comp_name name multi names (nth j ws EmptyString) = k) /\
  (forall j, j < n -> nth j vols 0%Q == 0 ->
     given_name names (nth j ws EmptyString) = None /\
     forall k arr, In (k, arr) comp -> nth j arr 0%Q = 0%Q) /\
  (forall j, j < n -> ~ nth j vols 0%Q == 0 ->
     exists arr, In (comp_name name multi names (nth j ws EmptyString), arr) comp /\
                 nth j arr 0%Q = 1%Q /\
                 forall k' arr', In (k', arr') comp ->
                   k' <> comp_name name multi names (nth j ws EmptyString) -> nth j arr' 0%Q = 0%Q).
Proof.
  intros H Hws Hvols.
  assert (Hnd0 : NoDup (map (@fst string (list Q)) [])) by constructor.
  assert (Hlen0 : len_ok n []) by constructor.
  destruct (ic_shape _ _ _ _ _ _ _ _ _ H Hnd0 Hlen0) as [Hnd Hlen].
  pose proof (ic_values _ _ _ _ _ _ _ _ _ H Hlen0) as Hval.
  pose proof (ic_keys _ _ _ _ _ _ _ _ _ H) as Hkeys.
  assert (Hentry : forall k arr p, In (k, arr) comp ->
            nth p arr 0%Q = if ((p <? n)%nat && hit name multi names ws vols 0 p k)%bool
                            then 1%Q else 0%Q).
  { intros k arr p Hin. specialize (Hval k p). unfold getd at 1 in Hval.
    rewrite (In_assoc_get _ _ _ Hnd Hin) in Hval. rewrite Hval.
    unfold getd. cbn [assoc_get]. rewrite nth_repeat0. reflexivity. }
  split; [exact Hnd|]. split; [exact Hlen|]. split; [|split].
  - intros k arr Hin.
    assert (Hk : In k (map fst comp)) by (apply in_map_iff; exists (k, arr); split; [reflexivity|exact Hin]).
    apply Hkeys in Hk. destruct Hk as [[]|[j [Hj1 [Hj2 [Hv Hk]]]]].
    exists j. repeat split; try lia; assumption.
  - intros j Hj Hv. split.
    + apply (ic_empty_unnamed _ _ _ _ _ _ _ _ _ H j); try lia. exact Hv.
    + intros k arr Hin. rewrite (Hentry _ _ j Hin).
      destruct (hit name multi names ws vols 0 j k) eqn:Eh; [|rewrite Bool.andb_false_r; reflexivity].
      apply hit_spec in Eh. destruct Eh as [j' [Hp [_ [_ [Hv' _]]]]].
      cbn [Nat.add] in Hp. subst j'. contradiction.
  - intros j Hj Hv.
    assert (Hhit : hit name multi names ws vols 0 j (comp_name name multi names (nth j ws EmptyString)) = true).
    { apply hit_spec. exists j. repeat split; try lia. exact Hv. }
    assert (Hk : In (comp_name name multi names (nth j ws EmptyString)) (map fst comp)).
    { apply Hkeys. right. exists j. repeat split; try lia. exact Hv. }
    apply in_map_iff in Hk. destruct Hk as [[k arr] [Hfst Hin]]. cbn [fst] in Hfst. subst k.
    exists arr. split; [exact Hin|]. split.
    + rewrite (Hentry _ _ j Hin), Hhit.
      replace (j <? n)%nat with true by (symmetry; apply Nat.ltb_lt; exact Hj). reflexivity.
    + intros k' arr' Hin' Hne. rewrite (Hentry _ _ j Hin').
      destruct (hit name multi names ws vols 0 j k') eqn:Eh; [|rewrite Bool.andb_false_r; reflexivity].
      apply hit_spec in Eh. destruct Eh as [j' [Hp [_ [_ [_ Hk']]]]].
      cbn [Nat.add] in Hp. subst j'. symmetry in Hk'. contradiction.
Qed.

(* ------------------------------------------------------------------ mk_labware, piece by piece *)

Lemma size_ok_Some p k : size_ok p = Some k -> p = PInt (Z.of_nat k) /\ 1 <= k.
Proof.
  destruct p as [z|]; cbn [size_ok]; [|discriminate].
  destruct (1 <=? z)%Z eqn:E; [|discriminate]. intro H. injection H as <-.
  apply Z.leb_le in E. rewrite Z2Nat.id by lia. split; [reflexivity|lia].
Qed.

Lemma size_ok_None p : size_ok p = None <-> p = PNotInt \/ exists z, p = PInt z /\ (z < 1)%Z.
Proof.
  destruct p as [z|]; cbn [size_ok].
  - destruct (1 <=? z)%Z eqn:E.
    + apply Z.leb_le in E. split; [discriminate|]. intros [H|[z' [H Hz]]]; [discriminate|].
      injection H as <-. lia.
    + apply Z.leb_gt in E. split; [|reflexivity]. intros _. right. exists z. split; [reflexivity|lia].
  - split; [intros _; left; reflexivity|reflexivity].
Qed.

Lemma size_ok_of_nat k : 1 <= k -> size_ok (PInt (Z.of_nat k)) = Some k.
Proof.
  intro H. cbn [size_ok]. replace (1 <=? Z.of_nat k)%Z with true by (symmetry; apply Z.leb_le; lia).
  rewrite Nat2Z.id. reflexivity.
Qed.

(** the [virtual_rows] check *)
Definition vr_of (rows : nat) (ov : option pyint) : res (option nat) :=
  match ov with
  | None => Ok None
  | Some p => if negb (rows =? 1)%nat then Err EValue
              else match size_ok p with
                   | Some v => if (26 <? v)%nat then Err EValue else Ok (Some v)
                   | None => Err EValue
                   end
  end.

(** the flat (row-major) list of initial volumes, [None] if the size does not fit *)
Definition flat_of (n : nat) (init : option (arr xnum)) : option (list xnum) :=
  match init with
  | None => Some (repeat (XQ 0) n)
  | Some (A0 x) => Some (repeat x n)
  | Some (A1 xs) => if (length xs =? n)%nat then Some xs else None
  | Some (A2 rs) => if (length (concat rs) =? n)%nat then Some (concat rs) else None
  end.

Lemma mk_labware_unfold a :
  mk_labware a =
  match size_ok (a_rows a), size_ok (a_cols a) with
  | Some rows, Some cols =>
      if (26 <? rows)%nat then Err EValue else
      match xfinite (a_min a), xfinite (a_max a) with
      | Some mn, Some mx =>
          if Qltb mn 0 then Err EValue
          else if Qle_bool mx mn then Err EValue
          else
            match vr_of rows (a_vrows a) with
            | Err e => Err e
            | Ok vrows =>
                match flat_of (rows * cols) (a_init a) with
                | None => Err EValue
                | Some xs =>
                    match all_finite xs with
                    | None => Err EValue
                    | Some vs =>
                        if existsb (fun v => Qltb v 0) vs then Err EValue
                        else if existsb (fun v => Qgtb v mx) vs then Err EValue
                        else if existsb (fun kn => negb (existsb (String.eqb (fst kn)) (real_ids rows cols)))
                                        (a_names a)
                        then Err EValue
                        else
                          match initial_composition (a_name a) (1 <? rows * cols)%nat (rows * cols)
                                  (a_names a) (real_ids rows cols) (map Qred vs) 0 [] with
                          | Err e => Err e
                          | Ok comp =>
                              Ok {| lw_name := a_name a;
                                    lw_geom := {| g_rows := rows; g_cols := cols; g_vrows := vrows |};
                                    lw_min := mn; lw_max := mx;
                                    lw_vols := map Qred vs; lw_comp := comp;
                                    lw_hist := [(Some "initial"%string, map Qred vs)] |}
                          end
                    end
                end
            end
      | _, _ => Err EValue
      end
  | _, _ => Err EValue
  end.
Proof. reflexivity. Qed.

Lemma vr_of_err rows ov e : vr_of rows ov = Err e -> e = EValue.
Proof.
  unfold vr_of. destruct ov as [p|]; [|discriminate].
  destruct (negb (rows =? 1)%nat); [intro H; injection H as <-; reflexivity|].
  destruct (size_ok p) as [v|]; [|intro H; injection H as <-; reflexivity].
  destruct (26 <? v)%nat; [intro H; injection H as <-; reflexivity|discriminate].
Qed.

Lemma vr_of_Ok rows ov vrows : vr_of rows ov = Ok vrows ->
  match ov with
  | None => vrows = None
  | Some p => exists v, p = PInt (Z.of_nat v) /\ vrows = Some v /\ rows = 1 /\ 1 <= v <= 26
  end.
Proof.
  unfold vr_of. destruct ov as [p|]; [|intro H; injection H as <-; reflexivity].
  destruct (rows =? 1)%nat eqn:E1; cbn [negb]; [|discriminate]. apply Nat.eqb_eq in E1.
  destruct (size_ok p) as [v|] eqn:Ep; [|discriminate].
  destruct (26 <? v)%nat eqn:E26; [discriminate|]. apply Nat.ltb_ge in E26.
  intro H. injection H as <-. destruct (size_ok_Some _ _ Ep) as [-> Hv].
  exists v. repeat split; try assumption.
Qed.

(** every exception of the constructor is a ValueError *)
Lemma mk_labware_err a e : mk_labware a = Err e -> e = EValue.
Proof.
  rewrite mk_labware_unfold.
  destruct (size_ok (a_rows a)) as [rows|]; [|intro H; injection H as <-; reflexivity].
  destruct (size_ok (a_cols a)) as [cols|]; [|intro H; injection H as <-; reflexivity].
  destruct (26 <? rows)%nat; [intro H; injection H as <-; reflexivity|].
  destruct (xfinite (a_min a)) as [mn|]; [|intro H; injection H as <-; reflexivity].
  destruct (xfinite (a_max a)) as [mx|]; [|intro H; injection H as <-; reflexivity].
  destruct (Qltb mn 0); [intro H; injection H as <-; reflexivity|].
  destruct (Qle_bool mx mn); [intro H; injection H as <-; reflexivity|].
  destruct (vr_of rows (a_vrows a)) as [vrows|e'] eqn:Evr;
    [|intro H; injection H as <-; exact (vr_of_err _ _ _ Evr)].
  destruct (flat_of (rows * cols) (a_init a)) as [xs|]; [|intro H; injection H as <-; reflexivity].
  destruct (all_finite xs) as [vs|]; [|intro H; injection H as <-; reflexivity].
  destruct (existsb (fun v => Qltb v 0) vs); [intro H; injection H as <-; reflexivity|].
  destruct (existsb (fun v => Qgtb v mx) vs); [intro H; injection H as <-; reflexivity|].
  destruct (existsb _ (a_names a)); [intro H; injection H as <-; reflexivity|].
  destruct (initial_composition _ _ _ _ _ _ _ _) as [comp|e'] eqn:Eic; [discriminate|].
  intro H. injection H as <-. exact (ic_err _ _ _ _ _ _ _ _ _ Eic).
Qed.

(** everything that is known when the constructor returns *)
Record lw_built (a : lw_args) (L : labware) (rows cols : nat) (mn mx : Q) (vrows : option nat)
    (xs : list xnum) (vs : list Q) (comp : list (string * list Q)) : Prop := {
  b_rows : size_ok (a_rows a) = Some rows;
  b_cols : size_ok (a_cols a) = Some cols;
  b_rows26 : rows <= 26;
  b_min : a_min a = XQ mn;
  b_max : a_max a = XQ mx;
  b_min0 : (0 <= mn)%Q;
  b_minmax : (mn < mx)%Q;
  b_vr : vr_of rows (a_vrows a) = Ok vrows;
  b_flat : flat_of (rows * cols) (a_init a) = Some xs;
  b_fin : xs = map XQ vs;
  b_len : length vs = rows * cols;
  b_nonneg : forall v, In v vs -> (0 <= v)%Q;
  b_le_max : forall v, In v vs -> (v <= mx)%Q;
  b_names : forall w s, In (w, s) (a_names a) -> In w (real_ids rows cols);
  b_comp : initial_composition (a_name a) (1 <? rows * cols)%nat (rows * cols) (a_names a)
             (real_ids rows cols) (map Qred vs) 0 [] = Ok comp;
  b_L : L = {| lw_name := a_name a;
               lw_geom := {| g_rows := rows; g_cols := cols; g_vrows := vrows |};
               lw_min := mn; lw_max := mx; lw_vols := map Qred vs; lw_comp := comp;
               lw_hist := [(Some "initial"%string, map Qred vs)] |}
}.

Lemma flat_of_length n init xs : flat_of n init = Some xs -> length xs = n.
Proof.
  unfold flat_of. destruct init as [[x|ys|rs]|].
  - intro H. injection H as <-. apply repeat_length.
  - destruct (length ys =? n)%nat eqn:E; [|discriminate]. intro H. injection H as <-.
    apply Nat.eqb_eq. exact E.
  - destruct (length (concat rs) =? n)%nat eqn:E; [|discriminate]. intro H. injection H as <-.
    apply Nat.eqb_eq. exact E.
  - intro H. injection H as <-. apply repeat_length.
Qed.

Lemma mk_labware_inv a L : mk_labware a = Ok L ->
  exists rows cols mn mx vrows xs vs comp, lw_built a L rows cols mn mx vrows xs vs comp.
Proof.
  rewrite mk_labware_unfold.
  destruct (size_ok (a_rows a)) as [rows|] eqn:Er; [|discriminate].
  destruct (size_ok (a_cols a)) as [cols|] eqn:Ec; [|discriminate].
  destruct (26 <? rows)%nat eqn:E26; [discriminate|].
  destruct (xfinite (a_min a)) as [mn|] eqn:Emn; [|discriminate].
  destruct (xfinite (a_max a)) as [mx|] eqn:Emx; [|discriminate].
  destruct (Qltb mn 0) eqn:Eneg; [discriminate|].
  destruct (Qle_bool mx mn) eqn:Ele; [discriminate|].
  destruct (vr_of rows (a_vrows a)) as [vrows|e'] eqn:Evr; [|discriminate].
  destruct (flat_of (rows * cols) (a_init a)) as [xs|] eqn:Eflat; [|discriminate].
  destruct (all_finite xs) as [vs|] eqn:Efin; [|discriminate].
  destruct (existsb (fun v => Qltb v 0) vs) eqn:En; [discriminate|].
  destruct (existsb (fun v => Qgtb v mx) vs) eqn:Em; [discriminate|].
  destruct (existsb _ (a_names a)) eqn:Enames; [discriminate|].
  destruct (initial_composition _ _ _ _ _ _ _ _) as [comp|e'] eqn:Eic; [|discriminate].
  intro H. injection H as <-.
  exists rows, cols, mn, mx, vrows, xs, vs, comp.
  pose proof (all_finite_map _ _ Efin) as Hxs.
  constructor; try assumption; try reflexivity.
  - apply Nat.ltb_ge. exact E26.
  - apply xfinite_Some. exact Emn.
  - apply xfinite_Some. exact Emx.
  - apply Qltb_false. exact Eneg.
  - apply Qle_bool_false. exact Ele.
  - apply flat_of_length in Eflat. rewrite Hxs, map_length in Eflat. exact Eflat.
  - intros v Hv. apply Qltb_false. exact (existsb_false_forall _ _ En v Hv).
  - intros v Hv. apply Qgtb_false. exact (existsb_false_forall _ _ Em v Hv).
  - intros w s Hin. pose proof (existsb_false_forall _ _ Enames (w, s) Hin) as Hf.
    cbn [fst] in Hf. apply existsb_eqb_In.
    destruct (existsb (String.eqb w) (real_ids rows cols)); [reflexivity|discriminate].
Qed.

Ltac inv_built H :=
  destruct (mk_labware_inv _ _ H) as
    (rows & cols & mn & mx & vrows & xs & vs & comp &
     [Brows Bcols B26 Bmin Bmax Bmin0 Bminmax Bvr Bflat Bfin Blen Bnonneg Blemax Bnames Bcomp BL]).

(** a constructor call that cannot succeed raises ValueError *)
Lemma mk_labware_not_ok a : (forall L, mk_labware a <> Ok L) -> mk_labware a = Err EValue.
Proof.
  intro H. destruct (mk_labware a) as [L|e] eqn:E; [exfalso; exact (H L eq_refl)|].
  rewrite (mk_labware_err _ _ E). reflexivity.
Qed.

(* ------------------------------------------------------------------ C20: well-formedness *)

Lemma built_wf_geom rows cols vrows ov :
  1 <= rows -> rows <= 26 -> 1 <= cols -> vr_of rows ov = Ok vrows ->
  wf_geom {| g_rows := rows; g_cols := cols; g_vrows := vrows |}.
Proof.
  intros Hr H26 Hc Hvr. unfold wf_geom. cbn [g_rows g_cols g_vrows].
  split; [lia|]. split; [exact Hc|]. apply vr_of_Ok in Hvr. destruct ov as [p|].
  - destruct Hvr as [v [_ [-> [H1 Hv]]]]. split; [exact H1|exact Hv].
  - subst vrows. exact I.
Qed.

Lemma mk_labware_wf a L : mk_labware a = Ok L -> wf_labware L.
Proof.
  intro H. inv_built H.
  destruct (size_ok_Some _ _ Brows) as [_ Hr1]. destruct (size_ok_Some _ _ Bcols) as [_ Hc1].
  assert (Hlv : length (map Qred vs) = rows * cols) by (rewrite map_length; exact Blen).
  destruct (ic_top _ _ _ _ _ _ _ Bcomp (real_ids_length rows cols) Hlv) as [_ [Hlen _]].
  subst L. split.
  - unfold wf_shape, n_wells. cbn [lw_geom lw_vols lw_comp lw_hist g_rows g_cols].
    split; [exact (built_wf_geom _ _ _ _ Hr1 B26 Hc1 Bvr)|]. split; [exact Hlv|].
    split; [exact Hlen|]. split; [|discriminate].
    constructor; [exact Hlv|constructor].
  - unfold vol_inv. cbn [lw_min lw_max lw_vols]. split; [exact Bmin0|]. split; [exact Bminmax|].
    apply Forall_forall. intros q Hq. apply in_map_iff in Hq. destruct Hq as [v [<- Hv]].
    rewrite Qred_correct. split; [exact (Bnonneg v Hv)|exact (Blemax v Hv)].
Qed.

(* ------------------------------------------------------------------ C20: geometry *)

Lemma wells_table_shape g :
  length (wells_table g) = n_row_ids g /\
  Forall (fun row => length row = g_cols g) (wells_table g).
Proof.
  unfold wells_table. split; [rewrite map_length, seq_length; reflexivity|].
  apply Forall_forall. intros row Hrow. apply in_map_iff in Hrow. destruct Hrow as [r [<- _]].
  rewrite map_length, seq_length. reflexivity.
Qed.

Lemma mk_labware_geometry a L : mk_labware a = Ok L ->
  let g := lw_geom L in
  a_rows a = PInt (Z.of_nat (g_rows g)) /\ a_cols a = PInt (Z.of_nat (g_cols g)) /\
  1 <= g_rows g <= 26 /\ 1 <= g_cols g /\
  match a_vrows a with
  | None => g_vrows g = None
  | Some p => exists v, p = PInt (Z.of_nat v) /\ g_vrows g = Some v /\ g_rows g = 1 /\ 1 <= v <= 26
  end /\
  n_row_ids g = match g_vrows g with Some v => v | None => g_rows g end /\
  length (lw_vols L) = g_rows g * g_cols g /\
  length (wells_table g) = n_row_ids g /\
  Forall (fun row => length row = g_cols g) (wells_table g).
Proof.
  intro H. inv_built H.
  destruct (size_ok_Some _ _ Brows) as [Hra Hr1]. destruct (size_ok_Some _ _ Bcols) as [Hca Hc1].
  pose proof (vr_of_Ok _ _ _ Bvr) as Hvr.
  subst L. cbn [lw_geom lw_vols g_rows g_cols g_vrows].
  split; [exact Hra|]. split; [exact Hca|]. split; [lia|]. split; [exact Hc1|].
  split; [exact Hvr|]. split; [|split; [rewrite map_length; exact Blen|apply wells_table_shape]].
  unfold n_row_ids. cbn [g_rows g_vrows]. destruct (a_vrows a) as [p|].
  - destruct Hvr as [v [_ [-> [_ Hv]]]]. lia.
  - subst vrows. lia.
Qed.

(** the index map points into the volume array *)
Lemma well_index_range g s rc : wf_geom g -> well_index g s = Some rc ->
  fst rc < g_rows g /\ snd rc < g_cols g.
Proof.
  intros [Hr [Hc Hv]]. unfold well_index. destruct (id_rc s) as [[r c]|]; [|discriminate].
  destruct ((r <? n_row_ids g)%nat && (c <? g_cols g)%nat)%bool eqn:E; [|discriminate].
  apply Bool.andb_true_iff in E. destruct E as [Er Ec].
  apply Nat.ltb_lt in Er. apply Nat.ltb_lt in Ec. intro H. injection H as <-. cbn [fst snd].
  split; [|exact Ec]. unfold n_row_ids in Er. destruct (g_vrows g) as [v|]; lia.
Qed.

Lemma mk_labware_index_range a L w i : mk_labware a = Ok L -> lw_index L w = Some i ->
  i < length (lw_vols L).
Proof.
  intros H Hi. destruct (mk_labware_wf _ _ H) as [[Hg [Hlen _]] _].
  unfold lw_index in Hi. destruct (well_index (lw_geom L) w) as [rc|] eqn:E; [|discriminate].
  injection Hi as <-. destruct (well_index_range _ _ _ Hg E) as [Hr Hc].
  rewrite Hlen. unfold flat_index, n_wells. nia.
Qed.

(* ------------------------------------------------------------------ C20: layout of the volumes *)

(** the value given for flat (row-major) index [i] *)
Definition given_at (init : option (arr xnum)) (i : nat) : xnum :=
  match init with
  | None => XQ 0
  | Some (A0 x) => x
  | Some (A1 xs) => nth i xs XNaN
  | Some (A2 rs) => nth i (concat rs) XNaN
  end.

Lemma flat_of_nth n init xs i : flat_of n init = Some xs -> i < n ->
  nth i xs XNaN = given_at init i.
Proof.
  unfold flat_of, given_at. destruct init as [[x|ys|rs]|].
  - intros H Hi. injection H as <-. apply nth_repeat_lt. exact Hi.
  - destruct (length ys =? n)%nat; [|discriminate]. intros H _. injection H as <-. reflexivity.
  - destruct (length (concat rs) =? n)%nat; [|discriminate]. intros H _. injection H as <-. reflexivity.
  - intros H Hi. injection H as <-. apply nth_repeat_lt. exact Hi.
Qed.

Lemma mk_labware_layout a L : mk_labware a = Ok L ->
  forall i, i < length (lw_vols L) ->
  exists v, given_at (a_init a) i = XQ v /\ nth i (lw_vols L) 0%Q == v /\
            (0 <= v)%Q /\ (v <= lw_max L)%Q.
Proof.
  intro H. inv_built H. subst L. cbn [lw_vols lw_max]. intros i Hi.
  rewrite map_length in Hi. exists (nth i vs 0%Q).
  assert (Hin : In (nth i vs 0%Q) vs) by (apply nth_In; exact Hi).
  split; [|split; [|split; [exact (Bnonneg _ Hin)|exact (Blemax _ Hin)]]].
  - rewrite <- (flat_of_nth _ _ _ i Bflat) by lia. subst xs.
    apply (nth_map_lt XQ vs 0%Q). exact Hi.
  - rewrite (nth_map_lt Qred vs 0%Q) by exact Hi. apply Qred_correct.
Qed.

Lemma layout_none a L : mk_labware a = Ok L -> a_init a = None ->
  forall i, i < length (lw_vols L) -> nth i (lw_vols L) 0%Q == 0.
Proof.
  intros H Hinit i Hi. destruct (mk_labware_layout _ _ H i Hi) as [v [Hg [Hv _]]].
  rewrite Hinit in Hg. cbn [given_at] in Hg. injection Hg as <-. exact Hv.
Qed.

Lemma layout_scalar a L x : mk_labware a = Ok L -> a_init a = Some (A0 x) ->
  exists v, x = XQ v /\ forall i, i < length (lw_vols L) -> nth i (lw_vols L) 0%Q == v.
Proof.
  intros H Hinit. destruct (mk_labware_geometry _ _ H) as [_ [_ [Hr [Hc [_ [_ [Hlen _]]]]]]].
  assert (H0 : 0 < length (lw_vols L)) by (rewrite Hlen; nia).
  destruct (mk_labware_layout _ _ H 0 H0) as [v [Hg _]].
  rewrite Hinit in Hg. cbn [given_at] in Hg. exists v. split; [exact Hg|].
  intros i Hi. destruct (mk_labware_layout _ _ H i Hi) as [v' [Hg' [Hv' _]]].
  rewrite Hinit in Hg'. cbn [given_at] in Hg'. rewrite Hg in Hg'. injection Hg' as <-. exact Hv'.
Qed.

Lemma flat_length a L ar : mk_labware a = Ok L -> a_init a = Some ar ->
  match ar with A0 _ => True | _ => length (flattenC ar) = length (lw_vols L) end.
Proof.
  intros H Hinit. inv_built H. subst L. cbn [lw_vols]. rewrite map_length, Blen.
  rewrite Hinit in Bflat. unfold flat_of in Bflat. destruct ar as [x|ys|rs]; [exact I| |]; cbn [flattenC].
  - destruct (length ys =? rows * cols)%nat eqn:E; [|discriminate]. apply Nat.eqb_eq. exact E.
  - destruct (length (concat rs) =? rows * cols)%nat eqn:E; [|discriminate]. apply Nat.eqb_eq. exact E.
Qed.

Lemma layout_flat a L ys : mk_labware a = Ok L -> a_init a = Some (A1 ys) ->
  length ys = length (lw_vols L) /\
  forall i d, i < length ys -> exists v, nth i ys d = XQ v /\ nth i (lw_vols L) 0%Q == v.
Proof.
  intros H Hinit. pose proof (flat_length _ _ _ H Hinit) as Hlen. cbn [flattenC] in Hlen.
  split; [exact Hlen|]. intros i d Hi. rewrite Hlen in Hi.
  destruct (mk_labware_layout _ _ H i Hi) as [v [Hg [Hv _]]].
  rewrite Hinit in Hg. cbn [given_at] in Hg. exists v. split; [|exact Hv].
  rewrite <- Hg. apply nth_indep. rewrite Hlen. exact Hi.
Qed.

Lemma layout_2d a L rs : mk_labware a = Ok L -> a_init a = Some (A2 rs) ->
  length (concat rs) = length (lw_vols L) /\
  forall i d, i < length (concat rs) ->
    exists v, nth i (concat rs) d = XQ v /\ nth i (lw_vols L) 0%Q == v.
Proof.
  intros H Hinit. pose proof (flat_length _ _ _ H Hinit) as Hlen. cbn [flattenC] in Hlen.
  split; [exact Hlen|]. intros i d Hi. rewrite Hlen in Hi.
  destruct (mk_labware_layout _ _ H i Hi) as [v [Hg [Hv _]]].
  rewrite Hinit in Hg. cbn [given_at] in Hg. exists v. split; [|exact Hv].
  rewrite <- Hg. apply nth_indep. rewrite Hlen. exact Hi.
Qed.

Lemma concat_rect_length {A} (rs : list (list A)) c :
  Forall (fun r => length r = c) rs -> length (concat rs) = length rs * c.
Proof.
  induction rs as [|r rr IH]; intro H; [reflexivity|].
  inversion H as [|x xs Hx Hr]; subst. cbn [concat length]. rewrite app_length, IH by exact Hr. lia.
Qed.

Lemma concat_rect_nth {A} (rs : list (list A)) c d : Forall (fun r => length r = c) rs ->
  forall r j, r < length rs -> j < c -> nth (r * c + j) (concat rs) d = nth j (nth r rs []) d.
Proof.
  induction rs as [|r0 rr IH]; intros H r j Hr Hj; [cbn in Hr; lia|].
  inversion H as [|x xs Hx Hrr]; subst. cbn [concat]. destruct r as [|r].
  - cbn [nth Nat.mul Nat.add]. apply app_nth1. lia.
  - rewrite app_nth2 by nia. cbn [nth]. rewrite <- (IH Hrr r j) by (cbn in Hr; lia).
    f_equal. lia.
Qed.

(** a rectangular 2-D argument is read row by row *)
Lemma layout_2d_rect a L rs : mk_labware a = Ok L -> a_init a = Some (A2 rs) ->
  Forall (fun r => length r = g_cols (lw_geom L)) rs ->
  length rs = g_rows (lw_geom L) /\
  forall r c d, r < g_rows (lw_geom L) -> c < g_cols (lw_geom L) ->
    exists v, nth c (nth r rs []) d = XQ v /\
              nth (r * g_cols (lw_geom L) + c) (lw_vols L) 0%Q == v.
Proof.
  intros H Hinit Hrect. destruct (layout_2d _ _ _ H Hinit) as [Hlen Hnth].
  destruct (mk_labware_geometry _ _ H) as [_ [_ [_ [Hc [_ [_ [Hlv _]]]]]]].
  rewrite (concat_rect_length _ _ Hrect) in Hlen. rewrite Hlv in Hlen.
  assert (Hrows : length rs = g_rows (lw_geom L)) by nia.
  split; [exact Hrows|]. intros r c d Hr Hcc.
  assert (Hi : r * g_cols (lw_geom L) + c < length (concat rs)).
  { rewrite (concat_rect_length _ _ Hrect), Hrows. nia. }
  destruct (Hnth _ d Hi) as [v [Hv1 Hv2]]. exists v. split; [|exact Hv2].
  rewrite <- Hv1. symmetry. apply concat_rect_nth; [exact Hrect|lia|exact Hcc].
Qed.

(* ------------------------------------------------------------------ C20: limits and history *)

Lemma mk_labware_limits a L : mk_labware a = Ok L ->
  a_min a = XQ (lw_min L) /\ a_max a = XQ (lw_max L) /\
  (0 <= lw_min L)%Q /\ (lw_min L < lw_max L)%Q.
Proof.
  intro H. inv_built H. subst L. cbn [lw_min lw_max].
  split; [exact Bmin|]. split; [exact Bmax|]. split; [exact Bmin0|exact Bminmax].
Qed.

Lemma mk_labware_history a L : mk_labware a = Ok L ->
  lw_hist L = [(Some "initial"%string, lw_vols L)] /\ lw_name L = a_name a.
Proof. intro H. inv_built H. subst L. cbn [lw_hist lw_vols lw_name]. split; reflexivity. Qed.

(* ------------------------------------------------------------------ C20: composition *)

(** id of the real well with flat index [i] *)
Definition id_of (g : geom) (i : nat) : string := well_id (i / g_cols g) (i mod g_cols g).

(** the component that fills well [i] of a [Labware] initially *)
Definition lw_comp_name (a : lw_args) (L : labware) (i : nat) : string :=
  comp_name (a_name a) (1 <? g_rows (lw_geom L) * g_cols (lw_geom L))%nat (a_names a) (id_of (lw_geom L) i).

Lemma mk_labware_composition a L : mk_labware a = Ok L ->
  let n := n_wells (lw_geom L) in
  NoDup (map fst (lw_comp L)) /\
  Forall (fun ka => length (snd ka) = n) (lw_comp L) /\
  (forall k arr, In (k, arr) (lw_comp L) ->
     exists i, i < n /\ ~ nth i (lw_vols L) 0%Q == 0 /\ lw_comp_name a L i = k) /\
  (forall i, i < n -> nth i (lw_vols L) 0%Q == 0 ->
     given_name (a_names a) (id_of (lw_geom L) i) = None /\
     forall k arr, In (k, arr) (lw_comp L) -> nth i arr 0%Q = 0%Q) /\
  (forall i, i < n -> ~ nth i (lw_vols L) 0%Q == 0 ->
     exists arr, In (lw_comp_name a L i, arr) (lw_comp L) /\ nth i arr 0%Q = 1%Q /\
       forall k' arr', In (k', arr') (lw_comp L) -> k' <> lw_comp_name a L i -> nth i arr' 0%Q = 0%Q).
Proof.
  intro H. inv_built H.
  assert (Hlv : length (map Qred vs) = rows * cols) by (rewrite map_length; exact Blen).
  destruct (ic_top _ _ _ _ _ _ _ Bcomp (real_ids_length rows cols) Hlv)
    as [Hnd [Hlen [Hkeys [Hzero Hone]]]].
  subst L. unfold lw_comp_name, id_of, n_wells. cbn [lw_geom lw_vols lw_comp g_rows g_cols].
  split; [exact Hnd|]. split; [exact Hlen|]. split; [|split].
  - intros k arr Hin. destruct (Hkeys k arr Hin) as [j [Hj [Hv Hk]]].
    exists j. rewrite (real_ids_nth _ _ _ _ Hj) in Hk. repeat split; assumption.
  - intros i Hi Hv. destruct (Hzero i Hi Hv) as [Hg Hz].
    rewrite (real_ids_nth _ _ _ _ Hi) in Hg. split; assumption.
  - intros i Hi Hv. destruct (Hone i Hi Hv) as [arr Harr].
    rewrite (real_ids_nth _ _ _ _ Hi) in Harr. exists arr. exact Harr.
Qed.

(** the keys of [component_names] are real wells of the labware *)
Lemma mk_labware_names_real a L w s : mk_labware a = Ok L -> In (w, s) (a_names a) ->
  exists r c, r < g_rows (lw_geom L) /\ c < g_cols (lw_geom L) /\ w = well_id r c.
Proof.
  intros H Hin. inv_built H. subst L. cbn [lw_geom g_rows g_cols].
  apply real_ids_In. exact (Bnames w s Hin).
Qed.

(* ------------------------------------------------------------------ C20: rejected specifications *)

Lemma reject_rows a :
  a_rows a = PNotInt \/ (exists z, a_rows a = PInt z /\ (z < 1 \/ 26 < z)%Z) ->
  mk_labware a = Err EValue.
Proof.
  intro Hc. apply mk_labware_not_ok. intros L H. inv_built H.
  destruct (size_ok_Some _ _ Brows) as [Hra Hr1]. rewrite Hra in Hc.
  destruct Hc as [Hc|[z [Hc Hz]]]; [discriminate|]. injection Hc as <-. lia.
Qed.

Lemma reject_cols a :
  a_cols a = PNotInt \/ (exists z, a_cols a = PInt z /\ (z < 1)%Z) ->
  mk_labware a = Err EValue.
Proof.
  intro Hc. apply mk_labware_not_ok. intros L H. inv_built H.
  destruct (size_ok_Some _ _ Bcols) as [Hca Hc1]. rewrite Hca in Hc.
  destruct Hc as [Hc|[z [Hc Hz]]]; [discriminate|]. injection Hc as <-. lia.
Qed.

Lemma reject_vrows_multirow a p :
  a_vrows a = Some p -> a_rows a <> PInt 1 -> mk_labware a = Err EValue.
Proof.
  intros Hp Hne. apply mk_labware_not_ok. intros L H. inv_built H.
  destruct (size_ok_Some _ _ Brows) as [Hra _]. apply vr_of_Ok in Bvr. rewrite Hp in Bvr.
  destruct Bvr as [v [_ [_ [H1 _]]]]. subst rows. exact (Hne Hra).
Qed.

Lemma reject_vrows_invalid a p :
  a_vrows a = Some p -> p = PNotInt \/ (exists z, p = PInt z /\ (z < 1 \/ 26 < z)%Z) ->
  mk_labware a = Err EValue.
Proof.
  intros Hp Hc. apply mk_labware_not_ok. intros L H. inv_built H.
  apply vr_of_Ok in Bvr. rewrite Hp in Bvr. destruct Bvr as [v [Hpv [_ [_ Hv]]]]. subst p.
  destruct Hc as [Hc|[z [Hc Hz]]]; [discriminate|]. injection Hc as <-. lia.
Qed.

Lemma reject_limits_not_finite a :
  xfinite (a_min a) = None \/ xfinite (a_max a) = None -> mk_labware a = Err EValue.
Proof.
  intro Hc. apply mk_labware_not_ok. intros L H. inv_built H.
  rewrite Bmin, Bmax in Hc. cbn [xfinite] in Hc. destruct Hc as [Hc|Hc]; discriminate.
Qed.

Lemma reject_min_negative a lo : a_min a = XQ lo -> (lo < 0)%Q -> mk_labware a = Err EValue.
Proof.
  intros Hm Hneg. apply mk_labware_not_ok. intros L H. inv_built H.
  rewrite Hm in Bmin. injection Bmin as <-. lra.
Qed.

Lemma reject_max_le_min a lo hi :
  a_min a = XQ lo -> a_max a = XQ hi -> (hi <= lo)%Q -> mk_labware a = Err EValue.
Proof.
  intros Hm Hx Hle. apply mk_labware_not_ok. intros L H. inv_built H.
  rewrite Hm in Bmin. injection Bmin as <-. rewrite Hx in Bmax. injection Bmax as <-. lra.
Qed.

Lemma flat_of_In n ar xs x : 1 <= n -> flat_of n (Some ar) = Some xs -> In x (flattenC ar) -> In x xs.
Proof.
  intros Hn. unfold flat_of. destruct ar as [y|ys|rs]; cbn [flattenC].
  - intros H [Hx|[]]. injection H as <-. subst y. destruct n as [|n]; [lia|]. left. reflexivity.
  - destruct (length ys =? n)%nat; [|discriminate]. intros H Hx. injection H as <-. exact Hx.
  - destruct (length (concat rs) =? n)%nat; [|discriminate]. intros H Hx. injection H as <-. exact Hx.
Qed.

(** an initial volume that is NaN / infinite, negative, or above [max_volume] *)
Lemma reject_bad_volume a ar x :
  a_init a = Some ar -> In x (flattenC ar) ->
  xfinite x = None \/
  (exists v, x = XQ v /\ ((v < 0)%Q \/ exists mx, a_max a = XQ mx /\ (mx < v)%Q)) ->
  mk_labware a = Err EValue.
Proof.
  intros Hinit Hx Hc. apply mk_labware_not_ok. intros L H. inv_built H.
  destruct (size_ok_Some _ _ Brows) as [_ Hr1]. destruct (size_ok_Some _ _ Bcols) as [_ Hc1].
  rewrite Hinit in Bflat. assert (Hn : 1 <= rows * cols) by nia.
  pose proof (flat_of_In _ _ _ _ Hn Bflat Hx) as Hin. subst xs.
  apply in_map_iff in Hin. destruct Hin as [v [<- Hv]].
  destruct Hc as [Hc|[v' [Hv' Hc]]]; [discriminate|]. injection Hv' as <-.
  destruct Hc as [Hc|[mx' [Hmx Hc]]].
  - pose proof (Bnonneg v Hv). lra.
  - rewrite Hmx in Bmax. injection Bmax as <-. pose proof (Blemax v Hv). lra.
Qed.

(** a flat or 2-D list whose total size is not rows x columns *)
Lemma reject_wrong_size a ar zr zc :
  a_init a = Some ar -> (match ar with A0 _ => False | _ => True end) ->
  a_rows a = PInt zr -> a_cols a = PInt zc ->
  Z.of_nat (length (flattenC ar)) <> (zr * zc)%Z ->
  mk_labware a = Err EValue.
Proof.
  intros Hinit Hshape Hr Hc Hne. apply mk_labware_not_ok. intros L H.
  pose proof (flat_length _ _ _ H Hinit) as Hlen.
  destruct (mk_labware_geometry _ _ H) as [Hra [Hca [_ [_ [_ [_ [Hlv _]]]]]]].
  rewrite Hr in Hra. injection Hra as ->. rewrite Hc in Hca. injection Hca as ->.
  apply Hne. destruct ar as [x|ys|rs]; [destruct Hshape| |]; rewrite Hlen, Hlv; lia.
Qed.

(** a component name for an id that is not a real well *)
Lemma reject_unknown_well a w s zr zc :
  In (w, s) (a_names a) -> a_rows a = PInt zr -> a_cols a = PInt zc ->
  (forall r c, (Z.of_nat r < zr)%Z -> (Z.of_nat c < zc)%Z -> w <> well_id r c) ->
  mk_labware a = Err EValue.
Proof.
  intros Hin Hr Hc Hne. apply mk_labware_not_ok. intros L H.
  destruct (mk_labware_names_real _ _ _ _ H Hin) as [r [c [Hrr [Hcc Hw]]]].
  destruct (mk_labware_geometry _ _ H) as [Hra [Hca _]].
  rewrite Hr in Hra. injection Hra as ->. rewrite Hc in Hca. injection Hca as ->.
  apply (Hne r c); [lia|lia|exact Hw].
Qed.

(** a (non-None) component name for a well whose initial volume is 0 *)
Lemma reject_named_empty a R C i v s :
  a_rows a = PInt (Z.of_nat R) -> a_cols a = PInt (Z.of_nat C) -> i < R * C ->
  given_at (a_init a) i = XQ v -> v == 0 ->
  assoc_get (well_id (i / C) (i mod C)) (a_names a) = Some (Some s) ->
  mk_labware a = Err EValue.
Proof.
  intros Hr Hc Hi Hg Hv Hs. apply mk_labware_not_ok. intros L H.
  destruct (mk_labware_geometry _ _ H) as [Hra [Hca [_ [_ [_ [_ [Hlv _]]]]]]].
  rewrite Hr in Hra. injection Hra as Hra. apply Nat2Z.inj in Hra.
  rewrite Hc in Hca. injection Hca as Hca. apply Nat2Z.inj in Hca.
  assert (Hi' : i < length (lw_vols L)) by (rewrite Hlv, <- Hra, <- Hca; exact Hi).
  destruct (mk_labware_layout _ _ H i Hi') as [v' [Hg' [Hv' _]]].
  rewrite Hg in Hg'. injection Hg' as <-.
  destruct (mk_labware_composition _ _ H) as [_ [_ [_ [Hzero _]]]].
  assert (Hz : nth i (lw_vols L) 0%Q == 0) by (rewrite Hv'; exact Hv).
  assert (Hin : i < n_wells (lw_geom L)) by (unfold n_wells; rewrite <- Hlv; exact Hi').
  destruct (Hzero i Hin Hz) as [Hnone _].
  unfold given_name, id_of in Hnone. rewrite <- Hca, Hs in Hnone. discriminate.
Qed.

(* ------------------------------------------------------------------ ids: columns are told apart *)

Lemma parse_decN_decN n : parse_decN (decN n) = Some n.
Proof.
  unfold parse_decN, decN. destruct (NilEmpty.string_of_uint (N.to_uint n)) as [|ch rest] eqn:E.
  - exfalso. pose proof (DecimalN.Unsigned.of_to n) as Hn.
    destruct (N.to_uint n) eqn:Eu; cbn in E; try discriminate.
    cbn in Hn. subst n. cbn in Eu. discriminate.
  - rewrite <- E, NilEmpty.usu, DecimalN.Unsigned.of_to. reflexivity.
Qed.

Lemma parse_decN_pad2N n : parse_decN (pad2N n) = Some n.
Proof.
  unfold pad2N. destruct (n <? 10)%N; [|apply parse_decN_decN].
  unfold parse_decN, decN. cbn [NilEmpty.uint_of_string]. rewrite NilEmpty.usu.
  cbn [uint_of_char]. change (N.of_uint (Decimal.D0 (N.to_uint n))) with (N.of_uint (N.to_uint n)).
  rewrite DecimalN.Unsigned.of_to. reflexivity.
Qed.

Lemma pad2_inj m k : pad2 m = pad2 k -> m = k.
Proof.
  unfold pad2. intro H. apply Nnat.Nat2N.inj.
  pose proof (parse_decN_pad2N (N.of_nat m)) as Hm. rewrite H, parse_decN_pad2N in Hm.
  injection Hm as Hm. symmetry. exact Hm.
Qed.

Lemma well_id_col_inj r c c' : well_id r c = well_id r c' -> c = c'.
Proof. unfold well_id. intro H. injection H as H. apply pad2_inj in H. lia. Qed.

(* ------------------------------------------------------------------ Trough *)

(** the default / given name of trough column [c] *)
Definition trough_cname (name : string) (multi : bool) (n : option string) (v : xnum) (c : nat)
    : option string :=
  match n with
  | Some s => Some s
  | None => if xnum_pos v
            then Some (if multi then (name ++ ".column_" ++ pad2 (c + 1))%string else name)
            else None
  end.

Lemma trough_names_get name multi cn : forall iv c0 c,
  c0 <= c -> c - c0 < length cn -> c - c0 < length iv ->
  assoc_get (well_id 0 c) (trough_names name multi c0 cn iv) =
  Some (trough_cname name multi (nth (c - c0) cn None) (nth (c - c0) iv XNaN) c).
Proof.
  induction cn as [|n nr IH]; intros iv c0 c Hc H1 H2; [cbn in H1; lia|].
  destruct iv as [|v vr]; [cbn in H2; lia|].
  cbn [trough_names assoc_get]. destruct (Nat.eq_dec c c0) as [->|Hne].
  - rewrite String.eqb_refl, Nat.sub_diag. reflexivity.
  - destruct (String.eqb (well_id 0 c0) (well_id 0 c)) eqn:E.
    + apply String.eqb_eq in E. apply well_id_col_inj in E. lia.
    + cbn [length] in H1, H2. rewrite (IH vr (S c0) c) by lia.
      replace (c - c0) with (S (c - S c0)) by lia. reflexivity.
Qed.

Definition t_cn (a : trough_args) (ncol : nat) : list (option string) :=
  match t_colnames a with
  | CNone => repeat None ncol
  | CStr s => [Some s]
  | CList l => l
  end.

Definition t_ivs (a : trough_args) (ncol : nat) : option (list xnum) :=
  match t_init a with
  | A0 x => Some (repeat x ncol)
  | A1 xs => Some xs
  | A2 _ => None
  end.

Definition trough_lw_args (a : trough_args) (ncol : nat) (ivs : list xnum) : lw_args :=
  {| a_name := t_name a; a_rows := PInt 1; a_cols := t_cols a;
     a_min := t_min a; a_max := t_max a;
     a_init := Some (A1 ivs);
     a_vrows := Some (t_vrows a);
     a_names := trough_names (t_name a) (1 <? ncol)%nat 0 (t_cn a ncol) ivs |}.

Definition named_empty (p : option string * xnum) : bool :=
  match fst p with Some _ => xnum_is_zero (snd p) | None => false end.

Lemma mk_trough_unfold a :
  mk_trough a =
  match t_cols a with
  | PNotInt => Err EValue
  | PInt zc =>
      match t_ivs a (Z.to_nat zc) with
      | None => Err EValue
      | Some ivs =>
          if (zc <? 0)%Z then Err EValue
          else if negb (length (t_cn a (Z.to_nat zc)) =? Z.to_nat zc)%nat then Err EValue
          else if negb (length ivs =? Z.to_nat zc)%nat then Err EValue
          else if existsb named_empty (zip (t_cn a (Z.to_nat zc)) ivs) then Err EValue
          else mk_labware (trough_lw_args a (Z.to_nat zc) ivs)
      end
  end.
Proof. reflexivity. Qed.

Lemma mk_trough_err a e : mk_trough a = Err e -> e = EValue.
Proof.
  rewrite mk_trough_unfold. destruct (t_cols a) as [zc|]; [|intro H; injection H as <-; reflexivity].
  destruct (t_ivs a (Z.to_nat zc)) as [ivs|]; [|intro H; injection H as <-; reflexivity].
  destruct (zc <? 0)%Z; [intro H; injection H as <-; reflexivity|].
  destruct (negb _); [intro H; injection H as <-; reflexivity|].
  destruct (negb _); [intro H; injection H as <-; reflexivity|].
  destruct (existsb _ _); [intro H; injection H as <-; reflexivity|].
  apply mk_labware_err.
Qed.

Lemma mk_trough_not_ok a : (forall L, mk_trough a <> Ok L) -> mk_trough a = Err EValue.
Proof.
  intro H. destruct (mk_trough a) as [L|e] eqn:E; [exfalso; exact (H L eq_refl)|].
  rewrite (mk_trough_err _ _ E). reflexivity.
Qed.

Lemma mk_trough_inv a L : mk_trough a = Ok L ->
  exists ncol ivs,
    t_cols a = PInt (Z.of_nat ncol) /\ t_ivs a ncol = Some ivs /\
    length (t_cn a ncol) = ncol /\ length ivs = ncol /\
    existsb named_empty (zip (t_cn a ncol) ivs) = false /\
    mk_labware (trough_lw_args a ncol ivs) = Ok L.
Proof.
  rewrite mk_trough_unfold. destruct (t_cols a) as [zc|] eqn:Ec; [|discriminate].
  destruct (t_ivs a (Z.to_nat zc)) as [ivs|] eqn:Eiv; [|discriminate].
  destruct (zc <? 0)%Z eqn:Ez; [discriminate|]. apply Z.ltb_ge in Ez.
  destruct (length (t_cn a (Z.to_nat zc)) =? Z.to_nat zc)%nat eqn:E1; cbn [negb]; [|discriminate].
  destruct (length ivs =? Z.to_nat zc)%nat eqn:E2; cbn [negb]; [|discriminate].
  destruct (existsb _ _) eqn:E3; [discriminate|].
  intro H. exists (Z.to_nat zc), ivs. rewrite Z2Nat.id by exact Ez.
  apply Nat.eqb_eq in E1. apply Nat.eqb_eq in E2. repeat split; assumption.
Qed.

Ltac inv_trough H :=
  destruct (mk_trough_inv _ _ H) as (ncol & ivs & Tcols & Tivs & Tcn & Tlen & Tne & Tlw).

Lemma mk_trough_wf a L : mk_trough a = Ok L -> wf_labware L.
Proof. intro H. inv_trough H. exact (mk_labware_wf _ _ Tlw). Qed.

Lemma mk_trough_geometry a L : mk_trough a = Ok L ->
  let g := lw_geom L in
  g_rows g = 1 /\ t_cols a = PInt (Z.of_nat (g_cols g)) /\ 1 <= g_cols g /\
  (exists v, t_vrows a = PInt (Z.of_nat v) /\ g_vrows g = Some v /\ 1 <= v <= 26 /\ n_row_ids g = v) /\
  length (lw_vols L) = g_cols g /\
  length (wells_table g) = n_row_ids g /\
  Forall (fun row => length row = g_cols g) (wells_table g).
Proof.
  intro H. inv_trough H.
  destruct (mk_labware_geometry _ _ Tlw) as [Hr [Hc [_ [Hc1 [Hv [Hn [Hlen [Ht1 Ht2]]]]]]]].
  cbn [trough_lw_args a_rows a_cols a_vrows] in Hr, Hc, Hv.
  destruct Hv as [v [Hv1 [Hv2 [Hr1 Hv3]]]].
  cbn zeta. split; [exact Hr1|]. split; [exact Hc|]. split; [exact Hc1|].
  split; [|split; [rewrite Hlen, Hr1; lia|split; assumption]].
  exists v. rewrite Hv2 in Hn. repeat split; try assumption; lia.
Qed.

Lemma trough_ncol a L ncol : mk_trough a = Ok L -> t_cols a = PInt (Z.of_nat ncol) ->
  ncol = g_cols (lw_geom L).
Proof.
  intros H Hc. destruct (mk_trough_geometry _ _ H) as [_ [Hc' _]].
  rewrite Hc in Hc'. injection Hc' as Hc'. apply Nat2Z.inj. exact Hc'.
Qed.

(** per-column initial volumes *)
Lemma mk_trough_layout a L : mk_trough a = Ok L ->
  forall c, c < g_cols (lw_geom L) ->
  exists v, match t_init a with A0 x => x | A1 xs => nth c xs XNaN | A2 _ => XNaN end = XQ v /\
            nth c (lw_vols L) 0%Q == v /\ (0 <= v)%Q /\ (v <= lw_max L)%Q.
Proof.
  intros H c Hc. pose proof H as H'. inv_trough H'.
  pose proof (trough_ncol _ _ _ H Tcols) as Hn.
  destruct (mk_trough_geometry _ _ H) as [_ [_ [_ [_ [Hlen _]]]]].
  assert (Hc' : c < length (lw_vols L)) by (rewrite Hlen; exact Hc).
  destruct (mk_labware_layout _ _ Tlw c Hc') as [v [Hg Hv]].
  cbn [trough_lw_args a_init given_at] in Hg. exists v. split; [|exact Hv].
  rewrite <- Hg. unfold t_ivs in Tivs. destruct (t_init a) as [x|xs|rs]; [| |discriminate].
  - injection Tivs as <-. symmetry. apply nth_repeat_lt. lia.
  - injection Tivs as <-. reflexivity.
Qed.

Lemma trough_layout_scalar a L x : mk_trough a = Ok L -> t_init a = A0 x ->
  exists v, x = XQ v /\ forall c, c < g_cols (lw_geom L) -> nth c (lw_vols L) 0%Q == v.
Proof.
  intros H Hinit. destruct (mk_trough_geometry _ _ H) as [_ [_ [Hc1 _]]].
  destruct (mk_trough_layout _ _ H 0 Hc1) as [v [Hx _]]. rewrite Hinit in Hx.
  exists v. split; [exact Hx|]. intros c Hc.
  destruct (mk_trough_layout _ _ H c Hc) as [v' [Hx' [Hv' _]]]. rewrite Hinit, Hx in Hx'.
  injection Hx' as <-. exact Hv'.
Qed.

Lemma trough_layout_list a L xs : mk_trough a = Ok L -> t_init a = A1 xs ->
  length xs = g_cols (lw_geom L) /\
  forall c d, c < length xs -> exists v, nth c xs d = XQ v /\ nth c (lw_vols L) 0%Q == v.
Proof.
  intros H Hinit. pose proof H as H'. inv_trough H'.
  pose proof (trough_ncol _ _ _ H Tcols) as Hn.
  unfold t_ivs in Tivs. rewrite Hinit in Tivs. injection Tivs as <-.
  split; [lia|]. intros c d Hc.
  assert (Hc' : c < g_cols (lw_geom L)) by lia.
  destruct (mk_trough_layout _ _ H c Hc') as [v [Hx [Hv _]]]. rewrite Hinit in Hx.
  exists v. split; [|exact Hv]. rewrite <- Hx. apply nth_indep. exact Hc.
Qed.

Lemma mk_trough_limits a L : mk_trough a = Ok L ->
  t_min a = XQ (lw_min L) /\ t_max a = XQ (lw_max L) /\
  (0 <= lw_min L)%Q /\ (lw_min L < lw_max L)%Q.
Proof. intro H. inv_trough H. exact (mk_labware_limits _ _ Tlw). Qed.

Lemma mk_trough_history a L : mk_trough a = Ok L ->
  lw_hist L = [(Some "initial"%string, lw_vols L)] /\ lw_name L = t_name a.
Proof. intro H. inv_trough H. exact (mk_labware_history _ _ Tlw). Qed.

(** the component that fills column [c] of a [Trough] initially *)
Definition trough_comp_name (a : trough_args) (L : labware) (c : nat) : string :=
  match nth c (t_cn a (g_cols (lw_geom L))) None with
  | Some s => s
  | None => if (1 <? g_cols (lw_geom L))%nat
            then (t_name a ++ ".column_" ++ pad2 (c + 1))%string else t_name a
  end.

Lemma trough_given a L ncol ivs c :
  mk_trough a = Ok L -> ncol = g_cols (lw_geom L) ->
  length (t_cn a ncol) = ncol -> length ivs = ncol -> c < ncol ->
  given_name (a_names (trough_lw_args a ncol ivs)) (id_of (lw_geom L) c) =
  trough_cname (t_name a) (1 <? ncol)%nat (nth c (t_cn a ncol) None) (nth c ivs XNaN) c.
Proof.
  intros H Hn Hcn Hiv Hc. unfold given_name, id_of. cbn [trough_lw_args a_names].
  rewrite <- Hn. rewrite Nat.div_small, Nat.mod_small by exact Hc.
  rewrite (trough_names_get _ _ _ _ 0 c) by lia. rewrite Nat.sub_0_r.
  destruct (trough_cname _ _ _ _ _); reflexivity.
Qed.

Lemma mk_trough_composition a L : mk_trough a = Ok L ->
  let n := g_cols (lw_geom L) in
  NoDup (map fst (lw_comp L)) /\
  Forall (fun ka => length (snd ka) = n) (lw_comp L) /\
  (forall k arr, In (k, arr) (lw_comp L) ->
     exists c, c < n /\ ~ nth c (lw_vols L) 0%Q == 0 /\ trough_comp_name a L c = k) /\
  (forall c, c < n -> nth c (lw_vols L) 0%Q == 0 ->
     nth c (t_cn a n) None = None /\
     forall k arr, In (k, arr) (lw_comp L) -> nth c arr 0%Q = 0%Q) /\
  (forall c, c < n -> ~ nth c (lw_vols L) 0%Q == 0 ->
     exists arr, In (trough_comp_name a L c, arr) (lw_comp L) /\ nth c arr 0%Q = 1%Q /\
       forall k' arr', In (k', arr') (lw_comp L) -> k' <> trough_comp_name a L c -> nth c arr' 0%Q = 0%Q).
Proof.
  intro H. pose proof H as H'. inv_trough H'.
  pose proof (trough_ncol _ _ _ H Tcols) as Hn.
  destruct (mk_trough_geometry _ _ H) as [Hr1 [_ [_ [_ [Hlen _]]]]].
  destruct (mk_labware_composition _ _ Tlw) as [Hnd [Hl [Hkeys [Hzero Hone]]]].
  assert (Hnw : n_wells (lw_geom L) = g_cols (lw_geom L)) by (unfold n_wells; rewrite Hr1; lia).
  rewrite Hnw in Hl, Hkeys, Hzero, Hone.
  (* the name of a non-empty column *)
  assert (Hname : forall c, c < g_cols (lw_geom L) -> ~ nth c (lw_vols L) 0%Q == 0 ->
            lw_comp_name (trough_lw_args a ncol ivs) L c = trough_comp_name a L c).
  { intros c Hc Hv. unfold lw_comp_name, comp_name.
    rewrite (trough_given a L ncol ivs c H Hn Tcn Tlen) by lia.
    cbn [trough_lw_args a_name]. rewrite Hr1. change (1 <? 1)%nat with false.
    unfold trough_comp_name, trough_cname. rewrite <- Hn.
    destruct (nth c (t_cn a ncol) None) as [s|]; [reflexivity|].
    assert (Hc' : c < length (lw_vols L)) by (rewrite Hlen; exact Hc).
    destruct (mk_labware_layout _ _ Tlw c Hc') as [v [Hg [Hv1 [Hv2 _]]]].
    cbn [trough_lw_args a_init given_at] in Hg. rewrite Hg. cbn [xnum_pos].
    assert (Hpos : (0 < v)%Q).
    { destruct (Qlt_le_dec 0 v) as [Hlt|Hle]; [exact Hlt|]. exfalso. apply Hv. rewrite Hv1. lra. }
    rewrite (Qltb_true_intro _ _ Hpos). reflexivity. }
  cbn zeta. split; [exact Hnd|]. split; [exact Hl|]. split; [|split].
  - intros k arr Hin. destruct (Hkeys k arr Hin) as [c [Hc [Hv Hk]]].
    exists c. rewrite (Hname c Hc Hv) in Hk. repeat split; assumption.
  - intros c Hc Hv. destruct (Hzero c Hc Hv) as [Hg Hz]. split; [|exact Hz].
    rewrite (trough_given a L ncol ivs c H Hn Tcn Tlen) in Hg by lia.
    rewrite <- Hn. unfold trough_cname in Hg.
    destruct (nth c (t_cn a ncol) None) as [s|]; [discriminate|reflexivity].
  - intros c Hc Hv. destruct (Hone c Hc Hv) as [arr Harr]. rewrite (Hname c Hc Hv) in Harr.
    exists arr. exact Harr.
Qed.

(* ------------------------------------------------------------------ Trough: rejected specifications *)

Lemma treject_cols a :
  t_cols a = PNotInt \/ (exists z, t_cols a = PInt z /\ (z < 1)%Z) -> mk_trough a = Err EValue.
Proof.
  intro Hc. apply mk_trough_not_ok. intros L H.
  destruct (mk_trough_geometry _ _ H) as [_ [Hcols [Hc1 _]]]. rewrite Hcols in Hc.
  destruct Hc as [Hc|[z [Hc Hz]]]; [discriminate|]. injection Hc as <-. lia.
Qed.

Lemma treject_vrows a :
  t_vrows a = PNotInt \/ (exists z, t_vrows a = PInt z /\ (z < 1 \/ 26 < z)%Z) ->
  mk_trough a = Err EValue.
Proof.
  intro Hc. apply mk_trough_not_ok. intros L H.
  destruct (mk_trough_geometry _ _ H) as [_ [_ [_ [[v [Hv [_ [Hv1 _]]]] _]]]]. rewrite Hv in Hc.
  destruct Hc as [Hc|[z [Hc Hz]]]; [discriminate|]. injection Hc as <-. lia.
Qed.

Lemma treject_colnames_length a z :
  t_cols a = PInt z ->
  match t_colnames a with
  | CNone => False
  | CStr _ => z <> 1%Z
  | CList l => Z.of_nat (length l) <> z
  end -> mk_trough a = Err EValue.
Proof.
  intros Hz Hc. apply mk_trough_not_ok. intros L H. inv_trough H.
  rewrite Hz in Tcols. injection Tcols as ->. unfold t_cn in Tcn.
  destruct (t_colnames a) as [|s|l]; [exact Hc| |]; cbn [length] in Tcn; apply Hc; lia.
Qed.

Lemma treject_init_shape a z :
  t_cols a = PInt z ->
  match t_init a with
  | A0 _ => False
  | A1 xs => Z.of_nat (length xs) <> z
  | A2 _ => True
  end -> mk_trough a = Err EValue.
Proof.
  intros Hz Hc. apply mk_trough_not_ok. intros L H. inv_trough H.
  rewrite Hz in Tcols. injection Tcols as ->. unfold t_ivs in Tivs.
  destruct (t_init a) as [x|xs|rs]; [exact Hc| |discriminate].
  injection Tivs as <-. apply Hc. lia.
Qed.

Lemma zip_nth_In {A B} (l1 : list A) (l2 : list B) d1 d2 : forall i,
  i < length l1 -> i < length l2 -> In (nth i l1 d1, nth i l2 d2) (zip l1 l2).
Proof.
  revert l2. induction l1 as [|x r IH]; intros l2 i H1 H2; [cbn in H1; lia|].
  destruct l2 as [|y r2]; [cbn in H2; lia|]. destruct i as [|i]; cbn [zip nth].
  - left. reflexivity.
  - right. apply IH; cbn in H1, H2; lia.
Qed.

(** a column name for an empty column *)
Lemma treject_named_empty a z c s v :
  t_cols a = PInt z -> c < Z.to_nat z ->
  nth c (t_cn a (Z.to_nat z)) None = Some s ->
  match t_init a with A0 x => x | A1 xs => nth c xs XNaN | A2 _ => XNaN end = XQ v -> v == 0 ->
  mk_trough a = Err EValue.
Proof.
  intros Hz Hc Hs Hx Hv. apply mk_trough_not_ok. intros L H. inv_trough H.
  rewrite Hz in Tcols. injection Tcols as ->. rewrite Nat2Z.id in Hc, Hs.
  assert (Hin : In (nth c (t_cn a ncol) None, nth c ivs XNaN) (zip (t_cn a ncol) ivs))
    by (apply zip_nth_In; lia).
  pose proof (existsb_false_forall _ _ Tne _ Hin) as Hf.
  unfold named_empty in Hf. cbn [fst snd] in Hf. rewrite Hs in Hf.
  assert (Hiv : nth c ivs XNaN = XQ v).
  { rewrite <- Hx. unfold t_ivs in Tivs. destruct (t_init a) as [x|xs|rs]; [| |discriminate].
    - injection Tivs as <-. apply nth_repeat_lt. exact Hc.
    - injection Tivs as <-. reflexivity. }
  rewrite Hiv in Hf. cbn [xnum_is_zero] in Hf. apply Qeq_bool_neq in Hf. contradiction.
Qed.

Lemma treject_limits a :
  xfinite (t_min a) = None \/ xfinite (t_max a) = None \/
  (exists lo hi, t_min a = XQ lo /\ t_max a = XQ hi /\ ((lo < 0)%Q \/ (hi <= lo)%Q)) ->
  mk_trough a = Err EValue.
Proof.
  intro Hc. apply mk_trough_not_ok. intros L H.
  destruct (mk_trough_limits _ _ H) as [Hmin [Hmax [H0 Hlt]]]. rewrite Hmin, Hmax in Hc.
  destruct Hc as [Hc|[Hc|[lo [hi [Hlo [Hhi Hc]]]]]]; try discriminate.
  injection Hlo as <-. injection Hhi as <-. lra.
Qed.

Lemma treject_bad_volume a x :
  In x (flattenC (t_init a)) ->
  xfinite x = None \/
  (exists v, x = XQ v /\ ((v < 0)%Q \/ exists hi, t_max a = XQ hi /\ (hi < v)%Q)) ->
  mk_trough a = Err EValue.
Proof.
  intros Hx Hc. apply mk_trough_not_ok. intros L H. pose proof H as H'. inv_trough H'.
  pose proof (trough_ncol _ _ _ H Tcols) as Hn.
  destruct (mk_trough_geometry _ _ H) as [_ [_ [Hc1 _]]].
  assert (Hin : In x ivs).
  { unfold t_ivs in Tivs. destruct (t_init a) as [y|ys|rs]; [| |discriminate]; cbn [flattenC] in Hx.
    - injection Tivs as <-. destruct Hx as [<-|[]]. destruct ncol as [|k]; [lia|]. left. reflexivity.
    - injection Tivs as <-. exact Hx. }
  assert (Herr : mk_labware (trough_lw_args a ncol ivs) = Err EValue).
  { apply (reject_bad_volume _ (A1 ivs) x); [reflexivity|exact Hin|exact Hc]. }
  rewrite Herr in Tlw. discriminate.
Qed.

(* ------------------------------------------------------------------ ids, index map and volumes agree *)

Lemma all_digits_uint d : all_digits (NilEmpty.string_of_uint d) = true.
Proof. induction d as [|d IH|d IH|d IH|d IH|d IH|d IH|d IH|d IH|d IH|d IH]; cbn; [reflexivity|exact IH..]. Qed.

Lemma all_digits_pad2N n : all_digits (pad2N n) = true.
Proof.
  unfold pad2N, decN. destruct (n <? 10)%N; [|apply all_digits_uint].
  cbn [all_digits]. rewrite all_digits_uint. reflexivity.
Qed.

Lemma nat_row_letter r : r < 26 -> nat_of_ascii (row_letter r) = 65 + r.
Proof. intro H. unfold row_letter. apply nat_ascii_embedding. lia. Qed.

Lemma ctor_id_rc_well_id r c : r < 26 -> id_rc (well_id r c) = Some (r, c).
Proof.
  intro Hr. unfold id_rc. unfold well_id at 1. cbv beta iota zeta.
  rewrite (nat_row_letter r Hr).
  replace ((65 <=? 65 + r)%nat && (65 + r <=? 90)%nat)%bool with true
    by (symmetry; apply Bool.andb_true_iff; split; apply Nat.leb_le; lia).
  unfold pad2 at 1 2. rewrite all_digits_pad2N, parse_decN_pad2N.
  replace (1 <=? N.of_nat (c + 1))%N with true by (symmetry; apply N.leb_le; lia).
  rewrite Nnat.Nat2N.id.
  replace (65 + r - 65) with r by lia. replace (c + 1 - 1) with c by lia.
  change (String (row_letter r) (pad2N (N.of_nat (c + 1)))) with (well_id r c).
  rewrite String.eqb_refl. reflexivity.
Qed.

Lemma ctor_wells_table_nth g r c : r < n_row_ids g -> c < g_cols g ->
  nth c (nth r (wells_table g) []) EmptyString = well_id r c.
Proof.
  intros Hr Hc. unfold wells_table.
  rewrite (nth_map_lt _ _ 0) by (rewrite seq_length; exact Hr). rewrite seq_nth by exact Hr.
  rewrite (nth_map_lt _ _ 0) by (rewrite seq_length; exact Hc). rewrite seq_nth by exact Hc.
  reflexivity.
Qed.

(** every id of the table is a key of the index map and denotes a cell of the volume array;
    virtual rows share the single real row *)
Lemma table_index_volumes L : wf_labware L ->
  forall r c, r < n_row_ids (lw_geom L) -> c < g_cols (lw_geom L) ->
  let real_row := match g_vrows (lw_geom L) with Some _ => 0 | None => r end in
  lw_index L (nth c (nth r (wells_table (lw_geom L)) []) EmptyString)
    = Some (real_row * g_cols (lw_geom L) + c) /\
  real_row * g_cols (lw_geom L) + c < length (lw_vols L).
Proof.
  intros [[Hg [Hlen _]] _] r c Hr Hc. rewrite (ctor_wells_table_nth _ _ _ Hr Hc).
  assert (Hr26 : r < 26) by (unfold n_row_ids in Hr; lia).
  unfold lw_index, well_index. rewrite (ctor_id_rc_well_id _ _ Hr26).
  replace (r <? n_row_ids (lw_geom L))%nat with true by (symmetry; apply Nat.ltb_lt; exact Hr).
  replace (c <? g_cols (lw_geom L))%nat with true by (symmetry; apply Nat.ltb_lt; exact Hc).
  cbn [andb]. unfold flat_index. cbn [fst snd]. cbn zeta. split; [reflexivity|].
  rewrite Hlen. unfold n_wells. destruct Hg as [Hrows [_ Hv]]. unfold n_row_ids in Hr.
  destruct (g_vrows (lw_geom L)) as [v|]; [nia|]. 
  assert (r < g_rows (lw_geom L)) by lia. nia.
Qed.

Lemma mk_labware_table_index a L : mk_labware a = Ok L ->
  forall r c, r < n_row_ids (lw_geom L) -> c < g_cols (lw_geom L) ->
  let real_row := match g_vrows (lw_geom L) with Some _ => 0 | None => r end in
  lw_index L (nth c (nth r (wells_table (lw_geom L)) []) EmptyString)
    = Some (real_row * g_cols (lw_geom L) + c) /\
  real_row * g_cols (lw_geom L) + c < length (lw_vols L).
Proof. intro H. exact (table_index_volumes L (mk_labware_wf _ _ H)). Qed.

Lemma mk_trough_table_index a L : mk_trough a = Ok L ->
  forall r c, r < n_row_ids (lw_geom L) -> c < g_cols (lw_geom L) ->
  lw_index L (nth c (nth r (wells_table (lw_geom L)) []) EmptyString) = Some c /\
  c < length (lw_vols L).
Proof.
  intros H r c Hr Hc. destruct (mk_trough_geometry _ _ H) as [_ [_ [_ [[v [_ [Hv _]]] _]]]].
  destruct (table_index_volumes L (mk_trough_wf _ _ H) r c Hr Hc) as [H1 H2].
  rewrite Hv in H1, H2. cbn [Nat.mul Nat.add] in H1, H2. split; assumption.
Qed.

Lemma mk_trough_index_range a L w i : mk_trough a = Ok L -> lw_index L w = Some i ->
  i < length (lw_vols L).
Proof. intros H Hi. inv_trough H. exact (mk_labware_index_range _ _ _ _ Tlw Hi). Qed.

(* ------------------------------------------------------------------ composition, in closed form *)

(** the component of real well [i] of a [Labware]: the given name, else the default *)
Definition plate_component (a : lw_args) (L : labware) (i : nat) : string :=
  let w := well_id (i / g_cols (lw_geom L)) (i mod g_cols (lw_geom L)) in
  match assoc_get w (a_names a) with
  | Some (Some s) => s
  | _ => if (1 <? g_rows (lw_geom L) * g_cols (lw_geom L))%nat then (a_name a ++ "." ++ w)%string else a_name a
  end.

Lemma lw_comp_name_eq a L i : lw_comp_name a L i = plate_component a L i.
Proof.
  unfold lw_comp_name, plate_component, comp_name, given_name, id_of. cbv zeta.
  destruct (assoc_get _ (a_names a)) as [[s|]|]; reflexivity.
Qed.

Lemma mk_labware_composition_closed a L : mk_labware a = Ok L ->
  let n := (g_rows (lw_geom L) * g_cols (lw_geom L))%nat in
  NoDup (map fst (lw_comp L)) /\
  Forall (fun ka => length (snd ka) = n) (lw_comp L) /\
  (forall k arr, In (k, arr) (lw_comp L) ->
     exists i, i < n /\ ~ nth i (lw_vols L) 0%Q == 0 /\ plate_component a L i = k) /\
  (forall i, i < n -> nth i (lw_vols L) 0%Q == 0 ->
     (forall s, assoc_get (well_id (i / g_cols (lw_geom L)) (i mod g_cols (lw_geom L))) (a_names a)
                <> Some (Some s)) /\
     forall k arr, In (k, arr) (lw_comp L) -> nth i arr 0%Q = 0%Q) /\
  (forall i, i < n -> ~ nth i (lw_vols L) 0%Q == 0 ->
     exists arr, In (plate_component a L i, arr) (lw_comp L) /\ nth i arr 0%Q = 1%Q /\
       forall k' arr', In (k', arr') (lw_comp L) -> k' <> plate_component a L i -> nth i arr' 0%Q = 0%Q).
Proof.
  intro H. destruct (mk_labware_composition _ _ H) as [Hnd [Hlen [Hkeys [Hzero Hone]]]].
  unfold n_wells in Hlen, Hkeys, Hzero, Hone. cbv zeta.
  split; [exact Hnd|]. split; [exact Hlen|]. split; [|split].
  - intros k arr Hin. destruct (Hkeys k arr Hin) as [i Hi]. exists i.
    rewrite <- lw_comp_name_eq. exact Hi.
  - intros i Hi Hv. destruct (Hzero i Hi Hv) as [Hg Hz]. split; [|exact Hz].
    intros s Hs. unfold given_name, id_of in Hg. rewrite Hs in Hg. discriminate.
  - intros i Hi Hv. destruct (Hone i Hi Hv) as [arr Harr]. exists arr.
    rewrite <- lw_comp_name_eq. exact Harr.
Qed.

(** the column names of an accepted trough cover the columns *)
Lemma mk_trough_colnames_length a L : mk_trough a = Ok L ->
  length (t_cn a (g_cols (lw_geom L))) = g_cols (lw_geom L).
Proof.
  intro H. pose proof H as H'. inv_trough H'. rewrite <- (trough_ncol _ _ _ H Tcols). exact Tcn.
Qed.
