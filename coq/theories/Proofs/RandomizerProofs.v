(** C15, audit item H2: the lookup table that [WellRandomizer.__init__] builds (robotools/transform.py).

    The constructor draws from [numpy.random.RandomState(seed)]:
      mode "full"   : ONE call [rng.permutation(full.flatten())] (row-major list of all wells),
                      [lookup = dict(zip(full.flatten(), draw))];
      mode "row"    : for r = 0 .. R-1 (in this order) one call [rng.permutation(full[r, :])],
                      then [lookup[o] = d] for [(o, d) in zip(full[r, :], draw)];
      mode "column" : for c = 0 .. C-1 (in this order) one call [rng.permutation(full[:, c])],
                      then [lookup[o] = d] for [(o, d) in zip(full[:, c], draw)]
    where [full = make_well_array(R, C)].  [rng.permutation(x)] returns a shuffled COPY of the array [x]
    of well ids (not of indices).  The only unknown of the model below is the list of arrays these calls
    returned ([draws], in call order); the only hypothesis made about them is that each one is a
    [Permutation] of the array the RNG was asked to permute.

    The [dict] is represented by the association list of its items in insertion order (all keys are
    distinct, so no insertion overwrites an earlier one and first-match [lookup] is [dict.get]).

    "Fully determined by the seed": the table is the FUNCTION [mk_rand_table mode R C draws] of the shape,
    the mode and the draws; the map seed -> draws is numpy's generator, which is outside the model (the
    harness checks that two constructions with one seed give equal tables; that the table computed here from
    numpy's draws is [WellRandomizer((R, C), seed, mode).lookup], items in insertion order, was checked by a
    generated [vm_compute] comparison over 17 shapes x 5 seeds x 3 modes, raising shapes included). *)
From Robo Require Import Prelude Str Wells Transform TransformProofs.
From Coq Require Import Permutation.

(** The definitions [rand_mode], [well_columns], [rand_requests], [rand_table_of], [rand_table_full/row/column],
    [rand_ctor_raises], [mk_rand_table] live in Model/Transform.v (evaluated by the correspondence check). *)

(** * Generic list facts *)

Lemma rz_zip_fst {A B} (l : list A) (p : list B) : length l = length p -> map fst (zip l p) = l.
Proof.
  revert p. induction l as [|a l IH]; intros [|b p] H; try discriminate; [reflexivity|].
  cbn [zip map fst]. f_equal. apply IH. cbn [length] in H. lia.
Qed.

Lemma rz_zip_snd {A B} (l : list A) (p : list B) : length l = length p -> map snd (zip l p) = p.
Proof.
  revert p. induction l as [|a l IH]; intros [|b p] H; try discriminate; [reflexivity|].
  cbn [zip map snd]. f_equal. apply IH. cbn [length] in H. lia.
Qed.

Lemma rz_zip_in {A B} (l : list A) (p : list B) a b : In (a, b) (zip l p) -> In a l /\ In b p.
Proof.
  revert p. induction l as [|x l IH]; intros [|y p] H; cbn [zip] in H; try (destruct H; fail).
  destruct H as [H|H].
  - injection H as H1 H2. subst. split; left; reflexivity.
  - destruct (IH p H) as [I1 I2]. split; right; assumption.
Qed.

Lemma rz_nodup_app {A} (l m : list A) :
  NoDup l -> NoDup m -> (forall x, In x l -> ~ In x m) -> NoDup (l ++ m).
Proof.
  intros Nl Nm D. induction l as [|a l IH]; [exact Nm|].
  inversion Nl as [|a0 l0 Ha Nl']. subst a0 l0. cbn [app]. constructor.
  - intro H. apply in_app_or in H. destruct H as [H|H]; [exact (Ha H)|].
    exact (D a (or_introl eq_refl) H).
  - apply IH; [exact Nl'|]. intros x Hx. apply D. right. exact Hx.
Qed.

Lemma rz_nodup_map {A B} (g : A -> B) (l : list A) :
  (forall x y, In x l -> In y l -> g x = g y -> x = y) -> NoDup l -> NoDup (map g l).
Proof.
  intros Inj N. induction l as [|a l IH]; [constructor|].
  inversion N as [|a0 l0 Ha N']. subst a0 l0. cbn [map]. constructor.
  - intro H. apply in_map_iff in H. destruct H as [y [E Hy]].
    assert (y = a) by (apply Inj; [right; exact Hy|left; reflexivity|exact E]). subst y. exact (Ha Hy).
  - apply IH; [|exact N']. intros x y Hx Hy. apply Inj; right; assumption.
Qed.

(** a grid [[f a b | b <- cols] | a <- rows], flattened *)
Lemma rz_in_grid {A B C} (f : A -> B -> C) (rows : list A) (cols : list B) x :
  In x (concat (map (fun a => map (f a) cols) rows)) <->
  exists a b, In a rows /\ In b cols /\ x = f a b.
Proof.
  rewrite in_concat. split.
  - intros [l [Hl Hx]]. apply in_map_iff in Hl. destruct Hl as [a [E Ha]]. subst l.
    apply in_map_iff in Hx. destruct Hx as [b [E Hb]]. exists a, b. repeat split; [exact Ha|exact Hb|symmetry; exact E].
  - intros [a [b [Ha [Hb E]]]]. exists (map (f a) cols). split.
    + apply in_map_iff. exists a. split; [reflexivity|exact Ha].
    + subst x. apply in_map. exact Hb.
Qed.

Lemma rz_nodup_grid {A B C} (f : A -> B -> C) (rows : list A) (cols : list B) :
  NoDup rows -> NoDup cols ->
  (forall a b a' b', In a rows -> In a' rows -> In b cols -> In b' cols -> f a b = f a' b' -> a = a' /\ b = b') ->
  NoDup (concat (map (fun a => map (f a) cols) rows)).
Proof.
  intros Nr Nc Inj. induction rows as [|a rows IH]; [constructor|].
  inversion Nr as [|a0 l0 Ha Nr']. subst a0 l0. cbn [map concat]. apply rz_nodup_app.
  - apply rz_nodup_map; [|exact Nc]. intros b b' Hb Hb' E.
    destruct (Inj a b a b' (or_introl eq_refl) (or_introl eq_refl) Hb Hb' E) as [_ E']. exact E'.
  - apply IH; [exact Nr'|]. intros a1 b1 a2 b2 H1 H2. apply Inj; right; assumption.
  - intros x Hx Hx'. apply in_map_iff in Hx. destruct Hx as [b [E Hb]]. subst x.
    apply rz_in_grid in Hx'. destruct Hx' as [a' [b' [Ha' [Hb' E]]]].
    destruct (Inj a b a' b' (or_introl eq_refl) (or_intror Ha') Hb Hb' E) as [E' _]. subst a'. exact (Ha Ha').
Qed.

Lemma rz_nth_map_seq {A} (g : nat -> A) (n i : nat) (d : A) : i < n -> nth i (map g (seq 0 n)) d = g i.
Proof.
  intro H. rewrite (nth_indep _ d (g 0)) by (rewrite map_length, seq_length; exact H).
  rewrite map_nth, seq_nth by exact H. reflexivity.
Qed.

(** * The plate: [make_well_array R C] and its columns *)

Lemma rz_well_array_eq R C :
  make_well_array R C = map (fun r => map (fun c => well_id r c) (seq 0 C)) (seq 0 (Nat.min 26 R)).
Proof. reflexivity. Qed.

Lemma rz_index_well_id R C r c : r < R -> r < 26 -> c < C -> make_well_index R C (well_id r c) = Some (r, c).
Proof.
  intros Hr Hr' Hc. unfold make_well_index, well_index. rewrite xf_id_rc_well_id by exact Hr'.
  unfold n_row_ids. cbn [g_vrows g_rows g_cols].
  assert (E : ((r <? Nat.min 26 R) && (c <? C))%nat = true).
  { apply andb_true_intro. split; apply Nat.ltb_lt; lia. }
  rewrite E. reflexivity.
Qed.

Lemma rz_in_plate R C w :
  In w (concat (make_well_array R C)) <-> exists r c, r < R /\ r < 26 /\ c < C /\ w = well_id r c.
Proof.
  rewrite rz_well_array_eq, (rz_in_grid (fun r c => well_id r c)). split.
  - intros [r [c [Hr [Hc E]]]]. apply in_seq in Hr. apply in_seq in Hc. exists r, c. repeat split; [lia|lia|lia|exact E].
  - intros [r [c [Hr [Hr' [Hc E]]]]]. exists r, c. repeat split; [apply in_seq; lia|apply in_seq; lia|exact E].
Qed.

Lemma rz_in_plate_index R C w :
  In w (concat (make_well_array R C)) <-> exists r c, make_well_index R C w = Some (r, c).
Proof.
  rewrite rz_in_plate. split.
  - intros [r [c [Hr [Hr' [Hc E]]]]]. exists r, c. subst w. apply rz_index_well_id; assumption.
  - intros [r [c H]]. apply xf_index_inv in H. destruct H as [E [Hr [Hr' Hc]]]. exists r, c. repeat split; assumption.
Qed.

Lemma rz_in_columns R C w :
  In w (concat (well_columns R C)) <-> exists r c, r < R /\ r < 26 /\ c < C /\ w = well_id r c.
Proof.
  unfold well_columns. rewrite (rz_in_grid (fun c r => well_id r c)). split.
  - intros [c [r [Hc [Hr E]]]]. apply in_seq in Hr. apply in_seq in Hc. exists r, c. repeat split; [lia|lia|lia|exact E].
  - intros [r [c [Hr [Hr' [Hc E]]]]]. exists c, r. repeat split; [apply in_seq; lia|apply in_seq; lia|exact E].
Qed.

Lemma rz_nodup_plate R C : NoDup (concat (make_well_array R C)).
Proof.
  rewrite rz_well_array_eq. apply (rz_nodup_grid (fun r c => well_id r c)); [apply seq_NoDup|apply seq_NoDup|].
  intros r c r' c' Hr Hr' _ _ E. apply in_seq in Hr. apply in_seq in Hr'.
  apply xf_well_id_injective in E; [exact E|lia|lia].
Qed.

Lemma rz_nodup_columns R C : NoDup (concat (well_columns R C)).
Proof.
  unfold well_columns. apply (rz_nodup_grid (fun c r => well_id r c)); [apply seq_NoDup|apply seq_NoDup|].
  intros c r c' r' _ _ Hr Hr' E. apply in_seq in Hr. apply in_seq in Hr'.
  apply xf_well_id_injective in E; [destruct E as [E1 E2]; split; assumption|lia|lia].
Qed.

Lemma rz_columns_perm R C : Permutation (concat (make_well_array R C)) (concat (well_columns R C)).
Proof.
  apply NoDup_Permutation; [apply rz_nodup_plate|apply rz_nodup_columns|].
  intro w. rewrite rz_in_plate, rz_in_columns. reflexivity.
Qed.

(** [well_columns R C] has C entries; entry c is [full[:, c]], the c-th element of every row *)
Lemma rz_columns_spec R C :
  length (well_columns R C) = C /\
  forall c, c < C ->
    nth c (well_columns R C) [] = map (fun row => nth c row EmptyString) (make_well_array R C).
Proof.
  split; [unfold well_columns; rewrite map_length, seq_length; reflexivity|].
  intros c Hc. unfold well_columns. rewrite rz_nth_map_seq by exact Hc.
  rewrite rz_well_array_eq, map_map. apply map_ext. intro r.
  rewrite (rz_nth_map_seq (fun c0 => well_id r c0)) by exact Hc. reflexivity.
Qed.

Lemma rz_requests_perm m R C : Permutation (concat (make_well_array R C)) (concat (rand_requests m R C)).
Proof.
  destruct m; cbn [rand_requests].
  - cbn [concat]. rewrite app_nil_r. apply Permutation_refl.
  - apply Permutation_refl.
  - apply rz_columns_perm.
Qed.

(** * Tables built from (request, draw) pairs *)

Lemma rz_table_cons req reqs draw draws :
  rand_table_of (req :: reqs) (draw :: draws) = (zip req draw ++ rand_table_of reqs draws)%list.
Proof. reflexivity. Qed.

Lemma rz_table_keys reqs draws : Forall2 (@Permutation string) reqs draws ->
  map fst (rand_table_of reqs draws) = concat reqs.
Proof.
  intro H. induction H as [|req draw reqs draws HP HF IH]; [reflexivity|].
  rewrite rz_table_cons, map_app, IH. cbn [concat]. f_equal.
  apply rz_zip_fst. apply Permutation_length. exact HP.
Qed.

Lemma rz_table_vals reqs draws : Forall2 (@Permutation string) reqs draws ->
  map snd (rand_table_of reqs draws) = concat draws.
Proof.
  intro H. induction H as [|req draw reqs draws HP HF IH]; [reflexivity|].
  rewrite rz_table_cons, map_app, IH. cbn [concat]. f_equal.
  apply rz_zip_snd. apply Permutation_length. exact HP.
Qed.

Lemma rz_concat_perm (reqs draws : list (list string)) : Forall2 (@Permutation string) reqs draws ->
  Permutation (concat reqs) (concat draws).
Proof.
  intro H. induction H as [|req draw reqs draws HP HF IH]; [apply perm_nil|].
  cbn [concat]. apply Permutation_app; assumption.
Qed.

(** a well and its image come from the same request *)
Lemma rz_table_in reqs draws k v : Forall2 (@Permutation string) reqs draws ->
  In (k, v) (rand_table_of reqs draws) -> exists req, In req reqs /\ In k req /\ In v req.
Proof.
  intro H. induction H as [|req draw reqs draws HP HF IH]; [intros []|].
  rewrite rz_table_cons. intro Hin. apply in_app_or in Hin. destruct Hin as [Hin|Hin].
  - apply rz_zip_in in Hin. destruct Hin as [Hk Hv]. exists req. split; [left; reflexivity|]. split; [exact Hk|].
    apply (Permutation_in v (Permutation_sym HP)). exact Hv.
  - destruct (IH Hin) as [req' [H1 [H2 H3]]]. exists req'. split; [right; exact H1|]. split; assumption.
Qed.

Lemma rz_table_full_eq R C p : rand_table_of [concat (make_well_array R C)] [p] = rand_table_full R C p.
Proof. unfold rand_table_of, rand_table_full. cbn [zip map concat fst snd]. apply app_nil_r. Qed.

(** what holds of every table built from permuted requests whose union is duplicate-free *)
Lemma rz_table_spec reqs draws : NoDup (concat reqs) -> Forall2 (@Permutation string) reqs draws ->
  let t := rand_table_of reqs draws in
  map fst t = concat reqs /\ map snd t = concat draws /\
  NoDup (map fst t) /\ NoDup (map snd t) /\ Permutation (map fst t) (map snd t).
Proof.
  intros N H t. subst t.
  assert (K := rz_table_keys reqs draws H). assert (V := rz_table_vals reqs draws H).
  assert (P := rz_concat_perm reqs draws H).
  rewrite K, V. repeat split; try assumption. apply (Permutation_NoDup P). exact N.
Qed.

(** * The three modes *)

Definition rz_same_row (R C : nat) (w w' : string) : Prop :=
  exists r c c', r < R /\ r < 26 /\ c < C /\ c' < C /\ w = well_id r c /\ w' = well_id r c'.
Definition rz_same_column (R C : nat) (w w' : string) : Prop :=
  exists r r' c, r < R /\ r < 26 /\ r' < R /\ r' < 26 /\ c < C /\ w = well_id r c /\ w' = well_id r' c.

Lemma rz_same_row_head R C w w' : rz_same_row R C w w' -> str_head w = str_head w'.
Proof. intros [r [c [c' [_ [_ [_ [_ [E E']]]]]]]]. subst. reflexivity. Qed.

Lemma rz_same_column_tail R C w w' : rz_same_column R C w w' -> str_tail w = str_tail w'.
Proof. intros [r [r' [c [_ [_ [_ [_ [_ [E E']]]]]]]]]. subst. reflexivity. Qed.

Lemma xf_rand_table_full R C p : Permutation (concat (make_well_array R C)) p ->
  let t := rand_table_full R C p in
  map fst t = concat (make_well_array R C) /\ map snd t = p /\
  NoDup (map fst t) /\ NoDup (map snd t) /\ Permutation (map fst t) (map snd t).
Proof.
  intros HP t. subst t.
  assert (L : length (concat (make_well_array R C)) = length p) by (apply Permutation_length; exact HP).
  unfold rand_table_full. rewrite (rz_zip_fst _ _ L), (rz_zip_snd _ _ L).
  repeat split; try assumption; [apply rz_nodup_plate|].
  apply (Permutation_NoDup HP). apply rz_nodup_plate.
Qed.

Lemma xf_rand_table_row R C ps : Forall2 (@Permutation string) (make_well_array R C) ps ->
  let t := rand_table_row R C ps in
  map fst t = concat (make_well_array R C) /\ map snd t = concat ps /\
  NoDup (map fst t) /\ NoDup (map snd t) /\ Permutation (map fst t) (map snd t) /\
  (forall k v, In (k, v) t ->
     (exists r c c', r < R /\ r < 26 /\ c < C /\ c' < C /\ k = well_id r c /\ v = well_id r c') /\
     str_head k = str_head v).
Proof.
  intros H t. subst t. unfold rand_table_row.
  destruct (rz_table_spec _ _ (rz_nodup_plate R C) H) as [K [V [NK [NV P]]]].
  split; [exact K|]. split; [exact V|]. split; [exact NK|]. split; [exact NV|]. split; [exact P|].
  intros k v Hin.
  assert (S : rz_same_row R C k v).
  { destruct (rz_table_in _ _ k v H Hin) as [req [Hreq [Hk Hv]]].
    rewrite rz_well_array_eq in Hreq. apply in_map_iff in Hreq. destruct Hreq as [r [E Hr]]. subst req.
    apply in_seq in Hr. apply in_map_iff in Hk. destruct Hk as [c [Ek Hc]]. apply in_seq in Hc.
    apply in_map_iff in Hv. destruct Hv as [c' [Ev Hc']]. apply in_seq in Hc'.
    exists r, c, c'. repeat split; try lia; symmetry; assumption. }
  split; [exact S|exact (rz_same_row_head R C k v S)].
Qed.

Lemma xf_rand_table_column R C ps : Forall2 (@Permutation string) (well_columns R C) ps ->
  let t := rand_table_column R C ps in
  map fst t = concat (well_columns R C) /\ map snd t = concat ps /\
  Permutation (concat (make_well_array R C)) (map fst t) /\
  NoDup (map fst t) /\ NoDup (map snd t) /\ Permutation (map fst t) (map snd t) /\
  (forall k v, In (k, v) t ->
     (exists r r' c, r < R /\ r < 26 /\ r' < R /\ r' < 26 /\ c < C /\ k = well_id r c /\ v = well_id r' c) /\
     str_tail k = str_tail v).
Proof.
  intros H t. subst t. unfold rand_table_column.
  destruct (rz_table_spec _ _ (rz_nodup_columns R C) H) as [K [V [NK [NV P]]]].
  split; [exact K|]. split; [exact V|]. split; [rewrite K; apply rz_columns_perm|].
  split; [exact NK|]. split; [exact NV|]. split; [exact P|].
  intros k v Hin.
  assert (S : rz_same_column R C k v).
  { destruct (rz_table_in _ _ k v H Hin) as [req [Hreq [Hk Hv]]].
    unfold well_columns in Hreq. apply in_map_iff in Hreq. destruct Hreq as [c [E Hc]]. subst req.
    apply in_seq in Hc. apply in_map_iff in Hk. destruct Hk as [r [Ek Hr]]. apply in_seq in Hr.
    apply in_map_iff in Hv. destruct Hv as [r' [Ev Hr']]. apply in_seq in Hr'.
    exists r, r', c. repeat split; try lia; symmetry; assumption. }
  split; [exact S|exact (rz_same_column_tail R C k v S)].
Qed.

(** * The constructor *)

Lemma xf_rand_table_def :
  (forall R C, well_columns R C = map (fun c => map (fun r => well_id r c) (seq 0 (Nat.min 26 R))) (seq 0 C)) /\
  (forall reqs draws,
     rand_table_of reqs draws = concat (map (fun rd => zip (fst rd) (snd rd)) (zip reqs draws))) /\
  (forall R C p, rand_table_full R C p = zip (concat (make_well_array R C)) p) /\
  (forall R C ps, rand_table_row R C ps = rand_table_of (make_well_array R C) ps) /\
  (forall R C ps, rand_table_column R C ps = rand_table_of (well_columns R C) ps) /\
  (forall R C, rand_requests RFull R C = [concat (make_well_array R C)] /\
               rand_requests RRow R C = make_well_array R C /\
               rand_requests RColumn R C = well_columns R C) /\
  (forall m R C draws,
     mk_rand_table m R C draws =
       if match m with
          | RFull => false
          | RRow => (26 <? R)%nat
          | RColumn => ((R =? 0) && (0 <? C))%nat
          end
       then Err EReject else Ok (rand_table_of (rand_requests m R C) draws)).
Proof. repeat split. Qed.

Lemma xf_rand_ctor_modes R C :
  (forall p, mk_rand_table RFull R C [p] = Ok (rand_table_full R C p)) /\
  (forall ps, R <= 26 -> mk_rand_table RRow R C ps = Ok (rand_table_row R C ps)) /\
  (forall ps, (R = 0 -> C = 0) -> mk_rand_table RColumn R C ps = Ok (rand_table_column R C ps)).
Proof.
  split; [|split].
  - intro p. unfold mk_rand_table. cbn [rand_ctor_raises rand_requests]. rewrite rz_table_full_eq. reflexivity.
  - intros ps HR. unfold mk_rand_table. cbn [rand_ctor_raises rand_requests].
    destruct (26 <? R)%nat eqn:E; [apply Nat.ltb_lt in E; lia|reflexivity].
  - intros ps HR. unfold mk_rand_table. cbn [rand_ctor_raises rand_requests].
    destruct ((R =? 0) && (0 <? C))%nat eqn:E; [|reflexivity].
    apply andb_prop in E. destruct E as [E1 E2]. apply Nat.eqb_eq in E1. apply Nat.ltb_lt in E2. lia.
Qed.

Lemma xf_rand_ctor_raises m R C draws :
  (mk_rand_table m R C draws = Err EReject <-> (m = RRow /\ 26 < R) \/ (m = RColumn /\ R = 0 /\ 0 < C)) /\
  (forall e, mk_rand_table m R C draws = Err e -> e = EReject) /\
  (forall t, mk_rand_table m R C draws = Ok t -> t = rand_table_of (rand_requests m R C) draws).
Proof.
  unfold mk_rand_table. split; [|split].
  - destruct m; cbn [rand_ctor_raises].
    + split; [discriminate|]. intros [[H _]|[H _]]; discriminate.
    + destruct (26 <? R)%nat eqn:E.
      * apply Nat.ltb_lt in E. split; [intros _; left; split; [reflexivity|exact E]|reflexivity].
      * apply Nat.ltb_ge in E. split; [discriminate|]. intros [[_ H]|[H _]]; [lia|discriminate].
    + destruct ((R =? 0) && (0 <? C))%nat eqn:E.
      * apply andb_prop in E. destruct E as [E1 E2]. apply Nat.eqb_eq in E1. apply Nat.ltb_lt in E2.
        split; [intros _; right; repeat split; assumption|reflexivity].
      * split; [discriminate|]. intros [[H _]|[_ [H1 H2]]]; [discriminate|].
        apply Nat.eqb_eq in H1. apply Nat.ltb_lt in H2. rewrite H1, H2 in E. discriminate.
  - intros e. destruct (rand_ctor_raises m R C); intro H; [injection H as H; symmetry; exact H|discriminate].
  - intros t. destruct (rand_ctor_raises m R C); intro H; [discriminate|injection H as H; symmetry; exact H].
Qed.

Lemma rz_nodup_requests m R C : NoDup (concat (rand_requests m R C)).
Proof.
  destruct m; cbn [rand_requests].
  - cbn [concat]. rewrite app_nil_r. apply rz_nodup_plate.
  - apply rz_nodup_plate.
  - apply rz_nodup_columns.
Qed.

(** keys, values, permutation: no hypothesis on the table, only on the draws *)
Lemma xf_rand_ctor_table m R C draws t :
  Forall2 (@Permutation string) (rand_requests m R C) draws ->
  mk_rand_table m R C draws = Ok t ->
  map fst t = concat (rand_requests m R C) /\ map snd t = concat draws /\
  (m <> RColumn -> map fst t = concat (make_well_array R C)) /\
  Permutation (concat (make_well_array R C)) (map fst t) /\
  NoDup (map fst t) /\ NoDup (map snd t) /\ Permutation (map fst t) (map snd t).
Proof.
  intros H Hm. destruct (xf_rand_ctor_raises m R C draws) as [_ [_ Ht]]. rewrite (Ht t Hm).
  destruct (rz_table_spec _ _ (rz_nodup_requests m R C) H) as [K [V [NK [NV P]]]].
  split; [exact K|]. split; [exact V|]. split; [|split; [|split; [|split]]]; try assumption.
  - intro Hne. rewrite K. destruct m; cbn [rand_requests]; [cbn [concat]; apply app_nil_r|reflexivity|congruence].
  - rewrite K. apply rz_requests_perm.
Qed.

Lemma rz_lookup_none t w : ~ In w (map fst t) -> lookup t w = None.
Proof.
  intro H. destruct (lookup t w) as [w'|] eqn:E; [|reflexivity].
  exfalso. apply H. apply xf_lookup_in in E. change w with (fst (w, w')). apply in_map. exact E.
Qed.

(** the table of the constructor is a bijection of the plate; randomize / derandomize are mutually inverse *)
Lemma xf_rand_ctor_bijection m R C draws t :
  Forall2 (@Permutation string) (rand_requests m R C) draws ->
  mk_rand_table m R C draws = Ok t ->
  (forall w, In w (concat (make_well_array R C)) ->
     exists w', lookup t w = Some w' /\ In w' (concat (make_well_array R C))) /\
  (forall w', In w' (concat (make_well_array R C)) ->
     exists w, In w (concat (make_well_array R C)) /\ lookup t w = Some w') /\
  (forall w1 w2 w', lookup t w1 = Some w' -> lookup t w2 = Some w' -> w1 = w2) /\
  (forall w w', lookup t w = Some w' <-> lookup (invert t) w' = Some w) /\
  (forall w, ~ In w (concat (make_well_array R C)) -> lookup t w = None /\ lookup (invert t) w = None) /\
  (forall a b : arr string, randomize t a = amap Some b <-> derandomize t b = amap Some a) /\
  (forall a : arr string, (forall w, In w (flattenC a) -> In w (concat (make_well_array R C))) ->
     exists b, randomize t a = amap Some b /\ derandomize t b = amap Some a).
Proof.
  intros H Hm.
  destruct (xf_rand_ctor_table m R C draws t H Hm) as [_ [_ [_ [PK [NK [NV P]]]]]].
  destruct (xf_rand_permutation t NK P) as [_ [B1 [B2 B3]]].
  assert (InK : forall w, In w (concat (make_well_array R C)) <-> In w (map fst t)).
  { intro w. split; [apply (Permutation_in w PK)|apply (Permutation_in w (Permutation_sym PK))]. }
  split; [|split; [|split; [|split; [|split; [|split]]]]].
  - intros w Hw. destruct (B1 w (proj1 (InK w) Hw)) as [w' [L Hw']]. exists w'. split; [exact L|apply InK; exact Hw'].
  - intros w' Hw'. destruct (B2 w' (proj1 (InK w') Hw')) as [w [Hw L]]. exists w. split; [apply InK; exact Hw|exact L].
  - exact B3.
  - intros w w'. apply xf_rand_inverse; assumption.
  - intros w Hw. split.
    + apply rz_lookup_none. intro Hin. apply Hw. apply InK. exact Hin.
    + apply rz_lookup_none. rewrite xf_invert_keys. intro Hin. apply Hw. apply InK.
      apply (Permutation_in w (Permutation_sym P)). exact Hin.
  - intros a b. destruct (xf_rand_array_inverse t a b NK NV) as [I1 I2]. split; assumption.
  - intros a Ha. destruct (xf_rand_total t a) as [b Hb]; [intros w Hw; apply InK; apply Ha; exact Hw|].
    exists b. split; [exact Hb|]. destruct (xf_rand_array_inverse t a b NK NV) as [I1 _]. apply I1. exact Hb.
Qed.

(** row mode keeps every well in its row, column mode in its column (both directions of the lookup) *)
Lemma xf_rand_ctor_row R C ps t :
  Forall2 (@Permutation string) (make_well_array R C) ps ->
  mk_rand_table RRow R C ps = Ok t ->
  forall w w', lookup t w = Some w' \/ lookup (invert t) w' = Some w ->
    (exists r c c', r < R /\ r < 26 /\ c < C /\ c' < C /\ w = well_id r c /\ w' = well_id r c') /\
    str_head w = str_head w'.
Proof.
  intros H Hm. destruct (xf_rand_ctor_raises RRow R C ps) as [_ [_ Ht]]. rewrite (Ht t Hm).
  cbn [rand_requests]. fold (rand_table_row R C ps).
  destruct (xf_rand_table_row R C ps H) as [_ [_ [_ [_ [_ Rel]]]]].
  destruct (xf_rand_rel _ _ Rel) as [R1 R2].
  intros w w' [L|L]; [apply R1|apply R2]; exact L.
Qed.

Lemma xf_rand_ctor_column R C ps t :
  Forall2 (@Permutation string) (well_columns R C) ps ->
  mk_rand_table RColumn R C ps = Ok t ->
  forall w w', lookup t w = Some w' \/ lookup (invert t) w' = Some w ->
    (exists r r' c, r < R /\ r < 26 /\ r' < R /\ r' < 26 /\ c < C /\ w = well_id r c /\ w' = well_id r' c) /\
    str_tail w = str_tail w'.
Proof.
  intros H Hm. destruct (xf_rand_ctor_raises RColumn R C ps) as [_ [_ Ht]]. rewrite (Ht t Hm).
  cbn [rand_requests]. fold (rand_table_column R C ps).
  destruct (xf_rand_table_column R C ps H) as [_ [_ [_ [_ [_ [_ Rel]]]]]].
  destruct (xf_rand_rel _ _ Rel) as [R1 R2].
  intros w w' [L|L]; [apply R1|apply R2]; exact L.
Qed.

(** * Concrete draws (these are the arrays numpy returns for seed 7 on the 2 x 3 plate) *)
Local Open Scope string_scope.

Definition xf_draw_full_2x3 : list string := ["B01"; "B03"; "A01"; "A03"; "A02"; "B02"].
Definition xf_draws_row_2x3 : list (list string) := [["A03"; "A02"; "A01"]; ["B01"; "B02"; "B03"]].
Definition xf_draws_column_2x3 : list (list string) := [["A01"; "B01"]; ["B02"; "A02"]; ["A03"; "B03"]].

Lemma xf_draws_2x3_ok :
  Forall2 (@Permutation string) (rand_requests RFull 2 3) [xf_draw_full_2x3] /\
  Forall2 (@Permutation string) (rand_requests RRow 2 3) xf_draws_row_2x3 /\
  Forall2 (@Permutation string) (rand_requests RColumn 2 3) xf_draws_column_2x3.
Proof.
  split; [|split].
  - constructor; [|constructor]. apply NoDup_Permutation.
    + apply (rz_nodup_requests RRow 2 3).
    + repeat constructor; cbn; intuition discriminate.
    + intro w. vm_compute. intuition.
  - apply Forall2_cons; [|apply Forall2_cons; [|apply Forall2_nil]].
    + apply (perm_trans (perm_swap _ _ _)). apply (perm_trans (perm_skip _ (perm_swap _ _ _))).
      apply perm_swap.
    + apply Permutation_refl.
  - apply Forall2_cons; [|apply Forall2_cons; [|apply Forall2_cons; [|apply Forall2_nil]]].
    + apply Permutation_refl.
    + apply perm_swap.
    + apply Permutation_refl.
Qed.
