(** C20: rejection of non-finite volume limits, restricted to the combinations that the LIBRARY rejects.

    Library ([Labware.__init__], also reached from [Trough.__init__]):
      if min_volume is None or not min_volume >= 0:          raise ValueError
      if max_volume is None or not max_volume > min_volume:  raise ValueError
    Hence min_volume in {NaN, -inf} fails the first test, min_volume = +inf passes it but fails the second one
    for every max_volume, max_volume in {NaN, -inf} fails the second test. max_volume = +inf with a finite
    min_volume >= 0 is ACCEPTED by the library; the model ([mk_labware], [mk_trough]) answers [Err EValue] for
    it as for every non-finite limit, so that configuration is OUTSIDE the model: the correspondence harness
    never generates it and no theorem is stated about it. *)
From Robo Require Import Prelude Str Wells Utils Labware Invariants CtorProofs.

Lemma reject_limits_lib a :
  a_min a = XNaN \/ a_min a = XPInf \/ a_min a = XNInf \/ a_max a = XNaN \/ a_max a = XNInf ->
  mk_labware a = Err EValue.
Proof.
  intro H. apply reject_limits_not_finite.
  destruct H as [H|[H|[H|[H|H]]]]; rewrite H; cbn [xfinite]; tauto.
Qed.

Lemma treject_limits_lib a :
  t_min a = XNaN \/ t_min a = XPInf \/ t_min a = XNInf \/ t_max a = XNaN \/ t_max a = XNInf \/
  (exists lo hi, t_min a = XQ lo /\ t_max a = XQ hi /\ ((lo < 0)%Q \/ (hi <= lo)%Q)) ->
  mk_trough a = Err EValue.
Proof.
  intro H. apply treject_limits.
  destruct H as [H|[H|[H|[H|[H|H]]]]].
  - left. rewrite H. reflexivity.
  - left. rewrite H. reflexivity.
  - left. rewrite H. reflexivity.
  - right. left. rewrite H. reflexivity.
  - right. left. rewrite H. reflexivity.
  - right. right. exact H.
Qed.
