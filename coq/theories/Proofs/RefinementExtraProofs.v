(** C01, additions after the independent audit (REVIEW.md, M14 b-d):
    - the CHECKED replay (interpreter with the volume limits switched on) of the records and of the TEXT of
      the worklist of a fully accepted program;
    - the composition clause is false for a stand-alone aspirate followed by a stand-alone dispense
      (the robot's tip carries the liquid, the tracking of a bare [dispense] does not know its origin);
    - an accepted program on a FluentWorklist.
    Imports the existing refinement proofs; nothing there is changed. *)
From Robo Require Import Prelude Str Wells Utils Labware Tips Records Partition Params Worklist EvoCmd
  Program Invariants Robot LabwareProofs RefinementProofs.
From Robo Require Import Gwl RecordsProofs RefinementTextProofs.
From Coq Require Import Lqa.
#[local] Open Scope Q_scope.

(* ------------------------------------------------------------------ exact nearness and the volume checks *)

(** no error allowed: the robots agree on every volume up to [==] *)
Definition E0 : nat -> nat -> Q := fun _ _ => 0.

Lemma near0_eq x x' : Qabs (x' - x) <= 0 -> x' == x.
Proof. intro H. apply Qabs_Qle_condition in H. lra. Qed.

Lemma E0_mono (b : nat -> nat -> bool) : forall k j : nat, E0 k j + (if b k j then 0 else 0) <= E0 k j.
Proof. intros k j. unfold E0. destruct (b k j); lra. Qed.

Lemma do_aspirate_checked0 d rb rb' label p v v' rb1 :
  racks_near E0 (rb_racks rb) (rb_racks rb') -> v' == v ->
  do_aspirate true d rb label p v = Some rb1 ->
  exists rb1', do_aspirate true d rb' label p v' = Some rb1' /\ racks_near E0 (rb_racks rb1) (rb_racks rb1').
Proof.
  intros Hnear Hv H.
  pose proof (do_aspirate_unchecked _ _ _ _ _ _ H) as Hu.
  destruct (do_aspirate_near E0 E0 0 d rb rb' label p v v' rb1 Hnear) as (rb1' & Hu' & Hn').
  { apply Qabs_zero_le. lra. }
  { exact (E0_mono _). }
  { exact Hu. }
  exists rb1'. split; [|exact Hn'].
  unfold do_aspirate in *.
  destruct (find_rack (rb_racks rb) label) as [k|] eqn:Hf; [|discriminate].
  destruct (nth_error (rb_racks rb) k) as [r|] eqn:Hr; [|discriminate].
  destruct (unpos d (rk_geom r) p) as [i|] eqn:Hun; [|discriminate].
  cbn [andb] in H. destruct (Qltb (nth i (rk_vols r) 0 - v) (rk_min r)) eqn:Ec; [discriminate|].
  destruct (racks_near_nth _ _ _ _ _ Hnear Hr) as (r' & Hr' & Hn1 & Hg' & (Hmin & _ & _ & Hd)).
  revert Hu'. rewrite find_rack_name, (proj1 Hnear), <- find_rack_name, Hf, Hr', Hg', Hun. cbn [andb].
  intro Hu'.
  assert (Ec' : Qltb (nth i (rk_vols r') 0 - v') (rk_min r') = false).
  { apply Qltb_false in Ec. destruct (Qltb (nth i (rk_vols r') 0 - v') (rk_min r')) eqn:E; [|reflexivity].
    apply Qltb_true in E. pose proof (near0_eq _ _ (Hd i)) as Hi. rewrite Hmin in E. lra. }
  rewrite Ec'. exact Hu'.
Qed.

Lemma do_dispense_checked0 d rb rb' label p v v' rb1 :
  racks_near E0 (rb_racks rb) (rb_racks rb') -> v' == v ->
  do_dispense true d rb label p v = Some rb1 ->
  exists rb1', do_dispense true d rb' label p v' = Some rb1' /\ racks_near E0 (rb_racks rb1) (rb_racks rb1').
Proof.
  intros Hnear Hv H.
  pose proof (do_dispense_unchecked _ _ _ _ _ _ H) as Hu.
  destruct (do_dispense_near E0 E0 0 d rb rb' label p v v' rb1 Hnear) as (rb1' & Hu' & Hn').
  { apply Qabs_zero_le. lra. }
  { exact (E0_mono _). }
  { exact Hu. }
  exists rb1'. split; [|exact Hn'].
  unfold do_dispense in *.
  destruct (find_rack (rb_racks rb) label) as [k|] eqn:Hf; [|discriminate].
  destruct (nth_error (rb_racks rb) k) as [r|] eqn:Hr; [|discriminate].
  destruct (unpos d (rk_geom r) p) as [i|] eqn:Hun; [|discriminate].
  cbn [andb] in H. destruct (Qgtb (nth i (rk_vols r) 0 + v) (rk_max r)) eqn:Ec; [discriminate|].
  destruct (racks_near_nth _ _ _ _ _ Hnear Hr) as (r' & Hr' & Hn1 & Hg' & (_ & Hmax & _ & Hd)).
  assert (Hun' : unpos d (rk_geom r') p = Some i) by (rewrite Hg'; exact Hun).
  revert Hu'. rewrite find_rack_name, (proj1 Hnear), <- find_rack_name, Hf, Hr', Hun'. cbn [andb].
  intro Hu'.
  assert (Ec' : Qgtb (nth i (rk_vols r') 0 + v') (rk_max r') = false).
  { apply Qgtb_false in Ec. destruct (Qgtb (nth i (rk_vols r') 0 + v') (rk_max r')) eqn:E; [|reflexivity].
    apply Qgtb_true in E. pose proof (near0_eq _ _ (Hd i)) as Hi. rewrite Hmax in E. lra. }
  rewrite Ec'. exact Hu'.
Qed.

Lemma dispense_all_checked0 d label v v' ps : v' == v -> forall rb rb' rb1,
  racks_near E0 (rb_racks rb) (rb_racks rb') -> dispense_all true d rb label ps v = Some rb1 ->
  exists rb1', dispense_all true d rb' label ps v' = Some rb1' /\ racks_near E0 (rb_racks rb1) (rb_racks rb1').
Proof.
  intro Hvv. induction ps as [|p rest IH]; intros rb rb' rb1 Hnear H; cbn [dispense_all] in *.
  - injection H as <-. exists rb'. split; [reflexivity|exact Hnear].
  - destruct (do_dispense true d rb label p v) as [rb2|] eqn:Ed; [|discriminate].
    destruct (do_dispense_checked0 d rb rb' label p v v' rb2 Hnear Hvv Ed) as (rb2' & Ed' & Hnear2).
    rewrite Ed'. exact (IH rb2 rb2' rb1 Hnear2 H).
Qed.

Lemma do_reagent_checked0 d rb rb' f v rb1 : pynum_q v == pynum_q (r_volume f) ->
  racks_near E0 (rb_racks rb) (rb_racks rb') -> do_reagent true d rb f = Some rb1 ->
  exists rb1', do_reagent true d rb' (set_r_volume f v) = Some rb1' /\
               racks_near E0 (rb_racks rb1) (rb_racks rb1').
Proof.
  intros Hvv Hnear H. unfold do_reagent in *.
  cbn [set_r_volume r_src_label r_src_start r_src_end r_dst_label r_dst_start r_dst_end r_exclude r_volume].
  destruct (find_rack (rb_racks rb) (r_src_label f)) as [k|] eqn:Hf; [|discriminate].
  destruct (nth_error (rb_racks rb) k) as [r|] eqn:Hr; [|discriminate].
  destruct (range_index d (rk_geom r) _ _) as [i|] eqn:Hu; [|discriminate].
  cbn [andb] in H.
  match type of H with (if Qltb ?x ?m then _ else _) = _ => destruct (Qltb x m) eqn:Ec; [discriminate|] end.
  destruct (racks_near_nth _ _ _ _ _ Hnear Hr) as (r' & Hr' & Hn' & Hg' & (Hmin & _ & _ & Hd)).
  rewrite find_rack_name, (proj1 Hnear), <- find_rack_name, Hf, Hr', Hg', Hu. cbn [andb].
  match goal with |- context [Qltb ?x ?m] =>
    assert (Ec' : Qltb x m = false);
    [apply Qltb_false in Ec; destruct (Qltb x m) eqn:E; [|reflexivity];
     apply Qltb_true in E; pose proof (near0_eq _ _ (Hd i)) as Hi; rewrite Hmin, Hvv in E; lra|] end.
  rewrite Ec'.
  eapply dispense_all_checked0; [exact Hvv| |exact H]. unfold with_rack. cbn [rb_racks].
  match goal with |- racks_near _ (upd _ _ (set_rack_vol _ _ ?a)) (upd _ _ (set_rack_vol _ _ ?b)) =>
    change (set_rack_vol r i a) with (mk_rack r (upd (rk_vols r) i a) (rk_comp r));
    change (set_rack_vol r' i b) with (mk_rack r' (upd (rk_vols r') i b) (rk_comp r')) end.
  apply (racks_near_upd E0); try assumption.
  - intros k1 j. apply Qle_refl.
  - specialize (Hd i). apply Qabs_Qle_condition in Hd. unfold E0 in *. rewrite Hvv. apply Qabs_Qle_condition.
    split; lra.
Qed.

Lemma interp1_checked0 d rb rb' r r' rb1 :
  racks_near E0 (rb_racks rb) (rb_racks rb') -> srec_near 0 r r' ->
  interp1 true d rb r = Some rb1 ->
  exists rb1', interp1 true d rb' r' = Some rb1' /\ racks_near E0 (rb_racks rb1) (rb_racks rb1').
Proof.
  intros Hnear Hr H.
  destruct r as [f|f|f|sc| | | |t|i|s]; cbn [srec_near] in Hr;
    try (subst r'; cbn [interp1] in *; injection H as <-; eexists; split; [reflexivity|];
         cbn [rb_racks]; exact Hnear).
  - destruct Hr as (f' & -> & Hl & Hp & Hv). cbn [interp1] in *. rewrite Hl, Hp.
    eapply do_aspirate_checked0; [exact Hnear|exact (near0_eq _ _ Hv)|exact H].
  - destruct Hr as (f' & -> & Hl & Hp & Hv). cbn [interp1] in *. rewrite Hl, Hp.
    eapply do_dispense_checked0; [exact Hnear|exact (near0_eq _ _ Hv)|exact H].
  - destruct Hr as (v & -> & Hvv & _). cbn [interp1] in *. exact (do_reagent_checked0 d rb rb' f v rb1 Hvv Hnear H).
Qed.

(** records that agree up to [==] on the A / D volumes, replayed WITH the volume checks on robots that agree
    up to [==]: both succeed or both fail, and the results agree up to [==] *)
Theorem interp_checked0 d : forall recs recs', Forall2 (srec_near 0) recs recs' ->
  forall rb rb' rb1, racks_near E0 (rb_racks rb) (rb_racks rb') -> interp true d rb recs = Some rb1 ->
  exists rb1', interp true d rb' recs' = Some rb1' /\ racks_near E0 (rb_racks rb1) (rb_racks rb1').
Proof.
  intros recs recs' HF. induction HF as [|r r' rest rest' Hr Hrest IH]; intros rb rb' rb1 Hnear H.
  - cbn [interp] in *. injection H as <-. exists rb'. split; [reflexivity|exact Hnear].
  - cbn [interp] in H. destruct (interp1 true d rb r) as [rb2|] eqn:E1; [|discriminate].
    destruct (interp1_checked0 d rb rb' r r' rb2 Hnear Hr E1) as (rb2' & E1' & Hnear2).
    destruct (IH rb2 rb2' rb1 Hnear2 H) as (rb1' & Hi & Hfin).
    exists rb1'. cbn [interp]. rewrite E1'. split; [exact Hi|exact Hfin].
Qed.

(** C01_rendered_exact with the checks switched on *)
Theorem rendered_exact_checked d rb recs rb1 :
  Forall rec_valid recs -> Forall r_num recs -> Forall cents_ok recs ->
  interp true d rb recs = Some rb1 ->
  exists rb1', interp_text true d rb (map render recs) = Some rb1' /\
               Forall2 rack_eqv (rb_racks rb1) (rb_racks rb1').
Proof.
  intros Hv Hi Hc H. destruct (read_lines_near recs Hv Hi) as (recs' & Hr & _ & Hex).
  destruct (interp_checked0 d recs recs' (Hex Hc) rb rb rb1 (racks_near_refl _) H) as (rb1' & Hi' & Hn).
  exists rb1'. unfold interp_text. rewrite Hr. split; [exact Hi'|].
  eapply racks_near_zero; [exact Hn|]. intros k j. unfold E0. lra.
Qed.

(* ------------------------------------------------------------------ whole programs, checked *)

(** every call accepted: the records replay WITHIN THE LIMITS to the tracked volumes *)
Theorem run_refines_checked s0 ops :
  good_state s0 -> w_recs (st_wl s0) = [] ->
  forallb wl_op ops = true -> Forall (op_ok s0) ops ->
  Forall (fun e => e = None) (snd (run s0 ops)) ->
  exists rb, interp true (w_dev (st_wl s0)) (robot_of (st_lw s0)) (w_recs (st_wl (fst (run s0 ops)))) = Some rb /\
             sim (fst (run s0 ops)) rb.
Proof.
  intros Hgood Hrecs Hops Hok Hall.
  destruct (run_replay s0 ops s0 _ Hgood (sim_robot_of s0) eq_refl eq_refl Hops Hok Hall)
    as (new & rb & W & I & S & _).
  exists rb. rewrite W. cbn [w_recs emit]. rewrite Hrecs. cbn [app].
  split; [exact I|exact S].
Qed.

(** ... and so does the TEXT of the worklist, when all pipetted volumes have at most two decimals *)
Theorem run_file_exact_checked s0 ops :
  good_state s0 -> w_recs (st_wl s0) = [] ->
  forallb wl_op ops = true -> Forall (op_ok s0) ops -> Forall op_text_ok ops ->
  Forall (fun e => e = None) (snd (run s0 ops)) ->
  Forall cents_ok (w_recs (st_wl (fst (run s0 ops)))) ->
  exists rb, interp_text true (w_dev (st_wl s0)) (robot_of (st_lw s0))
               (map render (w_recs (st_wl (fst (run s0 ops))))) = Some rb /\
             sim (fst (run s0 ops)) rb.
Proof.
  intros Hgood Hrecs Hops Hok Htx Hall Hc.
  destruct (run_records_valid s0 ops Hrecs Hops Htx) as [Hv Hi].
  destruct (run_refines_checked s0 ops Hgood Hrecs Hops Hok Hall) as (rb & Hint & Hsim).
  destruct (rendered_exact_checked _ _ _ _ Hv Hi Hc Hint) as (rb' & Ht & He).
  exists rb'. split; [exact Ht|]. unfold sim. eapply sim_racks_eqv; eassumption.
Qed.

(** the checked text replay implies the unchecked one *)
Lemma interp_text_unchecked d rb lines rb' :
  interp_text true d rb lines = Some rb' -> interp_text false d rb lines = Some rb'.
Proof.
  unfold interp_text. destruct (read_lines lines) as [recs|]; [|discriminate]. apply interp_unchecked.
Qed.

(* ------------------------------------------------------------------ composition: stand-alone aspirate + dispense *)

#[local] Open Scope string_scope.

(** aspirate 100 uL from plate well A01, then dispense 100 uL into trough column 1, as two stand-alone calls *)
Definition asp_disp_prog : list op :=
  [OAspirate 0 (A1 ["A01"]) (A0 (XQ 100)) None kw_default;
   ODispense 1 (A1 ["A01"]) (A0 (XQ 100)) None None kw_default].

(** The statement
      forall s0 ops, good_state s0 -> cstate s0 -> w_recs (st_wl s0) = [] -> forallb wl_op ops = true ->
        Forall (op_ok s0) ops -> Forall (fun e => e = None) (snd (run s0 ops)) ->
        exists rb, interp false ... (w_recs (st_wl (fst (run s0 ops)))) = Some rb /\ csim (fst (run s0 ops)) rb
    ([C01_composition_run_distribute] with [wl_op] in place of [trd_op]) is FALSE: both calls are accepted, the
    file replays, the VOLUMES agree ([sim]), but the robot's tip carried liquid of plate well A01, so 1/6 of
    trough column 1 is "big.A01" on the robot, while the tracked composition of the column has no such
    component (a [dispense] without [compositions=] adds liquid of unknown origin). *)
Theorem composition_dispense_refuted :
  exists s0 ops,
    good_state s0 /\ cstate s0 /\ w_recs (st_wl s0) = [] /\ forallb wl_op ops = true /\
    Forall (op_ok s0) ops /\ Forall (fun e => e = None) (snd (run s0 ops)) /\
    exists rb L r,
      interp false (w_dev (st_wl s0)) (robot_of (st_lw s0)) (w_recs (st_wl (fst (run s0 ops)))) = Some rb /\
      sim (fst (run s0 ops)) rb /\
      nth_error (st_lw (fst (run s0 ops))) 1 = Some L /\ nth_error (rb_racks rb) 1 = Some r /\
      cfrac (rk_comp r) "big.A01" 0 == 1 # 6 /\ cfrac (lw_comp L) "big.A01" 0 == 0 /\
      ~ csim (fst (run s0 ops)) rb.
Proof.
  exists (ex_state Evo), asp_disp_prog.
  assert (Hgood : good_state (ex_state Evo)) by (apply ex_state_good; discriminate).
  assert (Hok : Forall (op_ok (ex_state Evo)) asp_disp_prog).
  { constructor; [exact I|constructor; [exact I|constructor]]. }
  assert (Hall : Forall (fun e => e = None) (snd (run (ex_state Evo) asp_disp_prog))).
  { vm_compute. constructor; [reflexivity|constructor; [reflexivity|constructor]]. }
  split; [exact Hgood|]. split; [apply ex_state_cstate|]. split; [reflexivity|]. split; [reflexivity|].
  split; [exact Hok|]. split; [exact Hall|].
  destruct (run_refines (ex_state Evo) asp_disp_prog Hgood eq_refl eq_refl Hok Hall) as (rb & Hint & Hsim).
  destruct (nth_error (st_lw (fst (run (ex_state Evo) asp_disp_prog))) 1) as [L|] eqn:HL; [|vm_compute in HL; discriminate].
  destruct (nth_error (rb_racks rb) 1) as [r|] eqn:Hr.
  2: { exfalso. revert Hr. vm_compute in Hint. injection Hint as <-. vm_compute. discriminate. }
  assert (F1 : cfrac (rk_comp r) "big.A01" 0 == 1 # 6).
  { revert Hr. vm_compute in Hint. injection Hint as <-. vm_compute. intro Hr. injection Hr as <-.
    vm_compute. reflexivity. }
  assert (F2 : cfrac (lw_comp L) "big.A01" 0 == 0).
  { revert HL. vm_compute. intro HL. injection HL as <-. vm_compute. reflexivity. }
  exists rb, L, r. split; [exact Hint|]. split; [exact Hsim|]. split; [reflexivity|]. split; [exact Hr|].
  split; [exact F1|]. split; [exact F2|].
  intro Hc. pose proof (csim_fraction _ _ 1%nat L r "big.A01" 0%nat Hc HL Hr) as E.
  rewrite F1, F2 in E. vm_compute in E. discriminate E.
Qed.

(* ------------------------------------------------------------------ an accepted program on a FluentWorklist *)

(** on [ex_state Fluent]: a transfer from the trough (two virtual rows of column 1, one of column 2) to the
    plate with a label and wash scheme 2, a stand-alone dispense with a 2-D well argument, a transfer of
    1900 uL that is split (950 + 950) *)
Definition fluent_prog : list op :=
  [OTransfer 1 (A1 ["A01"; "C01"; "B02"]) 0 (A1 ["A02"; "B02"; "B01"]) (A1 [40; 125 # 10; 99 # 2]%Q)
             (Some "source") (SInt 2) "auto" kw_default;
   ODispense 0 (A2 [["A01"; "A02"]; ["B01"; "B02"]]) (A0 (XQ (7 # 2))) None None kw_default;
   OTransfer 0 (A1 ["A01"]) 0 (A1 ["B02"]) (A1 [1900]%Q) None SFlush "auto" kw_default;
   OCommit].

Lemma fluent_prog_hyps :
  good_state (ex_state Fluent) /\ w_recs (st_wl (ex_state Fluent)) = [] /\
  forallb wl_op fluent_prog = true /\ Forall (op_ok (ex_state Fluent)) fluent_prog /\
  Forall op_text_ok fluent_prog /\
  Forall (fun e => e = None) (snd (run (ex_state Fluent) fluent_prog)) /\
  Forall cents_ok (w_recs (st_wl (fst (run (ex_state Fluent) fluent_prog)))).
Proof.
  split; [apply ex_state_good; discriminate|]. split; [reflexivity|]. split; [reflexivity|].
  split; [repeat (apply Forall_cons || apply Forall_nil); exact I|].
  split; [repeat (apply Forall_cons || apply Forall_nil); exact I|].
  split; [vm_compute; repeat (apply Forall_cons || apply Forall_nil); reflexivity|].
  set (recs := w_recs _). vm_compute in recs. subst recs.
  repeat (apply Forall_cons || apply Forall_nil); cbn [cents_ok ad_volume]; try exact I;
    match goal with |- exists z, (?v * 100 == _)%Q => exists (Qnum (Qred (v * 100))); vm_compute; reflexivity end.
Qed.

(* ------------------------------------------------------------------ a program with FLOAT distribute volumes *)

Definition ex_dargs_f (col : Z) (q : Q) : distargs :=
  {| d_source_column := col; d_volume := RVFloat (XQ q); d_diti_reuse := 1; d_multi_disp := 1;
     d_liquid_class := PStr "W"; d_label := None; d_direction := "left_to_right";
     d_src_id := PStr ""; d_src_type := PStr ""; d_dst_id := PStr ""; d_dst_type := PStr "" |}.

(** on [ex_state Evo]: a transfer, a distribute of the float 12.5 to two plate wells, a distribute of the float
    2^-10 = 0.0009765625 to one well (an R record is not rounded to two decimals) *)
Definition float_prog : list op :=
  [OTransfer 0 (A1 ["A01"]) 0 (A1 ["A02"]) (A1 [100]%Q) None SFlush "auto" kw_default;
   ODistribute 1 0 (A1 ["A02"; "B02"]) (ex_dargs_f 0 (25 # 2));
   ODistribute 1 0 (A1 ["B01"]) (ex_dargs_f 1 (1 # 1024));
   OCommit].

Lemma float_prog_hyps :
  good_state (ex_state Evo) /\ w_recs (st_wl (ex_state Evo)) = [] /\
  forallb wl_op float_prog = true /\ Forall (op_ok (ex_state Evo)) float_prog /\
  Forall op_text_ok float_prog /\
  Forall (fun e => e = None) (snd (run (ex_state Evo) float_prog)) /\
  Forall cents_ok (w_recs (st_wl (fst (run (ex_state Evo) float_prog)))).
Proof.
  split; [apply ex_state_good; discriminate|]. split; [reflexivity|]. split; [reflexivity|].
  split.
  { constructor; [exact I|]. constructor; [|constructor; [|constructor; [exact I|constructor]]].
    - split; [left; reflexivity|]. intros Ld ps HLd Hps. cbn in HLd. injection HLd as <-.
      vm_compute in Hps. injection Hps as <-.
      repeat (constructor; [cbn; intuition discriminate|]). constructor.
    - split; [left; reflexivity|]. intros Ld ps HLd Hps. cbn in HLd. injection HLd as <-.
      vm_compute in Hps. injection Hps as <-.
      repeat (constructor; [cbn; intuition discriminate|]). constructor. }
  split.
  { constructor; [exact I|]. constructor; [|constructor; [|constructor; [exact I|constructor]]].
    - right. exists (25 # 2)%Q, 1%nat. split; reflexivity.
    - right. exists (1 # 1024)%Q, 10%nat. split; reflexivity. }
  split; [vm_compute; repeat (apply Forall_cons || apply Forall_nil); reflexivity|].
  set (recs := w_recs _). vm_compute in recs. subst recs.
  repeat (apply Forall_cons || apply Forall_nil); cbn [cents_ok ad_volume]; try exact I;
    match goal with |- exists z, (?v * 100 == _)%Q => exists (Qnum (Qred (v * 100))); vm_compute; reflexivity end.
Qed.
