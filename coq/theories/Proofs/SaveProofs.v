(** Lemmas about saving a worklist (C17): CRLF encoding round-trip, file-name check, string conversion. *)
From Robo Require Import Prelude Str Save.
#[local] Open Scope string_scope.

(** * String append *)

Lemma sv_append_nil_r s : s ++ "" = s.
Proof. induction s as [|a s IH]; cbn [append]; [reflexivity|]. rewrite IH. reflexivity. Qed.

Lemma sv_append_assoc s1 s2 s3 : (s1 ++ s2) ++ s3 = s1 ++ (s2 ++ s3).
Proof. induction s1 as [|a s1 IH]; cbn [append]; [reflexivity|]. rewrite IH. reflexivity. Qed.

Lemma sv_append_snoc_cons cur a x : (cur ++ String a "") ++ x = cur ++ String a x.
Proof. rewrite sv_append_assoc. reflexivity. Qed.

(** * join *)

Lemma sv_join_cons sep x y l : join sep (x :: y :: l) = x ++ sep ++ join sep (y :: l).
Proof. reflexivity. Qed.

Lemma sv_join_snoc sep l r :
  join sep (l ++ [r])%list = join sep l ++ (match l with [] => "" | _ :: _ => sep end) ++ r.
Proof.
  induction l as [|x l IH]; [reflexivity|].
  destruct l as [|y l].
  - cbn [app join]. reflexivity.
  - change ((x :: y :: l) ++ [r])%list with (x :: y :: (l ++ [r]))%list.
    rewrite !sv_join_cons. change (y :: (l ++ [r]))%list with ((y :: l) ++ [r])%list. rewrite IH.
    rewrite !sv_append_assoc. reflexivity.
Qed.

(** * Splitting at a one-character separator *)

Lemma sv_split_on_piece c x rest cur : contains_char c x = false ->
  split_on_aux c (x ++ rest) cur = split_on_aux c rest (cur ++ x).
Proof.
  revert cur. induction x as [|a x IH]; intros cur H.
  - cbn [append]. rewrite sv_append_nil_r. reflexivity.
  - cbn [contains_char] in H. apply orb_false_elim in H. destruct H as [Ha Hx].
    cbn [append split_on_aux]. rewrite Ha. rewrite IH by exact Hx. rewrite sv_append_snoc_cons. reflexivity.
Qed.

Lemma sv_split_on_join c x l cur :
  contains_char c x = false -> Forall (fun y => contains_char c y = false) l ->
  split_on_aux c (join (String c "") (x :: l)) cur = (cur ++ x) :: l.
Proof.
  revert x cur. induction l as [|y l IH]; intros x cur Hx Hl.
  - cbn [join]. rewrite <- (sv_append_nil_r x) at 1. rewrite sv_split_on_piece by exact Hx. reflexivity.
  - rewrite sv_join_cons. rewrite sv_split_on_piece by exact Hx.
    inversion Hl as [|y0 l0 Hy Hl']. subst y0 l0.
    cbn [append split_on_aux]. rewrite Ascii.eqb_refl. rewrite IH by assumption. reflexivity.
Qed.

(** * Splitting at CRLF *)

Definition sv_cr : ascii := ascii_of_nat 13.
Definition sv_lf : ascii := ascii_of_nat 10.
Definition sv_no_cr (s : string) : Prop := contains_char sv_cr s = false.

Lemma sv_split_crlf_piece x rest cur : sv_no_cr x ->
  split_crlf_aux (x ++ rest) cur = split_crlf_aux rest (cur ++ x).
Proof.
  unfold sv_no_cr, sv_cr. revert cur. induction x as [|a x IH]; intros cur H.
  - cbn [append]. rewrite sv_append_nil_r. reflexivity.
  - cbn [contains_char] in H. apply orb_false_elim in H. destruct H as [Ha Hx].
    cbn [append split_crlf_aux]. rewrite Ha. rewrite IH by exact Hx. rewrite sv_append_snoc_cons. reflexivity.
Qed.

Lemma sv_split_crlf_sep rest cur : split_crlf_aux (crlf ++ rest) cur = cur :: split_crlf_aux rest "".
Proof. reflexivity. Qed.

Lemma sv_split_crlf_join x l cur : sv_no_cr x -> Forall sv_no_cr l ->
  split_crlf_aux (join crlf (x :: l)) cur = (cur ++ x) :: l.
Proof.
  revert x cur. induction l as [|y l IH]; intros x cur Hx Hl.
  - cbn [join]. rewrite <- (sv_append_nil_r x) at 1. rewrite sv_split_crlf_piece by exact Hx. reflexivity.
  - rewrite sv_join_cons. rewrite sv_split_crlf_piece by exact Hx.
    inversion Hl as [|y0 l0 Hy Hl']. subst y0 l0.
    rewrite sv_split_crlf_sep. rewrite IH by assumption. reflexivity.
Qed.

Lemma sv_roundtrip recs : recs <> [] -> Forall sv_no_cr recs -> decode_file (encode_file recs) = recs.
Proof.
  intros NE H. destruct recs as [|x l]; [congruence|].
  inversion H as [|x0 l0 Hx Hl]. subst x0 l0.
  unfold decode_file, encode_file. rewrite sv_split_crlf_join by assumption. reflexivity.
Qed.

Lemma sv_roundtrip_empty : encode_file [] = "" /\ decode_file "" = [""].
Proof. split; reflexivity. Qed.

Lemma sv_no_trailing_break recs r :
  encode_file (recs ++ [r])%list = encode_file recs ++ (match recs with [] => "" | _ :: _ => crlf end) ++ r.
Proof. unfold encode_file. apply sv_join_snoc. Qed.

(** * save *)

Lemma sv_overwrite name old recs :
  (name_ok name = true -> save name old recs = (Some (encode_file recs), None)) /\
  (name_ok name = false -> save name old recs = (old, Some EReject)).
Proof. unfold save. split; intro H; rewrite H; reflexivity. Qed.

(** * string conversion *)

Lemma sv_str recs : str_worklist recs = join lf recs.
Proof. reflexivity. Qed.

Lemma sv_str_split recs : recs <> [] -> Forall (fun r => contains_char sv_lf r = false) recs ->
  split_on sv_lf (str_worklist recs) = recs.
Proof.
  intros NE H. destruct recs as [|x l]; [congruence|].
  inversion H as [|x0 l0 Hx Hl]. subst x0 l0.
  unfold split_on, str_worklist. change lf with (String sv_lf "").
  rewrite sv_split_on_join by assumption. reflexivity.
Qed.

(** * file-name check *)

Definition sv_dot : ascii := "."%char.

Lemma sv_lds_nodot r cur : contains_char sv_dot r = false -> last_dot_suffix r cur = cur.
Proof.
  revert cur. induction r as [|a r IH]; intros cur H; [reflexivity|].
  cbn [contains_char] in H. apply orb_false_elim in H. destruct H as [Ha Hr].
  cbn [last_dot_suffix]. unfold sv_dot in Ha. rewrite Ha. apply IH. exact Hr.
Qed.

Lemma sv_lds_app p x cur : contains_char sv_dot x = false ->
  last_dot_suffix (p ++ String sv_dot x) cur = Some (String sv_dot x).
Proof.
  intro Hx. revert cur. induction p as [|a p IH]; intro cur.
  - cbn [append last_dot_suffix]. unfold sv_dot at 1. rewrite Ascii.eqb_refl. apply sv_lds_nodot. exact Hx.
  - cbn [append last_dot_suffix]. destruct (Ascii.eqb a "."); apply IH.
Qed.

Lemma sv_lds_inv r : forall cur sfx, last_dot_suffix r cur = Some sfx ->
  cur = Some sfx \/ exists p x, r = p ++ String sv_dot x /\ sfx = String sv_dot x.
Proof.
  induction r as [|a r IH]; intros cur sfx H.
  - left. exact H.
  - cbn [last_dot_suffix] in H. destruct (Ascii.eqb a ".") eqn:E.
    + apply Ascii.eqb_eq in E. subst a. destruct (IH _ _ H) as [H1|[p [x [H1 H2]]]].
      * right. exists "", r. injection H1 as H1. split; [reflexivity|]. symmetry. exact H1.
      * right. exists (String "." p), x. split; [cbn [append]; rewrite H1; reflexivity|exact H2].
    + destruct (IH _ _ H) as [H1|[p [x [H1 H2]]]].
      * left. exact H1.
      * right. exists (String a p), x. split; [cbn [append]; rewrite H1; reflexivity|exact H2].
Qed.

Lemma sv_suffix_ext pre x : pre <> "" -> contains_char sv_dot x = false ->
  suffix (pre ++ String sv_dot x) = String sv_dot x.
Proof.
  intros NE Hx. destruct pre as [|a p]; [congruence|].
  cbn [append suffix]. rewrite sv_lds_app by exact Hx. reflexivity.
Qed.

(** the last extension alone decides *)
Lemma sv_name_ext pre x : pre <> "" -> contains_char sv_dot x = false ->
  name_ok (pre ++ "." ++ x) = String.eqb (lower x) "gwl".
Proof.
  intros NE Hx. unfold name_ok. change ("." ++ x) with (String sv_dot x).
  rewrite sv_suffix_ext by assumption. reflexivity.
Qed.

Lemma sv_name_nodot name : contains_char sv_dot (str_tail name) = false -> name_ok name = false.
Proof.
  intro H. unfold name_ok. destruct name as [|a r]; [reflexivity|].
  cbn [str_tail] in H. cbn [suffix]. rewrite sv_lds_nodot by exact H. reflexivity.
Qed.

(** lower-casing: which characters are sent to g, w, l and "." *)
Lemma sv_lower_g a : lower_ascii a = "g"%char -> a = "g"%char \/ a = "G"%char.
Proof.
  destruct a as [b0 b1 b2 b3 b4 b5 b6 b7].
  destruct b0, b1, b2, b3, b4, b5, b6, b7; intro H; vm_compute in H;
    first [discriminate H | left; reflexivity | right; reflexivity].
Qed.
Lemma sv_lower_w a : lower_ascii a = "w"%char -> a = "w"%char \/ a = "W"%char.
Proof.
  destruct a as [b0 b1 b2 b3 b4 b5 b6 b7].
  destruct b0, b1, b2, b3, b4, b5, b6, b7; intro H; vm_compute in H;
    first [discriminate H | left; reflexivity | right; reflexivity].
Qed.
Lemma sv_lower_l a : lower_ascii a = "l"%char -> a = "l"%char \/ a = "L"%char.
Proof.
  destruct a as [b0 b1 b2 b3 b4 b5 b6 b7].
  destruct b0, b1, b2, b3, b4, b5, b6, b7; intro H; vm_compute in H;
    first [discriminate H | left; reflexivity | right; reflexivity].
Qed.

Definition sv_gwl_mixes : list string :=
  ["gwl"; "gwL"; "gWl"; "gWL"; "Gwl"; "GwL"; "GWl"; "GWL"].

Lemma sv_lower_gwl x : lower x = "gwl" <-> In x sv_gwl_mixes.
Proof.
  split.
  - intro H. destruct x as [|a [|b [|c [|d x]]]]; try discriminate H.
    cbn [lower] in H. injection H as Ha Hb Hc.
    destruct (sv_lower_g a Ha) as [Ea|Ea]; destruct (sv_lower_w b Hb) as [Eb|Eb];
      destruct (sv_lower_l c Hc) as [Ec|Ec]; subst a b c; cbn; tauto.
  - intro H. cbn in H.
    repeat (destruct H as [H|H]; [subst x; reflexivity|]). destruct H.
Qed.

Lemma sv_gwl_nodot x : lower x = "gwl" -> contains_char sv_dot x = false.
Proof.
  intro H. apply sv_lower_gwl in H. cbn in H.
  repeat (destruct H as [H|H]; [subst x; reflexivity|]). destruct H.
Qed.

Lemma sv_name_gwl base x : base <> "" -> lower x = "gwl" -> name_ok (base ++ "." ++ x) = true.
Proof.
  intros NE H. rewrite sv_name_ext; [|exact NE|apply sv_gwl_nodot; exact H].
  rewrite H. reflexivity.
Qed.

Lemma sv_name_double base x : contains_char sv_dot x = false -> lower x <> "gwl" ->
  name_ok (base ++ ".gwl" ++ "." ++ x) = false.
Proof.
  intros Hx Hl. rewrite <- sv_append_assoc. rewrite sv_name_ext.
  - apply String.eqb_neq. exact Hl.
  - destruct base; discriminate.
  - exact Hx.
Qed.

Lemma sv_name_iff name :
  name_ok name = true <-> exists base x, base <> "" /\ name = base ++ "." ++ x /\ lower x = "gwl".
Proof.
  split.
  - unfold name_ok. intro H. apply String.eqb_eq in H.
    destruct name as [|a r]; [discriminate H|]. cbn [suffix] in H.
    destruct (last_dot_suffix r None) as [sfx|] eqn:E; [|discriminate H].
    destruct (sv_lds_inv r None sfx E) as [E1|[p [x [E1 E2]]]]; [discriminate E1|].
    subst sfx r. change (lower (String sv_dot x)) with (String "." (lower x)) in H. injection H as H.
    exists (String a p), x. split; [discriminate|]. split; [reflexivity|exact H].
  - intros [base [x [NE [E H]]]]. subst name. apply sv_name_gwl; assumption.
Qed.
