(** Lemmas about saving a worklist (C17): newline translation and CRLF round-trip, file-name check on
    paths, the [with] block, string conversion. *)
From Robo Require Import Prelude Str Records Params Save.
#[local] Open Scope string_scope.

(** * String append *)

Lemma sv_append_nil_r s : s ++ "" = s.
Proof. induction s as [|a s IH]; cbn [append]; [reflexivity|]. rewrite IH. reflexivity. Qed.

Lemma sv_append_assoc s1 s2 s3 : (s1 ++ s2) ++ s3 = s1 ++ (s2 ++ s3).
Proof. induction s1 as [|a s1 IH]; cbn [append]; [reflexivity|]. rewrite IH. reflexivity. Qed.

Lemma sv_append_snoc_cons cur a x : (cur ++ String a "") ++ x = cur ++ String a x.
Proof. rewrite sv_append_assoc. reflexivity. Qed.

Lemma sv_contains_app c s1 s2 : contains_char c (s1 ++ s2) = contains_char c s1 || contains_char c s2.
Proof.
  induction s1 as [|a s1 IH]; cbn [append contains_char]; [reflexivity|].
  rewrite IH. rewrite orb_assoc. reflexivity.
Qed.

(** * join *)

Lemma sv_join_cons sep x y l : join sep (x :: y :: l) = x ++ sep ++ join sep (y :: l).
Proof. reflexivity. Qed.

Lemma sv_join_snoc sep l r :
  join sep (l ++ [r])%list = join sep l ++ (match l with [] => "" | _ :: _ => sep end) ++ r.
Proof.
  induction l as [|x l IH]; [reflexivity|].
  destruct l as [|y l].
  - cbn [app join]. reflexivity.
  - change ((x :: y :: l) ++ [r])%list with (x :: y :: (l ++ [r]))%list.
    rewrite !sv_join_cons. change (y :: (l ++ [r]))%list with ((y :: l) ++ [r])%list. rewrite IH.
    rewrite !sv_append_assoc. reflexivity.
Qed.

(** * Splitting at a one-character separator *)

Lemma sv_split_on_piece c x rest cur : contains_char c x = false ->
  split_on_aux c (x ++ rest) cur = split_on_aux c rest (cur ++ x).
Proof.
  revert cur. induction x as [|a x IH]; intros cur H.
  - cbn [append]. rewrite sv_append_nil_r. reflexivity.
  - cbn [contains_char] in H. apply orb_false_elim in H. destruct H as [Ha Hx].
    cbn [append split_on_aux]. rewrite Ha. rewrite IH by exact Hx. rewrite sv_append_snoc_cons. reflexivity.
Qed.

Lemma sv_split_on_join c x l cur :
  contains_char c x = false -> Forall (fun y => contains_char c y = false) l ->
  split_on_aux c (join (String c "") (x :: l)) cur = (cur ++ x) :: l.
Proof.
  revert x cur. induction l as [|y l IH]; intros x cur Hx Hl.
  - cbn [join]. rewrite <- (sv_append_nil_r x) at 1. rewrite sv_split_on_piece by exact Hx. reflexivity.
  - rewrite sv_join_cons. rewrite sv_split_on_piece by exact Hx.
    inversion Hl as [|y0 l0 Hy Hl']. subst y0 l0.
    cbn [append split_on_aux]. rewrite Ascii.eqb_refl. rewrite IH by assumption. reflexivity.
Qed.

(** splitting distributes over a separator in the middle *)
Lemma sv_split_on_app c p q cur :
  split_on_aux c (p ++ String c q) cur = (split_on_aux c p cur ++ split_on c q)%list.
Proof.
  revert cur. induction p as [|a p IH]; intro cur.
  - cbn [append split_on_aux]. rewrite Ascii.eqb_refl. reflexivity.
  - cbn [append split_on_aux]. destruct (Ascii.eqb a c).
    + rewrite IH. reflexivity.
    + apply IH.
Qed.

(** no piece contains the separator *)
Lemma sv_split_on_nosep c s cur : contains_char c cur = false ->
  Forall (fun x => contains_char c x = false) (split_on_aux c s cur).
Proof.
  revert cur. induction s as [|a s IH]; intros cur Hc.
  - cbn [split_on_aux]. constructor; [exact Hc|constructor].
  - cbn [split_on_aux]. destruct (Ascii.eqb a c) eqn:E.
    + constructor; [exact Hc|]. apply IH. reflexivity.
    + apply IH. rewrite sv_contains_app. rewrite Hc. cbn [contains_char]. rewrite E. reflexivity.
Qed.

(** * The newline translation *)

Definition sv_cr : ascii := ascii_of_nat 13.
Definition sv_lf : ascii := ascii_of_nat 10.
Definition sv_no_cr (s : string) : Prop := contains_char sv_cr s = false.
Definition sv_no_lf (s : string) : Prop := contains_char sv_lf s = false.

Lemma sv_translate_app s1 s2 : translate_lf (s1 ++ s2) = translate_lf s1 ++ translate_lf s2.
Proof.
  induction s1 as [|a s1 IH]; cbn [append translate_lf]; [reflexivity|].
  rewrite IH. destruct (Ascii.eqb a (ascii_of_nat 10)); reflexivity.
Qed.

Lemma sv_translate_lf_char : translate_lf lf = crlf.
Proof. reflexivity. Qed.

(** a text without LF is written as it is *)
Lemma sv_translate_nolf s : sv_no_lf s -> translate_lf s = s.
Proof.
  unfold sv_no_lf, sv_lf. induction s as [|a s IH]; intro H; [reflexivity|].
  cbn [contains_char] in H. apply orb_false_elim in H. destruct H as [Ha Hs].
  cbn [translate_lf]. rewrite Ha. rewrite IH by exact Hs. reflexivity.
Qed.

(** the translated text never has an LF that is not preceded by the CR put there *)
Lemma sv_translate_head r :
  match translate_lf r with
  | String b _ => Ascii.eqb b (ascii_of_nat 10) = false
  | EmptyString => r = ""
  end.
Proof.
  destruct r as [|b r]; [reflexivity|].
  cbn [translate_lf]. destruct (Ascii.eqb b (ascii_of_nat 10)) eqn:E; [reflexivity|exact E].
Qed.

(** the file text in general: every record translated, CRLF between the records *)
Lemma sv_encode_join recs : encode_file recs = join crlf (map translate_lf recs).
Proof.
  unfold encode_file. induction recs as [|x l IH]; [reflexivity|].
  destruct l as [|y l]; [reflexivity|].
  change (map translate_lf (x :: y :: l)) with (translate_lf x :: translate_lf y :: map translate_lf l).
  rewrite !sv_join_cons. rewrite !sv_translate_app. rewrite sv_translate_lf_char. rewrite IH. reflexivity.
Qed.

Lemma sv_map_translate_nolf recs : Forall sv_no_lf recs -> map translate_lf recs = recs.
Proof.
  induction recs as [|x l IH]; intro H; [reflexivity|].
  inversion H as [|x0 l0 Hx Hl]. subst x0 l0.
  cbn [map]. rewrite sv_translate_nolf by exact Hx. rewrite IH by exact Hl. reflexivity.
Qed.

(** for records without LF: the records joined by CRLF *)
Lemma sv_encode_nolf recs : Forall sv_no_lf recs -> encode_file recs = join crlf recs.
Proof. intro H. rewrite sv_encode_join. rewrite sv_map_translate_nolf by exact H. reflexivity. Qed.

(** * Splitting at CRLF *)

(** reading the translated text back at CRLF is splitting the original text at LF: for EVERY text *)
Lemma sv_split_crlf_translate s : forall cur,
  split_crlf_aux (translate_lf s) cur = split_on_aux (ascii_of_nat 10) s cur.
Proof.
  induction s as [|a r IH]; intro cur; [reflexivity|].
  cbn [translate_lf split_on_aux]. destruct (Ascii.eqb a (ascii_of_nat 10)) eqn:Elf.
  - change (split_crlf_aux (String (ascii_of_nat 13) (String a (translate_lf r))) cur)
      with (if Ascii.eqb a (ascii_of_nat 10) then cur :: split_crlf_aux (translate_lf r) ""
            else split_crlf_aux (String a (translate_lf r)) (cur ++ String (ascii_of_nat 13) "")).
    rewrite Elf. rewrite IH. reflexivity.
  - cbn [split_crlf_aux]. destruct (Ascii.eqb a (ascii_of_nat 13)) eqn:Ecr.
    + pose proof (sv_translate_head r) as Hh.
      destruct (translate_lf r) as [|b t] eqn:Et.
      * subst r. reflexivity.
      * rewrite Hh. apply IH.
    + apply IH.
Qed.

Lemma sv_decode_translate s : decode_file (translate_lf s) = split_on sv_lf s.
Proof. unfold decode_file, split_on, sv_lf. apply sv_split_crlf_translate. Qed.

(** what is read back in general: the text of the worklist split at LF *)
Lemma sv_decode_encode recs : decode_file (encode_file recs) = split_on sv_lf (str_worklist recs).
Proof. unfold encode_file, str_worklist. apply sv_decode_translate. Qed.

Lemma sv_split_crlf_piece x rest cur : sv_no_cr x ->
  split_crlf_aux (x ++ rest) cur = split_crlf_aux rest (cur ++ x).
Proof.
  unfold sv_no_cr, sv_cr. revert cur. induction x as [|a x IH]; intros cur H.
  - cbn [append]. rewrite sv_append_nil_r. reflexivity.
  - cbn [contains_char] in H. apply orb_false_elim in H. destruct H as [Ha Hx].
    cbn [append split_crlf_aux]. rewrite Ha. rewrite IH by exact Hx. rewrite sv_append_snoc_cons. reflexivity.
Qed.

Lemma sv_split_crlf_sep rest cur : split_crlf_aux (crlf ++ rest) cur = cur :: split_crlf_aux rest "".
Proof. reflexivity. Qed.

Lemma sv_split_crlf_join x l cur : sv_no_cr x -> Forall sv_no_cr l ->
  split_crlf_aux (join crlf (x :: l)) cur = (cur ++ x) :: l.
Proof.
  revert x cur. induction l as [|y l IH]; intros x cur Hx Hl.
  - cbn [join]. rewrite <- (sv_append_nil_r x) at 1. rewrite sv_split_crlf_piece by exact Hx. reflexivity.
  - rewrite sv_join_cons. rewrite sv_split_crlf_piece by exact Hx.
    inversion Hl as [|y0 l0 Hy Hl']. subst y0 l0.
    rewrite sv_split_crlf_sep. rewrite IH by assumption. reflexivity.
Qed.

(** * string conversion *)

Lemma sv_str recs : str_worklist recs = join lf recs.
Proof. reflexivity. Qed.

Lemma sv_str_split recs : recs <> [] -> Forall sv_no_lf recs ->
  split_on sv_lf (str_worklist recs) = recs.
Proof.
  intros NE H. destruct recs as [|x l]; [congruence|].
  inversion H as [|x0 l0 Hx Hl]. subst x0 l0.
  unfold split_on, str_worklist. change lf with (String sv_lf "").
  rewrite sv_split_on_join by assumption. reflexivity.
Qed.

(** * round trip *)

(** LF-free records are read back; a bare CR inside a record does no harm *)
Lemma sv_roundtrip_nolf recs : recs <> [] -> Forall sv_no_lf recs -> decode_file (encode_file recs) = recs.
Proof. intros NE H. rewrite sv_decode_encode. apply sv_str_split; assumption. Qed.

Lemma sv_roundtrip recs : recs <> [] -> Forall sv_no_cr recs -> Forall sv_no_lf recs ->
  decode_file (encode_file recs) = recs.
Proof. intros NE _ H. apply sv_roundtrip_nolf; assumption. Qed.

(** without the LF hypothesis the statement is false *)
Lemma sv_roundtrip_refuted : exists recs, recs <> [] /\ Forall sv_no_cr recs /\
  decode_file (encode_file recs) <> recs /\
  encode_file recs = "a" ++ crlf ++ "b" ++ crlf ++ "c" /\ decode_file (encode_file recs) = ["a"; "b"; "c"].
Proof.
  exists ["a" ++ lf ++ "b"; "c"]. split; [discriminate|]. split; [repeat constructor|].
  split; [vm_compute; discriminate|]. split; vm_compute; reflexivity.
Qed.

Lemma sv_roundtrip_empty : encode_file [] = "" /\ decode_file "" = [""].
Proof. split; reflexivity. Qed.

Lemma sv_no_trailing_break recs r :
  encode_file (recs ++ [r])%list =
  encode_file recs ++ (match recs with [] => "" | _ :: _ => crlf end) ++ translate_lf r.
Proof.
  rewrite !sv_encode_join. rewrite map_app. cbn [map]. rewrite sv_join_snoc.
  destruct recs; reflexivity.
Qed.

Lemma sv_no_trailing_break_nolf recs r : sv_no_lf r ->
  encode_file (recs ++ [r])%list = encode_file recs ++ (match recs with [] => "" | _ :: _ => crlf end) ++ r.
Proof. intro H. rewrite sv_no_trailing_break. rewrite (sv_translate_nolf r H). reflexivity. Qed.

(** * save *)

(** definitional: this is the file model *)
Lemma sv_overwrite name old recs :
  (name_ok name = true -> save name old recs = (Some (encode_file recs), None)) /\
  (name_ok name = false -> save name old recs = (old, Some EReject)).
Proof. unfold save. split; intro H; rewrite H; reflexivity. Qed.

(** a second save to the same path: neither the first save nor what was there before leaves a trace *)
Lemma sv_resave name old r1 r2 : save name (fst (save name old r1)) r2 = save name old r2.
Proof. unfold save. destruct (name_ok name); reflexivity. Qed.

Lemma sv_save_old_irrelevant name old old' recs : name_ok name = true ->
  save name old recs = save name old' recs.
Proof. unfold save. intro H. rewrite H. reflexivity. Qed.

(** * the [with] block *)

Lemma sv_init path : wf_recs (wl_init path) = [] /\ wf_path (wl_init path) = path.
Proof. split; reflexivity. Qed.

Lemma sv_enter w : wf_recs (wl_enter w) = [] /\ wf_path (wl_enter w) = wf_path w.
Proof. split; reflexivity. Qed.

Lemma sv_append_recs w rs :
  wf_recs (wl_append w rs) = (wf_recs w ++ rs)%list /\ wf_path (wl_append w rs) = wf_path w.
Proof. split; reflexivity. Qed.

Lemma sv_append_append w r1 r2 : wl_append (wl_append w r1) r2 = wl_append w (r1 ++ r2)%list.
Proof. unfold wl_append. cbn [wf_path wf_recs]. rewrite app_assoc. reflexivity. Qed.

Lemma sv_exit_is_save w p raised old : wf_path w = Some p -> wl_exit w raised old = wl_save w p old.
Proof. intro H. unfold wl_exit, wl_save. rewrite H. reflexivity. Qed.

Lemma sv_exit_nopath w raised old : wf_path w = None -> wl_exit w raised old = (old, None).
Proof. intro H. unfold wl_exit. rewrite H. reflexivity. Qed.

Lemma sv_exit_exception w old : wl_exit w true old = wl_exit w false old.
Proof. reflexivity. Qed.

(** whatever the worklist held before [with], and whatever the file held: after the block the file is
    exactly the records appended inside the block *)
Lemma sv_with_block w p rs raised old : wf_path w = Some p -> name_ok p = true ->
  wl_exit (wl_append (wl_enter w) rs) raised old = (Some (encode_file rs), None).
Proof.
  intros Hp Hn. unfold wl_exit, wl_append, wl_enter. cbn [wf_path wf_recs app].
  rewrite Hp. unfold save. rewrite Hn. reflexivity.
Qed.

Lemma sv_with_block_refused w p rs raised old : wf_path w = Some p -> name_ok p = false ->
  wl_exit (wl_append (wl_enter w) rs) raised old = (old, Some EReject).
Proof.
  intros Hp Hn. unfold wl_exit, wl_append, wl_enter. cbn [wf_path wf_recs app].
  rewrite Hp. unfold save. rewrite Hn. reflexivity.
Qed.

(** the same object used for two blocks in a row *)
Lemma sv_with_twice w p r1 r2 x1 x2 old : wf_path w = Some p -> name_ok p = true ->
  let w1 := wl_append (wl_enter w) r1 in
  let f1 := fst (wl_exit w1 x1 old) in
  wl_exit (wl_append (wl_enter w1) r2) x2 f1 = (Some (encode_file r2), None).
Proof. intros Hp Hn w1 f1. apply (sv_with_block w1 p); [exact Hp|exact Hn]. Qed.

(** a [save] to any path inside or outside a block writes the records held at that moment *)
Lemma sv_wl_save w p old : name_ok p = true -> wl_save w p old = (Some (encode_file (wf_recs w)), None).
Proof. intro H. unfold wl_save, save. rewrite H. reflexivity. Qed.

(** the tie to the record-level state *)
Lemma sv_ws_emit w rs : ws_lines (emit w rs) = (ws_lines w ++ map render rs)%list.
Proof. unfold ws_lines, emit. cbn [w_recs]. apply map_app. Qed.

Lemma sv_ws_clear w : ws_lines (ws_clear w) = [] /\ w_max (ws_clear w) = w_max w /\
  w_autosplit (ws_clear w) = w_autosplit w /\ w_diti (ws_clear w) = w_diti w /\ w_dev (ws_clear w) = w_dev w.
Proof. repeat split. Qed.

Lemma sv_ws_file_emit path w rs : ws_file path (emit w rs) = wl_append (ws_file path w) (map render rs).
Proof. unfold ws_file, wl_append. cbn [wf_path wf_recs]. rewrite sv_ws_emit. reflexivity. Qed.

Lemma sv_ws_file_clear path w : ws_file path (ws_clear w) = wl_enter (ws_file path w).
Proof. reflexivity. Qed.

Lemma sv_ws_with_block p w rs raised old : name_ok p = true ->
  wl_exit (ws_file (Some p) (emit (ws_clear w) rs)) raised old = (Some (encode_file (map render rs)), None).
Proof.
  intro Hn. rewrite sv_ws_file_emit. rewrite sv_ws_file_clear.
  apply (sv_with_block (ws_file (Some p) w) p); [reflexivity|exact Hn].
Qed.

(** * file-name check: one path component *)

Definition sv_dot : ascii := "."%char.
Definition sv_slash : ascii := "/"%char.

Lemma sv_lds_nodot r cur : contains_char sv_dot r = false -> last_dot_suffix r cur = cur.
Proof.
  revert cur. induction r as [|a r IH]; intros cur H; [reflexivity|].
  cbn [contains_char] in H. apply orb_false_elim in H. destruct H as [Ha Hr].
  cbn [last_dot_suffix]. unfold sv_dot in Ha. rewrite Ha. apply IH. exact Hr.
Qed.

Lemma sv_lds_app p x cur : contains_char sv_dot x = false ->
  last_dot_suffix (p ++ String sv_dot x) cur = Some (String sv_dot x).
Proof.
  intro Hx. revert cur. induction p as [|a p IH]; intro cur.
  - cbn [append last_dot_suffix]. unfold sv_dot at 1. rewrite Ascii.eqb_refl. apply sv_lds_nodot. exact Hx.
  - cbn [append last_dot_suffix]. destruct (Ascii.eqb a "."); apply IH.
Qed.

(** every string has no dot, or a last dot *)
Lemma sv_last_dot r : contains_char sv_dot r = false \/
  exists p x, r = p ++ String sv_dot x /\ contains_char sv_dot x = false.
Proof.
  induction r as [|a r IH]; [left; reflexivity|].
  destruct IH as [IH|[p [x [E Hx]]]].
  - destruct (Ascii.eqb a sv_dot) eqn:Ea.
    + apply Ascii.eqb_eq in Ea. subst a. right. exists "", r. split; [reflexivity|exact IH].
    + left. cbn [contains_char]. rewrite Ea. exact IH.
  - right. exists (String a p), x. split; [cbn [append]; rewrite E; reflexivity|exact Hx].
Qed.

(** the three cases of [PurePath.suffix]: they cover every name (sv_name_shape) *)
Lemma sv_suffix_ext pre x : pre <> "" -> x <> "" -> contains_char sv_dot x = false ->
  suffix (pre ++ String sv_dot x) = String sv_dot x.
Proof.
  intros NE NX Hx. destruct pre as [|a p]; [congruence|].
  cbn [append suffix]. rewrite sv_lds_app by exact Hx. destruct x; [congruence|reflexivity].
Qed.

Lemma sv_suffix_trailing_dot pre : suffix (pre ++ ".") = "".
Proof.
  destruct pre as [|a p]; [reflexivity|].
  cbn [append suffix]. change "." with (String sv_dot ""). rewrite sv_lds_app by reflexivity. reflexivity.
Qed.

Lemma sv_suffix_nodot name : contains_char sv_dot (str_tail name) = false -> suffix name = "".
Proof.
  intro H. destruct name as [|a r]; [reflexivity|].
  cbn [str_tail] in H. cbn [suffix]. rewrite sv_lds_nodot by exact H. reflexivity.
Qed.

Lemma sv_name_shape name : contains_char sv_dot (str_tail name) = false \/
  exists pre x, pre <> "" /\ name = pre ++ String sv_dot x /\ contains_char sv_dot x = false.
Proof.
  destruct name as [|a r]; [left; reflexivity|]. cbn [str_tail].
  destruct (sv_last_dot r) as [H|[p [x [E Hx]]]]; [left; exact H|].
  right. exists (String a p), x. split; [discriminate|]. split; [cbn [append]; rewrite E; reflexivity|exact Hx].
Qed.

(** the last extension alone decides *)
Lemma sv_file_ext pre x : pre <> "" -> contains_char sv_dot x = false ->
  file_ok (pre ++ "." ++ x) = String.eqb (lower x) "gwl".
Proof.
  intros NE Hx. unfold file_ok. change ("." ++ x) with (String sv_dot x).
  destruct x as [|c x'].
  - change (String sv_dot "") with ".". rewrite sv_suffix_trailing_dot. reflexivity.
  - rewrite sv_suffix_ext; [reflexivity|exact NE|discriminate|exact Hx].
Qed.

Lemma sv_file_nodot name : contains_char sv_dot (str_tail name) = false -> file_ok name = false.
Proof. intro H. unfold file_ok. rewrite sv_suffix_nodot by exact H. reflexivity. Qed.

(** lower-casing: which characters are sent to g, w, l *)
Lemma sv_lower_g a : lower_ascii a = "g"%char -> a = "g"%char \/ a = "G"%char.
Proof.
  destruct a as [b0 b1 b2 b3 b4 b5 b6 b7].
  destruct b0, b1, b2, b3, b4, b5, b6, b7; intro H; vm_compute in H;
    first [discriminate H | left; reflexivity | right; reflexivity].
Qed.
Lemma sv_lower_w a : lower_ascii a = "w"%char -> a = "w"%char \/ a = "W"%char.
Proof.
  destruct a as [b0 b1 b2 b3 b4 b5 b6 b7].
  destruct b0, b1, b2, b3, b4, b5, b6, b7; intro H; vm_compute in H;
    first [discriminate H | left; reflexivity | right; reflexivity].
Qed.
Lemma sv_lower_l a : lower_ascii a = "l"%char -> a = "l"%char \/ a = "L"%char.
Proof.
  destruct a as [b0 b1 b2 b3 b4 b5 b6 b7].
  destruct b0, b1, b2, b3, b4, b5, b6, b7; intro H; vm_compute in H;
    first [discriminate H | left; reflexivity | right; reflexivity].
Qed.

Definition sv_gwl_mixes : list string :=
  ["gwl"; "gwL"; "gWl"; "gWL"; "Gwl"; "GwL"; "GWl"; "GWL"].

Lemma sv_lower_gwl x : lower x = "gwl" <-> In x sv_gwl_mixes.
Proof.
  split.
  - intro H. destruct x as [|a [|b [|c [|d x]]]]; try discriminate H.
    cbn [lower] in H. injection H as Ha Hb Hc.
    destruct (sv_lower_g a Ha) as [Ea|Ea]; destruct (sv_lower_w b Hb) as [Eb|Eb];
      destruct (sv_lower_l c Hc) as [Ec|Ec]; subst a b c; cbn; tauto.
  - intro H. cbn in H.
    repeat (destruct H as [H|H]; [subst x; reflexivity|]). destruct H.
Qed.

Lemma sv_gwl_nodot x : lower x = "gwl" -> contains_char sv_dot x = false.
Proof.
  intro H. apply sv_lower_gwl in H. cbn in H.
  repeat (destruct H as [H|H]; [subst x; reflexivity|]). destruct H.
Qed.

Lemma sv_file_gwl base x : base <> "" -> lower x = "gwl" -> file_ok (base ++ "." ++ x) = true.
Proof.
  intros NE H. rewrite sv_file_ext; [|exact NE|apply sv_gwl_nodot; exact H].
  rewrite H. reflexivity.
Qed.

Lemma sv_file_double base x : contains_char sv_dot x = false -> lower x <> "gwl" ->
  file_ok (base ++ ".gwl" ++ "." ++ x) = false.
Proof.
  intros Hx Hl. rewrite <- sv_append_assoc. rewrite sv_file_ext.
  - apply String.eqb_neq. exact Hl.
  - destruct base; discriminate.
  - exact Hx.
Qed.

Lemma sv_file_iff name :
  file_ok name = true <-> exists base x, base <> "" /\ name = base ++ "." ++ x /\ lower x = "gwl".
Proof.
  split.
  - intro H. destruct (sv_name_shape name) as [Hn|[pre [x [NE [E Hx]]]]].
    + rewrite sv_file_nodot in H by exact Hn. discriminate H.
    + subst name. change (String sv_dot x) with ("." ++ x) in H. rewrite sv_file_ext in H by assumption.
      apply String.eqb_eq in H. exists pre, x. split; [exact NE|]. split; [reflexivity|exact H].
  - intros [base [x [NE [E H]]]]. subst name. apply sv_file_gwl; assumption.
Qed.

(** * file-name check: paths *)

Lemma sv_last_app {A} (l1 l2 : list A) d : l2 <> [] -> last (l1 ++ l2)%list d = last l2 d.
Proof.
  intro NE. induction l1 as [|a l1 IH]; [reflexivity|].
  cbn [app last]. destruct (l1 ++ l2)%list as [|b t] eqn:E.
  - apply app_eq_nil in E. destruct E as [_ E]. congruence.
  - exact IH.
Qed.

Lemma sv_parts_app dir q : path_parts (dir ++ "/" ++ q) = (path_parts dir ++ path_parts q)%list.
Proof.
  unfold path_parts, split_on. change ("/" ++ q) with (String "/"%char q).
  rewrite sv_split_on_app. apply filter_app.
Qed.

(** a directory prefix does not matter *)
Lemma sv_basename_dir dir q : path_parts q <> [] -> basename (dir ++ "/" ++ q) = basename q.
Proof. intro H. unfold basename. rewrite sv_parts_app. apply sv_last_app. exact H. Qed.

(** trailing "/", "/." , "//" ... are skipped *)
Lemma sv_basename_skip dir q : path_parts q = [] -> basename (dir ++ "/" ++ q) = basename dir.
Proof. intro H. unfold basename. rewrite sv_parts_app. rewrite H. rewrite app_nil_r. reflexivity. Qed.

Lemma sv_basename_trailing_slash p : basename (p ++ "/") = basename p.
Proof. apply (sv_basename_skip p ""). reflexivity. Qed.

Lemma sv_parts_plain name : contains_char sv_slash name = false -> name <> "" -> name <> "." ->
  path_parts name = [name].
Proof.
  intros Hs N1 N2. unfold path_parts, split_on.
  rewrite <- (sv_append_nil_r name) at 1. rewrite sv_split_on_piece by exact Hs.
  cbn [split_on_aux append filter]. unfold path_component.
  destruct (String.eqb name "") eqn:E1; [apply String.eqb_eq in E1; congruence|].
  destruct (String.eqb name ".") eqn:E2; [apply String.eqb_eq in E2; congruence|].
  reflexivity.
Qed.

Lemma sv_basename_plain name : contains_char sv_slash name = false -> name <> "" -> name <> "." ->
  basename name = name.
Proof. intros Hs N1 N2. unfold basename. rewrite sv_parts_plain by assumption. reflexivity. Qed.

Lemma sv_basename_dir_plain dir name : contains_char sv_slash name = false -> name <> "" -> name <> "." ->
  basename (dir ++ "/" ++ name) = name.
Proof.
  intros Hs N1 N2. rewrite sv_basename_dir.
  - apply sv_basename_plain; assumption.
  - rewrite sv_parts_plain by assumption. discriminate.
Qed.

(** the name is one component: it has no "/" and is not "."; it is "" exactly when there is no component *)
Lemma sv_basename_component p :
  contains_char sv_slash (basename p) = false /\ basename p <> "." /\
  (basename p = "" <-> path_parts p = []).
Proof.
  unfold basename.
  assert (F : Forall (fun c => contains_char sv_slash c = false /\ path_component c = true) (path_parts p)).
  { unfold path_parts. apply Forall_forall. intros c Hc. apply filter_In in Hc. destruct Hc as [Hin Hpc].
    split; [|exact Hpc].
    pose proof (sv_split_on_nosep sv_slash p "" eq_refl) as G.
    rewrite Forall_forall in G. apply G. exact Hin. }
  destruct (path_parts p) as [|c t] eqn:E.
  - cbn [last]. split; [reflexivity|]. split; [discriminate|]. split; reflexivity.
  - assert (L : contains_char sv_slash (last (c :: t) "") = false /\ path_component (last (c :: t) "") = true).
    { inversion F as [|c0 t0 Hc Ht]. subst c0 t0.
      clear E F. revert c Hc. induction Ht as [|y t Hy Ht IH]; intros c Hc; [exact Hc|].
      change (last (c :: y :: t) "") with (last (y :: t) ""). apply IH. exact Hy. }
    destruct L as [L1 L2]. split; [exact L1|].
    unfold path_component in L2. apply negb_true_iff in L2. apply orb_false_elim in L2.
    destruct L2 as [L2 L3]. apply String.eqb_neq in L2. apply String.eqb_neq in L3.
    split; [exact L3|]. split; [intro Q; congruence|discriminate].
Qed.

(** the check on a path is the check on its last component *)
Lemma sv_name_basename p : name_ok p = file_ok (basename p).
Proof. reflexivity. Qed.

Lemma sv_name_plain name : contains_char sv_slash name = false -> name_ok name = file_ok name.
Proof.
  intro Hs. unfold name_ok.
  destruct (String.eqb name "") eqn:E1; [apply String.eqb_eq in E1; subst name; reflexivity|].
  destruct (String.eqb name ".") eqn:E2; [apply String.eqb_eq in E2; subst name; reflexivity|].
  apply String.eqb_neq in E1. apply String.eqb_neq in E2.
  rewrite sv_basename_plain by assumption. reflexivity.
Qed.

Lemma sv_name_dir dir name : contains_char sv_slash name = false -> name <> "" -> name <> "." ->
  name_ok (dir ++ "/" ++ name) = file_ok name.
Proof. intros Hs N1 N2. unfold name_ok. rewrite sv_basename_dir_plain by assumption. reflexivity. Qed.

Lemma sv_name_trailing_slash p : name_ok (p ++ "/") = name_ok p.
Proof. unfold name_ok. rewrite sv_basename_trailing_slash. reflexivity. Qed.

Lemma sv_name_iff path :
  name_ok path = true <->
  exists stem x, stem <> "" /\ basename path = stem ++ "." ++ x /\ lower x = "gwl".
Proof. unfold name_ok. apply sv_file_iff. Qed.

(** a ".gwl" in a directory name does not count; a dot in a directory name does no harm *)
Lemma sv_name_dir_only dir name : contains_char sv_slash name = false -> name <> "" -> name <> "." ->
  file_ok name = false -> name_ok (dir ++ "/" ++ name) = false.
Proof. intros Hs N1 N2 H. rewrite sv_name_dir by assumption. exact H. Qed.

Lemma sv_name_path_gwl dir stem x : stem <> "" -> contains_char sv_slash stem = false -> lower x = "gwl" ->
  name_ok (dir ++ "/" ++ stem ++ "." ++ x) = true /\ name_ok (stem ++ "." ++ x) = true.
Proof.
  intros NE Hs Hx.
  assert (Hsl : contains_char sv_slash (stem ++ "." ++ x) = false).
  { rewrite !sv_contains_app. rewrite Hs. cbn [orb].
    apply sv_lower_gwl in Hx. cbn in Hx.
    repeat (destruct Hx as [Hx|Hx]; [subst x; reflexivity|]). destruct Hx. }
  split.
  - rewrite sv_name_dir.
    + apply sv_file_gwl; assumption.
    + exact Hsl.
    + destruct stem; [congruence|discriminate].
    + destruct stem as [|a [|b s]]; [congruence| |discriminate].
      cbn [append]. intro Q. injection Q as Q1 Q2. apply sv_lower_gwl in Hx. cbn in Hx.
      repeat (destruct Hx as [Hx|Hx]; [subst x; discriminate Q2|]). destruct Hx.
  - rewrite sv_name_plain by exact Hsl. apply sv_file_gwl; assumption.
Qed.

(** combined forms used by the property file *)
Lemma sv_basename_dir_both dir name : contains_char sv_slash name = false -> name <> "" -> name <> "." ->
  basename (dir ++ "/" ++ name) = name /\ basename name = name.
Proof. intros H1 H2 H3. split; [apply sv_basename_dir_plain|apply sv_basename_plain]; assumption. Qed.

Lemma sv_suffix_spec pre x :
  (pre <> "" -> x <> "" -> contains_char sv_dot x = false -> suffix (pre ++ String sv_dot x) = String sv_dot x) /\
  suffix (pre ++ ".") = "" /\
  (contains_char sv_dot (str_tail pre) = false -> suffix pre = "").
Proof.
  split; [apply sv_suffix_ext|]. split; [apply sv_suffix_trailing_dot|apply sv_suffix_nodot].
Qed.
