(** Lemmas about [get_trough_wells] (C19). *)
From Robo Require Import Prelude Utils.

Lemma concat_repeat_length {A} (l : list A) k : length (concat (repeat l k)) = k * length l.
Proof. induction k as [|k IH]; cbn [repeat concat]; [reflexivity|]. rewrite app_length, IH. lia. Qed.

Lemma nth_concat_repeat {A} (l : list A) d : forall k i, i < k * length l ->
  nth i (concat (repeat l k)) d = nth (i mod length l) l d.
Proof.
  induction k as [|k IH]; intros i Hi; [lia|].
  cbn [repeat concat]. destruct (Nat.lt_ge_cases i (length l)) as [Hlt|Hge].
  - rewrite app_nth1 by exact Hlt. rewrite Nat.mod_small by exact Hlt. reflexivity.
  - rewrite app_nth2 by exact Hge. rewrite IH by lia.
    assert (Hl : length l <> 0) by lia.
    replace i with ((i - length l) + 1 * length l) at 2 by lia.
    rewrite Nat.mod_add by exact Hl. reflexivity.
Qed.

Lemma cycle_enough n len : len <> 0 -> n < (n / len + 1) * len.
Proof. intro H. pose proof (Nat.div_mod n len H). pose proof (Nat.mod_upper_bound n len H). nia. Qed.

Lemma cycle_wells_length n l : l <> [] -> length (cycle_wells n l) = n.
Proof.
  intro H. unfold cycle_wells. rewrite firstn_length, concat_repeat_length.
  assert (length l <> 0) by (destruct l; [congruence|cbn; lia]).
  pose proof (cycle_enough n (length l) H0). lia.
Qed.

Lemma nth_firstn {A} (l : list A) d : forall n i, i < n -> nth i (firstn n l) d = nth i l d.
Proof.
  induction l as [|x r IH]; intros n i Hi.
  - rewrite firstn_nil. reflexivity.
  - destruct n as [|n]; [lia|]. destruct i as [|i]; cbn [firstn nth]; [reflexivity|]. apply IH. lia.
Qed.

Lemma cycle_wells_nth n l d i : l <> [] -> i < n ->
  nth i (cycle_wells n l) d = nth (i mod length l) l d.
Proof.
  intros H Hi. unfold cycle_wells. rewrite nth_firstn by exact Hi.
  assert (length l <> 0) by (destruct l; [congruence|cbn; lia]).
  apply nth_concat_repeat. pose proof (cycle_enough n (length l) H0). lia.
Qed.

Lemma get_trough_wells_ok n ws : flattenF ws <> [] ->
  get_trough_wells (PInt (Z.of_nat n)) ws = Ok (cycle_wells n (flattenF ws)).
Proof.
  intro H. unfold get_trough_wells.
  assert (E : (Z.of_nat n <? 0)%Z = false) by (apply Z.ltb_ge; lia). rewrite E.
  destruct (flattenF ws) as [|w r] eqn:F; [congruence|]. rewrite Nat2Z.id. reflexivity.
Qed.

Lemma get_trough_wells_spec n ws :
  flattenF ws <> [] ->
  exists out, get_trough_wells (PInt (Z.of_nat n)) ws = Ok out /\
    length out = n /\
    forall i d, i < n -> nth i out d = nth (i mod length (flattenF ws)) (flattenF ws) d.
Proof.
  intro H. exists (cycle_wells n (flattenF ws)). split; [apply get_trough_wells_ok; exact H|].
  split; [apply cycle_wells_length; exact H|]. intros i d Hi. apply cycle_wells_nth; assumption.
Qed.

Lemma get_trough_wells_zero ws : flattenF ws <> [] -> get_trough_wells (PInt 0) ws = Ok [].
Proof. intro H. change 0%Z with (Z.of_nat 0). rewrite get_trough_wells_ok by exact H. reflexivity. Qed.

Lemma get_trough_wells_reject n ws :
  (match n with PInt z => (z < 0)%Z | PNotInt => True end) \/ flattenF ws = [] ->
  exists e, get_trough_wells n ws = Err e.
Proof.
  intros [H|H]; unfold get_trough_wells.
  - destruct n as [z|]; [|eexists; reflexivity].
    assert (E : (z <? 0)%Z = true) by (apply Z.ltb_lt; exact H). rewrite E. eexists; reflexivity.
  - destruct n as [z|]; [|eexists; reflexivity]. destruct (z <? 0)%Z; [eexists; reflexivity|].
    rewrite H. eexists; reflexivity.
Qed.
