(** C09 at program level (REVIEW2 N3): every record in the worklist after ANY program is inside the grammar of
    the independent parsers - the record parser [parse_record] of Spec/Gwl.v for everything the generic
    worklist methods append, the textual command parsers [parse_cmd] / [parse_wash] of Spec/CmdParse.v for
    the EVOware script commands (an "B;Aspirate(...);" line has three ';'-fields and is outside the record
    grammar by design; it is C13's). *)
From Robo Require Import Prelude Str Wells Utils Labware Tips Records Partition Params Worklist EvoCmd
  Program Invariants Robot Gwl CmdDecode CmdParse RecordsProofs EvoCmdProofs RefinementProofs TextExtraProofs
  RefinementTextProofs.

(* ------------------------------------------------------------------ worklist operations ([wl_op]) *)

Lemma good_parsable r : rec_good r -> rc_parsable r.
Proof.
  intros [Hv Hn]. destruct (read_line_near r Hv Hn) as (r' & Hr & _).
  unfold rc_parsable. intro C. unfold read_line in Hr. rewrite C in Hr. discriminate Hr.
Qed.

Lemma emits_good_parsable w w' : emits_good w w' -> rc_appends_parsable w w'.
Proof.
  intros (new & -> & Hg). exists new. split; [reflexivity|].
  eapply Forall_impl; [|exact Hg]. exact good_parsable.
Qed.

(** one call of a worklist operation, accepted or not, whatever its arguments *)
Lemma step_parsable s o s' e : wl_op o = true -> step s o = (s', e) ->
  rc_appends_parsable (st_wl s) (st_wl s').
Proof.
  intros Hop H.
  destruct o; try discriminate Hop;
    try (apply emits_good_parsable; eapply step_good; [exact Hop|exact I|exact H]).
  cbn [step] in H. eapply distribute_parsable. exact H.
Qed.

(** C09_grammar_run: the records appended by a program of worklist operations *)
Theorem run_parsable ops : forall s, forallb wl_op ops = true ->
  rc_appends_parsable (st_wl s) (st_wl (fst (run s ops))).
Proof.
  induction ops as [|o r IH]; intros s Hops.
  - cbn [run fst]. apply rc_appends_none.
  - rewrite run_cons. cbn [forallb] in Hops. apply andb_true_iff in Hops. destruct Hops as [Ho Hr].
    destruct (step s o) as [s1 e1] eqn:Es. cbn [fst].
    eapply appends_parsable_trans; [eapply step_parsable; eassumption|apply IH; exact Hr].
Qed.

Theorem run_parsable_empty ops s : w_recs (st_wl s) = [] -> forallb wl_op ops = true ->
  Forall rc_parsable (w_recs (st_wl (fst (run s ops)))).
Proof.
  intros Hrecs Hops. destruct (run_parsable ops s Hops) as (rs & E & F).
  rewrite E, Hrecs. exact F.
Qed.

(* ------------------------------------------------------------------ all operations of [Program.op] *)

(** a record is read by the record parser, or it is a script command read by a command parser *)
Definition rec_in_grammar (r : srec) : Prop :=
  rc_parsable r \/
  exists text, r = RCmd text /\ (parse_cmd text <> None \/ parse_wash text <> None).

Definition appends_grammar (w w' : wstate) : Prop :=
  exists rs, w_recs w' = (w_recs w ++ rs)%list /\ Forall rec_in_grammar rs.

(** the hypothesis of C13_parse: the liquid class of a script command has neither a comma nor a double quote
    ([evo_command] only rejects ';') *)
Definition op_cmd_clean (o : op) : Prop :=
  match o with
  | OEvoAsp _ a _ | OEvoDisp _ a _ _ => tx_lc_clean (c_liquid_class a)
  | _ => True
  end.

Lemma appends_grammar_refl w : appends_grammar w w.
Proof. exists []. split; [rewrite app_nil_r; reflexivity|constructor]. Qed.

Lemma appends_grammar_eq w w' : w_recs w' = w_recs w -> appends_grammar w w'.
Proof. intro E. exists []. split; [rewrite app_nil_r; exact E|constructor]. Qed.

Lemma appends_grammar_trans w1 w2 w3 : appends_grammar w1 w2 -> appends_grammar w2 w3 -> appends_grammar w1 w3.
Proof.
  intros (n1 & E1 & B1) (n2 & E2 & B2). exists (n1 ++ n2)%list. split.
  - rewrite E2, E1, app_assoc. reflexivity.
  - apply Forall_app. split; [exact B1|exact B2].
Qed.

Lemma parsable_grammar w w' : rc_appends_parsable w w' -> appends_grammar w w'.
Proof.
  intros (rs & E & F). exists rs. split; [exact E|].
  eapply Forall_impl; [|exact F]. intros r Hr. left. exact Hr.
Qed.

Lemma appends_grammar_cmd w text : parse_cmd text <> None \/ parse_wash text <> None ->
  appends_grammar w (emit w [RCmd text]).
Proof.
  intro H. exists [RCmd text]. split; [reflexivity|]. constructor; [|constructor].
  right. exists text. split; [reflexivity|exact H].
Qed.

Lemma on_lw_wl s k f s' e : on_lw s k f = (s', e) -> st_wl s' = st_wl s.
Proof.
  unfold on_lw. destruct (nth_error (st_lw s) k) as [L|]; [|intro H; injection H as <- <-; reflexivity].
  destruct (f L) as [L' e0]. intro H. injection H as <- <-. reflexivity.
Qed.

Lemma on_wl_grammar s f s' e : (forall w w' e0, f w = (w', e0) -> rc_appends_parsable w w') ->
  on_wl s f = (s', e) -> appends_grammar (st_wl s) (st_wl s').
Proof.
  intros Hf H. unfold on_wl in H. destruct (f (st_wl s)) as [w e0] eqn:E. injection H as <- <-.
  apply parsable_grammar. eapply Hf. exact E.
Qed.

Lemma evo_aspirate_grammar s k a label s' e : tx_lc_clean (c_liquid_class a) ->
  evo_aspirate s k a label = (s', e) -> appends_grammar (st_wl s) (st_wl s').
Proof.
  intros Hlc H. unfold evo_aspirate in H.
  destruct (nth_error (st_lw s) k) as [L|]; [|injection H as <- <-; apply appends_grammar_refl].
  destruct (wells_vols (c_wells a) (evo_vols (c_volume a))) as [ws vs].
  destruct (remove L (A1 ws) (A1 vs) label) as [L' [e1|]]; [injection H as <- <-; apply appends_grammar_refl|].
  cbn [st_wl set_lw] in H. destruct (comment (st_wl s) label) as [w e2] eqn:Ec.
  pose proof (parsable_grammar _ _ (rc_grammar_comment _ _ _ _ Ec)) as H1.
  destruct e2 as [e2|]; [injection H as <- <-; exact H1|].
  destruct (evo_command "Aspirate" _ _ a (w_max w)) as [cmd|e3] eqn:Ev; injection H as <- <-; [|exact H1].
  cbn [st_wl set_wl]. eapply appends_grammar_trans; [exact H1|]. apply appends_grammar_cmd. left.
  destruct (tx_evo_command_parse _ _ _ _ _ _ (or_introl eq_refl) Hlc Ev) as (c & P & _). rewrite P. discriminate.
Qed.

Lemma evo_dispense_grammar s k a label comps s' e : tx_lc_clean (c_liquid_class a) ->
  evo_dispense s k a label comps = (s', e) -> appends_grammar (st_wl s) (st_wl s').
Proof.
  intros Hlc H. unfold evo_dispense in H.
  destruct (nth_error (st_lw s) k) as [L|]; [|injection H as <- <-; apply appends_grammar_refl].
  destruct (wells_vols (c_wells a) (evo_vols (c_volume a))) as [ws vs].
  destruct (add L (A1 ws) (A1 vs) label comps) as [L' [e1|]]; [injection H as <- <-; apply appends_grammar_refl|].
  cbn [st_wl set_lw] in H. destruct (comment (st_wl s) label) as [w e2] eqn:Ec.
  pose proof (parsable_grammar _ _ (rc_grammar_comment _ _ _ _ Ec)) as H1.
  destruct e2 as [e2|]; [injection H as <- <-; exact H1|].
  destruct (evo_command "Dispense" _ _ a (w_max w)) as [cmd|e3] eqn:Ev; injection H as <- <-; [|exact H1].
  cbn [st_wl set_wl]. eapply appends_grammar_trans; [exact H1|]. apply appends_grammar_cmd. left.
  destruct (tx_evo_command_parse _ _ _ _ _ _ (or_intror eq_refl) Hlc Ev) as (c & P & _). rewrite P. discriminate.
Qed.

Lemma evo_wash_grammar s a s' e : evo_wash s a = (s', e) -> appends_grammar (st_wl s) (st_wl s').
Proof.
  unfold evo_wash. destruct (evo_wash_cmd a) as [cmd|e0] eqn:Ev; intro H; injection H as <- <-.
  - cbn [st_wl set_wl]. apply appends_grammar_cmd. right.
    destruct (tx_wash_parse a cmd Ev) as (wc & bs & P & _). rewrite P. discriminate.
  - apply appends_grammar_refl.
Qed.

(** one call of ANY operation, accepted or not *)
Lemma step_grammar s o s' e : op_cmd_clean o -> step s o = (s', e) -> appends_grammar (st_wl s) (st_wl s').
Proof.
  intros Hc H. destruct (wl_op o) eqn:Hop; [apply parsable_grammar; eapply step_parsable; eassumption|].
  destruct o; try discriminate Hop; cbn [step op_cmd_clean] in *.
  - apply appends_grammar_eq. f_equal. eapply on_lw_wl. exact H.
  - apply appends_grammar_eq. f_equal. eapply on_lw_wl. exact H.
  - apply appends_grammar_eq. f_equal. eapply on_lw_wl. exact H.
  - eapply on_wl_grammar; [|exact H]. intros w w' e0 E. exact (proj1 (rc_grammar_ad w a w' e0) E).
  - eapply on_wl_grammar; [|exact H]. intros w w' e0 E. exact (proj2 (rc_grammar_ad w a w' e0) E).
  - eapply on_wl_grammar; [|exact H]. intros w w' e0 E. eapply rc_grammar_reagent. exact E.
  - destruct (w_dev (st_wl s)); try (injection H as <- <-; apply appends_grammar_refl).
    eapply evo_aspirate_grammar; eassumption.
  - destruct (w_dev (st_wl s)); try (injection H as <- <-; apply appends_grammar_refl).
    eapply evo_dispense_grammar; eassumption.
  - destruct (w_dev (st_wl s)); try (injection H as <- <-; apply appends_grammar_refl).
    eapply evo_wash_grammar; eassumption.
Qed.

(** C09_grammar_run_any: the records appended by any program *)
Theorem run_grammar ops : forall s, Forall op_cmd_clean ops ->
  appends_grammar (st_wl s) (st_wl (fst (run s ops))).
Proof.
  induction ops as [|o r IH]; intros s Hc.
  - cbn [run fst]. apply appends_grammar_refl.
  - rewrite run_cons. inversion Hc as [|o' r' Hco Hcr]; subst.
    destruct (step s o) as [s1 e1] eqn:Es. cbn [fst].
    eapply appends_grammar_trans; [eapply step_grammar; eassumption|apply IH; exact Hcr].
Qed.

Theorem run_grammar_empty ops s : w_recs (st_wl s) = [] -> Forall op_cmd_clean ops ->
  Forall rec_in_grammar (w_recs (st_wl (fst (run s ops)))).
Proof.
  intros Hrecs Hc. destruct (run_grammar ops s Hc) as (rs & E & F). rewrite E, Hrecs. exact F.
Qed.

(** a script command is NOT a line of the record grammar (which is why [rec_in_grammar] has two cases):
    "B;Wash(...);" / "B;Aspirate(...);" have three ';'-separated fields, the record "B;" has two *)
Lemma cmd_not_record : parse_record "B;Wash(255,1,1,1,0,""3.0"",500,""4.0"",500,10,70,30,1,0,1000,0);" = None.
Proof. vm_compute. reflexivity. Qed.
