(** C01 (REVIEW2.md N1, "still open"): [cents_ok] of the emitted records - every A / D volume is a multiple of
    1/100, the hypothesis of the exact text replay [run_file_exact] - follows from a condition on the INPUTS of
    the program: every requested volume is a multiple of 1/100 and, for a transfer, is not split
    ([v <= max_volume], or auto_split is off) or the worklist's max_volume is itself a multiple of 1/100.
    The last case covers every split: [partition_volume v m] consists of steps of size [s] and a last step
    [v - (n - 1) s], where [s] is an INTEGER ([ceil (v / n)]) or [m]. *)
From Robo Require Import Prelude Str Wells Utils Labware Tips Records Partition Params Worklist EvoCmd
  Program Invariants Robot LabwareProofs PartitionProofs PlanProofs RefinementProofs.
From Robo Require Import Gwl RecordsProofs RefinementTextProofs RefinementExtraProofs PassThroughProofs.
From Coq Require Import Lqa.
#[local] Open Scope Q_scope.

(** a multiple of 1/100 *)
Definition is_cents (q : Q) : Prop := exists z : Z, q * 100 == inject_Z z.

Lemma is_cents_compat q q' : q == q' -> is_cents q -> is_cents q'.
Proof. intros E [z H]. exists z. rewrite <- E. exact H. Qed.

Lemma is_cents_int z : is_cents (inject_Z z).
Proof. exists (z * 100)%Z. rewrite inject_Z_mult. reflexivity. Qed.

Lemma is_cents_sub_mul a b k : is_cents a -> is_cents b -> is_cents (a - inject_Z k * b).
Proof.
  intros [za Ha] [zb Hb]. exists (za - k * zb)%Z.
  unfold Zminus. rewrite inject_Z_plus, inject_Z_opp, inject_Z_mult, <- Ha, <- Hb. ring.
Qed.

(** the steps of a partitioned volume *)
Lemma partition_cents v m : is_cents v -> v <= m \/ is_cents m -> Forall is_cents (partition_volume v m).
Proof.
  intros Hv Hm. unfold partition_volume.
  destruct (Qeq_bool v 0) eqn:E0; [constructor|].
  destruct (Qltb v m) eqn:E1; [constructor; [exact Hv|constructor]|].
  cbv zeta. set (n := Qceiling (v / m)).
  set (s := if Qle_bool (inject_Z (Qceiling (v / inject_Z n))) m
            then inject_Z (Qceiling (v / inject_Z n)) else m).
  assert (Hs : is_cents s \/ n = 1%Z).
  { destruct Hm as [Hle|Hc].
    - right. apply Qltb_false in E1.
      assert (Hvm : v == m) by lra.
      assert (Hm0 : ~ m == 0).
      { intro C. apply Qeq_bool_neq in E0. apply E0. rewrite Hvm. exact C. }
      assert (Hq : v / m == 1) by (rewrite Hvm; unfold Qdiv; apply Qmult_inv_r; exact Hm0).
      unfold n. rewrite Hq. reflexivity.
    - left. unfold s. destruct (Qle_bool _ m); [apply is_cents_int|exact Hc]. }
  apply Forall_app. split.
  - destruct Hs as [Hs| ->]; [|constructor].
    apply Forall_forall. intros x Hx. apply repeat_spec in Hx. subst x. exact Hs.
  - constructor; [|constructor]. eapply is_cents_compat; [symmetry; apply Qred_correct|].
    destruct Hs as [Hs| ->].
    + apply is_cents_sub_mul; assumption.
    + eapply is_cents_compat; [|exact Hv]. change (inject_Z (1 - 1)) with 0. ring.
Qed.

Lemma vol_list_cents a m v x :
  is_cents v -> a = false \/ v <= m \/ is_cents m -> In x (vol_list a m v) -> is_cents x.
Proof.
  intros Hv Hm Hin. unfold vol_list in Hin. destruct a.
  - destruct Hm as [C|Hm]; [discriminate|].
    pose proof (partition_cents v m Hv Hm) as HF. rewrite Forall_forall in HF. exact (HF x Hin).
  - destruct Hin as [<-|[]]. exact Hv.
Qed.

(* ------------------------------------------------------------------ the condition on the inputs *)

Definition x_cents (x : xnum) : Prop := match x with XQ v => is_cents v | _ => True end.

(** a transfer volume: a multiple of 1/100 that is not split, or any split when max_volume is one too *)
Definition vol_cents (w : wstate) (v : Q) : Prop :=
  is_cents v /\ (w_autosplit w = false \/ v <= w_max w \/ is_cents (w_max w)).

Definition op_cents (w : wstate) (o : op) : Prop :=
  match o with
  | OAspirate _ _ vols _ _ => Forall x_cents (flattenF vols)
  | ODispense _ _ vols _ _ _ => Forall x_cents (flattenF vols)
  | OTransfer _ _ _ _ vols _ _ _ _ => Forall (vol_cents w) (flattenF vols)
  | OAspWell a | ODispWell a => match x_volume a with PV x => x_cents x | PVBad => True end
  | _ => True
  end.

Lemma cents_no_ad r : no_ad r = true -> cents_ok r.
Proof. destruct r; cbn [no_ad cents_ok]; intro H; try exact I; discriminate. Qed.

Lemma cents_ADok kw x : x_cents x -> ADok cents_ok kw x.
Proof.
  intros Hx name pos m f H. apply prepare_ad_kw in H. destruct H as (_ & _ & _ & Hv & _).
  assert (Hc : is_cents (ad_volume f)).
  { rewrite Hv. destruct x as [v| | |]; cbn [xq x_cents] in *; try exact Hx; exists 0%Z; reflexivity. }
  split; exact Hc.
Qed.

Lemma op_cents_opP w o : op_cents w o -> opP cents_ok w o.
Proof.
  destruct o; cbn [op_cents opP]; intro H; try exact I.
  - eapply Forall_impl; [|exact H]. intros x Hx. apply cents_ADok. exact Hx.
  - eapply Forall_impl; [|exact H]. intros x Hx. apply cents_ADok. exact Hx.
  - intros v0 v Hin Hv. rewrite Forall_forall in H. destruct (H v0 Hin) as [Hc Hm].
    apply cents_ADok. cbn [x_cents]. exact (vol_list_cents _ _ _ _ Hc Hm Hv).
  - intros m f Hf. apply prepare_ad_fields in Hf. destruct Hf as (_ & _ & _ & Hv & _).
    rewrite Hv in H. split; exact H.
  - intros m f Hf. apply prepare_ad_fields in Hf. destruct Hf as (_ & _ & _ & Hv & _).
    rewrite Hv in H. split; exact H.
Qed.

(** C01_cents_from_inputs *)
Theorem cents_from_inputs s0 ops :
  Forall cents_ok (w_recs (st_wl s0)) -> Forall (op_cents (st_wl s0)) ops ->
  Forall cents_ok (w_recs (st_wl (fst (run s0 ops)))).
Proof.
  intros H0 Hops.
  assert (HP : Forall (opP cents_ok (st_wl s0)) ops)
    by (eapply Forall_impl; [|exact Hops]; intros o Ho; apply op_cents_opP; exact Ho).
  destruct (run_P cents_ok cents_no_ad ops s0 HP) as (new & Hw & Hnew).
  rewrite Hw. cbn [w_recs emit]. apply Forall_app. split; assumption.
Qed.

(** C01_run_text_exact_inputs: hypotheses on the program only *)
Theorem run_file_exact_inputs s0 ops :
  good_state s0 -> w_recs (st_wl s0) = [] ->
  forallb wl_op ops = true -> Forall (op_ok s0) ops -> Forall op_text_ok ops ->
  Forall (op_cents (st_wl s0)) ops ->
  Forall (fun e => e = None) (snd (run s0 ops)) ->
  exists rb, interp_text false (w_dev (st_wl s0)) (robot_of (st_lw s0))
               (map render (w_recs (st_wl (fst (run s0 ops))))) = Some rb /\
             sim (fst (run s0 ops)) rb.
Proof.
  intros Hgood Hrecs Hops Hok Htx Hc Hall. apply run_file_exact; try assumption.
  apply cents_from_inputs; [rewrite Hrecs; constructor|exact Hc].
Qed.

Theorem run_file_exact_checked_inputs s0 ops :
  good_state s0 -> w_recs (st_wl s0) = [] ->
  forallb wl_op ops = true -> Forall (op_ok s0) ops -> Forall op_text_ok ops ->
  Forall (op_cents (st_wl s0)) ops ->
  Forall (fun e => e = None) (snd (run s0 ops)) ->
  exists rb, interp_text true (w_dev (st_wl s0)) (robot_of (st_lw s0))
               (map render (w_recs (st_wl (fst (run s0 ops))))) = Some rb /\
             sim (fst (run s0 ops)) rb.
Proof.
  intros Hgood Hrecs Hops Hok Htx Hc Hall. apply run_file_exact_checked; try assumption.
  apply cents_from_inputs; [rewrite Hrecs; constructor|exact Hc].
Qed.

(** the condition is needed: with max_volume 2/3 (not a multiple of 1/100) the volume 1 is split into
    2/3 + 1/3, neither of which is a multiple of 1/100 *)
Lemma partition_not_cents : partition_volume 1 (2 # 3) = [2 # 3; 1 # 3] /\ ~ is_cents (2 # 3) /\ ~ is_cents (1 # 3).
Proof.
  split; [vm_compute; reflexivity|]. split; intros [z H]; unfold Qeq in H; cbn in H; lia.
Qed.

(* ------------------------------------------------------------------ non-vacuity (programs of Props/C01.v) *)

#[local] Open Scope string_scope.

Definition cents_prog : list op :=
  [OTransfer 0 (A1 ["A01"; "B01"]) 0 (A1 ["A02"; "B02"]) (A1 [2000; 50]%Q) (Some "split") SFlush "auto" kw_default;
   ODistribute 1 0 (A1 ["A02"; "B02"]) (ex_dargs 0 25);
   OAspirate 0 (A1 ["A02"]) (A0 (XQ 5)) None kw_default;
   OCommit].

Definition cents_prog3 : list op :=
  [OTransfer 0 (A1 ["A01"]) 0 (A1 ["A02"]) (A1 [12345 # 1000]%Q) None SFlush "auto" kw_default].

Ltac cents_tac :=
  match goal with |- is_cents ?v => exists (Qnum (Qred (v * 100))); vm_compute; reflexivity end.

Ltac op_cents_tac :=
  repeat (apply Forall_cons || apply Forall_nil); cbn [op_cents flattenF]; try exact I;
  repeat (apply Forall_cons || apply Forall_nil); cbn [x_cents];
  first [cents_tac | split; [cents_tac|right; right; cents_tac]].

Lemma cents_example_hyps :
  Forall (op_cents (st_wl (ex_state Evo))) cents_prog /\
  Forall (op_cents (st_wl (ex_state Fluent))) fluent_prog /\
  Forall (op_cents (st_wl (ex_state Evo))) float_prog /\
  ~ Forall (op_cents (st_wl (ex_state Evo))) cents_prog3.
Proof.
  split; [unfold cents_prog; op_cents_tac|].
  split; [unfold fluent_prog; op_cents_tac|].
  split; [unfold float_prog; op_cents_tac|].
  intro H. inversion H as [|o r H1 _]. cbn [op_cents flattenF] in H1.
  inversion H1 as [|v r' [[z Hz] _] _]. unfold Qeq in Hz. cbn in Hz. lia.
Qed.
