(** Lemmas about composition tracking (C05): the algebra of [combine_composition], locality of
    [write_composition], the composition invariant, refinement of the ideal-mixing specification
    (Spec/Mixing.v) and conservation of component amounts. *)
From Robo Require Import Prelude Str Wells Utils Labware Records Params Worklist Invariants Mixing
  WellsProofs.
From Coq Require Import Lqa.
#[local] Open Scope Q_scope.

(* ------------------------------------------------------------------ lists, upd *)

Lemma upd_len {A} (l : list A) : forall i x, length (upd l i x) = length l.
Proof.
  induction l as [|y r IH]; intros i x; [destruct i; reflexivity|].
  destruct i as [|j]; cbn [upd length]; [reflexivity|]. rewrite IH. reflexivity.
Qed.

Lemma nth_upd_eq {A} (l : list A) d : forall i x, (i < length l)%nat -> nth i (upd l i x) d = x.
Proof.
  induction l as [|y r IH]; intros i x Hi; cbn [length] in Hi; [lia|].
  destruct i as [|j]; cbn [upd nth]; [reflexivity|]. apply IH. lia.
Qed.

Lemma nth_upd_neq {A} (l : list A) d : forall i j x, i <> j -> nth j (upd l i x) d = nth j l d.
Proof.
  induction l as [|y r IH]; intros i j x Hne; [destruct i; reflexivity|].
  destruct i as [|i]; destruct j as [|j]; cbn [upd nth]; try reflexivity; [congruence|].
  apply IH. congruence.
Qed.

Lemma Forall_upd' {A} (P : A -> Prop) (l : list A) : forall i x, Forall P l -> P x -> Forall P (upd l i x).
Proof.
  induction l as [|y r IH]; intros i x HF Hx; [destruct i; constructor|].
  inversion HF as [|y' r' Hy Hr]; subst.
  destruct i as [|j]; cbn [upd]; constructor; auto.
Qed.

Lemma Forall_nth' {A} (P : A -> Prop) (l : list A) d i : Forall P l -> P d -> P (nth i l d).
Proof.
  intros HF Hd. revert i. induction HF as [|y r Hy Hr IH]; intro i; destruct i; cbn [nth]; auto.
Qed.

Lemma nth_repeat0 n j : nth j (repeat 0 n) 0 = 0.
Proof. revert j. induction n as [|n IH]; intro j; destruct j; cbn [repeat nth]; auto. Qed.

(* ------------------------------------------------------------------ Q helpers *)

Lemma Qltb_true' a b : Qltb a b = true -> a < b.
Proof.
  unfold Qltb. intro H. apply negb_true_iff in H. apply Qnot_le_lt. intro C.
  apply Qle_bool_iff in C. congruence.
Qed.
Lemma Qltb_false' a b : Qltb a b = false -> b <= a.
Proof. unfold Qltb. intro H. apply negb_false_iff in H. apply Qle_bool_iff. exact H. Qed.
Lemma Qgtb_false' a b : Qgtb a b = false -> a <= b.
Proof. unfold Qgtb. intro H. apply negb_false_iff in H. apply Qle_bool_iff. exact H. Qed.

Lemma Qeq_bool_false_intro a b : ~ a == b -> Qeq_bool a b = false.
Proof.
  intro H. destruct (Qeq_bool a b) eqn:E; [|reflexivity]. apply Qeq_bool_iff in E. contradiction.
Qed.

Lemma Qsum_cons x l : Qsum (x :: l) = x + Qsum l.
Proof. reflexivity. Qed.

Lemma Qsum_app' l1 l2 : Qsum (l1 ++ l2) == Qsum l1 + Qsum l2.
Proof.
  induction l1 as [|x r IH]; [cbn [app]; unfold Qsum at 2; cbn [fold_right]; ring|].
  cbn [app]. rewrite !Qsum_cons, IH. ring.
Qed.

Lemma Qsum_map_ext {A} (f g : A -> Q) (l : list A) :
  (forall a, In a l -> f a == g a) -> Qsum (map f l) == Qsum (map g l).
Proof.
  induction l as [|a r IH]; intro H; [reflexivity|].
  cbn [map]. rewrite !Qsum_cons. rewrite (H a) by (left; reflexivity).
  rewrite IH; [reflexivity|]. intros b Hb. apply H. right. exact Hb.
Qed.

Lemma Qsum_map_lin {A} (a b : Q) (p q : A -> Q) (l : list A) :
  Qsum (map (fun k => a * p k + b * q k) l) == a * Qsum (map p l) + b * Qsum (map q l).
Proof.
  induction l as [|k r IH]; [unfold Qsum; cbn [map fold_right]; ring|].
  cbn [map]. rewrite !Qsum_cons, IH. ring.
Qed.

Lemma Qsum_map_zero {A} (f : A -> Q) (l : list A) : (forall a, In a l -> f a == 0) -> Qsum (map f l) == 0.
Proof.
  induction l as [|a r IH]; intro H; [reflexivity|].
  cbn [map]. rewrite Qsum_cons, (H a) by (left; reflexivity).
  rewrite IH; [ring|]. intros b Hb. apply H. right. exact Hb.
Qed.

Lemma Qsum_map_nonneg {A} (f : A -> Q) (l : list A) : (forall a, In a l -> 0 <= f a) -> 0 <= Qsum (map f l).
Proof.
  induction l as [|a r IH]; intro H; [unfold Qsum; cbn [map fold_right]; lra|].
  cbn [map]. rewrite Qsum_cons.
  assert (0 <= f a) by (apply H; left; reflexivity).
  assert (0 <= Qsum (map f r)) by (apply IH; intros b Hb; apply H; right; exact Hb). lra.
Qed.

(* ------------------------------------------------------------------ association lists *)

Section Assoc.
Context {A : Type}.
Implicit Types (l : list (string * A)) (k : string) (v : A).

Lemma assoc_get_set_same k v l : assoc_get k (assoc_set k v l) = Some v.
Proof.
  induction l as [|[k' v'] r IH]; cbn [assoc_set assoc_get].
  - rewrite String.eqb_refl. reflexivity.
  - destruct (String.eqb k' k) eqn:E; cbn [assoc_get]; rewrite E; [reflexivity|exact IH].
Qed.

Lemma assoc_get_set_other k k0 v l : k0 <> k -> assoc_get k (assoc_set k0 v l) = assoc_get k l.
Proof.
  intro Hne. induction l as [|[k' v'] r IH]; cbn [assoc_set assoc_get].
  - destruct (String.eqb_spec k0 k) as [E|_]; [contradiction|reflexivity].
  - destruct (String.eqb_spec k' k0) as [E0|N0]; cbn [assoc_get].
    + subst k'. destruct (String.eqb_spec k0 k) as [E|_]; [contradiction|reflexivity].
    + destruct (String.eqb k' k); [reflexivity|exact IH].
Qed.

Lemma assoc_get_None k l : assoc_get k l = None <-> ~ In k (map fst l).
Proof.
  induction l as [|[k' v'] r IH]; cbn [assoc_get map fst In]; [tauto|].
  destruct (String.eqb_spec k' k) as [E|N].
  - split; [discriminate|]. intro H. exfalso. apply H. left. exact E.
  - rewrite IH. tauto.
Qed.

Lemma assoc_get_Some_In k v l : assoc_get k l = Some v -> In (k, v) l.
Proof.
  induction l as [|[k' v'] r IH]; cbn [assoc_get]; [discriminate|].
  destruct (String.eqb_spec k' k) as [E|N]; intro H.
  - inversion H; subst. left. reflexivity.
  - right. apply IH. exact H.
Qed.

Lemma assoc_get_In_key k l : In k (map fst l) -> exists v, assoc_get k l = Some v.
Proof.
  intro H. destruct (assoc_get k l) as [v|] eqn:E; [exists v; reflexivity|].
  apply assoc_get_None in E. contradiction.
Qed.

Lemma assoc_get_NoDup k v l : NoDup (map fst l) -> In (k, v) l -> assoc_get k l = Some v.
Proof.
  induction l as [|[k' v'] r IH]; intros ND Hin; [destruct Hin|].
  cbn [map fst] in ND. inversion ND as [|k0 r0 Hnot ND']; subst.
  cbn [assoc_get]. destruct Hin as [E|Hin].
  - inversion E; subst. rewrite String.eqb_refl. reflexivity.
  - destruct (String.eqb_spec k' k) as [E|N]; [|apply IH; assumption].
    subst k'. exfalso. apply Hnot. change k with (fst (k, v)). apply in_map. exact Hin.
Qed.

Lemma keys_assoc_set k v l :
  map fst (assoc_set k v l) = if mem_str k (map fst l) then map fst l else (map fst l ++ [k])%list.
Proof.
  unfold mem_str. induction l as [|[k' v'] r IH]; cbn [assoc_set map fst existsb app]; [reflexivity|].
  rewrite (String.eqb_sym k k').
  destruct (String.eqb_spec k' k) as [E|N]; cbn [map fst orb]; [reflexivity|].
  rewrite IH. destruct (existsb (String.eqb k) (map fst r)); reflexivity.
Qed.

Lemma assoc_set_Forall' (P : string * A -> Prop) k v l :
  Forall P l -> (forall k', P (k', v)) -> Forall P (assoc_set k v l).
Proof.
  intros HF Hv. induction HF as [|[k' v'] r Hy Hr IH]; cbn [assoc_set].
  - constructor; [apply Hv|constructor].
  - destruct (String.eqb k' k); constructor; auto.
Qed.
End Assoc.

Lemma mem_str_true k l : mem_str k l = true <-> In k l.
Proof.
  unfold mem_str. rewrite existsb_exists. split.
  - intros [x [Hin E]]. apply String.eqb_eq in E. subst x. exact Hin.
  - intro H. exists k. split; [exact H|apply String.eqb_refl].
Qed.

Lemma mem_str_false k l : mem_str k l = false <-> ~ In k l.
Proof.
  rewrite <- mem_str_true. destruct (mem_str k l); split; intro H; congruence.
Qed.

Lemma fresh_keys_In seen ks k : In k (fresh_keys seen ks) <-> In k ks /\ ~ In k seen.
Proof.
  unfold fresh_keys. rewrite filter_In. rewrite negb_true_iff, mem_str_false. reflexivity.
Qed.

Lemma NoDup_filter {A} (p : A -> bool) (l : list A) : NoDup l -> NoDup (filter p l).
Proof.
  induction 1 as [|x r Hnot ND IH]; cbn [filter]; [constructor|].
  destruct (p x); [|exact IH]. constructor; [|exact IH].
  intro Hin. apply filter_In in Hin. tauto.
Qed.

Lemma NoDup_app_fresh seen ks : NoDup seen -> NoDup ks -> NoDup (seen ++ fresh_keys seen ks).
Proof.
  intros N1 N2. induction N1 as [|x r Hnot ND IH].
  - cbn [app]. apply NoDup_filter. exact N2.
  - cbn [app]. constructor.
    + intro Hin. apply in_app_or in Hin. destruct Hin as [Hin|Hin]; [contradiction|].
      apply fresh_keys_In in Hin. apply (proj2 Hin). left. reflexivity.
    + (* the fresh keys w.r.t. x :: r are among those w.r.t. r *)
      clear IH. induction r as [|y r' IHr].
      * cbn [app]. apply NoDup_filter. exact N2.
      * assert (Hgen : forall s1, NoDup s1 -> (forall z, In z s1 -> In z (x :: y :: r')) ->
                  NoDup (s1 ++ fresh_keys (x :: y :: r') ks)).
        { intros s1 Hs1 Hsub. induction Hs1 as [|z s1' Hz Hs1' IH1]; cbn [app].
          - apply NoDup_filter. exact N2.
          - constructor.
            + intro Hin. apply in_app_or in Hin. destruct Hin as [Hin|Hin]; [contradiction|].
              apply fresh_keys_In in Hin. apply (proj2 Hin). apply Hsub. left. reflexivity.
            + apply IH1. intros z' Hz'. apply Hsub. right. exact Hz'. }
        apply Hgen; [exact ND|]. intros z Hz. right. exact Hz.
Qed.

(* ------------------------------------------------------------------ cget *)

Lemma cget_cons k k0 x c : cget k ((k0, x) :: c) = if String.eqb k0 k then x else cget k c.
Proof. unfold cget. cbn [assoc_get]. destruct (String.eqb k0 k); reflexivity. Qed.

Lemma cget_notin k c : ~ In k (map fst c) -> cget k c = 0.
Proof. intro H. unfold cget. apply assoc_get_None in H. rewrite H. reflexivity. Qed.

Lemma cget_set_same k v c : cget k (assoc_set k v c) = v.
Proof. unfold cget. rewrite assoc_get_set_same. reflexivity. Qed.

Lemma cget_set_other k k0 v c : k0 <> k -> cget k (assoc_set k0 v c) = cget k c.
Proof. intro H. unfold cget. rewrite assoc_get_set_other by exact H. reflexivity. Qed.

Lemma cget_In k x c : NoDup (map fst c) -> In (k, x) c -> cget k c = x.
Proof. intros ND Hin. unfold cget. rewrite (assoc_get_NoDup k x c ND Hin). reflexivity. Qed.

(** a bound that holds for all entries and for 0 holds for every looked-up value *)
Lemma cget_Forall (P : Q -> Prop) k c : Forall (fun kf => P (snd kf)) c -> P 0 -> P (cget k c).
Proof.
  intros HF H0. unfold cget. destruct (assoc_get k c) as [x|] eqn:E; [|exact H0].
  apply assoc_get_Some_In in E. rewrite Forall_forall in HF. apply (HF (k, x) E).
Qed.

(** the sum of the values is the sum of the lookups over the (pairwise distinct) keys *)
Lemma Qsum_cget_keys c : NoDup (map fst c) ->
  Qsum (map (fun k => cget k c) (map fst c)) == Qsum (map snd c).
Proof.
  induction c as [|[k0 x0] r IH]; intro ND; [reflexivity|].
  cbn [map fst snd] in *. inversion ND as [|k' r' Hnot ND']; subst.
  rewrite !Qsum_cons. rewrite cget_cons, String.eqb_refl.
  rewrite <- (IH ND'). apply Qplus_comp; [reflexivity|].
  apply Qsum_map_ext. intros k Hk. rewrite cget_cons.
  destruct (String.eqb_spec k0 k) as [E|N]; [subst; contradiction|reflexivity].
Qed.

(** summing a function that is changed at one key *)
Lemma Qsum_map_point (g : string -> Q) k0 x0 (K : list string) : NoDup K -> In k0 K ->
  Qsum (map (fun k => if String.eqb k0 k then x0 else g k) K) == Qsum (map g K) + x0 - g k0.
Proof.
  induction K as [|k r IH]; intros ND Hin; [destruct Hin|].
  inversion ND as [|k' r' Hnot ND']; subst. cbn [map]. rewrite !Qsum_cons.
  destruct (String.eqb_spec k0 k) as [E|N].
  - subst k. rewrite (Qsum_map_ext (fun k => if String.eqb k0 k then x0 else g k) g r); [ring|].
    intros a Ha. destruct (String.eqb_spec k0 a) as [E|_]; [subst; contradiction|reflexivity].
  - destruct Hin as [E|Hin]; [congruence|]. rewrite (IH ND' Hin). ring.
Qed.

(** ... so the lookups over any duplicate-free superset of the keys sum to the same value *)
Lemma Qsum_cget_superset c : NoDup (map fst c) -> forall K, NoDup K ->
  (forall k, In k (map fst c) -> In k K) ->
  Qsum (map (fun k => cget k c) K) == Qsum (map snd c).
Proof.
  induction c as [|[k0 x0] r IH]; intros ND K NK Hsub.
  - apply Qsum_map_zero. intros a _. reflexivity.
  - cbn [map fst snd] in *. inversion ND as [|k' r' Hnot ND']; subst.
    rewrite Qsum_cons.
    rewrite (Qsum_map_ext (fun k => cget k ((k0, x0) :: r))
                          (fun k => if String.eqb k0 k then x0 else cget k r) K)
      by (intros a _; rewrite cget_cons; reflexivity).
    rewrite Qsum_map_point by (try exact NK; apply Hsub; left; reflexivity).
    rewrite (cget_notin k0 r Hnot).
    rewrite (IH ND' K NK) by (intros k Hk; apply Hsub; right; exact Hk). ring.
Qed.

(* ------------------------------------------------------------------ combine_composition *)

Definition mix_step (vB : Q) (acc : composition) (kf : string * Q) : composition :=
  assoc_set (fst kf) (Qred (cget (fst kf) acc + snd kf * vB)) acc.
Definition mixfold (vB : Q) (cB acc : composition) : composition := fold_left (mix_step vB) cB acc.
Definition scale_comp (vA : Q) (cA : composition) : composition :=
  map (fun kf => (fst kf, snd kf * vA)) cA.
Definition div_comp (s : Q) (vf : composition) : composition :=
  map (fun kv => (fst kv, Qred (snd kv / s))) vf.

Lemma combine_unfold vA cA vB cB :
  combine_composition vA cA vB cB =
  if Qeq_bool (vA + vB) 0 then cA else div_comp (vA + vB) (mixfold vB cB (scale_comp vA cA)).
Proof. reflexivity. Qed.

Lemma mixfold_cons vB kf cB acc : mixfold vB (kf :: cB) acc = mixfold vB cB (mix_step vB acc kf).
Proof. reflexivity. Qed.

Lemma mixfold_get vB cB : NoDup (map fst cB) -> forall acc k,
  cget k (mixfold vB cB acc) == cget k acc + vB * cget k cB.
Proof.
  induction cB as [|[k0 x0] r IH]; intros ND acc k.
  - unfold mixfold, cget at 3. cbn [fold_left assoc_get]. ring.
  - cbn [map fst] in ND. inversion ND as [|k' r' Hnot ND']; subst.
    rewrite mixfold_cons, (IH ND'). unfold mix_step. cbn [fst snd]. rewrite cget_cons.
    destruct (String.eqb_spec k0 k) as [E|N].
    + subst k0. rewrite cget_set_same, Qred_correct, (cget_notin k r Hnot). ring.
    + rewrite cget_set_other by exact N. reflexivity.
Qed.

Lemma fresh_keys_snoc seen k0 ks : ~ In k0 ks -> fresh_keys (seen ++ [k0]) ks = fresh_keys seen ks.
Proof.
  intro Hnot. unfold fresh_keys. apply filter_ext_in. intros a Ha. f_equal.
  unfold mem_str. rewrite existsb_app. cbn [existsb]. rewrite orb_false_r.
  destruct (String.eqb_spec a k0) as [E|N]; [subst; contradiction|apply orb_false_r].
Qed.

Lemma mixfold_keys vB cB : NoDup (map fst cB) -> forall acc,
  map fst (mixfold vB cB acc) = (map fst acc ++ fresh_keys (map fst acc) (map fst cB))%list.
Proof.
  induction cB as [|[k0 x0] r IH]; intros ND acc.
  - unfold mixfold, fresh_keys. cbn [fold_left map filter]. rewrite app_nil_r. reflexivity.
  - cbn [map fst] in ND. inversion ND as [|k' r' Hnot ND']; subst.
    rewrite mixfold_cons, (IH ND'). unfold mix_step. cbn [fst snd map].
    rewrite keys_assoc_set. unfold fresh_keys at 2. cbn [filter].
    destruct (mem_str k0 (map fst acc)) eqn:E; cbn [negb].
    + reflexivity.
    + rewrite fresh_keys_snoc by exact Hnot. rewrite <- app_assoc. reflexivity.
Qed.

Lemma mixfold_sum vB cB : forall acc,
  Qsum (map snd (mixfold vB cB acc)) == Qsum (map snd acc) + vB * Qsum (map snd cB).
Proof.
  assert (Hset : forall k v (l : composition),
             Qsum (map snd (assoc_set k v l)) == Qsum (map snd l) - cget k l + v).
  { intros k v l. induction l as [|[k' v'] r IHl]; cbn [assoc_set map snd].
    - unfold cget. cbn [assoc_get]. rewrite Qsum_cons. ring.
    - rewrite cget_cons. destruct (String.eqb k' k); cbn [map snd]; rewrite !Qsum_cons.
      + ring.
      + rewrite IHl. ring. }
  induction cB as [|[k0 x0] r IH]; intro acc.
  - unfold mixfold. cbn [fold_left map]. unfold Qsum at 3. cbn [fold_right]. ring.
  - rewrite mixfold_cons, IH. unfold mix_step. cbn [fst snd map]. rewrite Hset, Qred_correct, Qsum_cons. ring.
Qed.

Lemma scale_comp_keys vA cA : map fst (scale_comp vA cA) = map fst cA.
Proof. unfold scale_comp. rewrite map_map. reflexivity. Qed.
Lemma div_comp_keys s vf : map fst (div_comp s vf) = map fst vf.
Proof. unfold div_comp. rewrite map_map. reflexivity. Qed.

Lemma scale_comp_get vA cA k : cget k (scale_comp vA cA) == cget k cA * vA.
Proof.
  induction cA as [|[k0 x0] r IH]; [unfold cget; cbn [scale_comp map assoc_get]; ring|].
  unfold scale_comp. cbn [map fst snd]. fold (scale_comp vA r). rewrite !cget_cons.
  destruct (String.eqb k0 k); [reflexivity|exact IH].
Qed.
Lemma div_comp_get s vf k : cget k (div_comp s vf) == cget k vf / s.
Proof.
  induction vf as [|[k0 x0] r IH]; [unfold cget, Qdiv; cbn [div_comp map assoc_get]; ring|].
  unfold div_comp. cbn [map fst snd]. fold (div_comp s r). rewrite !cget_cons.
  destruct (String.eqb k0 k); [apply Qred_correct|exact IH].
Qed.
Lemma scale_comp_sum vA cA : Qsum (map snd (scale_comp vA cA)) == Qsum (map snd cA) * vA.
Proof.
  induction cA as [|[k0 x0] r IH]; [unfold Qsum; cbn [scale_comp map fold_right]; ring|].
  unfold scale_comp. cbn [map fst snd]. fold (scale_comp vA r). rewrite !Qsum_cons, IH. ring.
Qed.
Lemma div_comp_sum s vf : Qsum (map snd (div_comp s vf)) == Qsum (map snd vf) / s.
Proof.
  induction vf as [|[k0 x0] r IH]; [unfold Qsum, Qdiv; cbn [div_comp map fold_right]; ring|].
  unfold div_comp. cbn [map fst snd]. fold (div_comp s r). rewrite !Qsum_cons, IH, Qred_correct.
  unfold Qdiv. ring.
Qed.

(** C05_combine *)
Lemma combine_get vA cA vB cB k : ~ vA + vB == 0 -> NoDup (map fst cB) ->
  cget k (combine_composition vA cA vB cB) == (vA * cget k cA + vB * cget k cB) / (vA + vB).
Proof.
  intros Hs ND. rewrite combine_unfold, (Qeq_bool_false_intro _ _ Hs).
  rewrite div_comp_get, (mixfold_get vB cB ND), scale_comp_get. unfold Qdiv. ring.
Qed.

Lemma combine_keys vA cA vB cB : ~ vA + vB == 0 -> NoDup (map fst cB) ->
  map fst (combine_composition vA cA vB cB) = (map fst cA ++ fresh_keys (map fst cA) (map fst cB))%list.
Proof.
  intros Hs ND. rewrite combine_unfold, (Qeq_bool_false_intro _ _ Hs).
  rewrite div_comp_keys, (mixfold_keys vB cB ND), scale_comp_keys. reflexivity.
Qed.

Lemma combine_NoDup vA cA vB cB : NoDup (map fst cA) -> NoDup (map fst cB) ->
  NoDup (map fst (combine_composition vA cA vB cB)).
Proof.
  intros NA NB. rewrite combine_unfold. destruct (Qeq_bool (vA + vB) 0) eqn:E; [exact NA|].
  apply Qeq_bool_neq in E.
  rewrite div_comp_keys, (mixfold_keys vB cB NB), scale_comp_keys.
  apply NoDup_app_fresh; assumption.
Qed.

Lemma combine_zero vA cA vB cB : vA + vB == 0 -> combine_composition vA cA vB cB = cA.
Proof.
  intro H. rewrite combine_unfold. apply Qeq_bool_iff in H. rewrite H. reflexivity.
Qed.

(** C05_bounds *)
Lemma combine_sum vA cA vB cB : ~ vA + vB == 0 ->
  Qsum (map snd (combine_composition vA cA vB cB))
  == (vA * Qsum (map snd cA) + vB * Qsum (map snd cB)) / (vA + vB).
Proof.
  intro Hs. rewrite combine_unfold, (Qeq_bool_false_intro _ _ Hs).
  rewrite div_comp_sum, mixfold_sum, scale_comp_sum. unfold Qdiv. ring.
Qed.

Lemma mix_formula_bounds vA vB a b : 0 <= vA -> 0 <= vB -> 0 < vA + vB ->
  0 <= a /\ a <= 1 -> 0 <= b /\ b <= 1 ->
  0 <= (vA * a + vB * b) / (vA + vB) /\ (vA * a + vB * b) / (vA + vB) <= 1.
Proof.
  intros HA HB Hpos [Ha0 Ha1] [Hb0 Hb1]. split.
  - apply Qle_shift_div_l; [exact Hpos|]. nra.
  - apply Qle_shift_div_r; [exact Hpos|]. nra.
Qed.

Lemma mix_formula_le vA vB a b : 0 <= vA -> 0 <= vB -> 0 < vA + vB ->
  a <= 1 -> b <= 1 -> (vA * a + vB * b) / (vA + vB) <= 1.
Proof.
  intros HA HB Hpos Ha Hb. apply Qle_shift_div_r; [exact Hpos|]. nra.
Qed.

Lemma combine_get_bounds vA cA vB cB k : 0 <= vA -> 0 <= vB -> 0 < vA + vB -> NoDup (map fst cB) ->
  0 <= cget k cA /\ cget k cA <= 1 -> 0 <= cget k cB /\ cget k cB <= 1 ->
  0 <= cget k (combine_composition vA cA vB cB) /\ cget k (combine_composition vA cA vB cB) <= 1.
Proof.
  intros HA HB Hpos ND Ha Hb.
  assert (Hs : ~ vA + vB == 0) by lra.
  rewrite (combine_get vA cA vB cB k Hs ND). apply mix_formula_bounds; assumption.
Qed.

Lemma combine_Forall_bounds vA cA vB cB : 0 <= vA -> 0 <= vB -> 0 < vA + vB ->
  NoDup (map fst cA) -> NoDup (map fst cB) ->
  Forall (fun kf => 0 <= snd kf /\ snd kf <= 1) cA ->
  Forall (fun kf => 0 <= snd kf /\ snd kf <= 1) cB ->
  Forall (fun kf => 0 <= snd kf /\ snd kf <= 1) (combine_composition vA cA vB cB).
Proof.
  intros HA HB Hpos NA NB FA FB. apply Forall_forall. intros [k x] Hin. cbn [snd].
  pose proof (combine_NoDup vA cA vB cB NA NB) as ND.
  rewrite <- (cget_In k x _ ND Hin).
  apply combine_get_bounds; try assumption.
  - apply (cget_Forall (fun q => 0 <= q /\ q <= 1)); [exact FA|lra].
  - apply (cget_Forall (fun q => 0 <= q /\ q <= 1)); [exact FB|lra].
Qed.

Lemma combine_sum_one vA cA vB cB : ~ vA + vB == 0 ->
  Qsum (map snd cA) == 1 -> Qsum (map snd cB) == 1 ->
  Qsum (map snd (combine_composition vA cA vB cB)) == 1.
Proof.
  intros Hs HA HB. rewrite (combine_sum vA cA vB cB Hs), HA, HB. field. exact Hs.
Qed.

(** C05_self_neutral *)
Lemma combine_self vA cA vB cB k : ~ vA + vB == 0 -> NoDup (map fst cB) ->
  cget k cB == cget k cA -> cget k (combine_composition vA cA vB cB) == cget k cA.
Proof.
  intros Hs ND E. rewrite (combine_get vA cA vB cB k Hs ND), E. field. exact Hs.
Qed.
