(** Lemmas about composition tracking (C05): the algebra of [combine_composition], locality of
    [write_composition], the composition invariant, refinement of the ideal-mixing specification
    (Spec/Mixing.v) and conservation of component amounts. *)
From Robo Require Import Prelude Str Wells Utils Labware Tips Records Partition Params Worklist
  Invariants Mixing WellsProofs.
From Coq Require Import Lqa.
#[local] Open Scope Q_scope.

(* ------------------------------------------------------------------ lists, upd *)

Lemma upd_len {A} (l : list A) : forall i x, length (upd l i x) = length l.
Proof.
  induction l as [|y r IH]; intros i x; [destruct i; reflexivity|].
  destruct i as [|j]; cbn [upd length]; [reflexivity|]. rewrite IH. reflexivity.
Qed.

Lemma nth_upd_eq {A} (l : list A) d : forall i x, (i < length l)%nat -> nth i (upd l i x) d = x.
Proof.
  induction l as [|y r IH]; intros i x Hi; cbn [length] in Hi; [lia|].
  destruct i as [|j]; cbn [upd nth]; [reflexivity|]. apply IH. lia.
Qed.

Lemma nth_upd_neq {A} (l : list A) d : forall i j x, i <> j -> nth j (upd l i x) d = nth j l d.
Proof.
  induction l as [|y r IH]; intros i j x Hne; [destruct i; reflexivity|].
  destruct i as [|i]; destruct j as [|j]; cbn [upd nth]; try reflexivity; [congruence|].
  apply IH. congruence.
Qed.

Lemma Forall_upd' {A} (P : A -> Prop) (l : list A) : forall i x, Forall P l -> P x -> Forall P (upd l i x).
Proof.
  induction l as [|y r IH]; intros i x HF Hx; [destruct i; constructor|].
  inversion HF as [|y' r' Hy Hr]; subst.
  destruct i as [|j]; cbn [upd]; constructor; auto.
Qed.

Lemma Forall_nth' {A} (P : A -> Prop) (l : list A) d i : Forall P l -> P d -> P (nth i l d).
Proof.
  intros HF Hd. revert i. induction HF as [|y r Hy Hr IH]; intro i; destruct i; cbn [nth]; auto.
Qed.

Lemma nth_repeat0 n j : nth j (repeat 0 n) 0 = 0.
Proof. revert j. induction n as [|n IH]; intro j; destruct j; cbn [repeat nth]; auto. Qed.

(* ------------------------------------------------------------------ Q helpers *)

Lemma Qltb_true' a b : Qltb a b = true -> a < b.
Proof.
  unfold Qltb. intro H. apply negb_true_iff in H. apply Qnot_le_lt. intro C.
  apply Qle_bool_iff in C. congruence.
Qed.
Lemma Qltb_false' a b : Qltb a b = false -> b <= a.
Proof. unfold Qltb. intro H. apply negb_false_iff in H. apply Qle_bool_iff. exact H. Qed.
Lemma Qgtb_false' a b : Qgtb a b = false -> a <= b.
Proof. unfold Qgtb. intro H. apply negb_false_iff in H. apply Qle_bool_iff. exact H. Qed.

Lemma Qeq_bool_false_intro a b : ~ a == b -> Qeq_bool a b = false.
Proof.
  intro H. destruct (Qeq_bool a b) eqn:E; [|reflexivity]. apply Qeq_bool_iff in E. contradiction.
Qed.

Lemma Qsum_cons x l : Qsum (x :: l) = x + Qsum l.
Proof. reflexivity. Qed.

Lemma Qsum_app' l1 l2 : Qsum (l1 ++ l2) == Qsum l1 + Qsum l2.
Proof.
  induction l1 as [|x r IH]; [cbn [app]; unfold Qsum at 2; cbn [fold_right]; ring|].
  cbn [app]. rewrite !Qsum_cons, IH. ring.
Qed.

Lemma Qsum_map_ext {A} (f g : A -> Q) (l : list A) :
  (forall a, In a l -> f a == g a) -> Qsum (map f l) == Qsum (map g l).
Proof.
  induction l as [|a r IH]; intro H; [reflexivity|].
  cbn [map]. rewrite !Qsum_cons. rewrite (H a) by (left; reflexivity).
  rewrite IH; [reflexivity|]. intros b Hb. apply H. right. exact Hb.
Qed.

Lemma Qsum_map_lin {A} (a b : Q) (p q : A -> Q) (l : list A) :
  Qsum (map (fun k => a * p k + b * q k) l) == a * Qsum (map p l) + b * Qsum (map q l).
Proof.
  induction l as [|k r IH]; [unfold Qsum; cbn [map fold_right]; ring|].
  cbn [map]. rewrite !Qsum_cons, IH. ring.
Qed.

Lemma Qsum_map_zero {A} (f : A -> Q) (l : list A) : (forall a, In a l -> f a == 0) -> Qsum (map f l) == 0.
Proof.
  induction l as [|a r IH]; intro H; [reflexivity|].
  cbn [map]. rewrite Qsum_cons, (H a) by (left; reflexivity).
  rewrite IH; [ring|]. intros b Hb. apply H. right. exact Hb.
Qed.

Lemma Qsum_map_nonneg {A} (f : A -> Q) (l : list A) : (forall a, In a l -> 0 <= f a) -> 0 <= Qsum (map f l).
Proof.
  induction l as [|a r IH]; intro H; [unfold Qsum; cbn [map fold_right]; lra|].
  cbn [map]. rewrite Qsum_cons.
  assert (Ha : 0 <= f a) by (apply H; left; reflexivity).
  assert (Hr : 0 <= Qsum (map f r)) by (apply IH; intros b Hb; apply H; right; exact Hb). lra.
Qed.

(* ------------------------------------------------------------------ association lists *)

Section Assoc.
Context {A : Type}.
Implicit Types (l : list (string * A)) (k : string) (v : A).

Lemma assoc_get_set_same k v l : assoc_get k (assoc_set k v l) = Some v.
Proof.
  induction l as [|[k' v'] r IH]; cbn [assoc_set assoc_get].
  - rewrite String.eqb_refl. reflexivity.
  - destruct (String.eqb k' k) eqn:E; cbn [assoc_get]; rewrite E; [reflexivity|exact IH].
Qed.

Lemma assoc_get_set_other k k0 v l : k0 <> k -> assoc_get k (assoc_set k0 v l) = assoc_get k l.
Proof.
  intro Hne. induction l as [|[k' v'] r IH]; cbn [assoc_set assoc_get].
  - destruct (String.eqb_spec k0 k) as [E|_]; [contradiction|reflexivity].
  - destruct (String.eqb_spec k' k0) as [E0|N0]; cbn [assoc_get].
    + subst k'. destruct (String.eqb_spec k0 k) as [E|_]; [contradiction|reflexivity].
    + destruct (String.eqb k' k); [reflexivity|exact IH].
Qed.

Lemma assoc_get_None k l : assoc_get k l = None <-> ~ In k (map fst l).
Proof.
  induction l as [|[k' v'] r IH]; cbn [assoc_get map fst In]; [tauto|].
  destruct (String.eqb_spec k' k) as [E|N].
  - split; [discriminate|]. intro H. exfalso. apply H. left. exact E.
  - rewrite IH. tauto.
Qed.

Lemma assoc_get_Some_In k v l : assoc_get k l = Some v -> In (k, v) l.
Proof.
  induction l as [|[k' v'] r IH]; cbn [assoc_get]; [discriminate|].
  destruct (String.eqb_spec k' k) as [E|N]; intro H.
  - inversion H; subst. left. reflexivity.
  - right. apply IH. exact H.
Qed.

Lemma assoc_get_In_key k l : In k (map fst l) -> exists v, assoc_get k l = Some v.
Proof.
  intro H. destruct (assoc_get k l) as [v|] eqn:E; [exists v; reflexivity|].
  apply assoc_get_None in E. contradiction.
Qed.

Lemma assoc_get_NoDup k v l : NoDup (map fst l) -> In (k, v) l -> assoc_get k l = Some v.
Proof.
  induction l as [|[k' v'] r IH]; intros ND Hin; [destruct Hin|].
  cbn [map fst] in ND. inversion ND as [|k0 r0 Hnot ND']; subst.
  cbn [assoc_get]. destruct Hin as [E|Hin].
  - inversion E; subst. rewrite String.eqb_refl. reflexivity.
  - destruct (String.eqb_spec k' k) as [E|N]; [|apply IH; assumption].
    subst k'. exfalso. apply Hnot. change k with (fst (k, v)). apply in_map. exact Hin.
Qed.

Lemma keys_assoc_set k v l :
  map fst (assoc_set k v l) = if mem_str k (map fst l) then map fst l else (map fst l ++ [k])%list.
Proof.
  unfold mem_str. induction l as [|[k' v'] r IH]; cbn [assoc_set map fst existsb app]; [reflexivity|].
  rewrite (String.eqb_sym k k').
  destruct (String.eqb_spec k' k) as [E|N]; cbn [map fst orb]; [reflexivity|].
  rewrite IH. destruct (existsb (String.eqb k) (map fst r)); reflexivity.
Qed.

Lemma assoc_set_Forall' (P : string * A -> Prop) k v l :
  Forall P l -> (forall k', P (k', v)) -> Forall P (assoc_set k v l).
Proof.
  intros HF Hv. induction HF as [|[k' v'] r Hy Hr IH]; cbn [assoc_set].
  - constructor; [apply Hv|constructor].
  - destruct (String.eqb k' k); constructor; auto.
Qed.
End Assoc.

Lemma mem_str_true k l : mem_str k l = true <-> In k l.
Proof.
  unfold mem_str. rewrite existsb_exists. split.
  - intros [x [Hin E]]. apply String.eqb_eq in E. subst x. exact Hin.
  - intro H. exists k. split; [exact H|apply String.eqb_refl].
Qed.

Lemma mem_str_false k l : mem_str k l = false <-> ~ In k l.
Proof.
  rewrite <- mem_str_true. destruct (mem_str k l); split; intro H; congruence.
Qed.

Lemma fresh_keys_In seen ks k : In k (fresh_keys seen ks) <-> In k ks /\ ~ In k seen.
Proof.
  unfold fresh_keys. rewrite filter_In. rewrite negb_true_iff, mem_str_false. reflexivity.
Qed.

Lemma NoDup_filter {A} (p : A -> bool) (l : list A) : NoDup l -> NoDup (filter p l).
Proof.
  induction 1 as [|x r Hnot ND IH]; cbn [filter]; [constructor|].
  destruct (p x); [|exact IH]. constructor; [|exact IH].
  intro Hin. apply filter_In in Hin. tauto.
Qed.

Lemma NoDup_app_fresh seen ks : NoDup seen -> NoDup ks -> NoDup (seen ++ fresh_keys seen ks).
Proof.
  intros N1 N2. induction N1 as [|x r Hnot ND IH].
  - cbn [app]. apply NoDup_filter. exact N2.
  - cbn [app]. constructor.
    + intro Hin. apply in_app_or in Hin. destruct Hin as [Hin|Hin]; [contradiction|].
      apply fresh_keys_In in Hin. apply (proj2 Hin). left. reflexivity.
    + (* the fresh keys w.r.t. x :: r are among those w.r.t. r *)
      clear IH. induction r as [|y r' IHr].
      * cbn [app]. apply NoDup_filter. exact N2.
      * assert (Hgen : forall s1, NoDup s1 -> (forall z, In z s1 -> In z (x :: y :: r')) ->
                  NoDup (s1 ++ fresh_keys (x :: y :: r') ks)).
        { intros s1 Hs1 Hsub. induction Hs1 as [|z s1' Hz Hs1' IH1]; cbn [app].
          - apply NoDup_filter. exact N2.
          - constructor.
            + intro Hin. apply in_app_or in Hin. destruct Hin as [Hin|Hin]; [contradiction|].
              apply fresh_keys_In in Hin. apply (proj2 Hin). apply Hsub. left. reflexivity.
            + apply IH1. intros z' Hz'. apply Hsub. right. exact Hz'. }
        apply Hgen; [exact ND|]. intros z Hz. right. exact Hz.
Qed.

(* ------------------------------------------------------------------ cget *)

Lemma cget_cons k k0 x c : cget k ((k0, x) :: c) = if String.eqb k0 k then x else cget k c.
Proof. unfold cget. cbn [assoc_get]. destruct (String.eqb k0 k); reflexivity. Qed.

Lemma cget_notin k c : ~ In k (map fst c) -> cget k c = 0.
Proof. intro H. unfold cget. apply assoc_get_None in H. rewrite H. reflexivity. Qed.

Lemma cget_set_same k v c : cget k (assoc_set k v c) = v.
Proof. unfold cget. rewrite assoc_get_set_same. reflexivity. Qed.

Lemma cget_set_other k k0 v c : k0 <> k -> cget k (assoc_set k0 v c) = cget k c.
Proof. intro H. unfold cget. rewrite assoc_get_set_other by exact H. reflexivity. Qed.

Lemma cget_In k x c : NoDup (map fst c) -> In (k, x) c -> cget k c = x.
Proof. intros ND Hin. unfold cget. rewrite (assoc_get_NoDup k x c ND Hin). reflexivity. Qed.

(** a bound that holds for all entries and for 0 holds for every looked-up value *)
Lemma cget_Forall (P : Q -> Prop) k c : Forall (fun kf => P (snd kf)) c -> P 0 -> P (cget k c).
Proof.
  intros HF H0. unfold cget. destruct (assoc_get k c) as [x|] eqn:E; [|exact H0].
  apply assoc_get_Some_In in E. rewrite Forall_forall in HF. apply (HF (k, x) E).
Qed.

(** the sum of the values is the sum of the lookups over the (pairwise distinct) keys *)
Lemma Qsum_cget_keys c : NoDup (map fst c) ->
  Qsum (map (fun k => cget k c) (map fst c)) == Qsum (map snd c).
Proof.
  induction c as [|[k0 x0] r IH]; intro ND; [reflexivity|].
  cbn [map fst snd] in *. inversion ND as [|k' r' Hnot ND']; subst.
  rewrite !Qsum_cons. rewrite cget_cons, String.eqb_refl.
  rewrite <- (IH ND'). apply Qplus_comp; [reflexivity|].
  apply Qsum_map_ext. intros k Hk. rewrite cget_cons.
  destruct (String.eqb_spec k0 k) as [E|N]; [subst; contradiction|reflexivity].
Qed.

(** summing a function that is changed at one key *)
Lemma Qsum_map_point (g : string -> Q) k0 x0 (K : list string) : NoDup K -> In k0 K ->
  Qsum (map (fun k => if String.eqb k0 k then x0 else g k) K) == Qsum (map g K) + x0 - g k0.
Proof.
  induction K as [|k r IH]; intros ND Hin; [destruct Hin|].
  inversion ND as [|k' r' Hnot ND']; subst. cbn [map]. rewrite !Qsum_cons.
  destruct (String.eqb_spec k0 k) as [E|N].
  - subst k. rewrite (Qsum_map_ext (fun k => if String.eqb k0 k then x0 else g k) g r); [ring|].
    intros a Ha. destruct (String.eqb_spec k0 a) as [E|_]; [subst; contradiction|reflexivity].
  - destruct Hin as [E|Hin]; [congruence|]. rewrite (IH ND' Hin). ring.
Qed.

(** ... so the lookups over any duplicate-free superset of the keys sum to the same value *)
Lemma Qsum_cget_superset c : NoDup (map fst c) -> forall K, NoDup K ->
  (forall k, In k (map fst c) -> In k K) ->
  Qsum (map (fun k => cget k c) K) == Qsum (map snd c).
Proof.
  induction c as [|[k0 x0] r IH]; intros ND K NK Hsub.
  - apply Qsum_map_zero. intros a _. reflexivity.
  - cbn [map fst snd] in *. inversion ND as [|k' r' Hnot ND']; subst.
    rewrite Qsum_cons.
    rewrite (Qsum_map_ext (fun k => cget k ((k0, x0) :: r))
                          (fun k => if String.eqb k0 k then x0 else cget k r) K)
      by (intros a _; rewrite cget_cons; reflexivity).
    rewrite Qsum_map_point by (try exact NK; apply Hsub; left; reflexivity).
    rewrite (cget_notin k0 r Hnot).
    rewrite (IH ND' K NK) by (intros k Hk; apply Hsub; right; exact Hk). ring.
Qed.

(* ------------------------------------------------------------------ combine_composition *)

Definition mix_step (vB : Q) (acc : composition) (kf : string * Q) : composition :=
  assoc_set (fst kf) (Qred (cget (fst kf) acc + snd kf * vB)) acc.
Definition mixfold (vB : Q) (cB acc : composition) : composition := fold_left (mix_step vB) cB acc.
Definition scale_comp (vA : Q) (cA : composition) : composition :=
  map (fun kf => (fst kf, snd kf * vA)) cA.
Definition div_comp (s : Q) (vf : composition) : composition :=
  map (fun kv => (fst kv, Qred (snd kv / s))) vf.

Lemma combine_unfold vA cA vB cB :
  combine_composition vA cA vB cB =
  if Qeq_bool (vA + vB) 0 then cA else div_comp (vA + vB) (mixfold vB cB (scale_comp vA cA)).
Proof. reflexivity. Qed.

Lemma mixfold_cons vB kf cB acc : mixfold vB (kf :: cB) acc = mixfold vB cB (mix_step vB acc kf).
Proof. reflexivity. Qed.

Lemma mixfold_get vB cB : NoDup (map fst cB) -> forall acc k,
  cget k (mixfold vB cB acc) == cget k acc + vB * cget k cB.
Proof.
  induction cB as [|[k0 x0] r IH]; intros ND acc k.
  - unfold mixfold, cget at 3. cbn [fold_left assoc_get]. ring.
  - cbn [map fst] in ND. inversion ND as [|k' r' Hnot ND']; subst.
    rewrite mixfold_cons, (IH ND'). unfold mix_step. cbn [fst snd]. rewrite cget_cons.
    destruct (String.eqb_spec k0 k) as [E|N].
    + subst k0. rewrite cget_set_same, Qred_correct, (cget_notin k r Hnot). ring.
    + rewrite cget_set_other by exact N. reflexivity.
Qed.

Lemma fresh_keys_snoc seen k0 ks : ~ In k0 ks -> fresh_keys (seen ++ [k0]) ks = fresh_keys seen ks.
Proof.
  intro Hnot. unfold fresh_keys. apply filter_ext_in. intros a Ha. f_equal.
  unfold mem_str. rewrite existsb_app. cbn [existsb]. rewrite orb_false_r.
  destruct (String.eqb_spec a k0) as [E|N]; [subst; contradiction|apply orb_false_r].
Qed.

Lemma fold_set_keys {A B} (F : list (string * A) -> string * B -> A) (c : list (string * B)) :
  NoDup (map fst c) -> forall acc,
  map fst (fold_left (fun acc kf => assoc_set (fst kf) (F acc kf) acc) c acc)
  = (map fst acc ++ fresh_keys (map fst acc) (map fst c))%list.
Proof.
  induction c as [|[k0 x0] r IH]; intros ND acc.
  - unfold fresh_keys. cbn [fold_left map filter]. rewrite app_nil_r. reflexivity.
  - cbn [map fst] in ND. inversion ND as [|k' r' Hnot ND']; subst.
    cbn [fold_left]. rewrite (IH ND'). cbn [fst snd map].
    rewrite keys_assoc_set. unfold fresh_keys at 2. cbn [filter].
    destruct (mem_str k0 (map fst acc)) eqn:E; cbn [negb].
    + reflexivity.
    + rewrite fresh_keys_snoc by exact Hnot. rewrite <- app_assoc. reflexivity.
Qed.

Lemma mixfold_keys vB cB : NoDup (map fst cB) -> forall acc,
  map fst (mixfold vB cB acc) = (map fst acc ++ fresh_keys (map fst acc) (map fst cB))%list.
Proof.
  intros ND acc. unfold mixfold, mix_step.
  exact (fold_set_keys (fun acc kf => Qred (cget (fst kf) acc + snd kf * vB)) cB ND acc).
Qed.

Lemma mixfold_sum vB cB : forall acc,
  Qsum (map snd (mixfold vB cB acc)) == Qsum (map snd acc) + vB * Qsum (map snd cB).
Proof.
  assert (Hset : forall k v (l : composition),
             Qsum (map snd (assoc_set k v l)) == Qsum (map snd l) - cget k l + v).
  { intros k v l. induction l as [|[k' v'] r IHl]; cbn [assoc_set map snd].
    - unfold cget. cbn [assoc_get]. rewrite Qsum_cons. ring.
    - rewrite cget_cons. destruct (String.eqb k' k); cbn [map snd]; rewrite !Qsum_cons.
      + ring.
      + rewrite IHl. ring. }
  induction cB as [|[k0 x0] r IH]; intro acc.
  - unfold mixfold. cbn [fold_left map]. unfold Qsum at 3. cbn [fold_right]. ring.
  - rewrite mixfold_cons, IH. unfold mix_step. cbn [fst snd map]. rewrite Hset, Qred_correct, Qsum_cons. ring.
Qed.

Lemma scale_comp_keys vA cA : map fst (scale_comp vA cA) = map fst cA.
Proof. unfold scale_comp. rewrite map_map. reflexivity. Qed.
Lemma div_comp_keys s vf : map fst (div_comp s vf) = map fst vf.
Proof. unfold div_comp. rewrite map_map. reflexivity. Qed.

Lemma scale_comp_get vA cA k : cget k (scale_comp vA cA) == cget k cA * vA.
Proof.
  induction cA as [|[k0 x0] r IH]; [unfold cget; cbn [scale_comp map assoc_get]; ring|].
  unfold scale_comp. cbn [map fst snd]. fold (scale_comp vA r). rewrite !cget_cons.
  destruct (String.eqb k0 k); [reflexivity|exact IH].
Qed.
Lemma div_comp_get s vf k : cget k (div_comp s vf) == cget k vf / s.
Proof.
  induction vf as [|[k0 x0] r IH]; [unfold cget, Qdiv; cbn [div_comp map assoc_get]; ring|].
  unfold div_comp. cbn [map fst snd]. fold (div_comp s r). rewrite !cget_cons.
  destruct (String.eqb k0 k); [apply Qred_correct|exact IH].
Qed.
Lemma scale_comp_sum vA cA : Qsum (map snd (scale_comp vA cA)) == Qsum (map snd cA) * vA.
Proof.
  induction cA as [|[k0 x0] r IH]; [unfold Qsum; cbn [scale_comp map fold_right]; ring|].
  unfold scale_comp. cbn [map fst snd]. fold (scale_comp vA r). rewrite !Qsum_cons, IH. ring.
Qed.
Lemma div_comp_sum s vf : Qsum (map snd (div_comp s vf)) == Qsum (map snd vf) / s.
Proof.
  induction vf as [|[k0 x0] r IH]; [unfold Qsum, Qdiv; cbn [div_comp map fold_right]; ring|].
  unfold div_comp. cbn [map fst snd]. fold (div_comp s r). rewrite !Qsum_cons, IH, Qred_correct.
  unfold Qdiv. ring.
Qed.

(** C05_combine *)
Lemma combine_get vA cA vB cB k : ~ vA + vB == 0 -> NoDup (map fst cB) ->
  cget k (combine_composition vA cA vB cB) == (vA * cget k cA + vB * cget k cB) / (vA + vB).
Proof.
  intros Hs ND. rewrite combine_unfold, (Qeq_bool_false_intro _ _ Hs).
  rewrite div_comp_get, (mixfold_get vB cB ND), scale_comp_get. unfold Qdiv. ring.
Qed.

Lemma combine_keys vA cA vB cB : ~ vA + vB == 0 -> NoDup (map fst cB) ->
  map fst (combine_composition vA cA vB cB) = (map fst cA ++ fresh_keys (map fst cA) (map fst cB))%list.
Proof.
  intros Hs ND. rewrite combine_unfold, (Qeq_bool_false_intro _ _ Hs).
  rewrite div_comp_keys, (mixfold_keys vB cB ND), scale_comp_keys. reflexivity.
Qed.

Lemma combine_NoDup vA cA vB cB : NoDup (map fst cA) -> NoDup (map fst cB) ->
  NoDup (map fst (combine_composition vA cA vB cB)).
Proof.
  intros NA NB. rewrite combine_unfold. destruct (Qeq_bool (vA + vB) 0) eqn:E; [exact NA|].
  apply Qeq_bool_neq in E.
  rewrite div_comp_keys, (mixfold_keys vB cB NB), scale_comp_keys.
  apply NoDup_app_fresh; assumption.
Qed.

Lemma combine_zero vA cA vB cB : vA + vB == 0 -> combine_composition vA cA vB cB = cA.
Proof.
  intro H. rewrite combine_unfold. apply Qeq_bool_iff in H. rewrite H. reflexivity.
Qed.

(** C05_bounds *)
Lemma combine_sum vA cA vB cB : ~ vA + vB == 0 ->
  Qsum (map snd (combine_composition vA cA vB cB))
  == (vA * Qsum (map snd cA) + vB * Qsum (map snd cB)) / (vA + vB).
Proof.
  intro Hs. rewrite combine_unfold, (Qeq_bool_false_intro _ _ Hs).
  rewrite div_comp_sum, mixfold_sum, scale_comp_sum. unfold Qdiv. ring.
Qed.

Lemma mix_formula_bounds vA vB a b : 0 <= vA -> 0 <= vB -> 0 < vA + vB ->
  0 <= a /\ a <= 1 -> 0 <= b /\ b <= 1 ->
  0 <= (vA * a + vB * b) / (vA + vB) /\ (vA * a + vB * b) / (vA + vB) <= 1.
Proof.
  intros HA HB Hpos [Ha0 Ha1] [Hb0 Hb1]. split.
  - apply Qle_shift_div_l; [exact Hpos|]. nra.
  - apply Qle_shift_div_r; [exact Hpos|]. nra.
Qed.

Lemma mix_formula_le vA vB a b : 0 <= vA -> 0 <= vB -> 0 < vA + vB ->
  a <= 1 -> b <= 1 -> (vA * a + vB * b) / (vA + vB) <= 1.
Proof.
  intros HA HB Hpos Ha Hb. apply Qle_shift_div_r; [exact Hpos|]. nra.
Qed.

Lemma combine_get_bounds vA cA vB cB k : 0 <= vA -> 0 <= vB -> 0 < vA + vB -> NoDup (map fst cB) ->
  0 <= cget k cA /\ cget k cA <= 1 -> 0 <= cget k cB /\ cget k cB <= 1 ->
  0 <= cget k (combine_composition vA cA vB cB) /\ cget k (combine_composition vA cA vB cB) <= 1.
Proof.
  intros HA HB Hpos ND Ha Hb.
  assert (Hs : ~ vA + vB == 0) by lra.
  rewrite (combine_get vA cA vB cB k Hs ND). apply mix_formula_bounds; assumption.
Qed.

Lemma combine_Forall_bounds vA cA vB cB : 0 <= vA -> 0 <= vB -> 0 < vA + vB ->
  NoDup (map fst cA) -> NoDup (map fst cB) ->
  Forall (fun kf => 0 <= snd kf /\ snd kf <= 1) cA ->
  Forall (fun kf => 0 <= snd kf /\ snd kf <= 1) cB ->
  Forall (fun kf => 0 <= snd kf /\ snd kf <= 1) (combine_composition vA cA vB cB).
Proof.
  intros HA HB Hpos NA NB FA FB. apply Forall_forall. intros [k x] Hin. cbn [snd].
  pose proof (combine_NoDup vA cA vB cB NA NB) as ND.
  rewrite <- (cget_In k x _ ND Hin).
  apply combine_get_bounds; try assumption.
  - apply (cget_Forall (fun q => 0 <= q /\ q <= 1)); [exact FA|lra].
  - apply (cget_Forall (fun q => 0 <= q /\ q <= 1)); [exact FB|lra].
Qed.

Lemma combine_sum_one vA cA vB cB : ~ vA + vB == 0 ->
  Qsum (map snd cA) == 1 -> Qsum (map snd cB) == 1 ->
  Qsum (map snd (combine_composition vA cA vB cB)) == 1.
Proof.
  intros Hs HA HB. rewrite (combine_sum vA cA vB cB Hs), HA, HB. field. exact Hs.
Qed.

(** C05_self_neutral *)
Lemma combine_self vA cA vB cB k : ~ vA + vB == 0 -> NoDup (map fst cB) ->
  cget k cB == cget k cA -> cget k (combine_composition vA cA vB cB) == cget k cA.
Proof.
  intros Hs ND E. rewrite (combine_get vA cA vB cB k Hs ND), E. field. exact Hs.
Qed.

(* ------------------------------------------------------------------ set_frac, write_composition *)

Definition arrays_len (n : nat) (comp : list (string * list Q)) : Prop :=
  Forall (fun ka => length (snd ka) = n) comp.

Definition arr_or_zero (n : nat) (comp : list (string * list Q)) (k : string) : list Q :=
  match assoc_get k comp with Some a => a | None => repeat 0 n end.

Lemma arrays_len_get n comp k a : arrays_len n comp -> assoc_get k comp = Some a -> length a = n.
Proof.
  intros H E. apply assoc_get_Some_In in E. unfold arrays_len in H. rewrite Forall_forall in H.
  apply (H (k, a) E).
Qed.

Lemma arr_or_zero_len n comp k : arrays_len n comp -> length (arr_or_zero n comp k) = n.
Proof.
  intro H. unfold arr_or_zero. destruct (assoc_get k comp) as [a|] eqn:E.
  - exact (arrays_len_get n comp k a H E).
  - apply repeat_length.
Qed.

Lemma arr_or_zero_nth n comp k j : nth j (arr_or_zero n comp k) 0 = frac_at comp k j.
Proof.
  unfold arr_or_zero, frac_at. destruct (assoc_get k comp); [reflexivity|apply nth_repeat0].
Qed.

Lemma set_frac_unfold n comp k i x : set_frac n comp k i x = assoc_set k (upd (arr_or_zero n comp k) i x) comp.
Proof. reflexivity. Qed.

Lemma set_frac_frac n comp k i x k' j : arrays_len n comp -> (i < n)%nat ->
  frac_at (set_frac n comp k i x) k' j
  = if String.eqb k k' && (i =? j)%nat then x else frac_at comp k' j.
Proof.
  intros HL Hi. rewrite set_frac_unfold. unfold frac_at at 1.
  destruct (String.eqb_spec k k') as [E|N]; cbn [andb].
  - subst k'. rewrite assoc_get_set_same. destruct (Nat.eqb_spec i j) as [Ej|Nj].
    + subst j. apply nth_upd_eq. rewrite arr_or_zero_len by exact HL. exact Hi.
    + rewrite nth_upd_neq by exact Nj. apply arr_or_zero_nth.
  - rewrite assoc_get_set_other by exact N. reflexivity.
Qed.

Lemma set_frac_len n comp k i x : arrays_len n comp -> arrays_len n (set_frac n comp k i x).
Proof.
  intro HL. rewrite set_frac_unfold. unfold arrays_len.
  apply assoc_set_Forall'; [exact HL|]. intro k'. cbn [snd]. rewrite upd_len.
  apply arr_or_zero_len. exact HL.
Qed.

Lemma NoDup_snoc {A} (l : list A) x : NoDup l -> ~ In x l -> NoDup (l ++ [x]).
Proof.
  intros ND Hx. induction ND as [|y r Hy ND IH]; cbn [app].
  - constructor; [intros []|constructor].
  - constructor.
    + intro Hin. apply in_app_or in Hin. destruct Hin as [Hin|[E|[]]]; [contradiction|].
      subst y. apply Hx. left. reflexivity.
    + apply IH. intro Hin. apply Hx. right. exact Hin.
Qed.

Lemma assoc_set_NoDup {A} k (v : A) l : NoDup (map fst l) -> NoDup (map fst (assoc_set k v l)).
Proof.
  intro ND. rewrite keys_assoc_set. destruct (mem_str k (map fst l)) eqn:E; [exact ND|].
  apply NoDup_snoc; [exact ND|]. apply mem_str_false. exact E.
Qed.

Lemma set_frac_NoDup n comp k i x : NoDup (map fst comp) -> NoDup (map fst (set_frac n comp k i x)).
Proof. intro ND. rewrite set_frac_unfold. apply assoc_set_NoDup. exact ND. Qed.

Definition wc_fold (n i : nat) (c : composition) (comp : list (string * list Q)) :=
  fold_left (fun comp kf => set_frac n comp (fst kf) i (snd kf)) c comp.

Lemma write_composition_comp L i c :
  lw_comp (write_composition L i c) = wc_fold (n_wells (lw_geom L)) i c (lw_comp L).
Proof. reflexivity. Qed.

Lemma wc_fold_cons n i kf c comp :
  wc_fold n i (kf :: c) comp = wc_fold n i c (set_frac n comp (fst kf) i (snd kf)).
Proof. reflexivity. Qed.

Lemma wc_fold_len n i c : forall comp, arrays_len n comp -> arrays_len n (wc_fold n i c comp).
Proof.
  induction c as [|kf r IH]; intros comp HL; [exact HL|].
  rewrite wc_fold_cons. apply IH. apply set_frac_len. exact HL.
Qed.

Lemma wc_fold_NoDup n i c : forall comp, NoDup (map fst comp) -> NoDup (map fst (wc_fold n i c comp)).
Proof.
  induction c as [|kf r IH]; intros comp ND; [exact ND|].
  rewrite wc_fold_cons. apply IH. apply set_frac_NoDup. exact ND.
Qed.

Lemma wc_fold_keys n i c : NoDup (map fst c) -> forall comp,
  map fst (wc_fold n i c comp) = (map fst comp ++ fresh_keys (map fst comp) (map fst c))%list.
Proof.
  intros ND comp. unfold wc_fold, set_frac.
  exact (fold_set_keys (fun comp kf => upd (match assoc_get (fst kf) comp with
                                            | Some a => a | None => repeat 0 n end) i (snd kf))
                       c ND comp).
Qed.

Lemma mem_str_cons k k0 l : mem_str k (k0 :: l) = String.eqb k k0 || mem_str k l.
Proof. reflexivity. Qed.

(** after the write, position [i] of every component named in [c] holds the value from [c];
    everything else reads as before *)
Lemma wc_fold_frac n i c : NoDup (map fst c) -> forall comp, arrays_len n comp -> (i < n)%nat ->
  forall k j, frac_at (wc_fold n i c comp) k j
              = if (i =? j)%nat && mem_str k (map fst c) then cget k c else frac_at comp k j.
Proof.
  induction c as [|[k0 x0] r IH]; intros ND comp HL Hi k j.
  - cbn [wc_fold fold_left map mem_str existsb]. rewrite andb_false_r. reflexivity.
  - cbn [map fst] in ND. inversion ND as [|k' r' Hnot ND']; subst.
    rewrite wc_fold_cons. cbn [fst snd].
    rewrite (IH ND') by (try apply set_frac_len; assumption).
    rewrite set_frac_frac by assumption. cbn [map fst]. rewrite mem_str_cons, cget_cons.
    rewrite (String.eqb_sym k k0).
    destruct (String.eqb_spec k0 k) as [E|N]; cbn [andb orb].
    + subst k0. apply mem_str_false in Hnot. rewrite Hnot, andb_false_r, andb_true_r.
      destruct (i =? j)%nat; reflexivity.
    + reflexivity.
Qed.

(** components not named in [c] keep their arrays *)
Lemma wc_fold_other n i c k : ~ In k (map fst c) -> forall comp,
  assoc_get k (wc_fold n i c comp) = assoc_get k comp.
Proof.
  induction c as [|[k0 x0] r IH]; intros Hnot comp; [reflexivity|].
  rewrite wc_fold_cons. cbn [fst snd map] in *.
  rewrite IH by (intro H; apply Hnot; right; exact H).
  rewrite set_frac_unfold. apply assoc_get_set_other. intro E. apply Hnot. left. exact E.
Qed.

(** every existing array keeps its length and all positions other than [i] *)
Lemma wc_fold_arrays n i c : forall comp k a, assoc_get k comp = Some a ->
  exists a', assoc_get k (wc_fold n i c comp) = Some a' /\ length a' = length a /\
             forall j d, j <> i -> nth j a' d = nth j a d.
Proof.
  induction c as [|[k0 x0] r IH]; intros comp k a E.
  - exists a. split; [exact E|]. split; [reflexivity|]. intros; reflexivity.
  - rewrite wc_fold_cons. cbn [fst snd]. rewrite set_frac_unfold.
    destruct (String.eqb_spec k0 k) as [Ek|Nk].
    + subst k0.
      destruct (IH (assoc_set k (upd (arr_or_zero n comp k) i x0) comp) k
                   (upd (arr_or_zero n comp k) i x0) (assoc_get_set_same _ _ _))
        as [a' [E' [L' H']]].
      exists a'. split; [exact E'|]. unfold arr_or_zero in L', H'. rewrite E in L', H'.
      rewrite upd_len in L'. split; [exact L'|]. intros j d Hj.
      rewrite H' by exact Hj. apply nth_upd_neq. congruence.
    + apply IH. rewrite assoc_get_set_other by exact Nk. exact E.
Qed.

(** new components start as all-zero arrays of the right length *)
Lemma wc_fold_new n i c : NoDup (map fst c) -> forall comp k, arrays_len n comp -> (i < n)%nat ->
  assoc_get k comp = None -> In k (map fst c) ->
  exists a', assoc_get k (wc_fold n i c comp) = Some a' /\ length a' = n /\
             nth i a' 0 = cget k c /\ forall j, j <> i -> nth j a' 0 = 0.
Proof.
  intros ND comp k HL Hi E Hin.
  destruct (assoc_get_In_key k (wc_fold n i c comp)) as [a' E'].
  { rewrite (wc_fold_keys n i c ND). apply in_or_app. right. apply fresh_keys_In.
    split; [exact Hin|]. apply assoc_get_None. exact E. }
  exists a'. split; [exact E'|].
  split; [exact (arrays_len_get n _ k a' (wc_fold_len n i c comp HL) E')|].
  pose proof (wc_fold_frac n i c ND comp HL Hi k) as HF. unfold frac_at in HF.
  rewrite E', E in HF. split.
  - rewrite HF, Nat.eqb_refl. apply mem_str_true in Hin. rewrite Hin. reflexivity.
  - intros j Hj. rewrite HF. destruct (Nat.eqb_spec i j) as [Ej|_]; [congruence|reflexivity].
Qed.

Lemma upd_nth_id {A} (l : list A) d : forall i, upd l i (nth i l d) = l.
Proof.
  induction l as [|y r IH]; intro i; [destruct i; reflexivity|].
  destruct i as [|j]; cbn [upd nth]; [reflexivity|]. rewrite IH. reflexivity.
Qed.

Lemma assoc_set_id {A} k (v : A) l : assoc_get k l = Some v -> assoc_set k v l = l.
Proof.
  induction l as [|[k' v'] r IH]; cbn [assoc_get assoc_set]; [discriminate|].
  destruct (String.eqb k' k); intro H; [inversion H; reflexivity|]. rewrite IH by exact H. reflexivity.
Qed.

(** writing back the values that are already there changes nothing *)
Lemma wc_fold_id n i c comp :
  (forall k x, In (k, x) c -> exists a, assoc_get k comp = Some a /\ nth i a 0 = x) ->
  wc_fold n i c comp = comp.
Proof.
  induction c as [|[k0 x0] r IH]; intro H; [reflexivity|].
  rewrite wc_fold_cons. cbn [fst snd].
  destruct (H k0 x0 (or_introl eq_refl)) as [a [E Hx]].
  assert (Hs : set_frac n comp k0 i x0 = comp).
  { unfold set_frac. rewrite E. rewrite <- Hx, upd_nth_id. apply assoc_set_id. exact E. }
  rewrite Hs. apply IH. intros k x Hin. apply H. right. exact Hin.
Qed.

Lemma write_composition_fields L i c :
  lw_name (write_composition L i c) = lw_name L /\ lw_geom (write_composition L i c) = lw_geom L /\
  lw_min (write_composition L i c) = lw_min L /\ lw_max (write_composition L i c) = lw_max L /\
  lw_vols (write_composition L i c) = lw_vols L /\ lw_hist (write_composition L i c) = lw_hist L.
Proof. repeat split. Qed.

(* ------------------------------------------------------------------ well_composition_at *)

Definition wca (comp : list (string * list Q)) (i : nat) : composition :=
  flat_map (fun kf => let f := nth i (snd kf) 0 in if Qltb 0 f then [(fst kf, f)] else []) comp.

Lemma well_composition_at_wca L i : well_composition_at L i = wca (lw_comp L) i.
Proof. reflexivity. Qed.

Lemma wca_cons k a r i :
  wca ((k, a) :: r) i = ((if Qltb 0 (nth i a 0) then [(k, nth i a 0)] else []) ++ wca r i)%list.
Proof. reflexivity. Qed.

Lemma wca_keys_sub comp i k : In k (map fst (wca comp i)) -> In k (map fst comp).
Proof.
  induction comp as [|[k0 a0] r IH]; [intros []|].
  rewrite wca_cons. cbn [map fst]. destruct (Qltb 0 (nth i a0 0)); cbn [app map fst In]; tauto.
Qed.

Lemma wca_NoDup comp i : NoDup (map fst comp) -> NoDup (map fst (wca comp i)).
Proof.
  induction comp as [|[k0 a0] r IH]; intro ND; [constructor|].
  cbn [map fst] in ND. inversion ND as [|k' r' Hnot ND']; subst.
  rewrite wca_cons. destruct (Qltb 0 (nth i a0 0)); cbn [app map fst]; [|apply IH; exact ND'].
  constructor; [|apply IH; exact ND']. intro Hin. apply Hnot. exact (wca_keys_sub r i k0 Hin).
Qed.

Lemma frac_at_cons k0 a0 r k i :
  frac_at ((k0, a0) :: r) k i = if String.eqb k0 k then nth i a0 0 else frac_at r k i.
Proof. unfold frac_at. cbn [assoc_get]. destruct (String.eqb k0 k); reflexivity. Qed.

Lemma frac_at_notin comp k i : ~ In k (map fst comp) -> frac_at comp k i = 0.
Proof. intro H. unfold frac_at. apply assoc_get_None in H. rewrite H. reflexivity. Qed.

(** what [get_well_composition] reports for a component: its fraction if positive, else nothing *)
Lemma wca_get comp i k : NoDup (map fst comp) ->
  cget k (wca comp i) = if Qltb 0 (frac_at comp k i) then frac_at comp k i else 0.
Proof.
  induction comp as [|[k0 a0] r IH]; intro ND.
  - unfold frac_at, cget. cbn [wca flat_map assoc_get]. destruct (Qltb 0 0); reflexivity.
  - cbn [map fst] in ND. inversion ND as [|k' r' Hnot ND']; subst.
    rewrite wca_cons, frac_at_cons. destruct (String.eqb_spec k0 k) as [E|N].
    + subst k0. destruct (Qltb 0 (nth i a0 0)) eqn:Ef; cbn [app].
      * rewrite cget_cons, String.eqb_refl. reflexivity.
      * apply cget_notin. intro Hin. apply Hnot. exact (wca_keys_sub r i k Hin).
    + destruct (Qltb 0 (nth i a0 0)); cbn [app]; [rewrite cget_cons|];
        try (destruct (String.eqb_spec k0 k) as [E|_]; [contradiction|]); apply IH; exact ND'.
Qed.

Lemma wca_In comp i k x : In (k, x) (wca comp i) -> exists a, In (k, a) comp /\ nth i a 0 = x /\ 0 < x.
Proof.
  induction comp as [|[k0 a0] r IH]; [intros []|].
  rewrite wca_cons. intro Hin. apply in_app_or in Hin. destruct Hin as [Hin|Hin].
  - destruct (Qltb 0 (nth i a0 0)) eqn:Ef; [|destruct Hin]. destruct Hin as [E|[]].
    inversion E; subst. exists a0. split; [left; reflexivity|]. split; [reflexivity|].
    apply Qltb_true'. exact Ef.
  - destruct (IH Hin) as [a [Ha Hx]]. exists a. split; [right; exact Ha|exact Hx].
Qed.

(** entries that are not positive are zero: then the reported fractions sum to the column sum *)
Lemma wca_sum comp i : (forall ka, In ka comp -> 0 <= nth i (snd ka) 0) ->
  Qsum (map snd (wca comp i)) == col_sum comp i.
Proof.
  unfold col_sum. induction comp as [|[k0 a0] r IH]; intro H; [reflexivity|].
  rewrite wca_cons, map_app, Qsum_app'. cbn [map snd]. rewrite Qsum_cons.
  rewrite IH by (intros ka Hka; apply H; right; exact Hka).
  apply Qplus_comp; [|reflexivity].
  destruct (Qltb 0 (nth i a0 0)) eqn:Ef.
  - cbn [map snd]. rewrite Qsum_cons. unfold Qsum. cbn [fold_right]. ring.
  - apply Qltb_false' in Ef. pose proof (H (k0, a0) (or_introl eq_refl)) as H0. cbn [snd] in H0.
    unfold Qsum. cbn [map fold_right]. lra.
Qed.

(* ------------------------------------------------------------------ one element of add_loop / remove_loop *)



Lemma add_loop_cons' L w x oc rest :
  add_loop L ((w, x, oc) :: rest) =
  match lw_index L w with
  | None => (L, Some EReject)
  | Some i => match x with
              | XQ v => if Qgtb (Qred (vol_at L i + v)) (lw_max L) then (L, Some EOverflow)
                        else add_loop (add_step L i v oc) rest
              | _ => (L, Some EOverflow)
              end
  end.
Proof. reflexivity. Qed.

Lemma remove_loop_cons' L w x rest :
  remove_loop L ((w, x) :: rest) =
  match lw_index L w with
  | None => (L, Some EReject)
  | Some i => match x with
              | XQ v => if Qltb (Qred (vol_at L i - v)) (lw_min L) then (L, Some EUnderflow)
                        else remove_loop (rem_step L i v) rest
              | _ => (L, Some EUnderflow)
              end
  end.
Proof. reflexivity. Qed.

(** the composition the mixing step writes into well [i] *)
Definition mixed (L : labware) (i : nat) (v : Q) (c : composition) : composition :=
  combine_composition (vol_at L i) (wca (lw_comp L) i) v c.

Lemma add_step_comp_some L i v c :
  lw_comp (add_step L i v (Some c)) = wc_fold (n_wells (lw_geom L)) i (mixed L i v c) (lw_comp L).
Proof. reflexivity. Qed.
Lemma add_step_comp_none L i v : lw_comp (add_step L i v None) = lw_comp L.
Proof. reflexivity. Qed.

Lemma add_step_fields L i v oc :
  lw_name (add_step L i v oc) = lw_name L /\ lw_geom (add_step L i v oc) = lw_geom L /\
  lw_min (add_step L i v oc) = lw_min L /\ lw_max (add_step L i v oc) = lw_max L /\
  lw_vols (add_step L i v oc) = upd (lw_vols L) i (Qred (vol_at L i + v)) /\
  lw_hist (add_step L i v oc) = lw_hist L.
Proof. destruct oc as [c|]; repeat split. Qed.

Lemma rem_step_fields L i v :
  lw_name (rem_step L i v) = lw_name L /\ lw_geom (rem_step L i v) = lw_geom L /\
  lw_min (rem_step L i v) = lw_min L /\ lw_max (rem_step L i v) = lw_max L /\
  lw_vols (rem_step L i v) = upd (lw_vols L) i (Qred (vol_at L i - v)) /\
  lw_comp (rem_step L i v) = lw_comp L /\ lw_hist (rem_step L i v) = lw_hist L.
Proof. repeat split. Qed.

Lemma lw_index_geom' L1 L2 w : lw_geom L1 = lw_geom L2 -> lw_index L1 w = lw_index L2 w.
Proof. intro H. unfold lw_index. rewrite H. reflexivity. Qed.

Lemma vol_at_add_step L i v oc j : (i < length (lw_vols L))%nat ->
  vol_at (add_step L i v oc) j = if (i =? j)%nat then Qred (vol_at L i + v) else vol_at L j.
Proof.
  intro Hi. unfold vol_at at 1.
  destruct (add_step_fields L i v oc) as (_ & _ & _ & _ & Hv & _). rewrite Hv.
  destruct (Nat.eqb_spec i j) as [E|N].
  - subst j. apply nth_upd_eq. exact Hi.
  - apply nth_upd_neq. exact N.
Qed.

Lemma vol_at_rem_step L i v j : (i < length (lw_vols L))%nat ->
  vol_at (rem_step L i v) j = if (i =? j)%nat then Qred (vol_at L i - v) else vol_at L j.
Proof.
  intro Hi. unfold vol_at at 1. cbn [rem_step set_vols lw_vols].
  destruct (Nat.eqb_spec i j) as [E|N].
  - subst j. apply nth_upd_eq. exact Hi.
  - apply nth_upd_neq. exact N.
Qed.

Lemma mixed_NoDup L i v c : NoDup (map fst (lw_comp L)) -> NoDup (map fst c) ->
  NoDup (map fst (mixed L i v c)).
Proof. intros N1 N2. apply combine_NoDup; [apply wca_NoDup; exact N1|exact N2]. Qed.

(** C05_add_step: wells other than the addressed one keep all fractions *)
Lemma add_step_frac_other L i v oc k j :
  arrays_len (n_wells (lw_geom L)) (lw_comp L) -> (i < n_wells (lw_geom L))%nat ->
  NoDup (map fst (lw_comp L)) ->
  (match oc with Some c => NoDup (map fst c) | None => True end) ->
  j <> i -> frac (add_step L i v oc) k j = frac L k j.
Proof.
  intros HL Hi ND NC Hj. destruct oc as [c|]; [|reflexivity].
  unfold frac. rewrite add_step_comp_some.
  rewrite wc_fold_frac; try assumption; [|apply mixed_NoDup; assumption].
  destruct (Nat.eqb_spec i j) as [E|_]; [congruence|reflexivity].
Qed.

(** the reading of [get_well_composition] is the stored fraction as soon as that is not negative *)
Lemma pfrac_nonneg L k i : 0 <= frac L k i -> pfrac L k i == frac L k i.
Proof.
  intro H. unfold pfrac. destruct (Qltb 0 (frac L k i)) eqn:E; [reflexivity|].
  apply Qltb_false' in E. lra.
Qed.

Lemma wca_get_pfrac L k i : NoDup (map fst (lw_comp L)) -> cget k (wca (lw_comp L) i) = pfrac L k i.
Proof. intro ND. rewrite wca_get by exact ND. reflexivity. Qed.

(** C05_add_step: the addressed well holds the volume-weighted mixture *)
Lemma add_step_frac_same_p L i v c k :
  arrays_len (n_wells (lw_geom L)) (lw_comp L) -> (i < n_wells (lw_geom L))%nat ->
  NoDup (map fst (lw_comp L)) -> NoDup (map fst c) ->
  ~ vol_at L i + v == 0 ->
  (0 < frac L k i \/ In k (map fst c)) ->
  frac (add_step L i v (Some c)) k i
  == (vol_at L i * pfrac L k i + v * cget k c) / (vol_at L i + v).
Proof.
  intros HL Hi ND NC Hs Hk. unfold frac at 1. rewrite add_step_comp_some.
  rewrite wc_fold_frac; try assumption; [|apply mixed_NoDup; assumption].
  rewrite Nat.eqb_refl. cbn [andb].
  assert (Hmem : mem_str k (map fst (mixed L i v c)) = true).
  { apply mem_str_true. unfold mixed. rewrite combine_keys by assumption.
    destruct (in_dec string_dec k (map fst (wca (lw_comp L) i))) as [Hin|Hnin].
    - apply in_or_app. left. exact Hin.
    - apply in_or_app. right. apply fresh_keys_In. split; [|exact Hnin].
      destruct Hk as [Hpos|Hc]; [|exact Hc]. exfalso.
      assert (E : cget k (wca (lw_comp L) i) = 0) by (apply cget_notin; exact Hnin).
      rewrite wca_get in E by exact ND. fold (frac L k i) in E.
      destruct (Qltb 0 (frac L k i)) eqn:Ef.
      + rewrite E in Hpos. lra.
      + apply Qltb_false' in Ef. lra. }
  rewrite Hmem. unfold mixed. rewrite combine_get by assumption.
  rewrite wca_get_pfrac by exact ND. reflexivity.
Qed.

Lemma add_step_frac_same L i v c k :
  arrays_len (n_wells (lw_geom L)) (lw_comp L) -> (i < n_wells (lw_geom L))%nat ->
  NoDup (map fst (lw_comp L)) -> NoDup (map fst c) ->
  ~ vol_at L i + v == 0 ->
  0 <= frac L k i ->
  frac (add_step L i v (Some c)) k i
  == (vol_at L i * frac L k i + v * cget k c) / (vol_at L i + v).
Proof.
  intros HL Hi ND NC Hs Hk.
  destruct (Qlt_le_dec 0 (frac L k i)) as [Hpos|Hle].
  - rewrite add_step_frac_same_p by (try assumption; left; exact Hpos).
    rewrite pfrac_nonneg by exact Hk. reflexivity.
  - assert (Hz : frac L k i == 0) by lra.
    destruct (in_dec string_dec k (map fst c)) as [Hin|Hnin].
    + rewrite add_step_frac_same_p by (try assumption; right; exact Hin).
      rewrite pfrac_nonneg by exact Hk. reflexivity.
    + (* the component is neither present in the well nor in the added liquid: not written *)
      unfold frac at 1. rewrite add_step_comp_some.
      rewrite wc_fold_frac; try assumption; [|apply mixed_NoDup; assumption].
      assert (Hmem : mem_str k (map fst (mixed L i v c)) = false).
      { apply mem_str_false. unfold mixed. rewrite combine_keys by assumption. intro Hin.
        apply in_app_or in Hin. destruct Hin as [Hin|Hin].
        - change (In k (map fst (wca (lw_comp L) i))) in Hin.
          apply in_map_iff in Hin. destruct Hin as [[k' x] [Ek Hin]]. cbn [fst] in Ek. subst k'.
          pose proof (cget_In k x _ (wca_NoDup _ i ND) Hin) as Eg.
          destruct (wca_In _ _ _ _ Hin) as [a [_ [_ Hx]]].
          rewrite wca_get in Eg by exact ND. fold (frac L k i) in Eg.
          destruct (Qltb 0 (frac L k i)) eqn:Ef.
          + apply Qltb_true' in Ef. lra.
          + rewrite <- Eg in Hx. lra.
        - apply fresh_keys_In in Hin. tauto. }
      rewrite Hmem, andb_false_r. fold (frac L k i).
      rewrite (cget_notin k c Hnin), Hz. field. exact Hs.
Qed.

(** C05_add_step: a zero total volume leaves the table as it is *)
Lemma add_step_guard L i v c : NoDup (map fst (lw_comp L)) -> vol_at L i + v == 0 ->
  lw_comp (add_step L i v (Some c)) = lw_comp L.
Proof.
  intros ND Hz. rewrite add_step_comp_some. unfold mixed. rewrite combine_zero by exact Hz.
  apply wc_fold_id. intros k x Hin. destruct (wca_In _ _ _ _ Hin) as [a [Ha [Hx _]]].
  exists a. split; [|exact Hx]. apply assoc_get_NoDup; assumption.
Qed.

(* ------------------------------------------------------------------ column view, column sums *)

Definition col (comp : list (string * list Q)) (i : nat) : composition :=
  map (fun ka => (fst ka, nth i (snd ka) 0)) comp.

Lemma col_keys comp i : map fst (col comp i) = map fst comp.
Proof. unfold col. rewrite map_map. reflexivity. Qed.
Lemma col_sum_col comp i : col_sum comp i = Qsum (map snd (col comp i)).
Proof. unfold col_sum, col. rewrite map_map. reflexivity. Qed.
Lemma col_get comp i k : cget k (col comp i) = frac_at comp k i.
Proof.
  induction comp as [|[k0 a0] r IH]; [reflexivity|].
  unfold col. cbn [map fst snd]. fold (col r i). rewrite cget_cons, frac_at_cons, IH. reflexivity.
Qed.

Lemma col_sum_keys comp i K : NoDup (map fst comp) -> NoDup K ->
  (forall k, In k (map fst comp) -> In k K) ->
  Qsum (map (fun k => frac_at comp k i) K) == col_sum comp i.
Proof.
  intros ND NK Hsub. rewrite col_sum_col.
  rewrite <- (Qsum_cget_superset (col comp i)) with (K := K);
    try (rewrite col_keys); try assumption.
  apply Qsum_map_ext. intros k _. rewrite col_get. reflexivity.
Qed.

(** column sum of a well that the write does not address *)
Lemma col_sum_set_frac n comp k i x j : arrays_len n comp -> (i < n)%nat ->
  col_sum (set_frac n comp k i x) j
  == col_sum comp j - frac_at comp k j + (if (i =? j)%nat then x else frac_at comp k j).
Proof.
  intros HL Hi. rewrite set_frac_unfold.
  assert (Hset : forall (a' : list Q) (l : list (string * list Q)),
             col_sum (assoc_set k a' l) j == col_sum l j - frac_at l k j + nth j a' 0).
  { intros a' l. unfold col_sum. induction l as [|[k' v'] r IHl]; cbn [assoc_set map snd].
    - unfold frac_at. cbn [assoc_get]. rewrite Qsum_cons. ring.
    - rewrite frac_at_cons. destruct (String.eqb k' k); cbn [map snd]; rewrite !Qsum_cons.
      + ring.
      + rewrite IHl. ring. }
  rewrite Hset. apply Qplus_comp; [reflexivity|].
  destruct (Nat.eqb_spec i j) as [E|N].
  - subst j. rewrite nth_upd_eq by (rewrite arr_or_zero_len by exact HL; exact Hi). reflexivity.
  - rewrite nth_upd_neq by exact N. rewrite arr_or_zero_nth. reflexivity.
Qed.

Lemma wc_fold_col_sum_other n i c j : j <> i -> forall comp, arrays_len n comp -> (i < n)%nat ->
  col_sum (wc_fold n i c comp) j == col_sum comp j.
Proof.
  intro Hj. induction c as [|[k0 x0] r IH]; intros comp HL Hi; [reflexivity|].
  rewrite wc_fold_cons. cbn [fst snd]. rewrite IH by (try apply set_frac_len; assumption).
  rewrite col_sum_set_frac by assumption.
  destruct (Nat.eqb_spec i j) as [E|_]; [congruence|ring].
Qed.

(** C05_invariant, the key step: the fractions of the addressed well sum to the weighted mean *)
Lemma add_step_well_sum L i v c :
  arrays_len (n_wells (lw_geom L)) (lw_comp L) -> (i < n_wells (lw_geom L))%nat ->
  NoDup (map fst (lw_comp L)) -> NoDup (map fst c) ->
  ~ vol_at L i + v == 0 ->
  (forall k, 0 <= frac L k i) ->
  well_sum (add_step L i v (Some c)) i
  == (vol_at L i * well_sum L i + v * Qsum (map snd c)) / (vol_at L i + v).
Proof.
  intros HL Hi ND NC Hs Hnn. unfold well_sum.
  set (L' := add_step L i v (Some c)).
  assert (ND' : NoDup (map fst (lw_comp L'))).
  { unfold L'. rewrite add_step_comp_some. apply wc_fold_NoDup. exact ND. }
  assert (Hsub1 : forall k, In k (map fst (lw_comp L)) -> In k (map fst (lw_comp L'))).
  { intros k Hk. unfold L'. rewrite add_step_comp_some.
    rewrite wc_fold_keys by (apply mixed_NoDup; assumption). apply in_or_app. left. exact Hk. }
  assert (Hsub2 : forall k, In k (map fst c) -> In k (map fst (lw_comp L'))).
  { intros k Hk. unfold L'. rewrite add_step_comp_some.
    rewrite wc_fold_keys by (apply mixed_NoDup; assumption).
    destruct (in_dec string_dec k (map fst (lw_comp L))) as [Hin|Hnin]; apply in_or_app.
    - left. exact Hin.
    - right. apply fresh_keys_In. split; [|exact Hnin].
      unfold mixed. rewrite combine_keys by assumption.
      destruct (in_dec string_dec k (map fst (wca (lw_comp L) i))) as [Hw|Hw]; apply in_or_app.
      + left. exact Hw.
      + right. apply fresh_keys_In. split; assumption. }
  rewrite <- (col_sum_keys (lw_comp L') i (map fst (lw_comp L'))) by (try assumption; auto).
  rewrite (Qsum_map_ext (fun k => frac_at (lw_comp L') k i)
             (fun k => (vol_at L i / (vol_at L i + v)) * frac_at (lw_comp L) k i
                       + (v / (vol_at L i + v)) * cget k c)).
  2:{ intros k _. change (frac_at (lw_comp L') k i) with (frac (add_step L i v (Some c)) k i).
      rewrite add_step_frac_same by (try assumption; apply Hnn).
      unfold frac. field. exact Hs. }
  rewrite Qsum_map_lin.
  rewrite (col_sum_keys (lw_comp L) i) by assumption.
  rewrite (Qsum_cget_superset c NC) by assumption.
  field. exact Hs.
Qed.

(* ------------------------------------------------------------------ the invariant: one step *)

Definition in01 (f : Q) : Prop := 0 <= f /\ f <= 1.
Definition frac_bounds (comp : list (string * list Q)) : Prop :=
  Forall (fun ka => Forall (fun f => 0 <= f /\ f <= 1) (snd ka)) comp.

Lemma frac_bounds_frac comp k i : frac_bounds comp -> 0 <= frac_at comp k i /\ frac_at comp k i <= 1.
Proof.
  intro HB. unfold frac_at. destruct (assoc_get k comp) as [a|] eqn:E; [|lra].
  apply assoc_get_Some_In in E. unfold frac_bounds in HB. rewrite Forall_forall in HB.
  pose proof (HB (k, a) E) as Ha. cbn [snd] in Ha.
  apply (Forall_nth' (fun f => 0 <= f /\ f <= 1)); [exact Ha|lra].
Qed.

Lemma comp_inv_frac L k i : comp_inv L -> 0 <= frac L k i /\ frac L k i <= 1.
Proof. intros (_ & _ & HB & _). apply frac_bounds_frac. exact HB. Qed.

Lemma wca_bounds comp i : frac_bounds comp -> Forall (fun kf => 0 <= snd kf /\ snd kf <= 1) (wca comp i).
Proof.
  intro HB. apply Forall_forall. intros [k x] Hin. cbn [snd].
  destruct (wca_In _ _ _ _ Hin) as [a [Ha [Hx _]]]. subst x.
  unfold frac_bounds in HB. rewrite Forall_forall in HB. pose proof (HB (k, a) Ha) as Hb. cbn [snd] in Hb.
  apply (Forall_nth' (fun f => 0 <= f /\ f <= 1)); [exact Hb|lra].
Qed.

Lemma set_frac_bounds n comp k i x : frac_bounds comp -> 0 <= x /\ x <= 1 ->
  frac_bounds (set_frac n comp k i x).
Proof.
  intros HB Hx. rewrite set_frac_unfold. unfold frac_bounds.
  apply assoc_set_Forall'; [exact HB|]. intro k'. cbn [snd].
  apply Forall_upd'; [|exact Hx]. unfold arr_or_zero.
  destruct (assoc_get k comp) as [a|] eqn:E.
  - apply assoc_get_Some_In in E. unfold frac_bounds in HB. rewrite Forall_forall in HB.
    exact (HB (k, a) E).
  - apply Forall_forall. intros y Hy. apply repeat_spec in Hy. subst y. lra.
Qed.

Lemma wc_fold_bounds n i c : Forall (fun kf => 0 <= snd kf /\ snd kf <= 1) c ->
  forall comp, frac_bounds comp -> frac_bounds (wc_fold n i c comp).
Proof.
  induction 1 as [|kf r Hkf Hr IH]; intros comp HB; [exact HB|].
  rewrite wc_fold_cons. apply IH. apply set_frac_bounds; assumption.
Qed.

Lemma vol_base_vol_at L i : vol_base L -> 0 <= vol_at L i.
Proof.
  intros (_ & _ & _ & HV). unfold vol_at. apply (Forall_nth' (fun v => 0 <= v)); [exact HV|lra].
Qed.

Lemma mixed_bounds L i v c : frac_bounds (lw_comp L) -> NoDup (map fst (lw_comp L)) ->
  0 <= vol_at L i -> 0 <= v -> NoDup (map fst c) ->
  Forall (fun kf => 0 <= snd kf /\ snd kf <= 1) c ->
  Forall (fun kf => 0 <= snd kf /\ snd kf <= 1) (mixed L i v c).
Proof.
  intros HB ND H0 Hv NC HC. unfold mixed.
  destruct (Qeq_dec (vol_at L i + v) 0) as [Hz|Hnz].
  - rewrite combine_zero by exact Hz. apply wca_bounds. exact HB.
  - apply combine_Forall_bounds; try assumption; try lra.
    + apply wca_NoDup. exact ND.
    + apply wca_bounds. exact HB.
Qed.

(** membership of the flat index *)
Lemma lw_index_lt L w i : wf_geom (lw_geom L) -> lw_index L w = Some i -> (i < n_wells (lw_geom L))%nat.
Proof.
  intros (Hr & Hc & Hv) H. unfold lw_index in H.
  destruct (well_index (lw_geom L) w) as [rc|] eqn:E; [|discriminate]. inversion H; subst i. clear H.
  destruct (well_index_domain _ _ _ E) as (r & c & Hr' & Hc' & _ & Hrc). subst rc.
  unfold flat_index, n_wells. cbn [fst snd]. unfold n_row_ids in Hr'.
  destruct (g_vrows (lw_geom L)) as [vr|].
  - destruct Hv as [H1 _]. rewrite H1. lia.
  - assert (Hrr : (r < g_rows (lw_geom L))%nat) by lia. nia.
Qed.

Lemma well_sum_add_step_other L i v oc j :
  arrays_len (n_wells (lw_geom L)) (lw_comp L) -> (i < n_wells (lw_geom L))%nat ->
  j <> i -> well_sum (add_step L i v oc) j == well_sum L j.
Proof.
  intros HL Hi Hj. destruct oc as [c|]; [|reflexivity].
  unfold well_sum. rewrite add_step_comp_some. apply wc_fold_col_sum_other; assumption.
Qed.

Lemma add_step_geom L i v oc : lw_geom (add_step L i v oc) = lw_geom L.
Proof. destruct oc; reflexivity. Qed.

Lemma add_step_vol_base L i v oc : vol_base L -> 0 <= v -> vol_base (add_step L i v oc).
Proof.
  intros HVB Hv. pose proof (vol_base_vol_at L i HVB) as H0.
  destruct HVB as (Hg & Hlen & Hmin & HV).
  destruct (add_step_fields L i v oc) as (_ & Eg & Em & _ & Ev & _).
  unfold vol_base. rewrite Eg, Em, Ev. split; [exact Hg|]. split; [rewrite upd_len; exact Hlen|].
  split; [exact Hmin|]. apply Forall_upd'; [exact HV|]. rewrite Qred_correct. lra.
Qed.

Lemma add_step_comp_inv L i v oc : mix_inv L -> (i < n_wells (lw_geom L))%nat -> 0 <= v ->
  ocomp_ok oc -> comp_inv (add_step L i v oc).
Proof.
  intros [HVB HCI] Hi Hv Hoc. pose proof (vol_base_vol_at L i HVB) as H0.
  pose proof HCI as (HL & ND & HB & HS).
  destruct oc as [c|]; [|exact HCI]. destruct Hoc as (NC & HC & HCs).
  unfold comp_inv. rewrite add_step_geom.
  split; [|split; [|split]].
  - rewrite add_step_comp_some. apply wc_fold_len. exact HL.
  - rewrite add_step_comp_some. apply wc_fold_NoDup. exact ND.
  - rewrite add_step_comp_some. apply wc_fold_bounds; [|exact HB]. apply mixed_bounds; assumption.
  - intros j Hj. destruct (Nat.eq_dec j i) as [E|N].
    + subst j. destruct (Qeq_dec (vol_at L i + v) 0) as [Hz|Hnz].
      * unfold well_sum. rewrite add_step_guard by assumption. apply HS. exact Hi.
      * rewrite add_step_well_sum; try assumption.
        -- apply mix_formula_le; try assumption; try lra. apply HS. exact Hi.
        -- intro k. apply (comp_inv_frac L k i HCI).
    + rewrite well_sum_add_step_other by assumption. apply HS. exact Hj.
Qed.

Lemma add_step_inv L i v oc : mix_inv L -> (i < n_wells (lw_geom L))%nat -> 0 <= v ->
  ocomp_ok oc -> mix_inv (add_step L i v oc).
Proof.
  intros HI Hi Hv Hoc. split.
  - apply add_step_vol_base; [exact (proj1 HI)|exact Hv].
  - apply add_step_comp_inv; assumption.
Qed.

(** fully-known wells stay fully known when the added liquid is fully known *)
Lemma add_step_known L i v c : mix_inv L -> (i < n_wells (lw_geom L))%nat -> 0 <= v ->
  NoDup (map fst c) -> comp_full c -> fully_known L i -> fully_known (add_step L i v (Some c)) i.
Proof.
  intros [HVB HCI] Hi Hv NC HF HK. pose proof (vol_base_vol_at L i HVB) as H0.
  pose proof HCI as (HL & ND & HB & HS). unfold fully_known in *.
  destruct (Qeq_dec (vol_at L i + v) 0) as [Hz|Hnz].
  - unfold well_sum. rewrite add_step_guard by assumption. exact HK.
  - rewrite add_step_well_sum; try assumption; [|intro k; apply (comp_inv_frac L k i HCI)].
    unfold comp_full in HF. rewrite HK, HF. field. exact Hnz.
Qed.

(** an empty well that receives a fully known liquid becomes fully known *)
Lemma add_step_known_empty L i v c : mix_inv L -> (i < n_wells (lw_geom L))%nat -> 0 < v ->
  NoDup (map fst c) -> comp_full c -> vol_at L i == 0 -> fully_known (add_step L i v (Some c)) i.
Proof.
  intros [HVB HCI] Hi Hv NC HF HE.
  pose proof HCI as (HL & ND & HB & HS). unfold fully_known.
  assert (Hnz : ~ vol_at L i + v == 0) by lra.
  rewrite add_step_well_sum; try assumption; [|intro k; apply (comp_inv_frac L k i HCI)].
  unfold comp_full in HF. rewrite HF, HE. field. lra.
Qed.

Lemma add_step_known_other L i v oc j : mix_inv L -> (i < n_wells (lw_geom L))%nat -> j <> i ->
  fully_known L j -> fully_known (add_step L i v oc) j.
Proof.
  intros [_ (HL & _)] Hi Hj HK. unfold fully_known in *.
  rewrite well_sum_add_step_other by assumption. exact HK.
Qed.

Lemma rem_step_inv L i v : mix_inv L -> lw_min L <= Qred (vol_at L i - v) -> mix_inv (rem_step L i v).
Proof.
  intros [(Hg & Hlen & Hmin & HV) HCI] Hacc. split; [|exact HCI].
  unfold vol_base. cbn [rem_step set_vols lw_geom lw_vols lw_min].
  split; [exact Hg|]. split; [rewrite upd_len; exact Hlen|]. split; [exact Hmin|].
  apply Forall_upd'; [exact HV|]. lra.
Qed.

(* ------------------------------------------------------------------ the invariant: loops, add, remove *)

Definition aitem_ok (it : string * xnum * option composition) : Prop :=
  vol_ok (snd (fst it)) = true /\ ocomp_ok (snd it).

Lemma vol_ok_XQ' v : vol_ok (XQ v) = true -> 0 <= v.
Proof. cbn [vol_ok]. intro H. apply Qle_bool_iff. exact H. Qed.

Lemma add_loop_inv items : forall L, Forall aitem_ok items -> mix_inv L ->
  mix_inv (fst (add_loop L items)).
Proof.
  induction items as [|[[w x] oc] rest IH]; intros L HF HI; [exact HI|].
  inversion HF as [|it r [Hv Hoc] Hrest]; subst. cbn [fst snd] in Hv, Hoc.
  rewrite add_loop_cons'. destruct (lw_index L w) as [i|] eqn:Ei; [|exact HI].
  destruct x as [v| | |]; try exact HI.
  destruct (Qgtb (Qred (vol_at L i + v)) (lw_max L)); [exact HI|].
  apply IH; [exact Hrest|]. apply add_step_inv; try assumption.
  - apply (lw_index_lt L w i); [exact (proj1 (proj1 HI))|exact Ei].
  - apply vol_ok_XQ'. exact Hv.
Qed.

Lemma remove_loop_inv items : forall L, mix_inv L -> mix_inv (fst (remove_loop L items)).
Proof.
  induction items as [|[w x] rest IH]; intros L HI; [exact HI|].
  rewrite remove_loop_cons'. destruct (lw_index L w) as [i|] eqn:Ei; [|exact HI].
  destruct x as [v| | |]; try exact HI.
  destruct (Qltb (Qred (vol_at L i - v)) (lw_min L)) eqn:E; [exact HI|].
  apply IH. apply rem_step_inv; [exact HI|]. apply Qltb_false'. exact E.
Qed.

(** C05_remove_neutral *)
Lemma remove_loop_comp items : forall L, lw_comp (fst (remove_loop L items)) = lw_comp L.
Proof.
  induction items as [|[w x] rest IH]; intro L; [reflexivity|].
  rewrite remove_loop_cons'. destruct (lw_index L w) as [i|]; [|reflexivity].
  destruct x as [v| | |]; try reflexivity.
  destruct (Qltb (Qred (vol_at L i - v)) (lw_min L)); [reflexivity|].
  rewrite IH. reflexivity.
Qed.

Lemma remove_comp L wells vols label : lw_comp (fst (remove L wells vols label)) = lw_comp L.
Proof.
  unfold remove. destruct (prep_wells_vols wells vols) as [wv|e]; [|reflexivity].
  pose proof (remove_loop_comp wv L) as H.
  destruct (remove_loop L wv) as [L' [e|]]; cbn [fst] in *; exact H.
Qed.

Lemma mix_inv_same L L' : lw_geom L' = lw_geom L -> lw_vols L' = lw_vols L -> lw_min L' = lw_min L ->
  lw_comp L' = lw_comp L -> mix_inv L -> mix_inv L'.
Proof.
  intros Eg Ev Em Ec HI. unfold mix_inv, vol_base, comp_inv, well_sum in *.
  rewrite Eg, Ev, Em, Ec. exact HI.
Qed.

Lemma log_inv L label : mix_inv L -> mix_inv (log L label).
Proof. apply mix_inv_same; reflexivity. Qed.

Lemma condense_log_inv L n label : mix_inv L -> mix_inv (condense_log L n label).
Proof. unfold condense_log. destruct (n <? 1)%nat; [auto|]. apply mix_inv_same; reflexivity. Qed.

Lemma condense_log_comp L n label : lw_comp (condense_log L n label) = lw_comp L /\
  lw_vols (condense_log L n label) = lw_vols L /\ lw_geom (condense_log L n label) = lw_geom L.
Proof. unfold condense_log. destruct (n <? 1)%nat; repeat split. Qed.

Lemma remove_inv L wells vols label : mix_inv L -> mix_inv (fst (remove L wells vols label)).
Proof.
  intro HI. unfold remove. destruct (prep_wells_vols wells vols) as [wv|e]; [|exact HI].
  pose proof (remove_loop_inv wv L HI) as H.
  destruct (remove_loop L wv) as [L' [e|]]; cbn [fst] in *; [exact H|]. apply log_inv. exact H.
Qed.

Lemma Forall_zip {A B} (P : A -> Prop) (R : B -> Prop) (l1 : list A) : forall (l2 : list B),
  Forall P l1 -> Forall R l2 -> Forall (fun p => P (fst p) /\ R (snd p)) (zip l1 l2).
Proof.
  induction l1 as [|a r1 IH]; intros l2 H1 H2; [constructor|].
  destruct l2 as [|b r2]; [constructor|]. cbn [zip].
  inversion H1; subst. inversion H2; subst. constructor; [split; assumption|]. apply IH; assumption.
Qed.

Lemma Forall_zip_r {A B} (R : B -> Prop) (l1 : list A) : forall (l2 : list B),
  Forall R l2 -> Forall (fun p => R (snd p)) (zip l1 l2).
Proof.
  induction l1 as [|a r1 IH]; intros l2 H2; [constructor|].
  destruct l2 as [|b r2]; [constructor|]. cbn [zip].
  inversion H2; subst. constructor; [assumption|]. apply IH; assumption.
Qed.

Lemma prep_wells_vols_vol_ok wells vols wv : prep_wells_vols wells vols = Ok wv ->
  Forall (fun p => vol_ok (snd p) = true) wv.
Proof.
  unfold prep_wells_vols.
  destruct (negb (length (broadcast (flattenF vols) (length (flattenF wells))) =? length (flattenF wells))%nat);
    [discriminate|].
  destruct (forallb vol_ok (broadcast (flattenF vols) (length (flattenF wells)))) eqn:E; [|discriminate].
  cbn [negb]. intro H. inversion H; subst.
  apply (Forall_zip_r (fun x => vol_ok x = true)). apply Forall_forall.
  rewrite forallb_forall in E. exact E.
Qed.


Lemma add_inv L wells vols label comps : mix_inv L -> comps_ok comps ->
  mix_inv (fst (add L wells vols label comps)).
Proof.
  intros HI HC. unfold add. destruct (prep_wells_vols wells vols) as [wv|e] eqn:EP; [|exact HI].
  set (comps' := match comps with Some cs => cs | None => repeat None (length wv) end).
  destruct (negb (length comps' =? length wv)%nat); [exact HI|].
  assert (HF : Forall aitem_ok (map (fun p => (fst (fst p), snd (fst p), snd p)) (zip wv comps'))).
  { apply Forall_map.
    assert (HC' : Forall ocomp_ok comps').
    { unfold comps'. destruct comps as [cs|]; [exact HC|]. apply Forall_forall. intros oc Hoc.
      apply repeat_spec in Hoc. subst oc. exact I. }
    pose proof (Forall_zip _ _ wv comps' (prep_wells_vols_vol_ok _ _ _ EP) HC') as HZ.
    eapply Forall_impl; [|exact HZ]. intros [[w x] oc] [H1 H2]. split; assumption. }
  pose proof (add_loop_inv _ L HF HI) as H.
  destruct (add_loop L _) as [L' [e|]]; cbn [fst] in *; [exact H|]. apply log_inv. exact H.
Qed.

(* ------------------------------------------------------------------ the state level *)


Lemma st_inv_nth s k L : st_inv s -> nth_error (st_lw s) k = Some L -> mix_inv L.
Proof. intros H E. unfold st_inv in H. rewrite Forall_forall in H. apply H. eapply nth_error_In. exact E. Qed.

Lemma st_inv_upd s l k L : st_lw s = l -> Forall mix_inv l -> mix_inv L -> Forall mix_inv (upd l k L).
Proof. intros _ H HL. apply Forall_upd'; assumption. Qed.

Lemma aspirate_st_lw s k wells vols label kw :
  st_lw (fst (aspirate s k wells vols label kw)) =
  match nth_error (st_lw s) k with
  | None => st_lw s
  | Some L => upd (st_lw s) k
                (fst (remove L (A1 (flattenF wells))
                        (A1 (broadcast (flattenF vols) (length (flattenF wells)))) label))
  end.
Proof.
  unfold aspirate, wells_vols. destruct (nth_error (st_lw s) k) as [L|]; [|reflexivity].
  cbv beta zeta iota.
  destruct (remove L (A1 (flattenF wells)) (A1 (broadcast (flattenF vols) (length (flattenF wells)))) label)
    as [L' [e|]]; [reflexivity|].
  destruct (comment (st_wl (set_lw s k L')) label) as [w [e|]]; [reflexivity|].
  destruct (emit_wells true w L' (zip (flattenF wells) (broadcast (flattenF vols) (length (flattenF wells)))) kw)
    as [w' e']. reflexivity.
Qed.

Lemma dispense_st_lw s k wells vols label comps kw :
  st_lw (fst (dispense s k wells vols label comps kw)) =
  match nth_error (st_lw s) k with
  | None => st_lw s
  | Some L => upd (st_lw s) k
                (fst (add L (A1 (flattenF wells))
                        (A1 (broadcast (flattenF vols) (length (flattenF wells)))) label comps))
  end.
Proof.
  unfold dispense, wells_vols. destruct (nth_error (st_lw s) k) as [L|]; [|reflexivity].
  cbv beta zeta iota.
  destruct (add L (A1 (flattenF wells)) (A1 (broadcast (flattenF vols) (length (flattenF wells)))) label comps)
    as [L' [e|]]; [reflexivity|].
  destruct (comment (st_wl (set_lw s k L')) label) as [w [e|]]; [reflexivity|].
  destruct (emit_wells false w L' (zip (flattenF wells) (broadcast (flattenF vols) (length (flattenF wells)))) kw)
    as [w' e']. reflexivity.
Qed.

(** C05_remove_neutral on the state level *)
Lemma map_upd {A B} (f : A -> B) (l : list A) : forall k x, map f (upd l k x) = upd (map f l) k (f x).
Proof.
  induction l as [|y r IH]; intros k x; [destruct k; reflexivity|].
  destruct k as [|k]; cbn [upd map]; [reflexivity|]. rewrite IH. reflexivity.
Qed.

Lemma upd_same_nth_error {A} (l : list A) : forall k x, nth_error l k = Some x -> upd l k x = l.
Proof.
  induction l as [|y r IH]; intros k x E; [destruct k; reflexivity|].
  destruct k as [|k]; cbn [nth_error] in E; cbn [upd]; [inversion E; reflexivity|].
  rewrite IH by exact E. reflexivity.
Qed.

Lemma aspirate_comp s k wells vols label kw :
  map lw_comp (st_lw (fst (aspirate s k wells vols label kw))) = map lw_comp (st_lw s).
Proof.
  rewrite aspirate_st_lw. destruct (nth_error (st_lw s) k) as [L|] eqn:E; [|reflexivity].
  rewrite map_upd, remove_comp. apply upd_same_nth_error. rewrite nth_error_map, E. reflexivity.
Qed.

Lemma aspirate_inv s k wells vols label kw : st_inv s -> st_inv (fst (aspirate s k wells vols label kw)).
Proof.
  intro HI. unfold st_inv. rewrite aspirate_st_lw.
  destruct (nth_error (st_lw s) k) as [L|] eqn:E; [|exact HI].
  apply Forall_upd'; [exact HI|]. apply remove_inv. exact (st_inv_nth s k L HI E).
Qed.

Lemma dispense_inv s k wells vols label comps kw : st_inv s -> comps_ok comps ->
  st_inv (fst (dispense s k wells vols label comps kw)).
Proof.
  intros HI HC. unfold st_inv. rewrite dispense_st_lw.
  destruct (nth_error (st_lw s) k) as [L|] eqn:E; [|exact HI].
  apply Forall_upd'; [exact HI|]. apply add_inv; [exact (st_inv_nth s k L HI E)|exact HC].
Qed.

(** what [get_well_composition] returns is an admissible composition *)
Lemma wca_comp_ok L i : mix_inv L -> comp_ok (wca (lw_comp L) i) /\
  ((i < n_wells (lw_geom L))%nat -> Qsum (map snd (wca (lw_comp L) i)) == well_sum L i).
Proof.
  intros [_ (HL & ND & HB & HS)].
  assert (Hnn : forall ka, In ka (lw_comp L) -> 0 <= nth i (snd ka) 0).
  { intros ka Hka. unfold frac_bounds in HB. rewrite Forall_forall in HB.
    apply (Forall_nth' (fun f => 0 <= f /\ f <= 1) (snd ka) 0 i (HB ka Hka)). lra. }
  assert (Hsum : Qsum (map snd (wca (lw_comp L) i)) == well_sum L i) by (apply wca_sum; exact Hnn).
  split; [|intros _; exact Hsum].
  split; [apply wca_NoDup; exact ND|]. split; [apply wca_bounds; exact HB|].
  rewrite Hsum. destruct (Nat.lt_ge_cases i (n_wells (lw_geom L))) as [Hi|Hge]; [apply HS; exact Hi|].
  (* outside the table every array reads its default 0 *)
  unfold well_sum, col_sum.
  rewrite (Qsum_map_zero (fun ka => nth i (snd ka) 0)); [lra|].
  intros ka Hka. unfold arrays_len in HL. rewrite Forall_forall in HL.
  rewrite nth_overflow by (rewrite (HL ka Hka); exact Hge). reflexivity.
Qed.

Lemma get_well_composition_ok L w c : mix_inv L -> get_well_composition L w = Ok c -> comp_ok c.
Proof.
  intros HI H. unfold get_well_composition in H. destruct (lw_index L w) as [i|]; [|discriminate].
  inversion H; subst. rewrite well_composition_at_wca. apply wca_comp_ok. exact HI.
Qed.

Lemma st_inv_set_wl s w : st_inv s -> st_inv (set_wl s w).
Proof. intro H. exact H. Qed.

Lemma exec_step_inv s ks kd sw dw v ws kw : st_inv s -> st_inv (fst (exec_step s ks kd sw dw v ws kw)).
Proof.
  intro HI. unfold exec_step.
  pose proof (aspirate_inv s ks (A0 sw) (A0 (XQ v)) None kw HI) as H1.
  destruct (aspirate s ks (A0 sw) (A0 (XQ v)) None kw) as [s1 [e|]]; cbn [fst] in *; [exact H1|].
  destruct (nth_error (st_lw s1) ks) as [Ls|] eqn:EL; [|exact H1].
  destruct (get_well_composition Ls sw) as [c|e] eqn:EC; [|exact H1].
  assert (HC : comps_ok (Some [Some c])).
  { constructor; [|constructor]. cbn [ocomp_ok].
    apply (get_well_composition_ok Ls sw c); [exact (st_inv_nth s1 ks Ls H1 EL)|exact EC]. }
  pose proof (dispense_inv s1 kd (A0 dw) (A0 (XQ v)) None (Some [Some c]) kw H1 HC) as H2.
  destruct (dispense s1 kd (A0 dw) (A0 (XQ v)) None (Some [Some c]) kw) as [s2 [e|]]; cbn [fst] in *;
    [exact H2|].
  destruct (tip_action (st_wl s2) ws) as [w e]. exact H2.
Qed.

Lemma exec_inv acts : forall s ks kd ws kw, st_inv s -> st_inv (fst (exec s ks kd acts ws kw)).
Proof.
  induction acts as [|a rest IH]; intros s ks kd ws kw HI; [exact HI|].
  destruct a as [sw dw v|]; cbn [exec].
  - pose proof (exec_step_inv s ks kd sw dw v ws kw HI) as H1.
    destruct (exec_step s ks kd sw dw v ws kw) as [s' [e|]]; cbn [fst] in *; [exact H1|].
    apply IH. exact H1.
  - apply IH. exact HI.
Qed.

Lemma condense_at_inv s k n label : st_inv s -> st_inv (condense_at s k n label).
Proof.
  intro HI. unfold condense_at. destruct (nth_error (st_lw s) k) as [L|] eqn:E; [|exact HI].
  unfold st_inv. cbn [set_lw st_lw]. apply Forall_upd'; [exact HI|].
  apply condense_log_inv. exact (st_inv_nth s k L HI E).
Qed.

Lemma transfer_inv s ks swells kd dwells vols label ws pb kw : st_inv s ->
  st_inv (fst (transfer s ks swells kd dwells vols label ws pb kw)).
Proof.
  intro HI. unfold transfer.
  destruct (w_dev (st_wl s)); try exact HI;
  (destruct (nth_error (st_lw s) ks) as [Ls|]; [|exact HI];
   destruct (nth_error (st_lw s) kd) as [Ld|]; [|exact HI];
   cbv zeta;
   match goal with |- context [if negb ?b then _ else _] => destruct (negb b); [exact HI|] end;
   match goal with |- context [if existsb ?f ?l then _ else _] => destruct (existsb f l); [exact HI|] end;
   match goal with |- context [if ?a || ?b then _ else _] => destruct (a || b); [exact HI|] end;
   destruct (optimize_partition_by (is_trough (lw_geom Ls)) (is_trough (lw_geom Ld)) pb) as [mode|e];
     [|exact HI];
   destruct (comment (st_wl s) label) as [w [e|]]; [exact HI|];
   match goal with |- context [exec ?s0 ?a ?b ?acts ?c ?d] =>
     pose proof (exec_inv acts s0 a b c d HI) as HE; destruct (exec s0 a b acts c d) as [s' [e|]] end;
   cbn [fst] in *; [exact HE|];
   match goal with |- context [if ?b then _ else _] => destruct b end; cbn [fst];
   repeat apply condense_at_inv; exact HE).
Qed.

(* ------------------------------------------------------------------ single-well calls *)

Lemma remove_single L sw v label :
  remove L (A1 [sw]) (A1 [XQ v]) label =
  if Qle_bool 0 v then
    match lw_index L sw with
    | None => (L, Some EReject)
    | Some i => if Qltb (Qred (vol_at L i - v)) (lw_min L) then (L, Some EUnderflow)
                else (log (rem_step L i v) label, None)
    end
  else (L, Some EReject).
Proof.
  unfold remove, prep_wells_vols. cbn [flattenF broadcast length repeat Nat.eqb negb forallb vol_ok].
  rewrite andb_true_r. destruct (Qle_bool 0 v); cbn [negb zip]; [|reflexivity].
  rewrite remove_loop_cons'. destruct (lw_index L sw) as [i|]; [|reflexivity].
  destruct (Qltb (Qred (vol_at L i - v)) (lw_min L)); reflexivity.
Qed.

Lemma add_single L dw v label c :
  add L (A1 [dw]) (A1 [XQ v]) label (Some [Some c]) =
  if Qle_bool 0 v then
    match lw_index L dw with
    | None => (L, Some EReject)
    | Some i => if Qgtb (Qred (vol_at L i + v)) (lw_max L) then (L, Some EOverflow)
                else (log (add_step L i v (Some c)) label, None)
    end
  else (L, Some EReject).
Proof.
  unfold add, prep_wells_vols. cbn [flattenF broadcast length repeat Nat.eqb negb forallb vol_ok].
  rewrite andb_true_r. destruct (Qle_bool 0 v); cbn [negb zip length Nat.eqb map fst snd]; [|reflexivity].
  rewrite add_loop_cons'. destruct (lw_index L dw) as [i|]; [|reflexivity].
  destruct (Qgtb (Qred (vol_at L i + v)) (lw_max L)); reflexivity.
Qed.

Lemma aspirate_single s ks sw v kw s1 :
  aspirate s ks (A0 sw) (A0 (XQ v)) None kw = (s1, None) ->
  exists Ls i, nth_error (st_lw s) ks = Some Ls /\ lw_index Ls sw = Some i /\ 0 <= v /\
               lw_min Ls <= Qred (vol_at Ls i - v) /\
               st_lw s1 = upd (st_lw s) ks (log (rem_step Ls i v) None).
Proof.
  unfold aspirate, wells_vols. destruct (nth_error (st_lw s) ks) as [Ls|] eqn:ELs; [|discriminate].
  cbn [flattenF broadcast length repeat]. cbv beta zeta iota. rewrite remove_single.
  destruct (Qle_bool 0 v) eqn:Ev; [|discriminate].
  destruct (lw_index Ls sw) as [i|] eqn:Ei; [|discriminate].
  destruct (Qltb (Qred (vol_at Ls i - v)) (lw_min Ls)) eqn:El; [discriminate|].
  destruct (comment (st_wl (set_lw s ks (log (rem_step Ls i v) None))) None) as [w [e|]]; [discriminate|].
  destruct (emit_wells true w (log (rem_step Ls i v) None) (zip [sw] [XQ v]) kw) as [w' e'].
  intro H. inversion H; subst. exists Ls, i. split; [reflexivity|]. split; [exact Ei|].
  split; [apply Qle_bool_iff; exact Ev|]. split; [apply Qltb_false'; exact El|reflexivity].
Qed.

Lemma dispense_single s kd dw v c kw s2 :
  dispense s kd (A0 dw) (A0 (XQ v)) None (Some [Some c]) kw = (s2, None) ->
  exists Ld i, nth_error (st_lw s) kd = Some Ld /\ lw_index Ld dw = Some i /\ 0 <= v /\
               st_lw s2 = upd (st_lw s) kd (log (add_step Ld i v (Some c)) None).
Proof.
  unfold dispense, wells_vols. destruct (nth_error (st_lw s) kd) as [Ld|] eqn:ELd; [|discriminate].
  cbn [flattenF broadcast length repeat]. cbv beta zeta iota. rewrite add_single.
  destruct (Qle_bool 0 v) eqn:Ev; [|discriminate].
  destruct (lw_index Ld dw) as [i|] eqn:Ei; [|discriminate].
  destruct (Qgtb (Qred (vol_at Ld i + v)) (lw_max Ld)); [discriminate|].
  destruct (comment (st_wl (set_lw s kd (log (add_step Ld i v (Some c)) None))) None) as [w [e|]];
    [discriminate|].
  destruct (emit_wells false w (log (add_step Ld i v (Some c)) None) (zip [dw] [XQ v]) kw) as [w' e'].
  intro H. inversion H; subst. exists Ld, i. split; [reflexivity|]. split; [exact Ei|].
  split; [apply Qle_bool_iff; exact Ev|reflexivity].
Qed.

Lemma nth_error_upd {A} (l : list A) : forall k x k' y, nth_error l k = Some y ->
  nth_error (upd l k x) k' = if (k' =? k)%nat then Some x else nth_error l k'.
Proof.
  induction l as [|z r IH]; intros k x k' y E; [destruct k; discriminate|].
  destruct k as [|k]; destruct k' as [|k']; cbn [upd nth_error Nat.eqb]; try reflexivity.
  cbn [nth_error] in E. apply (IH k x k' y E).
Qed.

(** a successful pipetting step, seen on the labware list *)
Lemma exec_step_ok s ks kd sw dw v ws kw s' :
  exec_step s ks kd sw dw v ws kw = (s', None) ->
  exists Ls i_s Ld i_d,
    nth_error (st_lw s) ks = Some Ls /\ lw_index Ls sw = Some i_s /\ 0 <= v /\
    lw_min Ls <= Qred (vol_at Ls i_s - v) /\
    nth_error (upd (st_lw s) ks (log (rem_step Ls i_s v) None)) kd = Some Ld /\
    lw_index Ld dw = Some i_d /\
    st_lw s' = upd (upd (st_lw s) ks (log (rem_step Ls i_s v) None)) kd
                   (log (add_step Ld i_d v (Some (wca (lw_comp Ls) i_s))) None).
Proof.
  unfold exec_step.
  destruct (aspirate s ks (A0 sw) (A0 (XQ v)) None kw) as [s1 [e|]] eqn:EA; [discriminate|].
  destruct (aspirate_single s ks sw v kw s1 EA) as (Ls & i_s & ELs & Eis & Hv & Hmin & Es1).
  assert (EL1 : nth_error (st_lw s1) ks = Some (log (rem_step Ls i_s v) None)).
  { rewrite Es1, (nth_error_upd _ _ _ _ _ ELs), Nat.eqb_refl. reflexivity. }
  rewrite EL1. unfold get_well_composition.
  rewrite (lw_index_geom' (log (rem_step Ls i_s v) None) Ls sw eq_refl), Eis.
  rewrite well_composition_at_wca. cbn [log set_hist rem_step set_vols lw_comp].
  destruct (dispense s1 kd (A0 dw) (A0 (XQ v)) None (Some [Some (wca (lw_comp Ls) i_s)]) kw)
    as [s2 [e|]] eqn:ED; [discriminate|].
  destruct (dispense_single s1 kd dw v _ kw s2 ED) as (Ld & i_d & ELd & Eid & _ & Es2).
  destruct (tip_action (st_wl s2) ws) as [w e]. intro H. inversion H; subst.
  exists Ls, i_s, Ld, i_d. rewrite <- Es1. repeat split; try assumption.
Qed.

(* ------------------------------------------------------------------ amounts *)

Lemma Qsum_map_change (f g : nat -> Q) (l : list nat) a : NoDup l -> In a l ->
  (forall j, In j l -> j <> a -> g j == f j) ->
  Qsum (map g l) == Qsum (map f l) + g a - f a.
Proof.
  induction l as [|x r IH]; intros ND Hin H; [destruct Hin|].
  inversion ND as [|x' r' Hnot ND']; subst. cbn [map]. rewrite !Qsum_cons.
  destruct (Nat.eq_dec x a) as [E|N].
  - subst x. rewrite (Qsum_map_ext g f r); [ring|].
    intros j Hj. apply H; [right; exact Hj|]. intro E. subst j. contradiction.
  - destruct Hin as [E|Hin]; [contradiction|].
    rewrite (IH ND' Hin) by (intros j Hj Hne; apply H; [right; exact Hj|exact Hne]).
    rewrite (H x) by (try (left; reflexivity); exact N). ring.
Qed.

Lemma lw_amount_change L L' k i : lw_geom L' = lw_geom L -> (i < n_wells (lw_geom L))%nat ->
  (forall j, j <> i -> vol_at L' j * frac L' k j == vol_at L j * frac L k j) ->
  lw_amount L' k == lw_amount L k + vol_at L' i * frac L' k i - vol_at L i * frac L k i.
Proof.
  intros Eg Hi H. unfold lw_amount. rewrite Eg.
  apply (Qsum_map_change (fun j => vol_at L j * frac L k j) (fun j => vol_at L' j * frac L' k j)).
  - apply seq_NoDup.
  - apply in_seq. lia.
  - intros j _ Hj. apply H. exact Hj.
Qed.

Lemma lw_amount_rem_step L i v k : (i < n_wells (lw_geom L))%nat -> length (lw_vols L) = n_wells (lw_geom L) ->
  lw_amount (rem_step L i v) k == lw_amount L k - v * frac L k i.
Proof.
  intros Hi Hlen. rewrite (lw_amount_change L (rem_step L i v) k i eq_refl Hi).
  - rewrite vol_at_rem_step by lia. rewrite Nat.eqb_refl, Qred_correct.
    change (frac (rem_step L i v) k i) with (frac L k i). ring.
  - intros j Hj. rewrite vol_at_rem_step by lia.
    destruct (Nat.eqb_spec i j) as [E|_]; [congruence|]. reflexivity.
Qed.

(** the amount of a component in the addressed well after one mixing step *)
Lemma add_step_amt L i v c k : mix_inv L -> (i < n_wells (lw_geom L))%nat -> 0 <= v ->
  NoDup (map fst c) ->
  vol_at (add_step L i v (Some c)) i * frac (add_step L i v (Some c)) k i
  == vol_at L i * frac L k i + v * cget k c.
Proof.
  intros [HVB HCI] Hi Hv NC. pose proof (vol_base_vol_at L i HVB) as H0.
  pose proof HCI as (HL & ND & HB & HS). destruct HVB as (_ & Hlen & _).
  rewrite vol_at_add_step by lia. rewrite Nat.eqb_refl, Qred_correct.
  destruct (Qeq_dec (vol_at L i + v) 0) as [Hz|Hnz].
  - unfold frac at 1. rewrite add_step_guard by assumption. fold (frac L k i).
    assert (E0 : vol_at L i == 0) by lra. assert (Ev : v == 0) by lra. rewrite Hz, E0, Ev. ring.
  - rewrite add_step_frac_same by (try assumption; apply (comp_inv_frac L k i HCI)).
    field. exact Hnz.
Qed.

Lemma lw_amount_add_step L i v c k : mix_inv L -> (i < n_wells (lw_geom L))%nat -> 0 <= v ->
  NoDup (map fst c) ->
  lw_amount (add_step L i v (Some c)) k == lw_amount L k + v * cget k c.
Proof.
  intros HI Hi Hv NC. pose proof HI as [(_ & Hlen & _) (HL & ND & _)].
  rewrite (lw_amount_change L (add_step L i v (Some c)) k i (add_step_geom L i v _) Hi).
  - rewrite add_step_amt by assumption. ring.
  - intros j Hj. rewrite vol_at_add_step by lia.
    destruct (Nat.eqb_spec i j) as [E|_]; [congruence|].
    rewrite add_step_frac_other by assumption. reflexivity.
Qed.

Lemma total_amount_upd l : forall k0 L L' k, nth_error l k0 = Some L ->
  total_amount (upd l k0 L') k == total_amount l k - lw_amount L k + lw_amount L' k.
Proof.
  unfold total_amount. induction l as [|x r IH]; intros k0 L L' k E; [destruct k0; discriminate|].
  destruct k0 as [|k0]; cbn [nth_error] in E; cbn [upd map]; rewrite !Qsum_cons.
  - inversion E; subst. ring.
  - rewrite (IH k0 L L' k E). ring.
Qed.

(** C05_conserved, one pipetting step *)
Lemma exec_step_conserved s ks kd sw dw v ws kw s' k : st_inv s ->
  exec_step s ks kd sw dw v ws kw = (s', None) ->
  total_amount (st_lw s') k == total_amount (st_lw s) k.
Proof.
  intros HI H.
  destruct (exec_step_ok _ _ _ _ _ _ _ _ _ H) as (Ls & i_s & Ld & i_d & ELs & Eis & Hv & Hmin & ELd & Eid & Es').
  pose proof (st_inv_nth s ks Ls HI ELs) as HLs.
  assert (His : (i_s < n_wells (lw_geom Ls))%nat) by (apply (lw_index_lt Ls sw); [apply HLs|exact Eis]).
  assert (HLs' : mix_inv (log (rem_step Ls i_s v) None)).
  { apply log_inv. apply rem_step_inv; assumption. }
  assert (HLd : mix_inv Ld).
  { assert (HF : Forall mix_inv (upd (st_lw s) ks (log (rem_step Ls i_s v) None)))
      by (apply Forall_upd'; assumption).
    rewrite Forall_forall in HF. apply HF. eapply nth_error_In. exact ELd. }
  assert (Hid : (i_d < n_wells (lw_geom Ld))%nat) by (apply (lw_index_lt Ld dw); [apply HLd|exact Eid]).
  pose proof (wca_comp_ok Ls i_s HLs) as [(NC & _) _].
  rewrite Es'. rewrite (total_amount_upd _ kd Ld _ k ELd). rewrite (total_amount_upd _ ks Ls _ k ELs).
  change (lw_amount (log (add_step Ld i_d v (Some (wca (lw_comp Ls) i_s))) None) k)
    with (lw_amount (add_step Ld i_d v (Some (wca (lw_comp Ls) i_s))) k).
  change (lw_amount (log (rem_step Ls i_s v) None) k) with (lw_amount (rem_step Ls i_s v) k).
  rewrite lw_amount_add_step by assumption.
  rewrite lw_amount_rem_step by (try assumption; apply HLs).
  rewrite wca_get_pfrac by apply HLs.
  rewrite pfrac_nonneg by apply (comp_inv_frac Ls k i_s (proj2 HLs)). ring.
Qed.

Lemma total_amount_same l l' k : map (fun L => lw_amount L k) l' = map (fun L => lw_amount L k) l ->
  total_amount l' k = total_amount l k.
Proof. intro H. unfold total_amount. rewrite H. reflexivity. Qed.

Lemma condense_at_amount s k0 n label k :
  total_amount (st_lw (condense_at s k0 n label)) k = total_amount (st_lw s) k.
Proof.
  unfold condense_at. destruct (nth_error (st_lw s) k0) as [L|] eqn:E; [|reflexivity].
  apply total_amount_same. cbn [set_lw st_lw]. rewrite map_upd.
  apply upd_same_nth_error. rewrite nth_error_map, E. cbn [option_map].
  unfold condense_log. destruct (n <? 1)%nat; reflexivity.
Qed.

Lemma exec_conserved acts : forall s ks kd ws kw s' k, st_inv s ->
  exec s ks kd acts ws kw = (s', None) -> total_amount (st_lw s') k == total_amount (st_lw s) k.
Proof.
  induction acts as [|a rest IH]; intros s ks kd ws kw s' k HI H.
  - cbn [exec] in H. inversion H; subst. reflexivity.
  - destruct a as [sw dw v|]; cbn [exec] in H.
    + destruct (exec_step s ks kd sw dw v ws kw) as [s1 [e|]] eqn:E1; [discriminate|].
      rewrite (IH s1 ks kd ws kw s' k) by
        (try exact H; pose proof (exec_step_inv s ks kd sw dw v ws kw HI) as HI1; rewrite E1 in HI1; exact HI1).
      apply (exec_step_conserved s ks kd sw dw v ws kw s1 k HI E1).
    + exact (IH (set_wl s (fst (commit (st_wl s)))) ks kd ws kw s' k HI H).
Qed.

(** C05_conserved for [transfer] *)
Lemma transfer_conserved s ks swells kd dwells vols label ws pb kw s' k : st_inv s ->
  transfer s ks swells kd dwells vols label ws pb kw = (s', None) ->
  total_amount (st_lw s') k == total_amount (st_lw s) k.
Proof.
  intros HI. unfold transfer.
  destruct (w_dev (st_wl s)); try discriminate;
  (destruct (nth_error (st_lw s) ks) as [Ls|]; [|discriminate];
   destruct (nth_error (st_lw s) kd) as [Ld|]; [|discriminate];
   cbv zeta;
   match goal with |- context [if negb ?b then _ else _] => destruct (negb b); [discriminate|] end;
   match goal with |- context [if existsb ?f ?l then _ else _] => destruct (existsb f l); [discriminate|] end;
   match goal with |- context [if ?a || ?b then _ else _] => destruct (a || b); [discriminate|] end;
   destruct (optimize_partition_by (is_trough (lw_geom Ls)) (is_trough (lw_geom Ld)) pb) as [mode|e];
     [|discriminate];
   destruct (comment (st_wl s) label) as [w [e|]]; [discriminate|];
   match goal with |- context [exec ?s0 ?a ?b ?acts ?c ?d] =>
     pose proof (fun s1 => exec_conserved acts s0 a b c d s1 k HI) as HE;
     destruct (exec s0 a b acts c d) as [s1 [e|]] end; [discriminate|];
   specialize (HE s1 eq_refl); cbn [set_wl st_lw] in HE;
   match goal with |- context [if ?b then _ else _] => destruct b end;
   intro H; inversion H; subst; rewrite ?condense_at_amount; exact HE).
Qed.

(* ------------------------------------------------------------------ refinement of the ideal-mixing spec *)

Definition abs_list (l : list labware) : istate :=
  fun k i => match nth_error l k with Some L => abs_well L i | None => iw_empty end.

Lemma abs_state_list s : abs_state s = abs_list (st_lw s).
Proof. reflexivity. Qed.

Lemma iw_eq_refl w : iw_eq w w.
Proof. split; [reflexivity|intro k; reflexivity]. Qed.
Lemma iw_eq_sym a b : iw_eq a b -> iw_eq b a.
Proof. intros [H1 H2]. split; [symmetry; exact H1|intro k; symmetry; apply H2]. Qed.
Lemma iw_eq_trans a b c : iw_eq a b -> iw_eq b c -> iw_eq a c.
Proof.
  intros [H1 H2] [H3 H4]. split; [rewrite H1; exact H3|intro k; rewrite H2; apply H4].
Qed.

Lemma iw_add_congr w w' v g g' : iw_eq w w' -> (forall k, g k == g' k) ->
  iw_eq (iw_add w v g) (iw_add w' v g').
Proof.
  intros [H1 H2] Hg. split; cbn [iw_add iw_vol iw_amt]; [rewrite H1; reflexivity|].
  intro k. rewrite H2, Hg. reflexivity.
Qed.

Lemma is_upd_congr (W W' : istate) k0 i0 w w' : (forall k i, iw_eq (W k i) (W' k i)) -> iw_eq w w' ->
  forall k i, iw_eq (is_upd W k0 i0 w k i) (is_upd W' k0 i0 w' k i).
Proof.
  intros HW Hw k i. unfold is_upd. destruct ((k =? k0)%nat && (i =? i0)%nat); [exact Hw|apply HW].
Qed.

Lemma is_upd_same (W : istate) k0 i0 w : iw_eq w (W k0 i0) ->
  forall k i, iw_eq (is_upd W k0 i0 w k i) (W k i).
Proof.
  intros Hw k i. unfold is_upd. destruct (Nat.eqb_spec k k0) as [Ek|Nk]; cbn [andb]; [|apply iw_eq_refl].
  destruct (Nat.eqb_spec i i0) as [Ei|Ni]; [|apply iw_eq_refl]. subst. exact Hw.
Qed.

(** the tracked effect of an accepted single-well removal *)
Lemma abs_upd_rem l ks Ls i_s v lab : nth_error l ks = Some Ls -> (i_s < length (lw_vols Ls))%nat ->
  forall k i, iw_eq (abs_list (upd l ks (log (rem_step Ls i_s v) lab)) k i)
                    (is_upd (abs_list l) ks i_s
                       {| iw_vol := vol_at Ls i_s - v;
                          iw_amt := fun c => (vol_at Ls i_s - v) * frac Ls c i_s |} k i).
Proof.
  intros ELs Hi k i. unfold abs_list, is_upd. rewrite (nth_error_upd l ks _ k Ls ELs).
  destruct (Nat.eqb_spec k ks) as [Ek|Nk]; cbn [andb]; [|apply iw_eq_refl].
  subst k. rewrite ELs.
  change (abs_well (log (rem_step Ls i_s v) lab) i)
    with {| iw_vol := vol_at (rem_step Ls i_s v) i;
            iw_amt := fun c => vol_at (rem_step Ls i_s v) i * frac Ls c i |}.
  rewrite vol_at_rem_step by exact Hi. rewrite (Nat.eqb_sym i i_s).
  destruct (Nat.eqb_spec i_s i) as [Ei|Ni].
  - subst i. split; cbn [iw_vol iw_amt]; [apply Qred_correct|]. intro c. rewrite Qred_correct. reflexivity.
  - apply iw_eq_refl.
Qed.

(** the tracked effect of an accepted single-well addition of a liquid of known composition *)
Lemma abs_upd_add l kd Ld i_d v c lab : nth_error l kd = Some Ld -> mix_inv Ld ->
  (i_d < n_wells (lw_geom Ld))%nat -> 0 <= v -> NoDup (map fst c) ->
  forall k i, iw_eq (abs_list (upd l kd (log (add_step Ld i_d v (Some c)) lab)) k i)
                    (is_upd (abs_list l) kd i_d
                       (iw_add (abs_list l kd i_d) v (fun x => cget x c)) k i).
Proof.
  intros ELd HI Hi Hv NC k i. unfold abs_list, is_upd. rewrite (nth_error_upd l kd _ k Ld ELd).
  destruct (Nat.eqb_spec k kd) as [Ek|Nk]; cbn [andb]; [|apply iw_eq_refl].
  subst k. rewrite ELd. pose proof HI as [(_ & Hlen & _) (HL & ND & _)].
  change (abs_well (log (add_step Ld i_d v (Some c)) lab) i)
    with (abs_well (add_step Ld i_d v (Some c)) i).
  destruct (Nat.eqb_spec i i_d) as [Ei|Ni].
  - subst i. split; cbn [abs_well iw_add iw_vol iw_amt].
    + rewrite vol_at_add_step by lia. rewrite Nat.eqb_refl. apply Qred_correct.
    + intro x. apply add_step_amt; assumption.
  - split; cbn [abs_well iw_vol iw_amt].
    + rewrite vol_at_add_step by lia. destruct (Nat.eqb_spec i_d i) as [E|_]; [congruence|reflexivity].
    + intro x. rewrite vol_at_add_step by lia. destruct (Nat.eqb_spec i_d i) as [E|_]; [congruence|].
      rewrite add_step_frac_other by assumption. reflexivity.
Qed.

(** C05_refines: one successful pipetting step of a positive volume acts on the tracked wells
    exactly as the ideal transfer does; in particular the source well is not empty, so the ideal
    transfer divides by a positive volume only *)
Lemma exec_step_refines s ks kd sw dw v ws kw s' : st_inv s -> 0 < v ->
  exec_step s ks kd sw dw v ws kw = (s', None) ->
  exists Ls i_s Ld i_d,
    nth_error (st_lw s) ks = Some Ls /\ lw_index Ls sw = Some i_s /\
    nth_error (st_lw s) kd = Some Ld /\ lw_index Ld dw = Some i_d /\
    (i_s < n_wells (lw_geom Ls))%nat /\ (i_d < n_wells (lw_geom Ld))%nat /\
    v <= vol_at Ls i_s /\
    length (st_lw s') = length (st_lw s) /\
    forall k i, iw_eq (abs_state s' k i) (is_transfer (abs_state s) ks i_s kd i_d v k i).
Proof.
  intros HI Hv H.
  destruct (exec_step_ok _ _ _ _ _ _ _ _ _ H) as (Ls & i_s & Ld & i_d & ELs & Eis & _ & Hmin & ELd & Eid & Es').
  pose proof (st_inv_nth s ks Ls HI ELs) as HLs.
  assert (His : (i_s < n_wells (lw_geom Ls))%nat) by (apply (lw_index_lt Ls sw); [apply HLs|exact Eis]).
  assert (HLs' : mix_inv (log (rem_step Ls i_s v) None)).
  { apply log_inv. apply rem_step_inv; assumption. }
  assert (HLd : mix_inv Ld).
  { assert (HF : Forall mix_inv (upd (st_lw s) ks (log (rem_step Ls i_s v) None)))
      by (apply Forall_upd'; assumption).
    rewrite Forall_forall in HF. apply HF. eapply nth_error_In. exact ELd. }
  assert (Hid : (i_d < n_wells (lw_geom Ld))%nat) by (apply (lw_index_lt Ld dw); [apply HLd|exact Eid]).
  pose proof (wca_comp_ok Ls i_s HLs) as [(NC & _) _].
  pose proof HLs as [(_ & Hlen & Hmin0 & _) HCI].
  assert (Hle : v <= vol_at Ls i_s) by (rewrite Qred_correct in Hmin; lra).
  assert (HVs : 0 < vol_at Ls i_s) by lra.
  assert (Hv0 : 0 <= v) by lra.
  (* the destination labware before the step *)
  assert (ELd0 : exists Ld0, nth_error (st_lw s) kd = Some Ld0 /\ lw_geom Ld0 = lw_geom Ld).
  { rewrite (nth_error_upd _ ks _ kd Ls ELs) in ELd. destruct (Nat.eqb_spec kd ks) as [E|N].
    - subst kd. inversion ELd; subst. exists Ls. split; [exact ELs|reflexivity].
    - exists Ld. split; [exact ELd|reflexivity]. }
  destruct ELd0 as (Ld0 & ELd0 & Eg0).
  exists Ls, i_s, Ld0, i_d.
  split; [exact ELs|]. split; [exact Eis|]. split; [exact ELd0|].
  split; [rewrite (lw_index_geom' Ld0 Ld dw Eg0); exact Eid|].
  split; [exact His|]. split; [rewrite Eg0; exact Hid|]. split; [exact Hle|].
  split; [rewrite Es', !upd_len; reflexivity|].
  intros k i. rewrite !abs_state_list, Es'.
  eapply iw_eq_trans; [apply abs_upd_add; assumption|].
  unfold is_transfer. cbv zeta.
  assert (H1 : forall k i, iw_eq (abs_list (upd (st_lw s) ks (log (rem_step Ls i_s v) None)) k i)
                 (is_upd (abs_list (st_lw s)) ks i_s (iw_remove (abs_list (st_lw s) ks i_s) v) k i)).
  { intros k' i'. eapply iw_eq_trans; [apply abs_upd_rem; [exact ELs|lia]|].
    apply is_upd_congr; [intros; apply iw_eq_refl|].
    unfold abs_list. rewrite ELs. split; cbn [iw_remove abs_well iw_vol iw_amt]; [reflexivity|].
    intro c. field. lra. }
  apply is_upd_congr; [exact H1|]. apply iw_add_congr; [apply H1|].
  intro c. unfold abs_list. rewrite ELs. unfold iw_frac. cbn [abs_well iw_vol iw_amt].
  rewrite wca_get_pfrac by apply HLs.
  rewrite pfrac_nonneg by apply (comp_inv_frac Ls c i_s HCI). field. lra.
Qed.

(** a step of volume zero changes nothing in the ideal view *)
Lemma exec_step_refines_zero s ks kd sw dw v ws kw s' : st_inv s -> v == 0 ->
  exec_step s ks kd sw dw v ws kw = (s', None) ->
  forall k i, iw_eq (abs_state s' k i) (abs_state s k i).
Proof.
  intros HI Hv H.
  destruct (exec_step_ok _ _ _ _ _ _ _ _ _ H) as (Ls & i_s & Ld & i_d & ELs & Eis & Hv0 & Hmin & ELd & Eid & Es').
  pose proof (st_inv_nth s ks Ls HI ELs) as HLs.
  assert (His : (i_s < n_wells (lw_geom Ls))%nat) by (apply (lw_index_lt Ls sw); [apply HLs|exact Eis]).
  assert (HLs' : mix_inv (log (rem_step Ls i_s v) None)).
  { apply log_inv. apply rem_step_inv; assumption. }
  assert (HLd : mix_inv Ld).
  { assert (HF : Forall mix_inv (upd (st_lw s) ks (log (rem_step Ls i_s v) None)))
      by (apply Forall_upd'; assumption).
    rewrite Forall_forall in HF. apply HF. eapply nth_error_In. exact ELd. }
  assert (Hid : (i_d < n_wells (lw_geom Ld))%nat) by (apply (lw_index_lt Ld dw); [apply HLd|exact Eid]).
  pose proof (wca_comp_ok Ls i_s HLs) as [(NC & _) _].
  pose proof HLs as [(_ & Hlen & _) _].
  assert (H1 : forall k i, iw_eq (abs_list (upd (st_lw s) ks (log (rem_step Ls i_s v) None)) k i)
                              (abs_list (st_lw s) k i)).
  { intros k i. eapply iw_eq_trans; [apply abs_upd_rem; [exact ELs|lia]|].
    apply is_upd_same. unfold abs_list. rewrite ELs. split; cbn [abs_well iw_vol iw_amt].
    - lra.
    - intro c. assert (E : vol_at Ls i_s - v == vol_at Ls i_s) by lra. rewrite E. reflexivity. }
  intros k i. rewrite !abs_state_list, Es'.
  eapply iw_eq_trans; [apply abs_upd_add; assumption|].
  eapply iw_eq_trans; [|apply H1]. apply is_upd_same.
  split; cbn [iw_add iw_vol iw_amt]; [lra|]. intro c.
  assert (E : v * cget c (wca (lw_comp Ls) i_s) == 0) by (rewrite Hv; ring). rewrite E. ring.
Qed.

(* ------------------------------------------------------------------ distribute *)

Lemma distribute_inv s ks kd dwells a : st_inv s -> st_inv (fst (distribute s ks kd dwells a)).
Proof.
  intro HI. unfold distribute.
  destruct (nth_error (st_lw s) ks) as [Ls|] eqn:ELs; [|exact HI].
  destruct (nth_error (st_lw s) kd) as [Ld|] eqn:ELd; [|exact HI].
  pose proof (st_inv_nth s ks Ls HI ELs) as HLs.
  destruct (g_vrows (lw_geom Ls)) as [vr|]; [|exact HI].
  destruct (rvol_x (d_volume a)) as [xv|]; [|exact HI].
  match goal with |- st_inv (fst (match xv with XQ _ => ?B | _ => _ end)) =>
    assert (HB : st_inv (fst B)); [|destruct xv; [exact HB|exact HI|exact HB|exact HB]] end.
  match goal with |- context [if ?b then (s, Some EInvalidOp) else _] => destruct b; [exact HI|] end.
  cbv zeta.
  match goal with |- context [if existsb ?f ?l then (s, Some EReject) else _] =>
    destruct (existsb f l); [exact HI|] end.
  destruct (positions_of (w_dev (st_wl s)) (lw_geom Ld) (flattenF dwells)) as [ps|e]; [|exact HI].
  destruct (sort_Z (map Z.of_nat ps)) as [|p0 sorted']; [exact HI|].
  match goal with |- context [if negb ?b then _ else _] => destruct (negb b); [exact HI|] end.
  match goal with |- context [remove Ls ?w ?x ?lab] =>
    pose proof (remove_inv Ls w x lab HLs) as HR;
    destruct (remove Ls w x lab) as [Ls' [e|]]; cbn [fst] in HR end.
  { cbn [fst set_lw]. unfold st_inv. cbn [st_lw]. apply Forall_upd'; [exact HI|exact HR]. }
  assert (HI1 : st_inv (set_lw s ks Ls'))
    by (unfold st_inv; cbn [set_lw st_lw]; apply Forall_upd'; [exact HI|exact HR]).
  match goal with |- context [get_well_composition Ls' ?w] =>
    destruct (get_well_composition Ls' w) as [c|e] eqn:EC; [|exact HI1] end.
  pose proof (get_well_composition_ok Ls' _ c HR EC) as HC.
  destruct (nth_error (st_lw (set_lw s ks Ls')) kd) as [Ld1|] eqn:ELd1; [|exact HI1].
  pose proof (st_inv_nth _ kd Ld1 HI1 ELd1) as HLd1.
  match goal with |- context [add Ld1 ?w ?x ?lab ?cs] =>
    assert (HCS : comps_ok cs)
      by (cbn [comps_ok]; apply Forall_forall; intros oc Hoc; apply repeat_spec in Hoc; subst oc; exact HC);
    pose proof (add_inv Ld1 w x lab cs HLd1 HCS) as HA;
    destruct (add Ld1 w x lab cs) as [Ld' [e|]]; cbn [fst] in HA end.
  { cbn [fst set_lw]. unfold st_inv. cbn [st_lw]. apply Forall_upd'; [exact HI1|exact HA]. }
  assert (HI2 : st_inv (set_lw (set_lw s ks Ls') kd Ld'))
    by (unfold st_inv; cbn [set_lw st_lw]; apply Forall_upd'; [exact HI1|exact HA]).
  destruct (ks =? kd)%nat;
  match goal with |- context [comment (st_wl ?s2) ?lab] =>
    assert (HI3 : st_inv s2) by (try apply condense_at_inv; exact HI2);
    destruct (comment (st_wl s2) lab) as [w1 [e|]]; [exact HI3|] end;
  match goal with |- context [reagent_distribution ?w ?args] =>
    destruct (reagent_distribution w args) as [w2 e2] end; exact HI3.
Qed.


(** an accepted [add_loop] of liquids of known composition adds exactly their component amounts *)
Lemma add_loop_amount items k : forall L L', mix_inv L -> Forall aitem_ok items ->
  Forall (fun it => snd it <> None) items ->
  add_loop L items = (L', None) -> lw_amount L' k == lw_amount L k + items_amt k items.
Proof.
  induction items as [|[[w x] oc] rest IH]; intros L L' HI HF HS H.
  - cbn [add_loop] in H. inversion H; subst. cbn [items_amt]. ring.
  - inversion HF as [|it r [Hv Hoc] Hrest]; subst. cbn [fst snd] in Hv, Hoc.
    inversion HS as [|it r Hsome Hsrest]; subst. cbn [snd] in Hsome.
    rewrite add_loop_cons' in H. destruct (lw_index L w) as [i|] eqn:Ei; [|discriminate].
    destruct x as [v| | |]; try discriminate.
    destruct (Qgtb (Qred (vol_at L i + v)) (lw_max L)); [discriminate|].
    destruct oc as [c|]; [|congruence].
    assert (Hi : (i < n_wells (lw_geom L))%nat) by (apply (lw_index_lt L w i); [apply HI|exact Ei]).
    pose proof (vol_ok_XQ' v Hv) as Hv0.
    rewrite (IH (add_step L i v (Some c)) L') by (try assumption; apply add_step_inv; assumption).
    rewrite lw_amount_add_step by (try assumption; apply Hoc).
    cbn [items_amt]. ring.
Qed.

Lemma items_amt_const k q c (wv : list (string * xnum)) : Forall (fun p => snd p = XQ q) wv ->
  items_amt k (map (fun p => (fst (fst p), snd (fst p), snd p)) (zip wv (repeat (Some c) (length wv))))
  == inject_Z (Z.of_nat (length wv)) * (q * cget k c).
Proof.
  induction 1 as [|[w x] r Hx Hr IH].
  - cbn [length repeat zip map items_amt]. ring.
  - cbn [snd] in Hx. subst x. cbn [length repeat zip map items_amt fst snd]. rewrite IH.
    rewrite Nat2Z.inj_succ. unfold Z.succ. rewrite inject_Z_plus. ring.
Qed.

Lemma remove_A0_ok L w x lab L' : remove L (A0 w) (A0 x) lab = (L', None) ->
  exists v i, x = XQ v /\ 0 <= v /\ lw_index L w = Some i /\ lw_min L <= Qred (vol_at L i - v) /\
              L' = log (rem_step L i v) lab.
Proof.
  destruct x as [v| | |].
  - change (remove L (A0 w) (A0 (XQ v)) lab) with (remove L (A1 [w]) (A1 [XQ v]) lab).
    rewrite remove_single. destruct (Qle_bool 0 v) eqn:Ev; [|discriminate].
    destruct (lw_index L w) as [i|] eqn:Ei; [|discriminate].
    destruct (Qltb (Qred (vol_at L i - v)) (lw_min L)) eqn:El; [discriminate|].
    intro H. inversion H; subst. exists v, i. split; [reflexivity|].
    split; [apply Qle_bool_iff; exact Ev|]. split; [reflexivity|].
    split; [apply Qltb_false'; exact El|reflexivity].
  - unfold remove, prep_wells_vols. cbn. discriminate.
  - unfold remove, prep_wells_vols. cbn. destruct (lw_index L w); discriminate.
  - unfold remove, prep_wells_vols. cbn. discriminate.
Qed.

Lemma add_some_ok L wells vols label cs L' : add L wells vols label (Some cs) = (L', None) ->
  exists wv L1, prep_wells_vols wells vols = Ok wv /\ length cs = length wv /\
    add_loop L (map (fun p => (fst (fst p), snd (fst p), snd p)) (zip wv cs)) = (L1, None) /\
    L' = log L1 label.
Proof.
  unfold add. destruct (prep_wells_vols wells vols) as [wv|e]; [|discriminate].
  destruct (length cs =? length wv)%nat eqn:El; cbn [negb]; [|discriminate].
  destruct (add_loop L (map (fun p => (fst (fst p), snd (fst p), snd p)) (zip wv cs))) as [L1 [e|]] eqn:EL;
    [discriminate|].
  intro H. inversion H; subst. exists wv, L1. split; [reflexivity|].
  split; [apply Nat.eqb_eq; exact El|]. split; [exact EL|reflexivity].
Qed.

Lemma prep_A1_A0 dw q wv : prep_wells_vols (A1 dw) (A0 (XQ q)) = Ok wv ->
  Forall (fun p => snd p = XQ q) wv.
Proof.
  unfold prep_wells_vols. cbn [flattenF broadcast].
  destruct (negb (length (repeat (XQ q) (length dw)) =? length dw)%nat); [discriminate|].
  destruct (negb (forallb vol_ok (repeat (XQ q) (length dw)))); [discriminate|].
  intro H. inversion H; subst. apply (Forall_zip_r (fun x => x = XQ q)).
  apply Forall_forall. intros x Hx. apply repeat_spec in Hx. exact Hx.
Qed.

Lemma dist_items_ok (wv : list (string * xnum)) c m :
  Forall (fun p => vol_ok (snd p) = true) wv -> comp_ok c ->
  Forall aitem_ok (map (fun p => (fst (fst p), snd (fst p), snd p)) (zip wv (repeat (Some c) m))) /\
  Forall (fun it => snd it <> None)
         (map (fun p => (fst (fst p), snd (fst p), snd p)) (zip wv (repeat (Some c) m))).
Proof.
  intros Hwv HC.
  assert (HR : Forall (fun oc : option composition => oc = Some c) (repeat (Some c) m)).
  { apply Forall_forall. intros oc Hoc. apply repeat_spec in Hoc. exact Hoc. }
  pose proof (Forall_zip _ _ wv (repeat (Some c) m) Hwv HR) as HZ.
  split; apply Forall_map; (eapply Forall_impl; [|exact HZ]); intros [[w x] oc] [H1 H2];
    cbn [fst snd] in *; subst oc.
  - split; [exact H1|exact HC].
  - discriminate.
Qed.

(** C05_conserved for [distribute] *)
Lemma distribute_conserved s ks kd dwells a s' k : st_inv s ->
  distribute s ks kd dwells a = (s', None) ->
  total_amount (st_lw s') k == total_amount (st_lw s) k.
Proof.
  intro HI. unfold distribute.
  destruct (nth_error (st_lw s) ks) as [Ls|] eqn:ELs; [|discriminate].
  destruct (nth_error (st_lw s) kd) as [Ld|] eqn:ELd; [|discriminate].
  pose proof (st_inv_nth s ks Ls HI ELs) as HLs.
  destruct (g_vrows (lw_geom Ls)) as [vr|]; [|discriminate].
  destruct (rvol_x (d_volume a)) as [xv|]; [|discriminate].
  match goal with |- match xv with XQ _ => ?B | _ => _ end = _ -> _ =>
    assert (HB : B = (s', None) -> total_amount (st_lw s') k == total_amount (st_lw s) k);
      [|destruct xv; [exact HB|discriminate|exact HB|exact HB]] end.
  match goal with |- context [if ?b then (s, Some EInvalidOp) else _] => destruct b; [discriminate|] end.
  cbv zeta.
  match goal with |- context [if existsb ?f ?l then (s, Some EReject) else _] =>
    destruct (existsb f l); [discriminate|] end.
  destruct (positions_of (w_dev (st_wl s)) (lw_geom Ld) (flattenF dwells)) as [ps|e]; [|discriminate].
  destruct (sort_Z (map Z.of_nat ps)) as [|p0 sorted']; [discriminate|].
  match goal with |- context [if negb ?b then _ else _] => destruct (negb b); [discriminate|] end.
  match goal with |- context [remove Ls ?w ?x ?lab] =>
    destruct (remove Ls w x lab) as [Ls' [e|]] eqn:ER end; [discriminate|].
  destruct (remove_A0_ok _ _ _ _ _ ER) as (V & i_s & EV & HV & Eis & Hmin & ELs').
  assert (His : (i_s < n_wells (lw_geom Ls))%nat)
    by (apply (lw_index_lt Ls (well_id 0 (Z.to_nat (d_source_column a))) i_s); [apply HLs|exact Eis]).
  assert (HLs' : mix_inv Ls') by (rewrite ELs'; apply log_inv; apply rem_step_inv; assumption).
  assert (HI1 : st_inv (set_lw s ks Ls'))
    by (unfold st_inv; cbn [set_lw st_lw]; apply Forall_upd'; [exact HI|exact HLs']).
  unfold get_well_composition. rewrite ELs' at 1.
  rewrite (lw_index_geom' (log (rem_step Ls i_s V) (d_label a)) Ls _ eq_refl), Eis.
  rewrite well_composition_at_wca.
  assert (EC : lw_comp Ls' = lw_comp Ls) by (rewrite ELs'; reflexivity). rewrite EC.
  destruct (nth_error (st_lw (set_lw s ks Ls')) kd) as [Ld1|] eqn:ELd1; [|discriminate].
  pose proof (st_inv_nth _ kd Ld1 HI1 ELd1) as HLd1.
  pose proof (wca_comp_ok Ls i_s HLs) as [HC _].
  match goal with |- context [add Ld1 ?w ?x ?lab ?cs] =>
    destruct (add Ld1 w x lab cs) as [Ld' [e|]] eqn:EA end; [discriminate|].
  destruct (add_some_ok _ _ _ _ _ _ EA) as (wv & L1 & EP & Elen & EAL & ELd').
  rewrite repeat_length in Elen.
  (* the volume per destination is a number *)
  destruct xv as [q| | |]; unfold xmul_nat in EV; try (destruct (length ps =? 0)%nat; discriminate).
  assert (EV' : Qred (q * inject_Z (Z.of_nat (length ps))) = V) by congruence.
  pose proof (prep_A1_A0 _ _ _ EP) as Hwv.
  assert (Hamt : lw_amount Ld' k == lw_amount Ld1 k
                   + inject_Z (Z.of_nat (length ps)) * (q * cget k (wca (lw_comp Ls) i_s))).
  { rewrite ELd'. change (lw_amount (log L1 (d_label a)) k) with (lw_amount L1 k).
    rewrite Elen in EAL |- *.
    destruct (dist_items_ok wv (wca (lw_comp Ls) i_s) (length wv) (prep_wells_vols_vol_ok _ _ _ EP) HC)
      as [HF1 HF2].
    rewrite (add_loop_amount _ k Ld1 L1 HLd1 HF1 HF2 EAL).
    apply Qplus_comp; [reflexivity|]. apply items_amt_const. exact Hwv. }
  intro H.
  assert (Es' : total_amount (st_lw s') k
                == total_amount (upd (upd (st_lw s) ks Ls') kd Ld') k).
  { destruct (ks =? kd)%nat;
    match type of H with context [comment (st_wl ?s2) ?lab] =>
      destruct (comment (st_wl s2) lab) as [w1 [e|]]; [discriminate|] end;
    match type of H with context [reagent_distribution ?w ?args] =>
      destruct (reagent_distribution w args) as [w2 e2] end;
    inversion H; subst; cbn [set_wl st_lw]; rewrite ?condense_at_amount; reflexivity. }
  rewrite Es'. cbn [set_lw st_lw] in ELd1.
  rewrite (total_amount_upd _ kd Ld1 Ld' k ELd1), (total_amount_upd _ ks Ls Ls' k ELs), Hamt.
  rewrite ELs'. change (lw_amount (log (rem_step Ls i_s V) (d_label a)) k) with (lw_amount (rem_step Ls i_s V) k).
  rewrite lw_amount_rem_step by (try assumption; apply HLs).
  rewrite wca_get_pfrac by apply HLs.
  rewrite pfrac_nonneg by apply (comp_inv_frac Ls k i_s (proj2 HLs)).
  rewrite <- EV', Qred_correct. ring.
Qed.

(* ------------------------------------------------------------------ the initial composition *)

Lemma initial_composition_cons name multi n names w wr v vr i acc :
  initial_composition name multi n names (w :: wr) (v :: vr) i acc =
  if Qeq_bool v 0 then
    match assoc_get w names with
    | Some (Some _) => Err EValue
    | _ => initial_composition name multi n names wr vr (S i) acc
    end
  else initial_composition name multi n names wr vr (S i)
         (set_frac n acc (init_name name multi names w) i 1).
Proof.
  cbn [initial_composition]. unfold init_name, set_frac.
  destruct (assoc_get w names) as [[g|]|]; reflexivity.
Qed.

(** the loop writes a 1 for every non-empty well, under the name of that well, and nothing else *)
Lemma initial_composition_spec name multi n names : forall ws vols i acc comp,
  length vols = length ws -> (i + length ws <= n)%nat ->
  arrays_len n acc -> NoDup (map fst acc) -> frac_bounds acc ->
  initial_composition name multi n names ws vols i acc = Ok comp ->
  arrays_len n comp /\ NoDup (map fst comp) /\ frac_bounds comp /\
  (forall k j, (j < i \/ i + length ws <= j)%nat -> frac_at comp k j = frac_at acc k j) /\
  (forall k m, (m < length ws)%nat ->
     frac_at comp k (i + m) =
     if Qeq_bool (nth m vols 0) 0 then frac_at acc k (i + m)
     else if String.eqb (init_name name multi names (nth m ws EmptyString)) k then 1
          else frac_at acc k (i + m)).
Proof.
  induction ws as [|w wr IH]; intros vols i acc comp Hlen Hn HL ND HB H.
  - assert (E : comp = acc) by (destruct vols; cbn [initial_composition] in H; inversion H; reflexivity).
    subst comp. split; [exact HL|]. split; [exact ND|]. split; [exact HB|]. split.
    + intros k j _. reflexivity.
    + intros k m Hm. cbn [length] in Hm. lia.
  - destruct vols as [|v vr]; [cbn [length] in Hlen; discriminate|].
    cbn [length] in Hlen, Hn. rewrite initial_composition_cons in H.
    destruct (Qeq_bool v 0) eqn:Ev.
    + assert (H' : initial_composition name multi n names wr vr (S i) acc = Ok comp)
        by (destruct (assoc_get w names) as [[g|]|]; [discriminate|exact H|exact H]).
      destruct (IH vr (S i) acc comp) as (R1 & R2 & R3 & R4 & R5); try assumption; try lia.
      split; [exact R1|]. split; [exact R2|]. split; [exact R3|]. split.
      * intros k j Hj. apply R4. cbn [length] in Hj. lia.
      * intros k m Hm. destruct m as [|m].
        -- cbn [nth]. rewrite Ev. apply R4. lia.
        -- cbn [nth length] in *. replace (i + S m)%nat with (S i + m)%nat by lia. apply R5. lia.
    + destruct (IH vr (S i) (set_frac n acc (init_name name multi names w) i 1) comp)
        as (R1 & R2 & R3 & R4 & R5); try assumption; try lia.
      * apply set_frac_len. exact HL.
      * apply set_frac_NoDup. exact ND.
      * apply set_frac_bounds; [exact HB|lra].
      * split; [exact R1|]. split; [exact R2|]. split; [exact R3|]. split.
        -- intros k j Hj. cbn [length] in Hj. rewrite R4 by lia.
           rewrite set_frac_frac by (try assumption; lia).
           destruct (Nat.eqb_spec i j) as [E|_]; [lia|]. rewrite andb_false_r. reflexivity.
        -- intros k m Hm. destruct m as [|m].
           ++ cbn [nth]. rewrite Ev. rewrite Nat.add_0_r. rewrite R4 by lia.
              rewrite set_frac_frac by (try assumption; lia). rewrite Nat.eqb_refl, andb_true_r.
              reflexivity.
           ++ cbn [nth length] in *. replace (i + S m)%nat with (S i + m)%nat by lia.
              rewrite R5 by lia. rewrite set_frac_frac by (try assumption; lia).
              destruct (Nat.eqb_spec i (S i + m)) as [E|_]; [lia|]. rewrite andb_false_r. reflexivity.
Qed.

(** started on the empty table *)
Lemma initial_composition_top name multi n names ws vols comp :
  length vols = n -> length ws = n ->
  initial_composition name multi n names ws vols 0 [] = Ok comp ->
  arrays_len n comp /\ NoDup (map fst comp) /\ frac_bounds comp /\
  forall k j, (j < n)%nat ->
    frac_at comp k j =
    if Qeq_bool (nth j vols 0) 0 then 0
    else if String.eqb (init_name name multi names (nth j ws EmptyString)) k then 1 else 0.
Proof.
  intros Hv Hw H.
  assert (H1 : length vols = length ws) by lia.
  assert (H2 : (0 + length ws <= n)%nat) by lia.
  destruct (initial_composition_spec name multi n names ws vols 0%nat [] comp H1 H2
              (Forall_nil _) (NoDup_nil _) (Forall_nil _) H) as (R1 & R2 & R3 & _ & R5).
  split; [exact R1|]. split; [exact R2|]. split; [exact R3|].
  intros k j Hj. rewrite <- (Nat.add_0_l j) at 1. rewrite R5 by lia. reflexivity.
Qed.

(** column sums of a table whose columns are indicator columns *)
Lemma indicator_col_sum comp j name0 : NoDup (map fst comp) ->
  (forall k, frac_at comp k j = if String.eqb name0 k then 1 else 0) -> col_sum comp j == 1.
Proof.
  intros ND H. rewrite <- (col_sum_keys comp j (map fst comp) ND ND (fun k Hk => Hk)).
  rewrite (Qsum_map_ext (fun k => frac_at comp k j) (fun k => if String.eqb name0 k then 1 else (fun _ => 0) k))
    by (intros k _; rewrite H; reflexivity).
  rewrite Qsum_map_point.
  - rewrite Qsum_map_zero by (intros; reflexivity). ring.
  - exact ND.
  - (* the name is a key: its entry is 1, not the default 0 *)
    destruct (in_dec string_dec name0 (map fst comp)) as [Hin|Hnin]; [exact Hin|].
    pose proof (H name0) as H1. rewrite String.eqb_refl, frac_at_notin in H1 by exact Hnin. discriminate.
Qed.

Lemma zero_col_sum comp j : (forall k, frac_at comp k j = 0) -> NoDup (map fst comp) -> col_sum comp j == 0.
Proof.
  intros H ND. rewrite <- (col_sum_keys comp j (map fst comp) ND ND (fun k Hk => Hk)).
  apply Qsum_map_zero. intros k _. rewrite H. reflexivity.
Qed.

(* ------------------------------------------------------------------ the constructors *)

Definition real_ids (rows cols : nat) : list string :=
  concat (map (fun r => map (fun c => well_id r c) (seq 0 cols)) (seq 0 rows)).

Lemma rows_concat_length {A} (f : nat -> nat -> A) cols (l : list nat) :
  length (concat (map (fun r => map (f r) (seq 0 cols)) l)) = (length l * cols)%nat.
Proof.
  induction l as [|r l IH]; [reflexivity|].
  cbn [map concat length]. rewrite app_length, map_length, seq_length, IH. lia.
Qed.

Lemma rows_concat_nth {A} (f : nat -> nat -> A) d cols : forall rows s r c,
  (r < rows)%nat -> (c < cols)%nat ->
  nth (r * cols + c) (concat (map (fun r => map (f r) (seq 0 cols)) (seq s rows))) d = f (s + r)%nat c.
Proof.
  induction rows as [|rows IH]; intros s r c Hr Hc; [lia|].
  cbn [seq map concat]. destruct r as [|r].
  - rewrite app_nth1 by (rewrite map_length, seq_length; lia).
    cbn [Nat.mul Nat.add]. rewrite (nth_map_seq (f s) d cols 0 c Hc). rewrite Nat.add_0_r. reflexivity.
  - rewrite app_nth2 by (rewrite map_length, seq_length; lia).
    rewrite map_length, seq_length.
    replace (S r * cols + c - cols)%nat with (r * cols + c)%nat by lia.
    rewrite IH by lia. f_equal. lia.
Qed.

Lemma real_ids_length rows cols : length (real_ids rows cols) = (rows * cols)%nat.
Proof. unfold real_ids. rewrite rows_concat_length, seq_length. reflexivity. Qed.

Lemma real_ids_nth rows cols r c : (r < rows)%nat -> (c < cols)%nat ->
  nth (r * cols + c) (real_ids rows cols) EmptyString = well_id r c.
Proof. intros Hr Hc. unfold real_ids. rewrite rows_concat_nth by assumption. reflexivity. Qed.

Lemma all_finite_map xs : forall vs, all_finite xs = Some vs -> xs = map XQ vs.
Proof.
  induction xs as [|x r IH]; intros vs H; cbn [all_finite] in H.
  - inversion H. reflexivity.
  - destruct x as [v| | |]; cbn [xfinite] in H; try discriminate.
    destruct (all_finite r) as [vs'|]; [|discriminate]. inversion H; subst.
    cbn [map]. rewrite (IH vs' eq_refl). reflexivity.
Qed.

Lemma size_ok_pos p n : size_ok p = Some n -> (1 <= n)%nat.
Proof.
  unfold size_ok. destruct p as [z|]; [|discriminate].
  destruct (1 <=? z)%Z eqn:E; [|discriminate]. intro H. inversion H; subst.
  apply Z.leb_le in E. lia.
Qed.

Lemma existsb_false_Forall {A} (p : A -> bool) l : existsb p l = false -> Forall (fun x => p x = false) l.
Proof.
  induction l as [|x r IH]; intro H; [constructor|]. cbn [existsb] in H.
  apply orb_false_iff in H. destruct H as [H1 H2]. constructor; [exact H1|apply IH; exact H2].
Qed.

(** what an accepted [mk_labware] call has established *)
Lemma mk_labware_ok a L : mk_labware a = Ok L ->
  exists rows cols vrows vs,
    lw_geom L = {| g_rows := rows; g_cols := cols; g_vrows := vrows |} /\
    wf_geom (lw_geom L) /\ 0 <= lw_min L /\ lw_name L = a_name a /\
    size_ok (a_rows a) = Some rows /\ size_ok (a_cols a) = Some cols /\
    length vs = (rows * cols)%nat /\ Forall (fun v => 0 <= v) vs /\
    lw_vols L = map Qred vs /\
    (forall xs, a_init a = Some (A1 xs) -> xs = map XQ vs) /\
    initial_composition (a_name a) (1 <? rows * cols)%nat (rows * cols) (a_names a)
      (real_ids rows cols) (map Qred vs) 0 [] = Ok (lw_comp L).
Proof.
  unfold mk_labware.
  destruct (size_ok (a_rows a)) as [rows|] eqn:ER; [|discriminate].
  destruct (size_ok (a_cols a)) as [cols|] eqn:EC; [|discriminate].
  destruct (26 <? rows)%nat eqn:E26; [discriminate|].
  destruct (xfinite (a_min a)) as [mn|]; [|discriminate].
  destruct (xfinite (a_max a)) as [mx|]; [|discriminate].
  destruct (Qltb mn 0) eqn:Emn; [discriminate|].
  destruct (Qle_bool mx mn); [discriminate|]. cbv zeta.
  match goal with |- match ?vr with Ok _ => _ | Err _ => _ end = _ -> _ =>
    destruct vr as [vrows|e] eqn:EVR; [|discriminate] end.
  match goal with |- match ?f with Some _ => _ | None => _ end = _ -> _ =>
    destruct f as [xs|] eqn:EF; [|discriminate] end.
  destruct (all_finite xs) as [vs|] eqn:EAF; [|discriminate].
  destruct (existsb (fun v => Qltb v 0) vs) eqn:Eneg; [discriminate|].
  destruct (existsb (fun v => Qgtb v mx) vs); [discriminate|].
  match goal with |- (if ?b then _ else _) = _ -> _ => destruct b; [discriminate|] end.
  fold (real_ids rows cols).
  destruct (initial_composition (a_name a) (1 <? rows * cols)%nat (rows * cols) (a_names a)
              (real_ids rows cols) (map Qred vs) 0 []) as [comp|e] eqn:EIC; [|discriminate].
  intro H. inversion H; subst L. clear H.
  cbn [lw_geom lw_min lw_name lw_vols lw_comp].
  pose proof (all_finite_map xs vs EAF) as Exs.
  assert (Hlen : length vs = (rows * cols)%nat).
  { assert (Hx : length xs = (rows * cols)%nat).
    { destruct (a_init a) as [[x|xs0|rs]|].
      - inversion EF. apply repeat_length.
      - destruct (length xs0 =? rows * cols)%nat eqn:El; [|discriminate]. inversion EF; subst.
        apply Nat.eqb_eq. exact El.
      - destruct (length (concat rs) =? rows * cols)%nat eqn:El; [|discriminate]. inversion EF; subst.
        apply Nat.eqb_eq. exact El.
      - inversion EF. apply repeat_length. }
    rewrite Exs, map_length in Hx. exact Hx. }
  exists rows, cols, vrows, vs.
  split; [reflexivity|]. split.
  { (* wf_geom *)
    unfold wf_geom. cbn [g_rows g_cols g_vrows].
    pose proof (size_ok_pos _ _ ER) as Hr. pose proof (size_ok_pos _ _ EC) as Hc.
    apply Nat.ltb_ge in E26. split; [lia|]. split; [exact Hc|].
    destruct (a_vrows a) as [p|]; [|inversion EVR; exact I].
    destruct (rows =? 1)%nat eqn:E1; cbn [negb] in EVR; [|discriminate].
    destruct (size_ok p) as [v|] eqn:EP; [|discriminate].
    destruct (26 <? v)%nat eqn:Ev; [discriminate|]. inversion EVR; subst.
    apply Nat.eqb_eq in E1. apply Nat.ltb_ge in Ev. pose proof (size_ok_pos _ _ EP). lia. }
  split; [apply Qltb_false'; exact Emn|]. split; [reflexivity|].
  split; [reflexivity|]. split; [reflexivity|]. split; [exact Hlen|].
  split.
  { apply existsb_false_Forall in Eneg. eapply Forall_impl; [|exact Eneg].
    intros v Hv. cbv beta in Hv. apply Qltb_false'. exact Hv. }
  split; [reflexivity|]. split; [|exact EIC].
  intros xs0 Hinit. rewrite Hinit in EF.
  destruct (length xs0 =? rows * cols)%nat; [|discriminate]. congruence.
Qed.

Lemma nth_map_Qred vs j : nth j (map Qred vs) 0 == nth j vs 0.
Proof.
  revert j. induction vs as [|v r IH]; intro j; [destruct j; reflexivity|].
  destruct j as [|j]; cbn [map nth]; [apply Qred_correct|apply IH].
Qed.

(** C05_invariant / C05_names: the initial state.  Every non-empty well consists 100 % of one named
    component, empty wells have no composition. *)
Lemma mk_labware_init a L : mk_labware a = Ok L ->
  mix_inv L /\
  (forall r c, (r < g_rows (lw_geom L))%nat -> (c < g_cols (lw_geom L))%nat ->
     let i := (r * g_cols (lw_geom L) + c)%nat in
     (vol_at L i == 0 -> forall k, frac L k i = 0) /\
     (~ vol_at L i == 0 ->
      forall k, frac L k i =
        if String.eqb (init_name (a_name a) (1 <? g_rows (lw_geom L) * g_cols (lw_geom L))%nat (a_names a) (well_id r c)) k
        then 1 else 0)) /\
  (forall i, (i < n_wells (lw_geom L))%nat ->
     (vol_at L i == 0 -> well_sum L i == 0) /\ (~ vol_at L i == 0 -> fully_known L i)).
Proof.
  intro H. destruct (mk_labware_ok a L H)
    as (rows & cols & vrows & vs & Eg & Hwf & Hmin & _ & _ & _ & Hlen & Hnn & Ev & _ & EIC).
  assert (En : n_wells (lw_geom L) = (rows * cols)%nat) by (rewrite Eg; reflexivity).
  destruct (initial_composition_top _ _ _ _ _ _ _
              (eq_trans (map_length Qred vs) Hlen) (real_ids_length rows cols) EIC)
    as (R1 & R2 & R3 & R4).
  assert (Hz : forall j, Qeq_bool (nth j (map Qred vs) 0) 0 = true <-> vol_at L j == 0).
  { intro j. unfold vol_at. rewrite Ev. apply Qeq_bool_iff. }
  assert (Hcol : forall j, (j < rows * cols)%nat ->
            (vol_at L j == 0 -> forall k, frac L k j = 0) /\
            (~ vol_at L j == 0 -> forall k, frac L k j =
               if String.eqb (init_name (a_name a) (1 <? rows * cols)%nat (a_names a)
                                (nth j (real_ids rows cols) EmptyString)) k then 1 else 0)).
  { intros j Hj. split; intros Hv k; unfold frac; rewrite (R4 k j Hj).
    - apply Hz in Hv. rewrite Hv. reflexivity.
    - destruct (Qeq_bool (nth j (map Qred vs) 0) 0) eqn:E; [apply Hz in E; contradiction|reflexivity]. }
  assert (Hsum : forall i, (i < rows * cols)%nat ->
            (vol_at L i == 0 -> well_sum L i == 0) /\ (~ vol_at L i == 0 -> well_sum L i == 1)).
  { intros i Hi. destruct (Hcol i Hi) as [H0 H1]. split; intro Hv; unfold well_sum.
    - apply zero_col_sum; [intro k; apply (H0 Hv k)|exact R2].
    - eapply indicator_col_sum; [exact R2|]. intro k. apply (H1 Hv k). }
  split; [|split].
  - split.
    + split; [exact Hwf|]. split; [rewrite Ev, map_length, En; exact Hlen|]. split; [exact Hmin|].
      rewrite Ev. apply Forall_map. eapply Forall_impl; [|exact Hnn].
      intros v Hv. cbv beta. rewrite Qred_correct. exact Hv.
    + split; [rewrite En; exact R1|]. split; [exact R2|]. split; [exact R3|].
      intros i Hi. rewrite En in Hi. destruct (Hsum i Hi) as [H0 H1].
      destruct (Qeq_dec (vol_at L i) 0) as [E|N]; [rewrite (H0 E)|rewrite (H1 N)]; lra.
  - intros r c Hr Hc. rewrite Eg in Hr, Hc |- *. cbn [g_rows g_cols] in *. cbv zeta.
    assert (Hj : (r * cols + c < rows * cols)%nat) by nia.
    destruct (Hcol _ Hj) as [H0 H1]. rewrite real_ids_nth in H1 by assumption. split; assumption.
  - intros i Hi. rewrite En in Hi. exact (Hsum i Hi).
Qed.

(* ------------------------------------------------------------------ default component names *)

Lemma append_inj_l (a b c : string) : (a ++ b)%string = (a ++ c)%string -> b = c.
Proof.
  induction a as [|x a IH]; cbn [String.append]; intro H; [exact H|].
  injection H as H. apply IH. exact H.
Qed.

Lemma init_name_given name multi names w s :
  assoc_get w names = Some (Some s) -> init_name name multi names w = s.
Proof. intro H. unfold init_name. rewrite H. reflexivity. Qed.

Lemma init_name_default name multi names w :
  assoc_get w names = None \/ assoc_get w names = Some None ->
  init_name name multi names w = if multi then (name ++ "." ++ w)%string else name.
Proof. intros [H|H]; unfold init_name; rewrite H; reflexivity. Qed.

(** the per-well defaults of a labware with several wells are pairwise distinct *)
Lemma default_names_distinct name r c r' c' : (r < 26)%nat -> (r' < 26)%nat ->
  (name ++ "." ++ well_id r c)%string = (name ++ "." ++ well_id r' c')%string -> r = r' /\ c = c'.
Proof.
  intros Hr Hr' H. apply append_inj_l in H. apply (append_inj_l ".") in H.
  apply well_id_injective; assumption.
Qed.

Lemma pad2_inj' m k : pad2 m = pad2 k -> m = k.
Proof. unfold pad2. intro H. apply pad2N_injective in H. apply Nat2N.inj. exact H. Qed.

(** the per-column defaults of a multi-column trough are pairwise distinct *)
Lemma column_names_distinct name c c' :
  (name ++ ".column_" ++ pad2 (c + 1))%string = (name ++ ".column_" ++ pad2 (c' + 1))%string -> c = c'.
Proof.
  intro H. apply append_inj_l in H. apply (append_inj_l ".column_") in H.
  apply pad2_inj' in H. lia.
Qed.


(** the name table a trough passes on: the given name, else the default for a filled column *)
Lemma trough_names_get name multi : forall cn iv c0 c, (c < length cn)%nat -> length iv = length cn ->
  assoc_get (well_id 0 (c0 + c)) (trough_names name multi c0 cn iv) =
  Some (match nth c cn None with
        | Some s => Some s
        | None => if xnum_pos (nth c iv XNaN) then Some (trough_default name multi (c0 + c)) else None
        end).
Proof.
  induction cn as [|g cn IH]; intros iv c0 c Hc Hlen; [cbn [length] in Hc; lia|].
  destruct iv as [|v iv]; [discriminate|]. cbn [length] in Hc, Hlen.
  cbn [trough_names assoc_get]. destruct c as [|c].
  - rewrite Nat.add_0_r, String.eqb_refl. cbn [nth]. reflexivity.
  - destruct (String.eqb_spec (well_id 0 c0) (well_id 0 (c0 + S c))) as [E|_].
    + apply well_id_injective in E; lia.
    + cbn [nth]. replace (c0 + S c)%nat with (S c0 + c)%nat by lia. apply IH; lia.
Qed.

Lemma mk_trough_ok a L : mk_trough a = Ok L ->
  exists zc cn ivs,
    t_cols a = PInt zc /\
    cn = (match t_colnames a with
          | CNone => repeat None (Z.to_nat zc) | CStr s => [Some s] | CList l => l end) /\
    length cn = Z.to_nat zc /\ length ivs = Z.to_nat zc /\
    mk_labware {| a_name := t_name a; a_rows := PInt 1; a_cols := t_cols a;
                  a_min := t_min a; a_max := t_max a; a_init := Some (A1 ivs);
                  a_vrows := Some (t_vrows a);
                  a_names := trough_names (t_name a) (1 <? Z.to_nat zc)%nat 0 cn ivs |} = Ok L.
Proof.
  unfold mk_trough. destruct (t_cols a) as [zc|] eqn:EC; [|discriminate].
  set (cn := match t_colnames a with
             | CNone => repeat None (Z.to_nat zc) | CStr s => [Some s] | CList l => l end).
  match goal with |- match ?iv with Some _ => _ | None => _ end = _ -> _ =>
    destruct iv as [ivs|]; [|discriminate] end.
  destruct (zc <? 0)%Z; [discriminate|].
  destruct (length cn =? Z.to_nat zc)%nat eqn:E1; cbn [negb]; [|discriminate].
  destruct (length ivs =? Z.to_nat zc)%nat eqn:E2; cbn [negb]; [|discriminate].
  match goal with |- (if ?b then _ else _) = _ -> _ => destruct b; [discriminate|] end.
  intro H. exists zc, cn, ivs. split; [reflexivity|]. split; [reflexivity|].
  split; [apply Nat.eqb_eq; exact E1|]. split; [apply Nat.eqb_eq; exact E2|exact H].
Qed.

(** C05_names for troughs: a filled column consists 100 % of the component with the given column
    name, or the default [name.column_NN] (several columns) / the trough name (one column) *)
Lemma mk_trough_init a L : mk_trough a = Ok L ->
  exists cn,
    (forall zc, t_cols a = PInt zc ->
       cn = match t_colnames a with
            | CNone => repeat None (Z.to_nat zc) | CStr s => [Some s] | CList l => l end) /\
    length cn = g_cols (lw_geom L) /\ g_rows (lw_geom L) = 1%nat /\ mix_inv L /\
    forall c, (c < g_cols (lw_geom L))%nat ->
      (vol_at L c == 0 -> forall k, frac L k c = 0) /\
      (~ vol_at L c == 0 ->
       forall k, frac L k c =
         if String.eqb (match nth c cn None with
                        | Some s => s
                        | None => trough_default (t_name a) (1 <? g_cols (lw_geom L))%nat c
                        end) k
         then 1 else 0).
Proof.
  intro H. destruct (mk_trough_ok a L H) as (zc & cn & ivs & EC & Ecn & Lcn & Livs & HL).
  destruct (mk_labware_init _ L HL) as (HI & Hcols & _).
  destruct (mk_labware_ok _ L HL)
    as (rows & cols & vrows & vs & Eg & _ & _ & _ & ER & ECo & Hlen & Hnn & Ev & Einit & _).
  cbn [a_rows a_cols a_init a_name a_names] in *.
  assert (Hrows : rows = 1%nat) by (cbn in ER; inversion ER; reflexivity).
  assert (Hcols' : cols = Z.to_nat zc).
  { rewrite EC in ECo. cbn [size_ok] in ECo. destruct (1 <=? zc)%Z; inversion ECo. reflexivity. }
  subst rows. pose proof (Einit ivs eq_refl) as Eivs.
  exists cn. split; [intros zc' E'; rewrite EC in E'; inversion E'; subst; reflexivity|].
  rewrite Eg in *. cbn [g_rows g_cols] in *.
  split; [lia|]. split; [reflexivity|]. split; [exact HI|].
  intros c Hc. destruct (Hcols 0%nat c ltac:(lia) Hc) as [H0 H1]. cbn [Nat.mul Nat.add] in H0, H1.
  split; [exact H0|]. intros Hv k. rewrite (H1 Hv k). f_equal. f_equal.
  unfold init_name.
  pose proof (trough_names_get (t_name a) (1 <? Z.to_nat zc)%nat cn ivs 0%nat c) as HG.
  cbn [Nat.add] in HG. rewrite HG by lia. rewrite <- Hcols'.
  destruct (nth c cn None) as [g|]; [reflexivity|].
  (* the column is filled, so its initial volume is positive *)
  assert (Hpos : xnum_pos (nth c ivs XNaN) = true).
  { rewrite Eivs.
    rewrite (nth_indep (map XQ vs) XNaN (XQ 0)) by (rewrite map_length; lia).
    rewrite map_nth. cbn [xnum_pos]. unfold Qltb. apply negb_true_iff.
    destruct (Qle_bool (nth c vs 0) 0) eqn:E; [|reflexivity]. exfalso. apply Qle_bool_iff in E.
    assert (H2 : 0 <= nth c vs 0) by (apply (Forall_nth' (fun v => 0 <= v)); [exact Hnn|lra]).
    apply Hv. unfold vol_at. rewrite Ev, nth_map_Qred. lra. }
  rewrite Hpos. reflexivity.
Qed.

(* ------------------------------------------------------------------ refinement along a plan *)

Lemma iw_remove_congr w w' v : iw_eq w w' -> iw_eq (iw_remove w v) (iw_remove w' v).
Proof.
  intros [H1 H2]. split; cbn [iw_remove iw_vol iw_amt]; [rewrite H1; reflexivity|].
  intro k. rewrite H1, H2. reflexivity.
Qed.

Lemma iw_frac_congr w w' k : iw_eq w w' -> iw_frac w k == iw_frac w' k.
Proof. intros [H1 H2]. unfold iw_frac. rewrite H1, H2. reflexivity. Qed.

Lemma is_transfer_congr (W W' : istate) ks i_s kd i_d v : (forall k i, iw_eq (W k i) (W' k i)) ->
  forall k i, iw_eq (is_transfer W ks i_s kd i_d v k i) (is_transfer W' ks i_s kd i_d v k i).
Proof.
  intro HW. unfold is_transfer. cbv zeta.
  assert (H1 : forall k i, iw_eq (is_upd W ks i_s (iw_remove (W ks i_s) v) k i)
                              (is_upd W' ks i_s (iw_remove (W' ks i_s) v) k i)).
  { apply is_upd_congr; [exact HW|]. apply iw_remove_congr. apply HW. }
  apply is_upd_congr; [exact H1|]. apply iw_add_congr; [apply H1|].
  intro c. apply iw_frac_congr. apply HW.
Qed.

Lemma is_exec_congr ks kd Ls Ld acts : forall (W W' : istate), (forall k i, iw_eq (W k i) (W' k i)) ->
  forall k i, iw_eq (is_exec W ks kd Ls Ld acts k i) (is_exec W' ks kd Ls Ld acts k i).
Proof.
  induction acts as [|a r IH]; intros W W' HW; [exact HW|].
  destruct a as [sw dw v|]; cbn [is_exec]; [|apply IH; exact HW].
  destruct (lw_index Ls sw) as [i_s|]; [|exact HW].
  destruct (lw_index Ld dw) as [i_d|]; [|exact HW].
  apply IH. apply is_transfer_congr. exact HW.
Qed.

Lemma is_exec_geom ks kd Ls Ld Ls' Ld' acts : lw_geom Ls' = lw_geom Ls -> lw_geom Ld' = lw_geom Ld ->
  forall W, is_exec W ks kd Ls' Ld' acts = is_exec W ks kd Ls Ld acts.
Proof.
  intros E1 E2. induction acts as [|a r IH]; intro W; [reflexivity|].
  destruct a as [sw dw v|]; cbn [is_exec]; [|apply IH].
  rewrite (lw_index_geom' Ls' Ls sw E1), (lw_index_geom' Ld' Ld dw E2).
  destruct (lw_index Ls sw); [|reflexivity]. destruct (lw_index Ld dw); [|reflexivity]. apply IH.
Qed.

(** geometry never changes *)
Lemma exec_step_geom s ks kd sw dw v ws kw s' : exec_step s ks kd sw dw v ws kw = (s', None) ->
  forall k L, nth_error (st_lw s) k = Some L ->
  exists L', nth_error (st_lw s') k = Some L' /\ lw_geom L' = lw_geom L.
Proof.
  intros H k L EL.
  destruct (exec_step_ok _ _ _ _ _ _ _ _ _ H) as (Ls & i_s & Ld & i_d & ELs & _ & _ & _ & ELd & _ & Es').
  rewrite Es'. rewrite (nth_error_upd _ kd _ k Ld ELd).
  destruct (Nat.eqb_spec k kd) as [Ek|Nk].
  - subst k. eexists. split; [reflexivity|].
    change (lw_geom (log (add_step Ld i_d v (Some (wca (lw_comp Ls) i_s))) None))
      with (lw_geom (add_step Ld i_d v (Some (wca (lw_comp Ls) i_s)))).
    rewrite add_step_geom.
    rewrite (nth_error_upd _ ks _ kd Ls ELs) in ELd. destruct (Nat.eqb_spec kd ks) as [E|N].
    + subst kd. inversion ELd; subst. rewrite ELs in EL. inversion EL; subst. reflexivity.
    + rewrite ELd in EL. inversion EL; subst. reflexivity.
  - rewrite (nth_error_upd _ ks _ k Ls ELs). destruct (Nat.eqb_spec k ks) as [E|N].
    + subst k. eexists. split; [reflexivity|]. rewrite ELs in EL. inversion EL; subst. reflexivity.
    + exists L. split; [exact EL|reflexivity].
Qed.

(** C05_refines along a plan: the tracked wells follow the ideal transfers step by step *)
Lemma exec_refines acts : forall s ks kd ws kw s' Ls Ld, st_inv s -> Forall step_positive acts ->
  nth_error (st_lw s) ks = Some Ls -> nth_error (st_lw s) kd = Some Ld ->
  exec s ks kd acts ws kw = (s', None) ->
  forall k i, iw_eq (abs_state s' k i) (is_exec (abs_state s) ks kd Ls Ld acts k i).
Proof.
  induction acts as [|a r IH]; intros s ks kd ws kw s' Ls Ld HI HP ELs ELd H.
  - cbn [exec] in H. inversion H; subst. intros k i. apply iw_eq_refl.
  - inversion HP as [|a' r' Ha Hr]; subst. destruct a as [sw dw v|]; cbn [exec] in H.
    + cbn [step_positive] in Ha.
      destruct (exec_step s ks kd sw dw v ws kw) as [s1 [e|]] eqn:E1; [discriminate|].
      destruct (exec_step_refines s ks kd sw dw v ws kw s1 HI Ha E1)
        as (Ls0 & i_s & Ld0 & i_d & ELs0 & Eis & ELd0 & Eid & _ & _ & _ & _ & HR).
      rewrite ELs in ELs0. inversion ELs0; subst Ls0. rewrite ELd in ELd0. inversion ELd0; subst Ld0.
      destruct (exec_step_geom _ _ _ _ _ _ _ _ _ E1 ks Ls ELs) as (Ls1 & ELs1 & Eg1).
      destruct (exec_step_geom _ _ _ _ _ _ _ _ _ E1 kd Ld ELd) as (Ld1 & ELd1 & Eg2).
      assert (HI1 : st_inv s1).
      { pose proof (exec_step_inv s ks kd sw dw v ws kw HI) as HI1. rewrite E1 in HI1. exact HI1. }
      intros k i. cbn [is_exec]. rewrite Eis, Eid.
      eapply iw_eq_trans; [apply (IH s1 ks kd ws kw s' Ls1 Ld1 HI1 Hr ELs1 ELd1 H)|].
      rewrite (is_exec_geom ks kd Ls Ld Ls1 Ld1 r Eg1 Eg2).
      apply is_exec_congr. exact HR.
    + cbn [is_exec]. exact (IH (set_wl s (fst (commit (st_wl s)))) ks kd ws kw s' Ls Ld HI Hr ELs ELd H).
Qed.

(** every step of a plan moves a positive volume *)
Lemma plan_positive autosplit m mode triples : Forall step_positive (plan autosplit m mode triples).
Proof.
  assert (Hpass : forall p rows, Forall step_positive (pass_steps p rows)).
  { intros p rows. unfold pass_steps. apply Forall_forall. intros a Ha.
    apply in_flat_map in Ha. destruct Ha as [t [_ Ha]].
    destruct (nth_error (snd t) p) as [v|]; [|destruct Ha].
    destruct (Qltb 0 v) eqn:E; [|destruct Ha]. destruct Ha as [Ha|[]]. subst a.
    cbn [step_positive]. apply Qltb_true'. exact E. }
  assert (Hc : forall (b : bool), Forall step_positive (if b then [Commit] else [])).
  { intro b. destruct b; [constructor; [exact I|constructor]|constructor]. }
  unfold plan. apply Forall_forall. intros a Ha. apply in_flat_map in Ha. destruct Ha as [g [_ Ha]].
  unfold group_plan in Ha. cbv zeta in Ha. apply in_app_or in Ha. destruct Ha as [Ha|Ha].
  - apply in_flat_map in Ha. destruct Ha as [p [_ Ha]]. apply in_app_or in Ha. destruct Ha as [Ha|Ha].
    + pose proof (Hpass p (map (fun t => (fst (fst t), snd (fst t), vol_list autosplit m (snd t))) g)) as HF.
      rewrite Forall_forall in HF. apply HF. exact Ha.
    + match type of Ha with In _ (if ?b then _ else _) => pose proof (Hc b) as HF end.
      rewrite Forall_forall in HF. apply HF. exact Ha.
  - match type of Ha with In _ (if ?b then _ else _) => pose proof (Hc b) as HF end.
    rewrite Forall_forall in HF. apply HF. exact Ha.
Qed.

Lemma abs_state_condense_at s k0 n label : forall k i,
  abs_state (condense_at s k0 n label) k i = abs_state s k i.
Proof.
  intros k i. unfold condense_at. destruct (nth_error (st_lw s) k0) as [L|] eqn:E; [|reflexivity].
  unfold abs_state. cbn [set_lw st_lw]. rewrite (nth_error_upd _ k0 _ k L E).
  destruct (Nat.eqb_spec k k0) as [Ek|_]; [|reflexivity]. subst k. rewrite E.
  unfold condense_log. destruct (n <? 1)%nat; reflexivity.
Qed.

(** C05_refines for [transfer]: an accepted transfer acts as the ideal execution of its plan *)
Lemma transfer_refines s ks swells kd dwells vols label ws pb kw s' Ls Ld : st_inv s ->
  nth_error (st_lw s) ks = Some Ls -> nth_error (st_lw s) kd = Some Ld ->
  transfer s ks swells kd dwells vols label ws pb kw = (s', None) ->
  exists acts, Forall step_positive acts /\
    forall k i, iw_eq (abs_state s' k i) (is_exec (abs_state s) ks kd Ls Ld acts k i).
Proof.
  intros HI ELs ELd. unfold transfer. rewrite ELs, ELd.
  destruct (w_dev (st_wl s)); try discriminate;
  (cbv beta iota zeta;
   match goal with |- context [if negb ?b then _ else _] => destruct (negb b); [discriminate|] end;
   match goal with |- context [if existsb ?f ?l then _ else _] => destruct (existsb f l); [discriminate|] end;
   match goal with |- context [if ?a || ?b then _ else _] => destruct (a || b); [discriminate|] end;
   destruct (optimize_partition_by (is_trough (lw_geom Ls)) (is_trough (lw_geom Ld)) pb) as [mode|e];
     [|discriminate];
   destruct (comment (st_wl s) label) as [w [e|]]; [discriminate|];
   match goal with |- context [exec ?s0 ?a ?b ?acts ?c ?d] =>
     pose proof (fun s1 => exec_refines acts s0 a b c d s1 Ls Ld HI (plan_positive _ _ _ _) ELs ELd) as HE;
     destruct (exec s0 a b acts c d) as [s1 [e|]]; [discriminate|];
     specialize (HE s1 eq_refl);
     match goal with |- context [if ?b then _ else _] => destruct b end;
     intro H; inversion H; subst; exists acts; (split; [apply plan_positive|]);
     intros k i; rewrite ?abs_state_condense_at; apply HE end).
Qed.

(* ------------------------------------------------------------------ non-empty wells are fully known *)

Lemma add_step_known_inv L i v oc : mix_inv L -> known_inv L -> (i < n_wells (lw_geom L))%nat ->
  0 <= v -> ocomp_ok oc -> oadd_known (XQ v) oc -> known_inv (add_step L i v oc).
Proof.
  intros HI HK Hi Hv Hoc Hkn j Hj Hvol. rewrite add_step_geom in Hj.
  pose proof HI as [HVB HCI]. pose proof (vol_base_vol_at L i HVB) as H0.
  pose proof HCI as (HL & ND & HB & HS). pose proof HVB as (_ & Hlen & _).
  rewrite vol_at_add_step in Hvol by lia.
  destruct (Nat.eqb_spec i j) as [E|N].
  - subst j. rewrite Qred_correct in Hvol. unfold fully_known.
    destruct oc as [c|]; cbn [oadd_known ocomp_ok] in *.
    + destruct Hoc as (NC & _).
      rewrite add_step_well_sum; try assumption; [|intro k; apply (comp_inv_frac L k i HCI)].
      destruct (Qeq_dec v 0) as [Ev|Nv].
      * assert (Hn0 : ~ vol_at L i == 0) by lra.
        pose proof (HK i Hi Hn0) as H1. unfold fully_known in H1. rewrite H1, Ev. field. exact Hn0.
      * assert (Hpos : 0 < v) by lra. pose proof (Hkn Hpos) as HF. unfold comp_full in HF. rewrite HF.
        destruct (Qeq_dec (vol_at L i) 0) as [E0|N0].
        -- rewrite E0. field. lra.
        -- pose proof (HK i Hi N0) as H1. unfold fully_known in H1. rewrite H1. field. exact Hvol.
    + assert (Hn0 : ~ vol_at L i == 0) by lra. exact (HK i Hi Hn0).
  - apply add_step_known_other; try assumption; [congruence|]. apply HK; assumption.
Qed.

Lemma rem_step_known_inv L i v : mix_inv L -> known_inv L -> (i < n_wells (lw_geom L))%nat -> 0 <= v ->
  lw_min L <= Qred (vol_at L i - v) -> known_inv (rem_step L i v).
Proof.
  intros HI HK Hi Hv Hacc j Hj Hvol. change (n_wells (lw_geom (rem_step L i v))) with (n_wells (lw_geom L)) in Hj.
  pose proof HI as [HVB _]. pose proof (vol_base_vol_at L i HVB) as H0.
  pose proof HVB as (_ & Hlen & Hmin & _).
  change (fully_known L j). apply HK; [exact Hj|].
  rewrite vol_at_rem_step in Hvol by lia. destruct (Nat.eqb_spec i j) as [E|N]; [|exact Hvol].
  subst j. rewrite Qred_correct in Hvol, Hacc. intro E0. apply Hvol. lra.
Qed.

Definition aitem_known (it : string * xnum * option composition) : Prop :=
  oadd_known (snd (fst it)) (snd it).

Lemma add_loop_known_inv items : forall L, Forall aitem_ok items -> Forall aitem_known items ->
  mix_inv L -> known_inv L -> known_inv (fst (add_loop L items)).
Proof.
  induction items as [|[[w x] oc] rest IH]; intros L HF HKn HI HK; [exact HK|].
  inversion HF as [|it r [Hv Hoc] Hrest]; subst. cbn [fst snd] in Hv, Hoc.
  inversion HKn as [|it r Hk Hkrest]; subst. unfold aitem_known in Hk. cbn [fst snd] in Hk.
  rewrite add_loop_cons'. destruct (lw_index L w) as [i|] eqn:Ei; [|exact HK].
  destruct x as [v| | |]; try exact HK.
  destruct (Qgtb (Qred (vol_at L i + v)) (lw_max L)); [exact HK|].
  assert (Hi : (i < n_wells (lw_geom L))%nat) by (apply (lw_index_lt L w i); [apply HI|exact Ei]).
  pose proof (vol_ok_XQ' v Hv) as Hv0.
  apply IH; try assumption.
  - apply add_step_inv; assumption.
  - apply add_step_known_inv; assumption.
Qed.

Lemma remove_loop_known_inv items : forall L, Forall (fun p => vol_ok (snd p) = true) items ->
  mix_inv L -> known_inv L -> known_inv (fst (remove_loop L items)).
Proof.
  induction items as [|[w x] rest IH]; intros L HF HI HK; [exact HK|].
  inversion HF as [|it r Hv Hrest]; subst. cbn [snd] in Hv.
  rewrite remove_loop_cons'. destruct (lw_index L w) as [i|] eqn:Ei; [|exact HK].
  destruct x as [v| | |]; try exact HK.
  destruct (Qltb (Qred (vol_at L i - v)) (lw_min L)) eqn:E; [exact HK|].
  apply Qltb_false' in E. pose proof (vol_ok_XQ' v Hv) as Hv0.
  assert (Hi : (i < n_wells (lw_geom L))%nat) by (apply (lw_index_lt L w i); [apply HI|exact Ei]).
  apply IH; try assumption.
  - apply rem_step_inv; assumption.
  - apply rem_step_known_inv; assumption.
Qed.

Lemma known_inv_same L L' : lw_geom L' = lw_geom L -> lw_vols L' = lw_vols L ->
  lw_comp L' = lw_comp L -> known_inv L -> known_inv L'.
Proof.
  intros Eg Ev Ec HK. unfold known_inv, fully_known, well_sum, vol_at in *.
  rewrite Eg, Ev, Ec. exact HK.
Qed.

Lemma remove_known_inv L wells vols label : mix_inv L -> known_inv L ->
  known_inv (fst (remove L wells vols label)).
Proof.
  intros HI HK. unfold remove. destruct (prep_wells_vols wells vols) as [wv|e] eqn:EP; [|exact HK].
  pose proof (remove_loop_known_inv wv L (prep_wells_vols_vol_ok _ _ _ EP) HI HK) as H.
  destruct (remove_loop L wv) as [L' [e|]]; cbn [fst] in *; [exact H|].
  apply (known_inv_same L' (log L' label)); try reflexivity. exact H.
Qed.



Lemma st_known_nth s k L : st_known s -> nth_error (st_lw s) k = Some L -> known_inv L.
Proof. intros H E. unfold st_known in H. rewrite Forall_forall in H. apply H. eapply nth_error_In. exact E. Qed.

Lemma aspirate_known s k wells vols label kw : st_inv s -> st_known s ->
  st_known (fst (aspirate s k wells vols label kw)).
Proof.
  intros HI HK. unfold st_known. rewrite aspirate_st_lw.
  destruct (nth_error (st_lw s) k) as [L|] eqn:E; [|exact HK].
  apply Forall_upd'; [exact HK|].
  apply remove_known_inv; [exact (st_inv_nth s k L HI E)|exact (st_known_nth s k L HK E)].
Qed.

(** [add] with an explicit condition on the items *)
Lemma add_known_inv' L wells vols label cs : mix_inv L -> known_inv L -> comps_ok (Some cs) ->
  (forall wv, prep_wells_vols wells vols = Ok wv ->
     Forall aitem_known (map (fun p => (fst (fst p), snd (fst p), snd p)) (zip wv cs))) ->
  known_inv (fst (add L wells vols label (Some cs))).
Proof.
  intros HI HK HC HKn. unfold add. destruct (prep_wells_vols wells vols) as [wv|e] eqn:EP; [|exact HK].
  cbn [comps_ok] in HC.
  destruct (negb (length cs =? length wv)%nat); [exact HK|].
  set (items := map (fun p => (fst (fst p), snd (fst p), snd p)) (zip wv cs)).
  pose proof (Forall_zip _ _ wv cs (prep_wells_vols_vol_ok _ _ _ EP) HC) as HZ.
  assert (HF : Forall aitem_ok items).
  { apply Forall_map. eapply Forall_impl; [|exact HZ]. intros [[w x] oc] [H1 H2]. split; assumption. }
  pose proof (add_loop_known_inv items L HF (HKn wv eq_refl) HI HK) as H.
  destruct (add_loop L items) as [L' [e|]]; cbn [fst] in *; [exact H|].
  apply (known_inv_same L' (log L' label)); try reflexivity. exact H.
Qed.

Lemma add_known_inv L wells vols label comps : mix_inv L -> known_inv L -> comps_ok comps ->
  comps_known comps -> known_inv (fst (add L wells vols label comps)).
Proof.
  intros HI HK HC HKn. destruct comps as [cs|]; [|destruct HKn].
  apply add_known_inv'; try assumption. intros wv _. cbn [comps_known] in HKn.
  apply Forall_map. apply Forall_forall. intros [[w x] oc] Hin. unfold aitem_known. cbn [fst snd].
  assert (Hoc : In oc cs).
  { clear - Hin. revert cs Hin. induction wv as [|p r IH]; intros cs Hin; [destruct Hin|].
    destruct cs as [|c cs]; [destruct Hin|]. cbn [zip] in Hin. destruct Hin as [E|Hin].
    - inversion E; subst. left. reflexivity.
    - right. apply IH. exact Hin. }
  rewrite Forall_forall in HKn. pose proof (HKn oc Hoc) as H. destruct oc as [c|]; [|destruct H].
  destruct x; cbn [oadd_known]; auto.
Qed.

Lemma dispense_known s k wells vols label comps kw : st_inv s -> st_known s -> comps_ok comps ->
  comps_known comps -> st_known (fst (dispense s k wells vols label comps kw)).
Proof.
  intros HI HK HC HKn. unfold st_known. rewrite dispense_st_lw.
  destruct (nth_error (st_lw s) k) as [L|] eqn:E; [|exact HK].
  apply Forall_upd'; [exact HK|].
  apply add_known_inv; try assumption; [exact (st_inv_nth s k L HI E)|exact (st_known_nth s k L HK E)].
Qed.

Lemma dispense_known' s k wells vols label cs kw : st_inv s -> st_known s -> comps_ok (Some cs) ->
  (forall wv, prep_wells_vols (A1 (flattenF wells)) (A1 (broadcast (flattenF vols) (length (flattenF wells)))) = Ok wv ->
     Forall aitem_known (map (fun p => (fst (fst p), snd (fst p), snd p)) (zip wv cs))) ->
  st_known (fst (dispense s k wells vols label (Some cs) kw)).
Proof.
  intros HI HK HC HKn. unfold st_known. rewrite dispense_st_lw.
  destruct (nth_error (st_lw s) k) as [L|] eqn:E; [|exact HK].
  apply Forall_upd'; [exact HK|].
  apply add_known_inv'; try assumption; [exact (st_inv_nth s k L HI E)|exact (st_known_nth s k L HK E)].
Qed.

(** the liquid a pipetting step moves is fully known whenever its volume is positive *)
Lemma exec_step_known s ks kd sw dw v ws kw : st_inv s -> st_known s ->
  st_known (fst (exec_step s ks kd sw dw v ws kw)).
Proof.
  intros HI HK. unfold exec_step.
  pose proof (aspirate_known s ks (A0 sw) (A0 (XQ v)) None kw HI HK) as H1.
  pose proof (aspirate_inv s ks (A0 sw) (A0 (XQ v)) None kw HI) as HI1.
  destruct (aspirate s ks (A0 sw) (A0 (XQ v)) None kw) as [s1 [e|]] eqn:EA; cbn [fst] in *; [exact H1|].
  destruct (aspirate_single s ks sw v kw s1 EA) as (Ls & i_s & ELs & Eis & Hv & Hmin & Es1).
  assert (EL1 : nth_error (st_lw s1) ks = Some (log (rem_step Ls i_s v) None)).
  { rewrite Es1, (nth_error_upd _ _ _ _ _ ELs), Nat.eqb_refl. reflexivity. }
  rewrite EL1. unfold get_well_composition.
  rewrite (lw_index_geom' (log (rem_step Ls i_s v) None) Ls sw eq_refl), Eis.
  rewrite well_composition_at_wca. cbn [log set_hist rem_step set_vols lw_comp].
  pose proof (st_inv_nth s ks Ls HI ELs) as HLs. pose proof (st_known_nth s ks Ls HK ELs) as HKs.
  assert (His : (i_s < n_wells (lw_geom Ls))%nat) by (apply (lw_index_lt Ls sw); [apply HLs|exact Eis]).
  pose proof (wca_comp_ok Ls i_s HLs) as [HC HCs].
  assert (H2 : st_known (fst (dispense s1 kd (A0 dw) (A0 (XQ v)) None (Some [Some (wca (lw_comp Ls) i_s)]) kw))).
  { apply dispense_known'; try assumption.
    - constructor; [exact HC|constructor].
    - intros wv EP. unfold prep_wells_vols in EP.
      cbn [flattenF broadcast length repeat Nat.eqb negb forallb vol_ok] in EP.
      destruct (negb (Qle_bool 0 v && true)); [discriminate|]. inversion EP; subst wv.
      cbn [zip map fst snd]. constructor; [|constructor].
      unfold aitem_known. cbn [fst snd oadd_known]. intro Hpos.
      unfold comp_full. rewrite (HCs His).
      pose proof HLs as [(_ & _ & Hmin0 & _) _]. rewrite Qred_correct in Hmin.
      apply (HKs i_s His). lra. }
  destruct (dispense s1 kd (A0 dw) (A0 (XQ v)) None (Some [Some (wca (lw_comp Ls) i_s)]) kw)
    as [s2 [e|]]; cbn [fst] in H2; [exact H2|].
  destruct (tip_action (st_wl s2) ws) as [w e]. exact H2.
Qed.

Lemma exec_known acts : forall s ks kd ws kw, st_inv s -> st_known s ->
  st_known (fst (exec s ks kd acts ws kw)).
Proof.
  induction acts as [|a rest IH]; intros s ks kd ws kw HI HK; [exact HK|].
  destruct a as [sw dw v|]; cbn [exec].
  - pose proof (exec_step_inv s ks kd sw dw v ws kw HI) as H1.
    pose proof (exec_step_known s ks kd sw dw v ws kw HI HK) as H2.
    destruct (exec_step s ks kd sw dw v ws kw) as [s' [e|]]; cbn [fst] in *; [exact H2|].
    apply IH; assumption.
  - apply IH; assumption.
Qed.

Lemma condense_at_known s k n label : st_known s -> st_known (condense_at s k n label).
Proof.
  intro HK. unfold condense_at. destruct (nth_error (st_lw s) k) as [L|] eqn:E; [|exact HK].
  unfold st_known. cbn [set_lw st_lw]. apply Forall_upd'; [exact HK|].
  destruct (condense_log_comp L n label) as (Ec & Ev & Eg).
  apply (known_inv_same L); try assumption. exact (st_known_nth s k L HK E).
Qed.

Lemma transfer_known s ks swells kd dwells vols label ws pb kw : st_inv s -> st_known s ->
  st_known (fst (transfer s ks swells kd dwells vols label ws pb kw)).
Proof.
  intros HI HK. unfold transfer.
  destruct (w_dev (st_wl s)); try exact HK;
  (destruct (nth_error (st_lw s) ks) as [Ls|]; [|exact HK];
   destruct (nth_error (st_lw s) kd) as [Ld|]; [|exact HK];
   cbv zeta;
   match goal with |- context [if negb ?b then _ else _] => destruct (negb b); [exact HK|] end;
   match goal with |- context [if existsb ?f ?l then _ else _] => destruct (existsb f l); [exact HK|] end;
   match goal with |- context [if ?a || ?b then _ else _] => destruct (a || b); [exact HK|] end;
   destruct (optimize_partition_by (is_trough (lw_geom Ls)) (is_trough (lw_geom Ld)) pb) as [mode|e];
     [|exact HK];
   destruct (comment (st_wl s) label) as [w [e|]]; [exact HK|];
   match goal with |- context [exec ?s0 ?a ?b ?acts ?c ?d] =>
     pose proof (exec_known acts s0 a b c d HI HK) as HE; destruct (exec s0 a b acts c d) as [s' [e|]] end;
   cbn [fst] in *; [exact HE|];
   match goal with |- context [if ?b then _ else _] => destruct b end; cbn [fst];
   repeat apply condense_at_known; exact HE).
Qed.

Lemma dist_items_known (wv : list (string * xnum)) q c m :
  Forall (fun p => snd p = XQ q) wv -> (0 < q -> comp_full c) ->
  Forall aitem_known (map (fun p => (fst (fst p), snd (fst p), snd p)) (zip wv (repeat (Some c) m))).
Proof.
  intros Hwv HC.
  assert (HR : Forall (fun oc : option composition => oc = Some c) (repeat (Some c) m)).
  { apply Forall_forall. intros oc Hoc. apply repeat_spec in Hoc. exact Hoc. }
  pose proof (Forall_zip _ _ wv (repeat (Some c) m) Hwv HR) as HZ.
  apply Forall_map. eapply Forall_impl; [|exact HZ]. intros [[w x] oc] [H1 H2].
  cbn [fst snd] in *. subst x oc. unfold aitem_known. cbn [fst snd oadd_known]. exact HC.
Qed.

Lemma zip_nil_r {A B} (l : list A) : zip l (@nil B) = [].
Proof. destruct l; reflexivity. Qed.

Lemma distribute_known s ks kd dwells a : st_inv s -> st_known s ->
  st_known (fst (distribute s ks kd dwells a)).
Proof.
  intros HI HK. unfold distribute.
  destruct (nth_error (st_lw s) ks) as [Ls|] eqn:ELs; [|exact HK].
  destruct (nth_error (st_lw s) kd) as [Ld|] eqn:ELd; [|exact HK].
  pose proof (st_inv_nth s ks Ls HI ELs) as HLs. pose proof (st_known_nth s ks Ls HK ELs) as HKs.
  destruct (g_vrows (lw_geom Ls)) as [vr|]; [|exact HK].
  destruct (rvol_x (d_volume a)) as [xv|]; [|exact HK].
  match goal with |- st_known (fst (match xv with XQ _ => ?B | _ => _ end)) =>
    assert (HB : st_known (fst B)); [|destruct xv; [exact HB|exact HK|exact HB|exact HB]] end.
  match goal with |- context [if ?b then (s, Some EInvalidOp) else _] => destruct b; [exact HK|] end.
  cbv zeta.
  match goal with |- context [if existsb ?f ?l then (s, Some EReject) else _] =>
    destruct (existsb f l); [exact HK|] end.
  destruct (positions_of (w_dev (st_wl s)) (lw_geom Ld) (flattenF dwells)) as [ps|e]; [|exact HK].
  destruct (sort_Z (map Z.of_nat ps)) as [|p0 sorted']; [exact HK|].
  match goal with |- context [if negb ?b then _ else _] => destruct (negb b); [exact HK|] end.
  match goal with |- context [remove Ls ?w ?x ?lab] =>
    pose proof (remove_inv Ls w x lab HLs) as HR;
    pose proof (remove_known_inv Ls w x lab HLs HKs) as HRK;
    destruct (remove Ls w x lab) as [Ls' [e|]] eqn:ER; cbn [fst] in HR, HRK end.
  { cbn [fst set_lw]. unfold st_known. cbn [st_lw]. apply Forall_upd'; [exact HK|exact HRK]. }
  destruct (remove_A0_ok _ _ _ _ _ ER) as (V & i_s & EV & HV & Eis & Hmin & ELs').
  assert (His : (i_s < n_wells (lw_geom Ls))%nat)
    by (apply (lw_index_lt Ls (well_id 0 (Z.to_nat (d_source_column a))) i_s); [apply HLs|exact Eis]).
  assert (HI1 : st_inv (set_lw s ks Ls'))
    by (unfold st_inv; cbn [set_lw st_lw]; apply Forall_upd'; [exact HI|exact HR]).
  assert (HK1 : st_known (set_lw s ks Ls'))
    by (unfold st_known; cbn [set_lw st_lw]; apply Forall_upd'; [exact HK|exact HRK]).
  unfold get_well_composition. rewrite ELs' at 1.
  rewrite (lw_index_geom' (log (rem_step Ls i_s V) (d_label a)) Ls _ eq_refl), Eis.
  rewrite well_composition_at_wca.
  assert (EC : lw_comp Ls' = lw_comp Ls) by (rewrite ELs'; reflexivity). rewrite EC.
  destruct (nth_error (st_lw (set_lw s ks Ls')) kd) as [Ld1|] eqn:ELd1; [|exact HK1].
  pose proof (st_inv_nth _ kd Ld1 HI1 ELd1) as HLd1. pose proof (st_known_nth _ kd Ld1 HK1 ELd1) as HKd1.
  pose proof (wca_comp_ok Ls i_s HLs) as [HC HCs].
  assert (HA : known_inv (fst (add Ld1 (A1 (flattenF dwells)) (A0 xv) (d_label a)
                                  (Some (repeat (Some (wca (lw_comp Ls) i_s)) (length ps)))))).
  { apply add_known_inv'; try assumption.
    - cbn [comps_ok]. apply Forall_forall. intros oc Hoc. apply repeat_spec in Hoc. subst oc. exact HC.
    - intros wv EP.
      destruct xv as [q| | |]; unfold xmul_nat in EV; try (destruct (length ps =? 0)%nat; discriminate).
      assert (EV' : Qred (q * inject_Z (Z.of_nat (length ps))) = V) by congruence.
      destruct (length ps) as [|n'] eqn:En.
      + cbn [repeat]. rewrite zip_nil_r. constructor.
      + apply (dist_items_known wv q); [exact (prep_A1_A0 _ _ _ EP)|]. intro Hq.
        unfold comp_full. rewrite (HCs His). apply (HKs i_s His).
        pose proof HLs as [(_ & _ & Hmin0 & _) _].
        assert (HVpos : 0 < V).
        { rewrite <- EV', Qred_correct.
          assert (Hn : 0 < inject_Z (Z.of_nat (S n')))
            by (change 0 with (inject_Z 0); rewrite <- Zlt_Qlt; lia).
          nra. }
        rewrite Qred_correct in Hmin. lra. }
  pose proof (add_inv Ld1 (A1 (flattenF dwells)) (A0 xv) (d_label a)
                (Some (repeat (Some (wca (lw_comp Ls) i_s)) (length ps))) HLd1) as HAI.
  destruct (add Ld1 (A1 (flattenF dwells)) (A0 xv) (d_label a)
              (Some (repeat (Some (wca (lw_comp Ls) i_s)) (length ps)))) as [Ld' [e|]]; cbn [fst] in HA, HAI.
  { cbn [fst set_lw]. unfold st_known. cbn [st_lw]. apply Forall_upd'; [exact HK1|exact HA]. }
  assert (HK2 : st_known (set_lw (set_lw s ks Ls') kd Ld'))
    by (unfold st_known; cbn [set_lw st_lw]; apply Forall_upd'; [exact HK1|exact HA]).
  destruct (ks =? kd)%nat;
  match goal with |- context [comment (st_wl ?s2) ?lab] =>
    assert (HK3 : st_known s2) by (try apply condense_at_known; exact HK2);
    destruct (comment (st_wl s2) lab) as [w1 [e|]]; [exact HK3|] end;
  match goal with |- context [reagent_distribution ?w ?args] =>
    destruct (reagent_distribution w args) as [w2 e2] end; exact HK3.
Qed.

(* ------------------------------------------------------------------ statements as used in Props/C05.v *)

(** C05_write_local *)
Lemma write_composition_local L i c :
  Forall (fun ka => length (snd ka) = n_wells (lw_geom L)) (lw_comp L) ->
  (i < n_wells (lw_geom L))%nat -> NoDup (map fst c) ->
  let L' := write_composition L i c in
  (lw_name L' = lw_name L /\ lw_geom L' = lw_geom L /\ lw_min L' = lw_min L /\ lw_max L' = lw_max L /\
   lw_vols L' = lw_vols L /\ lw_hist L' = lw_hist L) /\
  Forall (fun ka => length (snd ka) = n_wells (lw_geom L)) (lw_comp L') /\
  map fst (lw_comp L') = (map fst (lw_comp L) ++ fresh_keys (map fst (lw_comp L)) (map fst c))%list /\
  (forall k a, assoc_get k (lw_comp L) = Some a ->
     exists a', assoc_get k (lw_comp L') = Some a' /\ length a' = length a /\
                forall j d, j <> i -> nth j a' d = nth j a d) /\
  (forall k, assoc_get k (lw_comp L) = None -> In k (map fst c) ->
     exists a', assoc_get k (lw_comp L') = Some a' /\ length a' = n_wells (lw_geom L) /\
                forall j, j <> i -> nth j a' 0 = 0) /\
  (forall k, In k (map fst c) -> frac L' k i = cget k c) /\
  (forall k, ~ In k (map fst c) -> assoc_get k (lw_comp L') = assoc_get k (lw_comp L)) /\
  (forall k j, j <> i -> frac L' k j = frac L k j).
Proof.
  intros HL Hi NC L'. unfold L'. split; [apply write_composition_fields|].
  rewrite write_composition_comp. split; [apply wc_fold_len; exact HL|].
  split; [apply wc_fold_keys; exact NC|]. split; [intros k a E; apply wc_fold_arrays; exact E|].
  split.
  { intros k E Hin. destruct (wc_fold_new _ i c NC (lw_comp L) k HL Hi E Hin) as (a' & E' & Ln & _ & Hz).
    exists a'. split; [exact E'|]. split; [exact Ln|exact Hz]. }
  split.
  { intros k Hin. unfold frac. rewrite write_composition_comp, wc_fold_frac by assumption.
    rewrite Nat.eqb_refl. apply mem_str_true in Hin. rewrite Hin. reflexivity. }
  split; [intros k Hnin; apply wc_fold_other; exact Hnin|].
  intros k j Hj. unfold frac. rewrite write_composition_comp, wc_fold_frac by assumption.
  destruct (Nat.eqb_spec i j) as [E|_]; [congruence|reflexivity].
Qed.

(** C05_add_step: the loop element *)
Lemma add_loop_step L w v oc rest i : lw_index L w = Some i ->
  Qgtb (Qred (vol_at L i + v)) (lw_max L) = false ->
  add_loop L ((w, XQ v, oc) :: rest) = add_loop (add_step L i v oc) rest.
Proof. intros Ei Eg. rewrite add_loop_cons', Ei, Eg. reflexivity. Qed.

Lemma remove_loop_step L w v rest i : lw_index L w = Some i ->
  Qltb (Qred (vol_at L i - v)) (lw_min L) = false ->
  remove_loop L ((w, XQ v) :: rest) = remove_loop (rem_step L i v) rest.
Proof. intros Ei Eg. rewrite remove_loop_cons', Ei, Eg. reflexivity. Qed.

Lemma mk_labware_known a L : mk_labware a = Ok L -> known_inv L.
Proof. intros H i Hi Hv. destruct (mk_labware_init a L H) as (_ & _ & HK). apply (HK i Hi). exact Hv. Qed.

Lemma mk_trough_known a L : mk_trough a = Ok L -> known_inv L.
Proof.
  intro H. destruct (mk_trough_ok a L H) as (zc & cn & ivs & _ & _ & _ & _ & HL).
  exact (mk_labware_known _ L HL).
Qed.

Lemma mk_labware_mix_inv a L : mk_labware a = Ok L -> mix_inv L.
Proof. intro H. exact (proj1 (mk_labware_init a L H)). Qed.

Lemma mk_trough_mix_inv a L : mk_trough a = Ok L -> mix_inv L.
Proof.
  intro H. destruct (mk_trough_ok a L H) as (zc & cn & ivs & _ & _ & _ & _ & HL).
  exact (mk_labware_mix_inv _ L HL).
Qed.

Lemma wf_labware_vol_base L : wf_labware L -> vol_base L.
Proof.
  intros [(Hg & Hlen & _) (Hmin & _ & HV)]. split; [exact Hg|]. split; [exact Hlen|].
  split; [exact Hmin|]. eapply Forall_impl; [|exact HV]. intros v [H _]. exact H.
Qed.

Lemma mix_inv_well_sum L i : mix_inv L -> (i < n_wells (lw_geom L))%nat -> 0 <= well_sum L i /\ well_sum L i <= 1.
Proof.
  intros [_ (HL & ND & HB & HS)] Hi. split; [|apply HS; exact Hi].
  unfold well_sum, col_sum. apply Qsum_map_nonneg. intros ka Hka.
  unfold frac_bounds in HB. rewrite Forall_forall in HB.
  apply (Forall_nth' (fun f => 0 <= f /\ f <= 1) (snd ka) 0 i (HB ka Hka)). lra.
Qed.

(** the component amounts an accepted [add] of known compositions brings in *)
Lemma add_amount L wells vols label cs L' k : mix_inv L -> Forall ocomp_ok cs ->
  Forall (fun oc => oc <> None) cs ->
  add L wells vols label (Some cs) = (L', None) ->
  exists wv, prep_wells_vols wells vols = Ok wv /\ length cs = length wv /\
    lw_amount L' k == lw_amount L k
                      + items_amt k (map (fun p => (fst (fst p), snd (fst p), snd p)) (zip wv cs)).
Proof.
  intros HI HC HS H. destruct (add_some_ok _ _ _ _ _ _ H) as (wv & L1 & EP & Elen & EAL & EL').
  exists wv. split; [exact EP|]. split; [exact Elen|]. rewrite EL'.
  change (lw_amount (log L1 label) k) with (lw_amount L1 k).
  assert (HB : Forall (fun oc => ocomp_ok oc /\ oc <> None) cs).
  { apply Forall_forall. intros oc Hoc. rewrite Forall_forall in HC, HS. split; [apply HC|apply HS]; exact Hoc. }
  pose proof (Forall_zip _ _ wv cs (prep_wells_vols_vol_ok _ _ _ EP) HB) as HZ.
  apply (add_loop_amount _ k L L1 HI); [| |exact EAL]; apply Forall_map;
    (eapply Forall_impl; [|exact HZ]); intros [[w x] oc] [H1 [H2 H3]]; cbn [fst snd] in *.
  - split; assumption.
  - exact H3.
Qed.
