(** C01, continued: (1) the TEXT of the worklist, read back by the independent parser of Spec/Gwl.v and
    executed by the interpreter of Spec/Robot.v, reproduces the tracked volumes (exactly when every pipetted
    volume has at most two decimals, within n/200 otherwise); (2) the composition refinement for [distribute]. *)
From Robo Require Import Prelude Str Wells Utils Labware Tips Records Partition Params Worklist EvoCmd
  Program Invariants Robot Gwl CmdParse WellsProofs LabwareProofs RecordsProofs RefinementProofs TextExtraProofs.
From Coq Require Import Lqa Permutation Sorting.Sorted.
#[local] Open Scope Q_scope.

(* ================================================================== part 1: the rendered worklist *)

(* ------------------------------------------------------------------ parsed record -> structured record *)

(** value of a digit string (any other character counts as its code minus 48; only used on digit strings) *)
Fixpoint digits_val (s : string) (acc : N) : N :=
  match s with
  | EmptyString => acc
  | String a r => digits_val r (10 * acc + (N_of_ascii a - 48))%N
  end.

(** the volume field of an R record: "50" is the int 50, "12.5" the number 12 + 5/10 *)
Definition pynum_of_text (s : string) : option pynum :=
  match parse_decimal s with
  | Some (i, EmptyString) => Some (PyI (Z.of_N i))
  | Some (i, fp) =>
      Some (PyF (inject_Z (Z.of_N i) +
                 inject_Z (Z.of_N (digits_val fp 0)) / inject_Z (10 ^ Z.of_nat (String.length fp))))
  | None => None
  end.

(** an A / D record as the text says it: the volume is hundredths / 100 *)
Definition adfields_of_pad (p : pad) : adfields :=
  {| ad_rack_label := pa_rack_label p; ad_rack_id := pa_rack_id p; ad_rack_type := pa_rack_type p;
     ad_position := Z.of_N (pa_position p); ad_tube_id := pa_tube_id p;
     ad_volume := inject_Z (Z.of_N (pa_volume_c p)) / 100;
     ad_liquid_class := pa_liquid_class p; ad_tip := pa_tip p;
     ad_forced_rack_type := pa_forced_rack_type p |}.

Definition rfields_of_prd (p : prd) (v : pynum) : rfields :=
  {| r_src_label := pr_src_label p; r_src_id := pr_src_id p; r_src_type := pr_src_type p;
     r_src_start := Z.of_N (pr_src_start p); r_src_end := Z.of_N (pr_src_end p);
     r_dst_label := pr_dst_label p; r_dst_id := pr_dst_id p; r_dst_type := pr_dst_type p;
     r_dst_start := Z.of_N (pr_dst_start p); r_dst_end := Z.of_N (pr_dst_end p);
     r_volume := v; r_liquid_class := pr_liquid_class p;
     r_diti_reuse := Z.of_N (pr_diti_reuse p); r_multi_disp := Z.of_N (pr_multi_disp p);
     r_direction := pr_direction p; r_exclude := map Z.of_N (pr_exclude p) |}.

Definition srec_of_prec (p : prec) : option srec :=
  match p with
  | PA f => Some (RA (adfields_of_pad f))
  | PD f => Some (RD (adfields_of_pad f))
  | PR f => match pynum_of_text (pr_volume f) with
            | Some v => Some (RR (rfields_of_prd f v))
            | None => None
            end
  | PW None => Some (RW None)
  | PW (Some n) => Some (RW (Some (N.to_nat n)))
  | PWD => Some RWD
  | PF => Some RF
  | PB => Some RB
  | PC t => Some (RC t)
  | PS i => Some (RS (Z.of_N i))
  end.

(** one line of the file, all lines of the file, executing the file *)
Definition read_line (line : string) : option srec :=
  match parse_record line with Some p => srec_of_prec p | None => None end.

Fixpoint read_lines (lines : list string) : option (list srec) :=
  match lines with
  | [] => Some []
  | l :: rest => match read_line l, read_lines rest with
                 | Some r, Some rs => Some (r :: rs)
                 | _, _ => None
                 end
  end.

Definition interp_text (checked : bool) (d : device) (rb : robot) (lines : list string) : option robot :=
  match read_lines lines with Some recs => interp checked d rb recs | None => None end.

(* ------------------------------------------------------------------ one record *)

(** the A / D record denoted by the text of [RA f] / [RD f] *)
Definition text_ad (f : adfields) : adfields :=
  {| ad_rack_label := ad_rack_label f; ad_rack_id := ad_rack_id f; ad_rack_type := ad_rack_type f;
     ad_position := ad_position f; ad_tube_id := ad_tube_id f;
     ad_volume := inject_Z (round2c (ad_volume f)) / 100;
     ad_liquid_class := ad_liquid_class f; ad_tip := ad_tip f;
     ad_forced_rack_type := ad_forced_rack_type f |}.

Lemma adfields_of_pad_of f : (0 <= ad_position f)%Z -> 0 <= ad_volume f ->
  adfields_of_pad (rc_pad_of f) = text_ad f.
Proof.
  intros Hp Hv. pose proof (rc_round2c_nonneg _ Hv) as Hr.
  unfold adfields_of_pad, rc_pad_of, text_ad.
  cbn [pa_rack_label pa_rack_id pa_rack_type pa_position pa_tube_id pa_volume_c pa_liquid_class pa_tip
       pa_forced_rack_type].
  rewrite !Z2N.id by assumption. reflexivity.
Qed.

Lemma read_line_A f : rc_ad_nosep f -> (0 <= ad_position f)%Z -> 0 <= ad_volume f ->
  read_line (render (RA f)) = Some (RA (text_ad f)).
Proof.
  intros Hs Hp Hv. unfold read_line. rewrite (rc_roundtrip_A f Hs Hp). cbn [srec_of_prec].
  rewrite adfields_of_pad_of by assumption. reflexivity.
Qed.

Lemma read_line_D f : rc_ad_nosep f -> (0 <= ad_position f)%Z -> 0 <= ad_volume f ->
  read_line (render (RD f)) = Some (RD (text_ad f)).
Proof.
  intros Hs Hp Hv. unfold read_line. rewrite (rc_roundtrip_D f Hs Hp). cbn [srec_of_prec].
  rewrite adfields_of_pad_of by assumption. reflexivity.
Qed.

Lemma text_ad_bound f : Qabs (ad_volume (text_ad f) - ad_volume f) <= 1 # 200.
Proof. cbn [text_ad ad_volume]. apply rc_round2c_bound. Qed.

Lemma text_ad_exact f z : ad_volume f * 100 == inject_Z z -> ad_volume (text_ad f) == ad_volume f.
Proof.
  intro H. cbn [text_ad ad_volume]. rewrite (rc_round2c_exact _ _ H), <- H. field.
Qed.

(** C01_rendered_record, A / D *)
Lemma rendered_AD f : rc_ad_nosep f -> (0 <= ad_position f)%Z -> 0 <= ad_volume f ->
  exists f', read_line (render (RA f)) = Some (RA f') /\ read_line (render (RD f)) = Some (RD f') /\
    ad_rack_label f' = ad_rack_label f /\ ad_position f' = ad_position f /\
    Qabs (ad_volume f' - ad_volume f) <= 1 # 200 /\
    (forall z, ad_volume f * 100 == inject_Z z -> ad_volume f' == ad_volume f) /\
    ad_rack_id f' = ad_rack_id f /\ ad_rack_type f' = ad_rack_type f /\ ad_tube_id f' = ad_tube_id f /\
    ad_liquid_class f' = ad_liquid_class f /\ ad_tip f' = ad_tip f /\
    ad_forced_rack_type f' = ad_forced_rack_type f.
Proof.
  intros Hs Hp Hv. exists (text_ad f).
  split; [apply read_line_A; assumption|]. split; [apply read_line_D; assumption|].
  split; [reflexivity|]. split; [reflexivity|]. split; [apply text_ad_bound|].
  split; [apply text_ad_exact|]. repeat split.
Qed.

(** the R record denoted by the text of [RR f]: everything but the volume is read back as it is *)
Definition set_r_volume (f : rfields) (v : pynum) : rfields :=
  {| r_src_label := r_src_label f; r_src_id := r_src_id f; r_src_type := r_src_type f;
     r_src_start := r_src_start f; r_src_end := r_src_end f;
     r_dst_label := r_dst_label f; r_dst_id := r_dst_id f; r_dst_type := r_dst_type f;
     r_dst_start := r_dst_start f; r_dst_end := r_dst_end f;
     r_volume := v; r_liquid_class := r_liquid_class f;
     r_diti_reuse := r_diti_reuse f; r_multi_disp := r_multi_disp f;
     r_direction := r_direction f; r_exclude := r_exclude f |}.

Lemma rfields_of_prd_of f v : rc_r_nonneg f -> rfields_of_prd (rc_prd_of f) v = set_r_volume f v.
Proof.
  intros (P1 & P2 & P3 & P4 & P5 & P6 & PX). unfold rfields_of_prd, rc_prd_of, set_r_volume.
  cbn [pr_src_label pr_src_id pr_src_type pr_src_start pr_src_end pr_dst_label pr_dst_id pr_dst_type
       pr_dst_start pr_dst_end pr_volume pr_liquid_class pr_diti_reuse pr_multi_disp pr_direction pr_exclude].
  rewrite !Z2N.id by assumption. rewrite rc_of_to_N_list by exact PX. reflexivity.
Qed.

Lemma set_r_volume_same f : set_r_volume f (r_volume f) = f.
Proof. destruct f; reflexivity. Qed.

Lemma pynum_of_text_int z : (0 <= z)%Z -> pynum_of_text (render_pynum (PyI z)) = Some (PyI z).
Proof.
  intro H. unfold pynum_of_text. rewrite (rc_parse_decimal_int z H). rewrite Z2N.id by exact H. reflexivity.
Qed.

Lemma pynum_of_text_float q : exists v, pynum_of_text (render_pynum (PyF q)) = Some v.
Proof.
  destruct (rc_parse_decimal_float q) as (i & fp & Hp & _ & Hne). unfold pynum_of_text. rewrite Hp.
  destruct fp as [|a r]; [congruence|]. eexists. reflexivity.
Qed.

(** the value [pynum_of_text] gives to a digit string is the value [tx_ival] / [frac_val] of Spec/CmdParse.v *)
Lemma digits_val_ival s : forall acc, digits_val s acc = tx_ival s acc.
Proof.
  induction s as [|a r IH]; intro acc; cbn [digits_val tx_ival]; [reflexivity|].
  rewrite IH. f_equal. unfold tx_dN, nat_of_ascii. rewrite Nat2N.inj_sub, N2Nat.id. change (N.of_nat 48) with 48%N. lia.
Qed.

(** a non-negative dyadic rational (every Python float is one): the text written by [repr(float)] (exact
    terminating expansion, see the caveat in Props/C09.v) is read back to a number of the same value *)
Lemma pynum_of_text_float_value q k : 0 <= q -> Npos (Qden (Qred q)) = (2 ^ N.of_nat k)%N ->
  exists v, pynum_of_text (render_pynum (PyF q)) = Some v /\ pynum_q v == q.
Proof.
  intros Hq Hd. destruct (tx_pyrepr_float_value q k Hq Hd) as (i & fp & P & _ & Hne & V).
  unfold pynum_of_text. cbn [render_pynum]. rewrite P. destruct fp as [|a r]; [congruence|].
  eexists. split; [reflexivity|]. cbn [pynum_q]. rewrite <- V. unfold dec_val.
  set (fp := String a r). rewrite digits_val_ival, <- (tx_frac_val_ival fp).
  pose proof (tx_p10_pos (String.length fp)) as P10. unfold tx_p10 in *. field.
  intro C. rewrite C in P10. exact (Qlt_irrefl 0 P10).
Qed.

(** C01_rendered_record, R *)
Lemma rendered_R f : rc_r_nosep f -> rc_r_nonneg f ->
  match r_volume f with PyI z => (0 <= z)%Z | PyF _ => True end ->
  exists v, read_line (render (RR f)) = Some (RR (set_r_volume f v)) /\
    (forall z, r_volume f = PyI z -> v = PyI z /\ set_r_volume f v = f).
Proof.
  intros Hs Hn Hv. unfold read_line. rewrite (rc_roundtrip_R_rec f Hs Hn). cbn [srec_of_prec].
  change (pr_volume (rc_prd_of f)) with (render_pynum (r_volume f)).
  destruct (r_volume f) as [z|q] eqn:Ev.
  - rewrite (pynum_of_text_int z Hv). exists (PyI z). rewrite rfields_of_prd_of by exact Hn.
    split; [reflexivity|]. intros z0 E. injection E as <-. split; [reflexivity|].
    rewrite <- Ev. apply set_r_volume_same.
  - destruct (pynum_of_text_float q) as [v Hq]. rewrite Hq. exists v. rewrite rfields_of_prd_of by exact Hn.
    split; [reflexivity|]. intros z0 E. discriminate.
Qed.

(** C01_rendered_record, R with a float volume: the number read back has the value of the float *)
Lemma rendered_R_float f q k : rc_r_nosep f -> rc_r_nonneg f ->
  r_volume f = PyF q -> 0 <= q -> Npos (Qden (Qred q)) = (2 ^ N.of_nat k)%N ->
  exists v, read_line (render (RR f)) = Some (RR (set_r_volume f v)) /\ pynum_q v == q.
Proof.
  intros Hs Hn Ev Hq Hd. unfold read_line. rewrite (rc_roundtrip_R_rec f Hs Hn). cbn [srec_of_prec].
  change (pr_volume (rc_prd_of f)) with (render_pynum (r_volume f)). rewrite Ev.
  destruct (pynum_of_text_float_value q k Hq Hd) as (v & Hv & Hval). rewrite Hv.
  exists v. rewrite rfields_of_prd_of by exact Hn. split; [reflexivity|exact Hval].
Qed.

(** C01_rendered_record, the records that do not move liquid *)
Lemma rendered_simple :
  read_line (render (RW None)) = Some (RW None) /\
  (forall n, (1 <= n <= 4)%nat -> read_line (render (RW (Some n))) = Some (RW (Some n))) /\
  read_line (render RWD) = Some RWD /\ read_line (render RF) = Some RF /\ read_line (render RB) = Some RB /\
  (forall t, rc_nosep t -> read_line (render (RC t)) = Some (RC t)) /\
  (forall i, (0 <= i)%Z -> read_line (render (RS i)) = Some (RS i)).
Proof.
  split; [reflexivity|]. split.
  { intros n Hn. unfold read_line. rewrite (rc_roundtrip_Wn n Hn). cbn [srec_of_prec].
    rewrite Nat2N.id. reflexivity. }
  split; [reflexivity|]. split; [reflexivity|]. split; [reflexivity|]. split.
  - intros t Ht. unfold read_line. rewrite (rc_roundtrip_C t Ht). reflexivity.
  - intros i Hi. unfold read_line. rewrite (rc_roundtrip_S i Hi). cbn [srec_of_prec].
    rewrite Z2N.id by exact Hi. reflexivity.
Qed.

(* ------------------------------------------------------------------ valid records, closeness of records *)

(** a record whose text can be read back (for A / D: the hypotheses of C09_roundtrip_AD, which
    [prepare_ad] guarantees; for R: those of C09_roundtrip_R, a non-negative int volume or a float) *)
Definition rec_valid (r : srec) : Prop :=
  match r with
  | RA f | RD f => rc_ad_nosep f /\ (0 <= ad_position f)%Z /\ 0 <= ad_volume f
  | RR f => rc_r_nosep f /\ rc_r_nonneg f /\ match r_volume f with PyI z => (0 <= z)%Z | PyF _ => True end
  | RW None => True
  | RW (Some n) => (1 <= n <= 4)%nat
  | RWD | RF | RB => True
  | RC t => rc_nosep t
  | RS i => (0 <= i)%Z
  | RCmd _ => False
  end.

(** every A / D volume is a multiple of 1/100 *)
Definition cents_ok (r : srec) : Prop :=
  match r with
  | RA f | RD f => exists z, ad_volume f * 100 == inject_Z z
  | _ => True
  end.

(** every R volume is an int *)
Definition r_int (r : srec) : Prop :=
  match r with RR f => exists z, r_volume f = PyI z | _ => True end.

(** ... or a float: a non-negative dyadic rational (what a Python float is) *)
Definition r_num (r : srec) : Prop :=
  match r with
  | RR f => (exists z, r_volume f = PyI z) \/
            (exists q k, r_volume f = PyF q /\ 0 <= q /\ Npos (Qden (Qred q)) = (2 ^ N.of_nat k)%N)
  | _ => True
  end.

Lemma r_int_num r : r_int r -> r_num r.
Proof. destruct r; cbn [r_int r_num]; try (intros _; exact I). intro H. left. exact H. Qed.

Definition ad_near (e : Q) (f f' : adfields) : Prop :=
  ad_rack_label f' = ad_rack_label f /\ ad_position f' = ad_position f /\
  Qabs (ad_volume f' - ad_volume f) <= e.

(** [r'] is [r] up to an error [e] in the volume of an A / D record; the volume of an R record may be
    another representation of the same number (an int stays that int) *)
Definition srec_near (e : Q) (r r' : srec) : Prop :=
  match r with
  | RA f => exists f', r' = RA f' /\ ad_near e f f'
  | RD f => exists f', r' = RD f' /\ ad_near e f f'
  | RR f => exists v, r' = RR (set_r_volume f v) /\ pynum_q v == pynum_q (r_volume f) /\
                      (forall z, r_volume f = PyI z -> v = PyI z)
  | _ => r' = r
  end.

Lemma Qabs_zero_le x : x == 0 -> Qabs x <= 0.
Proof. intro H. rewrite H. cbn. lra. Qed.

Lemma read_line_near r : rec_valid r -> r_num r ->
  exists r', read_line (render r) = Some r' /\ srec_near (1 # 200) r r' /\
             (cents_ok r -> srec_near 0 r r').
Proof.
  destruct (rendered_simple) as (S1 & S2 & S3 & S4 & S5 & S6 & S7).
  destruct r as [f|f|f|[n|]| | | |t|i|s]; cbn [rec_valid r_num cents_ok]; intros Hv Hi.
  - destruct Hv as (Hs & Hp & Hv). exists (RA (text_ad f)).
    split; [apply read_line_A; assumption|]. split.
    + exists (text_ad f). split; [reflexivity|]. split; [reflexivity|]. split; [reflexivity|apply text_ad_bound].
    + intros [z Hz]. exists (text_ad f). split; [reflexivity|]. split; [reflexivity|]. split; [reflexivity|].
      apply Qabs_zero_le. rewrite (text_ad_exact f z Hz). ring.
  - destruct Hv as (Hs & Hp & Hv). exists (RD (text_ad f)).
    split; [apply read_line_D; assumption|]. split.
    + exists (text_ad f). split; [reflexivity|]. split; [reflexivity|]. split; [reflexivity|apply text_ad_bound].
    + intros [z Hz]. exists (text_ad f). split; [reflexivity|]. split; [reflexivity|]. split; [reflexivity|].
      apply Qabs_zero_le. rewrite (text_ad_exact f z Hz). ring.
  - destruct Hv as (Hs & Hn & Hv). destruct Hi as [[z Hz]|(q & k & Hq & Hq0 & Hd)].
    + destruct (rendered_R f Hs Hn Hv) as (v & Hr & Hex). destruct (Hex z Hz) as [Hvz Hf].
      exists (RR (set_r_volume f v)). split; [exact Hr|].
      assert (Hnear : srec_near 0 (RR f) (RR (set_r_volume f v))).
      { exists v. split; [reflexivity|]. split; [rewrite Hvz, Hz; reflexivity|].
        intros z0 E. rewrite Hz in E. injection E as <-. exact Hvz. }
      split; [exact Hnear|intros _; exact Hnear].
    + destruct (rendered_R_float f q k Hs Hn Hq Hq0 Hd) as (v & Hr & Hval).
      exists (RR (set_r_volume f v)). split; [exact Hr|].
      assert (Hnear : srec_near 0 (RR f) (RR (set_r_volume f v))).
      { exists v. split; [reflexivity|]. split; [rewrite Hq; exact Hval|].
        intros z0 E. rewrite Hq in E. discriminate E. }
      split; [exact Hnear|intros _; exact Hnear].
  - exists (RW (Some n)). split; [apply S2; exact Hv|]. split; [reflexivity|intros _; reflexivity].
  - exists (RW None). split; [exact S1|]. split; [reflexivity|intros _; reflexivity].
  - exists RWD. split; [exact S3|]. split; [reflexivity|intros _; reflexivity].
  - exists RF. split; [exact S4|]. split; [reflexivity|intros _; reflexivity].
  - exists RB. split; [exact S5|]. split; [reflexivity|intros _; reflexivity].
  - exists (RC t). split; [apply S6; exact Hv|]. split; [reflexivity|intros _; reflexivity].
  - exists (RS i). split; [apply S7; exact Hv|]. split; [reflexivity|intros _; reflexivity].
  - contradiction.
Qed.

Lemma read_lines_near recs : Forall rec_valid recs -> Forall r_num recs ->
  exists recs', read_lines (map render recs) = Some recs' /\
    Forall2 (srec_near (1 # 200)) recs recs' /\
    (Forall cents_ok recs -> Forall2 (srec_near 0) recs recs').
Proof.
  induction recs as [|r rest IH]; intros Hv Hi.
  - exists []. split; [reflexivity|]. split; [constructor|intros _; constructor].
  - inversion Hv as [|r0 l0 Hv1 Hv2]; subst. inversion Hi as [|r0 l0 Hi1 Hi2]; subst.
    destruct (read_line_near r Hv1 Hi1) as (r' & Hr & Hn & Hc).
    destruct (IH Hv2 Hi2) as (rest' & Hrest & Hn' & Hc').
    exists (r' :: rest'). cbn [map read_lines]. rewrite Hr, Hrest.
    split; [reflexivity|]. split; [constructor; assumption|].
    intro Hall. inversion Hall as [|r0 l0 Hc1 Hc2]; subst. constructor; [apply Hc; exact Hc1|apply Hc'; exact Hc2].
Qed.

(* ------------------------------------------------------------------ closeness of robots *)

(** [find_rack] only looks at the names *)
Fixpoint find_name (names : list string) (name : string) : option nat :=
  match names with
  | [] => None
  | n :: rest => if String.eqb n name then Some 0%nat
                 else match find_name rest name with Some i => Some (S i) | None => None end
  end.

Lemma find_rack_name rs name : find_rack rs name = find_name (map rk_name rs) name.
Proof. induction rs as [|r rest IH]; cbn [find_rack find_name map]; [reflexivity|]. rewrite IH. reflexivity. Qed.

(** the A / D record with rack label [label] and position [p] addresses real well [j] of rack number [k] *)
Definition hit_ad (d : device) (names : list string) (geoms : list geom) (label : string) (p k j : nat) : bool :=
  match find_name names label with
  | Some k0 => match nth_error geoms k0 with
               | Some g => match unpos d g p with
                           | Some i => ((k0 =? k) && (i =? j))%nat
                           | None => false
                           end
               | None => false
               end
  | None => false
  end.

Definition hit_rec (d : device) (names : list string) (geoms : list geom) (r : srec) (k j : nat) : bool :=
  match r with
  | RA f | RD f => hit_ad d names geoms (ad_rack_label f) (Z.to_nat (ad_position f)) k j
  | _ => false
  end.

(** number of A / D records of [recs] that address real well [j] of rack number [k] *)
Fixpoint hits (d : device) (names : list string) (geoms : list geom) (recs : list srec) (k j : nat) : nat :=
  match recs with
  | [] => 0%nat
  | r :: rest => ((if hit_rec d names geoms r k j then 1 else 0) + hits d names geoms rest k j)%nat
  end.

Definition mk_rack (r : rack) (vols : list Q) (comp : list (string * list Q)) : rack :=
  {| rk_name := rk_name r; rk_geom := rk_geom r; rk_min := rk_min r; rk_max := rk_max r;
     rk_vols := vols; rk_comp := comp |}.

(** same limits, every well within [E j] (compositions are not compared) *)
Definition rack_near (E : nat -> Q) (r r' : rack) : Prop :=
  rk_min r' = rk_min r /\ rk_max r' = rk_max r /\ length (rk_vols r') = length (rk_vols r) /\
  forall j, Qabs (nth j (rk_vols r') 0 - nth j (rk_vols r) 0) <= E j.

Definition racks_near (E : nat -> nat -> Q) (rs rs' : list rack) : Prop :=
  map rk_name rs' = map rk_name rs /\ map rk_geom rs' = map rk_geom rs /\
  forall k r r', nth_error rs k = Some r -> nth_error rs' k = Some r' -> rack_near (E k) r r'.

Lemma racks_near_refl rs : racks_near (fun _ _ => 0) rs rs.
Proof.
  split; [reflexivity|]. split; [reflexivity|]. intros k r r' H H'. rewrite H in H'. injection H' as <-.
  repeat split. intro j. apply Qabs_zero_le. ring.
Qed.

Lemma racks_near_weaken E E' rs rs' : racks_near E rs rs' -> (forall k j, E k j <= E' k j) -> racks_near E' rs rs'.
Proof.
  intros (Hn & Hg & Hp) Hle. split; [exact Hn|]. split; [exact Hg|].
  intros k r r' H H'. destruct (Hp k r r' H H') as (A & B & C & D). repeat split; try assumption.
  intro j. eapply Qle_trans; [apply D|apply Hle].
Qed.

Lemma racks_near_nth E rs rs' k r : racks_near E rs rs' -> nth_error rs k = Some r ->
  exists r', nth_error rs' k = Some r' /\ rk_name r' = rk_name r /\ rk_geom r' = rk_geom r /\
             rack_near (E k) r r'.
Proof.
  intros (Hn & Hg & Hp) Hr.
  pose proof (f_equal (fun l => nth_error l k) Hn) as E1. cbv beta in E1. rewrite !nth_error_map, Hr in E1.
  pose proof (f_equal (fun l => nth_error l k) Hg) as E2. cbv beta in E2. rewrite !nth_error_map, Hr in E2.
  destruct (nth_error rs' k) as [r'|] eqn:Hr'; [|discriminate]. cbn [option_map] in E1, E2.
  injection E1 as E1. injection E2 as E2. exists r'. split; [reflexivity|]. split; [exact E1|]. split; [exact E2|].
  apply (Hp k r r' Hr Hr').
Qed.

Lemma map_upd_same {A B} (f : A -> B) (l : list A) k x y : nth_error l k = Some x -> f y = f x ->
  map f (upd l k y) = map f l.
Proof. intros H E. rewrite map_upd, E. apply upd_same. apply map_nth_error. exact H. Qed.

(** both robots change well [i] of rack [k] *)
Lemma racks_near_upd E E' rs rs' k r r' i x x' c c' :
  racks_near E rs rs' -> nth_error rs k = Some r -> nth_error rs' k = Some r' ->
  (forall k1 j, E k1 j <= E' k1 j) -> Qabs (x' - x) <= E' k i ->
  racks_near E' (upd rs k (mk_rack r (upd (rk_vols r) i x) c))
                (upd rs' k (mk_rack r' (upd (rk_vols r') i x') c')).
Proof.
  intros Hnear Hr Hr' Hle Hx. pose proof Hnear as (Hn & Hg & Hp).
  split; [rewrite (map_upd_same rk_name rs k r) by (exact Hr || reflexivity);
          rewrite (map_upd_same rk_name rs' k r') by (exact Hr' || reflexivity); exact Hn|].
  split; [rewrite (map_upd_same rk_geom rs k r) by (exact Hr || reflexivity);
          rewrite (map_upd_same rk_geom rs' k r') by (exact Hr' || reflexivity); exact Hg|].
  intros k1 a a' Ha Ha'. destruct (Nat.eq_dec k k1) as [<-|Hne].
  - rewrite nth_error_upd_same in Ha by (eapply nth_error_lt; exact Hr). injection Ha as <-.
    rewrite nth_error_upd_same in Ha' by (eapply nth_error_lt; exact Hr'). injection Ha' as <-.
    destruct (Hp k r r' Hr Hr') as (A & B & C & D). unfold rack_near, mk_rack. cbn [rk_min rk_max rk_vols].
    rewrite !upd_length. split; [exact A|]. split; [exact B|]. split; [exact C|].
    intro j. rewrite !nth_upd_cases, C.
    destruct ((i =? j)%nat && (i <? length (rk_vols r))%nat)%bool eqn:Ec.
    + apply andb_true_iff in Ec. destruct Ec as [Ec _]. apply Nat.eqb_eq in Ec. subst j. exact Hx.
    + eapply Qle_trans; [apply D|apply Hle].
  - rewrite nth_error_upd_other in Ha by exact Hne. rewrite nth_error_upd_other in Ha' by exact Hne.
    destruct (Hp k1 a a' Ha Ha') as (A & B & C & D). repeat split; try assumption.
    intro j. eapply Qle_trans; [apply D|apply Hle].
Qed.

Lemma hit_ad_here d rs label p k r i : find_rack rs label = Some k -> nth_error rs k = Some r ->
  unpos d (rk_geom r) p = Some i -> hit_ad d (map rk_name rs) (map rk_geom rs) label p k i = true.
Proof.
  intros Hf Hr Hu. unfold hit_ad. rewrite <- find_rack_name, Hf, (map_nth_error rk_geom _ _ Hr), Hu.
  rewrite !Nat.eqb_refl. reflexivity.
Qed.

Lemma Qabs_nonneg_le x e : Qabs x <= e -> 0 <= e.
Proof. intro H. eapply Qle_trans; [apply Qabs_nonneg|exact H]. Qed.

Lemma do_aspirate_near E E' e d rb rb' label p v v' rb1 :
  racks_near E (rb_racks rb) (rb_racks rb') -> Qabs (v' - v) <= e ->
  (forall k j, E k j + (if hit_ad d (map rk_name (rb_racks rb)) (map rk_geom (rb_racks rb)) label p k j
                        then e else 0) <= E' k j) ->
  do_aspirate false d rb label p v = Some rb1 ->
  exists rb1', do_aspirate false d rb' label p v' = Some rb1' /\ racks_near E' (rb_racks rb1) (rb_racks rb1').
Proof.
  intros Hnear Hv Hmono H. pose proof (Qabs_nonneg_le _ _ Hv) as He. unfold do_aspirate in *.
  destruct (find_rack (rb_racks rb) label) as [k|] eqn:Hf; [|discriminate].
  destruct (nth_error (rb_racks rb) k) as [r|] eqn:Hr; [|discriminate].
  destruct (unpos d (rk_geom r) p) as [i|] eqn:Hu; [|discriminate].
  cbn [andb] in H. injection H as <-.
  destruct (racks_near_nth _ _ _ _ _ Hnear Hr) as (r' & Hr' & Hn' & Hg' & (_ & _ & _ & Hd)).
  rewrite find_rack_name, (proj1 Hnear), <- find_rack_name, Hf, Hr', Hg', Hu. cbn [andb].
  eexists. split; [reflexivity|]. unfold with_rack. cbn [rb_racks].
  change (set_rack_vol r i (nth i (rk_vols r) 0 - v)) with (mk_rack r (upd (rk_vols r) i (nth i (rk_vols r) 0 - v)) (rk_comp r)).
  change (set_rack_vol r' i (nth i (rk_vols r') 0 - v')) with (mk_rack r' (upd (rk_vols r') i (nth i (rk_vols r') 0 - v')) (rk_comp r')).
  apply (racks_near_upd E); try assumption.
  - intros k1 j. specialize (Hmono k1 j). destruct (hit_ad _ _ _ _ _ _ _); lra.
  - specialize (Hmono k i). rewrite (hit_ad_here d _ label p k r i Hf Hr Hu) in Hmono.
    specialize (Hd i). apply Qabs_Qle_condition in Hd. apply Qabs_Qle_condition in Hv.
    eapply Qle_trans; [|exact Hmono]. apply Qabs_Qle_condition. split; lra.
Qed.

Lemma do_dispense_near E E' e d rb rb' label p v v' rb1 :
  racks_near E (rb_racks rb) (rb_racks rb') -> Qabs (v' - v) <= e ->
  (forall k j, E k j + (if hit_ad d (map rk_name (rb_racks rb)) (map rk_geom (rb_racks rb)) label p k j
                        then e else 0) <= E' k j) ->
  do_dispense false d rb label p v = Some rb1 ->
  exists rb1', do_dispense false d rb' label p v' = Some rb1' /\ racks_near E' (rb_racks rb1) (rb_racks rb1').
Proof.
  intros Hnear Hv Hmono H. pose proof (Qabs_nonneg_le _ _ Hv) as He. unfold do_dispense in *.
  destruct (find_rack (rb_racks rb) label) as [k|] eqn:Hf; [|discriminate].
  destruct (nth_error (rb_racks rb) k) as [r|] eqn:Hr; [|discriminate].
  destruct (unpos d (rk_geom r) p) as [i|] eqn:Hu; [|discriminate].
  cbn [andb] in H. injection H as <-.
  destruct (racks_near_nth _ _ _ _ _ Hnear Hr) as (r' & Hr' & Hn' & Hg' & (_ & _ & _ & Hd)).
  assert (Hu' : unpos d (rk_geom r') p = Some i) by (rewrite Hg'; exact Hu).
  rewrite find_rack_name, (proj1 Hnear), <- find_rack_name, Hf, Hr', Hu'. cbn [andb].
  eexists. split; [reflexivity|]. unfold with_rack. cbn [rb_racks].
  match goal with |- racks_near _ (upd _ _ ?a) (upd _ _ ?b) =>
    change a with (mk_rack r (upd (rk_vols r) i (nth i (rk_vols r) 0 + v)) (rk_comp a));
    change b with (mk_rack r' (upd (rk_vols r') i (nth i (rk_vols r') 0 + v')) (rk_comp b)) end.
  apply (racks_near_upd E); try assumption.
  - intros k1 j. specialize (Hmono k1 j). destruct (hit_ad _ _ _ _ _ _ _); lra.
  - specialize (Hmono k i). rewrite (hit_ad_here d _ label p k r i Hf Hr Hu) in Hmono.
    specialize (Hd i). apply Qabs_Qle_condition in Hd. apply Qabs_Qle_condition in Hv.
    eapply Qle_trans; [|exact Hmono]. apply Qabs_Qle_condition. split; lra.
Qed.

Lemma dispense_all_near E d label v v' ps : v' == v -> forall rb rb' rb1,
  racks_near E (rb_racks rb) (rb_racks rb') -> dispense_all false d rb label ps v = Some rb1 ->
  exists rb1', dispense_all false d rb' label ps v' = Some rb1' /\ racks_near E (rb_racks rb1) (rb_racks rb1').
Proof.
  intro Hvv. induction ps as [|p rest IH]; intros rb rb' rb1 Hnear H; cbn [dispense_all] in *.
  - injection H as <-. exists rb'. split; [reflexivity|exact Hnear].
  - destruct (do_dispense false d rb label p v) as [rb2|] eqn:Ed; [|discriminate].
    destruct (do_dispense_near E E 0 d rb rb' label p v v' rb2 Hnear) as (rb2' & Ed' & Hnear2).
    + apply Qabs_zero_le. rewrite Hvv. ring.
    + intros k j. destruct (hit_ad _ _ _ _ _ _ _); lra.
    + exact Ed.
    + rewrite Ed'. apply (IH rb2 rb2' rb1 Hnear2 H).
Qed.

Lemma do_reagent_near E d rb rb' f v rb1 : pynum_q v == pynum_q (r_volume f) ->
  racks_near E (rb_racks rb) (rb_racks rb') -> do_reagent false d rb f = Some rb1 ->
  exists rb1', do_reagent false d rb' (set_r_volume f v) = Some rb1' /\
               racks_near E (rb_racks rb1) (rb_racks rb1').
Proof.
  intros Hvv Hnear H. unfold do_reagent in *.
  cbn [set_r_volume r_src_label r_src_start r_src_end r_dst_label r_dst_start r_dst_end r_exclude r_volume].
  destruct (find_rack (rb_racks rb) (r_src_label f)) as [k|] eqn:Hf; [|discriminate].
  destruct (nth_error (rb_racks rb) k) as [r|] eqn:Hr; [|discriminate].
  destruct (range_index d (rk_geom r) _ _) as [i|] eqn:Hu; [|discriminate].
  cbn [andb] in H.
  destruct (racks_near_nth _ _ _ _ _ Hnear Hr) as (r' & Hr' & Hn' & Hg' & (_ & _ & _ & Hd)).
  rewrite find_rack_name, (proj1 Hnear), <- find_rack_name, Hf, Hr', Hg', Hu. cbn [andb].
  eapply dispense_all_near; [exact Hvv| |exact H]. unfold with_rack. cbn [rb_racks].
  match goal with |- racks_near _ (upd _ _ (set_rack_vol _ _ ?a)) (upd _ _ (set_rack_vol _ _ ?b)) =>
    change (set_rack_vol r i a) with (mk_rack r (upd (rk_vols r) i a) (rk_comp r));
    change (set_rack_vol r' i b) with (mk_rack r' (upd (rk_vols r') i b) (rk_comp r')) end.
  apply (racks_near_upd E); try assumption.
  - intros k1 j. apply Qle_refl.
  - specialize (Hd i). apply Qabs_Qle_condition in Hd. rewrite Hvv. apply Qabs_Qle_condition. split; lra.
Qed.

Lemma interp1_near E E' e d rb rb' r r' rb1 :
  racks_near E (rb_racks rb) (rb_racks rb') -> srec_near e r r' -> 0 <= e ->
  (forall k j, E k j + (if hit_rec d (map rk_name (rb_racks rb)) (map rk_geom (rb_racks rb)) r k j
                        then e else 0) <= E' k j) ->
  interp1 false d rb r = Some rb1 ->
  exists rb1', interp1 false d rb' r' = Some rb1' /\ racks_near E' (rb_racks rb1) (rb_racks rb1').
Proof.
  intros Hnear Hr He Hmono H.
  assert (Hle : forall k j, E k j <= E' k j).
  { intros k j. specialize (Hmono k j). destruct (hit_rec _ _ _ _ _ _); lra. }
  destruct r as [f|f|f|sc| | | |t|i|s]; cbn [srec_near] in Hr;
    try (subst r'; cbn [interp1] in *; injection H as <-; eexists; split; [reflexivity|];
         cbn [rb_racks]; eapply racks_near_weaken; eassumption).
  - destruct Hr as (f' & -> & Hl & Hp & Hv). cbn [interp1 hit_rec] in *. rewrite Hl, Hp.
    eapply do_aspirate_near; eassumption.
  - destruct Hr as (f' & -> & Hl & Hp & Hv). cbn [interp1 hit_rec] in *. rewrite Hl, Hp.
    eapply do_dispense_near; eassumption.
  - destruct Hr as (v & -> & Hvv & _). cbn [interp1] in *.
    destruct (do_reagent_near E d rb rb' f v rb1 Hvv Hnear H) as (rb1' & A & B).
    exists rb1'. split; [exact A|]. eapply racks_near_weaken; eassumption.
Qed.

Lemma inject_nat_add a b : inject_Z (Z.of_nat (a + b)) == inject_Z (Z.of_nat a) + inject_Z (Z.of_nat b).
Proof. rewrite Nat2Z.inj_add, inject_Z_plus. reflexivity. Qed.

(** replaying records that are [e]-close, on robots that are [E]-close: each well drifts by at most [e]
    per A / D record that addresses it *)
Theorem interp_near e d : 0 <= e -> forall recs recs', Forall2 (srec_near e) recs recs' ->
  forall E rb rb' rb1, racks_near E (rb_racks rb) (rb_racks rb') -> interp false d rb recs = Some rb1 ->
  exists rb1', interp false d rb' recs' = Some rb1' /\
    racks_near (fun k j => E k j + e * inject_Z (Z.of_nat
                  (hits d (map rk_name (rb_racks rb)) (map rk_geom (rb_racks rb)) recs k j)))
               (rb_racks rb1) (rb_racks rb1').
Proof.
  intros He recs recs' HF. induction HF as [|r r' rest rest' Hr Hrest IH]; intros E rb rb' rb1 Hnear H.
  - cbn [interp] in *. injection H as <-. exists rb'. split; [reflexivity|].
    eapply racks_near_weaken; [exact Hnear|]. intros k j. cbv beta. cbn [hits]. change (inject_Z (Z.of_nat 0)) with 0. lra.
  - cbn [interp] in H. destruct (interp1 false d rb r) as [rb2|] eqn:E1; [|discriminate].
    set (names := map rk_name (rb_racks rb)) in *. set (geoms := map rk_geom (rb_racks rb)) in *.
    destruct (interp1_near E (fun k j => E k j + (if hit_rec d names geoms r k j then e else 0)) e d rb rb' r r' rb2
                Hnear Hr He) as (rb2' & E1' & Hnear2).
    { intros k j. apply Qle_refl. } { exact E1. }
    destruct (IH _ rb2 rb2' rb1 Hnear2 H) as (rb1' & Hi & Hfin).
    exists rb1'. cbn [interp]. rewrite E1'. split; [exact Hi|].
    assert (Hn2 : map rk_name (rb_racks rb2) = names).
    { apply (interp1_proj rk_name (fun a b Hn _ => Hn) false d rb r rb2 E1). }
    assert (Hg2 : map rk_geom (rb_racks rb2) = geoms).
    { apply (interp1_proj rk_geom (fun a b _ Hg => Hg) false d rb r rb2 E1). }
    rewrite Hn2, Hg2 in Hfin. eapply racks_near_weaken; [exact Hfin|].
    intros k j. cbv beta. cbn [hits]. rewrite inject_nat_add.
    destruct (hit_rec d names geoms r k j); cbn [Z.of_nat inject_Z].
    + assert (Heq : E k j + e + e * inject_Z (Z.of_nat (hits d names geoms rest k j)) ==
                    E k j + e * (inject_Z (Z.pos (Pos.of_succ_nat 0)) + inject_Z (Z.of_nat (hits d names geoms rest k j)))).
      { change (inject_Z (Z.pos (Pos.of_succ_nat 0))) with 1. ring. }
      rewrite Heq. apply Qle_refl.
    + assert (Heq : E k j + 0 + e * inject_Z (Z.of_nat (hits d names geoms rest k j)) ==
                    E k j + e * (inject_Z 0 + inject_Z (Z.of_nat (hits d names geoms rest k j)))).
      { change (inject_Z 0) with 0. ring. }
      rewrite Heq. apply Qle_refl.
Qed.

(* ------------------------------------------------------------------ C01_rendered_exact, C01_rendered_bound *)

(** racks that agree on name, geometry, limits and (up to [==]) on every volume: [rack_sim] between racks *)
Definition rack_eqv (r r' : rack) : Prop :=
  rk_name r' = rk_name r /\ rk_geom r' = rk_geom r /\ rk_min r' = rk_min r /\ rk_max r' = rk_max r /\
  Forall2 Qeq (rk_vols r) (rk_vols r').

Lemma Forall2_of_nth_error {A B} (R : A -> B -> Prop) l1 : forall l2, length l1 = length l2 ->
  (forall k x y, nth_error l1 k = Some x -> nth_error l2 k = Some y -> R x y) -> Forall2 R l1 l2.
Proof.
  induction l1 as [|a r IH]; intros [|b s] Hlen H; cbn [length] in Hlen; try discriminate; constructor.
  - apply (H 0%nat); reflexivity.
  - apply IH; [lia|]. intros k x y Hx Hy. apply (H (S k)); assumption.
Qed.

Lemma racks_near_zero E rs rs' : racks_near E rs rs' -> (forall k j, E k j <= 0) -> Forall2 rack_eqv rs rs'.
Proof.
  intros Hnear Hz. pose proof Hnear as (Hn & _ & _).
  apply Forall2_of_nth_error.
  - apply (f_equal (@length string)) in Hn. rewrite !map_length in Hn. symmetry. exact Hn.
  - intros k r r' Hr Hr'. destruct (racks_near_nth _ _ _ _ _ Hnear Hr) as (r2 & Hr2 & A & B & (C & D & F & G)).
    rewrite Hr' in Hr2. injection Hr2 as <-. unfold rack_eqv. repeat split; try assumption.
    apply Forall2_Qeq_of_nth; [symmetry; exact F|].
    intro j. specialize (G j). specialize (Hz k j). apply Qabs_Qle_condition in G. lra.
Qed.

Lemma rack_sim_eqv L r r' : rack_sim L r -> rack_eqv r r' -> rack_sim L r'.
Proof.
  intros (H1 & H2 & H3 & H4 & H5) (E1 & E2 & E3 & E4 & E5). unfold rack_sim.
  split; [congruence|]. split; [congruence|]. split; [congruence|]. split; [congruence|].
  apply Forall2_Qeq_of_nth.
  - rewrite (Forall2_length' _ _ _ H5). apply (Forall2_length' _ _ _ E5).
  - intro j. rewrite (Forall2_Qeq_nth _ _ j H5). apply Forall2_Qeq_nth. exact E5.
Qed.

Lemma sim_racks_eqv lws rs : sim_racks lws rs -> forall rs', Forall2 rack_eqv rs rs' -> sim_racks lws rs'.
Proof.
  intro H. induction H as [|L r lws' rs0 HLr _ IH]; intros rs' HE; inversion HE; subst; constructor.
  - eapply rack_sim_eqv; eassumption.
  - apply IH. assumption.
Qed.

(** the records read back from the text are the records, up to [==] on the A / D volumes *)
Theorem rendered_records_exact recs : Forall rec_valid recs -> Forall r_int recs -> Forall cents_ok recs ->
  exists recs', read_lines (map render recs) = Some recs' /\
    Forall2 (fun r r' => match r with
                         | RA f => exists f', r' = RA f' /\ ad_rack_label f' = ad_rack_label f /\
                                     ad_position f' = ad_position f /\ ad_volume f' == ad_volume f
                         | RD f => exists f', r' = RD f' /\ ad_rack_label f' = ad_rack_label f /\
                                     ad_position f' = ad_position f /\ ad_volume f' == ad_volume f
                         | _ => r' = r
                         end) recs recs'.
Proof.
  intros Hv Hi Hc.
  assert (Hnum : Forall r_num recs) by (eapply Forall_impl; [|exact Hi]; exact r_int_num).
  destruct (read_lines_near recs Hv Hnum) as (recs' & Hr & _ & Hex).
  exists recs'. split; [exact Hr|]. specialize (Hex Hc). clear Hr Hv Hnum Hc.
  induction Hex as [|r r' rest rest' Hn Hrest IH]; [constructor|].
  inversion Hi as [|r0 l0 Hi1 Hi2]; subst. constructor; [|apply IH; exact Hi2].
  destruct r; cbn [srec_near r_int] in *; try exact Hn.
  - destruct Hn as (f' & -> & A & B & C). exists f'. repeat split; try assumption.
    apply Qabs_Qle_condition in C. lra.
  - destruct Hn as (f' & -> & A & B & C). exists f'. repeat split; try assumption.
    apply Qabs_Qle_condition in C. lra.
  - destruct Hn as (v & -> & _ & Hz). destruct Hi1 as [z Ez]. rewrite (Hz z Ez), <- Ez, set_r_volume_same.
    reflexivity.
Qed.

(** C01_rendered_exact: executing the text = executing the records, when every A / D volume has at most
    two decimals and every R volume is an int *)
Theorem rendered_exact d rb recs rb1 :
  Forall rec_valid recs -> Forall r_num recs -> Forall cents_ok recs ->
  interp false d rb recs = Some rb1 ->
  exists rb1', interp_text false d rb (map render recs) = Some rb1' /\
               Forall2 rack_eqv (rb_racks rb1) (rb_racks rb1').
Proof.
  intros Hv Hi Hc H. destruct (read_lines_near recs Hv Hi) as (recs' & Hr & _ & Hex).
  destruct (interp_near 0 d ltac:(lra) recs recs' (Hex Hc) _ rb rb rb1 (racks_near_refl _) H) as (rb1' & Hi' & Hn).
  exists rb1'. unfold interp_text. rewrite Hr. split; [exact Hi'|].
  eapply racks_near_zero; [exact Hn|]. intros k j. cbv beta. lra.
Qed.

(** C01_rendered_bound: in general every well is within (number of A / D records addressing it) / 200 *)
Theorem rendered_bound d rb recs rb1 :
  Forall rec_valid recs -> Forall r_num recs ->
  interp false d rb recs = Some rb1 ->
  exists rb1', interp_text false d rb (map render recs) = Some rb1' /\
    racks_near (fun k j => inject_Z (Z.of_nat
                  (hits d (map rk_name (rb_racks rb)) (map rk_geom (rb_racks rb)) recs k j)) / 200)
               (rb_racks rb1) (rb_racks rb1').
Proof.
  intros Hv Hi H. destruct (read_lines_near recs Hv Hi) as (recs' & Hr & Hnear & _).
  destruct (interp_near (1 # 200) d ltac:(lra) recs recs' Hnear _ rb rb rb1 (racks_near_refl _) H) as (rb1' & Hi' & Hn).
  exists rb1'. unfold interp_text. rewrite Hr. split; [exact Hi'|].
  eapply racks_near_weaken; [exact Hn|]. intros k j. cbv beta.
  set (n := inject_Z _). apply Qle_lteq. right. field.
Qed.

(** one record (the case the statement of the task asks for separately): an A or D record alone *)
Corollary rendered_bound_single d rb f (asp : bool) rb1 :
  rec_valid (RA f) -> interp1 false d rb (if asp then RA f else RD f) = Some rb1 ->
  exists rb1', interp_text false d rb [render (if asp then RA f else RD f)] = Some rb1' /\
    racks_near (fun k j => if hit_ad d (map rk_name (rb_racks rb)) (map rk_geom (rb_racks rb))
                               (ad_rack_label f) (Z.to_nat (ad_position f)) k j then 1 # 200 else 0)
               (rb_racks rb1) (rb_racks rb1').
Proof.
  intros Hv H.
  assert (Hv' : Forall rec_valid [if asp then RA f else RD f]) by (constructor; [destruct asp; exact Hv|constructor]).
  assert (Hi' : Forall r_num [if asp then RA f else RD f]) by (constructor; [destruct asp; exact I|constructor]).
  destruct (rendered_bound d rb [if asp then RA f else RD f] rb1 Hv' Hi') as (rb1' & A & B).
  { cbn [interp]. rewrite H. reflexivity. }
  exists rb1'. split; [exact A|]. eapply racks_near_weaken; [exact B|].
  intros k j. cbv beta. cbn [hits]. destruct asp; cbn [hit_rec]; destruct (hit_ad _ _ _ _ _ _ _); cbn [Nat.add Z.of_nat];
    apply Qle_bool_iff; reflexivity.
Qed.

(* ------------------------------------------------------------------ with C01_run: the file of a program *)

Lemma robot_of_names lws : map rk_name (rb_racks (robot_of lws)) = map lw_name lws.
Proof. unfold robot_of. cbn [rb_racks]. rewrite map_map. reflexivity. Qed.

Lemma robot_of_geoms lws : map rk_geom (rb_racks (robot_of lws)) = map lw_geom lws.
Proof. unfold robot_of. cbn [rb_racks]. rewrite map_map. reflexivity. Qed.

(** executing the TEXT of the worklist of a program reproduces the tracked volumes exactly whenever all
    pipetted volumes have at most two decimals *)
Theorem run_text_exact s0 ops :
  good_state s0 -> w_recs (st_wl s0) = [] ->
  forallb wl_op ops = true -> Forall (op_ok s0) ops ->
  Forall (fun e => e = None) (snd (run s0 ops)) ->
  Forall rec_valid (w_recs (st_wl (fst (run s0 ops)))) ->
  Forall r_num (w_recs (st_wl (fst (run s0 ops)))) ->
  Forall cents_ok (w_recs (st_wl (fst (run s0 ops)))) ->
  exists rb, interp_text false (w_dev (st_wl s0)) (robot_of (st_lw s0))
               (map render (w_recs (st_wl (fst (run s0 ops))))) = Some rb /\
             sim (fst (run s0 ops)) rb.
Proof.
  intros Hgood Hrecs Hops Hok Hall Hv Hi Hc.
  destruct (run_refines s0 ops Hgood Hrecs Hops Hok Hall) as (rb & Hint & Hsim).
  destruct (rendered_exact _ _ _ _ Hv Hi Hc Hint) as (rb' & Ht & He).
  exists rb'. split; [exact Ht|]. unfold sim. eapply sim_racks_eqv; eassumption.
Qed.

(** ... and in general within n / 200 per well, n = number of A / D records addressing the well *)
Theorem run_text_bound s0 ops :
  good_state s0 -> w_recs (st_wl s0) = [] ->
  forallb wl_op ops = true -> Forall (op_ok s0) ops ->
  Forall (fun e => e = None) (snd (run s0 ops)) ->
  Forall rec_valid (w_recs (st_wl (fst (run s0 ops)))) ->
  Forall r_num (w_recs (st_wl (fst (run s0 ops)))) ->
  exists rb, interp_text false (w_dev (st_wl s0)) (robot_of (st_lw s0))
               (map render (w_recs (st_wl (fst (run s0 ops))))) = Some rb /\
    forall k L r j, nth_error (st_lw (fst (run s0 ops))) k = Some L -> nth_error (rb_racks rb) k = Some r ->
      rk_name r = lw_name L /\ rk_geom r = lw_geom L /\
      Qabs (nth j (rk_vols r) 0 - vol_at L j) <=
      inject_Z (Z.of_nat (hits (w_dev (st_wl s0)) (map lw_name (st_lw s0)) (map lw_geom (st_lw s0))
                               (w_recs (st_wl (fst (run s0 ops)))) k j)) / 200.
Proof.
  intros Hgood Hrecs Hops Hok Hall Hv Hi.
  destruct (run_refines s0 ops Hgood Hrecs Hops Hok Hall) as (rb & Hint & Hsim).
  destruct (rendered_bound _ _ _ _ Hv Hi Hint) as (rb' & Ht & Hn).
  rewrite robot_of_names, robot_of_geoms in Hn.
  exists rb'. split; [exact Ht|]. intros k L r' j HL Hr'.
  destruct (Forall2_nth_error_l _ _ _ _ _ Hsim HL) as (r & Hr & (S1 & S2 & _ & _ & S5)).
  destruct (racks_near_nth _ _ _ _ _ Hn Hr) as (r2 & Hr2 & A & B & (_ & _ & _ & G)).
  rewrite Hr' in Hr2. injection Hr2 as <-. split; [congruence|]. split; [congruence|].
  specialize (G j). cbv beta in G. unfold vol_at. rewrite (Forall2_Qeq_nth _ _ j S5). exact G.
Qed.

(* ================================================================== part 2: compositions after [distribute] *)

(* ------------------------------------------------------------------ n additions of the same liquid: closed form *)

Definition nQ (n : nat) : Q := inject_Z (Z.of_nat n).

(** fraction of a component after [n] additions of volume [v] of a liquid with fraction [g] of the component
    to a well that held [V] with fraction [f]: (V f + n v g) / (V + n v) *)
Definition closed (V f v g : Q) (n : nat) : Q :=
  match n with
  | O => f
  | S _ => (V * f + nQ n * v * g) / (V + nQ n * v)
  end.

Lemma nQ_S n : nQ (S n) == nQ n + 1.
Proof. unfold nQ. rewrite Nat2Z.inj_succ. unfold Z.succ. rewrite inject_Z_plus. reflexivity. Qed.

Lemma nQ_nonneg n : 0 <= nQ n.
Proof. unfold nQ. change 0 with (inject_Z 0). rewrite <- Zle_Qle. lia. Qed.

Lemma closed_compat V V' f f' v g g' n : V == V' -> f == f' -> g == g' ->
  closed V f v g n == closed V' f' v g' n.
Proof. intros A B C. destruct n as [|m]; cbn [closed]; [exact B|]. rewrite A, B, C. reflexivity. Qed.

Lemma closed_step V f v g n : 0 <= V -> 0 < v ->
  closed (V + v) ((V * f + v * g) / (V + v)) v g n == closed V f v g (S n).
Proof.
  intros HV Hv. destruct n as [|m]; cbn [closed].
  - change (nQ 1) with 1. field. lra.
  - rewrite (nQ_S (S m)). set (N := nQ (S m)). pose proof (nQ_nonneg (S m)) as HN. fold N in HN.
    assert (HNv : 0 <= N * v) by (apply Qmult_le_0_compat; lra).
    field. repeat split; lra.
Qed.

Lemma closed_nonneg V f v g n : 0 <= V -> 0 < v -> 0 <= f -> 0 <= g -> 0 <= closed V f v g n.
Proof.
  intros HV Hv Hf Hg. destruct n as [|m]; cbn [closed]; [exact Hf|].
  pose proof (nQ_S m) as HS. pose proof (nQ_nonneg m) as Hm. set (N := nQ (S m)) in *.
  assert (HN : 1 <= N) by lra.
  assert (HNv : 0 < N * v) by (apply Qmult_lt_0_compat; lra).
  assert (H1 : 0 <= V * f) by (apply Qmult_le_0_compat; assumption).
  assert (H2 : 0 <= N * v * g) by (apply Qmult_le_0_compat; lra).
  apply Qle_shift_div_l; lra.
Qed.

(** number of occurrences *)
Fixpoint cnt (j : nat) (l : list nat) : nat :=
  match l with
  | [] => 0%nat
  | i :: r => ((if (i =? j)%nat then 1 else 0) + cnt j r)%nat
  end.

Lemma cnt_perm l1 l2 j : Permutation l1 l2 -> cnt j l1 = cnt j l2.
Proof.
  intro H. induction H as [|x l1 l2 _ IH|x y l|l1 l2 l3 _ IH1 _ IH2]; cbn [cnt]; lia.
Qed.

Lemma evs_of_inj v l1 : forall l2, evs_of v l1 = evs_of v l2 -> l1 = l2.
Proof.
  induction l1 as [|a r IH]; intros [|b s] H; cbn [evs_of map] in H; try discriminate; [reflexivity|].
  injection H as Hab Hrs. rewrite Hab, (IH s Hrs). reflexivity.
Qed.

(* ------------------------------------------------------------------ the model: [add] of one liquid to many wells *)

Lemma add_one_cinv L i v c : wf_shape L -> (i < length (lw_vols L))%nat -> 0 <= vol_at L i -> 0 < v ->
  cinv L -> NoDup (map fst c) -> (forall k, 0 <= fget k c) ->
  cinv (add_one L i v (Some c)) /\
  forall k j, cfrac (lw_comp (add_one L i v (Some c))) k j ==
              if (j =? i)%nat then (vol_at L i * cfrac (lw_comp L) k i + v * fget k c) / (vol_at L i + v)
              else cfrac (lw_comp L) k j.
Proof.
  intros (Hg & Hlen & Harr & _) Hi HV Hv (ND & Hnn) NC Hc.
  assert (Hin : (i < n_wells (lw_geom L))%nat) by (rewrite <- Hlen; exact Hi).
  assert (Hnz : ~ vol_at L i + v == 0) by (intro C; lra).
  assert (Hfr : forall k j, cfrac (lw_comp (add_one L i v (Some c))) k j ==
              if (j =? i)%nat then (vol_at L i * cfrac (lw_comp L) k i + v * fget k c) / (vol_at L i + v)
              else cfrac (lw_comp L) k j).
  { intros k j. apply add_one_cfrac; try assumption. intro k0. apply Hnn. }
  split; [|exact Hfr]. split.
  - unfold add_one. cbv zeta. rewrite write_composition_fold. apply wc_fold_NoDup. exact ND.
  - intros k j. rewrite Hfr. destruct (j =? i)%nat; [|apply Hnn].
    apply mix_formula_nonneg; [exact HV|exact Hv|apply Hnn|apply Hc].
Qed.

Lemma add_run_cfrac v c : 0 < v -> NoDup (map fst c) -> (forall k, 0 <= fget k c) ->
  forall L items L' e, add_run L items L' e -> e = None ->
  Forall (fun it : aitem => snd (fst it) = XQ v /\ snd it = Some c) items ->
  wf_shape L -> (forall j, 0 <= vol_at L j) -> cinv L ->
  exists idxs, events_of L (map fst items) = Some (evs_of v idxs) /\ cinv L' /\
    forall k j, cfrac (lw_comp L') k j ==
                closed (vol_at L j) (cfrac (lw_comp L) k j) v (fget k c) (cnt j idxs).
Proof.
  intros Hv NC Hc L items L' e H.
  induction H as [L|L w x oc rest Hi|L w x oc rest i Hi Hx|L w v0 oc rest i Hi Hg
                  |L w v0 oc rest i L' e Hi Hg Hr IH]; intros He HF HS Hvol Hci; try discriminate.
  - exists []. split; [reflexivity|]. split; [exact Hci|]. intros k j. reflexivity.
  - inversion HF as [|it r0 [Hx Hoc] Htl]; subst it r0. cbn [fst snd] in Hx, Hoc.
    injection Hx as ->. subst oc.
    pose proof (lw_index_bound L w i (wf_shape_shape0 _ HS) Hi) as Hil.
    destruct (add_one_cinv L i v c HS Hil (Hvol i) Hv Hci NC Hc) as [Hci1 Hfr].
    assert (Hvol1 : forall j, 0 <= vol_at (add_one L i v (Some c)) j).
    { intro j. rewrite (vol_at_add_one L i v (Some c) j Hil). pose proof (Hvol j). destruct (i =? j)%nat; lra. }
    destruct (IH He Htl (add_one_shape L i v (Some c) HS) Hvol1 Hci1) as (idxs & Hev & Hci' & Hcl).
    exists (i :: idxs). split; [|split; [exact Hci'|]].
    + cbn [map fst events_of]. rewrite Hi.
      destruct (add_one_frame L i v (Some c)) as (_ & Fg & _).
      rewrite <- (events_of_geom _ _ _ Fg), Hev. reflexivity.
    + intros k j. rewrite Hcl. cbn [cnt]. destruct (Nat.eqb_spec i j) as [<-|Hne].
      * cbn [Nat.add]. rewrite <- (closed_step (vol_at L i) (cfrac (lw_comp L) k i) v (fget k c) (cnt i idxs) (Hvol i) Hv).
        apply closed_compat; [|  |reflexivity].
        -- rewrite (vol_at_add_one L i v (Some c) i Hil), Nat.eqb_refl. reflexivity.
        -- rewrite Hfr, Nat.eqb_refl. reflexivity.
      * cbn [Nat.add]. apply closed_compat; [| |reflexivity].
        -- rewrite (vol_at_add_one L i v (Some c) j Hil). destruct (Nat.eqb_spec i j); [contradiction|]. ring.
        -- rewrite Hfr. destruct (Nat.eqb_spec j i) as [E|_]; [congruence|reflexivity].
Qed.

(** an accepted [add] with explicit compositions, with the items of the loop spelled out *)
Lemma add_accepted_items L wells vols label cs L' :
  add L wells vols label (Some cs) = (L', None) ->
  let wv := zip (flattenF wells) (broadcast (flattenF vols) (length (flattenF wells))) in
  let items := map (fun p : ritem * option composition => (fst (fst p), snd (fst p), snd p)) (zip wv cs) in
  exists L1, map fst items = wv /\ add_run L items L1 None /\ L' = log L1 label.
Proof.
  unfold add. intro H.
  destruct (prep_wells_vols wells vols) as [wv|e0] eqn:Ep; [|discriminate].
  destruct (prep_wells_vols_ok _ _ _ Ep) as (Hwv & Hlen & Hok). cbv zeta in Hwv.
  match type of H with context [negb ?b] => destruct b eqn:Ec end; cbn [negb] in H; [|discriminate].
  apply Nat.eqb_eq in Ec. cbv zeta. rewrite <- Hwv.
  destruct (add_loop L _) as [L1 [e|]] eqn:El; [discriminate|].
  injection H as <-. exists L1. split; [apply map_fst_aitems; exact Ec|]. split; [|reflexivity].
  apply add_loop_run. exact El.
Qed.

Lemma aitems_same_liquid (ws : list string) v c n m :
  Forall (fun it : aitem => snd (fst it) = XQ v /\ snd it = Some c)
    (map (fun p : ritem * option composition => (fst (fst p), snd (fst p), snd p))
         (zip (zip ws (repeat (XQ v) n)) (repeat (Some c) m))).
Proof.
  apply Forall_forall. intros it Hin. apply in_map_iff in Hin. destruct Hin as ([[w x] oc] & <- & Hin).
  cbn [fst snd]. apply zip_In in Hin. destruct Hin as [H1 H2]. apply zip_In in H1. destruct H1 as [_ H1].
  apply repeat_spec in H1. apply repeat_spec in H2. subst. split; reflexivity.
Qed.

(* ------------------------------------------------------------------ the robot: [dispense_all] with a loaded tip *)

Lemma do_dispense_at c d rb label p v k r i g rb1 :
  find_rack (rb_racks rb) label = Some k -> nth_error (rb_racks rb) k = Some r ->
  unpos d (rk_geom r) p = Some i -> rb_tip rb = Some g ->
  do_dispense c d rb label p v = Some rb1 ->
  rb1 = with_rack rb k (mk_rack r (upd (rk_vols r) i (nth i (rk_vols r) 0 + v))
                                (mix_into r i (nth i (rk_vols r) 0) v g)) (Some g).
Proof.
  intros Hf Hr Hu Ht H. unfold do_dispense in H. rewrite Hf, Hr, Hu, Ht in H.
  destruct (c && _)%bool; [discriminate|]. injection H as <-. reflexivity.
Qed.

Lemma dispense_all_cfrac c d label v g k : 0 < v -> NoDup (map fst g) ->
  forall ps idxs rb r rb',
  find_rack (rb_racks rb) label = Some k -> nth_error (rb_racks rb) k = Some r -> rb_tip rb = Some g ->
  Forall2 (fun p i => unpos d (rk_geom r) p = Some i /\ (i < length (rk_vols r))%nat) ps idxs ->
  arrays_len (length (rk_vols r)) (rk_comp r) -> NoDup (map fst (rk_comp r)) ->
  (forall j, 0 <= nth j (rk_vols r) 0) ->
  dispense_all c d rb label ps v = Some rb' ->
  exists r', nth_error (rb_racks rb') k = Some r' /\
    (forall k', k' <> k -> nth_error (rb_racks rb') k' = nth_error (rb_racks rb) k') /\
    arrays_len (length (rk_vols r')) (rk_comp r') /\ NoDup (map fst (rk_comp r')) /\
    forall kk j, cfrac (rk_comp r') kk j ==
                 closed (nth j (rk_vols r) 0) (cfrac (rk_comp r) kk j) v (fget kk g) (cnt j idxs).
Proof.
  intros Hv NG. induction ps as [|p ps IH]; intros idxs rb r rb' Hf Hr Ht HF HA HN Hvol H.
  - inversion HF; subst. cbn [dispense_all] in H. injection H as <-. exists r.
    split; [exact Hr|]. split; [reflexivity|]. split; [exact HA|]. split; [exact HN|]. intros kk j. reflexivity.
  - inversion HF as [|p0 i ps0 idxs' [Hu Hi] HF']; subst. cbn [dispense_all] in H.
    destruct (do_dispense c d rb label p v) as [rb1|] eqn:Ed; [|discriminate].
    pose proof (do_dispense_at c d rb label p v k r i g rb1 Hf Hr Hu Ht Ed) as ->.
    set (V := nth i (rk_vols r) 0) in *.
    set (r1 := mk_rack r (upd (rk_vols r) i (V + v)) (mix_into r i V v g)) in *.
    destruct (mix_into_inv r i V v g HA HN NG) as [MA MN].
    assert (Hkl : (k < length (rb_racks rb))%nat) by (eapply nth_error_lt; exact Hr).
    assert (Hf1 : find_rack (rb_racks (with_rack rb k r1 (Some g))) label = Some k).
    { unfold with_rack. cbn [rb_racks]. rewrite find_rack_name, (map_upd_same rk_name _ k r r1 Hr eq_refl),
        <- find_rack_name. exact Hf. }
    assert (Hr1 : nth_error (rb_racks (with_rack rb k r1 (Some g))) k = Some r1)
      by (unfold with_rack; cbn [rb_racks]; apply nth_error_upd_same; exact Hkl).
    assert (Hvol1 : forall j, 0 <= nth j (rk_vols r1) 0).
    { intro j. unfold r1, mk_rack. cbn [rk_vols]. rewrite nth_upd_cases.
      destruct ((i =? j)%nat && (i <? length (rk_vols r))%nat)%bool; [|apply Hvol].
      pose proof (Hvol i) as HVi. fold V in HVi. lra. }
    assert (HF1 : Forall2 (fun p0 i0 => unpos d (rk_geom r1) p0 = Some i0 /\ (i0 < length (rk_vols r1))%nat) ps idxs').
    { unfold r1, mk_rack. cbn [rk_geom rk_vols]. rewrite upd_length. exact HF'. }
    assert (HA1 : arrays_len (length (rk_vols r1)) (rk_comp r1))
      by (unfold r1, mk_rack; cbn [rk_vols rk_comp]; rewrite upd_length; exact MA).
    destruct (IH idxs' _ r1 rb' Hf1 Hr1 eq_refl HF1 HA1 MN Hvol1 H) as (r' & Hr' & Hoth & HA' & HN' & Hcl).
    exists r'. split; [exact Hr'|]. split.
    { intros k' Hne. rewrite (Hoth k' Hne). unfold with_rack. cbn [rb_racks].
      apply nth_error_upd_other. congruence. }
    split; [exact HA'|]. split; [exact HN'|].
    assert (HV0 : 0 <= V) by apply Hvol.
    assert (Hnz : ~ V + v == 0) by (intro C; lra).
    intros kk j. rewrite Hcl. cbn [cnt]. unfold r1, mk_rack. cbn [rk_vols rk_comp].
    pose proof (mix_into_cfrac r i V v g kk j HA Hi Hnz) as Hmix.
    destruct (Nat.eqb_spec i j) as [<-|Hne].
    + cbn [Nat.add]. rewrite Nat.eqb_refl in Hmix. rewrite nth_upd_same by exact Hi.
      eapply Qeq_trans; [|apply (closed_step V (cfrac (rk_comp r) kk i) v (fget kk g) (cnt i idxs') HV0 Hv)].
      apply closed_compat; [reflexivity|exact Hmix|reflexivity].
    + cbn [Nat.add]. destruct (Nat.eqb_spec j i) as [E|_]; [congruence|].
      rewrite nth_upd_other by exact Hne. apply closed_compat; [reflexivity|exact Hmix|reflexivity].
Qed.

(* ------------------------------------------------------------------ a zero volume changes no fraction *)

Lemma add_one_cfrac0 L i v c k j :
  arrays_len (n_wells (lw_geom L)) (lw_comp L) -> (i < n_wells (lw_geom L))%nat ->
  NoDup (map fst (lw_comp L)) -> NoDup (map fst c) ->
  (forall k0, 0 <= cfrac (lw_comp L) k0 i) -> v == 0 ->
  cfrac (lw_comp (add_one L i v (Some c))) k j == cfrac (lw_comp L) k j.
Proof.
  intros HL Hi ND NC Hnn Hv0. unfold add_one. cbv zeta. rewrite write_composition_fold.
  cbn [lw_comp lw_geom set_vols].
  change (well_composition_at (set_vols L (upd (lw_vols L) i (Qred (vol_at L i + v)))) i) with (wca (lw_comp L) i).
  set (mixed := combine_composition (vol_at L i) (wca (lw_comp L) i) v c).
  assert (NM : NoDup (map fst mixed)) by (apply combine_NoDup, wca_NoDup; exact ND).
  rewrite (wc_fold_cfrac _ i k j mixed NM _ HL Hi).
  destruct ((j =? i)%nat && has_key k mixed)%bool eqn:E; [|reflexivity].
  apply andb_true_iff in E. destruct E as [Ej Eh]. apply Nat.eqb_eq in Ej. subst j.
  pose proof (fget_wca (lw_comp L) i k ND (Hnn k)) as Hwca.
  destruct (Qeq_bool (vol_at L i + v) 0) eqn:Ez.
  - unfold mixed, combine_composition. rewrite Ez. exact Hwca.
  - assert (Hnz : ~ vol_at L i + v == 0) by (intro C; apply Qeq_bool_iff in C; congruence).
    destruct (combine_fget (vol_at L i) (wca (lw_comp L) i) v c k Hnz NC) as [Hf _]. fold mixed in Hf.
    assert (HV : ~ vol_at L i == 0) by (intro C; apply Hnz; rewrite C, Hv0; reflexivity).
    rewrite Hf, Hwca, Hv0. field. exact HV.
Qed.

Lemma add_run_cfrac0 v c : v == 0 -> NoDup (map fst c) ->
  forall L items L' e, add_run L items L' e -> e = None ->
  Forall (fun it : aitem => snd (fst it) = XQ v /\ snd it = Some c) items ->
  wf_shape L -> cinv L ->
  exists idxs, events_of L (map fst items) = Some (evs_of v idxs) /\ cinv L' /\
    forall k j, cfrac (lw_comp L') k j == cfrac (lw_comp L) k j.
Proof.
  intros Hv0 NC L items L' e H.
  induction H as [L|L w x oc rest Hi|L w x oc rest i Hi Hx|L w v1 oc rest i Hi Hg
                  |L w v1 oc rest i L' e Hi Hg Hr IH]; intros He HF HS Hci; try discriminate.
  - exists []. split; [reflexivity|]. split; [exact Hci|]. intros k j. reflexivity.
  - inversion HF as [|it r0 [Hx Hoc] Htl]; subst it r0. cbn [fst snd] in Hx, Hoc.
    injection Hx as ->. subst oc.
    pose proof (lw_index_bound L w i (wf_shape_shape0 _ HS) Hi) as Hil.
    pose proof HS as (_ & Hlen & Harr & _). pose proof Hci as (ND & Hnn).
    assert (Hin : (i < n_wells (lw_geom L))%nat) by (rewrite <- Hlen; exact Hil).
    assert (Hfr : forall k j, cfrac (lw_comp (add_one L i v (Some c))) k j == cfrac (lw_comp L) k j).
    { intros k j. apply add_one_cfrac0; try assumption. intro k0. apply Hnn. }
    assert (Hci1 : cinv (add_one L i v (Some c))).
    { split.
      - unfold add_one. cbv zeta. rewrite write_composition_fold. apply wc_fold_NoDup. exact ND.
      - intros k j. rewrite Hfr. apply Hnn. }
    destruct (IH He Htl (add_one_shape L i v (Some c) HS) Hci1) as (idxs & Hev & Hci' & Hcl).
    exists (i :: idxs). split; [|split; [exact Hci'|]].
    + cbn [map fst events_of]. rewrite Hi.
      destruct (add_one_frame L i v (Some c)) as (_ & Fg & _).
      rewrite <- (events_of_geom _ _ _ Fg), Hev. reflexivity.
    + intros k j. rewrite Hcl. apply Hfr.
Qed.

Lemma mix_into_cfrac0 r i V v g k j :
  arrays_len (length (rk_vols r)) (rk_comp r) -> (i < length (rk_vols r))%nat -> v == 0 ->
  cfrac (mix_into r i V v g) k j == cfrac (rk_comp r) k j.
Proof.
  intros HA Hi Hv0. destruct (Qeq_bool (V + v) 0) eqn:Ez.
  - unfold mix_into. rewrite Ez. reflexivity.
  - assert (Hnz : ~ V + v == 0) by (intro C; apply Qeq_bool_iff in C; congruence).
    rewrite (mix_into_cfrac r i V v g k j HA Hi Hnz).
    destruct (Nat.eqb_spec j i) as [->|_]; [|reflexivity].
    assert (HV : ~ V == 0) by (intro C; apply Hnz; rewrite C, Hv0; reflexivity).
    rewrite Hv0. field. exact HV.
Qed.

Lemma dispense_all_cfrac0 c d label v g k : v == 0 -> NoDup (map fst g) ->
  forall ps idxs rb r rb',
  find_rack (rb_racks rb) label = Some k -> nth_error (rb_racks rb) k = Some r -> rb_tip rb = Some g ->
  Forall2 (fun p i => unpos d (rk_geom r) p = Some i /\ (i < length (rk_vols r))%nat) ps idxs ->
  arrays_len (length (rk_vols r)) (rk_comp r) -> NoDup (map fst (rk_comp r)) ->
  dispense_all c d rb label ps v = Some rb' ->
  exists r', nth_error (rb_racks rb') k = Some r' /\
    (forall k', k' <> k -> nth_error (rb_racks rb') k' = nth_error (rb_racks rb) k') /\
    arrays_len (length (rk_vols r')) (rk_comp r') /\ NoDup (map fst (rk_comp r')) /\
    forall kk j, cfrac (rk_comp r') kk j == cfrac (rk_comp r) kk j.
Proof.
  intros Hv0 NG. induction ps as [|p ps IH]; intros idxs rb r rb' Hf Hr Ht HF HA HN H.
  - inversion HF; subst. cbn [dispense_all] in H. injection H as <-. exists r.
    split; [exact Hr|]. split; [reflexivity|]. split; [exact HA|]. split; [exact HN|]. intros kk j. reflexivity.
  - inversion HF as [|p0 i ps0 idxs' [Hu Hi] HF']; subst. cbn [dispense_all] in H.
    destruct (do_dispense c d rb label p v) as [rb1|] eqn:Ed; [|discriminate].
    pose proof (do_dispense_at c d rb label p v k r i g rb1 Hf Hr Hu Ht Ed) as ->.
    set (V := nth i (rk_vols r) 0) in *.
    set (r1 := mk_rack r (upd (rk_vols r) i (V + v)) (mix_into r i V v g)) in *.
    destruct (mix_into_inv r i V v g HA HN NG) as [MA MN].
    assert (Hkl : (k < length (rb_racks rb))%nat) by (eapply nth_error_lt; exact Hr).
    assert (Hf1 : find_rack (rb_racks (with_rack rb k r1 (Some g))) label = Some k).
    { unfold with_rack. cbn [rb_racks]. rewrite find_rack_name, (map_upd_same rk_name _ k r r1 Hr eq_refl),
        <- find_rack_name. exact Hf. }
    assert (Hr1 : nth_error (rb_racks (with_rack rb k r1 (Some g))) k = Some r1)
      by (unfold with_rack; cbn [rb_racks]; apply nth_error_upd_same; exact Hkl).
    assert (HF1 : Forall2 (fun p0 i0 => unpos d (rk_geom r1) p0 = Some i0 /\ (i0 < length (rk_vols r1))%nat) ps idxs').
    { unfold r1, mk_rack. cbn [rk_geom rk_vols]. rewrite upd_length. exact HF'. }
    assert (HA1 : arrays_len (length (rk_vols r1)) (rk_comp r1))
      by (unfold r1, mk_rack; cbn [rk_vols rk_comp]; rewrite upd_length; exact MA).
    destruct (IH idxs' _ r1 rb' Hf1 Hr1 eq_refl HF1 HA1 MN H) as (r' & Hr' & Hoth & HA' & HN' & Hcl).
    exists r'. split; [exact Hr'|]. split.
    { intros k' Hne. rewrite (Hoth k' Hne). unfold with_rack. cbn [rb_racks].
      apply nth_error_upd_other. congruence. }
    split; [exact HA'|]. split; [exact HN'|].
    intros kk j. rewrite Hcl. unfold r1, mk_rack. cbn [rk_comp]. apply mix_into_cfrac0; assumption.
Qed.

(** both cases in one statement: a zero volume leaves the fraction, a positive one gives the closed form *)
Definition closedg (V f v g : Q) (n : nat) : Q := if Qeq_bool v 0 then f else closed V f v g n.

Lemma closedg_compat V V' f f' v g g' n : V == V' -> f == f' -> g == g' ->
  closedg V f v g n == closedg V' f' v g' n.
Proof. intros A B C. unfold closedg. destruct (Qeq_bool v 0); [exact B|apply closed_compat; assumption]. Qed.

Lemma Qeq_bool_false_pos v : 0 <= v -> Qeq_bool v 0 = false -> 0 < v.
Proof.
  intros H E. destruct (Qlt_le_dec 0 v) as [Hlt|Hle]; [exact Hlt|].
  assert (C : v == 0) by lra. apply Qeq_bool_iff in C. congruence.
Qed.

Lemma add_run_cfrac_g v c : 0 <= v -> NoDup (map fst c) -> (forall k, 0 <= fget k c) ->
  forall L items L' e, add_run L items L' e -> e = None ->
  Forall (fun it : aitem => snd (fst it) = XQ v /\ snd it = Some c) items ->
  wf_shape L -> (forall j, 0 <= vol_at L j) -> cinv L ->
  exists idxs, events_of L (map fst items) = Some (evs_of v idxs) /\ cinv L' /\
    forall k j, cfrac (lw_comp L') k j ==
                closedg (vol_at L j) (cfrac (lw_comp L) k j) v (fget k c) (cnt j idxs).
Proof.
  intros Hv NC Hc L items L' e H He HF HS Hvol Hci. unfold closedg. destruct (Qeq_bool v 0) eqn:Ez.
  - apply Qeq_bool_iff in Ez. apply (add_run_cfrac0 v c Ez NC L items L' e H He HF HS Hci).
  - apply (add_run_cfrac v c (Qeq_bool_false_pos v Hv Ez) NC Hc L items L' e H He HF HS Hvol Hci).
Qed.

Lemma dispense_all_cfrac_g c d label v g k : 0 <= v -> NoDup (map fst g) ->
  forall ps idxs rb r rb',
  find_rack (rb_racks rb) label = Some k -> nth_error (rb_racks rb) k = Some r -> rb_tip rb = Some g ->
  Forall2 (fun p i => unpos d (rk_geom r) p = Some i /\ (i < length (rk_vols r))%nat) ps idxs ->
  arrays_len (length (rk_vols r)) (rk_comp r) -> NoDup (map fst (rk_comp r)) ->
  (forall j, 0 <= nth j (rk_vols r) 0) ->
  dispense_all c d rb label ps v = Some rb' ->
  exists r', nth_error (rb_racks rb') k = Some r' /\
    (forall k', k' <> k -> nth_error (rb_racks rb') k' = nth_error (rb_racks rb) k') /\
    arrays_len (length (rk_vols r')) (rk_comp r') /\ NoDup (map fst (rk_comp r')) /\
    forall kk j, cfrac (rk_comp r') kk j ==
                 closedg (nth j (rk_vols r) 0) (cfrac (rk_comp r) kk j) v (fget kk g) (cnt j idxs).
Proof.
  intros Hv NG ps idxs rb r rb' Hf Hr Ht HF HA HN Hvol H. unfold closedg. destruct (Qeq_bool v 0) eqn:Ez.
  - apply Qeq_bool_iff in Ez. apply (dispense_all_cfrac0 c d label v g k Ez NG ps idxs rb r rb' Hf Hr Ht HF HA HN H).
  - apply (dispense_all_cfrac c d label v g k (Qeq_bool_false_pos v Hv Ez) NG ps idxs rb r rb' Hf Hr Ht HF HA HN Hvol H).
Qed.

(* ------------------------------------------------------------------ distribute: volumes and compositions *)

(** [distribute], EVO numbering of the source range (or a one-row source trough on a Fluent), pairwise distinct
    destination positions (plate or trough): after the R record the robot agrees with the tracked state on
    every volume and on every fraction of every component *)
Theorem distribute_csim s ks kd dwells a s' rb :
  good_state s -> cstate s -> csim s rb -> distribute_dev_ok s ks -> dst_positions_distinct s kd dwells ->
  distribute s ks kd dwells a = (s', None) ->
  exists new rb', st_wl s' = emit (st_wl s) new /\
    interp true (w_dev (st_wl s)) rb new = Some rb' /\ csim s' rb' /\ cstate s'.
Proof.
  intros Hgood Hc Hcs Hdev Hnd H. pose proof Hgood as (HS & ND & Hd).
  pose proof (csim_sim _ _ Hcs) as Hsim.
  unfold distribute in H. cbv zeta in H.
  destruct (nth_error (st_lw s) ks) as [Ls|] eqn:HLs; [|discriminate].
  destruct (nth_error (st_lw s) kd) as [Ld|] eqn:HLd; [|discriminate].
  destruct (g_vrows (lw_geom Ls)) as [vr|] eqn:Ev; [|discriminate].
  destruct (rvol_x (d_volume a)) as [xv|] eqn:Ex; [|discriminate].
  set (d := w_dev (st_wl s)) in *.
  set (col := Z.to_nat (d_source_column a)) in *.
  set (dw := flattenF dwells) in *.
  assert (Hxq : exists v, xv = XQ v).
  { destruct xv as [v| | |]; [eexists; reflexivity|discriminate|cbn in H; discriminate|].
    exfalso. cbv beta iota in H.
    destruct (existsb _ dw); [discriminate|].
    destruct (positions_of d (lw_geom Ld) dw) as [ps|e0]; [|discriminate].
    destruct (sort_Z (map Z.of_nat ps)) as [|p0 tl]; [discriminate|].
    destruct (negb (col <? g_cols (lw_geom Ls))%nat); [discriminate|].
    rewrite remove_bad_volume in H; [discriminate|].
    exists (xmul_nat XNInf (length ps)). split; [left; reflexivity|].
    unfold xmul_nat. destruct (length ps =? 0)%nat; reflexivity. }
  destruct Hxq as [v ->]. cbv beta iota in H.
  destruct (Qgtb v (w_max (st_wl s))) eqn:Egt; [discriminate|].
  destruct (existsb _ dw); [discriminate|].
  destruct (positions_of d (lw_geom Ld) dw) as [ps|e0] eqn:Eps; [|discriminate].
  destruct (sort_Z (map Z.of_nat ps)) as [|p0 tl] eqn:Esort; [discriminate|].
  destruct (negb (col <? g_cols (lw_geom Ls))%nat) eqn:Ecol; [discriminate|].
  apply negb_false_iff in Ecol. apply Nat.ltb_lt in Ecol.
  cbn [xmul_nat] in H.
  set (q := Qred (v * inject_Z (Z.of_nat (length ps)))) in *.
  destruct (remove Ls (A0 (well_id 0 col)) (A0 (XQ q)) (d_label a)) as [Ls' [e1|]] eqn:Erem; [discriminate|].
  destruct (get_well_composition Ls' (well_id 0 col)) as [c|e1] eqn:Egc; [|discriminate].
  destruct (nth_error (st_lw (set_lw s ks Ls')) kd) as [Ld1|] eqn:HLd1; [|discriminate].
  destruct (add Ld1 (A1 dw) (A0 (XQ v)) (d_label a) (Some (repeat (Some c) (length ps))))
    as [Ld' [e2|]] eqn:Eadd; [discriminate|].
  set (s2 := set_lw (set_lw s ks Ls') kd Ld') in *.
  set (s2' := if (ks =? kd)%nat then condense_at s2 ks 2 (d_label a) else s2) in *.
  assert (Hw2' : st_wl s2' = st_wl s) by (unfold s2'; destruct (ks =? kd)%nat; rewrite ?st_wl_condense; reflexivity).
  destruct (comment (st_wl s2') (d_label a)) as [w1 [e3|]] eqn:Ec; [discriminate|].
  set (plast := last (p0 :: tl) p0) in *.
  set (excl := filter (fun z => negb (existsb (Z.eqb z) (p0 :: tl)))
                 (map (fun i => (p0 + Z.of_nat i)%Z) (seq 0 (Z.to_nat (plast - p0 + 1))))) in *.
  match type of H with context [reagent_distribution w1 ?x] => set (ra := x) in * end.
  destruct (reagent_distribution w1 ra) as [w2 e4] eqn:Er. injection H as <- ->.
  (* --- geometry of the source *)
  pose proof (wf_nth _ _ _ HS HLs) as HWs. pose proof (wf_nth _ _ _ HS HLd) as HWd.
  pose proof (wf_geom_nth _ _ _ HS HLs) as Hgs.
  destruct (n_row_ids_trough _ vr Hgs Ev) as [En Hvr].
  assert (Hdv : d = Evo \/ (d = Fluent /\ vr = 1%nat)).
  { destruct Hdev as [E|[E Hone]]; [left; exact E|right]. split; [exact E|].
    specialize (Hone Ls HLs). congruence. }
  pose proof (Hnd Ld ps HLd Eps) as NDps.
  (* --- the source removal *)
  destruct (remove_accepted _ _ _ _ _ Erem) as (L1s & _ & _ & Hruns & HLs').
  cbv zeta in Hruns. cbn [flattenF broadcast length repeat zip] in Hruns.
  apply rem_run_loop in Hruns. rewrite remove_loop_cons in Hruns.
  rewrite (trough_src_index Ls vr col Hgs Ev Ecol) in Hruns.
  destruct (Qltb (Qred (vol_at Ls col - q)) (lw_min Ls)) eqn:Echk; [discriminate|].
  cbn [remove_loop] in Hruns. injection Hruns as HL1s.
  assert (Hcomp_s : lw_comp Ls' = lw_comp Ls) by (rewrite HLs', <- HL1s; reflexivity).
  assert (Hgeom_s : lw_geom Ls' = lw_geom Ls) by (rewrite HLs', <- HL1s; reflexivity).
  (* --- the liquid *)
  assert (Hcw : c = wca (lw_comp Ls) col).
  { unfold get_well_composition in Egc. rewrite (lw_index_geom Ls' Ls _ Hgeom_s) in Egc.
    rewrite (trough_src_index Ls vr col Hgs Ev Ecol) in Egc. injection Egc as <-.
    unfold well_composition_at. rewrite Hcomp_s. reflexivity. }
  pose proof (Forall_nth_error _ _ _ _ Hc HLs) as (NDs & Hnns).
  assert (NC : NoDup (map fst c)) by (rewrite Hcw; apply wca_NoDup; exact NDs).
  assert (Hcf : forall k, fget k c == cfrac (lw_comp Ls) k col)
    by (intro k; rewrite Hcw; apply fget_wca; [exact NDs|apply Hnns]).
  assert (Hc0 : forall k, 0 <= fget k c) by (intro k; rewrite Hcf; apply Hnns).
  (* --- the destination labware after the removal *)
  assert (HWs' : wf_labware Ls') by (apply (remove_wf' _ _ _ _ _ _ Erem); exact HWs).
  assert (HS1 : wf_state (set_lw s ks Ls')) by (apply wf_set_lw; assumption).
  pose proof (wf_nth _ _ _ HS1 HLd1) as HWd1.
  assert (Hlims1 : same_lims Ld Ld1).
  { cbn [st_lw set_lw] in HLd1. destruct (Nat.eq_dec ks kd) as [<-|Hne].
    - rewrite nth_error_upd_same in HLd1 by (eapply nth_error_lt; exact HLs). injection HLd1 as <-.
      rewrite HLs in HLd. injection HLd as <-. apply (remove_any _ _ _ _ _ _ Erem).
    - rewrite nth_error_upd_other in HLd1 by exact Hne. rewrite HLd in HLd1. injection HLd1 as <-.
      apply same_lims_refl. }
  destruct Hlims1 as (N1 & G1 & _).
  pose proof (wf_shape_shape0 _ (proj1 HWd1)) as HS0d1.
  assert (Hc1 : Forall cinv (upd (st_lw s) ks Ls')).
  { apply Forall_upd; [exact Hc|]. unfold cinv. rewrite Hcomp_s. split; assumption. }
  cbn [st_lw set_lw] in HLd1.
  pose proof (Forall_nth_error _ _ _ _ Hc1 HLd1) as Hcd1.
  (* --- the record *)
  destruct (comment_spec _ _ _ _ Ec) as (ls & Hw1 & _). rewrite Hw2' in Hw1.
  pose proof (reagent_distribution_spec _ _ _ _ Er) as Hspec. cbv beta iota in Hspec.
  destruct Hspec as (f & v' & Hwr & F1 & F2 & F3 & F4 & F5 & F6 & F7 & F8 & F9 & F10 & F11).
  unfold ra in F1, F2, F3, F4, F5, F6, F7, F8.
  cbn [rd_src_label rd_dst_label rd_src_start rd_src_end rd_dst_start rd_dst_end rd_exclude rd_volume] in *.
  injection F1 as F1. injection F2 as F2. injection F3 as F3. injection F4 as F4.
  injection F5 as F5. injection F6 as F6.
  rewrite En in F3, F4.
  assert (F3' : Z.to_nat (r_src_start f) = (1 + vr * col)%nat) by (rewrite <- F3; exact (Nat2Z.id (1 + vr * col))).
  assert (F4' : Z.to_nat (r_src_end f) = (1 + vr * col + vr - 1)%nat) by (rewrite <- F4; exact (Nat2Z.id (1 + vr * col + vr - 1))).
  assert (Hv' : v' = v).
  { destruct (d_volume a) as [z|x|]; cbn [rvol_pvol rvol_x] in *; congruence. }
  rewrite Hv' in F8, F9, F10, F11. clear Hv' v'.
  (* --- the tracked additions: ledger and closed form of the fractions *)
  destruct (add_accepted_items _ _ _ _ _ _ Eadd) as (L1d & Hmap & Hrund & HLd'). cbv zeta in Hmap, Hrund.
  cbn [flattenF broadcast] in Hmap, Hrund. fold dw in Hmap, Hrund.
  destruct (add_run_cfrac_g v c F10 NC Hc0 _ _ _ _ Hrund eq_refl (aitems_same_liquid dw v c _ _)
              (proj1 HWd1) (fun j => proj1 (vol_at_range Ld1 j (proj2 HWd1))) Hcd1)
    as (idxs & Hev0 & Hcd' & Hclm).
  destruct (add_run_ledger _ _ _ _ Hrund eq_refl HS0d1) as (evs & Hev & HJ).
  rewrite Hmap in Hev, Hev0. rewrite <- G1 in Eps.
  destruct (events_of_positions d Ld1 v HS0d1 Hd dw ps evs Eps Hev) as [-> HFps].
  rewrite Hev in Hev0. injection Hev0 as Hidx. apply evs_of_inj in Hidx. subst idxs.
  pose proof (add_wf' _ _ _ _ _ _ _ Eadd HWd1) as HWd'.
  destruct (add_any _ _ _ _ _ _ _ Eadd) as [Hlimsd _].
  (* --- destination positions as the interpreter computes them *)
  pose proof (dsts_perm ps p0 tl NDps Esort) as Hperm. cbv zeta in Hperm. fold plast excl in Hperm.
  match type of Hperm with Permutation ?x _ => set (dsts := x) in * end.
  pose proof (Permutation_length Hperm) as Hlen.
  (* --- the robot: source *)
  destruct (Forall2_nth_error_l _ _ _ _ _ Hcs HLs) as (r & Hr & (Hrs & HAs & HNs & HFs)).
  destruct (find_rack_sim _ _ _ _ Hsim ND HLs) as (r0 & Hf & Hr0 & _).
  rewrite Hr in Hr0. injection Hr0 as <-.
  pose proof Hrs as (R1 & R2 & R3 & R4 & R5).
  set (total := v * inject_Z (Z.of_nat (length dsts))).
  set (g := fractions_at r col).
  set (rb1 := with_rack rb ks (set_rack_vol r col (nth col (rk_vols r) 0 - total)) (Some g)).
  assert (Hqt : q == total) by (unfold q, total; rewrite Qred_correct, Hlen; reflexivity).
  assert (Hcs1 : Forall2 rack_csim (upd (st_lw s) ks Ls') (rb_racks rb1)).
  { unfold rb1, with_rack. cbn [rb_racks]. apply Forall2_upd; [exact Hcs|]. split.
    - rewrite HLs', <- HL1s. apply (rack_sim_obs (rem_one Ls col q)); [apply log_obs|].
      apply rack_sim_rem_one'; assumption.
    - unfold set_rack_vol. cbn [rk_vols rk_comp]. rewrite upd_length, Hcomp_s.
      split; [exact HAs|]. split; [exact HNs|exact HFs]. }
  assert (Hsim1 : sim_racks (upd (st_lw s) ks Ls') (rb_racks rb1)).
  { eapply Forall2_imp; [|exact Hcs1]. intros L0 r0 (Hx & _). exact Hx. }
  assert (ND1 : NoDup (map lw_name (upd (st_lw s) ks Ls'))).
  { rewrite (names_upd _ _ Ls); [exact ND|exact HLs|apply (remove_any _ _ _ _ _ _ Erem)]. }
  (* --- the robot: destinations *)
  set (u := uidx d (lw_geom Ld1)) in *.
  assert (HFd : Forall2 (fun p i => unpos d (lw_geom Ld1) p = Some i /\ (i < length (lw_vols Ld1))%nat)
                  dsts (map u dsts)) by (eapply Forall2_map_perm; eassumption).
  assert (Hdelta : forall j, delta (evs_of v (map u dsts)) j == delta (evs_of v (map u ps)) j).
  { intro j. apply delta_perm. unfold evs_of. apply Permutation_map. apply Permutation_map. exact Hperm. }
  assert (Hbound : forall j, vol_at Ld1 j + delta (evs_of v (map u dsts)) j <= lw_max Ld1).
  { intro j. rewrite Hdelta, <- HJ. destruct Hlimsd as (_ & _ & _ & M4 & _). rewrite <- M4.
    pose proof (vol_at_range Ld' j (proj2 HWd')) as [_ B].
    assert (E : vol_at Ld' j = vol_at L1d j) by (rewrite HLd'; reflexivity). rewrite <- E. exact B. }
  destruct (dispense_all_idx true d kd v F10 dsts (map u dsts) Ld1 _ rb1 HFd Hsim1 ND1 HLd1 Hbound)
    as (rb' & L' & Hdall & Hsim' & Hfr' & Hvol').
  assert (Hsim2 : sim_racks (st_lw s2) (rb_racks rb')).
  { unfold s2. cbn [st_lw set_lw]. apply (sim_racks_upd_rel _ _ _ L'); [exact Hsim'|].
    intros r0 Hr0. apply (rack_sim_vols_eq L'); [exact Hr0| |].
    - eapply same_lims_trans; [apply same_lims_sym, same_frame_lims; exact Hfr'|exact Hlimsd].
    - intro j. rewrite Hvol', Hdelta, HLd'. apply HJ. }
  (* --- the robot: fractions in the destination rack *)
  destruct (Forall2_nth_error_l _ _ _ _ _ Hcs1 HLd1) as (r_d & Hr_d & (Hrs_d & HAd & HNd & HFrd)).
  destruct (find_rack_sim _ _ _ _ Hsim1 ND1 HLd1) as (r_d0 & Hf_d & Hr_d0 & _).
  rewrite Hr_d in Hr_d0. injection Hr_d0 as <-.
  pose proof Hrs_d as (D1 & D2 & D3 & D4 & D5).
  assert (NG : NoDup (map fst g)) by (unfold g; rewrite fractions_at_keys; exact HNs).
  assert (HFd_r : Forall2 (fun p i => unpos d (rk_geom r_d) p = Some i /\ (i < length (rk_vols r_d))%nat)
                    dsts (map u dsts)).
  { eapply Forall2_imp; [|exact HFd]. intros p i [A B]. rewrite D2, <- (Forall2_length' _ _ _ D5).
    split; assumption. }
  assert (Hvol_r : forall j, 0 <= nth j (rk_vols r_d) 0).
  { intro j. rewrite <- (Forall2_Qeq_nth _ _ j D5). apply (vol_at_range Ld1 j (proj2 HWd1)). }
  destruct (dispense_all_cfrac_g true d (lw_name Ld1) v g kd F10 NG dsts (map u dsts) rb1 r_d rb'
              Hf_d Hr_d eq_refl HFd_r HAd HNd Hvol_r Hdall) as (r' & Hr' & Hoth & HA' & HN' & Hclr).
  assert (Hcs2 : Forall2 rack_csim (st_lw s2) (rb_racks rb')).
  { apply Forall2_of_nth_error; [apply (Forall2_length' _ _ _ Hsim2)|].
    intros k0 L0 r0 HL0 Hr0. unfold s2 in HL0. cbn [st_lw set_lw] in HL0.
    destruct (Nat.eq_dec k0 kd) as [->|Hne].
    - rewrite nth_error_upd_same in HL0 by (rewrite upd_length; eapply nth_error_lt; exact HLd).
      injection HL0 as <-. rewrite Hr' in Hr0. injection Hr0 as <-.
      assert (HLd2 : nth_error (st_lw s2) kd = Some Ld').
      { unfold s2. cbn [st_lw set_lw]. apply nth_error_upd_same. rewrite upd_length. eapply nth_error_lt; exact HLd. }
      destruct (Forall2_nth_error_l _ _ _ _ _ Hsim2 HLd2) as (r2 & Hr2 & Hrs2).
      rewrite Hr' in Hr2. injection Hr2 as <-.
      split; [exact Hrs2|]. split; [exact HA'|]. split; [exact HN'|].
      intros k j. rewrite Hclr. assert (E : lw_comp Ld' = lw_comp L1d) by (rewrite HLd'; reflexivity).
      rewrite E, Hclm. rewrite (cnt_perm _ _ j (Permutation_map u Hperm)).
      apply closedg_compat.
      + symmetry. apply (Forall2_Qeq_nth _ _ j D5).
      + apply HFrd.
      + unfold g. rewrite fget_fractions_at, HFs, Hcf. reflexivity.
    - rewrite nth_error_upd_other in HL0 by congruence. rewrite (Hoth k0 Hne) in Hr0.
      destruct (Forall2_nth_error_l _ _ _ _ _ Hcs1 HL0) as (r1 & Hr1 & Hrc1).
      rewrite Hr0 in Hr1. injection Hr1 as <-. exact Hrc1. }
  assert (Hc2 : cstate s2).
  { unfold cstate, s2. cbn [st_lw set_lw]. apply Forall_upd; [exact Hc1|].
    unfold cinv. assert (E : lw_comp Ld' = lw_comp L1d) by (rewrite HLd'; reflexivity). rewrite E. exact Hcd'. }
  (* --- assemble *)
  exists (map RC ls ++ [RR f])%list, rb'. cbn [st_wl set_wl].
  split; [rewrite Hwr, Hw1, emit_emit; reflexivity|]. split.
  - rewrite interp_app, interp_RC. cbn [interp interp1].
    assert (Hdo : do_reagent true d rb f = Some rb'); [|rewrite Hdo; reflexivity].
    unfold do_reagent. rewrite <- F1, Hf, Hr, F3', F4', R2.
    rewrite (range_index_src d (lw_geom Ls) vr col Hgs Ev Ecol Hdv).
    rewrite <- F5, <- F6, F7, F9. fold dsts. fold total.
    assert (Echk' : Qltb (nth col (rk_vols r) 0 - total) (rk_min r) = false).
    { rewrite <- Echk. apply Qltb_compat; [|rewrite R3; reflexivity].
      rewrite Qred_correct, Hqt. unfold vol_at. rewrite (Forall2_Qeq_nth _ _ col R5). reflexivity. }
    rewrite Echk'. cbn [andb]. fold g. fold rb1. rewrite <- F2, <- N1. exact Hdall.
  - split.
    + unfold csim. cbn [st_lw set_wl]. unfold s2'. destruct (ks =? kd)%nat; [apply csim_condense_at|]; exact Hcs2.
    + unfold cstate. cbn [st_lw set_wl]. unfold s2'. destruct (ks =? kd)%nat; [apply cstate_condense_at|]; exact Hc2.
Qed.

(** the plate-destination case (every destination well receives exactly one addition) is an instance *)
Corollary distribute_csim_plate s ks kd dwells a s' rb :
  good_state s -> cstate s -> csim s rb -> w_dev (st_wl s) = Evo ->
  (forall Ld, nth_error (st_lw s) kd = Some Ld -> g_vrows (lw_geom Ld) = None) ->
  dst_positions_distinct s kd dwells ->
  distribute s ks kd dwells a = (s', None) ->
  exists new rb', st_wl s' = emit (st_wl s) new /\
    interp true Evo rb new = Some rb' /\ csim s' rb' /\ cstate s'.
Proof.
  intros Hg Hc Hcs Hd _ Hnd H. rewrite <- Hd.
  apply (distribute_csim s ks kd dwells a s' rb); try assumption. left. exact Hd.
Qed.

(* ------------------------------------------------------------------ programs of transfers and distributes *)

Definition trd_op (o : op) : bool :=
  match o with ODistribute _ _ _ _ => true | _ => tr_op o end.

Theorem step_csim_d s o s' rb :
  good_state s -> cstate s -> csim s rb -> trd_op o = true -> op_ok s o ->
  step s o = (s', None) ->
  exists new rb', st_wl s' = emit (st_wl s) new /\
    interp true (w_dev (st_wl s)) rb new = Some rb' /\ csim s' rb' /\ cstate s'.
Proof.
  intros Hgood Hc Hcs Hop Hok H.
  destruct o; cbn [trd_op tr_op] in Hop; try discriminate Hop;
    try (eapply step_csim; [exact Hgood|exact Hc|exact Hcs| |exact H]; reflexivity).
  cbn [step] in H. cbn [op_ok] in Hok. destruct Hok as [Hdev Hnd].
  eapply distribute_csim; eassumption.
Qed.

Theorem run_csim_d s0 ops : forall s rb,
  good_state s -> cstate s -> csim s rb -> w_dev (st_wl s) = w_dev (st_wl s0) ->
  map lw_geom (st_lw s) = map lw_geom (st_lw s0) ->
  forallb trd_op ops = true -> Forall (op_ok s0) ops ->
  Forall (fun e => e = None) (snd (run s ops)) ->
  exists new rb', st_wl (fst (run s ops)) = emit (st_wl s) new /\
    interp true (w_dev (st_wl s)) rb new = Some rb' /\ csim (fst (run s ops)) rb'.
Proof.
  induction ops as [|o r IH]; intros s rb Hgood Hc Hcs Hd Hg Hops Hok Hall.
  - exists [], rb. cbn [run fst]. rewrite emit_nil. split; [reflexivity|]. split; [reflexivity|exact Hcs].
  - rewrite run_cons in *. cbn [fst snd] in *. cbn [forallb] in Hops. apply andb_true_iff in Hops.
    destruct Hops as [Ho Hr]. inversion Hok as [|o' r' Hoko Hokr]; subst.
    inversion Hall as [|e' es' He Hes]; subst.
    destruct (step s o) as [s1 e1] eqn:Es. cbn [fst snd] in *. subst e1.
    destruct (step_csim_d _ _ _ _ Hgood Hc Hcs Ho (op_ok_transport _ _ _ Hd Hg Hoko) Es)
      as (n1 & rb1 & W1 & I1 & S1 & C1).
    pose proof (step_wf' _ _ _ _ Es (proj1 Hgood)) as HS1.
    pose proof (csim_sim _ _ Hcs) as Hsim. pose proof (csim_sim _ _ S1) as Hsim1.
    destruct (good_next _ _ _ _ _ _ Hgood Hsim W1 I1 Hsim1 HS1) as [Hgood1 Hdev1].
    assert (Hg1 : map lw_geom (st_lw s1) = map lw_geom (st_lw s0)).
    { rewrite <- (sim_geoms _ _ Hsim1), (interp_geoms _ _ _ _ _ I1), (sim_geoms _ _ Hsim). exact Hg. }
    assert (Hd1 : w_dev (st_wl s1) = w_dev (st_wl s0)) by congruence.
    destruct (IH s1 rb1 Hgood1 C1 S1 Hd1 Hg1 Hr Hokr Hes) as (n2 & rb2 & W2 & I2 & S2).
    rewrite Hdev1 in I2.
    exists (n1 ++ n2)%list, rb2. split; [rewrite W2, W1, emit_emit; reflexivity|].
    split; [rewrite interp_app, I1; exact I2|exact S2].
Qed.

(** C01_composition for programs of transfers and distributes *)
Theorem run_composition_distribute s0 ops :
  good_state s0 -> cstate s0 -> w_recs (st_wl s0) = [] -> forallb trd_op ops = true ->
  Forall (op_ok s0) ops ->
  Forall (fun e => e = None) (snd (run s0 ops)) ->
  exists rb, interp false (w_dev (st_wl s0)) (robot_of (st_lw s0)) (w_recs (st_wl (fst (run s0 ops)))) = Some rb /\
             csim (fst (run s0 ops)) rb.
Proof.
  intros Hgood Hc Hrecs Hops Hok Hall.
  destruct (run_csim_d s0 ops s0 _ Hgood Hc (csim_robot_of s0 (proj1 Hgood) Hc) eq_refl eq_refl Hops Hok Hall)
    as (new & rb & W & I & S).
  exists rb. rewrite W. cbn [w_recs emit]. rewrite Hrecs. cbn [app].
  split; [apply interp_unchecked; exact I|exact S].
Qed.

(* ================================================================== part 3: the records of a program are valid *)

(** valid, and an R record has an int volume or a float (dyadic, non-negative) volume *)
Definition rec_good (r : srec) : Prop := rec_valid r /\ r_num r.

Definition emits_good (w w' : wstate) : Prop := exists new, w' = emit w new /\ Forall rec_good new.

Lemma emits_good_refl w : emits_good w w.
Proof. exists []. rewrite emit_nil. split; [reflexivity|constructor]. Qed.

Lemma emits_good_trans w1 w2 w3 : emits_good w1 w2 -> emits_good w2 w3 -> emits_good w1 w3.
Proof.
  intros (n1 & -> & B1) (n2 & -> & B2). exists (n1 ++ n2)%list. rewrite emit_emit. split; [reflexivity|].
  apply Forall_app. split; [exact B1|exact B2].
Qed.

Lemma emits_good_one w r : rec_good r -> emits_good w (emit w [r]).
Proof. intro H. exists [r]. split; [reflexivity|]. constructor; [exact H|constructor]. Qed.

Lemma prepare_ad_good a m f : prepare_ad a m = Ok f -> rec_good (RA f) /\ rec_good (RD f).
Proof.
  intro H. destruct (rc_prepare_ok _ _ _ H) as [_ (Hs & _ & Hp & Hv & _)].
  split; (split; [cbn [rec_valid]; split; [exact Hs|split; assumption]|exact I]).
Qed.

Lemma prepare_ad_valid a m f : prepare_ad a m = Ok f -> rec_valid (RA f) /\ rec_valid (RD f).
Proof. intro H. destruct (prepare_ad_good a m f H) as [[A _] [B _]]. split; assumption. Qed.

Lemma aspirate_well_good w a w' e : aspirate_well w a = (w', e) -> emits_good w w'.
Proof.
  unfold aspirate_well. destruct (prepare_ad a (Some (w_max w))) as [f|e0] eqn:E; intro H; injection H as <- <-.
  - apply emits_good_one. apply (prepare_ad_good _ _ _ E).
  - apply emits_good_refl.
Qed.

Lemma dispense_well_good w a w' e : dispense_well w a = (w', e) -> emits_good w w'.
Proof.
  unfold dispense_well. destruct (prepare_ad a (Some (w_max w))) as [f|e0] eqn:E; intro H; injection H as <- <-.
  - apply emits_good_one. apply (prepare_ad_good _ _ _ E).
  - apply emits_good_refl.
Qed.

Lemma comment_good w c w' e : comment w c = (w', e) -> emits_good w w'.
Proof.
  unfold comment. intro H. destruct c as [s|]; [|injection H as <- <-; apply emits_good_refl].
  destruct (String.eqb s ""); [injection H as <- <-; apply emits_good_refl|].
  destruct (contains_char semi s) eqn:Es; injection H as <- <-; [apply emits_good_refl|].
  exists (map RC (comment_lines s)). split; [reflexivity|]. apply Forall_forall. intros r Hin.
  apply in_map_iff in Hin. destruct Hin as (t & <- & Ht). split; [|exact I]. cbn [rec_valid].
  destruct (rc_comment_lines_spec s t Ht) as (_ & _ & _ & H4). apply H4. exact Es.
Qed.

Lemma wash_good w sc w' e : wash w sc = (w', e) -> emits_good w w'.
Proof.
  unfold wash. intro H. destruct (w_diti w).
  - injection H as <- <-. apply emits_good_one. split; exact I.
  - destruct sc as [z| | | |]; try (injection H as <- <-; apply emits_good_refl).
    destruct ((1 <=? z) && (z <=? 4))%Z eqn:E; injection H as <- <-; [|apply emits_good_refl].
    apply andb_true_iff in E. destruct E as [E1 E2]. apply Z.leb_le in E1. apply Z.leb_le in E2.
    apply emits_good_one. split; [cbn [rec_valid]; lia|exact I].
Qed.

Lemma flush_good w w' e : flush w = (w', e) -> emits_good w w'.
Proof. unfold flush. intro H. injection H as <- <-. apply emits_good_one. split; exact I. Qed.

Lemma commit_good w w' e : commit w = (w', e) -> emits_good w w'.
Proof. unfold commit. intro H. injection H as <- <-. apply emits_good_one. split; exact I. Qed.

Lemma decontaminate_good w w' e : decontaminate w = (w', e) -> emits_good w w'.
Proof.
  unfold decontaminate. intro H. destruct (w_diti w); injection H as <- <-; [apply emits_good_refl|].
  apply emits_good_one. split; exact I.
Qed.

Lemma set_diti_good w i w' e : set_diti w i = (w', e) -> emits_good w w'.
Proof.
  unfold set_diti. intro H.
  destruct (i <? 0)%Z eqn:Hi; [injection H as <- <-; apply emits_good_refl|]. apply Z.ltb_ge in Hi.
  destruct (last_opt (w_recs w)) as [r|]; [destruct (is_break_like r)|]; injection H as <- <-;
    try apply emits_good_refl; apply emits_good_one; (split; [exact Hi|exact I]).
Qed.

Lemma tip_action_good w ws w' e : tip_action w ws = (w', e) -> emits_good w w'.
Proof.
  unfold tip_action. intro H.
  destruct ws; try (eapply wash_good; exact H); try (eapply flush_good; exact H).
  - injection H as <- <-. apply emits_good_refl.
  - destruct (w_dev w); try (eapply flush_good; exact H); injection H as <- <-; apply emits_good_refl.
Qed.

(** the volume argument of reagent_distribution / distribute: an int, or a float that is a dyadic rational *)
Definition rvol_text_ok (v : rvol) : Prop :=
  (exists z, v = RVInt z) \/
  (exists q k, v = RVFloat (XQ q) /\ Npos (Qden (Qred q)) = (2 ^ N.of_nat k)%N).

Lemma reagent_good w a w' e :
  rvol_text_ok (rd_volume a) -> reagent_distribution w a = (w', e) -> emits_good w w'.
Proof.
  intros Hvt H. destruct e as [e|]; [rewrite (rc_reagent_err _ _ _ _ H); apply emits_good_refl|].
  destruct (rc_reagent_ok _ _ _ H)
    as (f & -> & _ & _ & _ & _ & _ & _ & _ & _ & _ & _ & _ & _ & Hvol & Hdr & _ & _ & Hm1 & Hm2 & Hns & _ &
        P1 & P2 & P3 & P4 & Hv0 & _ & _ & _ & PX & C1 & C2).
  assert (Hnn : rc_r_nonneg f).
  { split; [exact P1|]. split; [exact P2|]. split; [exact P3|]. split; [exact P4|].
    split; [exact C1|]. split; [exact C2|exact PX]. }
  destruct Hvt as [[z Hz]|(q & k & Hq & Hd)].
  - rewrite Hz in Hvol. apply emits_good_one. split; [|left; exists z; exact Hvol]. cbn [rec_valid].
    split; [exact Hns|]. split; [exact Hnn|].
    rewrite Hvol. rewrite Hvol in Hv0. cbn [pynum_q] in Hv0. change 0 with (inject_Z 0) in Hv0.
    rewrite <- Zle_Qle in Hv0. exact Hv0.
  - rewrite Hq in Hvol. destruct Hvol as (q' & Eq & Hvol). injection Eq as <-.
    rewrite Hvol in Hv0. cbn [pynum_q] in Hv0.
    apply emits_good_one. split.
    + cbn [rec_valid]. split; [exact Hns|]. split; [exact Hnn|]. rewrite Hvol. exact I.
    + right. exists q, k. split; [exact Hvol|]. split; [exact Hv0|exact Hd].
Qed.

Lemma emit_wells_good asp kw L : forall items w w' e,
  emit_wells asp w L items kw = (w', e) -> emits_good w w'.
Proof.
  induction items as [|[well x] rest IH]; intros w w' e H; cbn [emit_wells] in H.
  - injection H as <- <-. apply emits_good_refl.
  - destruct (xpos x); [|eapply IH; exact H].
    destruct (device_position (w_dev w) (lw_geom L) well) as [pos|e0]; [|injection H as <- <-; apply emits_good_refl].
    destruct ((if asp then aspirate_well else dispense_well) w (ad_of_kw (lw_name L) pos (xq x) kw))
      as [w1 e1] eqn:E1.
    assert (H1 : emits_good w w1)
      by (destruct asp; [eapply aspirate_well_good|eapply dispense_well_good]; exact E1).
    destruct e1 as [e1|]; [injection H as <- <-; exact H1|].
    eapply emits_good_trans; [exact H1|eapply IH; exact H].
Qed.

Lemma aspirate_good s k wells vols label kw s' e :
  aspirate s k wells vols label kw = (s', e) -> emits_good (st_wl s) (st_wl s').
Proof.
  unfold aspirate, wells_vols. cbv zeta. intro H.
  destruct (nth_error (st_lw s) k) as [L|]; [|injection H as <- <-; apply emits_good_refl].
  cbv beta iota in H. destruct (remove L _ _ label) as [L' [e1|]]; [injection H as <- <-; apply emits_good_refl|].
  cbn [st_wl set_lw] in H. destruct (comment (st_wl s) label) as [w e2] eqn:Ec.
  pose proof (comment_good _ _ _ _ Ec) as H1.
  destruct e2 as [e2|]; [injection H as <- <-; exact H1|].
  destruct (emit_wells true w L' _ kw) as [w' e3] eqn:Ee. injection H as <- <-. cbn [st_wl set_wl].
  eapply emits_good_trans; [exact H1|eapply emit_wells_good; exact Ee].
Qed.

Lemma dispense_good s k wells vols label comps kw s' e :
  dispense s k wells vols label comps kw = (s', e) -> emits_good (st_wl s) (st_wl s').
Proof.
  unfold dispense, wells_vols. cbv zeta. intro H.
  destruct (nth_error (st_lw s) k) as [L|]; [|injection H as <- <-; apply emits_good_refl].
  cbv beta iota in H. destruct (add L _ _ label comps) as [L' [e1|]]; [injection H as <- <-; apply emits_good_refl|].
  cbn [st_wl set_lw] in H. destruct (comment (st_wl s) label) as [w e2] eqn:Ec.
  pose proof (comment_good _ _ _ _ Ec) as H1.
  destruct e2 as [e2|]; [injection H as <- <-; exact H1|].
  destruct (emit_wells false w L' _ kw) as [w' e3] eqn:Ee. injection H as <- <-. cbn [st_wl set_wl].
  eapply emits_good_trans; [exact H1|eapply emit_wells_good; exact Ee].
Qed.

Lemma exec_step_good s ks kd sw dw v ws kw s' e :
  exec_step s ks kd sw dw v ws kw = (s', e) -> emits_good (st_wl s) (st_wl s').
Proof.
  unfold exec_step. intro H.
  destruct (aspirate s ks (A0 sw) (A0 (XQ v)) None kw) as [s1 e1] eqn:Ea.
  pose proof (aspirate_good _ _ _ _ _ _ _ _ Ea) as H1.
  destruct e1 as [e1|]; [injection H as <- <-; exact H1|].
  destruct (nth_error (st_lw s1) ks) as [Ls|]; [|injection H as <- <-; exact H1].
  destruct (get_well_composition Ls sw) as [c|e2]; [|injection H as <- <-; exact H1].
  destruct (dispense s1 kd (A0 dw) (A0 (XQ v)) None (Some [Some c]) kw) as [s2 e3] eqn:Ed.
  pose proof (emits_good_trans _ _ _ H1 (dispense_good _ _ _ _ _ _ _ _ _ Ed)) as H2.
  destruct e3 as [e3|]; [injection H as <- <-; exact H2|].
  destruct (tip_action (st_wl s2) ws) as [w e4] eqn:Et. injection H as <- <-. cbn [st_wl set_wl].
  eapply emits_good_trans; [exact H2|]. eapply tip_action_good. exact Et.
Qed.

Lemma exec_good ks kd ws kw acts : forall s s' e,
  exec s ks kd acts ws kw = (s', e) -> emits_good (st_wl s) (st_wl s').
Proof.
  induction acts as [|a rest IH]; intros s s' e H; cbn [exec] in H.
  - injection H as <- <-. apply emits_good_refl.
  - destruct a as [sw dw v|].
    + destruct (exec_step s ks kd sw dw v ws kw) as [s1 e1] eqn:Es.
      pose proof (exec_step_good _ _ _ _ _ _ _ _ _ _ Es) as H1.
      destruct e1 as [e1|]; [injection H as <- <-; exact H1|].
      eapply emits_good_trans; [exact H1|eapply IH; exact H].
    + apply IH in H. cbn [st_wl set_wl commit fst] in H.
      eapply emits_good_trans; [|exact H]. apply emits_good_one. split; exact I.
Qed.

Lemma transfer_good s ks swells kd dwells vols label ws pb kw s' e :
  transfer s ks swells kd dwells vols label ws pb kw = (s', e) -> emits_good (st_wl s) (st_wl s').
Proof.
  unfold transfer. cbv zeta. intro H.
  assert (Hstop : forall e0, (s, Some e0) = (s', e) -> emits_good (st_wl s) (st_wl s'))
    by (intros e0 E; injection E as <- <-; apply emits_good_refl).
  destruct (w_dev (st_wl s)); try apply (Hstop _ H).
  all: destruct (nth_error (st_lw s) ks) as [Ls|]; [|apply (Hstop _ H)];
    destruct (nth_error (st_lw s) kd) as [Ld|]; [|apply (Hstop _ H)];
    destruct (negb _); [apply (Hstop _ H)|];
    destruct (existsb _ _); [apply (Hstop _ H)|];
    destruct (_ || _); [apply (Hstop _ H)|];
    destruct (optimize_partition_by _ _ pb) as [mode|e0]; [|apply (Hstop _ H)];
    destruct (comment (st_wl s) label) as [w e1] eqn:Ec;
    pose proof (comment_good _ _ _ _ Ec) as H1;
    (destruct e1 as [e1|]; [injection H as <- <-; exact H1|]);
    match type of H with context [exec ?st ?k1 ?k2 ?a ?sc ?kk] =>
      destruct (exec st k1 k2 a sc kk) as [s1 e2] eqn:Ee end;
    pose proof (emits_good_trans _ _ _ H1 (exec_good _ _ _ _ _ _ _ _ Ee)) as H2;
    (destruct e2 as [e2|]; [injection H as <- <-; exact H2|]);
    destruct (ks =? kd)%nat; injection H as <- <-; rewrite ?st_wl_condense; exact H2.
Qed.

Lemma distribute_good s ks kd dwells a s' e :
  rvol_text_ok (d_volume a) ->
  distribute s ks kd dwells a = (s', e) -> emits_good (st_wl s) (st_wl s').
Proof.
  intros H3. unfold distribute. cbv zeta. intro H.
  repeat match type of H with
         | context [match ?x with _ => _ end] => destruct x eqn:?
         | context [if ?b then _ else _] => destruct b eqn:?
         end;
    injection H as <- <-; cbn [st_wl set_wl set_lw]; rewrite ?st_wl_condense; cbn [st_wl set_wl set_lw];
    try apply emits_good_refl.
  all: match goal with Ec : comment _ _ = (_, _) |- _ =>
         rewrite ?st_wl_condense in Ec; cbn [st_wl set_wl set_lw] in Ec;
         pose proof (comment_good _ _ _ _ Ec) as Hc end.
  all: try exact Hc.
  all: match goal with Er : reagent_distribution _ _ = (_, _) |- _ =>
         eapply emits_good_trans; [exact Hc|];
         eapply reagent_good; [|exact Er]; exact H3 end.
Qed.

(** the only argument the text-level theorems restrict: the volume of distribute is an int or a float that is a
    dyadic rational (every Python float is one; a float volume is written as its exact terminating expansion
    and read back to the same value, [pynum_of_text_float_value]; see the printer caveat in Props/C09.v).
    The DiTi index of set_diti and diti_reuse / multi_disp of distribute need no hypothesis:
    the methods reject negative values (since /repo commit 26768d9, finding F21), so an accepted call has
    non-negative ones and a rejected call appends nothing. *)
Definition op_text_ok (o : op) : Prop :=
  match o with
  | ODistribute _ _ _ a =>
      (exists z, d_volume a = RVInt z) \/
      (exists q k, d_volume a = RVFloat (XQ q) /\ Npos (Qden (Qred q)) = (2 ^ N.of_nat k)%N)
  | _ => True
  end.

Lemma on_wl_good s f s' e : (forall w w' e0, f w = (w', e0) -> emits_good w w') ->
  on_wl s f = (s', e) -> emits_good (st_wl s) (st_wl s').
Proof.
  intros Hf H. unfold on_wl in H. destruct (f (st_wl s)) as [w e0] eqn:E. injection H as <- <-.
  eapply Hf. exact E.
Qed.

Theorem step_good s o s' e : wl_op o = true -> op_text_ok o -> step s o = (s', e) ->
  emits_good (st_wl s) (st_wl s').
Proof.
  intros Hop Hok H. destruct o; try discriminate Hop; cbn [step] in H; cbn [op_text_ok] in Hok.
  - eapply aspirate_good; exact H.
  - eapply dispense_good; exact H.
  - eapply transfer_good; exact H.
  - eapply distribute_good; eassumption.
  - eapply on_wl_good; [|exact H]. intros w w' e0 E. eapply comment_good; exact E.
  - eapply on_wl_good; [|exact H]. intros w w' e0 E. eapply wash_good; exact E.
  - eapply on_wl_good; [|exact H]. apply decontaminate_good.
  - eapply on_wl_good; [|exact H]. apply flush_good.
  - eapply on_wl_good; [|exact H]. apply commit_good.
  - eapply on_wl_good; [|exact H]. intros w w' e0 E. eapply set_diti_good; exact E.
Qed.

Theorem run_good ops : forall s, forallb wl_op ops = true -> Forall op_text_ok ops ->
  emits_good (st_wl s) (st_wl (fst (run s ops))).
Proof.
  induction ops as [|o r IH]; intros s Hops Hok.
  - cbn [run fst]. apply emits_good_refl.
  - rewrite run_cons. cbn [fst]. cbn [forallb] in Hops. apply andb_true_iff in Hops. destruct Hops as [Ho Hr].
    inversion Hok as [|o' r' Hoko Hokr]; subst.
    destruct (step s o) as [s1 e1] eqn:Es. cbn [fst].
    eapply emits_good_trans; [eapply step_good; eassumption|apply IH; assumption].
Qed.

Theorem run_records_valid s ops : w_recs (st_wl s) = [] -> forallb wl_op ops = true -> Forall op_text_ok ops ->
  Forall rec_valid (w_recs (st_wl (fst (run s ops)))) /\ Forall r_num (w_recs (st_wl (fst (run s ops)))).
Proof.
  intros Hrecs Hops Hok. destruct (run_good ops s Hops Hok) as (new & Hw & Hg). rewrite Hw.
  cbn [w_recs emit]. rewrite Hrecs. cbn [app].
  split; (eapply Forall_impl; [|exact Hg]); intros r [A B]; assumption.
Qed.

(** the two file-level theorems with hypotheses on the program only (plus [cents_ok] of the records) *)
Theorem run_file_exact s0 ops :
  good_state s0 -> w_recs (st_wl s0) = [] ->
  forallb wl_op ops = true -> Forall (op_ok s0) ops -> Forall op_text_ok ops ->
  Forall (fun e => e = None) (snd (run s0 ops)) ->
  Forall cents_ok (w_recs (st_wl (fst (run s0 ops)))) ->
  exists rb, interp_text false (w_dev (st_wl s0)) (robot_of (st_lw s0))
               (map render (w_recs (st_wl (fst (run s0 ops))))) = Some rb /\
             sim (fst (run s0 ops)) rb.
Proof.
  intros Hgood Hrecs Hops Hok Htx Hall Hc.
  destruct (run_records_valid s0 ops Hrecs Hops Htx) as [Hv Hi].
  apply run_text_exact; assumption.
Qed.

Theorem run_file_bound s0 ops :
  good_state s0 -> w_recs (st_wl s0) = [] ->
  forallb wl_op ops = true -> Forall (op_ok s0) ops -> Forall op_text_ok ops ->
  Forall (fun e => e = None) (snd (run s0 ops)) ->
  exists rb, interp_text false (w_dev (st_wl s0)) (robot_of (st_lw s0))
               (map render (w_recs (st_wl (fst (run s0 ops))))) = Some rb /\
    forall k L r j, nth_error (st_lw (fst (run s0 ops))) k = Some L -> nth_error (rb_racks rb) k = Some r ->
      rk_name r = lw_name L /\ rk_geom r = lw_geom L /\
      Qabs (nth j (rk_vols r) 0 - vol_at L j) <=
      inject_Z (Z.of_nat (hits (w_dev (st_wl s0)) (map lw_name (st_lw s0)) (map lw_geom (st_lw s0))
                               (w_recs (st_wl (fst (run s0 ops)))) k j)) / 200.
Proof.
  intros Hgood Hrecs Hops Hok Htx Hall.
  destruct (run_records_valid s0 ops Hrecs Hops Htx) as [Hv Hi].
  apply run_text_bound; assumption.
Qed.

(* ------------------------------------------------------------------------------------------ *)
(** * C09 for [distribute]: the records it appends (comments, then one R record through
      [reagent_distribution]) are read by the independent parser; no hypothesis on the arguments *)

Lemma appends_parsable_trans w1 w2 w3 :
  rc_appends_parsable w1 w2 -> rc_appends_parsable w2 w3 -> rc_appends_parsable w1 w3.
Proof.
  intros (n1 & E1 & B1) (n2 & E2 & B2). exists (n1 ++ n2)%list. split.
  - rewrite E2, E1, app_assoc. reflexivity.
  - apply Forall_app. split; [exact B1|exact B2].
Qed.

Lemma distribute_parsable s ks kd dwells a s' e :
  distribute s ks kd dwells a = (s', e) -> rc_appends_parsable (st_wl s) (st_wl s').
Proof.
  unfold distribute. cbv zeta. intro H.
  repeat match type of H with
         | context [match ?x with _ => _ end] => destruct x eqn:?
         | context [if ?b then _ else _] => destruct b eqn:?
         end;
    injection H as <- <-; cbn [st_wl set_wl set_lw]; rewrite ?st_wl_condense; cbn [st_wl set_wl set_lw];
    try apply rc_appends_none.
  all: match goal with Ec : comment _ _ = (_, _) |- _ =>
         rewrite ?st_wl_condense in Ec; cbn [st_wl set_wl set_lw] in Ec;
         pose proof (rc_grammar_comment _ _ _ _ Ec) as Hc end.
  all: try exact Hc.
  all: match goal with Er : reagent_distribution _ _ = (_, _) |- _ =>
         eapply appends_parsable_trans; [exact Hc|]; eapply rc_grammar_reagent; exact Er end.
Qed.

(** an accepted [distribute]: comment records, then the R record, which parses back to the arguments *)
Lemma distribute_end_to_end s ks kd dwells a s' : distribute s ks kd dwells a = (s', None) ->
  exists Ls Ld cs f p,
    nth_error (st_lw s) ks = Some Ls /\ nth_error (st_lw s) kd = Some Ld /\
    w_recs (st_wl s') = (w_recs (st_wl s) ++ cs ++ [RR f])%list /\ Forall rc_parsable cs /\
    parse_record (render (RR f)) = Some (PR p) /\
    pr_src_label p = lw_name Ls /\ pr_dst_label p = lw_name Ld /\
    d_src_id a = PStr (pr_src_id p) /\ d_src_type a = PStr (pr_src_type p) /\
    d_dst_id a = PStr (pr_dst_id p) /\ d_dst_type a = PStr (pr_dst_type p) /\
    pr_volume p = render_pynum (r_volume f) /\
    match d_volume a with
    | RVInt z => r_volume f = PyI z
    | RVFloat x => exists q, x = XQ q /\ r_volume f = PyF q
    | RVBad => False
    end /\
    d_liquid_class a = PStr (pr_liquid_class p) /\
    Z.of_N (pr_diti_reuse p) = d_diti_reuse a /\
    Z.of_N (pr_multi_disp p) = r_multi_disp f /\ (r_multi_disp f <= d_multi_disp a)%Z /\
    d_direction a = (if pr_direction p then "right_to_left" else "left_to_right")%string.
Proof.
  unfold distribute. cbv zeta. intro H.
  repeat match type of H with
         | context [match ?x with _ => _ end] => destruct x eqn:?
         | context [if ?b then _ else _] => destruct b eqn:?
         end;
    try discriminate H.
  all: injection H as <-; subst.
  all: cbn [st_wl set_wl set_lw]; rewrite ?st_wl_condense; cbn [st_wl set_wl set_lw].
  all: match goal with Ec : comment _ _ = (_, _) |- _ =>
         rewrite ?st_wl_condense in Ec; cbn [st_wl set_wl set_lw] in Ec;
         destruct (rc_grammar_comment _ _ _ _ Ec) as (cs & Hcs & Hcp) end.
  all: match goal with Er : reagent_distribution _ _ = (_, None) |- _ =>
         destruct (rc_reagent_end_to_end _ _ _ Er) as (f & p & Hrec & Hp & E1 & E2 & E3 & _ & _ & E6 & E7 & E8 &
           _ & _ & E11 & E12 & E13 & E14 & E15 & _);
         destruct (rc_reagent_ok _ _ _ Er) as (f' & _ & Hrec' & Hok) end.
  all: assert (Ef : f' = f)
         by (rewrite Hrec in Hrec'; apply app_inv_head in Hrec'; injection Hrec' as Ef; symmetry; exact Ef).
  all: subst f';
       destruct Hok as (_ & _ & _ & _ & _ & _ & _ & _ & _ & _ & _ & Hvol & _ & _ & _ & M1 & M2 & _);
       cbn [rd_src_label rd_dst_label rd_src_id rd_src_type rd_dst_id rd_dst_type rd_volume rd_liquid_class
            rd_diti_reuse rd_multi_disp rd_direction] in *.
  all: injection E1 as E1; injection E6 as E6.
  all: do 2 eexists; exists cs, f, p.
  all: split; [reflexivity|]; split; [reflexivity|].
  all: split; [rewrite Hrec, Hcs, <- app_assoc; reflexivity|].
  all: split; [exact Hcp|]; split; [exact Hp|].
  all: split; [symmetry; exact E1|]; split; [symmetry; exact E6|].
  all: repeat (split; [assumption|]).
  all: split; [|assumption].
  all: match type of M1 with (?lhs <= ?rhs -> _) => destruct (Qlt_le_dec rhs lhs) as [L|L] end.
  all: try (destruct (M2 L) as (_ & _ & _ & _ & N); lia).
  all: rewrite (M1 L); lia.
Qed.
