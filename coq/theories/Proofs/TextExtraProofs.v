(** Lemmas for the review items M2, M3 (C09), M4 (C13), M15 (C10):
    - the value of the decimals written by [repr_dec] / [pyrepr_float] (dyadic floats print exactly);
    - the textual parser [parse_cmd] / [parse_wash] of Spec/CmdParse.v reads the emitted EVOware commands back;
    - the S record is inside the grammar exactly for a non-negative index;
    - tip masks of transfer pairs and script commands. *)
From Robo Require Import Prelude Str Wells Utils Labware Tips Records Partition Params Worklist EvoCmd
  Invariants Gwl SelDecode CmdDecode CmdParse SaveProofs WellsProofs RecordsProofs TipsProofs SelProofs
  LabwareProofs PlanProofs EvoCmdProofs.
From Coq Require Import Lqa DecimalString DecimalFacts DecimalPos DecimalN.
#[local] Open Scope string_scope.

(* ------------------------------------------------------------------------------------------ *)
(** * Digit strings and their value *)

Definition tx_dN (a : ascii) : N := N.of_nat (nat_of_ascii a - 48).

(** big-endian value of a digit string, with accumulator *)
Fixpoint tx_ival (s : string) (acc : N) : N :=
  match s with
  | EmptyString => acc
  | String a r => tx_ival r (tx_dN a + 10 * acc)%N
  end.

Lemma tx_ival_uint_acc d : forall acc,
  Npos (Pos.of_uint_acc d acc) = tx_ival (NilEmpty.string_of_uint d) (Npos acc).
Proof.
  induction d as [|d IH|d IH|d IH|d IH|d IH|d IH|d IH|d IH|d IH|d IH]; intro acc;
    cbn [NilEmpty.string_of_uint tx_ival Pos.of_uint_acc]; [reflexivity|rewrite IH; reflexivity ..].
Qed.

Lemma tx_ival_uint d : N.of_uint d = tx_ival (NilEmpty.string_of_uint d) 0%N.
Proof.
  unfold N.of_uint.
  induction d as [|d IH|d IH|d IH|d IH|d IH|d IH|d IH|d IH|d IH|d IH];
    cbn [NilEmpty.string_of_uint tx_ival Pos.of_uint]; [reflexivity|exact IH|apply tx_ival_uint_acc ..].
Qed.

Lemma tx_ival_decN m : tx_ival (decN m) 0%N = m.
Proof. unfold decN. rewrite <- tx_ival_uint. apply DecimalN.Unsigned.of_to. Qed.

Lemma tx_ival_shift s : forall acc,
  tx_ival s acc = (acc * 10 ^ N.of_nat (String.length s) + tx_ival s 0)%N.
Proof.
  induction s as [|a r IH]; intro acc; cbn [tx_ival String.length].
  - rewrite N.pow_0_r. lia.
  - rewrite (IH (tx_dN a + 10 * acc)%N), (IH (tx_dN a + 10 * 0)%N).
    rewrite Nat2N.inj_succ, N.pow_succ_r'. lia.
Qed.

(** the printed natural has no leading zero *)
Lemma tx_decN_shape m : decN m = "0" \/ exists c r, decN m = String c r /\ (1 <= tx_dN c)%N.
Proof.
  unfold decN.
  assert (U : Decimal.unorm (N.to_uint m) = N.to_uint m).
  { rewrite <- (DecimalN.Unsigned.to_of (N.to_uint m)). rewrite DecimalN.Unsigned.of_to. reflexivity. }
  destruct (N.to_uint m) as [|d|d|d|d|d|d|d|d|d|d] eqn:E.
  - discriminate U.
  - left. rewrite DecimalFacts.unorm_D0 in U.
    destruct d as [|d'|d'|d'|d'|d'|d'|d'|d'|d'|d'] eqn:Ed; [reflexivity| | | | | | | | | |];
      (exfalso; rewrite <- Ed in U;
       assert (Hn : d <> Decimal.Nil) by (rewrite Ed; discriminate);
       pose proof (DecimalFacts.nb_digits_unorm d Hn) as Hl; rewrite U in Hl; cbn [Decimal.nb_digits] in Hl; lia).
  - right. eexists. eexists. split; [reflexivity|]. vm_compute. discriminate.
  - right. eexists. eexists. split; [reflexivity|]. vm_compute. discriminate.
  - right. eexists. eexists. split; [reflexivity|]. vm_compute. discriminate.
  - right. eexists. eexists. split; [reflexivity|]. vm_compute. discriminate.
  - right. eexists. eexists. split; [reflexivity|]. vm_compute. discriminate.
  - right. eexists. eexists. split; [reflexivity|]. vm_compute. discriminate.
  - right. eexists. eexists. split; [reflexivity|]. vm_compute. discriminate.
  - right. eexists. eexists. split; [reflexivity|]. vm_compute. discriminate.
  - right. eexists. eexists. split; [reflexivity|]. vm_compute. discriminate.
Qed.

(** a natural below 10^k prints with at most k digits *)
Lemma tx_decN_length m k : (m < 10 ^ N.of_nat k)%N -> (1 <= k)%nat -> (String.length (decN m) <= k)%nat.
Proof.
  intros Hm Hk. destruct (tx_decN_shape m) as [E|(c & r & E & Hc)].
  - rewrite E. cbn [String.length]. exact Hk.
  - pose proof (tx_ival_decN m) as V. rewrite E in V. cbn [tx_ival] in V.
    rewrite tx_ival_shift in V. rewrite E. cbn [String.length].
    assert (Hp : (10 ^ N.of_nat (String.length r) < 10 ^ N.of_nat k)%N) by nia.
    apply N.pow_lt_mono_r_iff in Hp; lia.
Qed.

(* ------------------------------------------------------------------------------------------ *)
(** * The value of fractional digits *)

Local Open Scope Q_scope.

Definition tx_p10 (n : nat) : Q := inject_Z (10 ^ Z.of_nat n).

Lemma tx_p10_0 : tx_p10 0 == 1.
Proof. reflexivity. Qed.

Lemma tx_p10_S n : tx_p10 (S n) == 10 * tx_p10 n.
Proof.
  unfold tx_p10. rewrite Nat2Z.inj_succ, Z.pow_succ_r by lia. rewrite inject_Z_mult. reflexivity.
Qed.

Lemma tx_p10_pos n : 0 < tx_p10 n.
Proof.
  unfold tx_p10. change 0 with (inject_Z 0). rewrite <- Zlt_Qlt. apply Z.pow_pos_nonneg; lia.
Qed.

Lemma tx_p10_add a b : tx_p10 (a + b) == tx_p10 a * tx_p10 b.
Proof.
  unfold tx_p10. rewrite Nat2Z.inj_add, Z.pow_add_r by lia. rewrite inject_Z_mult. reflexivity.
Qed.

Lemma tx_digit_val a : inject_Z (digit_val a) = inject_Z (Z.of_N (tx_dN a)).
Proof. unfold digit_val, tx_dN. rewrite nat_N_Z. reflexivity. Qed.

Lemma tx_inj_N_pow n : inject_Z (Z.of_N (10 ^ N.of_nat n)) = tx_p10 n.
Proof. unfold tx_p10. rewrite N2Z.inj_pow, nat_N_Z. reflexivity. Qed.

(** .d1d2...dL times 10^L is the integer d1d2...dL *)
Lemma tx_frac_val_ival s : frac_val s * tx_p10 (String.length s) == inject_Z (Z.of_N (tx_ival s 0)).
Proof.
  induction s as [|a r IH]; cbn [frac_val String.length tx_ival].
  - rewrite tx_p10_0. reflexivity.
  - rewrite tx_ival_shift. rewrite N2Z.inj_add, N2Z.inj_mul, inject_Z_plus, inject_Z_mult.
    rewrite tx_inj_N_pow, <- IH, tx_p10_S, tx_digit_val.
    replace (tx_dN a + 10 * 0)%N with (tx_dN a) by lia. field.
Qed.

Lemma tx_frac_val_zero_cons x : frac_val (String "0" x) == frac_val x / 10.
Proof. cbn [frac_val]. change (inject_Z (digit_val "0")) with 0. field. Qed.

Lemma tx_frac_val_pad k s : (String.length s <= k)%nat ->
  frac_val (pad_zeros k s) * tx_p10 k == inject_Z (Z.of_N (tx_ival s 0)).
Proof.
  intro Hl. unfold pad_zeros. rewrite <- tx_frac_val_ival.
  replace k with ((k - String.length s) + String.length s)%nat at 2 by lia.
  rewrite tx_p10_add. generalize (k - String.length s)%nat as n.
  induction n as [|n IH].
  - rewrite tx_p10_0. ring.
  - rewrite tx_frac_val_zero_cons, tx_p10_S. rewrite <- IH. field.
Qed.

(** the k fraction digits of n / 10^k *)
Lemma tx_frac_digits_val n k : (1 <= k)%nat ->
  frac_val (frac_digits n k) * tx_p10 k == inject_Z (Z.of_N (n mod 10 ^ N.of_nat k)).
Proof.
  intro Hk. unfold frac_digits.
  assert (Hm : (n mod 10 ^ N.of_nat k < 10 ^ N.of_nat k)%N).
  { apply N.mod_lt. apply N.pow_nonzero. discriminate. }
  rewrite tx_frac_val_pad by (apply tx_decN_length; assumption).
  rewrite tx_ival_decN. reflexivity.
Qed.

(* ------------------------------------------------------------------ trailing zeros *)

Local Close Scope Q_scope.

Lemma tx_rev_aux_app s : forall acc, rev_string_aux s acc = rev_string_aux s "" ++ acc.
Proof.
  induction s as [|a r IH]; intro acc; cbn [rev_string_aux]; [reflexivity|].
  rewrite (IH (String a acc)), (IH (String a "")). rewrite sv_append_assoc. reflexivity.
Qed.

Lemma tx_rev_cons a r : rev_string (String a r) = rev_string r ++ String a "".
Proof. unfold rev_string. cbn [rev_string_aux]. apply tx_rev_aux_app. Qed.

Lemma tx_rev_app s t : rev_string (s ++ t) = rev_string t ++ rev_string s.
Proof.
  induction s as [|a s IH]; cbn [append].
  - change (rev_string "") with "". rewrite sv_append_nil_r. reflexivity.
  - rewrite !tx_rev_cons, IH. apply sv_append_assoc.
Qed.

Lemma tx_rev_involutive s : rev_string (rev_string s) = s.
Proof.
  induction s as [|a s IH]; [reflexivity|].
  rewrite tx_rev_cons, tx_rev_app, IH. reflexivity.
Qed.

Local Open Scope Q_scope.

Lemma tx_frac_val_snoc0 u : frac_val (u ++ "0") == frac_val u.
Proof.
  induction u as [|a u IH]; cbn [append frac_val].
  - change (inject_Z (digit_val "0")) with 0. field.
  - rewrite IH. reflexivity.
Qed.

Lemma tx_frac_val_rstrip0_rev t : frac_val (rev_string (rstrip0_rev t)) == frac_val (rev_string t).
Proof.
  induction t as [|a r IH]; [reflexivity|]. cbn [rstrip0_rev].
  destruct (Ascii.eqb a "0") eqn:E; [|reflexivity].
  destruct r as [|b r']; [reflexivity|].
  apply Ascii.eqb_eq in E. subst a. rewrite IH.
  rewrite (tx_rev_cons "0" (String b r')). rewrite tx_frac_val_snoc0. reflexivity.
Qed.

Lemma tx_frac_val_rstrip0 s : frac_val (rstrip0 s) == frac_val s.
Proof. unfold rstrip0. rewrite tx_frac_val_rstrip0_rev, tx_rev_involutive. reflexivity. Qed.

(* ------------------------------------------------------------------ repr_dec, pyrepr_float *)

(** the decimal written by [repr_dec n k], read back with the independent [parse_decimal] and valued
    with [dec_val], is n / 10^k *)
Lemma tx_dec_val_repr n k :
  dec_val (n / 10 ^ N.of_nat k)%N (rc_repr_frac n k) == inject_Z (Z.of_N n) / tx_p10 k.
Proof.
  unfold dec_val, rc_repr_frac. destruct k as [|k'].
  - change (10 ^ N.of_nat 0)%N with 1%N. rewrite N.div_1_r.
    cbn [frac_val]. change (inject_Z (digit_val "0")) with 0. rewrite tx_p10_0. field.
  - set (k := S k'). rewrite tx_frac_val_rstrip0.
    assert (Hk : (1 <= k)%nat) by (unfold k; lia).
    pose proof (tx_frac_digits_val n k Hk) as F.
    pose proof (tx_p10_pos k) as P.
    assert (D : inject_Z (Z.of_N n) ==
                inject_Z (Z.of_N (n / 10 ^ N.of_nat k)) * tx_p10 k + inject_Z (Z.of_N (n mod 10 ^ N.of_nat k))).
    { rewrite <- tx_inj_N_pow, <- inject_Z_mult, <- inject_Z_plus, <- N2Z.inj_mul, <- N2Z.inj_add.
      rewrite N.mul_comm, <- N.div_mod; [reflexivity|]. apply N.pow_nonzero. discriminate. }
    rewrite D, <- F. field. intro C. rewrite C in P. apply (Qlt_irrefl 0). exact P.
Qed.

Lemma tx_repr_dec_value n k : exists i fp,
  parse_decimal (repr_dec n k) = Some (i, fp) /\
  dec_val i fp == inject_Z (Z.of_N n) / inject_Z (10 ^ Z.of_nat k).
Proof.
  exists (n / 10 ^ N.of_nat k)%N, (rc_repr_frac n k).
  split; [apply rc_parse_decimal_repr|exact (tx_dec_val_repr n k)].
Qed.

Lemma tx_inject_pos_nz z : (0 < z)%Z -> ~ inject_Z z == 0.
Proof. intros Hz C. unfold Qeq in C. cbn in C. lia. Qed.

(** [repr(float)] of a non-negative dyadic rational is read back exactly *)
Lemma tx_pyrepr_float_value q k : 0 <= q -> Npos (Qden (Qred q)) = (2 ^ N.of_nat k)%N ->
  exists i fp, parse_decimal (pyrepr_float q) = Some (i, fp) /\ all_digits fp = true /\ fp <> ""%string /\
               dec_val i fp == q.
Proof.
  intros Hq Hd. unfold pyrepr_float. cbv zeta. rewrite Hd, N.log2_pow2 by lia. rewrite Nat2N.id.
  set (n := (Z.to_N (Qnum (Qred q)) * 5 ^ N.of_nat k)%N).
  exists (n / 10 ^ N.of_nat k)%N, (rc_repr_frac n k).
  split; [apply rc_parse_decimal_repr|]. split; [apply rc_repr_frac_digits|]. split; [apply rc_repr_frac_digits|].
  rewrite tx_dec_val_repr. rewrite <- (Qred_correct q) at 1.
  assert (Hnum : (0 <= Qnum (Qred q))%Z).
  { rewrite <- (Qred_correct q) in Hq. unfold Qle in Hq. cbn in Hq. lia. }
  destruct (Qred q) as [num den] eqn:E. cbn [Qnum Qden] in *.
  assert (Hden : Zpos den = (2 ^ Z.of_nat k)%Z).
  { change (Zpos den) with (Z.of_N (Npos den)). rewrite Hd, N2Z.inj_pow, nat_N_Z. reflexivity. }
  unfold n. rewrite N2Z.inj_mul, N2Z.inj_pow, Z2N.id, nat_N_Z by exact Hnum.
  unfold tx_p10. change 10%Z with (2 * 5)%Z. rewrite Z.pow_mul_l.
  rewrite (Qmake_Qdiv num den), Hden, !inject_Z_mult.
  change (Z.of_N 5) with 5%Z.
  field. split; apply tx_inject_pos_nz; apply Z.pow_pos_nonneg; lia.
Qed.

Local Close Scope Q_scope.

(* ------------------------------------------------------------------------------------------ *)
(** * M2: the S record and the grammar

    (The library used to accept negative DiTi index / diti_reuse / multi_disp values and wrote "S;-1",
    "R;...;-1;-3;0"; fixed in /repo by commit 26768d9, finding F21: see [rc_reject_negative_counts],
    [rc_grammar] in Proofs/RecordsProofs.v.) *)

Lemma tx_parse_decN_minus s : parse_decN (String "-" s) = None.
Proof.
  unfold parse_decN. cbn [NilEmpty.uint_of_string].
  destruct (NilEmpty.uint_of_string s); reflexivity.
Qed.

(** the S record is inside the grammar exactly when the index is not negative *)
Lemma tx_RS_grammar i : parse_record (render (RS i)) <> None <-> (0 <= i)%Z.
Proof.
  split.
  - intro H. destruct (Z_lt_le_dec i 0) as [Hneg|Hpos]; [|exact Hpos]. exfalso. apply H.
    destruct i as [|p|p]; try lia. cbn [render decZ].
    change ("S;" ++ String "-" (decN (N.pos p))) with (join ";" ["S"; String "-" (decN (N.pos p))]).
    unfold parse_record. rewrite rc_split_join.
    + cbn [String.eqb Ascii.eqb Bool.eqb andb]. rewrite tx_parse_decN_minus. reflexivity.
    + reflexivity.
    + constructor; [|constructor]. cbn [contains_char]. rewrite rc_decN_no by reflexivity. reflexivity.
  - intros H C. rewrite (rc_roundtrip_S i H) in C. discriminate.
Qed.

(* ------------------------------------------------------------------------------------------ *)
(** * M3: the value of the volume field of an R record *)

Lemma tx_roundtrip_R_float f q k : rc_r_nosep f -> rc_r_nonneg f ->
  r_volume f = PyF q -> (0 <= q)%Q -> Npos (Qden (Qred q)) = (2 ^ N.of_nat k)%N ->
  exists p i fp, parse_record (render (RR f)) = Some (PR p) /\
                 parse_decimal (pr_volume p) = Some (i, fp) /\ (dec_val i fp == q)%Q.
Proof.
  intros Hs Hn Hv Hq Hd. exists (rc_prd_of f).
  destruct (tx_pyrepr_float_value q k Hq Hd) as (i & fp & P & _ & _ & V).
  exists i, fp. split; [apply rc_roundtrip_R_rec; assumption|].
  unfold rc_prd_of. cbn [pr_volume]. rewrite Hv. cbn [render_pynum]. split; assumption.
Qed.

Lemma tx_roundtrip_R_int f z : rc_r_nosep f -> rc_r_nonneg f -> r_volume f = PyI z -> (0 <= z)%Z ->
  exists p i, parse_record (render (RR f)) = Some (PR p) /\
              parse_decimal (pr_volume p) = Some (i, "") /\ (dec_val i "" == inject_Z z)%Q.
Proof.
  intros Hs Hn Hv Hz. exists (rc_prd_of f), (Z.to_N z).
  split; [apply rc_roundtrip_R_rec; assumption|].
  unfold rc_prd_of. cbn [pr_volume]. rewrite Hv. split; [apply rc_parse_decimal_int; exact Hz|].
  unfold dec_val. cbn [frac_val]. rewrite Z2N.id by exact Hz. ring.
Qed.

(** method call -> R record -> text -> parser -> value of the volume field = the float given *)
Lemma tx_reagent_float_end_to_end w a w' q k : reagent_distribution w a = (w', None) ->
  rd_volume a = RVFloat (XQ q) -> Npos (Qden (Qred q)) = (2 ^ N.of_nat k)%N ->
  exists f p i fp,
    w_recs w' = (w_recs w ++ [RR f])%list /\ parse_record (render (RR f)) = Some (PR p) /\
    parse_decimal (pr_volume p) = Some (i, fp) /\ (dec_val i fp == q)%Q.
Proof.
  intros H Hv Hd.
  destruct (rc_reagent_roundtrip w a w' H) as [f [Hrec [Hs [Hn Hp]]]].
  destruct (rc_reagent_ok w a w' H) as [f' Hf].
  destruct Hf as [_ [Hrec' Hf]].
  assert (Ef : f' = f).
  { rewrite Hrec in Hrec'. apply app_inv_head in Hrec'. injection Hrec' as E. symmetry. exact E. }
  subst f'.
  destruct Hf as (_ & _ & _ & _ & _ & _ & _ & _ & _ & _ & _ & EV & _ & _ & _ & _ & _ & _ & _ & _ & _ & _ & _ & V0 & _).
  rewrite Hv in EV. destruct EV as [q' [Eq EV]]. injection Eq as <-.
  assert (Hq : (0 <= q)%Q) by (rewrite EV in V0; exact V0).
  destruct (tx_roundtrip_R_float f q k Hs Hn EV Hq Hd) as (p & i & fp & P1 & P2 & P3).
  exists f, p, i, fp. repeat split; assumption.
Qed.

(* ------------------------------------------------------------------------------------------ *)
(** * M4: the textual command parser reads the emitted commands back *)

Lemma tx_strip_prefix_app p s : strip_prefix p (p ++ s) = Some s.
Proof.
  induction p as [|a p IH]; cbn [append strip_prefix]; [reflexivity|]. rewrite Ascii.eqb_refl. exact IH.
Qed.

Lemma tx_cut_first c x y : contains_char c x = false -> cut_first c (x ++ String c y) = Some (x, y).
Proof.
  induction x as [|a x IH]; intro H; cbn [append cut_first].
  - rewrite Ascii.eqb_refl. reflexivity.
  - cbn [contains_char] in H. apply orb_false_elim in H. destruct H as [Ha Hx].
    rewrite Ha, (IH Hx). reflexivity.
Qed.

(** a text in double quotes *)
Definition tx_quote (s : string) : string := String dq (s ++ String dq "").

Lemma tx_quote_app s t : tx_quote s ++ t = String dq (s ++ String dq t).
Proof. unfold tx_quote. cbn [append]. rewrite sv_append_assoc. reflexivity. Qed.

Lemma tx_unquote s : contains_char dq s = false -> unquote (tx_quote s) = Some s.
Proof.
  intro H. unfold unquote.
  change (tx_quote s) with (join (String dq "") [""; s; ""]).
  rewrite rc_split_join; [reflexivity|reflexivity|].
  constructor; [exact H|]. constructor; [reflexivity|constructor].
Qed.

Lemma tx_contains_quote c s : c <> dq -> contains_char c (tx_quote s) = contains_char c s.
Proof.
  intro Hc. unfold tx_quote. cbn [contains_char]. rewrite rc_contains_app. cbn [contains_char].
  destruct (Ascii.eqb dq c) eqn:E; [apply Ascii.eqb_eq in E; congruence|].
  cbn [orb]. rewrite !orb_false_r. reflexivity.
Qed.

Lemma tx_parse_nat_field z : (0 <= z)%Z -> parse_nat_field (decZ z) = Some z.
Proof. intro H. unfold parse_nat_field. rewrite rc_parse_decZ by exact H. rewrite Z2N.id by exact H. reflexivity. Qed.

Lemma tx_rstrip0_two a b :
  rstrip0 (String a (String b "")) = if Ascii.eqb b "0" then String a "" else String a (String b "").
Proof.
  unfold rstrip0, rev_string. cbn [rev_string_aux rstrip0_rev].
  destruct (Ascii.eqb b "0"); [|reflexivity].
  destruct (Ascii.eqb a "0"); reflexivity.
Qed.

(** "ddd.d" / "ddd.dd" as written by [repr_dec n 2] is read back as n hundredths *)
Lemma tx_parse_hundredths n : parse_hundredths (repr_dec n 2) = Some n.
Proof.
  rewrite rc_repr_dec_eq. unfold rc_repr_frac, frac_digits.
  change (10 ^ N.of_nat 2)%N with 100%N.
  assert (Hm : (n mod 100 < 100)%N) by (apply N.mod_lt; discriminate).
  destruct (rc_frac2 _ Hm) as [a [b [E P]]]. rewrite E, tx_rstrip0_two.
  assert (Hd : all_digits (String a (String b "")) = true).
  { rewrite <- E. rewrite rc_all_digits_pad_zeros. apply all_digits_decN. }
  assert (Hda : is_digit a = true /\ is_digit b = true).
  { cbn [all_digits] in Hd. apply andb_true_iff in Hd. destruct Hd as [H1 H2].
    apply andb_true_iff in H2. split; [exact H1|apply H2]. }
  destruct Hda as [Da Db].
  assert (Hdiv : (100 * (n / 100) + n mod 100 = n)%N) by (symmetry; apply N.div_mod; discriminate).
  unfold parse_hundredths.
  destruct (Ascii.eqb b "0") eqn:Eb.
  - apply Ascii.eqb_eq in Eb. subst b.
    change (decN (n / 100) ++ "." ++ String a "") with (join "." [decN (n / 100)%N; String a ""]).
    rewrite rc_split_join.
    + rewrite parse_decN_decN. cbv beta iota. rewrite P. rewrite Hdiv. reflexivity.
    + apply rc_decN_no. reflexivity.
    + constructor; [|constructor]. apply rc_digits_no; [reflexivity|]. cbn [all_digits]. rewrite Da. reflexivity.
  - change (decN (n / 100) ++ "." ++ String a (String b ""))
      with (join "." [decN (n / 100)%N; String a (String b "")]).
    rewrite rc_split_join.
    + rewrite parse_decN_decN. cbv beta iota. rewrite P. rewrite Hdiv. reflexivity.
    + apply rc_decN_no. reflexivity.
    + constructor; [|constructor]. apply rc_digits_no; [reflexivity|exact Hd].
Qed.

(** the text of one slot *)
Definition tx_slot_field (o : option Z) : string :=
  match o with Some h => tx_quote (repr_dec (Z.to_N h) 2) | None => "0" end.

Definition tx_slot_ok (o : option Z) : Prop := match o with Some h => (0 <= h)%Z | None => True end.

Lemma tx_parse_slot o : tx_slot_ok o -> parse_slot (tx_slot_field o) = Some o.
Proof.
  destruct o as [h|]; intro H; [|reflexivity]. cbn [tx_slot_ok] in H.
  unfold parse_slot, tx_slot_field.
  replace (String.eqb (tx_quote (repr_dec (Z.to_N h) 2)) "0") with false by reflexivity.
  rewrite tx_unquote by (apply rc_repr_dec_no; [reflexivity|discriminate]).
  rewrite tx_parse_hundredths. rewrite Z2N.id by exact H. reflexivity.
Qed.

Lemma tx_parse_slots sl : Forall tx_slot_ok sl -> parse_slots (map tx_slot_field sl) = Some sl.
Proof.
  induction 1 as [|o sl Ho Hsl IH]; [reflexivity|].
  cbn [map parse_slots]. rewrite (tx_parse_slot o Ho), IH. reflexivity.
Qed.

(** "ddd" (a whole number of microlitres, as written for an all-int volume list) is read as 100 * ddd
    hundredths: the same number as "ddd.0" *)
Lemma tx_parse_hundredths_int n : parse_hundredths (decN n) = Some (100 * n)%N.
Proof.
  unfold parse_hundredths. change (decN n) with (join "." [decN n]) at 1.
  rewrite rc_split_join; [|apply rc_decN_no; reflexivity|constructor].
  rewrite parse_decN_decN. reflexivity.
Qed.

(** the text of one slot in the whole-number spelling *)
Definition tx_slot_field_int (o : option Z) : string :=
  match o with Some h => tx_quote (decZ (h / 100)) | None => "0" end.

Lemma tx_parse_slot_int o : tx_slot_ok o -> slot_whole o -> parse_slot (tx_slot_field_int o) = Some o.
Proof.
  destruct o as [h|]; [|intros _ _; reflexivity]. intros H [z Hz]. cbn [tx_slot_ok] in H. subst h.
  assert (Hz0 : (0 <= z)%Z) by lia.
  unfold parse_slot, tx_slot_field_int.
  replace (100 * z / 100)%Z with z by (rewrite Z.mul_comm, Z.div_mul; [reflexivity|discriminate]).
  replace (String.eqb (tx_quote (decZ z)) "0") with false by reflexivity.
  rewrite tx_unquote by (apply rc_decZ_no; [reflexivity|exact Hz0]).
  rewrite rc_decZ_nonneg by exact Hz0. rewrite tx_parse_hundredths_int.
  rewrite N2Z.inj_mul, Z2N.id by exact Hz0. reflexivity.
Qed.

Lemma tx_parse_slots_int sl : Forall tx_slot_ok sl -> Forall slot_whole sl ->
  parse_slots (map tx_slot_field_int sl) = Some sl.
Proof.
  induction 1 as [|o sl Ho Hsl IH]; intro Hw; [reflexivity|].
  inversion Hw as [|o' sl' Hwo Hwsl]. subst o' sl'.
  cbn [map parse_slots]. rewrite (tx_parse_slot_int o Ho Hwo), (IH Hwsl). reflexivity.
Qed.

Lemma tx_slot_field_int_no c o : tx_slot_ok o -> is_digit c = false -> c <> dq ->
  contains_char c (tx_slot_field_int o) = false.
Proof.
  intros Ho Hc Hq. destruct o as [h|]; cbn [tx_slot_field_int].
  - cbn [tx_slot_ok] in Ho. rewrite tx_contains_quote by exact Hq. apply rc_decZ_no; [exact Hc|].
    apply Z.div_pos; lia.
  - apply rc_digits_no; [exact Hc|reflexivity].
Qed.

Lemma tx_slot_field_no c o : is_digit c = false -> c <> "."%char -> c <> dq ->
  contains_char c (tx_slot_field o) = false.
Proof.
  intros Hc Hp Hq. destruct o as [h|]; cbn [tx_slot_field].
  - rewrite tx_contains_quote by exact Hq. apply rc_repr_dec_no; assumption.
  - apply rc_digits_no; [exact Hc|reflexivity].
Qed.

Lemma tx_parse_last arm : (0 <= arm)%Z -> parse_last (decZ arm ++ ");") = Some arm.
Proof.
  intro H. unfold parse_last.
  change (decZ arm ++ ");") with (join ")" [decZ arm; ";"]).
  rewrite rc_split_join.
  - cbn [String.eqb Ascii.eqb Bool.eqb andb]. apply tx_parse_nat_field. exact H.
  - apply rc_decZ_no; [reflexivity|exact H].
  - constructor; [reflexivity|constructor].
Qed.

(* ------------------------------------------------------------------ the fields of a rendered command *)

Definition tx_tail_fields (c : cmd) : list string :=
  ["0"; "0"; "0"; "0"; decZ (cm_grid c); decZ (cm_site c); "1"; tx_quote (cm_sel c); "0";
   decZ (cm_arm c) ++ ");"].

Definition tx_cmd_fields (c : cmd) : list string :=
  decZ (cm_mask c) :: tx_quote (cm_lc c) :: (map tx_slot_field (cm_slots c) ++ tx_tail_fields c)%list.

Lemma tx_join_cons_ne x l : l <> [] -> join "," (x :: l) = x ++ "," ++ join "," l.
Proof. destruct l as [|y l]; [congruence|]. intros _. reflexivity. Qed.

Lemma tx_join_slots sl rest : rest <> [] ->
  join "," (map tx_slot_field sl ++ rest)%list = render_slots sl ++ join "," rest.
Proof.
  intro Hr. induction sl as [|o sl IH]; [reflexivity|].
  cbn [map app]. rewrite tx_join_cons_ne by (destruct (map tx_slot_field sl); [exact Hr|discriminate]).
  rewrite IH. destruct o as [h|]; cbn [tx_slot_field render_slots].
  - rewrite tx_quote_app. cbn [append]. rewrite !sv_append_assoc. reflexivity.
  - cbn [append]. reflexivity.
Qed.

Lemma tx_render_cmd_join c :
  render_cmd c = "B;" ++ (cm_kind c ++ String "(" (join "," (tx_cmd_fields c))).
Proof.
  unfold render_cmd, tx_cmd_fields.
  rewrite tx_join_cons_ne by discriminate. rewrite tx_join_cons_ne by (destruct (map tx_slot_field (cm_slots c)); discriminate).
  rewrite tx_join_slots by discriminate.
  unfold tx_tail_fields. cbn [join]. rewrite !tx_quote_app. cbn [append]. reflexivity.
Qed.

Definition tx_cmd_fields_int (c : cmd) : list string :=
  decZ (cm_mask c) :: tx_quote (cm_lc c) :: (map tx_slot_field_int (cm_slots c) ++ tx_tail_fields c)%list.

Lemma tx_join_slots_int sl rest : rest <> [] ->
  join "," (map tx_slot_field_int sl ++ rest)%list = render_slots_int sl ++ join "," rest.
Proof.
  intro Hr. induction sl as [|o sl IH]; [reflexivity|].
  cbn [map app]. rewrite tx_join_cons_ne by (destruct (map tx_slot_field_int sl); [exact Hr|discriminate]).
  rewrite IH. destruct o as [h|]; cbn [tx_slot_field_int render_slots_int].
  - rewrite tx_quote_app. cbn [append]. rewrite !sv_append_assoc. reflexivity.
  - cbn [append]. reflexivity.
Qed.

Lemma tx_render_cmd_int_join c :
  render_cmd_int c = "B;" ++ (cm_kind c ++ String "(" (join "," (tx_cmd_fields_int c))).
Proof.
  unfold render_cmd_int, tx_cmd_fields_int.
  rewrite tx_join_cons_ne by discriminate. rewrite tx_join_cons_ne by (destruct (map tx_slot_field_int (cm_slots c)); discriminate).
  rewrite tx_join_slots_int by discriminate.
  unfold tx_tail_fields. cbn [join]. rewrite !tx_quote_app. cbn [append]. reflexivity.
Qed.

(* ------------------------------------------------------------------ parse (render c) = c *)

Record tx_cmd_valid (c : cmd) : Prop := {
  txv_kind : cm_kind c = "Aspirate" \/ cm_kind c = "Dispense";
  txv_mask : (0 <= cm_mask c)%Z;
  txv_grid : (0 <= cm_grid c)%Z;
  txv_site : (0 <= cm_site c)%Z;
  txv_arm : (0 <= cm_arm c)%Z;
  txv_lc : contains_char "," (cm_lc c) = false /\ contains_char dq (cm_lc c) = false;
  txv_sel : contains_char "," (cm_sel c) = false /\ contains_char dq (cm_sel c) = false;
  txv_len : length (cm_slots c) = 8%nat;
  txv_slots : Forall tx_slot_ok (cm_slots c)
}.

Lemma tx_firstn_skipn_app {A} (l1 l2 : list A) n : length l1 = n ->
  firstn n (l1 ++ l2) = l1 /\ skipn n (l1 ++ l2) = l2.
Proof.
  intros <-. split.
  - rewrite firstn_app, Nat.sub_diag, firstn_all. cbn [firstn]. apply List.app_nil_r.
  - rewrite skipn_app, Nat.sub_diag, skipn_all. reflexivity.
Qed.

Lemma tx_cmd_fields_nocomma c : tx_cmd_valid c ->
  Forall (fun y => contains_char "," y = false) (tx_cmd_fields c).
Proof.
  intros [Hk Hm Hg Hs Ha [Hl1 Hl2] [Hs1 Hs2] Hlen Hsl]. unfold tx_cmd_fields.
  constructor; [apply rc_decZ_no; [reflexivity|exact Hm]|].
  constructor; [rewrite tx_contains_quote by discriminate; exact Hl1|].
  apply Forall_app. split.
  - apply Forall_forall. intros y Hy. apply in_map_iff in Hy. destruct Hy as [o [<- _]].
    apply tx_slot_field_no; [reflexivity|discriminate|discriminate].
  - unfold tx_tail_fields. repeat (constructor; [first [reflexivity|idtac]|]); try constructor.
    + apply rc_decZ_no; [reflexivity|exact Hg].
    + apply rc_decZ_no; [reflexivity|exact Hs].
    + rewrite tx_contains_quote by discriminate. exact Hs1.
    + rewrite rc_contains_app. rewrite rc_decZ_no by (try reflexivity; exact Ha). reflexivity.
Qed.

Lemma tx_parse_cmd_tail c : tx_cmd_valid c ->
  parse_cmd_tail (cm_kind c) (cm_mask c) (cm_lc c) (cm_slots c) (tx_tail_fields c) = Some c.
Proof.
  intros [Hk Hm Hg Hs Ha [Hl1 Hl2] [Hs1 Hs2] Hlen Hsl]. unfold parse_cmd_tail, tx_tail_fields.
  cbn [String.eqb Ascii.eqb Bool.eqb andb].
  rewrite (tx_parse_nat_field _ Hg), (tx_parse_nat_field _ Hs), (tx_unquote _ Hs2), (tx_parse_last _ Ha).
  destruct c; reflexivity.
Qed.

(** the parser inverts the printer on well-formed commands *)
Lemma tx_parse_render_cmd c : tx_cmd_valid c -> parse_cmd (render_cmd c) = Some c.
Proof.
  intro V. pose proof V as [Hk Hm Hg Hs Ha [Hl1 Hl2] [Hs1 Hs2] Hlen Hsl].
  rewrite tx_render_cmd_join. unfold parse_cmd. rewrite tx_strip_prefix_app.
  rewrite tx_cut_first by (destruct Hk as [-> | ->]; reflexivity).
  replace (String.eqb (cm_kind c) "Aspirate" || String.eqb (cm_kind c) "Dispense") with true
    by (destruct Hk as [-> | ->]; reflexivity).
  pose proof (tx_cmd_fields_nocomma c V) as HF. unfold tx_cmd_fields in *.
  inversion HF as [|x0 l0 Hx0 HF']. subst x0 l0.
  rewrite rc_split_join by assumption.
  rewrite (tx_parse_nat_field _ Hm), (tx_unquote _ Hl2).
  assert (Hl8 : length (map tx_slot_field (cm_slots c)) = 8%nat) by (rewrite map_length; exact Hlen).
  destruct (tx_firstn_skipn_app (map tx_slot_field (cm_slots c)) (tx_tail_fields c) 8 Hl8) as [F S].
  rewrite F, S, (tx_parse_slots _ Hsl). apply tx_parse_cmd_tail. exact V.
Qed.

Lemma tx_cmd_fields_int_nocomma c : tx_cmd_valid c ->
  Forall (fun y => contains_char "," y = false) (tx_cmd_fields_int c).
Proof.
  intros [Hk Hm Hg Hs Ha [Hl1 Hl2] [Hs1 Hs2] Hlen Hsl]. unfold tx_cmd_fields_int.
  constructor; [apply rc_decZ_no; [reflexivity|exact Hm]|].
  constructor; [rewrite tx_contains_quote by discriminate; exact Hl1|].
  apply Forall_app. split.
  - apply Forall_forall. intros y Hy. apply in_map_iff in Hy. destruct Hy as [o [<- Ho]].
    rewrite Forall_forall in Hsl. apply tx_slot_field_int_no; [exact (Hsl o Ho)|reflexivity|discriminate].
  - unfold tx_tail_fields. repeat (constructor; [first [reflexivity|idtac]|]); try constructor.
    + apply rc_decZ_no; [reflexivity|exact Hg].
    + apply rc_decZ_no; [reflexivity|exact Hs].
    + rewrite tx_contains_quote by discriminate. exact Hs1.
    + rewrite rc_contains_app. rewrite rc_decZ_no by (try reflexivity; exact Ha). reflexivity.
Qed.

(** ... and the whole-number spelling of a command whose volumes are whole numbers of microlitres: both
    spellings of such a command parse to the same structured command *)
Lemma tx_parse_render_cmd_int c : tx_cmd_valid c -> Forall slot_whole (cm_slots c) ->
  parse_cmd (render_cmd_int c) = Some c.
Proof.
  intros V W. pose proof V as [Hk Hm Hg Hs Ha [Hl1 Hl2] [Hs1 Hs2] Hlen Hsl].
  rewrite tx_render_cmd_int_join. unfold parse_cmd. rewrite tx_strip_prefix_app.
  rewrite tx_cut_first by (destruct Hk as [-> | ->]; reflexivity).
  replace (String.eqb (cm_kind c) "Aspirate" || String.eqb (cm_kind c) "Dispense") with true
    by (destruct Hk as [-> | ->]; reflexivity).
  pose proof (tx_cmd_fields_int_nocomma c V) as HF. unfold tx_cmd_fields_int in *.
  inversion HF as [|x0 l0 Hx0 HF']. subst x0 l0.
  rewrite rc_split_join by assumption.
  rewrite (tx_parse_nat_field _ Hm), (tx_unquote _ Hl2).
  assert (Hl8 : length (map tx_slot_field_int (cm_slots c)) = 8%nat) by (rewrite map_length; exact Hlen).
  destruct (tx_firstn_skipn_app (map tx_slot_field_int (cm_slots c)) (tx_tail_fields c) 8 Hl8) as [F S].
  rewrite F, S, (tx_parse_slots_int _ Hsl W). apply tx_parse_cmd_tail. exact V.
Qed.

(** hence the text determines the command *)
Lemma tx_render_cmd_injective c c' : tx_cmd_valid c -> tx_cmd_valid c' -> render_cmd c = render_cmd c' -> c = c'.
Proof.
  intros V V' E. pose proof (tx_parse_render_cmd c V) as P. rewrite E, (tx_parse_render_cmd c' V') in P.
  injection P as ->. reflexivity.
Qed.

(* ------------------------------------------------------------------ the emitted command is well-formed *)

(** characters below "0" (in particular the comma, the double quote and the parentheses) do not occur in a
    selection string *)
Lemma tx_eqb_ascii_of_N n c : (48 <= n < 256)%N -> (N_of_ascii c < 48)%N -> Ascii.eqb (ascii_of_N n) c = false.
Proof.
  intros Hn Hc. destruct (Ascii.eqb (ascii_of_N n) c) eqn:E; [|reflexivity].
  apply Ascii.eqb_eq in E. subst c. rewrite N_ascii_embedding in Hc by lia. lia.
Qed.

Lemma tx_codes_no c l : (N_of_ascii c < 48)%N -> (forall n, In n l -> (48 <= n < 256)%N) ->
  contains_char c (string_of_codes l) = false.
Proof.
  intros Hc. induction l as [|n l IH]; intro Hl; [reflexivity|].
  cbn [string_of_codes fold_right contains_char].
  rewrite tx_eqb_ascii_of_N by (try exact Hc; apply Hl; left; reflexivity).
  apply IH. intros k Hk. apply Hl. right. exact Hk.
Qed.

Lemma tx_hex_digit_no c x : (N_of_ascii c < 48)%N -> (x < 16)%N -> Ascii.eqb (hex_digit x) c = false.
Proof.
  intros Hc Hx. unfold hex_digit. destruct (x <? 10)%N; apply tx_eqb_ascii_of_N; try exact Hc; lia.
Qed.

Lemma tx_to_hex_fuel_no c : (N_of_ascii c < 48)%N -> forall fuel n, contains_char c (to_hex_fuel fuel n) = false.
Proof.
  intros Hc. induction fuel as [|f IH]; intro n; [reflexivity|].
  cbn [to_hex_fuel]. cbv zeta.
  assert (Hx : (n mod 16 < 16)%N) by (apply N.mod_lt; discriminate).
  destruct (n / 16 =? 0)%N.
  - cbn [contains_char]. rewrite (tx_hex_digit_no c _ Hc Hx). reflexivity.
  - rewrite rc_contains_app, IH. cbn [contains_char]. rewrite (tx_hex_digit_no c _ Hc Hx). reflexivity.
Qed.

Lemma tx_pad_left0_2_no c s : (N_of_ascii c < 48)%N -> contains_char c s = false ->
  contains_char c (pad_left0_2 s) = false.
Proof.
  intros Hc Hs. unfold pad_left0_2.
  assert (H0 : Ascii.eqb "0" c = false).
  { destruct (Ascii.eqb "0" c) eqn:E; [|reflexivity]. apply Ascii.eqb_eq in E. subst c. vm_compute in Hc. discriminate. }
  destruct (String.length s) as [|[|k]].
  - cbn [contains_char]. rewrite H0. reflexivity.
  - cbn [contains_char]. rewrite H0, Hs. reflexivity.
  - exact Hs.
Qed.

Lemma tx_selection_no c rows cols sel : (N_of_ascii c < 48)%N ->
  contains_char c (evo_get_selection rows cols sel) = false.
Proof.
  intro Hc. unfold evo_get_selection. rewrite !rc_contains_app.
  rewrite !tx_pad_left0_2_no by (try exact Hc; apply tx_to_hex_fuel_no; exact Hc).
  rewrite tx_codes_no; [reflexivity|exact Hc|].
  intros n Hn. pose proof (sel_codes_range sel n Hn). lia.
Qed.

Lemma tx_cmd_vols_nonneg v m n qs : cmd_vols v m n = Ok qs -> Forall (fun q => (0 <= q)%Q) qs.
Proof.
  unfold cmd_vols. destruct v as [x|l|l|]; [| | |discriminate].
  - destruct (check_volume x (Some m)) as [q|e] eqn:E; [|discriminate]. intro H. injection H as <-.
    apply check_volume_ok in E. destruct E as (_ & H0 & _).
    apply Forall_forall. intros y Hy. apply repeat_spec in Hy. subst y. exact H0.
  - destruct (check_volumes l m) as [qs'|e] eqn:E; [|discriminate].
    destruct (length qs' =? n)%nat; [|discriminate]. intro H. injection H as <-.
    apply check_volumes_ok in E. destruct E as [_ HF].
    apply Forall_forall. intros y Hy. rewrite Forall_forall in HF. exact (proj1 (HF y Hy)).
  - destruct (check_volumes (int_pvols l) m) as [qs'|e] eqn:E; [|discriminate].
    destruct (length qs' =? n)%nat; [|discriminate]. intro H. injection H as <-.
    apply check_volumes_ok in E. destruct E as [_ HF].
    apply Forall_forall. intros y Hy. rewrite Forall_forall in HF. exact (proj1 (HF y Hy)).
Qed.

Lemma tx_slots_struct_ok tipvs given : forall vols sl, Forall (fun q => (0 <= q)%Q) vols ->
  slots_struct tipvs given vols = Some sl -> Forall tx_slot_ok sl.
Proof.
  induction tipvs as [|t rest IH]; intros vols sl Hv H; cbn [slots_struct] in H.
  - injection H as <-. constructor.
  - destruct (existsb (Z.eqb t) given).
    + destruct vols as [|v vr]; [discriminate|].
      destruct (slots_struct rest given vr) as [sl'|] eqn:E; [|discriminate]. injection H as <-.
      inversion Hv as [|v0 vr0 Hv0 Hvr]. subst v0 vr0.
      constructor; [exact (rc_round2c_nonneg v Hv0)|exact (IH vr sl' Hvr E)].
    + destruct (slots_struct rest given vols) as [sl'|] eqn:E; [|discriminate]. injection H as <-.
      constructor; [exact I|exact (IH vols sl' Hv E)].
Qed.

(** the liquid class given contains neither a comma nor a double quote *)
Definition tx_lc_clean (t : ptext) : Prop :=
  match t with
  | PStr s => contains_char "," s = false /\ contains_char dq s = false
  | PNotStr => True
  end.

Lemma tx_accepted_valid kind R C a m grid site qs lc bs sl sel :
  kind = "Aspirate" \/ kind = "Dispense" -> tx_lc_clean (c_liquid_class a) ->
  accepted R C a m grid site qs lc bs sl sel ->
  tx_cmd_valid (the_cmd kind R C a grid site lc bs sl sel).
Proof.
  intros Hk Hlc A.
  destruct (accepted_fields kind R C a m grid site qs lc bs sl sel A)
    as (F1 & F2 & F3 & F4 & F5 & F6 & F7 & F8 & F9 & F10).
  destruct (accepted_lengths _ _ _ _ _ _ _ _ _ _ _ A) as [Lq Lb].
  destruct A as [A1 A2 A3 A4 A5 A6 A7 A8 A9 A10 A11 A12].
  cbv zeta in F1, F2, F3, F4, F5, F6, F7, F8.
  constructor.
  - exact Hk.
  - lia.
  - cbn [the_cmd cm_grid]. lia.
  - cbn [the_cmd cm_site]. lia.
  - cbn [the_cmd cm_arm]. lia.
  - cbn [the_cmd cm_lc]. rewrite (proj1 A6) in Hlc. exact Hlc.
  - cbn [the_cmd cm_sel]. split; apply tx_selection_no; reflexivity.
  - exact F8.
  - cbn [the_cmd cm_slots]. apply (tx_slots_struct_ok eight (map tipval bs) qs sl); [|exact A10].
    exact (tx_cmd_vols_nonneg _ _ _ _ A5).
Qed.

(** M4: the text emitted by [evo_command] parses, with the independent textual parser, to the structured
    command *)
Lemma tx_evo_command_parse kind R C a m text :
  kind = "Aspirate" \/ kind = "Dispense" -> tx_lc_clean (c_liquid_class a) ->
  evo_command kind R C a m = Ok text ->
  exists c, parse_cmd text = Some c /\ evo_command_struct kind R C a m = Ok c.
Proof.
  intros Hk Hlc H. destruct (evo_command_struct_text _ _ _ _ _ _ H) as (c & Hc & ->).
  exists c. split; [|exact Hc].
  apply evo_command_struct_iff in Hc. destruct Hc as (grid & site & qs & lc & bs & sl & sel & A & ->).
  pose proof (tx_accepted_valid kind R C a m grid site qs lc bs sl sel Hk Hlc A) as V.
  destruct (c_volume a) as [x|l|l|] eqn:Ecv; cbn [cmd_text]; try (apply tx_parse_render_cmd; exact V).
  apply tx_parse_render_cmd_int; [exact V|]. cbn [the_cmd cm_slots].
  pose proof (acc_vols _ _ _ _ _ _ _ _ _ _ _ A) as Hv. rewrite Ecv in Hv.
  apply cmd_vols_intlist_ok in Hv. subst qs.
  exact (slots_struct_whole _ _ _ _ (acc_slots _ _ _ _ _ _ _ _ _ _ _ A)).
Qed.

(** the all-int spelling, spelled out: for per-tip volumes given as a list of Python ints the text is the
    whole-number rendering of the structured command ("5" where a float list gives "5.0"), every used slot of
    which is a multiple of 100 hundredths; the text still parses to that command, i.e. to the same command as
    the float spelling [render_cmd c] of the same volumes *)
Lemma tx_evo_command_int kind R C a m l text :
  kind = "Aspirate" \/ kind = "Dispense" -> tx_lc_clean (c_liquid_class a) ->
  c_volume a = CVIntList l ->
  evo_command kind R C a m = Ok text ->
  exists c,
    evo_command_struct kind R C a m = Ok c /\ text = render_cmd_int c /\
    Forall slot_whole (cm_slots c) /\
    parse_cmd text = Some c /\ parse_cmd (render_cmd c) = Some c /\
    length l = length (flattenF (c_wells a)) /\
    track_vols a = map (fun z => XQ (inject_Z z)) l /\
    Forall (fun z => (0 <= z)%Z /\ (inject_Z z <= m)%Q) l.
Proof.
  intros Hk Hlc Ecv H. destruct (evo_command_struct_text _ _ _ _ _ _ H) as (c & Hc & ->).
  exists c. split; [exact Hc|]. rewrite Ecv. cbn [cmd_text]. split; [reflexivity|].
  apply evo_command_struct_iff in Hc. destruct Hc as (grid & site & qs & lc & bs & sl & sel & A & ->).
  pose proof (tx_accepted_valid kind R C a m grid site qs lc bs sl sel Hk Hlc A) as V.
  pose proof (acc_vols _ _ _ _ _ _ _ _ _ _ _ A) as Hv.
  pose proof (cmd_vols_track _ _ _ Hv) as Ht. pose proof (cmd_vols_length _ _ _ _ Hv) as Hlen.
  rewrite Ecv in Hv. pose proof Hv as Hv'. apply cmd_vols_intlist_ok in Hv'. subst qs.
  assert (W : Forall slot_whole (cm_slots (the_cmd kind R C a grid site lc bs sl sel))).
  { cbn [the_cmd cm_slots]. exact (slots_struct_whole _ _ _ _ (acc_slots _ _ _ _ _ _ _ _ _ _ _ A)). }
  split; [exact W|]. split; [exact (tx_parse_render_cmd_int _ V W)|]. split; [exact (tx_parse_render_cmd _ V)|].
  split; [rewrite map_length in Hlen; exact Hlen|]. split; [rewrite Ht, map_map; reflexivity|].
  unfold cmd_vols in Hv. destruct (check_volumes (int_pvols l) m) as [qs'|e] eqn:E; [|discriminate].
  apply check_volumes_ok in E. destruct E as [Hq HF]. apply int_pvols_eq in Hq. subst qs'.
  apply Forall_forall. intros z Hz. rewrite Forall_forall in HF.
  destruct (HF (inject_Z z) (in_map inject_Z l z Hz)) as (H0 & _ & Hm). split; [|exact Hm].
  unfold Qle, inject_Z in H0. cbn [Qnum Qden] in H0. lia.
Qed.

(** two accepted calls with the same text have the same structured command *)
Lemma tx_text_determines kind R C a m kind' R' C' a' m' text :
  kind = "Aspirate" \/ kind = "Dispense" -> kind' = "Aspirate" \/ kind' = "Dispense" ->
  tx_lc_clean (c_liquid_class a) -> tx_lc_clean (c_liquid_class a') ->
  evo_command kind R C a m = Ok text -> evo_command kind' R' C' a' m' = Ok text ->
  evo_command_struct kind R C a m = evo_command_struct kind' R' C' a' m'.
Proof.
  intros Hk Hk' Hl Hl' H H'.
  destruct (tx_evo_command_parse _ _ _ _ _ _ Hk Hl H) as (c & P & S).
  destruct (tx_evo_command_parse _ _ _ _ _ _ Hk' Hl' H') as (c' & P' & S').
  rewrite P in P'. injection P' as <-. rewrite S, S'. reflexivity.
Qed.

(** the parsed command names the arguments of the call *)
Lemma tx_parse_fields kind R C a m text :
  kind = "Aspirate" \/ kind = "Dispense" -> tx_lc_clean (c_liquid_class a) ->
  evo_command kind R C a m = Ok text ->
  exists c bs,
    parse_cmd text = Some c /\
    elems_bits (c_tips a) = Some bs /\ asc_nat bs = true /\
    cm_kind c = kind /\
    c_liquid_class a = PStr (cm_lc c) /\
    cm_arm c = c_arm a /\
    c_grid a = PInt (cm_grid c) /\
    c_site a = PInt (cm_site c + 1) /\
    cm_mask c = Z.of_N (mask_or bs) /\
    tip_mask (TipMany (c_tips a)) = Ok (Some (mask_or bs)) /\
    (0 <= cm_mask c < 256)%Z /\
    length (cm_slots c) = 8 /\
    (forall i, i < 8 -> ((exists h, nth_error (cm_slots c) i = Some (Some h)) <-> In i bs)) /\
    (forall i, i < 8 -> ((exists h, nth_error (cm_slots c) i = Some (Some h)) <->
                         Z.testbit (cm_mask c) (Z.of_nat i) = true)).
Proof.
  intros Hk Hlc H.
  destruct (tx_evo_command_parse _ _ _ _ _ _ Hk Hlc H) as (c & P & S).
  destruct (fields_statement _ _ _ _ _ _ H)
    as (c' & bs & S' & _ & G1 & G2 & G3 & G4 & G5 & G6 & G7 & G8 & _ & G10 & G11 & G12 & G13).
  rewrite S in S'. injection S' as <-.
  exists c, bs. repeat (split; [assumption|]).
  split; [exact (tip_mask_many_or _ _ G1)|]. repeat (split; [assumption|]). assumption.
Qed.

(** text -> parsed command -> decoded effect = the volumes handed to the tracking *)
Lemma tx_evo_command_agree kind n_rows n_cols a m text :
  kind = "Aspirate" \/ kind = "Dispense" -> tx_lc_clean (c_liquid_class a) ->
  n_rows <= 26 -> n_cols < 256 ->
  evo_command kind n_rows n_cols a m = Ok text ->
  exists c qs rcs,
    parse_cmd text = Some c /\
    map (make_well_index n_rows n_cols) (flattenF (c_wells a)) = map Some rcs /\
    length qs = length rcs /\
    track_vols a = map XQ qs /\
    decode_effect n_rows n_cols c = Some (effect_of rcs qs).
Proof.
  intros Hk Hlc HR HC H.
  destruct (tx_evo_command_parse _ _ _ _ _ _ Hk Hlc H) as (c & P & S).
  destruct (evo_command_agree _ _ _ _ _ _ HR HC H) as (c' & qs & rcs & S' & _ & Hm & Hl & Ht & Hd).
  rewrite S in S'. injection S' as <-.
  exists c, qs, rcs. repeat split; assumption.
Qed.

Lemma tx_ledger_bridge kind L a m text :
  kind = "Aspirate" \/ kind = "Dispense" -> tx_lc_clean (c_liquid_class a) ->
  g_cols (lw_geom L) < 256 ->
  evo_command kind (n_row_ids (lw_geom L)) (g_cols (lw_geom L)) a m = Ok text ->
  exists c qs rcs,
    parse_cmd text = Some c /\
    decode_effect (n_row_ids (lw_geom L)) (g_cols (lw_geom L)) c = Some (effect_of rcs qs) /\
    length qs = length rcs /\
    events_of L (zip (track_wells a) (track_vols a)) = Some (zip (map (real_index (lw_geom L)) rcs) qs).
Proof.
  intros Hk Hlc HC H.
  destruct (tx_evo_command_agree _ _ _ _ _ _ Hk Hlc (n_row_ids_le (lw_geom L)) HC H)
    as (c & qs & rcs & P & Hm & Hl & Ht & Hd).
  exists c, qs, rcs. split; [exact P|]. split; [exact Hd|]. split; [exact Hl|].
  destruct (wells_indexed _ _ _ _ Hm) as [Hw HF]. rewrite track_wells_eq, Hw, Ht.
  apply events_of_indexed; [|exact Hl].
  apply Forall_forall. intros rc Hin. rewrite Forall_forall in HF. destruct (HF rc Hin) as [H1 H2].
  split; [lia|exact H2].
Qed.

(** accepted evo_aspirate: the appended command text, parsed and decoded, names the wells [rcs] with the
    volumes [qs]; the tracked labware lost exactly [qs] on those wells *)
Lemma tx_evo_aspirate_ledger s k a label s' L :
  tx_lc_clean (c_liquid_class a) ->
  evo_aspirate s k a label = (s', None) -> nth_error (st_lw s) k = Some L -> wf_shape L ->
  g_cols (lw_geom L) < 256 ->
  exists L' w text c rcs qs,
    nth_error (st_lw s') k = Some L' /\ st_wl s' = emit w [RCmd text] /\
    parse_cmd text = Some c /\
    decode_effect (n_row_ids (lw_geom L)) (g_cols (lw_geom L)) c = Some (effect_of rcs qs) /\
    length qs = length rcs /\
    length (lw_vols L') = length (lw_vols L) /\
    forall j, (nth j (lw_vols L') 0 ==
               nth j (lw_vols L) 0 + delta (neg_events (zip (map (real_index (lw_geom L)) rcs) qs)) j)%Q.
Proof.
  intros Hlc H HL HS HC.
  destruct (evo_aspirate_accept _ _ _ _ _ H) as (L0 & L' & w & text & EL & ER & EC & EV & Elw & Ewl).
  rewrite HL in EL. injection EL as <-.
  destruct (tx_ledger_bridge _ L a _ text (or_introl eq_refl) Hlc HC EV) as (c & qs & rcs & P & Hd & Hl & Hev).
  destruct (remove_ledger _ _ _ _ _ ER HS) as (evs & Hevs & Hlen & HJ).
  rewrite track_pairs, Hev in Hevs. injection Hevs as <-.
  exists L', w, text, c, rcs, qs.
  split; [rewrite Elw; exact (nth_error_upd_same _ _ _ _ HL)|].
  split; [exact Ewl|]. split; [exact P|]. split; [exact Hd|]. split; [exact Hl|].
  split; [exact Hlen|exact HJ].
Qed.

Lemma tx_evo_dispense_ledger s k a label comps s' L :
  tx_lc_clean (c_liquid_class a) ->
  evo_dispense s k a label comps = (s', None) -> nth_error (st_lw s) k = Some L -> wf_shape L ->
  g_cols (lw_geom L) < 256 ->
  exists L' w text c rcs qs,
    nth_error (st_lw s') k = Some L' /\ st_wl s' = emit w [RCmd text] /\
    parse_cmd text = Some c /\
    decode_effect (n_row_ids (lw_geom L)) (g_cols (lw_geom L)) c = Some (effect_of rcs qs) /\
    length qs = length rcs /\
    length (lw_vols L') = length (lw_vols L) /\
    forall j, (nth j (lw_vols L') 0 ==
               nth j (lw_vols L) 0 + delta (zip (map (real_index (lw_geom L)) rcs) qs) j)%Q.
Proof.
  intros Hlc H HL HS HC.
  destruct (evo_dispense_accept _ _ _ _ _ _ H) as (L0 & L' & w & text & EL & ER & EC & EV & Elw & Ewl).
  rewrite HL in EL. injection EL as <-.
  destruct (tx_ledger_bridge _ L a _ text (or_intror eq_refl) Hlc HC EV) as (c & qs & rcs & P & Hd & Hl & Hev).
  destruct (add_ledger _ _ _ _ _ _ ER HS) as (evs & Hevs & Hlen & HJ).
  rewrite track_pairs, Hev in Hevs. injection Hevs as <-.
  exists L', w, text, c, rcs, qs.
  split; [rewrite Elw; exact (nth_error_upd_same _ _ _ _ HL)|].
  split; [exact Ewl|]. split; [exact P|]. split; [exact Hd|]. split; [exact Hl|].
  split; [exact Hlen|exact HJ].
Qed.

(* ------------------------------------------------------------------------------------------ *)
(** * The wash command *)

Lemma tx_parse_tenths_int z : (0 <= z)%Z -> parse_tenths (decZ z) = Some (10 * Z.to_N z)%N.
Proof.
  intro H. rewrite rc_decZ_nonneg by exact H. unfold parse_tenths.
  change (decN (Z.to_N z)) with (join "." [decN (Z.to_N z)]) at 1.
  rewrite rc_split_join; [|apply rc_decN_no; reflexivity|constructor].
  rewrite parse_decN_decN. reflexivity.
Qed.

Lemma tx_rstrip0_one a : rstrip0 (String a "") = String a "".
Proof. unfold rstrip0, rev_string. cbn [rev_string_aux rstrip0_rev]. destruct (Ascii.eqb a "0"); reflexivity. Qed.

(** "ddd.d" as written by [repr_dec n 1] is read back as n tenths *)
Lemma tx_parse_tenths_repr n : parse_tenths (repr_dec n 1) = Some n.
Proof.
  rewrite rc_repr_dec_eq. unfold rc_repr_frac, frac_digits. change (10 ^ N.of_nat 1)%N with 10%N.
  assert (Hm : (n mod 10 < 10 ^ N.of_nat 1)%N) by (apply N.mod_lt; discriminate).
  pose proof (tx_decN_length _ 1 Hm (le_n 1)) as Hl.
  pose proof (decN_nonempty (n mod 10)) as Hne.
  pose proof (parse_decN_decN (n mod 10)) as P.
  pose proof (all_digits_decN (n mod 10)) as D.
  destruct (decN (n mod 10)) as [|a [|b r]]; [congruence| |cbn [String.length] in Hl; lia].
  change (pad_zeros 1 (String a "")) with (String a ""). rewrite tx_rstrip0_one.
  unfold parse_tenths.
  change (decN (n / 10) ++ "." ++ String a "") with (join "." [decN (n / 10)%N; String a ""]).
  rewrite rc_split_join.
  - rewrite parse_decN_decN, P. f_equal. symmetry. apply N.div_mod. discriminate.
  - apply rc_decN_no. reflexivity.
  - constructor; [|constructor]. apply rc_digits_no; [reflexivity|exact D].
Qed.

(** the number of tenths of a millilitre a wash volume stands for *)
Definition tx_wash_vol_val (v : pyfi) (t : N) : Prop :=
  match v with
  | FI_int z => Z.of_N t = (10 * z)%Z
  | FI_float (XQ q) => Z.of_N t = round1c q
  | _ => False
  end.

Lemma tx_wash_vol_parse v s : wash_vol_text v s ->
  contains_char "," s = false /\ contains_char dq s = false /\
  exists t, parse_tenths s = Some t /\ tx_wash_vol_val v t.
Proof.
  intros [z Hz|q H0 H1].
  - split; [apply rc_decZ_no; [reflexivity|lia]|]. split; [apply rc_decZ_no; [reflexivity|lia]|].
    exists (10 * Z.to_N z)%N. split; [apply tx_parse_tenths_int; lia|].
    cbn [tx_wash_vol_val]. lia.
  - unfold pyrepr_round1.
    split; [apply rc_repr_dec_no; [reflexivity|discriminate]|].
    split; [apply rc_repr_dec_no; [reflexivity|discriminate]|].
    exists (Z.to_N (round1c q)). split; [apply tx_parse_tenths_repr|].
    cbn [tx_wash_vol_val]. apply Z2N.id. unfold round1c. apply rc_Qrint_nonneg.
    apply Qmult_le_0_compat; [exact H0|discriminate].
Qed.

Definition tx_wash_fields (mask wg ws cg cs : Z) (wv : string) (wd : Z) (cv : string)
    (cd ag ags rs fw lv arm : Z) : list string :=
  [decZ mask; decZ wg; decZ ws; decZ cg; decZ cs; tx_quote wv; decZ wd; tx_quote cv; decZ cd;
   decZ ag; decZ ags; decZ rs; decZ fw; decZ lv; "1000"; decZ arm ++ ");"].

Lemma tx_parse_wash_text mask wg ws cg cs wv wd cv cd ag ags rs fw lv arm wvt cvt :
  (0 <= mask)%Z -> (0 <= wg)%Z -> (0 <= ws)%Z -> (0 <= cg)%Z -> (0 <= cs)%Z -> (0 <= wd)%Z -> (0 <= cd)%Z ->
  (0 <= ag)%Z -> (0 <= ags)%Z -> (0 <= rs)%Z -> (0 <= fw)%Z -> (0 <= lv)%Z -> (0 <= arm)%Z ->
  contains_char "," wv = false -> contains_char dq wv = false -> parse_tenths wv = Some wvt ->
  contains_char "," cv = false -> contains_char dq cv = false -> parse_tenths cv = Some cvt ->
  parse_wash ("B;Wash(" ++ join "," (tx_wash_fields mask wg ws cg cs wv wd cv cd ag ags rs fw lv arm)) =
  Some {| wc_mask := mask; wc_waste_grid := wg; wc_waste_site := ws; wc_cleaner_grid := cg;
          wc_cleaner_site := cs; wc_waste_vol := wvt; wc_waste_delay := wd; wc_cleaner_vol := cvt;
          wc_cleaner_delay := cd; wc_airgap := ag; wc_airgap_speed := ags; wc_retract_speed := rs;
          wc_fastwash := fw; wc_low_volume := lv; wc_arm := arm |}.
Proof.
  intros H1 H2 H3 H4 H5 H6 H7 H8 H9 H10 H11 H12 H13 W1 W2 W3 C1 C2 C3.
  unfold parse_wash. rewrite tx_strip_prefix_app. unfold tx_wash_fields.
  rewrite rc_split_join.
  - cbn [String.eqb Ascii.eqb Bool.eqb andb].
    rewrite !tx_parse_nat_field by assumption.
    unfold parse_qvol. rewrite !tx_unquote by assumption. rewrite W3, C3.
    rewrite tx_parse_last by assumption. reflexivity.
  - apply rc_decZ_no; [reflexivity|assumption].
  - repeat (constructor; [first [apply rc_decZ_no; [reflexivity|assumption]
                                |rewrite tx_contains_quote by discriminate; assumption
                                |reflexivity
                                |rewrite rc_contains_app, rc_decZ_no by (try reflexivity; assumption); reflexivity]|]).
    constructor.
Qed.

Lemma tx_wash_text_join mask wg ws cg cs wv wd cv cd ag ags rs fw lv arm :
  "B;Wash(" ++ decZ mask ++ "," ++ decZ wg ++ "," ++ decZ ws
  ++ "," ++ decZ cg ++ "," ++ decZ cs ++ ",""" ++ wv ++ """," ++ decZ wd
  ++ ",""" ++ cv ++ """," ++ decZ cd ++ "," ++ decZ ag ++ "," ++ decZ ags ++ ","
  ++ decZ rs ++ "," ++ decZ fw ++ "," ++ decZ lv ++ ",1000," ++ decZ arm ++ ");"
  = "B;Wash(" ++ join "," (tx_wash_fields mask wg ws cg cs wv wd cv cd ag ags rs fw lv arm).
Proof. unfold tx_wash_fields. cbn [join]. rewrite !tx_quote_app. cbn [append]. reflexivity. Qed.

(** the text emitted by [evo_wash_cmd] parses, with the independent textual parser, to the arguments *)
Lemma tx_wash_parse a text : evo_wash_cmd a = Ok text ->
  exists wc bs,
    parse_wash text = Some wc /\
    elems_bits (wa_tips a) = Some bs /\ wc_mask wc = Z.of_N (mask_or bs) /\
    wa_waste_grid a = PInt (wc_waste_grid wc) /\ wa_waste_site a = PInt (wc_waste_site wc + 1) /\
    wa_cleaner_grid a = PInt (wc_cleaner_grid wc) /\ wa_cleaner_site a = PInt (wc_cleaner_site wc + 1) /\
    tx_wash_vol_val (wa_waste_vol a) (wc_waste_vol wc) /\ wa_waste_delay a = PInt (wc_waste_delay wc) /\
    tx_wash_vol_val (wa_cleaner_vol a) (wc_cleaner_vol wc) /\ wa_cleaner_delay a = PInt (wc_cleaner_delay wc) /\
    wa_airgap a = PInt (wc_airgap wc) /\ wa_airgap_speed a = PInt (wc_airgap_speed wc) /\
    wa_retract_speed a = PInt (wc_retract_speed wc) /\
    wa_fastwash a = PInt (wc_fastwash wc) /\ wa_low_volume a = PInt (wc_low_volume wc) /\
    wc_arm wc = wa_arm a.
Proof.
  intro H. apply wash_statement in H.
  destruct H as (bs & wg & wsite & cg & csite & wv & wd & cv & cd & ag & ags & rs & fw & lv &
                 W0 & [W1 R1] & [W2 R2] & [W3 R3] & [W4 R4] & W5 & W6 & [W7 R7] & W8 & [W9 R9] & [W10 R10] &
                 [W11 R11] & [W12 R12] & [W13 R13] & [W14 R14] & ->).
  destruct (tx_wash_vol_parse _ _ W6) as (Wc & Wq & wvt & Wp & Wv).
  destruct (tx_wash_vol_parse _ _ W8) as (Cc & Cq & cvt & Cp & Cv).
  eexists. exists bs. split.
  - rewrite (tx_wash_text_join (Z.of_N (mask_or bs)) wg (wsite - 1) cg (csite - 1) wv wd cv cd ag ags rs fw lv
               (wa_arm a)).
    apply tx_parse_wash_text; try eassumption; lia.
  - cbn [wc_mask wc_waste_grid wc_waste_site wc_cleaner_grid wc_cleaner_site wc_waste_vol wc_waste_delay
         wc_cleaner_vol wc_cleaner_delay wc_airgap wc_airgap_speed wc_retract_speed wc_fastwash
         wc_low_volume wc_arm].
    rewrite !Z.sub_add.
    repeat (split; [first [assumption|reflexivity]|]). reflexivity.
Qed.

(* ------------------------------------------------------------------------------------------ *)
(** * M15: masks of transfer pairs and script commands *)

(** both records of an executed transfer step carry the mask of the tip argument *)
Lemma tx_pair_same_mask s ks kd sw dw v ws kw s' : (0 < v)%Q ->
  exec_step s ks kd sw dw v ws kw = (s', None) ->
  exists fa fd tip m,
    w_recs (st_wl s') = (w_recs (st_wl s) ++ [RA fa; RD fd] ++ tip)%list /\
    tip_mask (k_tip kw) = Ok m /\ ad_tip fa = m /\ ad_tip fd = m.
Proof.
  intros Hv H. destruct (exec_step_records _ _ _ _ _ _ _ _ _ _ Hv H) as (_ & _ & rs & Hrs & Ls & Ld & _ & _ & P).
  destruct P as (pa & pd & fa & fd & tip & -> & _ & _ & _ & _ & _ & _ & _ & _ & _ & Et & Ka & Kd & _).
  exists fa, fd, tip, (ad_tip fa). split; [exact Hrs|].
  split; [exact (proj1 (proj2 Ka))|]. split; [reflexivity|exact Et].
Qed.

(** the mask written into a script command is the mask of its tip list *)
Lemma tx_command_mask kind R C a m text :
  kind = "Aspirate" \/ kind = "Dispense" -> tx_lc_clean (c_liquid_class a) ->
  evo_command kind R C a m = Ok text ->
  exists c mk, parse_cmd text = Some c /\ tip_mask (TipMany (c_tips a)) = Ok (Some mk) /\
               cm_mask c = Z.of_N mk.
Proof.
  intros Hk Hlc H. destruct (tx_parse_fields _ _ _ _ _ _ Hk Hlc H)
    as (c & bs & P & _ & _ & _ & _ & _ & _ & _ & M1 & M2 & _).
  exists c, (mask_or bs). repeat split; assumption.
Qed.

Lemma tx_wash_mask a text : evo_wash_cmd a = Ok text ->
  exists wc mk, parse_wash text = Some wc /\ tip_mask (TipMany (wa_tips a)) = Ok (Some mk) /\
                wc_mask wc = Z.of_N mk.
Proof.
  intro H. destruct (tx_wash_parse a text H) as (wc & bs & P & E & M & _).
  exists wc, (mask_or bs). split; [exact P|]. split; [exact (tip_mask_many_or _ _ E)|exact M].
Qed.

(** an empty collection of tips is accepted and yields mask 0 *)
Lemma tx_empty_collection : tip_mask (TipMany []) = Ok (Some 0%N).
Proof. reflexivity. Qed.
