(** Lemmas about [Labware.add] / [Labware.remove] and the worklist operations built on them:
    the volume-limit invariant (C02) and the per-well ledger (C04). *)
From Robo Require Import Prelude Str Wells Utils Labware Tips Records Partition Params Worklist EvoCmd
  Program Invariants WellsProofs.
From Coq Require Import Lqa DecimalString DecimalN.
#[local] Open Scope Q_scope.

(* ------------------------------------------------------------------ lists *)

Lemma upd_length {A} (l : list A) : forall i x, length (upd l i x) = length l.
Proof.
  induction l as [|y r IH]; intros [|j] x; cbn [upd length]; try reflexivity.
  rewrite IH. reflexivity.
Qed.

Lemma nth_upd_same {A} (l : list A) d : forall i x, (i < length l)%nat -> nth i (upd l i x) d = x.
Proof.
  induction l as [|y r IH]; intros [|j] x Hi; cbn [upd nth length] in *; try lia; [reflexivity|].
  apply IH. lia.
Qed.

Lemma nth_upd_other {A} (l : list A) d : forall i j x, i <> j -> nth j (upd l i x) d = nth j l d.
Proof.
  induction l as [|y r IH]; intros [|i] [|j] x Hne; cbn [upd nth]; try reflexivity; try congruence.
  apply IH. congruence.
Qed.

Lemma Forall_upd {A} (P : A -> Prop) (l : list A) : forall i x, Forall P l -> P x -> Forall P (upd l i x).
Proof.
  induction l as [|y r IH]; intros i x HF Hx.
  - destruct i; constructor.
  - inversion HF as [|y' r' Hy Hr]; subst. destruct i as [|i]; cbn [upd]; constructor; auto.
Qed.

Lemma Forall_nth_P {A} (P : A -> Prop) (l : list A) d i : Forall P l -> (i < length l)%nat -> P (nth i l d).
Proof. intros HF Hi. rewrite Forall_forall in HF. apply HF. apply nth_In. exact Hi. Qed.

Lemma Forall_nth_error {A} (P : A -> Prop) (l : list A) k x : Forall P l -> nth_error l k = Some x -> P x.
Proof. intros HF H. rewrite Forall_forall in HF. apply HF. eapply nth_error_In. exact H. Qed.

Lemma zip_In {A B} (l1 : list A) : forall (l2 : list B) a b, In (a, b) (zip l1 l2) -> In a l1 /\ In b l2.
Proof.
  induction l1 as [|x r IH]; intros [|y s] a b H; cbn [zip In] in *; try contradiction.
  destruct H as [H|H].
  - injection H as <- <-. split; left; reflexivity.
  - apply IH in H. destruct H as [Ha Hb]. split; right; assumption.
Qed.

Lemma zip_In_l {A B} (l1 : list A) : forall (l2 : list B) a, length l2 = length l1 -> In a l1 ->
  exists b, In (a, b) (zip l1 l2).
Proof.
  induction l1 as [|x r IH]; intros [|y s] a Hlen Ha; cbn [zip In length] in *; try contradiction; try lia.
  destruct Ha as [<-|Ha].
  - exists y. left. reflexivity.
  - destruct (IH s a) as [b Hb]; [lia|exact Ha|]. exists b. right. exact Hb.
Qed.

Lemma zip_length {A B} (l1 : list A) : forall (l2 : list B), length l2 = length l1 ->
  length (zip l1 l2) = length l1.
Proof.
  induction l1 as [|x r IH]; intros [|y s] H; cbn [zip length] in *; try lia. rewrite IH; lia.
Qed.

Lemma map_fst_zip {A B} (l1 : list A) : forall (l2 : list B), length l2 = length l1 ->
  map fst (zip l1 l2) = l1.
Proof.
  induction l1 as [|x r IH]; intros [|y s] H; cbn [zip map length fst] in *; try lia; try reflexivity.
  rewrite IH by lia. reflexivity.
Qed.

Lemma firstn_In {A} (l : list A) : forall n x, In x (firstn n l) -> In x l.
Proof.
  induction l as [|y r IH]; intros [|n] x H; cbn [firstn In] in *; try contradiction.
  destruct H as [H|H]; [left; exact H|right; eapply IH; exact H].
Qed.

(* ------------------------------------------------------------------ Q comparisons *)

Lemma Qgtb_false a b : Qgtb a b = false -> a <= b.
Proof. unfold Qgtb. intro H. apply negb_false_iff in H. apply Qle_bool_iff. exact H. Qed.
Lemma Qgtb_true a b : Qgtb a b = true -> b < a.
Proof.
  unfold Qgtb. intro H. apply negb_true_iff in H. apply Qnot_le_lt. intro C.
  apply Qle_bool_iff in C. congruence.
Qed.
Lemma Qgtb_true_intro a b : b < a -> Qgtb a b = true.
Proof.
  intro H. unfold Qgtb. destruct (Qle_bool a b) eqn:E; [|reflexivity].
  apply Qle_bool_iff in E. lra.
Qed.
Lemma Qltb_false a b : Qltb a b = false -> b <= a.
Proof. unfold Qltb. intro H. apply negb_false_iff in H. apply Qle_bool_iff. exact H. Qed.
Lemma Qltb_true a b : Qltb a b = true -> a < b.
Proof.
  unfold Qltb. intro H. apply negb_true_iff in H. apply Qnot_le_lt. intro C.
  apply Qle_bool_iff in C. congruence.
Qed.
Lemma Qltb_true_intro a b : a < b -> Qltb a b = true.
Proof.
  intro H. unfold Qltb. destruct (Qle_bool b a) eqn:E; [|reflexivity].
  apply Qle_bool_iff in E. lra.
Qed.

(* ------------------------------------------------------------------ indices are in range *)

Lemma well_index_bound g w rc : wf_geom g -> well_index g w = Some rc -> (flat_index g rc < n_wells g)%nat.
Proof.
  intros (Hr & Hc & Hv) H. unfold well_index in H.
  destruct (id_rc w) as [[r c]|]; [|discriminate].
  destruct ((r <? n_row_ids g)%nat && (c <? g_cols g)%nat) eqn:E; [|discriminate].
  apply andb_true_iff in E. destruct E as [E1 E2]. apply Nat.ltb_lt in E1. apply Nat.ltb_lt in E2.
  injection H as <-. unfold flat_index, n_wells, n_row_ids in *. cbn [fst snd].
  destruct (g_vrows g) as [v|].
  - destruct Hv as [H1 _]. rewrite H1. lia.
  - assert (Hle : (S r <= g_rows g)%nat) by lia.
    pose proof (Nat.mul_le_mono_r _ _ (g_cols g) Hle) as Hm. cbn [Nat.mul] in Hm. lia.
Qed.

(** well-formed geometry and a volume array of the right size: all that index reasoning needs *)
Definition shape0 (L : labware) : Prop :=
  wf_geom (lw_geom L) /\ length (lw_vols L) = n_wells (lw_geom L).

Lemma wf_shape_shape0 L : wf_shape L -> shape0 L.
Proof. intros (Hg & Hv & _). split; assumption. Qed.

Lemma lw_index_bound L w i : shape0 L -> lw_index L w = Some i -> (i < length (lw_vols L))%nat.
Proof.
  intros [Hg Hl] H. unfold lw_index in H.
  destruct (well_index (lw_geom L) w) as [rc|] eqn:E; [|discriminate].
  injection H as <-. rewrite Hl. eapply well_index_bound; eassumption.
Qed.

Lemma lw_index_geom L1 L2 w : lw_geom L1 = lw_geom L2 -> lw_index L1 w = lw_index L2 w.
Proof. intro H. unfold lw_index. rewrite H. reflexivity. Qed.

(* ------------------------------------------------------------------ composition arrays keep their shape *)

Lemma assoc_get_In {A} k (l : list (string * A)) v : assoc_get k l = Some v -> exists k', In (k', v) l.
Proof.
  induction l as [|[k1 v1] r IH]; cbn [assoc_get]; intro H; [discriminate|].
  destruct (String.eqb k1 k).
  - injection H as <-. exists k1. left. reflexivity.
  - destruct (IH H) as [k' Hk]. exists k'. right. exact Hk.
Qed.

Lemma assoc_set_Forall {A} (P : string * A -> Prop) k v (l : list (string * A)) :
  (forall k', P (k', v)) -> Forall P l -> Forall P (assoc_set k v l).
Proof.
  intros Hv HF. induction HF as [|[k1 v1] r H1 Hr IH]; cbn [assoc_set].
  - constructor; [apply Hv|constructor].
  - destruct (String.eqb k1 k); constructor; auto.
Qed.

Lemma write_composition_comp L i c n :
  Forall (fun ka => length (snd ka) = n) (lw_comp L) -> n = n_wells (lw_geom L) ->
  Forall (fun ka => length (snd ka) = n) (lw_comp (write_composition L i c)).
Proof.
  intros HF Hn. unfold write_composition. cbn [lw_comp set_comp].
  revert HF. generalize (lw_comp L) as comp.
  induction c as [|[k f] r IH]; intros comp HF; cbn [fold_left]; [exact HF|].
  apply IH. cbn [fst snd]. apply assoc_set_Forall; [|exact HF].
  intro k'. cbn [snd]. rewrite upd_length.
  destruct (assoc_get k comp) as [a|] eqn:E.
  - destruct (assoc_get_In _ _ _ E) as [k1 Hk]. rewrite Forall_forall in HF. apply (HF (k1, a)). exact Hk.
  - rewrite repeat_length. symmetry. exact Hn.
Qed.

(* ------------------------------------------------------------------ one accepted element of add / remove *)

Definition add_one (L : labware) (i : nat) (v : Q) (oc : option composition) : labware :=
  let v0 := vol_at L i in
  let L1 := set_vols L (upd (lw_vols L) i (Qred (v0 + v))) in
  match oc with
  | Some c => write_composition L1 i (combine_composition v0 (well_composition_at L1 i) v c)
  | None => L1
  end.

Definition rem_one (L : labware) (i : nat) (v : Q) : labware :=
  set_vols L (upd (lw_vols L) i (Qred (vol_at L i - v))).

Lemma add_loop_cons L w x oc rest :
  add_loop L ((w, x, oc) :: rest) =
  match lw_index L w with
  | None => (L, Some EReject)
  | Some i => match x with
              | XQ v => if Qgtb (Qred (vol_at L i + v)) (lw_max L) then (L, Some EOverflow)
                        else add_loop (add_one L i v oc) rest
              | _ => (L, Some EOverflow)
              end
  end.
Proof. reflexivity. Qed.

Lemma remove_loop_cons L w x rest :
  remove_loop L ((w, x) :: rest) =
  match lw_index L w with
  | None => (L, Some EReject)
  | Some i => match x with
              | XQ v => if Qltb (Qred (vol_at L i - v)) (lw_min L) then (L, Some EUnderflow)
                        else remove_loop (rem_one L i v) rest
              | _ => (L, Some EUnderflow)
              end
  end.
Proof. reflexivity. Qed.

(** the fields an addition / removal never touches *)
Definition same_frame (L L' : labware) : Prop :=
  lw_name L' = lw_name L /\ lw_geom L' = lw_geom L /\ lw_min L' = lw_min L /\ lw_max L' = lw_max L /\
  lw_hist L' = lw_hist L /\ length (lw_vols L') = length (lw_vols L).

Lemma same_frame_refl L : same_frame L L.
Proof. repeat split. Qed.
Lemma same_frame_trans L1 L2 L3 : same_frame L1 L2 -> same_frame L2 L3 -> same_frame L1 L3.
Proof.
  intros (A1 & A2 & A3 & A4 & A5 & A6) (B1 & B2 & B3 & B4 & B5 & B6).
  repeat split; congruence.
Qed.

Lemma add_one_vols L i v oc : lw_vols (add_one L i v oc) = upd (lw_vols L) i (Qred (vol_at L i + v)).
Proof. unfold add_one. destruct oc as [c|]; reflexivity. Qed.

Lemma add_one_frame L i v oc : same_frame L (add_one L i v oc).
Proof.
  unfold same_frame. rewrite add_one_vols, upd_length.
  unfold add_one. destruct oc as [c|]; repeat split.
Qed.

Lemma rem_one_frame L i v : same_frame L (rem_one L i v).
Proof. unfold same_frame, rem_one. cbn [lw_vols set_vols]. rewrite upd_length. repeat split. Qed.

Lemma shape0_frame L L' : same_frame L L' -> shape0 L -> shape0 L'.
Proof.
  intros (_ & Hg & _ & _ & _ & Hl) [H1 H2]. unfold shape0. rewrite Hg, Hl. split; assumption.
Qed.

Lemma add_one_shape L i v oc : wf_shape L -> wf_shape (add_one L i v oc).
Proof.
  intros (Hg & Hv & Hc & Hh & Hn).
  destruct (add_one_frame L i v oc) as (_ & Fg & _ & _ & Fh & Fl).
  unfold wf_shape. rewrite Fg, Fh, Fl. split; [exact Hg|]. split; [exact Hv|].
  split; [|split; assumption].
  unfold add_one. destruct oc as [c|]; [|exact Hc].
  apply write_composition_comp; [exact Hc|reflexivity].
Qed.

Lemma rem_one_shape L i v : wf_shape L -> wf_shape (rem_one L i v).
Proof.
  intros (Hg & Hv & Hc & Hh & Hn).
  destruct (rem_one_frame L i v) as (_ & Fg & _ & _ & Fh & Fl).
  unfold wf_shape. rewrite Fg, Fh, Fl. split; [exact Hg|]. split; [exact Hv|].
  split; [exact Hc|split; assumption].
Qed.

Lemma vol_at_range L i : vol_inv L -> 0 <= vol_at L i /\ vol_at L i <= lw_max L.
Proof.
  intros (H0 & H1 & HF). unfold vol_at.
  destruct (Nat.lt_ge_cases i (length (lw_vols L))) as [Hi|Hi].
  - apply (Forall_nth_P _ _ 0 i HF Hi).
  - rewrite nth_overflow by exact Hi. split; lra.
Qed.

Lemma add_one_vol_inv L i v oc :
  vol_inv L -> 0 <= v -> Qgtb (Qred (vol_at L i + v)) (lw_max L) = false -> vol_inv (add_one L i v oc).
Proof.
  intros HI Hv Hg. pose proof (vol_at_range L i HI) as [Ha Hb]. destruct HI as (H0 & H1 & HF).
  destruct (add_one_frame L i v oc) as (_ & _ & Fmin & Fmax & _ & _).
  unfold vol_inv. rewrite Fmin, Fmax, add_one_vols. repeat split; try assumption.
  apply Forall_upd; [exact HF|]. apply Qgtb_false in Hg.
  pose proof (Qred_correct (vol_at L i + v)) as Hq. split; lra.
Qed.

Lemma rem_one_vol_inv L i v :
  vol_inv L -> 0 <= v -> Qltb (Qred (vol_at L i - v)) (lw_min L) = false -> vol_inv (rem_one L i v).
Proof.
  intros HI Hv Hg. pose proof (vol_at_range L i HI) as [Ha Hb]. destruct HI as (H0 & H1 & HF).
  unfold vol_inv, rem_one. cbn [lw_min lw_max lw_vols set_vols]. repeat split; try assumption.
  apply Forall_upd; [exact HF|]. apply Qltb_false in Hg.
  pose proof (Qred_correct (vol_at L i - v)) as Hq. split; lra.
Qed.

(* ------------------------------------------------------------------ the loops as derivations *)

Definition aitem := (string * xnum * option composition)%type.

Inductive add_run : labware -> list aitem -> labware -> option err -> Prop :=
| AR_nil L : add_run L [] L None
| AR_unknown L w x oc rest : lw_index L w = None -> add_run L ((w, x, oc) :: rest) L (Some EReject)
| AR_nonfinite L w x oc rest i : lw_index L w = Some i -> (forall v, x <> XQ v) ->
    add_run L ((w, x, oc) :: rest) L (Some EOverflow)
| AR_over L w v oc rest i : lw_index L w = Some i ->
    Qgtb (Qred (vol_at L i + v)) (lw_max L) = true ->
    add_run L ((w, XQ v, oc) :: rest) L (Some EOverflow)
| AR_step L w v oc rest i L' e : lw_index L w = Some i ->
    Qgtb (Qred (vol_at L i + v)) (lw_max L) = false ->
    add_run (add_one L i v oc) rest L' e ->
    add_run L ((w, XQ v, oc) :: rest) L' e.

Lemma add_loop_run items : forall L L' e, add_loop L items = (L', e) -> add_run L items L' e.
Proof.
  induction items as [|[[w x] oc] rest IH]; intros L L' e H.
  - cbn [add_loop] in H. injection H as <- <-. constructor.
  - rewrite add_loop_cons in H. destruct (lw_index L w) as [i|] eqn:Ei.
    + destruct x as [v| | |].
      * destruct (Qgtb (Qred (vol_at L i + v)) (lw_max L)) eqn:Eg.
        -- injection H as <- <-. eapply AR_over; eassumption.
        -- eapply AR_step; [eassumption|exact Eg|]. apply IH. exact H.
      * injection H as <- <-. eapply AR_nonfinite; [eassumption|]. intros v C. discriminate.
      * injection H as <- <-. eapply AR_nonfinite; [eassumption|]. intros v C. discriminate.
      * injection H as <- <-. eapply AR_nonfinite; [eassumption|]. intros v C. discriminate.
    + injection H as <- <-. apply AR_unknown. exact Ei.
Qed.

Lemma add_run_loop L items L' e : add_run L items L' e -> add_loop L items = (L', e).
Proof.
  intro H. induction H as [L|L w x oc rest Hi|L w x oc rest i Hi Hx|L w v oc rest i Hi Hg
                           |L w v oc rest i L' e Hi Hg Hr IH].
  - reflexivity.
  - rewrite add_loop_cons, Hi. reflexivity.
  - rewrite add_loop_cons, Hi. destruct x as [v| | |]; try reflexivity. exfalso. apply (Hx v). reflexivity.
  - rewrite add_loop_cons, Hi, Hg. reflexivity.
  - rewrite add_loop_cons, Hi, Hg. exact IH.
Qed.

Definition ritem := (string * xnum)%type.

Inductive rem_run : labware -> list ritem -> labware -> option err -> Prop :=
| RR_nil L : rem_run L [] L None
| RR_unknown L w x rest : lw_index L w = None -> rem_run L ((w, x) :: rest) L (Some EReject)
| RR_nonfinite L w x rest i : lw_index L w = Some i -> (forall v, x <> XQ v) ->
    rem_run L ((w, x) :: rest) L (Some EUnderflow)
| RR_under L w v rest i : lw_index L w = Some i ->
    Qltb (Qred (vol_at L i - v)) (lw_min L) = true ->
    rem_run L ((w, XQ v) :: rest) L (Some EUnderflow)
| RR_step L w v rest i L' e : lw_index L w = Some i ->
    Qltb (Qred (vol_at L i - v)) (lw_min L) = false ->
    rem_run (rem_one L i v) rest L' e ->
    rem_run L ((w, XQ v) :: rest) L' e.

Lemma remove_loop_run items : forall L L' e, remove_loop L items = (L', e) -> rem_run L items L' e.
Proof.
  induction items as [|[w x] rest IH]; intros L L' e H.
  - cbn [remove_loop] in H. injection H as <- <-. constructor.
  - rewrite remove_loop_cons in H. destruct (lw_index L w) as [i|] eqn:Ei.
    + destruct x as [v| | |].
      * destruct (Qltb (Qred (vol_at L i - v)) (lw_min L)) eqn:Eg.
        -- injection H as <- <-. eapply RR_under; eassumption.
        -- eapply RR_step; [eassumption|exact Eg|]. apply IH. exact H.
      * injection H as <- <-. eapply RR_nonfinite; [eassumption|]. intros v C. discriminate.
      * injection H as <- <-. eapply RR_nonfinite; [eassumption|]. intros v C. discriminate.
      * injection H as <- <-. eapply RR_nonfinite; [eassumption|]. intros v C. discriminate.
    + injection H as <- <-. apply RR_unknown. exact Ei.
Qed.

Lemma rem_run_loop L items L' e : rem_run L items L' e -> remove_loop L items = (L', e).
Proof.
  intro H. induction H as [L|L w x rest Hi|L w x rest i Hi Hx|L w v rest i Hi Hg
                           |L w v rest i L' e Hi Hg Hr IH].
  - reflexivity.
  - rewrite remove_loop_cons, Hi. reflexivity.
  - rewrite remove_loop_cons, Hi. destruct x as [v| | |]; try reflexivity. exfalso. apply (Hx v). reflexivity.
  - rewrite remove_loop_cons, Hi, Hg. reflexivity.
  - rewrite remove_loop_cons, Hi, Hg. exact IH.
Qed.

(* ------------------------------------------------------------------ frame and invariant along the loops *)

Lemma add_run_frame L items L' e : add_run L items L' e -> same_frame L L'.
Proof.
  intro H. induction H as [L|L w x oc rest Hi|L w x oc rest i Hi Hx|L w v oc rest i Hi Hg
                           |L w v oc rest i L' e Hi Hg Hr IH]; try apply same_frame_refl.
  eapply same_frame_trans; [apply add_one_frame|exact IH].
Qed.

Lemma rem_run_frame L items L' e : rem_run L items L' e -> same_frame L L'.
Proof.
  intro H. induction H as [L|L w x rest Hi|L w x rest i Hi Hx|L w v rest i Hi Hg
                           |L w v rest i L' e Hi Hg Hr IH]; try apply same_frame_refl.
  eapply same_frame_trans; [apply rem_one_frame|exact IH].
Qed.

Lemma add_run_shape L items L' e : add_run L items L' e -> wf_shape L -> wf_shape L'.
Proof.
  intro H. induction H as [L|L w x oc rest Hi|L w x oc rest i Hi Hx|L w v oc rest i Hi Hg
                           |L w v oc rest i L' e Hi Hg Hr IH]; intro HS; try exact HS.
  apply IH. apply add_one_shape. exact HS.
Qed.

Lemma rem_run_shape L items L' e : rem_run L items L' e -> wf_shape L -> wf_shape L'.
Proof.
  intro H. induction H as [L|L w x rest Hi|L w x rest i Hi Hx|L w v rest i Hi Hg
                           |L w v rest i L' e Hi Hg Hr IH]; intro HS; try exact HS.
  apply IH. apply rem_one_shape. exact HS.
Qed.

Definition vols_ok_a (items : list aitem) : Prop := Forall (fun it => vol_ok (snd (fst it)) = true) items.
Definition vols_ok_r (items : list ritem) : Prop := Forall (fun it => vol_ok (snd it) = true) items.

Lemma vol_ok_XQ v : vol_ok (XQ v) = true -> 0 <= v.
Proof. cbn [vol_ok]. intro H. apply Qle_bool_iff. exact H. Qed.

Lemma add_run_vol_inv L items L' e : add_run L items L' e -> vols_ok_a items -> vol_inv L -> vol_inv L'.
Proof.
  intro H. induction H as [L|L w x oc rest Hi|L w x oc rest i Hi Hx|L w v oc rest i Hi Hg
                           |L w v oc rest i L' e Hi Hg Hr IH]; intros Hok HI; try exact HI.
  inversion Hok as [|it r Hhd Htl]; subst. cbn [fst snd] in Hhd.
  apply IH; [exact Htl|]. apply add_one_vol_inv; [exact HI|apply vol_ok_XQ; exact Hhd|exact Hg].
Qed.

Lemma rem_run_vol_inv L items L' e : rem_run L items L' e -> vols_ok_r items -> vol_inv L -> vol_inv L'.
Proof.
  intro H. induction H as [L|L w x rest Hi|L w x rest i Hi Hx|L w v rest i Hi Hg
                           |L w v rest i L' e Hi Hg Hr IH]; intros Hok HI; try exact HI.
  inversion Hok as [|it r Hhd Htl]; subst. cbn [fst snd] in Hhd.
  apply IH; [exact Htl|]. apply rem_one_vol_inv; [exact HI|apply vol_ok_XQ; exact Hhd|exact Hg].
Qed.

(* ------------------------------------------------------------------ argument preparation *)

Lemma prep_wells_vols_ok wells vols wv : prep_wells_vols wells vols = Ok wv ->
  let ws := flattenF wells in let vs := broadcast (flattenF vols) (length ws) in
  wv = zip ws vs /\ length vs = length ws /\ Forall (fun x => vol_ok x = true) vs.
Proof.
  unfold prep_wells_vols. intro H.
  destruct (length (broadcast (flattenF vols) (length (flattenF wells))) =? length (flattenF wells))%nat eqn:E1;
    cbn [negb] in H; [|discriminate].
  destruct (forallb vol_ok (broadcast (flattenF vols) (length (flattenF wells)))) eqn:E2;
    cbn [negb] in H; [|discriminate].
  injection H as <-. cbv zeta. split; [reflexivity|]. split.
  - apply Nat.eqb_eq. exact E1.
  - apply Forall_forall. apply forallb_forall. exact E2.
Qed.

Lemma zip_vols_ok (ws : list string) : forall vs, Forall (fun x => vol_ok x = true) vs -> vols_ok_r (zip ws vs).
Proof.
  induction ws as [|w r IH]; intros [|x s] HF; cbn [zip]; try constructor.
  - inversion HF; subst; assumption.
  - apply IH. inversion HF; subst; assumption.
Qed.

Lemma aitems_vols_ok (wv : list ritem) : forall (cs : list (option composition)),
  vols_ok_r wv -> vols_ok_a (map (fun p => (fst (fst p), snd (fst p), snd p)) (zip wv cs)).
Proof.
  induction wv as [|[w x] r IH]; intros [|c cs] HF; cbn [zip map]; try constructor.
  - cbn [fst snd]. inversion HF; subst; assumption.
  - apply IH. inversion HF; subst; assumption.
Qed.

(* ------------------------------------------------------------------ log, condense_log *)

Lemma log_wf L label : wf_labware L -> wf_labware (log L label).
Proof.
  intros [(Hg & Hv & Hc & Hh & Hn) HI]. split; [|exact HI].
  unfold wf_shape, log. cbn [lw_geom lw_vols lw_comp lw_hist set_hist].
  split; [exact Hg|]. split; [exact Hv|]. split; [exact Hc|]. split.
  - apply Forall_app. split; [exact Hh|]. constructor; [exact Hv|constructor].
  - intro C. apply app_eq_nil in C. destruct C as [_ C]. discriminate.
Qed.

Lemma condense_log_wf L n label : wf_labware L -> wf_labware (condense_log L n label).
Proof.
  intros [(Hg & Hv & Hc & Hh & Hn) HI]. unfold condense_log.
  destruct (n <? 1)%nat; [split; [split; [exact Hg|]; split; [exact Hv|]; split; [exact Hc|]; split; assumption|exact HI]|].
  split; [|exact HI].
  unfold wf_shape. cbn [lw_geom lw_vols lw_comp lw_hist set_hist].
  split; [exact Hg|]. split; [exact Hv|]. split; [exact Hc|]. split.
  - apply Forall_app. split.
    + rewrite Forall_forall in *. intros h Hin. apply Hh. eapply firstn_In; exact Hin.
    + constructor; [|constructor]. cbn [snd].
      apply (Forall_nth_P (fun h => length (snd h) = n_wells (lw_geom L))); [exact Hh|].
      destruct (lw_hist L); [congruence|cbn [length]; lia].
  - intro C. apply app_eq_nil in C. destruct C as [_ C]. discriminate.
Qed.

(* ------------------------------------------------------------------ C02: add / remove preserve wf_labware *)

Lemma add_wf L wells vols label comps : wf_labware L -> wf_labware (fst (add L wells vols label comps)).
Proof.
  intro HW. unfold add.
  destruct (prep_wells_vols wells vols) as [wv|e0] eqn:Ep; [|exact HW].
  destruct (prep_wells_vols_ok _ _ _ Ep) as (Hwv & Hlen & Hok).
  destruct (negb _); [exact HW|].
  match goal with |- context [add_loop L ?it] => set (items := it) end.
  destruct (add_loop L items) as [L' [e|]] eqn:El; cbn [fst];
    apply add_loop_run in El;
    assert (HW' : wf_labware L').
  1,3: destruct HW as [HS HI]; split;
       [eapply add_run_shape; eassumption
       |eapply add_run_vol_inv; [exact El| |exact HI];
        subst items; apply aitems_vols_ok; rewrite Hwv; apply zip_vols_ok; exact Hok].
  - exact HW'.
  - apply log_wf. exact HW'.
Qed.

Lemma remove_wf L wells vols label : wf_labware L -> wf_labware (fst (remove L wells vols label)).
Proof.
  intro HW. unfold remove.
  destruct (prep_wells_vols wells vols) as [wv|e0] eqn:Ep; [|exact HW].
  destruct (prep_wells_vols_ok _ _ _ Ep) as (Hwv & Hlen & Hok).
  destruct (remove_loop L wv) as [L' [e|]] eqn:El; cbn [fst];
    apply remove_loop_run in El;
    assert (HW' : wf_labware L').
  1,3: destruct HW as [HS HI]; split;
       [eapply rem_run_shape; eassumption
       |eapply rem_run_vol_inv; [exact El| |exact HI]; rewrite Hwv; apply zip_vols_ok; exact Hok].
  - exact HW'.
  - apply log_wf. exact HW'.
Qed.

(* ------------------------------------------------------------------ C04: the ledger *)

(** one event per (well, volume) pair, in order; [None] if a well is unknown or a volume not finite *)
Fixpoint events_of (L : labware) (wv : list (string * xnum)) : option (list event) :=
  match wv with
  | [] => Some []
  | (w, x) :: r =>
      match lw_index L w, x, events_of L r with
      | Some i, XQ v, Some evs => Some ((i, v) :: evs)
      | _, _, _ => None
      end
  end.

Definition neg_events (evs : list event) : list event := map (fun e => (fst e, - snd e)) evs.

Lemma events_of_geom L1 L2 wv : lw_geom L1 = lw_geom L2 -> events_of L1 wv = events_of L2 wv.
Proof.
  intro H. induction wv as [|[w x] r IH]; cbn [events_of]; [reflexivity|].
  rewrite (lw_index_geom L1 L2 w H), IH. reflexivity.
Qed.

Lemma delta_app evs1 evs2 j : delta (evs1 ++ evs2) j == delta evs1 j + delta evs2 j.
Proof.
  induction evs1 as [|[i v] r IH]; cbn [app delta]; [ring|]. rewrite IH. ring.
Qed.

Lemma delta_neg evs j : delta (neg_events evs) j == - delta evs j.
Proof.
  induction evs as [|[i v] r IH]; cbn [neg_events map delta fst snd]; [ring|].
  fold (neg_events r). rewrite IH. destruct (i =? j)%nat; ring.
Qed.

Lemma delta_notin evs j : (forall i v, In (i, v) evs -> i <> j) -> delta evs j = 0.
Proof.
  induction evs as [|[i v] r IH]; intro H; cbn [delta]; [reflexivity|].
  destruct (Nat.eqb_spec i j) as [E|E].
  - exfalso. apply (H i v); [left; reflexivity|exact E].
  - rewrite IH; [reflexivity|]. intros i' v' Hin. apply (H i' v'). right. exact Hin.
Qed.

Lemma vol_at_add_one L i v oc j : (i < length (lw_vols L))%nat ->
  vol_at (add_one L i v oc) j == vol_at L j + (if (i =? j)%nat then v else 0).
Proof.
  intro Hi. unfold vol_at at 1. rewrite add_one_vols.
  destruct (Nat.eqb_spec i j) as [<-|Hne].
  - rewrite nth_upd_same by exact Hi. rewrite Qred_correct. reflexivity.
  - rewrite nth_upd_other by exact Hne. unfold vol_at. ring.
Qed.

Lemma vol_at_rem_one L i v j : (i < length (lw_vols L))%nat ->
  vol_at (rem_one L i v) j == vol_at L j + (if (i =? j)%nat then - v else 0).
Proof.
  intro Hi. unfold vol_at at 1, rem_one. cbn [lw_vols set_vols].
  destruct (Nat.eqb_spec i j) as [<-|Hne].
  - rewrite nth_upd_same by exact Hi. rewrite Qred_correct. ring.
  - rewrite nth_upd_other by exact Hne. unfold vol_at. ring.
Qed.

Lemma add_run_ledger L items L' e : add_run L items L' e -> e = None -> shape0 L ->
  exists evs, events_of L (map fst items) = Some evs /\
    forall j, vol_at L' j == vol_at L j + delta evs j.
Proof.
  intro H. induction H as [L|L w x oc rest Hi|L w x oc rest i Hi Hx|L w v oc rest i Hi Hg
                           |L w v oc rest i L' e Hi Hg Hr IH]; intros He HS; try discriminate.
  - exists []. split; [reflexivity|]. intro j. cbn [delta]. ring.
  - destruct (IH He (shape0_frame _ _ (add_one_frame L i v oc) HS)) as (evs & Hev & HJ).
    exists ((i, v) :: evs). split.
    + cbn [map fst events_of]. rewrite Hi.
      destruct (add_one_frame L i v oc) as (_ & Fg & _).
      rewrite <- (events_of_geom _ _ _ Fg), Hev. reflexivity.
    + intro j. rewrite HJ. rewrite vol_at_add_one by (eapply lw_index_bound; eassumption).
      cbn [delta]. ring.
Qed.

Lemma rem_run_ledger L items L' e : rem_run L items L' e -> e = None -> shape0 L ->
  exists evs, events_of L items = Some evs /\
    forall j, vol_at L' j == vol_at L j + delta (neg_events evs) j.
Proof.
  intro H. induction H as [L|L w x rest Hi|L w x rest i Hi Hx|L w v rest i Hi Hg
                           |L w v rest i L' e Hi Hg Hr IH]; intros He HS; try discriminate.
  - exists []. split; [reflexivity|]. intro j. cbn [neg_events map delta]. ring.
  - destruct (IH He (shape0_frame _ _ (rem_one_frame L i v) HS)) as (evs & Hev & HJ).
    exists ((i, v) :: evs). split.
    + cbn [events_of]. rewrite Hi.
      destruct (rem_one_frame L i v) as (_ & Fg & _).
      rewrite <- (events_of_geom _ _ _ Fg), Hev. reflexivity.
    + intro j. rewrite HJ. rewrite vol_at_rem_one by (eapply lw_index_bound; eassumption).
      change (neg_events ((i, v) :: evs)) with ((i, - v) :: neg_events evs). cbn [delta]. ring.
Qed.

Lemma map_fst_aitems (wv : list ritem) : forall (cs : list (option composition)),
  length cs = length wv ->
  map fst (map (fun p : ritem * option composition => (fst (fst p), snd (fst p), snd p)) (zip wv cs)) = wv.
Proof.
  induction wv as [|[w x] r IH]; intros [|c cs] H; cbn [zip map length fst snd] in *; try lia; try reflexivity.
  rewrite IH by lia. reflexivity.
Qed.

(** what an accepted [add] is, in terms of the loop *)
Lemma add_accepted L wells vols label comps L' :
  add L wells vols label comps = (L', None) ->
  exists items L1,
    map fst items = zip (flattenF wells) (broadcast (flattenF vols) (length (flattenF wells))) /\
    length (broadcast (flattenF vols) (length (flattenF wells))) = length (flattenF wells) /\
    vols_ok_a items /\ add_run L items L1 None /\ L' = log L1 label.
Proof.
  unfold add. intro H.
  destruct (prep_wells_vols wells vols) as [wv|e0] eqn:Ep; [|discriminate].
  destruct (prep_wells_vols_ok _ _ _ Ep) as (Hwv & Hlen & Hok).
  match type of H with context [negb ?b] => destruct b eqn:Ec end; cbn [negb] in H; [|discriminate].
  apply Nat.eqb_eq in Ec.
  match type of H with context [add_loop L ?it] => set (items := it) in * end.
  destruct (add_loop L items) as [L1 [e|]] eqn:El; [discriminate|].
  injection H as <-. exists items, L1. split; [|split; [exact Hlen|split; [|split; [|reflexivity]]]].
  - subst items. rewrite map_fst_aitems by exact Ec. exact Hwv.
  - subst items. apply aitems_vols_ok. rewrite Hwv. apply zip_vols_ok. exact Hok.
  - apply add_loop_run. exact El.
Qed.

Lemma remove_accepted L wells vols label L' :
  remove L wells vols label = (L', None) ->
  exists L1,
    let wv := zip (flattenF wells) (broadcast (flattenF vols) (length (flattenF wells))) in
    length (broadcast (flattenF vols) (length (flattenF wells))) = length (flattenF wells) /\
    vols_ok_r wv /\ rem_run L wv L1 None /\ L' = log L1 label.
Proof.
  unfold remove. intro H.
  destruct (prep_wells_vols wells vols) as [wv|e0] eqn:Ep; [|discriminate].
  destruct (prep_wells_vols_ok _ _ _ Ep) as (Hwv & Hlen & Hok).
  destruct (remove_loop L wv) as [L1 [e|]] eqn:El; [discriminate|].
  injection H as <-. exists L1. cbv zeta. rewrite <- Hwv.
  split; [exact Hlen|]. split; [rewrite Hwv; apply zip_vols_ok; exact Hok|].
  split; [apply remove_loop_run; exact El|reflexivity].
Qed.

Lemma add_ledger L wells vols label comps L' :
  add L wells vols label comps = (L', None) -> wf_shape L ->
  exists evs,
    events_of L (zip (flattenF wells) (broadcast (flattenF vols) (length (flattenF wells)))) = Some evs /\
    length (lw_vols L') = length (lw_vols L) /\
    forall j, nth j (lw_vols L') 0 == nth j (lw_vols L) 0 + delta evs j.
Proof.
  intros H HS. destruct (add_accepted _ _ _ _ _ _ H) as (items & L1 & Hmap & Hlen & Hok & Hrun & ->).
  destruct (add_run_ledger _ _ _ _ Hrun eq_refl (wf_shape_shape0 _ HS)) as (evs & Hev & HJ).
  exists evs. rewrite <- Hmap. split; [exact Hev|]. split.
  - destruct (add_run_frame _ _ _ _ Hrun) as (_ & _ & _ & _ & _ & Hl). exact Hl.
  - exact HJ.
Qed.

Lemma remove_ledger L wells vols label L' :
  remove L wells vols label = (L', None) -> wf_shape L ->
  exists evs,
    events_of L (zip (flattenF wells) (broadcast (flattenF vols) (length (flattenF wells)))) = Some evs /\
    length (lw_vols L') = length (lw_vols L) /\
    forall j, nth j (lw_vols L') 0 == nth j (lw_vols L) 0 + delta (neg_events evs) j.
Proof.
  intros H HS. destruct (remove_accepted _ _ _ _ _ H) as (L1 & Hlen & Hok & Hrun & ->).
  destruct (rem_run_ledger _ _ _ _ Hrun eq_refl (wf_shape_shape0 _ HS)) as (evs & Hev & HJ).
  exists evs. split; [exact Hev|]. split.
  - destruct (rem_run_frame _ _ _ _ Hrun) as (_ & _ & _ & _ & _ & Hl). exact Hl.
  - exact HJ.
Qed.

(** frame: a well that is not addressed keeps its volume (Leibniz), accepted or not *)
Lemma add_run_untouched L items L' e j : add_run L items L' e ->
  (forall it, In it items -> lw_index L (fst (fst it)) <> Some j) ->
  nth j (lw_vols L') 0 = nth j (lw_vols L) 0.
Proof.
  intro H. induction H as [L|L w x oc rest Hi|L w x oc rest i Hi Hx|L w v oc rest i Hi Hg
                           |L w v oc rest i L' e Hi Hg Hr IH]; intro Hn; try reflexivity.
  rewrite IH.
  - rewrite add_one_vols. apply nth_upd_other. intro C. subst i.
    apply (Hn (w, XQ v, oc)); [left; reflexivity|exact Hi].
  - intros it Hin. destruct (add_one_frame L i v oc) as (_ & Fg & _).
    rewrite (lw_index_geom _ _ _ Fg). apply Hn. right. exact Hin.
Qed.

Lemma rem_run_untouched L items L' e j : rem_run L items L' e ->
  (forall it, In it items -> lw_index L (fst it) <> Some j) ->
  nth j (lw_vols L') 0 = nth j (lw_vols L) 0.
Proof.
  intro H. induction H as [L|L w x rest Hi|L w x rest i Hi Hx|L w v rest i Hi Hg
                           |L w v rest i L' e Hi Hg Hr IH]; intro Hn; try reflexivity.
  rewrite IH.
  - unfold rem_one. cbn [lw_vols set_vols]. apply nth_upd_other. intro C. subst i.
    apply (Hn (w, XQ v)); [left; reflexivity|exact Hi].
  - intros it Hin. destruct (rem_one_frame L i v) as (_ & Fg & _).
    rewrite (lw_index_geom _ _ _ Fg). apply Hn. right. exact Hin.
Qed.

Lemma aitems_In (wv : list ritem) : forall (cs : list (option composition)) it,
  In it (map (fun p : ritem * option composition => (fst (fst p), snd (fst p), snd p)) (zip wv cs)) ->
  In (fst it) wv.
Proof.
  induction wv as [|[w x] r IH]; intros [|c cs] it H; cbn [zip map In fst snd] in *; try contradiction.
  destruct H as [<-|H]; [left; reflexivity|right; eapply IH; exact H].
Qed.

Lemma add_frame L wells vols label comps j :
  (forall w, In w (flattenF wells) -> lw_index L w <> Some j) ->
  nth j (lw_vols (fst (add L wells vols label comps))) 0 = nth j (lw_vols L) 0.
Proof.
  intro Hn. unfold add.
  destruct (prep_wells_vols wells vols) as [wv|e0] eqn:Ep; [|reflexivity].
  destruct (prep_wells_vols_ok _ _ _ Ep) as (Hwv & Hlen & Hok).
  destruct (negb _); [reflexivity|].
  match goal with |- context [add_loop L ?it] => set (items := it) end.
  assert (Hit : forall it, In it items -> lw_index L (fst (fst it)) <> Some j).
  { intros it Hin. apply Hn. subst items. apply aitems_In in Hin. rewrite Hwv in Hin.
    destruct (fst it) as [w x] eqn:Eit. cbn [fst]. apply zip_In in Hin. apply Hin. }
  destruct (add_loop L items) as [L' [e|]] eqn:El; cbn [fst]; apply add_loop_run in El;
    apply (add_run_untouched _ _ _ _ j El Hit).
Qed.

Lemma remove_frame L wells vols label j :
  (forall w, In w (flattenF wells) -> lw_index L w <> Some j) ->
  nth j (lw_vols (fst (remove L wells vols label))) 0 = nth j (lw_vols L) 0.
Proof.
  intro Hn. unfold remove.
  destruct (prep_wells_vols wells vols) as [wv|e0] eqn:Ep; [|reflexivity].
  destruct (prep_wells_vols_ok _ _ _ Ep) as (Hwv & Hlen & Hok).
  assert (Hit : forall it, In it wv -> lw_index L (fst it) <> Some j).
  { intros [w x] Hin. apply Hn. rewrite Hwv in Hin. cbn [fst]. apply zip_In in Hin. apply Hin. }
  destruct (remove_loop L wv) as [L' [e|]] eqn:El; cbn [fst]; apply remove_loop_run in El;
    apply (rem_run_untouched _ _ _ _ j El Hit).
Qed.

(* ------------------------------------------------------------------ C02: program states *)

Lemma add_wf' L wells vols label comps L' e :
  add L wells vols label comps = (L', e) -> wf_labware L -> wf_labware L'.
Proof. intros H HW. pose proof (add_wf L wells vols label comps HW) as H1. rewrite H in H1. exact H1. Qed.

Lemma remove_wf' L wells vols label L' e :
  remove L wells vols label = (L', e) -> wf_labware L -> wf_labware L'.
Proof. intros H HW. pose proof (remove_wf L wells vols label HW) as H1. rewrite H in H1. exact H1. Qed.

Lemma wf_set_lw s k L : wf_state s -> wf_labware L -> wf_state (set_lw s k L).
Proof. intros HS HL. unfold wf_state, set_lw. cbn [st_lw]. apply Forall_upd; assumption. Qed.

Lemma wf_set_wl s w : wf_state s -> wf_state (set_wl s w).
Proof. intro HS. exact HS. Qed.

Lemma wf_nth s k L : wf_state s -> nth_error (st_lw s) k = Some L -> wf_labware L.
Proof. intros HS H. eapply Forall_nth_error; eassumption. Qed.

Lemma wf_condense_at s k n label : wf_state s -> wf_state (condense_at s k n label).
Proof.
  intro HS. unfold condense_at. destruct (nth_error (st_lw s) k) as [L|] eqn:E; [|exact HS].
  apply wf_set_lw; [exact HS|]. apply condense_log_wf. eapply wf_nth; eassumption.
Qed.

(** destruct the scrutinee of some [match] of the goal *)
Ltac dmatch :=
  match goal with
  | |- context [match ?x with _ => _ end] => destruct x eqn:?
  end.

Ltac wfs := repeat first [assumption | apply wf_set_wl | apply wf_set_lw | apply wf_condense_at].

Ltac fresh_fact P := lazymatch goal with _ : P |- _ => fail | _ => idtac end.

(** saturate the context with the well-formedness facts that follow from equations on model calls *)
Ltac sat_lw :=
  repeat match goal with
  | H : nth_error (st_lw ?s) ?k = Some ?L |- _ =>
      fresh_fact (wf_labware L);
      assert (wf_labware L) by (apply (wf_nth s k L); [wfs|exact H])
  | H : remove ?L _ _ _ = (?L', _) |- _ =>
      fresh_fact (wf_labware L');
      assert (wf_labware L') by (apply (remove_wf' _ _ _ _ _ _ H); assumption)
  | H : add ?L _ _ _ _ = (?L', _) |- _ =>
      fresh_fact (wf_labware L');
      assert (wf_labware L') by (apply (add_wf' _ _ _ _ _ _ _ H); assumption)
  end.

Lemma aspirate_wf s k wells vols label kw : wf_state s -> wf_state (fst (aspirate s k wells vols label kw)).
Proof.
  intro HS. unfold aspirate, wells_vols. cbv beta iota zeta.
  repeat dmatch; cbn [fst]; sat_lw; wfs.
Qed.

Lemma dispense_wf s k wells vols label comps kw :
  wf_state s -> wf_state (fst (dispense s k wells vols label comps kw)).
Proof.
  intro HS. unfold dispense, wells_vols. cbv beta iota zeta.
  repeat dmatch; cbn [fst]; sat_lw; wfs.
Qed.

Lemma exec_step_wf s ks kd sw dw v ws kw : wf_state s -> wf_state (fst (exec_step s ks kd sw dw v ws kw)).
Proof.
  intro HS. unfold exec_step.
  pose proof (aspirate_wf s ks (A0 sw) (A0 (XQ v)) None kw HS) as H1.
  destruct (aspirate s ks (A0 sw) (A0 (XQ v)) None kw) as [s1 [e1|]]; cbn [fst] in *; [exact H1|].
  destruct (nth_error (st_lw s1) ks) as [Ls|]; [|exact H1].
  destruct (get_well_composition Ls sw) as [c|e2]; [|exact H1].
  pose proof (dispense_wf s1 kd (A0 dw) (A0 (XQ v)) None (Some [Some c]) kw H1) as H2.
  destruct (dispense s1 kd (A0 dw) (A0 (XQ v)) None (Some [Some c]) kw) as [s2 [e3|]]; cbn [fst] in *;
    [exact H2|].
  destruct (tip_action (st_wl s2) ws) as [w e4]. cbn [fst]. apply wf_set_wl. exact H2.
Qed.

Lemma exec_wf acts : forall s ks kd ws kw, wf_state s -> wf_state (fst (exec s ks kd acts ws kw)).
Proof.
  induction acts as [|a rest IH]; intros s ks kd ws kw HS; cbn [exec]; [exact HS|].
  destruct a as [sw dw v|].
  - pose proof (exec_step_wf s ks kd sw dw v ws kw HS) as H1.
    destruct (exec_step s ks kd sw dw v ws kw) as [s1 [e1|]]; cbn [fst] in *; [exact H1|].
    apply IH. exact H1.
  - apply IH. apply wf_set_wl. exact HS.
Qed.

Lemma exec_wf' s ks kd acts ws kw s' e : exec s ks kd acts ws kw = (s', e) -> wf_state s -> wf_state s'.
Proof. intros H HS. pose proof (exec_wf acts s ks kd ws kw HS) as H1. rewrite H in H1. exact H1. Qed.

Lemma transfer_wf s ks sw kd dw vols label ws pb kw :
  wf_state s -> wf_state (fst (transfer s ks sw kd dw vols label ws pb kw)).
Proof.
  intro HS. unfold transfer. cbv beta iota zeta.
  repeat dmatch; cbn [fst]; try exact HS;
    try (match goal with H : exec _ _ _ _ _ _ = (?s', _) |- _ =>
           assert (wf_state s') by (apply (exec_wf' _ _ _ _ _ _ _ _ H); wfs) end);
    wfs.
Qed.

Lemma distribute_wf s ks kd dwells a : wf_state s -> wf_state (fst (distribute s ks kd dwells a)).
Proof.
  intro HS. unfold distribute. cbv beta iota zeta.
  repeat dmatch; cbn [fst]; try exact HS; sat_lw; wfs.
Qed.

Lemma evo_aspirate_wf s k a label : wf_state s -> wf_state (fst (evo_aspirate s k a label)).
Proof.
  intro HS. unfold evo_aspirate, wells_vols. cbv beta iota zeta.
  repeat dmatch; cbn [fst]; sat_lw; wfs.
Qed.

Lemma evo_dispense_wf s k a label comps : wf_state s -> wf_state (fst (evo_dispense s k a label comps)).
Proof.
  intro HS. unfold evo_dispense, wells_vols. cbv beta iota zeta.
  repeat dmatch; cbn [fst]; sat_lw; wfs.
Qed.

Lemma evo_wash_wf s a : wf_state s -> wf_state (fst (evo_wash s a)).
Proof. intro HS. unfold evo_wash. destruct (evo_wash_cmd a) as [cmd|e]; cbn [fst]; wfs. Qed.

Lemma on_wl_wf s f : wf_state s -> wf_state (fst (on_wl s f)).
Proof. intro HS. unfold on_wl. destruct (f (st_wl s)) as [w e]. cbn [fst]. wfs. Qed.

Lemma on_lw_wf s k f : (forall L, wf_labware L -> wf_labware (fst (f L))) ->
  wf_state s -> wf_state (fst (on_lw s k f)).
Proof.
  intros Hf HS. unfold on_lw. destruct (nth_error (st_lw s) k) as [L|] eqn:E; [|exact HS].
  pose proof (Hf L (wf_nth _ _ _ HS E)) as H1. destruct (f L) as [L' e]. cbn [fst] in *. wfs.
Qed.

Lemma step_wf s o : wf_state s -> wf_state (fst (step s o)).
Proof.
  intro HS. destruct o; cbn [step]; try (apply on_wl_wf; exact HS).
  - apply on_lw_wf; [|exact HS]. intros L HL. apply add_wf. exact HL.
  - apply on_lw_wf; [|exact HS]. intros L HL. apply remove_wf. exact HL.
  - apply on_lw_wf; [|exact HS]. intros L HL. cbn [fst]. apply condense_log_wf. exact HL.
  - apply aspirate_wf. exact HS.
  - apply dispense_wf. exact HS.
  - apply transfer_wf. exact HS.
  - apply distribute_wf. exact HS.
  - destruct (w_dev (st_wl s)); try exact HS. apply evo_aspirate_wf. exact HS.
  - destruct (w_dev (st_wl s)); try exact HS. apply evo_dispense_wf. exact HS.
  - destruct (w_dev (st_wl s)); try exact HS. apply evo_wash_wf. exact HS.
Qed.

Lemma run_wf ops : forall s, wf_state s -> wf_state (fst (run s ops)).
Proof.
  induction ops as [|o r IH]; intros s HS; cbn [run]; [exact HS|].
  pose proof (step_wf s o HS) as H1. destruct (step s o) as [s1 e]. cbn [fst] in H1.
  pose proof (IH s1 H1) as H2. destruct (run s1 r) as [s2 es]. exact H2.
Qed.

(* ------------------------------------------------------------------ C02: post-conditions of accepted calls *)

Lemma add_run_indexed L items L' e : add_run L items L' e -> e = None ->
  forall it, In it items -> exists i, lw_index L (fst (fst it)) = Some i.
Proof.
  intro H. induction H as [L|L w x oc rest Hi|L w x oc rest i Hi Hx|L w v oc rest i Hi Hg
                           |L w v oc rest i L' e Hi Hg Hr IH]; intros He it Hin; try discriminate.
  - contradiction.
  - destruct Hin as [<-|Hin]; [exists i; exact Hi|].
    destruct (add_one_frame L i v oc) as (_ & Fg & _).
    rewrite <- (lw_index_geom _ _ _ Fg). apply IH; assumption.
Qed.

Lemma log_fields L label :
  lw_geom (log L label) = lw_geom L /\ lw_min (log L label) = lw_min L /\
  lw_max (log L label) = lw_max L /\ lw_vols (log L label) = lw_vols L.
Proof. repeat split. Qed.

Lemma add_post L wells vols label comps L' :
  add L wells vols label comps = (L', None) -> wf_labware L ->
  lw_geom L' = lw_geom L /\ lw_min L' = lw_min L /\ lw_max L' = lw_max L /\
  forall w, In w (flattenF wells) ->
    exists i, lw_index L' w = Some i /\ (i < length (lw_vols L'))%nat /\
              0 <= vol_at L' i /\ vol_at L' i <= lw_max L'.
Proof.
  intros H HW. pose proof (add_wf' _ _ _ _ _ _ _ H HW) as HW'.
  destruct (add_accepted _ _ _ _ _ _ H) as (items & L1 & Hmap & Hlen & Hok & Hrun & ->).
  destruct (add_run_frame _ _ _ _ Hrun) as (_ & Fg & Fmin & Fmax & _ & Fl).
  split; [exact Fg|]. split; [exact Fmin|]. split; [exact Fmax|].
  intros w Hw. destruct (zip_In_l _ _ w Hlen Hw) as [x Hx]. rewrite <- Hmap in Hx.
  apply in_map_iff in Hx. destruct Hx as (it & Hit & Hin).
  destruct (add_run_indexed _ _ _ _ Hrun eq_refl it Hin) as [i Hi]. rewrite Hit in Hi. cbn [fst] in Hi.
  exists i. assert (Hgeom : lw_geom (log L1 label) = lw_geom L) by exact Fg.
  rewrite (lw_index_geom _ _ w Hgeom). split; [exact Hi|].
  destruct HW' as [HS' HI']. split.
  - apply (lw_index_bound _ w); [apply wf_shape_shape0; exact HS'|].
    rewrite (lw_index_geom _ _ w Hgeom). exact Hi.
  - apply vol_at_range. exact HI'.
Qed.

(** a well at or above the minimum stays there during a removal (updated wells are checked) *)
Lemma rem_run_ge L items L' e : rem_run L items L' e -> shape0 L ->
  forall j, lw_min L <= vol_at L j -> lw_min L <= vol_at L' j.
Proof.
  intro H. induction H as [L|L w x rest Hi|L w x rest i Hi Hx|L w v rest i Hi Hg
                           |L w v rest i L' e Hi Hg Hr IH]; intros HS j Hj; try exact Hj.
  apply (IH (shape0_frame _ _ (rem_one_frame L i v) HS)).
  unfold vol_at, rem_one. cbn [lw_vols lw_min set_vols].
  destruct (Nat.eq_dec i j) as [<-|Hne].
  - rewrite nth_upd_same by (eapply lw_index_bound; eassumption). apply Qltb_false. exact Hg.
  - rewrite nth_upd_other by exact Hne. exact Hj.
Qed.

Lemma rem_run_post L items L' e : rem_run L items L' e -> e = None -> shape0 L ->
  forall it, In it items -> exists i, lw_index L (fst it) = Some i /\ lw_min L <= vol_at L' i.
Proof.
  intro H. induction H as [L|L w x rest Hi|L w x rest i Hi Hx|L w v rest i Hi Hg
                           |L w v rest i L' e Hi Hg Hr IH]; intros He HS it Hin; try discriminate.
  - contradiction.
  - pose proof (shape0_frame _ _ (rem_one_frame L i v) HS) as HS1.
    destruct Hin as [<-|Hin].
    + exists i. split; [exact Hi|].
      apply (rem_run_ge _ _ _ _ Hr HS1 i).
      unfold vol_at, rem_one. cbn [lw_vols lw_min set_vols].
      rewrite nth_upd_same by (eapply lw_index_bound; eassumption). apply Qltb_false. exact Hg.
    + destruct (IH He HS1 it Hin) as (i' & Hi' & Hge). exists i'. split; assumption.
Qed.

Lemma remove_post L wells vols label L' :
  remove L wells vols label = (L', None) -> wf_labware L ->
  lw_geom L' = lw_geom L /\ lw_min L' = lw_min L /\ lw_max L' = lw_max L /\
  forall w, In w (flattenF wells) ->
    exists i, lw_index L' w = Some i /\ (i < length (lw_vols L'))%nat /\
              lw_min L <= vol_at L' i /\ vol_at L' i <= lw_max L.
Proof.
  intros H HW. pose proof (remove_wf' _ _ _ _ _ _ H HW) as HW'.
  destruct (remove_accepted _ _ _ _ _ H) as (L1 & Hlen & Hok & Hrun & ->).
  destruct (rem_run_frame _ _ _ _ Hrun) as (_ & Fg & Fmin & Fmax & _ & Fl).
  split; [exact Fg|]. split; [exact Fmin|]. split; [exact Fmax|].
  intros w Hw. destruct (zip_In_l _ _ w Hlen Hw) as [x Hx].
  destruct HW as [HS HI].
  destruct (rem_run_post _ _ _ _ Hrun eq_refl (wf_shape_shape0 _ HS) _ Hx) as (i & Hi & Hge).
  cbn [fst] in Hi. exists i.
  assert (Hgeom : lw_geom (log L1 label) = lw_geom L) by exact Fg.
  rewrite (lw_index_geom _ _ w Hgeom). split; [exact Hi|].
  destruct HW' as [HS' HI']. split; [|split].
  - apply (lw_index_bound _ w); [apply wf_shape_shape0; exact HS'|].
    rewrite (lw_index_geom _ _ w Hgeom). exact Hi.
  - exact Hge.
  - pose proof (vol_at_range _ i HI') as [_ Hb].
    assert (Hm : lw_max (log L1 label) = lw_max L) by exact Fmax. rewrite Hm in Hb. exact Hb.
Qed.

(* ------------------------------------------------------------------ C02: exact error conditions *)

Lemma add_loop_app a : forall L b,
  add_loop L (a ++ b) = match add_loop L a with (L1, None) => add_loop L1 b | r => r end.
Proof.
  induction a as [|[[w x] oc] rest IH]; intros L b; [reflexivity|].
  rewrite <- app_comm_cons, !add_loop_cons.
  destruct (lw_index L w) as [i|]; [|reflexivity].
  destruct x as [v| | |]; try reflexivity.
  destruct (Qgtb (Qred (vol_at L i + v)) (lw_max L)); [reflexivity|]. apply IH.
Qed.

Lemma remove_loop_app a : forall L b,
  remove_loop L (a ++ b) = match remove_loop L a with (L1, None) => remove_loop L1 b | r => r end.
Proof.
  induction a as [|[w x] rest IH]; intros L b; [reflexivity|].
  rewrite <- app_comm_cons, !remove_loop_cons.
  destruct (lw_index L w) as [i|]; [|reflexivity].
  destruct x as [v| | |]; try reflexivity.
  destruct (Qltb (Qred (vol_at L i - v)) (lw_min L)); [reflexivity|]. apply IH.
Qed.

(** overflow, all inputs: the offending element is the first one whose volume is not finite or does
    not fit; [L'] is the state reached by the accepted prefix *)
Lemma add_loop_overflow_general L items L' :
  add_loop L items = (L', Some EOverflow) <->
  exists pre w x oc post i,
    items = (pre ++ (w, x, oc) :: post)%list /\ add_loop L pre = (L', None) /\
    lw_index L' w = Some i /\
    match x with XQ v => lw_max L < vol_at L' i + v | _ => True end.
Proof.
  split.
  - intro H. apply add_loop_run in H. remember (Some EOverflow) as e eqn:He.
    induction H as [L|L w x oc rest Hi|L w x oc rest i Hi Hx|L w v oc rest i Hi Hg
                    |L w v oc rest i L' e Hi Hg Hr IH]; try discriminate.
    + exists [], w, x, oc, rest, i. split; [reflexivity|]. split; [reflexivity|]. split; [exact Hi|].
      destruct x as [v| | |]; try exact I. exfalso. apply (Hx v). reflexivity.
    + exists [], w, (XQ v), oc, rest, i. split; [reflexivity|]. split; [reflexivity|]. split; [exact Hi|].
      apply Qgtb_true in Hg. pose proof (Qred_correct (vol_at L i + v)) as Hq. lra.
    + destruct (IH He) as (pre & w' & x' & oc' & post & i' & Hit & Hpre & Hi' & Hx').
      exists ((w, XQ v, oc) :: pre), w', x', oc', post, i'. split; [rewrite Hit; reflexivity|].
      split; [rewrite add_loop_cons, Hi, Hg; exact Hpre|]. split; [exact Hi'|].
      destruct (add_one_frame L i v oc) as (_ & _ & _ & Fmax & _). rewrite Fmax in Hx'. exact Hx'.
  - intros (pre & w & x & oc & post & i & Hit & Hpre & Hi & Hx). subst items.
    rewrite add_loop_app, Hpre, add_loop_cons, Hi.
    destruct x as [v| | |]; try reflexivity.
    apply add_loop_run, add_run_frame in Hpre. destruct Hpre as (_ & _ & _ & Fmax & _).
    rewrite Qgtb_true_intro; [reflexivity|].
    pose proof (Qred_correct (vol_at L' i + v)) as Hq. rewrite Fmax. lra.
Qed.

Lemma vol_ok_cases x : vol_ok x = true -> x = XPInf \/ exists v, x = XQ v /\ 0 <= v.
Proof.
  destruct x as [v| | |]; intro H; try discriminate.
  - right. exists v. split; [reflexivity|apply vol_ok_XQ; exact H].
  - left. reflexivity.
Qed.

Lemma vol_ok_false_cases x : vol_ok x = false <-> x = XNaN \/ x = XNInf \/ exists v, x = XQ v /\ v < 0.
Proof.
  split.
  - destruct x as [v| | |]; intro H; try discriminate; auto.
    right. right. exists v. split; [reflexivity|]. cbn [vol_ok] in H.
    apply Qnot_le_lt. intro C. apply Qle_bool_iff in C. congruence.
  - intros [->|[->|(v & -> & Hv)]]; try reflexivity. cbn [vol_ok].
    destruct (Qle_bool 0 v) eqn:E; [|reflexivity]. apply Qle_bool_iff in E. lra.
Qed.

(** overflow for validated volumes (what [add] passes to the loop): the wanted statement *)
Lemma add_loop_overflow_exact L items L' : vols_ok_a items ->
  (add_loop L items = (L', Some EOverflow) <->
   exists pre w x oc post i,
     items = (pre ++ (w, x, oc) :: post)%list /\ add_loop L pre = (L', None) /\
     lw_index L' w = Some i /\
     (x = XPInf \/ exists v, x = XQ v /\ lw_max L < vol_at L' i + v)).
Proof.
  intro Hok. rewrite add_loop_overflow_general. split.
  - intros (pre & w & x & oc & post & i & Hit & Hpre & Hi & Hx).
    exists pre, w, x, oc, post, i. split; [exact Hit|]. split; [exact Hpre|]. split; [exact Hi|].
    assert (Hvx : vol_ok x = true).
    { unfold vols_ok_a in Hok. rewrite Forall_forall in Hok.
      apply (Hok (w, x, oc)). rewrite Hit. apply in_elt. }
    destruct (vol_ok_cases x Hvx) as [->|(v & -> & Hv)]; [left; reflexivity|].
    right. exists v. split; [reflexivity|exact Hx].
  - intros (pre & w & x & oc & post & i & Hit & Hpre & Hi & Hx).
    exists pre, w, x, oc, post, i. split; [exact Hit|]. split; [exact Hpre|]. split; [exact Hi|].
    destruct Hx as [->|(v & -> & Hv)]; [exact I|exact Hv].
Qed.

Lemma remove_loop_underflow_general L items L' :
  remove_loop L items = (L', Some EUnderflow) <->
  exists pre w x post i,
    items = (pre ++ (w, x) :: post)%list /\ remove_loop L pre = (L', None) /\
    lw_index L' w = Some i /\
    match x with XQ v => vol_at L' i - v < lw_min L | _ => True end.
Proof.
  split.
  - intro H. apply remove_loop_run in H. remember (Some EUnderflow) as e eqn:He.
    induction H as [L|L w x rest Hi|L w x rest i Hi Hx|L w v rest i Hi Hg
                    |L w v rest i L' e Hi Hg Hr IH]; try discriminate.
    + exists [], w, x, rest, i. split; [reflexivity|]. split; [reflexivity|]. split; [exact Hi|].
      destruct x as [v| | |]; try exact I. exfalso. apply (Hx v). reflexivity.
    + exists [], w, (XQ v), rest, i. split; [reflexivity|]. split; [reflexivity|]. split; [exact Hi|].
      apply Qltb_true in Hg. pose proof (Qred_correct (vol_at L i - v)) as Hq. lra.
    + destruct (IH He) as (pre & w' & x' & post & i' & Hit & Hpre & Hi' & Hx').
      exists ((w, XQ v) :: pre), w', x', post, i'. split; [rewrite Hit; reflexivity|].
      split; [rewrite remove_loop_cons, Hi, Hg; exact Hpre|]. split; [exact Hi'|]. exact Hx'.
  - intros (pre & w & x & post & i & Hit & Hpre & Hi & Hx). subst items.
    rewrite remove_loop_app, Hpre, remove_loop_cons, Hi.
    destruct x as [v| | |]; try reflexivity.
    apply remove_loop_run, rem_run_frame in Hpre. destruct Hpre as (_ & _ & Fmin & _).
    rewrite Qltb_true_intro; [reflexivity|].
    pose proof (Qred_correct (vol_at L' i - v)) as Hq. rewrite Fmin. lra.
Qed.

Lemma remove_loop_underflow_exact L items L' : vols_ok_r items ->
  (remove_loop L items = (L', Some EUnderflow) <->
   exists pre w x post i,
     items = (pre ++ (w, x) :: post)%list /\ remove_loop L pre = (L', None) /\
     lw_index L' w = Some i /\
     (x = XPInf \/ exists v, x = XQ v /\ vol_at L' i - v < lw_min L)).
Proof.
  intro Hok. rewrite remove_loop_underflow_general. split.
  - intros (pre & w & x & post & i & Hit & Hpre & Hi & Hx).
    exists pre, w, x, post, i. split; [exact Hit|]. split; [exact Hpre|]. split; [exact Hi|].
    assert (Hvx : vol_ok x = true).
    { unfold vols_ok_r in Hok. rewrite Forall_forall in Hok.
      apply (Hok (w, x)). rewrite Hit. apply in_elt. }
    destruct (vol_ok_cases x Hvx) as [->|(v & -> & Hv)]; [left; reflexivity|].
    right. exists v. split; [reflexivity|exact Hx].
  - intros (pre & w & x & post & i & Hit & Hpre & Hi & Hx).
    exists pre, w, x, post, i. split; [exact Hit|]. split; [exact Hpre|]. split; [exact Hi|].
    destruct Hx as [->|(v & -> & Hv)]; [exact I|exact Hv].
Qed.

(** the error classes of the loops and of the calls *)
Lemma add_loop_errors L items L' e : add_loop L items = (L', Some e) -> e = EOverflow \/ e = EReject.
Proof.
  intro H. apply add_loop_run in H. remember (Some e) as oe eqn:He.
  induction H as [L|L w x oc rest Hi|L w x oc rest i Hi Hx|L w v oc rest i Hi Hg
                  |L w v oc rest i L' e' Hi Hg Hr IH]; try discriminate.
  - injection He as <-. right. reflexivity.
  - injection He as <-. left. reflexivity.
  - injection He as <-. left. reflexivity.
  - apply IH. exact He.
Qed.

Lemma remove_loop_errors L items L' e : remove_loop L items = (L', Some e) -> e = EUnderflow \/ e = EReject.
Proof.
  intro H. apply remove_loop_run in H. remember (Some e) as oe eqn:He.
  induction H as [L|L w x rest Hi|L w x rest i Hi Hx|L w v rest i Hi Hg
                  |L w v rest i L' e' Hi Hg Hr IH]; try discriminate.
  - injection He as <-. right. reflexivity.
  - injection He as <-. left. reflexivity.
  - injection He as <-. left. reflexivity.
  - apply IH. exact He.
Qed.

Lemma prep_wells_vols_err wells vols e : prep_wells_vols wells vols = Err e -> e = EReject.
Proof.
  unfold prep_wells_vols. intro H.
  destruct (negb _) in H; [injection H as <-; reflexivity|].
  destruct (negb _) in H; [injection H as <-; reflexivity|discriminate].
Qed.

(** the loop argument of [add] *)
Definition add_items (wv : list (string * xnum)) (comps : option (list (option composition))) : list aitem :=
  map (fun p : string * xnum * option composition => (fst (fst p), snd (fst p), snd p))
      (zip wv (match comps with Some cs => cs | None => repeat None (length wv) end)).

Lemma add_rejected L wells vols label comps L' e :
  add L wells vols label comps = (L', Some e) ->
  (L' = L /\ e = EReject) \/
  exists wv, prep_wells_vols wells vols = Ok wv /\ add_loop L (add_items wv comps) = (L', Some e).
Proof.
  unfold add. intro H.
  destruct (prep_wells_vols wells vols) as [wv|e0] eqn:Ep.
  - destruct (negb _) in H; [injection H as <- <-; left; split; reflexivity|].
    right. exists wv. split; [reflexivity|]. unfold add_items.
    destruct (add_loop L _) as [L1 [e1|]]; [exact H|discriminate].
  - injection H as <- <-. left. split; [reflexivity|]. eapply prep_wells_vols_err. exact Ep.
Qed.

Lemma remove_rejected L wells vols label L' e :
  remove L wells vols label = (L', Some e) ->
  (L' = L /\ e = EReject) \/
  exists wv, prep_wells_vols wells vols = Ok wv /\ remove_loop L wv = (L', Some e).
Proof.
  unfold remove. intro H.
  destruct (prep_wells_vols wells vols) as [wv|e0] eqn:Ep.
  - right. exists wv. split; [reflexivity|].
    destruct (remove_loop L wv) as [L1 [e1|]]; [exact H|discriminate].
  - injection H as <- <-. left. split; [reflexivity|]. eapply prep_wells_vols_err. exact Ep.
Qed.

Lemma add_errors L wells vols label comps L' e :
  add L wells vols label comps = (L', Some e) -> e = EOverflow \/ e = EReject.
Proof.
  intro H. destruct (add_rejected _ _ _ _ _ _ _ H) as [[_ ->]|(wv & _ & Hl)]; [right; reflexivity|].
  eapply add_loop_errors. exact Hl.
Qed.

Lemma remove_errors L wells vols label L' e :
  remove L wells vols label = (L', Some e) -> e = EUnderflow \/ e = EReject.
Proof.
  intro H. destruct (remove_rejected _ _ _ _ _ _ H) as [[_ ->]|(wv & _ & Hl)]; [right; reflexivity|].
  eapply remove_loop_errors. exact Hl.
Qed.

(** a rejected [add] with VolumeOverflowError: the state is the one reached by the accepted prefix of the
    (well, volume) pairs, and the next pair does not fit (or is infinite) in that very state *)
Lemma add_overflow L wells vols label comps L' :
  add L wells vols label comps = (L', Some EOverflow) ->
  exists wv pre w x oc post i,
    prep_wells_vols wells vols = Ok wv /\
    add_items wv comps = (pre ++ (w, x, oc) :: post)%list /\ add_loop L pre = (L', None) /\
    lw_index L' w = Some i /\
    (x = XPInf \/ exists v, x = XQ v /\ 0 <= v /\ lw_max L < vol_at L' i + v).
Proof.
  intro H. destruct (add_rejected _ _ _ _ _ _ _ H) as [[_ C]|(wv & Ep & Hl)]; [discriminate|].
  destruct (prep_wells_vols_ok _ _ _ Ep) as (Hwv & Hlen & Hok).
  assert (Hoka : vols_ok_a (add_items wv comps)).
  { unfold add_items. apply aitems_vols_ok. rewrite Hwv. apply zip_vols_ok. exact Hok. }
  apply (add_loop_overflow_general L (add_items wv comps) L') in Hl.
  destruct Hl as (pre & w & x & oc & post & i & Hit & Hpre & Hi & Hx).
  exists wv, pre, w, x, oc, post, i. split; [exact Ep|]. split; [exact Hit|]. split; [exact Hpre|].
  split; [exact Hi|].
  assert (Hvx : vol_ok x = true).
  { unfold vols_ok_a in Hoka. rewrite Forall_forall in Hoka.
    apply (Hoka (w, x, oc)). rewrite Hit. apply in_elt. }
  destruct (vol_ok_cases x Hvx) as [->|(v & -> & Hv)]; [left; reflexivity|].
  right. exists v. split; [reflexivity|]. split; [exact Hv|exact Hx].
Qed.

Lemma remove_underflow L wells vols label L' :
  remove L wells vols label = (L', Some EUnderflow) ->
  exists wv pre w x post i,
    prep_wells_vols wells vols = Ok wv /\
    wv = (pre ++ (w, x) :: post)%list /\ remove_loop L pre = (L', None) /\
    lw_index L' w = Some i /\
    (x = XPInf \/ exists v, x = XQ v /\ 0 <= v /\ vol_at L' i - v < lw_min L).
Proof.
  intro H. destruct (remove_rejected _ _ _ _ _ _ H) as [[_ C]|(wv & Ep & Hl)]; [discriminate|].
  destruct (prep_wells_vols_ok _ _ _ Ep) as (Hwv & Hlen & Hok).
  assert (Hokr : vols_ok_r wv) by (rewrite Hwv; apply zip_vols_ok; exact Hok).
  apply (remove_loop_underflow_general L wv L') in Hl.
  destruct Hl as (pre & w & x & post & i & Hit & Hpre & Hi & Hx).
  exists wv, pre, w, x, post, i. split; [exact Ep|]. split; [exact Hit|]. split; [exact Hpre|].
  split; [exact Hi|].
  assert (Hvx : vol_ok x = true).
  { unfold vols_ok_r in Hokr. rewrite Forall_forall in Hokr.
    apply (Hokr (w, x)). rewrite Hit. apply in_elt. }
  destruct (vol_ok_cases x Hvx) as [->|(v & -> & Hv)]; [left; reflexivity|].
  right. exists v. split; [reflexivity|]. split; [exact Hv|exact Hx].
Qed.

(** NaN, -inf and negative volumes are refused before any effect *)
Lemma prep_bad_volume wells vols :
  (exists x, In x (broadcast (flattenF vols) (length (flattenF wells))) /\ vol_ok x = false) ->
  prep_wells_vols wells vols = Err EReject.
Proof.
  intros (x & Hin & Hx). unfold prep_wells_vols.
  destruct (negb (length _ =? length _)%nat); [reflexivity|].
  destruct (forallb vol_ok (broadcast (flattenF vols) (length (flattenF wells)))) eqn:E; [|reflexivity].
  rewrite forallb_forall in E. rewrite (E x Hin) in Hx. discriminate.
Qed.

Lemma add_bad_volume L wells vols label comps :
  (exists x, In x (broadcast (flattenF vols) (length (flattenF wells))) /\ vol_ok x = false) ->
  add L wells vols label comps = (L, Some EReject).
Proof. intro H. unfold add. rewrite (prep_bad_volume _ _ H). reflexivity. Qed.

Lemma remove_bad_volume L wells vols label :
  (exists x, In x (broadcast (flattenF vols) (length (flattenF wells))) /\ vol_ok x = false) ->
  remove L wells vols label = (L, Some EReject).
Proof. intro H. unfold remove. rewrite (prep_bad_volume _ _ H). reflexivity. Qed.

(* ------------------------------------------------------------------ C04: sequences of calls *)

Inductive lwcall :=
| CAdd (wells : arr string) (vols : arr xnum) (label : option string)
       (comps : option (list (option composition)))
| CRemove (wells : arr string) (vols : arr xnum) (label : option string).

Definition do_call (L : labware) (c : lwcall) : labware * option err :=
  match c with
  | CAdd ws vs l cs => add L ws vs l cs
  | CRemove ws vs l => remove L ws vs l
  end.

(** run all calls, collecting the outcomes (as [Program.run] does) *)
Fixpoint run_calls (L : labware) (cs : list lwcall) : labware * list (option err) :=
  match cs with
  | [] => (L, [])
  | c :: r => let '(L1, e) := do_call L c in
              let '(L2, es) := run_calls L1 r in (L2, e :: es)
  end.

Definition pairs_of (wells : arr string) (vols : arr xnum) : list (string * xnum) :=
  zip (flattenF wells) (broadcast (flattenF vols) (length (flattenF wells))).

Definition call_events (L : labware) (c : lwcall) : option (list event) :=
  match c with
  | CAdd ws vs _ _ => events_of L (pairs_of ws vs)
  | CRemove ws vs _ => option_map neg_events (events_of L (pairs_of ws vs))
  end.

Fixpoint history_events (L : labware) (cs : list lwcall) : option (list event) :=
  match cs with
  | [] => Some []
  | c :: r => match call_events L c, history_events L r with
              | Some a, Some b => Some (a ++ b)%list
              | _, _ => None
              end
  end.

Lemma call_events_geom L1 L2 c : lw_geom L1 = lw_geom L2 -> call_events L1 c = call_events L2 c.
Proof. intro H. destruct c; cbn [call_events]; rewrite (events_of_geom _ _ _ H); reflexivity. Qed.

Lemma history_events_geom L1 L2 cs : lw_geom L1 = lw_geom L2 -> history_events L1 cs = history_events L2 cs.
Proof.
  intro H. induction cs as [|c r IH]; cbn [history_events]; [reflexivity|].
  rewrite (call_events_geom _ _ c H), IH. reflexivity.
Qed.

Lemma do_call_ledger L c L' : do_call L c = (L', None) -> shape0 L ->
  shape0 L' /\ lw_geom L' = lw_geom L /\
  exists evs, call_events L c = Some evs /\
    length (lw_vols L') = length (lw_vols L) /\
    forall j, nth j (lw_vols L') 0 == nth j (lw_vols L) 0 + delta evs j.
Proof.
  intros H HS. destruct c as [ws vs l cs|ws vs l]; cbn [do_call call_events] in *.
  - destruct (add_accepted _ _ _ _ _ _ H) as (items & L1 & Hmap & Hlen & Hok & Hrun & ->).
    pose proof (add_run_frame _ _ _ _ Hrun) as HF.
    destruct (add_run_ledger _ _ _ _ Hrun eq_refl HS) as (evs & Hev & HJ).
    split; [exact (shape0_frame _ _ HF HS)|].
    destruct HF as (_ & Fg & _ & _ & _ & Fl). split; [exact Fg|].
    exists evs. unfold pairs_of. rewrite <- Hmap. split; [exact Hev|]. split; [exact Fl|exact HJ].
  - destruct (remove_accepted _ _ _ _ _ H) as (L1 & Hlen & Hok & Hrun & ->).
    pose proof (rem_run_frame _ _ _ _ Hrun) as HF.
    destruct (rem_run_ledger _ _ _ _ Hrun eq_refl HS) as (evs & Hev & HJ).
    split; [exact (shape0_frame _ _ HF HS)|].
    destruct HF as (_ & Fg & _ & _ & _ & Fl). split; [exact Fg|].
    exists (neg_events evs). unfold pairs_of. rewrite Hev. split; [reflexivity|]. split; [exact Fl|exact HJ].
Qed.

Lemma history_ledger cs : forall L L' es,
  shape0 L -> run_calls L cs = (L', es) -> (forall e, In e es -> e = None) ->
  exists evs, history_events L cs = Some evs /\
    length (lw_vols L') = length (lw_vols L) /\
    forall j, nth j (lw_vols L') 0 == nth j (lw_vols L) 0 + delta evs j.
Proof.
  induction cs as [|c r IH]; intros L L' es HS H Hall; cbn [run_calls history_events] in *.
  - injection H as <- <-. exists []. split; [reflexivity|]. split; [reflexivity|].
    intro j. cbn [delta]. ring.
  - destruct (do_call L c) as [L1 e] eqn:Ec. destruct (run_calls L1 r) as [L2 es2] eqn:Er.
    injection H as <- <-.
    assert (He : e = None) by (apply Hall; left; reflexivity). subst e.
    destruct (do_call_ledger _ _ _ Ec HS) as (HS1 & Hg & evs1 & Hev1 & Hl1 & HJ1).
    destruct (IH L1 L2 es2 HS1 Er) as (evs2 & Hev2 & Hl2 & HJ2).
    { intros e Hin. apply Hall. right. exact Hin. }
    exists (evs1 ++ evs2)%list. rewrite Hev1. rewrite <- (history_events_geom _ _ r Hg), Hev2.
    split; [reflexivity|]. split; [congruence|].
    intro j. rewrite HJ2, HJ1, delta_app. ring.
Qed.

Lemma history_ledger_wf cs L L' es :
  wf_shape L -> run_calls L cs = (L', es) -> (forall e, In e es -> e = None) ->
  exists evs, history_events L cs = Some evs /\
    length (lw_vols L') = length (lw_vols L) /\
    forall j, nth j (lw_vols L') 0 == nth j (lw_vols L) 0 + delta evs j.
Proof. intro HS. apply history_ledger. apply wf_shape_shape0. exact HS. Qed.

Lemma run_calls_wf cs : forall L, wf_labware L -> wf_labware (fst (run_calls L cs)).
Proof.
  induction cs as [|c r IH]; intros L HW; cbn [run_calls]; [exact HW|].
  assert (H1 : wf_labware (fst (do_call L c))).
  { destruct c; cbn [do_call]; [apply add_wf|apply remove_wf]; exact HW. }
  destruct (do_call L c) as [L1 e]. cbn [fst] in H1.
  pose proof (IH L1 H1) as H2. destruct (run_calls L1 r) as [L2 es]. exact H2.
Qed.

(* ------------------------------------------------------------------ C04: troughs *)

Lemma trough_alias g v r c : wf_geom g -> g_vrows g = Some v -> (r < v)%nat -> (c < g_cols g)%nat ->
  well_index g (well_id r c) = Some (0%nat, c) /\ flat_index g (0%nat, c) = c.
Proof.
  intros (Hr & Hc & Hv) Hg Hrv Hcc. rewrite Hg in Hv. destruct Hv as [_ Hv26].
  split; [|reflexivity].
  rewrite WellsProofs.well_index_ok; [rewrite Hg; reflexivity| |exact Hcc].
  unfold n_row_ids. rewrite Hg. lia.
Qed.

Lemma trough_alias_lw L v r c : wf_geom (lw_geom L) -> g_vrows (lw_geom L) = Some v ->
  (r < v)%nat -> (c < g_cols (lw_geom L))%nat -> lw_index L (well_id r c) = Some c.
Proof.
  intros Hg Hv Hr Hc. unfold lw_index.
  destruct (trough_alias _ _ _ _ Hg Hv Hr Hc) as [H1 H2]. rewrite H1, H2. reflexivity.
Qed.

(* ------------------------------------------------------------------ C04: column-major flattening *)

Lemma heads_empty {A} (rows : list (list A)) : Forall (fun r => length r = 0%nat) rows -> heads rows = [].
Proof.
  induction rows as [|x rest IH]; intro HF; [reflexivity|].
  inversion HF as [|x' r' Hx Hr]; subst. destruct x as [|a t]; [|discriminate]. cbn [heads]. apply IH. exact Hr.
Qed.

Lemma heads_rect {A} (rows : list (list A)) C : Forall (fun r => length r = S C) rows ->
  length (heads rows) = length rows /\
  forall r d, nth r (heads rows) d = nth 0 (nth r rows []) d.
Proof.
  induction rows as [|x rest IH]; intro HF.
  - split; [reflexivity|]. intros [|r] d; reflexivity.
  - inversion HF as [|x' r' Hx Hr]; subst. destruct x as [|a t]; [discriminate|].
    destruct (IH Hr) as [IH1 IH2]. cbn [heads length]. split; [rewrite IH1; reflexivity|].
    intros [|r] d; cbn [nth]; [reflexivity|apply IH2].
Qed.

Lemma tails_rect {A} (rows : list (list A)) C : Forall (fun r => length r = S C) rows ->
  length (tails rows) = length rows /\ Forall (fun r => length r = C) (tails rows) /\
  forall r c d, nth c (nth r (tails rows) []) d = nth (S c) (nth r rows []) d.
Proof.
  induction rows as [|x rest IH]; intro HF.
  - split; [reflexivity|]. split; [constructor|]. intros [|r] [|c] d; reflexivity.
  - inversion HF as [|x' r' Hx Hr]; subst. destruct x as [|a t]; [discriminate|].
    destruct (IH Hr) as (IH1 & IH2 & IH3). cbn [tails length]. split; [rewrite IH1; reflexivity|].
    split; [constructor; [cbn [length] in Hx; lia|exact IH2]|].
    intros [|r] c d; cbn [nth]; [reflexivity|apply IH3].
Qed.

Lemma colmajor_fuel_step {A} f (rows : list (list A)) : heads rows <> [] ->
  colmajor_fuel (S f) rows = (heads rows ++ colmajor_fuel f (tails rows))%list.
Proof. intro H. cbn [colmajor_fuel]. destruct (heads rows) as [|h hs]; [congruence|reflexivity]. Qed.

Lemma colmajor_fuel_rect {A} : forall C fuel (rows : list (list A)),
  Forall (fun r => length r = C) rows -> rows <> [] -> (C < fuel)%nat ->
  length (colmajor_fuel fuel rows) = (C * length rows)%nat /\
  forall c r d, (c < C)%nat -> (r < length rows)%nat ->
    nth (c * length rows + r) (colmajor_fuel fuel rows) d = nth c (nth r rows []) d.
Proof.
  induction C as [|C IH]; intros fuel rows HF Hne Hfuel.
  - destruct fuel as [|f]; [lia|]. cbn [colmajor_fuel]. rewrite (heads_empty rows HF).
    split; [reflexivity|]. intros c r d Hc. lia.
  - destruct fuel as [|f]; [lia|].
    destruct (heads_rect rows C HF) as [Hh1 Hh2]. destruct (tails_rect rows C HF) as (Ht1 & Ht2 & Ht3).
    assert (Hlen : (0 < length rows)%nat) by (destruct rows; [congruence|cbn [length]; lia]).
    assert (Hhne : heads rows <> []) by (intro C0; rewrite C0 in Hh1; cbn [length] in Hh1; lia).
    assert (Htne : tails rows <> []) by (intro C0; rewrite C0 in Ht1; cbn [length] in Ht1; lia).
    rewrite (colmajor_fuel_step f rows Hhne).
    destruct (IH f (tails rows) Ht2 Htne) as [IH1 IH2]; [lia|].
    split; [rewrite app_length, IH1, Hh1, Ht1; lia|].
    intros c r d Hc Hr. destruct c as [|c].
    + cbn [Nat.mul Nat.add]. rewrite app_nth1 by lia. apply Hh2.
    + rewrite app_nth2 by (rewrite Hh1; lia). rewrite Hh1.
      replace (S c * length rows + r - length rows)%nat with (c * length (tails rows) + r)%nat
        by (rewrite Ht1; lia).
      rewrite IH2 by lia. apply Ht3.
Qed.

Lemma max_len_ge {A} (x : list A) rest :
  (length x <= fold_right (fun r m => Nat.max (length r) m) 0%nat (x :: rest))%nat.
Proof. cbn [fold_right]. lia. Qed.

Lemma flattenF_A0 {A} (x : A) : flattenF (A0 x) = [x].
Proof. reflexivity. Qed.
Lemma flattenF_A1 {A} (xs : list A) : flattenF (A1 xs) = xs.
Proof. reflexivity. Qed.

Lemma flattenF_A2_rect {A} (rows : list (list A)) C :
  rows <> [] -> Forall (fun r => length r = C) rows ->
  length (flattenF (A2 rows)) = (C * length rows)%nat /\
  forall r c d, (r < length rows)%nat -> (c < C)%nat ->
    nth (c * length rows + r) (flattenF (A2 rows)) d = nth c (nth r rows []) d.
Proof.
  intros Hne HF. cbn [flattenF]. unfold colmajor.
  assert (Hfuel : (C < S (fold_right (fun r m => Nat.max (length r) m) 0%nat rows))%nat).
  { destruct rows as [|x rest]; [congruence|]. pose proof (max_len_ge x rest) as Hm.
    inversion HF as [|x' r' Hx Hr]; subst. lia. }
  destruct (colmajor_fuel_rect C _ rows HF Hne Hfuel) as [H1 H2].
  split; [exact H1|]. intros r c d Hr Hc. apply H2; assumption.
Qed.

(* ------------------------------------------------------------------ concrete objects for the examples *)

Definition ex_vols : list Q := [50; 50; 50; 50; 50; 50].
(** a 2 x 3 plate, min 10, max 100, every well at 50 *)
Definition ex_plate : labware :=
  {| lw_name := "plate"; lw_geom := {| g_rows := 2; g_cols := 3; g_vrows := None |};
     lw_min := 10; lw_max := 100; lw_vols := ex_vols; lw_comp := [];
     lw_hist := [(Some "initial"%string, ex_vols)] |}.
(** a trough with 8 virtual rows and 2 columns *)
Definition ex_trough : labware :=
  {| lw_name := "trough"; lw_geom := {| g_rows := 1; g_cols := 2; g_vrows := Some 8%nat |};
     lw_min := 1000; lw_max := 30000; lw_vols := [20000; 5000]; lw_comp := [];
     lw_hist := [(Some "initial"%string, [20000; 5000])] |}.

Lemma ex_plate_wf : wf_labware ex_plate.
Proof.
  unfold wf_labware, wf_shape, wf_geom, vol_inv, ex_plate, ex_vols, n_wells.
  cbn [lw_geom lw_vols lw_comp lw_hist lw_min lw_max g_rows g_cols g_vrows length].
  repeat split; try lia; try lra; try discriminate; repeat constructor; try lra.
Qed.

Lemma ex_trough_wf : wf_labware ex_trough.
Proof.
  unfold wf_labware, wf_shape, wf_geom, vol_inv, ex_trough, n_wells.
  cbn [lw_geom lw_vols lw_comp lw_hist lw_min lw_max g_rows g_cols g_vrows length].
  repeat split; try lia; try lra; try discriminate; repeat constructor; try lra.
Qed.

(** without the validation of [prep_wells_vols] a NaN reaches the loop and is reported as an overflow:
    the exact characterisation needs [vols_ok_a] *)
Lemma add_loop_overflow_unguarded_refuted :
  exists L items L',
    add_loop L items = (L', Some EOverflow) /\
    ~ (exists pre w x oc post i,
         items = (pre ++ (w, x, oc) :: post)%list /\ add_loop L pre = (L', None) /\
         lw_index L' w = Some i /\
         (x = XPInf \/ exists v, x = XQ v /\ lw_max L < vol_at L' i + v)).
Proof.
  exists ex_plate, [("A01"%string, XNaN, None)], ex_plate. split; [vm_compute; reflexivity|].
  intros (pre & w & x & oc & post & i & Hit & _ & _ & Hx).
  destruct pre as [|p pre].
  - injection Hit as _ Hxx _ _. subst x. destruct Hx as [C|(v & C & _)]; discriminate.
  - injection Hit as _ Hnil. destruct pre; discriminate.
Qed.

Lemma remove_loop_underflow_unguarded_refuted :
  exists L items L',
    remove_loop L items = (L', Some EUnderflow) /\
    ~ (exists pre w x post i,
         items = (pre ++ (w, x) :: post)%list /\ remove_loop L pre = (L', None) /\
         lw_index L' w = Some i /\
         (x = XPInf \/ exists v, x = XQ v /\ vol_at L' i - v < lw_min L)).
Proof.
  exists ex_plate, [("A01"%string, XNaN)], ex_plate. split; [vm_compute; reflexivity|].
  intros (pre & w & x & post & i & Hit & _ & _ & Hx).
  destruct pre as [|p pre].
  - injection Hit as _ Hxx _. subst x. destruct Hx as [C|(v & C & _)]; discriminate.
  - injection Hit as _ Hnil. destruct pre; discriminate.
Qed.
