(** Lifting of the labware-level theorems (C02 limits, C04 ledger, C08 unknown well ids) from direct
    [add] / [remove] to the worklist operations [aspirate], [dispense], [evo_aspirate], [evo_dispense],
    [distribute] and [transfer] (audit items M5, M6, M7 of REVIEW.md). *)
From Robo Require Import Prelude Str Wells Utils Labware Tips Records Partition Params Worklist EvoCmd
  Program Invariants WellsProofs PartitionProofs LabwareProofs PlanProofs DilutionExecProofs RefinementProofs.
From Coq Require Import Lqa Permutation.
#[local] Open Scope Q_scope.

(* ------------------------------------------------------------------ small helpers *)

Lemma set_lw_same s k L : nth_error (st_lw s) k = Some L -> set_lw s k L = s.
Proof.
  intro H. unfold set_lw. rewrite (upd_same _ _ _ H). destruct s as [lws wl]. reflexivity.
Qed.

Lemma nth_error_set_lw_same s k L L0 : nth_error (st_lw s) k = Some L0 ->
  nth_error (st_lw (set_lw s k L)) k = Some L.
Proof.
  intro H. cbn [set_lw st_lw]. apply RefinementProofs.nth_error_upd_same. eapply nth_error_lt. exact H.
Qed.

Lemma nth_error_set_lw_other s k j L : k <> j ->
  nth_error (st_lw (set_lw s k L)) j = nth_error (st_lw s) j.
Proof. intro H. cbn [set_lw st_lw]. apply nth_error_upd_other. exact H. Qed.

(** the wrappers pass [A1 (flattenF wells)] and the broadcast volumes: the same call *)
Lemma prep_norm wells vols :
  prep_wells_vols (A1 (flattenF wells)) (A1 (broadcast (flattenF vols) (length (flattenF wells))))
  = prep_wells_vols wells vols.
Proof. unfold prep_wells_vols. cbn [flattenF]. rewrite broadcast_idem. reflexivity. Qed.

Lemma remove_norm L wells vols label :
  remove L (A1 (flattenF wells)) (A1 (broadcast (flattenF vols) (length (flattenF wells)))) label
  = remove L wells vols label.
Proof. unfold remove. rewrite prep_norm. reflexivity. Qed.

Lemma add_norm L wells vols label comps :
  add L (A1 (flattenF wells)) (A1 (broadcast (flattenF vols) (length (flattenF wells)))) label comps
  = add L wells vols label comps.
Proof. unfold add. rewrite prep_norm. reflexivity. Qed.

(* ------------------------------------------------------------------ error classes of the record writers *)

(** errors that the record-writing part of a call can raise: never a volume-limit error *)
Definition rec_err (e : err) : Prop := e = EReject \/ e = EInvalidOp \/ e = ECompat.

Lemma device_position_err d g w e : device_position d g w = Err e -> e = EReject \/ e = ECompat.
Proof.
  destruct d; cbn [device_position].
  - unfold evo_position. destruct (parse_id w) as [[l n]|]; [|intro H; injection H as <-; left; reflexivity].
    destruct (single_letter_row g l); destruct (column_index g n); intro H; try discriminate;
      injection H as <-; left; reflexivity.
  - unfold fluent_position. destruct (parse_id w) as [[l n]|]; [|intro H; injection H as <-; left; reflexivity].
    destruct (column_index g n); [|intro H; injection H as <-; left; reflexivity].
    destruct (is_trough g); [discriminate|].
    destruct (str_head w) as [a|]; [|intro H; injection H as <-; left; reflexivity].
    destruct (single_letter_row g (String a EmptyString)); intro H; [discriminate|].
    injection H as <-. left. reflexivity.
  - intro H. injection H as <-. right. reflexivity.
Qed.

Lemma check_volume_err2 v m e : check_volume v m = Err e -> e = EReject \/ e = EInvalidOp.
Proof.
  unfold check_volume. destruct v as [[q| | |]|]; try (intro H; injection H as <-; left; reflexivity).
  destruct (Qltb q 0); [intro H; injection H as <-; left; reflexivity|].
  destruct (Qgtb q max_tecan_volume); [intro H; injection H as <-; left; reflexivity|].
  destruct m as [m|]; [|discriminate].
  destruct (Qgtb q m); [|discriminate]. intro H. injection H as <-. right. reflexivity.
Qed.

Lemma tip_mask_err t e : tip_mask t = Err e -> e = EReject.
Proof.
  unfold tip_mask. destruct t as [[z|n| |]|l].
  - destruct (int_to_tip z); [discriminate|]. intro H. injection H as <-. reflexivity.
  - destruct (elem_bit (TTip n)); [discriminate|]. intro H. injection H as <-. reflexivity.
  - discriminate.
  - intro H. injection H as <-. reflexivity.
  - destruct (elems_bits l); [discriminate|]. intro H. injection H as <-. reflexivity.
Qed.

Lemma prepare_ad_err a m e : prepare_ad a m = Err e -> e = EReject \/ e = EInvalidOp.
Proof.
  unfold prepare_ad. intro H.
  destruct (text_ok true (x_rack_label a)); [|injection H as <-; left; reflexivity].
  destruct (check_position (x_position a)) as [pos|e0] eqn:Ep.
  2:{ injection H as <-. unfold check_position in Ep. destruct (x_position a) as [z|].
      - destruct (z <? 0)%Z; [injection Ep as <-; left; reflexivity|discriminate].
      - injection Ep as <-. left. reflexivity. }
  destruct (check_volume (x_volume a) m) as [v|e0] eqn:Ev.
  2:{ injection H as <-. eapply check_volume_err2. exact Ev. }
  destruct (text_ok false (x_liquid_class a)); [|injection H as <-; left; reflexivity].
  destruct (tip_mask (x_tip a)) as [mask|e0] eqn:Et.
  2:{ injection H as <-. left. eapply tip_mask_err. exact Et. }
  destruct (text_ok true (x_rack_id a)); [|injection H as <-; left; reflexivity].
  destruct (text_ok false (x_tube_id a)); [|injection H as <-; left; reflexivity].
  destruct (text_ok true (x_rack_type a)); [|injection H as <-; left; reflexivity].
  destruct (text_ok true (x_forced a)); [discriminate|injection H as <-; left; reflexivity].
Qed.

Lemma emit_wells_err asp kw L items : forall w w' e,
  emit_wells asp w L items kw = (w', Some e) -> rec_err e.
Proof.
  induction items as [|[well x] rest IH]; intros w w' e H; cbn [emit_wells] in H; [discriminate|].
  destruct (xpos x); [|exact (IH _ _ _ H)].
  destruct (device_position (w_dev w) (lw_geom L) well) as [pos|e0] eqn:Ep.
  - destruct asp.
    + unfold aspirate_well in H.
      destruct (prepare_ad (ad_of_kw (lw_name L) pos (xq x) kw) (Some (w_max w))) as [f|e1] eqn:Ea.
      * exact (IH _ _ _ H).
      * injection H as _ <-. apply prepare_ad_err in Ea. unfold rec_err. tauto.
    + unfold dispense_well in H.
      destruct (prepare_ad (ad_of_kw (lw_name L) pos (xq x) kw) (Some (w_max w))) as [f|e1] eqn:Ea.
      * exact (IH _ _ _ H).
      * injection H as _ <-. apply prepare_ad_err in Ea. unfold rec_err. tauto.
  - injection H as _ <-. apply device_position_err in Ep. unfold rec_err. tauto.
Qed.

Lemma comment_err w c w' e : comment w c = (w', Some e) -> e = EReject /\ w' = w.
Proof.
  unfold comment. destruct c as [s|]; [|discriminate].
  destruct (String.eqb s ""); [discriminate|].
  destruct (contains_char semi s); [|discriminate]. intro H. injection H as <- <-. split; reflexivity.
Qed.

Lemma check_volumes_err l m e : check_volumes l m = Err e -> e = EReject \/ e = EInvalidOp.
Proof.
  induction l as [|v r IH]; cbn [check_volumes]; [discriminate|].
  destruct (check_volume v (Some m)) as [q|e0] eqn:E.
  - destruct (check_volumes r m) as [qs|e1]; [discriminate|]. intro H. injection H as <-. apply IH. reflexivity.
  - intro H. injection H as <-. eapply check_volume_err2. exact E.
Qed.

Lemma evo_command_err kind R C a m e : evo_command kind R C a m = Err e -> e = EReject \/ e = EInvalidOp.
Proof.
  unfold evo_command. intro H.
  destruct (negb (length (flattenF (c_wells a)) =? length (c_tips a))%nat); [injection H as <-; left; reflexivity|].
  destruct (negb (strictly_ascending_str (flattenF (c_wells a)))); [injection H as <-; left; reflexivity|].
  destruct (check_range (c_grid a) 1 67) as [grid|]; [|injection H as <-; left; reflexivity].
  destruct (check_range (c_site a) 1 128) as [site|]; [|injection H as <-; left; reflexivity].
  match type of H with match ?v with _ => _ end = _ => destruct v as [qs|e0] eqn:Ev end.
  - destruct (text_ok false (c_liquid_class a)) as [lc|]; [|injection H as <-; left; reflexivity].
    destruct (cmd_tip_values (c_tips a)) as [tvs|]; [|injection H as <-; left; reflexivity].
    destruct (negb (strictly_ascending_Z tvs)); [injection H as <-; left; reflexivity|].
    destruct (negb _); [injection H as <-; left; reflexivity|].
    destruct (negb _); [injection H as <-; left; reflexivity|].
    destruct (selection_array R C (flattenF (c_wells a))) as [sel|]; [|injection H as <-; left; reflexivity].
    destruct (2 <=? _)%nat; [injection H as <-; left; reflexivity|discriminate].
  - injection H as <-. destruct (c_volume a) as [v|l|l|].
    + destruct (check_volume v (Some m)) as [q|e1] eqn:E1; [discriminate|]. injection Ev as <-.
      eapply check_volume_err2. exact E1.
    + destruct (check_volumes l m) as [qs|e1] eqn:E1.
      * destruct (length qs =? _)%nat; [discriminate|]. injection Ev as <-. left. reflexivity.
      * injection Ev as <-. eapply check_volumes_err. exact E1.
    + destruct (check_volumes (int_pvols l) m) as [qs|e1] eqn:E1.
      * destruct (length qs =? _)%nat; [discriminate|]. injection Ev as <-. left. reflexivity.
      * injection Ev as <-. eapply check_volumes_err. exact E1.
    + injection Ev as <-. left. reflexivity.
Qed.

(* ------------------------------------------------------------------ the four tracked calls *)

(** [aspirate], [dispense], [evo_aspirate], [evo_dispense] all are: the direct labware call [f] on labware
    [k], then (only if it was accepted) the records.  A rejected labware call leaves the worklist alone;
    the record part never raises a volume-limit error. *)
Definition tracked_call (f : labware -> labware * option err) (s : state) (k : nat)
    (s' : state) (e : option err) : Prop :=
  match nth_error (st_lw s) k with
  | None => s' = s /\ e = Some EReject
  | Some L => exists L' er, f L = (L', er) /\ st_lw s' = st_lw (set_lw s k L') /\
      (forall e0, er = Some e0 -> e = Some e0 /\ s' = set_lw s k L') /\
      (er = None -> forall e0, e = Some e0 -> rec_err e0)
  end.

Lemma aspirate_tracked s k wells vols label kw s' e :
  aspirate s k wells vols label kw = (s', e) ->
  tracked_call (fun L => remove L wells vols label) s k s' e.
Proof.
  intro H. unfold aspirate, wells_vols in H. cbv zeta in H. unfold tracked_call.
  destruct (nth_error (st_lw s) k) as [L|] eqn:HL; [|injection H as <- <-; split; reflexivity].
  cbv beta iota in H. rewrite remove_norm in H.
  destruct (remove L wells vols label) as [L' er] eqn:Er. exists L', er. split; [reflexivity|].
  destruct er as [e1|].
  { injection H as <- <-. split; [reflexivity|]. split; [|discriminate].
    intros e0 E. injection E as <-. split; reflexivity. }
  destruct (comment (st_wl (set_lw s k L')) label) as [w [e2|]] eqn:Ec.
  { injection H as <- <-. split; [reflexivity|]. split; [discriminate|]. intros _ e0 E. injection E as <-.
    apply comment_err in Ec. destruct Ec as [-> _]. left. reflexivity. }
  destruct (emit_wells true w L' _ kw) as [w' e3] eqn:Ee. injection H as <- <-.
  split; [reflexivity|]. split; [discriminate|]. intros _ e0 E. subst e3. eapply emit_wells_err. exact Ee.
Qed.

Lemma dispense_tracked s k wells vols label comps kw s' e :
  dispense s k wells vols label comps kw = (s', e) ->
  tracked_call (fun L => add L wells vols label comps) s k s' e.
Proof.
  intro H. unfold dispense, wells_vols in H. cbv zeta in H. unfold tracked_call.
  destruct (nth_error (st_lw s) k) as [L|] eqn:HL; [|injection H as <- <-; split; reflexivity].
  cbv beta iota in H. rewrite add_norm in H.
  destruct (add L wells vols label comps) as [L' er] eqn:Er. exists L', er. split; [reflexivity|].
  destruct er as [e1|].
  { injection H as <- <-. split; [reflexivity|]. split; [|discriminate].
    intros e0 E. injection E as <-. split; reflexivity. }
  destruct (comment (st_wl (set_lw s k L')) label) as [w [e2|]] eqn:Ec.
  { injection H as <- <-. split; [reflexivity|]. split; [discriminate|]. intros _ e0 E. injection E as <-.
    apply comment_err in Ec. destruct Ec as [-> _]. left. reflexivity. }
  destruct (emit_wells false w L' _ kw) as [w' e3] eqn:Ee. injection H as <- <-.
  split; [reflexivity|]. split; [discriminate|]. intros _ e0 E. subst e3. eapply emit_wells_err. exact Ee.
Qed.

Lemma evo_aspirate_tracked s k a label s' e :
  evo_aspirate s k a label = (s', e) ->
  tracked_call (fun L => remove L (c_wells a) (evo_vols (c_volume a)) label) s k s' e.
Proof.
  intro H. unfold evo_aspirate, wells_vols in H. cbv zeta in H. unfold tracked_call.
  destruct (nth_error (st_lw s) k) as [L|] eqn:HL; [|injection H as <- <-; split; reflexivity].
  cbv beta iota in H. rewrite remove_norm in H.
  destruct (remove L (c_wells a) (evo_vols (c_volume a)) label) as [L' er] eqn:Er.
  exists L', er. split; [reflexivity|].
  destruct er as [e1|].
  { injection H as <- <-. split; [reflexivity|]. split; [|discriminate].
    intros e0 E. injection E as <-. split; reflexivity. }
  destruct (comment (st_wl (set_lw s k L')) label) as [w [e2|]] eqn:Ec.
  { injection H as <- <-. split; [reflexivity|]. split; [discriminate|]. intros _ e0 E. injection E as <-.
    apply comment_err in Ec. destruct Ec as [-> _]. left. reflexivity. }
  destruct (evo_command "Aspirate" _ _ a (w_max w)) as [cmd|e3] eqn:Ee; injection H as <- <-.
  - split; [reflexivity|]. split; discriminate.
  - split; [reflexivity|]. split; [discriminate|]. intros _ e0 E. injection E as <-.
    apply evo_command_err in Ee. unfold rec_err. tauto.
Qed.

Lemma evo_dispense_tracked s k a label comps s' e :
  evo_dispense s k a label comps = (s', e) ->
  tracked_call (fun L => add L (c_wells a) (evo_vols (c_volume a)) label comps) s k s' e.
Proof.
  intro H. unfold evo_dispense, wells_vols in H. cbv zeta in H. unfold tracked_call.
  destruct (nth_error (st_lw s) k) as [L|] eqn:HL; [|injection H as <- <-; split; reflexivity].
  cbv beta iota in H. rewrite add_norm in H.
  destruct (add L (c_wells a) (evo_vols (c_volume a)) label comps) as [L' er] eqn:Er.
  exists L', er. split; [reflexivity|].
  destruct er as [e1|].
  { injection H as <- <-. split; [reflexivity|]. split; [|discriminate].
    intros e0 E. injection E as <-. split; reflexivity. }
  destruct (comment (st_wl (set_lw s k L')) label) as [w [e2|]] eqn:Ec.
  { injection H as <- <-. split; [reflexivity|]. split; [discriminate|]. intros _ e0 E. injection E as <-.
    apply comment_err in Ec. destruct Ec as [-> _]. left. reflexivity. }
  destruct (evo_command "Dispense" _ _ a (w_max w)) as [cmd|e3] eqn:Ee; injection H as <- <-.
  - split; [reflexivity|]. split; discriminate.
  - split; [reflexivity|]. split; [discriminate|]. intros _ e0 E. injection E as <-.
    apply evo_command_err in Ee. unfold rec_err. tauto.
Qed.

(** the converse direction: a rejected labware call rejects the worklist call, with the same error *)
Lemma aspirate_of_remove_err s k wells vols label kw L L' e :
  nth_error (st_lw s) k = Some L -> remove L wells vols label = (L', Some e) ->
  aspirate s k wells vols label kw = (set_lw s k L', Some e).
Proof.
  intros HL Hr. unfold aspirate, wells_vols. cbv zeta. rewrite HL. cbv beta iota.
  rewrite remove_norm, Hr. reflexivity.
Qed.

Lemma evo_aspirate_of_remove_err s k a label L L' e :
  nth_error (st_lw s) k = Some L -> remove L (c_wells a) (evo_vols (c_volume a)) label = (L', Some e) ->
  evo_aspirate s k a label = (set_lw s k L', Some e).
Proof.
  intros HL Hr. unfold evo_aspirate, wells_vols. cbv zeta. rewrite HL. cbv beta iota.
  rewrite remove_norm, Hr. reflexivity.
Qed.

Lemma dispense_of_add_err s k wells vols label comps kw L L' e :
  nth_error (st_lw s) k = Some L -> add L wells vols label comps = (L', Some e) ->
  dispense s k wells vols label comps kw = (set_lw s k L', Some e).
Proof.
  intros HL Hr. unfold dispense, wells_vols. cbv zeta. rewrite HL. cbv beta iota.
  rewrite add_norm, Hr. reflexivity.
Qed.

Lemma evo_dispense_of_add_err s k a label comps L L' e :
  nth_error (st_lw s) k = Some L -> add L (c_wells a) (evo_vols (c_volume a)) label comps = (L', Some e) ->
  evo_dispense s k a label comps = (set_lw s k L', Some e).
Proof.
  intros HL Hr. unfold evo_dispense, wells_vols. cbv zeta. rewrite HL. cbv beta iota.
  rewrite add_norm, Hr. reflexivity.
Qed.

(** generic consequences *)
Lemma tracked_accepted f s k s' : tracked_call f s k s' None ->
  exists L L', nth_error (st_lw s) k = Some L /\ f L = (L', None) /\
               st_lw s' = upd (st_lw s) k L' /\ nth_error (st_lw s') k = Some L'.
Proof.
  unfold tracked_call. destruct (nth_error (st_lw s) k) as [L|] eqn:HL; [|intros [_ C]; discriminate].
  intros (L' & er & Hf & Hs & Herr & Hok). exists L, L'. split; [reflexivity|].
  destruct er as [e0|]; [destruct (Herr e0 eq_refl) as [C _]; discriminate|].
  split; [exact Hf|]. split; [exact Hs|]. rewrite Hs. eapply nth_error_set_lw_same. exact HL.
Qed.

Lemma tracked_rejected f s k s' e L : tracked_call f s k s' (Some e) -> nth_error (st_lw s) k = Some L ->
  (exists L', f L = (L', Some e) /\ s' = set_lw s k L') \/
  (exists L', f L = (L', None) /\ st_lw s' = upd (st_lw s) k L' /\ rec_err e).
Proof.
  unfold tracked_call. intros H HL. rewrite HL in H. destruct H as (L' & er & Hf & Hs & Herr & Hok).
  destruct er as [e0|].
  - destruct (Herr e0 eq_refl) as [E ->]. injection E as ->. left. exists L'. split; [exact Hf|reflexivity].
  - right. exists L'. split; [exact Hf|]. split; [exact Hs|]. apply Hok; reflexivity.
Qed.

Lemma tracked_limit f s k s' e L : tracked_call f s k s' (Some e) -> nth_error (st_lw s) k = Some L ->
  e = EUnderflow \/ e = EOverflow -> exists L', f L = (L', Some e) /\ s' = set_lw s k L'.
Proof.
  intros H HL He. destruct (tracked_rejected _ _ _ _ _ _ H HL) as [Hl|(L' & _ & _ & Hr)]; [exact Hl|].
  exfalso. unfold rec_err in Hr. destruct He as [-> | ->]; destruct Hr as [C|[C|C]]; discriminate.
Qed.

Lemma tracked_frame f s k s' e : tracked_call f s k s' e ->
  length (st_lw s') = length (st_lw s) /\
  forall j, j <> k -> nth_error (st_lw s') j = nth_error (st_lw s) j.
Proof.
  unfold tracked_call. destruct (nth_error (st_lw s) k) as [L|] eqn:HL.
  - intros (L' & er & _ & Hs & _). rewrite Hs. cbn [set_lw st_lw]. split; [apply upd_length|].
    intros j Hj. apply nth_error_upd_other. intro C. apply Hj. symmetry. exact C.
  - intros [-> _]. split; reflexivity.
Qed.

Lemma tracked_any f s k s' e L : tracked_call f s k s' e -> nth_error (st_lw s) k = Some L ->
  exists L' er, f L = (L', er) /\ nth_error (st_lw s') k = Some L' /\ (forall e0, er = Some e0 -> e = Some e0).
Proof.
  unfold tracked_call. intros H HL. rewrite HL in H. destruct H as (L' & er & Hf & Hs & Herr & _).
  exists L', er. split; [exact Hf|]. split; [rewrite Hs; eapply nth_error_set_lw_same; exact HL|].
  intros e0 E. apply (Herr e0 E).
Qed.

(* ------------------------------------------------------------------ remove / add: exact rejections *)

(** VolumeUnderflowError of a [remove] call: validation passed, [L'] is the labware after the accepted
    prefix [pre] of the (well, volume) pairs, and the next pair does not fit in [L'] *)
Definition underflow_at (L : labware) (wells : arr string) (vols : arr xnum) (L' : labware) : Prop :=
  exists pre w x post i,
    prep_wells_vols wells vols = Ok (pre ++ (w, x) :: post)%list /\ remove_loop L pre = (L', None) /\
    lw_index L' w = Some i /\
    (x = XPInf \/ exists v, x = XQ v /\ 0 <= v /\ vol_at L' i - v < lw_min L).

Lemma remove_underflow_iff L wells vols label L' :
  remove L wells vols label = (L', Some EUnderflow) <-> underflow_at L wells vols L'.
Proof.
  split.
  - intro H.
    destruct (remove_underflow _ _ _ _ _ H) as (wv & pre & w & x & post & i & Ep & -> & Hpre & Hi & Hx).
    exists pre, w, x, post, i. repeat split; assumption.
  - intros (pre & w & x & post & i & Ep & Hpre & Hi & Hx). unfold remove. rewrite Ep.
    assert (Hl : remove_loop L (pre ++ (w, x) :: post) = (L', Some EUnderflow)).
    { apply remove_loop_underflow_general. exists pre, w, x, post, i. split; [reflexivity|].
      split; [exact Hpre|]. split; [exact Hi|].
      destruct Hx as [->|(v & -> & _ & Hv)]; [exact I|exact Hv]. }
    rewrite Hl. reflexivity.
Qed.

(** the composition list [add] pairs with the wells *)
Definition comps_of (wv : list (string * xnum)) (comps : option (list (option composition)))
    : list (option composition) :=
  match comps with Some cs => cs | None => repeat None (length wv) end.

Definition overflow_at (L : labware) (wells : arr string) (vols : arr xnum)
    (comps : option (list (option composition))) (L' : labware) : Prop :=
  exists wv pre w x oc post i,
    prep_wells_vols wells vols = Ok wv /\ length (comps_of wv comps) = length wv /\
    add_items wv comps = (pre ++ (w, x, oc) :: post)%list /\ add_loop L pre = (L', None) /\
    lw_index L' w = Some i /\
    (x = XPInf \/ exists v, x = XQ v /\ 0 <= v /\ lw_max L < vol_at L' i + v).

Lemma add_unfold L wells vols label comps wv : prep_wells_vols wells vols = Ok wv ->
  add L wells vols label comps =
  if negb (length (comps_of wv comps) =? length wv)%nat then (L, Some EReject)
  else match add_loop L (add_items wv comps) with
       | (L', None) => (log L' label, None)
       | (L', Some e) => (L', Some e)
       end.
Proof. intro Ep. unfold add. rewrite Ep. reflexivity. Qed.

Lemma add_overflow_iff L wells vols label comps L' :
  add L wells vols label comps = (L', Some EOverflow) <-> overflow_at L wells vols comps L'.
Proof.
  split.
  - intro H.
    destruct (add_overflow _ _ _ _ _ _ H) as (wv & pre & w & x & oc & post & i & Ep & Hit & Hpre & Hi & Hx).
    exists wv, pre, w, x, oc, post, i. split; [exact Ep|]. split; [|repeat split; assumption].
    rewrite (add_unfold _ _ _ _ _ _ Ep) in H.
    destruct (length (comps_of wv comps) =? length wv)%nat eqn:E; [apply Nat.eqb_eq; exact E|].
    cbn [negb] in H. discriminate.
  - intros (wv & pre & w & x & oc & post & i & Ep & Hlen & Hit & Hpre & Hi & Hx).
    rewrite (add_unfold _ _ _ _ _ _ Ep). rewrite Hlen, Nat.eqb_refl. cbn [negb].
    assert (Hl : add_loop L (add_items wv comps) = (L', Some EOverflow)).
    { apply add_loop_overflow_general. exists pre, w, x, oc, post, i. split; [exact Hit|].
      split; [exact Hpre|]. split; [exact Hi|].
      destruct Hx as [->|(v & -> & _ & Hv)]; [exact I|exact Hv]. }
    rewrite Hl. reflexivity.
Qed.

(** any rejection of the loops: the accepted prefix has been applied, the next item is refused *)
Lemma rem_run_stopped L items L' e : rem_run L items L' (Some e) ->
  exists pre it post, items = (pre ++ it :: post)%list /\ remove_loop L pre = (L', None) /\
                      remove_loop L' [it] = (L', Some e).
Proof.
  intro H. remember (Some e) as oe eqn:He.
  induction H as [L|L w x rest Hi|L w x rest i Hi Hx|L w v rest i Hi Hg
                  |L w v rest i L' e' Hi Hg Hr IH]; try discriminate.
  - injection He as <-. exists [], (w, x), rest. split; [reflexivity|]. split; [reflexivity|].
    rewrite remove_loop_cons, Hi. reflexivity.
  - injection He as <-. exists [], (w, x), rest. split; [reflexivity|]. split; [reflexivity|].
    rewrite remove_loop_cons, Hi. destruct x as [v| | |]; try reflexivity. exfalso. apply (Hx v). reflexivity.
  - injection He as <-. exists [], (w, XQ v), rest. split; [reflexivity|]. split; [reflexivity|].
    rewrite remove_loop_cons, Hi, Hg. reflexivity.
  - destruct (IH He) as (pre & it & post & Hit & Hpre & Hstop).
    exists ((w, XQ v) :: pre), it, post. split; [rewrite Hit; reflexivity|].
    split; [rewrite remove_loop_cons, Hi, Hg; exact Hpre|exact Hstop].
Qed.

Lemma add_run_stopped L items L' e : add_run L items L' (Some e) ->
  exists pre it post, items = (pre ++ it :: post)%list /\ add_loop L pre = (L', None) /\
                      add_loop L' [it] = (L', Some e).
Proof.
  intro H. remember (Some e) as oe eqn:He.
  induction H as [L|L w x oc rest Hi|L w x oc rest i Hi Hx|L w v oc rest i Hi Hg
                  |L w v oc rest i L' e' Hi Hg Hr IH]; try discriminate.
  - injection He as <-. exists [], (w, x, oc), rest. split; [reflexivity|]. split; [reflexivity|].
    rewrite add_loop_cons, Hi. reflexivity.
  - injection He as <-. exists [], (w, x, oc), rest. split; [reflexivity|]. split; [reflexivity|].
    rewrite add_loop_cons, Hi. destruct x as [v| | |]; try reflexivity. exfalso. apply (Hx v). reflexivity.
  - injection He as <-. exists [], (w, XQ v, oc), rest. split; [reflexivity|]. split; [reflexivity|].
    rewrite add_loop_cons, Hi, Hg. reflexivity.
  - destruct (IH He) as (pre & it & post & Hit & Hpre & Hstop).
    exists ((w, XQ v, oc) :: pre), it, post. split; [rewrite Hit; reflexivity|].
    split; [rewrite add_loop_cons, Hi, Hg; exact Hpre|exact Hstop].
Qed.

Lemma remove_loop_stop_ext L it post L1 e : remove_loop L [it] = (L1, Some e) ->
  remove_loop L (it :: post) = (L1, Some e).
Proof.
  destruct it as [w x]. rewrite !remove_loop_cons.
  destruct (lw_index L w) as [i|]; [|exact (fun H => H)].
  destruct x as [v| | |]; try exact (fun H => H).
  destruct (Qltb (Qred (vol_at L i - v)) (lw_min L)); [exact (fun H => H)|].
  cbn [remove_loop]. discriminate.
Qed.

Lemma add_loop_stop_ext L it post L1 e : add_loop L [it] = (L1, Some e) ->
  add_loop L (it :: post) = (L1, Some e).
Proof.
  destruct it as [[w x] oc]. rewrite !add_loop_cons.
  destruct (lw_index L w) as [i|]; [|exact (fun H => H)].
  destruct x as [v| | |]; try exact (fun H => H).
  destruct (Qgtb (Qred (vol_at L i + v)) (lw_max L)); [exact (fun H => H)|].
  cbn [add_loop]. discriminate.
Qed.

(** every rejected [remove]: either the arguments were refused and nothing happened, or the pairs before
    the refused one have been applied *)
Definition remove_stopped (L : labware) (wells : arr string) (vols : arr xnum) (L' : labware) (e : err)
    : Prop :=
  (prep_wells_vols wells vols = Err EReject /\ L' = L /\ e = EReject) \/
  exists pre it post,
    prep_wells_vols wells vols = Ok (pre ++ it :: post)%list /\ remove_loop L pre = (L', None) /\
    remove_loop L' [it] = (L', Some e).

Lemma remove_stopped_iff L wells vols label L' e :
  remove L wells vols label = (L', Some e) <-> remove_stopped L wells vols L' e.
Proof.
  split.
  - intro H. unfold remove in H. destruct (prep_wells_vols wells vols) as [wv|e0] eqn:Ep.
    + right. destruct (remove_loop L wv) as [L1 [e1|]] eqn:El; [|discriminate]. injection H as <- <-.
      apply remove_loop_run in El.
      destruct (rem_run_stopped _ _ _ _ El) as (pre & it & post & -> & Hpre & Hstop).
      exists pre, it, post. repeat split; assumption.
    + left. injection H as <- <-. pose proof (prep_wells_vols_err _ _ _ Ep) as ->. repeat split. exact Ep.
  - intros [(Ep & -> & ->)|(pre & it & post & Ep & Hpre & Hstop)]; unfold remove; rewrite Ep; [reflexivity|].
    rewrite remove_loop_app, Hpre, (remove_loop_stop_ext _ _ _ _ _ Hstop). reflexivity.
Qed.

Definition add_stopped (L : labware) (wells : arr string) (vols : arr xnum)
    (comps : option (list (option composition))) (L' : labware) (e : err) : Prop :=
  (prep_wells_vols wells vols = Err EReject /\ L' = L /\ e = EReject) \/
  (exists wv, prep_wells_vols wells vols = Ok wv /\ length (comps_of wv comps) <> length wv /\
              L' = L /\ e = EReject) \/
  exists wv pre it post,
    prep_wells_vols wells vols = Ok wv /\ length (comps_of wv comps) = length wv /\
    add_items wv comps = (pre ++ it :: post)%list /\ add_loop L pre = (L', None) /\
    add_loop L' [it] = (L', Some e).

Lemma add_stopped_iff L wells vols label comps L' e :
  add L wells vols label comps = (L', Some e) <-> add_stopped L wells vols comps L' e.
Proof.
  split.
  - intro H. destruct (prep_wells_vols wells vols) as [wv|e0] eqn:Ep.
    + rewrite (add_unfold _ _ _ _ _ _ Ep) in H. right.
      destruct (length (comps_of wv comps) =? length wv)%nat eqn:E; cbn [negb] in H.
      * right. apply Nat.eqb_eq in E.
        destruct (add_loop L (add_items wv comps)) as [L1 [e1|]] eqn:El; [|discriminate]. injection H as <- <-.
        apply add_loop_run in El.
        destruct (add_run_stopped _ _ _ _ El) as (pre & it & post & Hit & Hpre & Hstop).
        exists wv, pre, it, post. repeat split; assumption.
      * left. injection H as <- <-. exists wv. apply Nat.eqb_neq in E. repeat split; assumption.
    + left. unfold add in H. rewrite Ep in H. injection H as <- <-.
      pose proof (prep_wells_vols_err _ _ _ Ep) as ->. repeat split. exact Ep.
  - intros [(Ep & -> & ->)|[(wv & Ep & Hlen & -> & ->)|(wv & pre & it & post & Ep & Hlen & Hit & Hpre & Hstop)]].
    + unfold add. rewrite Ep. reflexivity.
    + rewrite (add_unfold _ _ _ _ _ _ Ep). apply Nat.eqb_neq in Hlen. rewrite Hlen. reflexivity.
    + rewrite (add_unfold _ _ _ _ _ _ Ep). rewrite Hlen, Nat.eqb_refl. cbn [negb].
      rewrite Hit, add_loop_app, Hpre, (add_loop_stop_ext _ _ _ _ _ Hstop). reflexivity.
Qed.

(** a rejected call keeps the history, the limits, the geometry *)
Lemma remove_rejected_frame L wells vols label L' e : remove L wells vols label = (L', Some e) -> same_frame L L'.
Proof.
  intro H. destruct (remove_rejected _ _ _ _ _ _ H) as [[-> _]|(wv & _ & Hl)]; [apply same_frame_refl|].
  eapply rem_run_frame. apply remove_loop_run. exact Hl.
Qed.

Lemma add_rejected_frame L wells vols label comps L' e :
  add L wells vols label comps = (L', Some e) -> same_frame L L'.
Proof.
  intro H. destruct (add_rejected _ _ _ _ _ _ _ H) as [[-> _]|(wv & _ & Hl)]; [apply same_frame_refl|].
  eapply add_run_frame. apply add_loop_run. exact Hl.
Qed.

(* ------------------------------------------------------------------ unknown well ids (C08 / M7) *)

Lemma rem_run_indexed L items L' e : rem_run L items L' e -> e = None ->
  forall it, In it items -> exists i, lw_index L (fst it) = Some i.
Proof.
  intro H. induction H as [L|L w x rest Hi|L w x rest i Hi Hx|L w v rest i Hi Hg
                           |L w v rest i L' e Hi Hg Hr IH]; intros He it Hin; try discriminate.
  - contradiction.
  - destruct Hin as [<-|Hin]; [exists i; exact Hi|].
    destruct (rem_one_frame L i v) as (_ & Fg & _).
    rewrite <- (lw_index_geom _ _ _ Fg). apply IH; assumption.
Qed.

(** a call that names a well the labware does not have is never accepted *)
Lemma remove_unknown L wells vols label :
  (exists w, In w (flattenF wells) /\ lw_index L w = None) ->
  exists L' e, remove L wells vols label = (L', Some e).
Proof.
  intros (w & Hw & Hi). destruct (remove L wells vols label) as [L' [e|]] eqn:Hr; [exists L', e; reflexivity|].
  exfalso. destruct (remove_accepted _ _ _ _ _ Hr) as (L1 & Hlen & _ & Hrun & _).
  destruct (zip_In_l _ _ w Hlen Hw) as [x Hx].
  destruct (rem_run_indexed _ _ _ _ Hrun eq_refl _ Hx) as [i Hi']. cbn [fst] in Hi'. congruence.
Qed.

Lemma add_unknown L wells vols label comps :
  (exists w, In w (flattenF wells) /\ lw_index L w = None) ->
  exists L' e, add L wells vols label comps = (L', Some e).
Proof.
  intros (w & Hw & Hi). destruct (add L wells vols label comps) as [L' [e|]] eqn:Hr; [exists L', e; reflexivity|].
  exfalso. destruct (add_accepted _ _ _ _ _ _ Hr) as (items & L1 & Hmap & Hlen & _ & Hrun & _).
  destruct (zip_In_l _ _ w Hlen Hw) as [x Hx]. rewrite <- Hmap in Hx.
  apply in_map_iff in Hx. destruct Hx as (it & Hit & Hin).
  destruct (add_run_indexed _ _ _ _ Hrun eq_refl it Hin) as [i Hi']. rewrite Hit in Hi'. cbn [fst] in Hi'.
  congruence.
Qed.

(** if the first named well is unknown nothing at all happens *)
Lemma remove_unknown_first L wells vols label w rest :
  flattenF wells = w :: rest -> lw_index L w = None -> remove L wells vols label = (L, Some EReject).
Proof.
  intros Hw Hi. unfold remove. destruct (prep_wells_vols wells vols) as [wv|e0] eqn:Ep.
  - destruct (prep_wells_vols_ok _ _ _ Ep) as (Hwv & Hlen & _). rewrite Hw in Hwv, Hlen.
    destruct (broadcast (flattenF vols) (length (w :: rest))) as [|x vs]; [discriminate|].
    cbn [zip] in Hwv. subst wv. rewrite remove_loop_cons, Hi. reflexivity.
  - rewrite (prep_wells_vols_err _ _ _ Ep). reflexivity.
Qed.

Lemma add_unknown_first L wells vols label comps w rest :
  flattenF wells = w :: rest -> lw_index L w = None -> add L wells vols label comps = (L, Some EReject).
Proof.
  intros Hw Hi. destruct (prep_wells_vols wells vols) as [wv|e0] eqn:Ep.
  - rewrite (add_unfold _ _ _ _ _ _ Ep).
    destruct (length (comps_of wv comps) =? length wv)%nat eqn:E; cbn [negb]; [|reflexivity].
    apply Nat.eqb_eq in E.
    destruct (prep_wells_vols_ok _ _ _ Ep) as (Hwv & Hlen & _). rewrite Hw in Hwv, Hlen.
    destruct (broadcast (flattenF vols) (length (w :: rest))) as [|x vs]; [discriminate|].
    cbn [zip] in Hwv. subst wv. unfold add_items. fold (comps_of ((w, x) :: zip rest vs) comps).
    destruct (comps_of ((w, x) :: zip rest vs) comps) as [|c cs]; [discriminate|].
    cbn [zip map fst snd]. rewrite add_loop_cons, Hi. reflexivity.
  - unfold add. rewrite Ep, (prep_wells_vols_err _ _ _ Ep). reflexivity.
Qed.

(* ------------------------------------------------------------------ consequences for removing calls *)

Section Removing.
  Variables (wells : arr string) (vols : arr xnum) (label : option string).
  Let f := fun L => remove L wells vols label.

  Lemma removing_post s k s' : tracked_call f s k s' None -> wf_state s ->
    exists L L', nth_error (st_lw s) k = Some L /\ nth_error (st_lw s') k = Some L' /\
      lw_geom L' = lw_geom L /\ lw_min L' = lw_min L /\ lw_max L' = lw_max L /\
      forall w, In w (flattenF wells) ->
        exists i, lw_index L' w = Some i /\ (i < length (lw_vols L'))%nat /\
                  lw_min L' <= vol_at L' i /\ vol_at L' i <= lw_max L'.
  Proof.
    intros H HS. destruct (tracked_accepted _ _ _ _ H) as (L & L' & HL & Hf & _ & HL').
    destruct (remove_post _ _ _ _ _ Hf (wf_nth _ _ _ HS HL)) as (Hg & Hmin & Hmax & Hw).
    exists L, L'. split; [exact HL|]. split; [exact HL'|]. split; [exact Hg|]. split; [exact Hmin|].
    split; [exact Hmax|]. rewrite Hmin, Hmax. exact Hw.
  Qed.

  Lemma removing_ledger s k s' : tracked_call f s k s' None -> wf_state s ->
    exists L L' evs, nth_error (st_lw s) k = Some L /\ nth_error (st_lw s') k = Some L' /\
      events_of L (pairs_of wells vols) = Some evs /\
      length (lw_vols L') = length (lw_vols L) /\
      (forall j, nth j (lw_vols L') 0 == nth j (lw_vols L) 0 + delta (neg_events evs) j) /\
      length (st_lw s') = length (st_lw s) /\
      forall j, j <> k -> nth_error (st_lw s') j = nth_error (st_lw s) j.
  Proof.
    intros H HS. destruct (tracked_accepted _ _ _ _ H) as (L & L' & HL & Hf & _ & HL').
    destruct (remove_ledger _ _ _ _ _ Hf (proj1 (wf_nth _ _ _ HS HL))) as (evs & Hev & Hlen & HJ).
    destruct (tracked_frame _ _ _ _ _ H) as [Hl Ho].
    exists L, L', evs. repeat split; assumption.
  Qed.

  Lemma removing_frame s k s' e : tracked_call f s k s' e ->
    length (st_lw s') = length (st_lw s) /\
    (forall j, j <> k -> nth_error (st_lw s') j = nth_error (st_lw s) j) /\
    forall L, nth_error (st_lw s) k = Some L ->
      exists L', nth_error (st_lw s') k = Some L' /\
        forall i, (forall w, In w (flattenF wells) -> lw_index L w <> Some i) ->
                  nth i (lw_vols L') 0 = nth i (lw_vols L) 0.
  Proof.
    intro H. destruct (tracked_frame _ _ _ _ _ H) as [Hl Ho]. split; [exact Hl|]. split; [exact Ho|].
    intros L HL. destruct (tracked_any _ _ _ _ _ _ H HL) as (L' & er & Hf & HL' & _).
    exists L'. split; [exact HL'|]. intros i Hi.
    pose proof (remove_frame L wells vols label i Hi) as Hfr. unfold f in Hf. rewrite Hf in Hfr. exact Hfr.
  Qed.

  Lemma removing_underflow s k s' L : tracked_call f s k s' (Some EUnderflow) ->
    nth_error (st_lw s) k = Some L -> exists L', underflow_at L wells vols L' /\ s' = set_lw s k L'.
  Proof.
    intros H HL. destruct (tracked_limit _ _ _ _ _ _ H HL (or_introl eq_refl)) as (L' & Hf & Hs).
    exists L'. split; [apply (remove_underflow_iff L wells vols label); exact Hf|exact Hs].
  Qed.

  Lemma removing_no_overflow s k s' : ~ tracked_call f s k s' (Some EOverflow).
  Proof.
    intro H. unfold tracked_call in H. destruct (nth_error (st_lw s) k) as [L|] eqn:HL.
    - destruct (tracked_limit _ _ _ _ _ _ ltac:(unfold tracked_call; rewrite HL; exact H) HL
                  (or_intror eq_refl)) as (L' & Hf & _).
      destruct (remove_errors _ _ _ _ _ _ Hf); discriminate.
    - destruct H as [_ C]. discriminate.
  Qed.

  Lemma removing_rejected s k s' e L : tracked_call f s k s' (Some e) -> nth_error (st_lw s) k = Some L ->
    (exists L', remove_stopped L wells vols L' e /\ s' = set_lw s k L' /\ lw_hist L' = lw_hist L /\
                (e = EUnderflow \/ e = EReject)) \/
    (exists L', remove L wells vols label = (L', None) /\ st_lw s' = upd (st_lw s) k L' /\ rec_err e).
  Proof.
    intros H HL. destruct (tracked_rejected _ _ _ _ _ _ H HL) as [(L' & Hf & Hs)|Hr]; [left|right; exact Hr].
    exists L'. split; [apply (remove_stopped_iff L wells vols label); exact Hf|]. split; [exact Hs|].
    split; [exact (proj1 (proj2 (proj2 (proj2 (proj2 (remove_rejected_frame _ _ _ _ _ _ Hf))))))|].
    exact (remove_errors _ _ _ _ _ _ Hf).
  Qed.
End Removing.

Section Adding.
  Variables (wells : arr string) (vols : arr xnum) (label : option string)
            (comps : option (list (option composition))).
  Let f := fun L => add L wells vols label comps.

  Lemma adding_post s k s' : tracked_call f s k s' None -> wf_state s ->
    exists L L', nth_error (st_lw s) k = Some L /\ nth_error (st_lw s') k = Some L' /\
      lw_geom L' = lw_geom L /\ lw_min L' = lw_min L /\ lw_max L' = lw_max L /\
      forall w, In w (flattenF wells) ->
        exists i, lw_index L' w = Some i /\ (i < length (lw_vols L'))%nat /\
                  0 <= vol_at L' i /\ vol_at L' i <= lw_max L'.
  Proof.
    intros H HS. destruct (tracked_accepted _ _ _ _ H) as (L & L' & HL & Hf & _ & HL').
    destruct (add_post _ _ _ _ _ _ Hf (wf_nth _ _ _ HS HL)) as (Hg & Hmin & Hmax & Hw).
    exists L, L'. repeat split; assumption.
  Qed.

  Lemma adding_ledger s k s' : tracked_call f s k s' None -> wf_state s ->
    exists L L' evs, nth_error (st_lw s) k = Some L /\ nth_error (st_lw s') k = Some L' /\
      events_of L (pairs_of wells vols) = Some evs /\
      length (lw_vols L') = length (lw_vols L) /\
      (forall j, nth j (lw_vols L') 0 == nth j (lw_vols L) 0 + delta evs j) /\
      length (st_lw s') = length (st_lw s) /\
      forall j, j <> k -> nth_error (st_lw s') j = nth_error (st_lw s) j.
  Proof.
    intros H HS. destruct (tracked_accepted _ _ _ _ H) as (L & L' & HL & Hf & _ & HL').
    destruct (add_ledger _ _ _ _ _ _ Hf (proj1 (wf_nth _ _ _ HS HL))) as (evs & Hev & Hlen & HJ).
    destruct (tracked_frame _ _ _ _ _ H) as [Hl Ho].
    exists L, L', evs. repeat split; assumption.
  Qed.

  Lemma adding_frame s k s' e : tracked_call f s k s' e ->
    length (st_lw s') = length (st_lw s) /\
    (forall j, j <> k -> nth_error (st_lw s') j = nth_error (st_lw s) j) /\
    forall L, nth_error (st_lw s) k = Some L ->
      exists L', nth_error (st_lw s') k = Some L' /\
        forall i, (forall w, In w (flattenF wells) -> lw_index L w <> Some i) ->
                  nth i (lw_vols L') 0 = nth i (lw_vols L) 0.
  Proof.
    intro H. destruct (tracked_frame _ _ _ _ _ H) as [Hl Ho]. split; [exact Hl|]. split; [exact Ho|].
    intros L HL. destruct (tracked_any _ _ _ _ _ _ H HL) as (L' & er & Hf & HL' & _).
    exists L'. split; [exact HL'|]. intros i Hi.
    pose proof (add_frame L wells vols label comps i Hi) as Hfr. unfold f in Hf. rewrite Hf in Hfr. exact Hfr.
  Qed.

  Lemma adding_overflow s k s' L : tracked_call f s k s' (Some EOverflow) ->
    nth_error (st_lw s) k = Some L -> exists L', overflow_at L wells vols comps L' /\ s' = set_lw s k L'.
  Proof.
    intros H HL. destruct (tracked_limit _ _ _ _ _ _ H HL (or_intror eq_refl)) as (L' & Hf & Hs).
    exists L'. split; [apply (add_overflow_iff L wells vols label comps); exact Hf|exact Hs].
  Qed.

  Lemma adding_no_underflow s k s' : ~ tracked_call f s k s' (Some EUnderflow).
  Proof.
    intro H. unfold tracked_call in H. destruct (nth_error (st_lw s) k) as [L|] eqn:HL.
    - destruct (tracked_limit _ _ _ _ _ _ ltac:(unfold tracked_call; rewrite HL; exact H) HL
                  (or_introl eq_refl)) as (L' & Hf & _).
      destruct (add_errors _ _ _ _ _ _ _ Hf); discriminate.
    - destruct H as [_ C]. discriminate.
  Qed.

  Lemma adding_rejected s k s' e L : tracked_call f s k s' (Some e) -> nth_error (st_lw s) k = Some L ->
    (exists L', add_stopped L wells vols comps L' e /\ s' = set_lw s k L' /\ lw_hist L' = lw_hist L /\
                (e = EOverflow \/ e = EReject)) \/
    (exists L', add L wells vols label comps = (L', None) /\ st_lw s' = upd (st_lw s) k L' /\ rec_err e).
  Proof.
    intros H HL. destruct (tracked_rejected _ _ _ _ _ _ H HL) as [(L' & Hf & Hs)|Hr]; [left|right; exact Hr].
    exists L'. split; [apply (add_stopped_iff L wells vols label comps); exact Hf|]. split; [exact Hs|].
    split; [exact (proj1 (proj2 (proj2 (proj2 (proj2 (add_rejected_frame _ _ _ _ _ _ _ Hf))))))|].
    exact (add_errors _ _ _ _ _ _ _ Hf).
  Qed.
End Adding.

(* ------------------------------------------------------------------ distribute: inversion *)

(** the part of [distribute] after the labware lookup and the NaN check (copied from the model) *)
Definition dist_body (s : state) (ks kd : nat) (dwells : arr string) (a : distargs)
    (Ls Ld : labware) (xv : xnum) : state * option err :=
  let w := st_wl s in
  if (match xv with XQ v => Qgtb v (w_max w) | XPInf => true | _ => false end)
  then (s, Some EInvalidOp)
  else
    let nrows := n_row_ids (lw_geom Ls) in
    let col := Z.to_nat (d_source_column a) in
    let src_start := (1 + nrows * col)%nat in
    let src_end := (src_start + nrows - 1)%nat in
    let dw := flattenF dwells in
    if existsb (fun x => match lw_index Ld x with None => true | Some _ => false end) dw
    then (s, Some EReject) else
    match positions_of (w_dev w) (lw_geom Ld) dw with
    | Err e => (s, Some e)
    | Ok ps =>
        match sort_Z (map Z.of_nat ps) with
        | [] => (s, Some EReject)
        | (p0 :: _) as sorted =>
            let plast := last sorted p0 in
            let excl := filter (fun z => negb (existsb (Z.eqb z) sorted))
                               (map (fun i => (p0 + Z.of_nat i)%Z) (seq 0 (Z.to_nat (plast - p0 + 1)))) in
            if negb (col <? g_cols (lw_geom Ls))%nat then (s, Some EReject) else
            let n_dst := length ps in
            let srcwell := well_id 0 col in
            match remove Ls (A0 srcwell) (A0 (xmul_nat xv n_dst)) (d_label a) with
            | (Ls', Some e) => (set_lw s ks Ls', Some e)
            | (Ls', None) =>
                let s1 := set_lw s ks Ls' in
                match get_well_composition Ls' srcwell with
                | Err e => (s1, Some e)
                | Ok c =>
                    match nth_error (st_lw s1) kd with
                    | None => (s1, Some EReject)
                    | Some Ld1 =>
                        match add Ld1 (A1 dw) (A0 xv) (d_label a) (Some (repeat (Some c) n_dst)) with
                        | (Ld', Some e) => (set_lw s1 kd Ld', Some e)
                        | (Ld', None) =>
                            let s2 := set_lw s1 kd Ld' in
                            let s2 := if (ks =? kd)%nat then condense_at s2 ks 2 (d_label a) else s2 in
                            match comment (st_wl s2) (d_label a) with
                            | (w1, Some e) => (set_wl s2 w1, Some e)
                            | (w1, None) =>
                                let '(w2, e) := reagent_distribution w1
                                  {| rd_src_label := PStr (lw_name Ls);
                                     rd_src_start := PInt (Z.of_nat src_start);
                                     rd_src_end := PInt (Z.of_nat src_end);
                                     rd_dst_label := PStr (lw_name Ld);
                                     rd_dst_start := PInt p0; rd_dst_end := PInt plast;
                                     rd_volume := d_volume a;
                                     rd_diti_reuse := d_diti_reuse a;
                                     rd_multi_disp := d_multi_disp a;
                                     rd_exclude := Some excl;
                                     rd_liquid_class := d_liquid_class a;
                                     rd_direction := d_direction a;
                                     rd_src_id := d_src_id a; rd_src_type := d_src_type a;
                                     rd_dst_id := d_dst_id a; rd_dst_type := d_dst_type a |} in
                                (set_wl s2 w2, e)
                            end
                        end
                    end
                end
            end
        end
    end.

Lemma distribute_unfold s ks kd dwells a :
  distribute s ks kd dwells a =
  match nth_error (st_lw s) ks, nth_error (st_lw s) kd with
  | Some Ls, Some Ld =>
      match g_vrows (lw_geom Ls), rvol_x (d_volume a) with
      | None, _ => (s, Some EReject)
      | _, None => (s, Some EReject)
      | Some _, Some xv => match xv with XNaN => (s, Some EReject) | _ => dist_body s ks kd dwells a Ls Ld xv end
      end
  | _, _ => (s, Some EReject)
  end.
Proof.
  unfold distribute, dist_body.
  destruct (nth_error (st_lw s) ks) as [Ls|]; [|reflexivity].
  destruct (nth_error (st_lw s) kd) as [Ld|]; [|reflexivity].
  destruct (g_vrows (lw_geom Ls)) as [vr|]; [|reflexivity].
  destruct (rvol_x (d_volume a)) as [[q| | |]|]; reflexivity.
Qed.

Lemma positions_of_length d g : forall ws ps, positions_of d g ws = Ok ps -> length ps = length ws.
Proof.
  induction ws as [|w r IH]; intros ps H; cbn [positions_of] in H.
  - injection H as <-. reflexivity.
  - destruct (device_position d g w) as [p|e]; destruct (positions_of d g r) as [ps0|e0]; try discriminate.
    injection H as <-. cbn [length]. rewrite (IH ps0 eq_refl). reflexivity.
Qed.

Lemma positions_of_err d g : forall ws e, positions_of d g ws = Err e -> e = EReject \/ e = ECompat.
Proof.
  induction ws as [|w r IH]; intros e H; cbn [positions_of] in H; [discriminate|].
  destruct (device_position d g w) as [p|e1] eqn:Ep.
  - destruct (positions_of d g r) as [ps0|e0]; [discriminate|]. injection H as <-. apply IH. reflexivity.
  - injection H as <-. eapply device_position_err. exact Ep.
Qed.

Lemma reagent_distribution_err w a w' e : reagent_distribution w a = (w', Some e) ->
  e = EReject \/ e = EInvalidOp.
Proof.
  unfold reagent_distribution. intro H.
  destruct (if String.eqb (rd_direction a) "left_to_right" then Some false
            else if String.eqb (rd_direction a) "right_to_left" then Some true else None) as [dir|];
    [|injection H as _ <-; left; reflexivity].
  destruct (check_position (rd_src_start a)) as [ss|e1]; [|injection H as _ <-; left; reflexivity].
  destruct (check_position (rd_src_end a)) as [se|e2]; [|injection H as _ <-; left; reflexivity].
  destruct (check_position (rd_dst_start a)) as [ds|e3]; [|injection H as _ <-; left; reflexivity].
  destruct (check_position (rd_dst_end a)) as [de|e4]; [|injection H as _ <-; left; reflexivity].
  destruct ((rd_diti_reuse a <? 0) || (rd_multi_disp a <? 0))%Z; [injection H as _ <-; left; reflexivity|].
  destruct (existsb _ _); [injection H as _ <-; left; reflexivity|].
  destruct (text_ok true (rd_src_label a)) as [sl|]; [|injection H as _ <-; left; reflexivity].
  destruct (check_volume (rvol_pvol (rd_volume a)) (Some (w_max w))) as [v|ev] eqn:EV;
    [|injection H as _ <-; eapply check_volume_err2; exact EV].
  destruct (text_ok true (rd_src_id a)) as [sid|]; [|injection H as _ <-; left; reflexivity].
  destruct (text_ok true (rd_src_type a)) as [sty|]; [|injection H as _ <-; left; reflexivity].
  destruct (text_ok true (rd_dst_label a)) as [dl|]; [|injection H as _ <-; left; reflexivity].
  destruct (text_ok true (rd_dst_id a)) as [did|]; [|injection H as _ <-; left; reflexivity].
  destruct (text_ok true (rd_dst_type a)) as [dty|]; [|injection H as _ <-; left; reflexivity].
  destruct (text_ok false (rd_liquid_class a)) as [lc|]; [discriminate|injection H as _ <-; left; reflexivity].
Qed.

Lemma remove_accepted_index L w x label L' : remove L (A0 w) (A0 x) label = (L', None) ->
  exists i, lw_index L w = Some i /\ lw_index L' w = Some i.
Proof.
  intro H. destruct (remove_accepted _ _ _ _ _ H) as (L1 & _ & _ & Hrun & ->).
  cbn [flattenF broadcast length repeat zip] in Hrun.
  destruct (rem_run_indexed _ _ _ _ Hrun eq_refl (w, x) (or_introl eq_refl)) as [i Hi]. cbn [fst] in Hi.
  exists i. split; [exact Hi|].
  destruct (rem_run_frame _ _ _ _ Hrun) as (_ & Fg & _).
  assert (Hg : lw_geom (log L1 label) = lw_geom L) by exact Fg.
  rewrite (lw_index_geom _ _ w Hg). exact Hi.
Qed.

(** source well and number of destinations of a [distribute] call *)
Definition dist_src (a : distargs) : string := well_id 0 (Z.to_nat (d_source_column a)).

(** everything [distribute] does to the labware.  Either the arguments are refused and nothing happens, or
    [n * v] is removed from the source well ([remove], labware [ks]) and then [v] is added to every
    destination ([add], labware [kd] of the resulting state); a refused [remove] / [add] ends the call with
    that error, keeping what has been applied; the records come last. *)
Definition dist_outcome (s : state) (ks kd : nat) (dwells : arr string) (a : distargs)
    (s' : state) (e : option err) : Prop :=
  (s' = s /\ exists e0, e = Some e0 /\ rec_err e0) \/
  exists Ls Ld xv Ls' e1,
    nth_error (st_lw s) ks = Some Ls /\ nth_error (st_lw s) kd = Some Ld /\
    rvol_x (d_volume a) = Some xv /\
    (g_vrows (lw_geom Ls) <> None /\ xv <> XNaN /\ xv <> XPInf /\
     (forall v, xv = XQ v -> v <= w_max (st_wl s)) /\
     (Z.to_nat (d_source_column a) < g_cols (lw_geom Ls))%nat) /\
    (forall w, In w (flattenF dwells) -> lw_index Ld w <> None) /\
    remove Ls (A0 (dist_src a)) (A0 (xmul_nat xv (length (flattenF dwells)))) (d_label a) = (Ls', e1) /\
    match e1 with
    | Some e0 => s' = set_lw s ks Ls' /\ e = Some e0
    | None =>
        exists c Ld1 Ld' e2,
          get_well_composition Ls' (dist_src a) = Ok c /\
          nth_error (st_lw (set_lw s ks Ls')) kd = Some Ld1 /\
          add Ld1 (A1 (flattenF dwells)) (A0 xv) (d_label a)
              (Some (repeat (Some c) (length (flattenF dwells)))) = (Ld', e2) /\
          match e2 with
          | Some e0 => s' = set_lw (set_lw s ks Ls') kd Ld' /\ e = Some e0
          | None =>
              st_lw s' = st_lw (if (ks =? kd)%nat
                                then condense_at (set_lw (set_lw s ks Ls') kd Ld') ks 2 (d_label a)
                                else set_lw (set_lw s ks Ls') kd Ld') /\
              forall e0, e = Some e0 -> rec_err e0
          end
    end.

Ltac dist_args H :=
  left; injection H as <- <-; split; [reflexivity|eexists; split; [reflexivity|unfold rec_err; auto]].

Lemma distribute_inv s ks kd dwells a s' e :
  distribute s ks kd dwells a = (s', e) -> dist_outcome s ks kd dwells a s' e.
Proof.
  rewrite distribute_unfold. intro H. unfold dist_outcome.
  destruct (nth_error (st_lw s) ks) as [Ls|] eqn:HLs; [|dist_args H].
  destruct (nth_error (st_lw s) kd) as [Ld|] eqn:HLd; [|dist_args H].
  destruct (g_vrows (lw_geom Ls)) as [vr|] eqn:Evr; [|dist_args H].
  destruct (rvol_x (d_volume a)) as [xv|] eqn:Exv; [|dist_args H].
  assert (H' : (xv <> XNaN /\ dist_body s ks kd dwells a Ls Ld xv = (s', e)) \/ (s, Some EReject) = (s', e)).
  { destruct xv; [left|right|left|left]; try exact H; (split; [discriminate|exact H]). }
  clear H. destruct H' as [[Hnan H]|H]; [|dist_args H].
  unfold dist_body in H. cbv zeta in H.
  match type of H with (if ?c then _ else _) = _ => destruct c eqn:Evol; [dist_args H|] end.
  match type of H with (if ?c then _ else _) = _ => destruct c eqn:Eids; [dist_args H|] end.
  destruct (positions_of (w_dev (st_wl s)) (lw_geom Ld) (flattenF dwells)) as [ps|ep] eqn:Eps.
  2:{ left. injection H as <- <-. split; [reflexivity|]. exists ep. split; [reflexivity|].
      apply positions_of_err in Eps. unfold rec_err. tauto. }
  rewrite (positions_of_length _ _ _ _ Eps) in H.
  destruct (sort_Z (map Z.of_nat ps)) as [|p0 tl]; [dist_args H|].
  match type of H with (if ?c then _ else _) = _ => destruct c eqn:Ecol; [dist_args H|] end.
  fold (dist_src a) in H.
  destruct (remove Ls (A0 (dist_src a)) (A0 (xmul_nat xv (length (flattenF dwells)))) (d_label a))
    as [Ls' e1] eqn:Er.
  right. exists Ls, Ld, xv, Ls', e1. split; [reflexivity|]. split; [reflexivity|]. split; [reflexivity|].
  split.
  { split; [congruence|]. split; [exact Hnan|]. split; [intro C; subst xv; discriminate|].
    split; [intros v ->; apply Qgtb_false; exact Evol|].
    apply negb_false_iff in Ecol. apply Nat.ltb_lt. exact Ecol. }
  split.
  { intros w Hw C. assert (Hex : existsb (fun x => match lw_index Ld x with None => true | Some _ => false end)
                                         (flattenF dwells) = true).
    { apply existsb_exists. exists w. split; [exact Hw|]. rewrite C. reflexivity. }
    congruence. }
  split; [exact Er|].
  destruct e1 as [e1|]; [injection H as <- <-; split; reflexivity|].
  destruct (remove_accepted_index _ _ _ _ _ Er) as (i & _ & Hi').
  unfold get_well_composition in H |- *. rewrite Hi' in H |- *.
  destruct (nth_error (st_lw (set_lw s ks Ls')) kd) as [Ld1|] eqn:HLd1.
  2:{ exfalso. apply nth_error_None in HLd1. cbn [set_lw st_lw] in HLd1. rewrite upd_length in HLd1.
      apply nth_error_lt in HLd. lia. }
  destruct (add Ld1 (A1 (flattenF dwells)) (A0 xv) (d_label a)
                (Some (repeat (Some (well_composition_at Ls' i)) (length (flattenF dwells)))))
    as [Ld' e2] eqn:Ea.
  exists (well_composition_at Ls' i), Ld1, Ld', e2. split; [reflexivity|]. split; [reflexivity|].
  split; [exact Ea|].
  destruct e2 as [e2|]; [injection H as <- <-; split; reflexivity|].
  match type of H with context [comment (st_wl ?s2) _] =>
    destruct (comment (st_wl s2) (d_label a)) as [w1 [ec|]] eqn:Ec end.
  { injection H as <- <-. split; [reflexivity|]. intros e0 E. injection E as <-.
    apply comment_err in Ec. destruct Ec as [-> _]. left. reflexivity. }
  match type of H with context [reagent_distribution w1 ?args] =>
    destruct (reagent_distribution w1 args) as [w2 er] eqn:Erd end.
  injection H as <- <-. split; [reflexivity|]. intros e0 E. subst er.
  apply reagent_distribution_err in Erd. unfold rec_err. tauto.
Qed.

(* ------------------------------------------------------------------ distribute: accepted calls *)

Lemma dist_accepted s ks kd dwells a s' : distribute s ks kd dwells a = (s', None) ->
  exists Ls Ld xv Ls' Ld' c,
    nth_error (st_lw s) ks = Some Ls /\ nth_error (st_lw s) kd = Some Ld /\
    rvol_x (d_volume a) = Some xv /\
    (forall w, In w (flattenF dwells) -> lw_index Ld w <> None) /\
    remove Ls (A0 (dist_src a)) (A0 (xmul_nat xv (length (flattenF dwells)))) (d_label a) = (Ls', None) /\
    add (if (ks =? kd)%nat then Ls' else Ld) (A1 (flattenF dwells)) (A0 xv) (d_label a)
        (Some (repeat (Some c) (length (flattenF dwells)))) = (Ld', None) /\
    length (st_lw s') = length (st_lw s) /\
    (forall j, j <> ks -> j <> kd -> nth_error (st_lw s') j = nth_error (st_lw s) j) /\
    exists Ldf, nth_error (st_lw s') kd = Some Ldf /\ same_obs Ld' Ldf /\
                (ks <> kd -> nth_error (st_lw s') ks = Some Ls').
Proof.
  intro H. apply distribute_inv in H.
  destruct H as [(_ & e0 & C & _)|(Ls & Ld & xv & Ls' & e1 & HLs & HLd & Exv & _ & Hids & Er & H)]; [discriminate|].
  destruct e1 as [e1|]; [destruct H as [_ C]; discriminate|].
  destruct H as (c & Ld1 & Ld' & e2 & _ & HLd1 & Ea & H).
  destruct e2 as [e2|]; [destruct H as [_ C]; discriminate|]. destruct H as [Hfin _].
  pose proof (nth_error_lt _ _ _ HLs) as Hks. pose proof (nth_error_lt _ _ _ HLd) as Hkd.
  exists Ls, Ld, xv, Ls', Ld', c. split; [exact HLs|]. split; [exact HLd|]. split; [exact Exv|].
  split; [exact Hids|]. split; [exact Er|].
  cbn [set_lw st_lw] in HLd1.
  destruct (Nat.eqb_spec ks kd) as [<-|Hne].
  - rewrite RefinementProofs.nth_error_upd_same in HLd1 by exact Hks. injection HLd1 as <-.
    split; [exact Ea|].
    unfold condense_at in Hfin. cbn [set_lw st_lw] in Hfin.
    rewrite RefinementProofs.nth_error_upd_same in Hfin by (rewrite upd_length; exact Hks).
    cbn [set_lw st_lw] in Hfin. rewrite Hfin. rewrite !upd_length. split; [reflexivity|].
    split.
    { intros j Hj _. rewrite !nth_error_upd_other by (intro C; apply Hj; symmetry; exact C). reflexivity. }
    exists (condense_log Ld' 2 (d_label a)).
    split; [apply RefinementProofs.nth_error_upd_same; rewrite !upd_length; exact Hks|].
    split; [apply condense_obs|]. intro C. exfalso. apply C. reflexivity.
  - rewrite nth_error_upd_other in HLd1 by exact Hne. rewrite HLd in HLd1. injection HLd1 as <-.
    split; [exact Ea|].
    cbn [set_lw st_lw] in Hfin. rewrite Hfin, !upd_length. split; [reflexivity|].
    split.
    { intros j Hj1 Hj2. rewrite !nth_error_upd_other by (intro C; symmetry in C; contradiction).
      reflexivity. }
    exists Ld'. split; [apply RefinementProofs.nth_error_upd_same; rewrite upd_length; exact Hkd|].
    split; [repeat split|]. intros _.
    rewrite nth_error_upd_other by (intro C; apply Hne; symmetry; exact C).
    apply RefinementProofs.nth_error_upd_same. exact Hks.
Qed.

Lemma remove_single_inv L w x label L' : remove L (A0 w) (A0 x) label = (L', None) ->
  exists i q, x = XQ q /\ 0 <= q /\ lw_index L w = Some i /\
              Qltb (Qred (vol_at L i - q)) (lw_min L) = false /\ L' = log (rem_one L i q) label.
Proof.
  intro H. destruct x as [q| | |].
  - change (remove L (A0 w) (A0 (XQ q)) label) with (remove L (A1 [w]) (A1 [XQ q]) label) in H.
    destruct (remove_single_ok _ _ _ _ _ H) as (i & Hi & Hc & Hq & ->).
    exists i, q. repeat split; assumption.
  - unfold remove, prep_wells_vols in H. cbn in H. discriminate.
  - unfold remove, prep_wells_vols in H. cbn [flattenF broadcast length repeat Nat.eqb negb forallb vol_ok andb zip] in H.
    rewrite remove_loop_cons in H. destruct (lw_index L w); discriminate.
  - unfold remove, prep_wells_vols in H. cbn in H. discriminate.
Qed.

(** number of listed ids that address the real well [j] *)
Definition occurrences (L : labware) (ws : list string) (j : nat) : nat :=
  length (filter (fun w => match lw_index L w with Some i => (i =? j)%nat | None => false end) ws).

Lemma occurrences_geom L1 L2 ws j : lw_geom L1 = lw_geom L2 -> occurrences L1 ws j = occurrences L2 ws j.
Proof.
  intro H. unfold occurrences. f_equal. apply filter_ext. intro w. rewrite (lw_index_geom L1 L2 w H). reflexivity.
Qed.

Lemma inject_succ n : inject_Z (Z.of_nat (S n)) == inject_Z (Z.of_nat n) + 1.
Proof. rewrite Nat2Z.inj_succ. unfold Z.succ. rewrite inject_Z_plus. reflexivity. Qed.

(** a scalar volume [v] is charged once per occurrence *)
Lemma events_scalar L v : forall ws evs,
  events_of L (zip ws (repeat (XQ v) (length ws))) = Some evs ->
  forall j, delta evs j == inject_Z (Z.of_nat (occurrences L ws j)) * v.
Proof.
  induction ws as [|w r IH]; intros evs H j.
  - cbn in H. injection H as <-. cbn. ring.
  - cbn [length repeat zip events_of] in H.
    destruct (lw_index L w) as [i|] eqn:Hi; [|discriminate].
    destruct (events_of L (zip r (repeat (XQ v) (length r)))) as [evs0|] eqn:E0; [|discriminate].
    injection H as <-. cbn [delta]. rewrite (IH evs0 eq_refl j).
    unfold occurrences. cbn [filter]. rewrite Hi.
    destruct (i =? j)%nat.
    + cbn [length]. rewrite inject_succ. ring.
    + ring.
Qed.

Lemma vol_at_obs L L' i : same_obs L L' -> vol_at L' i = vol_at L i.
Proof. intros (_ & _ & _ & _ & O5). unfold vol_at. rewrite O5. reflexivity. Qed.

(** POST of an accepted [distribute]: the source well is still at or above min_volume, every destination
    well within [0, max_volume]; limits and geometry unchanged *)
Lemma distribute_post s ks kd dwells a s' : distribute s ks kd dwells a = (s', None) -> wf_state s ->
  exists Ls Ld Lsf Ldf,
    nth_error (st_lw s) ks = Some Ls /\ nth_error (st_lw s) kd = Some Ld /\
    nth_error (st_lw s') ks = Some Lsf /\ nth_error (st_lw s') kd = Some Ldf /\
    (lw_geom Lsf = lw_geom Ls /\ lw_min Lsf = lw_min Ls /\ lw_max Lsf = lw_max Ls) /\
    (lw_geom Ldf = lw_geom Ld /\ lw_min Ldf = lw_min Ld /\ lw_max Ldf = lw_max Ld) /\
    (exists i, lw_index Lsf (dist_src a) = Some i /\ (i < length (lw_vols Lsf))%nat /\
               lw_min Lsf <= vol_at Lsf i /\ vol_at Lsf i <= lw_max Lsf) /\
    forall w, In w (flattenF dwells) ->
      exists i, lw_index Ldf w = Some i /\ (i < length (lw_vols Ldf))%nat /\
                0 <= vol_at Ldf i /\ vol_at Ldf i <= lw_max Ldf.
Proof.
  intros H HS. pose proof (distribute_wf s ks kd dwells a HS) as HS'. rewrite H in HS'. cbn [fst] in HS'.
  destruct (dist_accepted _ _ _ _ _ _ H)
    as (Ls & Ld & xv & Ls' & Ld' & c & HLs & HLd & Exv & Hids & Er & Ea & Hlen & Hoth & Ldf & HLdf & Hobs & Hks').
  pose proof (wf_nth _ _ _ HS HLs) as WLs. pose proof (wf_nth _ _ _ HS HLd) as WLd.
  pose proof (wf_nth _ _ _ HS' HLdf) as WLdf.
  destruct (remove_post _ _ _ _ _ Er WLs) as (Rg & Rmin & Rmax & Rw).
  destruct (Rw (dist_src a) (or_introl eq_refl)) as (i & Hi & Hlt & Hge & Hle).
  pose proof (remove_wf' _ _ _ _ _ _ Er WLs) as WLs'.
  assert (WLd1 : wf_labware (if (ks =? kd)%nat then Ls' else Ld)) by (destruct (ks =? kd)%nat; assumption).
  destruct (add_post _ _ _ _ _ _ Ea WLd1) as (Ag & Amin & Amax & Aw).
  destruct (add_any _ _ _ _ _ _ _ Ea) as [_ Hup].
  pose proof Hobs as (O1 & O2 & O3 & O4 & O5).
  assert (Hdst : forall w, In w (flattenF dwells) ->
            exists i0, lw_index Ldf w = Some i0 /\ (i0 < length (lw_vols Ldf))%nat /\
                       0 <= vol_at Ldf i0 /\ vol_at Ldf i0 <= lw_max Ldf).
  { intros w Hw. destruct (Aw w Hw) as (i0 & Hi0 & Hlt0 & H0 & Hm0). exists i0.
    rewrite (lw_index_geom Ldf Ld' w O2), (vol_at_obs _ _ i0 Hobs), O4, O5. repeat split; assumption. }
  destruct (Nat.eq_dec ks kd) as [<-|Hne].
  - rewrite Nat.eqb_refl in *. rewrite HLs in HLd. injection HLd as <-.
    exists Ls, Ls, Ldf, Ldf. split; [exact HLs|]. split; [exact HLs|]. split; [exact HLdf|]. split; [exact HLdf|].
    assert (Hlim : lw_geom Ldf = lw_geom Ls /\ lw_min Ldf = lw_min Ls /\ lw_max Ldf = lw_max Ls).
    { rewrite O2, O3, O4, Ag, Amin, Amax. repeat split; assumption. }
    split; [exact Hlim|]. split; [exact Hlim|]. split; [|exact Hdst].
    exists i. destruct Hlim as (Lg & Lmin & Lmax).
    assert (Hg2 : lw_geom Ldf = lw_geom Ls') by (rewrite Lg, Rg; reflexivity).
    assert (Hidx : lw_index Ldf (dist_src a) = Some i) by (rewrite (lw_index_geom Ldf Ls' _ Hg2); exact Hi).
    split; [exact Hidx|].
    split; [apply (lw_index_bound Ldf (dist_src a)); [apply wf_shape_shape0; exact (proj1 WLdf)|exact Hidx]|].
    split.
    + rewrite (vol_at_obs _ _ i Hobs), Lmin. specialize (Hup i). lra.
    + exact (proj2 (vol_at_range _ i (proj2 WLdf))).
  - apply Nat.eqb_neq in Hne. rewrite Hne in *. apply Nat.eqb_neq in Hne.
    exists Ls, Ld, Ls', Ldf. split; [exact HLs|]. split; [exact HLd|]. split; [exact (Hks' Hne)|].
    split; [exact HLdf|]. split; [repeat split; assumption|].
    split; [rewrite O2, O3, O4, Ag, Amin, Amax; repeat split|].
    split; [|exact Hdst].
    exists i. rewrite Rmin, Rmax. repeat split; assumption.
Qed.

Lemma xmul_nat_XQ xv n q : xmul_nat xv n = XQ q -> exists v, xv = XQ v /\ q = Qred (v * inject_Z (Z.of_nat n)).
Proof.
  destruct xv as [v| | |]; cbn [xmul_nat]; intro H.
  - injection H as <-. exists v. split; reflexivity.
  - discriminate.
  - destruct (n =? 0)%nat; discriminate.
  - destruct (n =? 0)%nat; discriminate.
Qed.

(** the ledger of an accepted [distribute]: [n * v] out of the source well, [v] into every destination,
    once per occurrence; nothing else changes *)
Lemma distribute_ledger s ks kd dwells a s' : distribute s ks kd dwells a = (s', None) -> wf_state s ->
  exists Ls Ld v i_s,
    nth_error (st_lw s) ks = Some Ls /\ nth_error (st_lw s) kd = Some Ld /\
    rvol_x (d_volume a) = Some (XQ v) /\ lw_index Ls (dist_src a) = Some i_s /\
    length (st_lw s') = length (st_lw s) /\
    forall j L, nth_error (st_lw s) j = Some L ->
      exists L', nth_error (st_lw s') j = Some L' /\ lw_geom L' = lw_geom L /\
        (j <> ks -> j <> kd -> L' = L) /\
        forall i, vol_at L' i == vol_at L i
            - (if ((j =? ks) && (i_s =? i))%nat
               then inject_Z (Z.of_nat (length (flattenF dwells))) * v else 0)
            + (if (j =? kd)%nat
               then inject_Z (Z.of_nat (occurrences L (flattenF dwells) i)) * v else 0).
Proof.
  intros H HS.
  destruct (dist_accepted _ _ _ _ _ _ H)
    as (Ls & Ld & xv & Ls' & Ld' & c & HLs & HLd & Exv & Hids & Er & Ea & Hlen & Hoth & Ldf & HLdf & Hobs & Hks').
  pose proof (wf_nth _ _ _ HS HLs) as WLs. pose proof (wf_nth _ _ _ HS HLd) as WLd.
  pose proof (remove_wf' _ _ _ _ _ _ Er WLs) as WLs'.
  destruct (remove_single_inv _ _ _ _ _ Er) as (i_s & q & Hx & Hq & His & Hc & HLs').
  destruct (xmul_nat_XQ _ _ _ Hx) as (v & -> & Hqv).
  pose proof (lw_index_bound _ _ _ (wf_shape_shape0 _ (proj1 WLs)) His) as Hbs.
  assert (HvS : forall i, vol_at Ls' i == vol_at Ls i
              - (if (i_s =? i)%nat then inject_Z (Z.of_nat (length (flattenF dwells))) * v else 0)).
  { intro i. rewrite HLs'. rewrite vol_at_log, vol_at_rem_one by exact Hbs.
    destruct (i_s =? i)%nat; [|ring]. rewrite Hqv, Qred_correct. ring. }
  assert (HgS : lw_geom Ls' = lw_geom Ls) by (rewrite HLs'; reflexivity).
  assert (WLd1 : wf_labware (if (ks =? kd)%nat then Ls' else Ld)) by (destruct (ks =? kd)%nat; assumption).
  destruct (add_ledger _ _ _ _ _ _ Ea (proj1 WLd1)) as (evs & Hev & _ & HJ).
  cbn [flattenF broadcast] in Hev.
  pose proof (events_scalar _ _ _ _ Hev) as Hsc.
  destruct (add_post _ _ _ _ _ _ Ea WLd1) as (Ag & _).
  pose proof Hobs as (O1 & O2 & O3 & O4 & O5).
  exists Ls, Ld, v, i_s. split; [exact HLs|]. split; [exact HLd|]. split; [exact Exv|]. split; [exact His|].
  split; [exact Hlen|].
  intros j L HL.
  destruct (Nat.eq_dec j kd) as [->|Hjd].
  - rewrite HLd in HL. injection HL as <-. exists Ldf. split; [exact HLdf|].
    rewrite Nat.eqb_refl.
    destruct (Nat.eqb_spec ks kd) as [<-|Hne].
    + rewrite HLs in HLd. injection HLd as <-. rewrite Nat.eqb_refl. cbn [andb].
      split; [rewrite O2, Ag; exact HgS|]. split; [intro C; exfalso; apply C; reflexivity|].
      intro i. rewrite (vol_at_obs _ _ i Hobs). unfold vol_at at 1. rewrite (HJ i).
      fold (vol_at Ls' i). rewrite (HvS i), (Hsc i), (occurrences_geom Ls' Ls _ i HgS). reflexivity.
    + assert (E : (kd =? ks)%nat = false) by (apply Nat.eqb_neq; intro C; apply Hne; symmetry; exact C).
      rewrite E. cbn [andb].
      split; [rewrite O2, Ag; reflexivity|]. split; [intros _ C; exfalso; apply C; reflexivity|].
      intro i. rewrite (vol_at_obs _ _ i Hobs). unfold vol_at at 1. rewrite (HJ i).
      fold (vol_at Ld i). rewrite (Hsc i). ring.
  - assert (E : (j =? kd)%nat = false) by (apply Nat.eqb_neq; exact Hjd). rewrite E.
    destruct (Nat.eq_dec j ks) as [->|Hjs].
    + rewrite HLs in HL. injection HL as <-. exists Ls'.
      split; [apply Hks'; exact Hjd|]. split; [exact HgS|].
      split; [intro C; exfalso; apply C; reflexivity|].
      intro i. rewrite Nat.eqb_refl. cbn [andb]. rewrite (HvS i). ring.
    + exists L. split; [rewrite (Hoth j Hjs Hjd); exact HL|]. split; [reflexivity|]. split; [reflexivity|].
      intro i. assert (E2 : (j =? ks)%nat = false) by (apply Nat.eqb_neq; exact Hjs). rewrite E2. cbn [andb]. ring.
Qed.

(* ------------------------------------------------------------------ distribute: rejected calls *)

Lemma prep_single w x wv : prep_wells_vols (A0 w) (A0 x) = Ok wv -> wv = [(w, x)].
Proof. intro H. destruct (prep_wells_vols_ok _ _ _ H) as (-> & _). reflexivity. Qed.

Lemma single_split {A} (pre : list A) it post x : (pre ++ it :: post)%list = [x] -> pre = [] /\ it = x /\ post = [].
Proof.
  destruct pre as [|p pre]; cbn [app]; intro H.
  - injection H as -> ->. repeat split.
  - injection H as _ H. exfalso. destruct pre; discriminate.
Qed.

(** a rejected single-pair [remove] changes nothing *)
Lemma remove_single_rejected L w x label L' e : remove L (A0 w) (A0 x) label = (L', Some e) -> L' = L.
Proof.
  intro H. apply remove_stopped_iff in H. destruct H as [(_ & -> & _)|(pre & it & post & Ep & Hpre & _)]; [reflexivity|].
  apply prep_single in Ep. destruct (single_split _ _ _ _ Ep) as (-> & _). cbn [remove_loop] in Hpre.
  injection Hpre as <-. reflexivity.
Qed.

Lemma not_rec_err_limit e : e = EUnderflow \/ e = EOverflow -> ~ rec_err e.
Proof. unfold rec_err. intros [->| ->] [C|[C|C]]; discriminate. Qed.

(** VolumeUnderflowError of [distribute]: nothing has happened, and the source well does not hold
    [n * v] above its minimum *)
Lemma distribute_underflow s ks kd dwells a s' : distribute s ks kd dwells a = (s', Some EUnderflow) ->
  s' = s /\
  exists Ls v i, nth_error (st_lw s) ks = Some Ls /\ rvol_x (d_volume a) = Some (XQ v) /\
    lw_index Ls (dist_src a) = Some i /\
    vol_at Ls i - inject_Z (Z.of_nat (length (flattenF dwells))) * v < lw_min Ls.
Proof.
  intro H. apply distribute_inv in H.
  destruct H as [(_ & e0 & C & Hr)|(Ls & Ld & xv & Ls' & e1 & HLs & HLd & Exv & Hval & Hids & Er & H)].
  { injection C as <-. exfalso. exact (not_rec_err_limit _ (or_introl eq_refl) Hr). }
  destruct Hval as (_ & _ & Hinf & _).
  destruct e1 as [e1|].
  - destruct H as [-> E]. injection E as <-.
    pose proof (remove_single_rejected _ _ _ _ _ _ Er) as ->. split; [apply set_lw_same; exact HLs|].
    apply remove_underflow_iff in Er. destruct Er as (pre & w & x & post & i & Ep & Hpre & Hi & Hx).
    apply prep_single in Ep. destruct (single_split _ _ _ _ Ep) as (-> & E & _). injection E as -> ->.
    destruct Hx as [Hx|(q & Hx & Hq & Hlt)].
    + exfalso. destruct xv as [v| | |]; cbn [xmul_nat] in Hx; try discriminate.
      * apply Hinf. reflexivity.
      * destruct (_ =? 0)%nat; discriminate.
    + destruct (xmul_nat_XQ _ _ _ Hx) as (v & -> & ->). exists Ls, v, i.
      split; [exact HLs|]. split; [exact Exv|]. split; [exact Hi|].
      rewrite Qred_correct in Hlt. lra.
  - destruct H as (c & Ld1 & Ld' & e2 & _ & _ & Ea & H). destruct e2 as [e2|].
    + destruct H as [_ E]. injection E as <-. destruct (add_errors _ _ _ _ _ _ _ Ea); discriminate.
    + destruct H as [_ Hr]. exfalso. exact (not_rec_err_limit _ (or_introl eq_refl) (Hr _ eq_refl)).
Qed.

(** VolumeOverflowError of [distribute]: the source has been drained and logged, the destinations before
    the offending one have been filled *)
Lemma distribute_overflow s ks kd dwells a s' : distribute s ks kd dwells a = (s', Some EOverflow) ->
  exists Ls Ld v Ls' c Ld1 Ld',
    nth_error (st_lw s) ks = Some Ls /\ nth_error (st_lw s) kd = Some Ld /\
    rvol_x (d_volume a) = Some (XQ v) /\
    remove Ls (A0 (dist_src a)) (A0 (xmul_nat (XQ v) (length (flattenF dwells)))) (d_label a) = (Ls', None) /\
    nth_error (st_lw (set_lw s ks Ls')) kd = Some Ld1 /\
    overflow_at Ld1 (A1 (flattenF dwells)) (A0 (XQ v))
                (Some (repeat (Some c) (length (flattenF dwells)))) Ld' /\
    s' = set_lw (set_lw s ks Ls') kd Ld'.
Proof.
  intro H. apply distribute_inv in H.
  destruct H as [(_ & e0 & C & Hr)|(Ls & Ld & xv & Ls' & e1 & HLs & HLd & Exv & Hval & Hids & Er & H)].
  { injection C as <-. exfalso. exact (not_rec_err_limit _ (or_intror eq_refl) Hr). }
  destruct e1 as [e1|].
  - destruct H as [_ E]. injection E as <-. destruct (remove_errors _ _ _ _ _ _ Er); discriminate.
  - destruct (remove_single_inv _ _ _ _ _ Er) as (i_s & q & Hx & _).
    destruct (xmul_nat_XQ _ _ _ Hx) as (v & -> & _).
    destruct H as (c & Ld1 & Ld' & e2 & _ & HLd1 & Ea & H). destruct e2 as [e2|].
    + destruct H as [-> E]. injection E as <-.
      exists Ls, Ld, v, Ls', c, Ld1, Ld'. split; [exact HLs|]. split; [exact HLd|]. split; [exact Exv|].
      split; [exact Er|]. split; [exact HLd1|]. split; [|reflexivity].
      apply (add_overflow_iff _ _ _ (d_label a)). exact Ea.
    + destruct H as [_ Hr]. exfalso. exact (not_rec_err_limit _ (or_intror eq_refl) (Hr _ eq_refl)).
Qed.

(** every rejected [distribute] *)
Lemma distribute_rejected s ks kd dwells a s' e : distribute s ks kd dwells a = (s', Some e) ->
  (s' = s /\ (rec_err e \/ e = EUnderflow)) \/
  (exists Ls xv Ls' c Ld1 Ld',
     nth_error (st_lw s) ks = Some Ls /\ rvol_x (d_volume a) = Some xv /\
     remove Ls (A0 (dist_src a)) (A0 (xmul_nat xv (length (flattenF dwells)))) (d_label a) = (Ls', None) /\
     nth_error (st_lw (set_lw s ks Ls')) kd = Some Ld1 /\
     ((add_stopped Ld1 (A1 (flattenF dwells)) (A0 xv)
                   (Some (repeat (Some c) (length (flattenF dwells)))) Ld' e /\
       (e = EOverflow \/ e = EReject) /\ s' = set_lw (set_lw s ks Ls') kd Ld') \/
      (add Ld1 (A1 (flattenF dwells)) (A0 xv) (d_label a)
           (Some (repeat (Some c) (length (flattenF dwells)))) = (Ld', None) /\
       st_lw s' = st_lw (if (ks =? kd)%nat
                         then condense_at (set_lw (set_lw s ks Ls') kd Ld') ks 2 (d_label a)
                         else set_lw (set_lw s ks Ls') kd Ld') /\
       rec_err e))).
Proof.
  intro H. apply distribute_inv in H.
  destruct H as [(-> & e0 & C & Hr)|(Ls & Ld & xv & Ls' & e1 & HLs & HLd & Exv & Hval & Hids & Er & H)].
  { injection C as <-. left. split; [reflexivity|left; exact Hr]. }
  destruct e1 as [e1|].
  - destruct H as [-> E]. injection E as ->. left.
    pose proof (remove_single_rejected _ _ _ _ _ _ Er) as ->. split; [apply set_lw_same; exact HLs|].
    destruct (remove_errors _ _ _ _ _ _ Er) as [->| ->]; [right; reflexivity|left; left; reflexivity].
  - destruct H as (c & Ld1 & Ld' & e2 & _ & HLd1 & Ea & H). right.
    exists Ls, xv, Ls', c, Ld1, Ld'. split; [exact HLs|]. split; [exact Exv|]. split; [exact Er|].
    split; [exact HLd1|]. destruct e2 as [e2|].
    + destruct H as [-> E]. injection E as ->. left.
      split; [apply (add_stopped_iff _ _ _ (d_label a)); exact Ea|].
      split; [exact (add_errors _ _ _ _ _ _ _ Ea)|reflexivity].
    + destruct H as [Hfin Hr]. right. split; [exact Ea|]. split; [exact Hfin|]. apply Hr. reflexivity.
Qed.

(** C08 / M7: an unknown destination id, or a source column the trough does not have: nothing happens *)
Lemma distribute_unknown_well s ks kd dwells a Ld :
  nth_error (st_lw s) kd = Some Ld -> (exists w, In w (flattenF dwells) /\ lw_index Ld w = None) ->
  exists e, distribute s ks kd dwells a = (s, Some e) /\ rec_err e.
Proof.
  intros HLd (w & Hw & Hi). destruct (distribute s ks kd dwells a) as [s' e] eqn:H.
  apply distribute_inv in H.
  destruct H as [(-> & e0 & -> & Hr)|(Ls & Ld0 & xv & Ls' & e1 & _ & HLd0 & _ & _ & Hids & _)].
  - exists e0. split; [reflexivity|exact Hr].
  - exfalso. rewrite HLd in HLd0. injection HLd0 as <-. exact (Hids w Hw Hi).
Qed.

Lemma distribute_bad_column s ks kd dwells a Ls :
  nth_error (st_lw s) ks = Some Ls -> (g_cols (lw_geom Ls) <= Z.to_nat (d_source_column a))%nat ->
  exists e, distribute s ks kd dwells a = (s, Some e) /\ rec_err e.
Proof.
  intros HLs Hc. destruct (distribute s ks kd dwells a) as [s' e] eqn:H.
  apply distribute_inv in H.
  destruct H as [(-> & e0 & -> & Hr)|(Ls0 & Ld0 & xv & Ls' & e1 & HLs0 & _ & _ & Hval & _)].
  - exists e0. split; [reflexivity|exact Hr].
  - exfalso. rewrite HLs in HLs0. injection HLs0 as <-. destruct Hval as (_ & _ & _ & _ & Hlt). lia.
Qed.

(* ------------------------------------------------------------------ transfer: inversion *)

(** the argument checks of [transfer] passed: device, labware, equal lengths after broadcasting, no negative
    volume, all well ids known, a valid [partition_by], a comment without separator *)
Definition transfer_valid (s : state) (ks kd : nat) (swells dwells : arr string) (vols : arr Q)
    (label : option string) (pb : string) (Ls Ld : labware) (mode : pmode) (w : wstate) : Prop :=
  w_dev (st_wl s) <> BaseDev /\
  nth_error (st_lw s) ks = Some Ls /\ nth_error (st_lw s) kd = Some Ld /\
  length (t_src swells dwells vols) = length (t_dst swells dwells vols) /\
  length (t_dst swells dwells vols) = length (t_vol swells dwells vols) /\
  (forall v, In v (t_vol swells dwells vols) -> 0 <= v) /\
  (forall x, In x (t_src swells dwells vols) -> lw_index Ls x <> None) /\
  (forall x, In x (t_dst swells dwells vols) -> lw_index Ld x <> None) /\
  optimize_partition_by (is_trough (lw_geom Ls)) (is_trough (lw_geom Ld)) pb = Ok mode /\
  comment (st_wl s) label = (w, None).

(** what [transfer] does once the arguments are accepted: run the plan, then condense the histories *)
Definition transfer_run (s : state) (ks kd : nat) (swells dwells : arr string) (vols : arr Q)
    (label : option string) (ws : scheme) (kw : kwargs) (mode : pmode) (w : wstate) : state * option err :=
  let triples := t_triples swells dwells vols in
  let m := w_max w in
  let acts := plan (w_autosplit w) m mode triples in
  match exec (set_wl s w) ks kd acts ws kw with
  | (s', Some e) => (s', Some e)
  | (s', None) =>
      let lab := lvh_label label (lvh_extra (w_autosplit w) m triples) in
      let n := n_steps acts in
      if (ks =? kd)%nat then (condense_at s' ks (2 * n) lab, None)
      else (condense_at (condense_at s' ks n lab) kd n lab, None)
  end.

Lemma existsb_false_all {A} (f : A -> bool) l : (forall x, In x l -> f x = false) -> existsb f l = false.
Proof.
  intro H. destruct (existsb f l) eqn:E; [|reflexivity].
  apply existsb_exists in E. destruct E as (x & Hx & Hf). rewrite (H x Hx) in Hf. discriminate.
Qed.

Lemma set_wl_same s : set_wl s (st_wl s) = s.
Proof. destruct s. reflexivity. Qed.

Lemma transfer_valid_eq s ks kd swells dwells vols label ws pb kw Ls Ld mode w :
  transfer_valid s ks kd swells dwells vols label pb Ls Ld mode w ->
  transfer s ks swells kd dwells vols label ws pb kw
  = transfer_run s ks kd swells dwells vols label ws kw mode w.
Proof.
  intros (Hdev & HLs & HLd & E1 & E2 & Hnn & Hsrc & Hdst & Eo & Ec).
  unfold transfer, transfer_run. cbv zeta. fold (t_n swells dwells vols).
  fold (t_src swells dwells vols). fold (t_dst swells dwells vols). fold (t_vol swells dwells vols).
  fold (t_triples swells dwells vols).
  rewrite HLs, HLd, E1, E2, !Nat.eqb_refl. cbn [andb negb].
  rewrite (existsb_false_all (fun v => Qltb v 0) (t_vol swells dwells vols))
    by (intros v Hv; apply Qltb_false_intro; apply Hnn; exact Hv).
  rewrite (existsb_false_all _ (t_src swells dwells vols))
    by (intros x Hx; specialize (Hsrc x Hx); destruct (lw_index Ls x); [reflexivity|congruence]).
  rewrite (existsb_false_all _ (t_dst swells dwells vols))
    by (intros x Hx; specialize (Hdst x Hx); destruct (lw_index Ld x); [reflexivity|congruence]).
  cbn [orb]. rewrite Eo, Ec.
  destruct (w_dev (st_wl s)); [reflexivity|reflexivity|congruence].
Qed.

Lemma transfer_cases s ks kd swells dwells vols label ws pb kw s' e :
  transfer s ks swells kd dwells vols label ws pb kw = (s', e) ->
  (s' = s /\ (e = Some EReject \/ e = Some ECompat)) \/
  exists Ls Ld mode w,
    transfer_valid s ks kd swells dwells vols label pb Ls Ld mode w /\
    transfer_run s ks kd swells dwells vols label ws kw mode w = (s', e).
Proof.
  intro H.
  destruct (w_dev (st_wl s)) eqn:Edev.
  3:{ rewrite (transfer_compat _ _ _ _ _ _ _ _ _ _ Edev) in H. injection H as <- <-. left. split; [reflexivity|right; reflexivity]. }
  all: assert (Hdev : w_dev (st_wl s) <> BaseDev) by (rewrite Edev; discriminate).
  all: destruct (nth_error (st_lw s) ks) as [Ls|] eqn:HLs;
    [|rewrite (transfer_reject _ _ _ _ _ _ _ _ _ _ Hdev) in H
        by (right; right; right; right; right; left; exact HLs);
      injection H as <- <-; left; split; [reflexivity|left; reflexivity]].
  all: destruct (nth_error (st_lw s) kd) as [Ld|] eqn:HLd;
    [|rewrite (transfer_reject _ _ _ _ _ _ _ _ _ _ Hdev) in H
        by (right; right; right; right; right; right; left; exact HLd);
      injection H as <- <-; left; split; [reflexivity|left; reflexivity]].
  all: destruct (Nat.eq_dec (length (t_src swells dwells vols)) (length (t_dst swells dwells vols))) as [E1|E1];
    [|rewrite (transfer_reject _ _ _ _ _ _ _ _ _ _ Hdev) in H by (left; exact E1);
      injection H as <- <-; left; split; [reflexivity|left; reflexivity]].
  all: destruct (Nat.eq_dec (length (t_dst swells dwells vols)) (length (t_vol swells dwells vols))) as [E2|E2];
    [|rewrite (transfer_reject _ _ _ _ _ _ _ _ _ _ Hdev) in H by (right; left; exact E2);
      injection H as <- <-; left; split; [reflexivity|left; reflexivity]].
  all: destruct (existsb (fun v => Qltb v 0) (t_vol swells dwells vols)) eqn:E3;
    [apply existsb_exists in E3; destruct E3 as (v & Hv & Hneg); apply Qltb_true in Hneg;
     rewrite (transfer_reject _ _ _ _ _ _ _ _ _ _ Hdev) in H
       by (right; right; left; exists v; split; assumption);
     injection H as <- <-; left; split; [reflexivity|left; reflexivity]|].
  all: destruct (existsb (fun x => match lw_index Ls x with None => true | Some _ => false end)
                         (t_src swells dwells vols)) eqn:E4;
    [apply existsb_exists in E4; destruct E4 as (x & Hx & Hnone);
     rewrite (transfer_reject _ _ _ _ _ _ _ _ _ _ Hdev) in H
       by (right; right; right; left; exists Ls, x; split; [exact HLs|split; [exact Hx|];
           destruct (lw_index Ls x); [discriminate|reflexivity]]);
     injection H as <- <-; left; split; [reflexivity|left; reflexivity]|].
  all: destruct (existsb (fun x => match lw_index Ld x with None => true | Some _ => false end)
                         (t_dst swells dwells vols)) eqn:E5;
    [apply existsb_exists in E5; destruct E5 as (x & Hx & Hnone);
     rewrite (transfer_reject _ _ _ _ _ _ _ _ _ _ Hdev) in H
       by (right; right; right; right; left; exists Ld, x; split; [exact HLd|split; [exact Hx|];
           destruct (lw_index Ld x); [discriminate|reflexivity]]);
     injection H as <- <-; left; split; [reflexivity|left; reflexivity]|].
  all: assert (Hnn : forall v, In v (t_vol swells dwells vols) -> 0 <= v)
    by (intros v Hv; apply Qltb_false; exact (existsb_false_forall _ _ E3 v Hv)).
  all: assert (Hsrc : forall x, In x (t_src swells dwells vols) -> lw_index Ls x <> None)
    by (intros x Hx C; pose proof (existsb_false_forall _ _ E4 x Hx) as C2; cbv beta in C2; rewrite C in C2; discriminate).
  all: assert (Hdst : forall x, In x (t_dst swells dwells vols) -> lw_index Ld x <> None)
    by (intros x Hx C; pose proof (existsb_false_forall _ _ E5 x Hx) as C2; cbv beta in C2; rewrite C in C2; discriminate).
  all: revert H; unfold transfer; cbv zeta; fold (t_n swells dwells vols);
    fold (t_src swells dwells vols); fold (t_dst swells dwells vols); fold (t_vol swells dwells vols);
    fold (t_triples swells dwells vols);
    rewrite Edev, HLs, HLd, E1, E2, !Nat.eqb_refl, E3, E4, E5; cbn [andb negb orb]; intro H.
  all: destruct (optimize_partition_by (is_trough (lw_geom Ls)) (is_trough (lw_geom Ld)) pb) as [mode|eo] eqn:Eo;
    [|injection H as <- <-; left; split; [reflexivity|left; reflexivity]].
  all: destruct (comment (st_wl s) label) as [w [ec|]] eqn:Ec;
    [injection H as <- <-; apply comment_err in Ec; destruct Ec as [-> ->]; left;
     split; [apply set_wl_same|left; reflexivity]|].
  all: right; exists Ls, Ld, mode, w; split;
    [repeat (split; [assumption|]); assumption|exact H].
Qed.

(* ------------------------------------------------------------------ single-pair calls (the steps of a transfer) *)

Lemma remove_single_underflow_iff L w v label L' :
  remove L (A0 w) (A0 (XQ v)) label = (L', Some EUnderflow) <->
  L' = L /\ 0 <= v /\ exists i, lw_index L w = Some i /\ vol_at L i - v < lw_min L.
Proof.
  unfold remove, prep_wells_vols.
  cbn [flattenF broadcast length repeat Nat.eqb negb forallb vol_ok]. rewrite andb_true_r.
  destruct (Qle_bool 0 v) eqn:Ev; cbn [negb zip].
  - apply Qle_bool_iff in Ev. rewrite remove_loop_cons.
    destruct (lw_index L w) as [i|].
    + destruct (Qltb (Qred (vol_at L i - v)) (lw_min L)) eqn:Eq.
      * apply Qltb_true in Eq. rewrite Qred_correct in Eq. split.
        -- intro H. injection H as <-. split; [reflexivity|]. split; [exact Ev|]. exists i. split; [reflexivity|exact Eq].
        -- intros (-> & _). reflexivity.
      * apply Qltb_false in Eq. rewrite Qred_correct in Eq. cbn [remove_loop]. split; [discriminate|].
        intros (_ & _ & i0 & E & Hlt). injection E as <-. lra.
    + split; [discriminate|]. intros (_ & _ & i0 & E & _). discriminate.
  - split; [discriminate|]. intros (_ & Hv & _). apply Qle_bool_iff in Hv. congruence.
Qed.

Lemma add_single_overflow_iff L w v label c L' :
  add L (A0 w) (A0 (XQ v)) label (Some [Some c]) = (L', Some EOverflow) <->
  L' = L /\ 0 <= v /\ exists i, lw_index L w = Some i /\ lw_max L < vol_at L i + v.
Proof.
  unfold add, prep_wells_vols.
  cbn [flattenF broadcast length repeat Nat.eqb negb forallb vol_ok]. rewrite andb_true_r.
  destruct (Qle_bool 0 v) eqn:Ev; cbn [negb zip length Nat.eqb map fst snd].
  - apply Qle_bool_iff in Ev. rewrite add_loop_cons.
    destruct (lw_index L w) as [i|].
    + destruct (Qgtb (Qred (vol_at L i + v)) (lw_max L)) eqn:Eq.
      * apply Qgtb_true in Eq. rewrite Qred_correct in Eq. split.
        -- intro H. injection H as <-. split; [reflexivity|]. split; [exact Ev|]. exists i. split; [reflexivity|exact Eq].
        -- intros (-> & _). reflexivity.
      * apply Qgtb_false in Eq. rewrite Qred_correct in Eq. cbn [add_loop]. split; [discriminate|].
        intros (_ & _ & i0 & E & Hlt). injection E as <-. lra.
    + split; [discriminate|]. intros (_ & _ & i0 & E & _). discriminate.
  - split; [discriminate|]. intros (_ & Hv & _). apply Qle_bool_iff in Hv. congruence.
Qed.

Lemma tip_action_err w ws w' e : tip_action w ws = (w', Some e) -> e = EReject.
Proof.
  assert (Hw : forall sc, wash w sc = (w', Some e) -> e = EReject).
  { intro sc. unfold wash. destruct (w_diti w); [discriminate|].
    destruct sc as [z| | | |]; try (intro H; injection H as _ <-; reflexivity).
    destruct ((1 <=? z)%Z && (z <=? 4)%Z); [discriminate|]. intro H. injection H as _ <-. reflexivity. }
  unfold tip_action. destruct ws as [z| | | |]; try apply Hw; unfold flush; try discriminate.
  destruct (w_dev w); discriminate.
Qed.

(* ------------------------------------------------------------------ exec: where it stops *)

Lemma exec_app ks kd ws kw pre : forall s rest,
  exec s ks kd (pre ++ rest) ws kw =
  match exec s ks kd pre ws kw with (s1, None) => exec s1 ks kd rest ws kw | r => r end.
Proof.
  induction pre as [|[sw dw v|] pre IH]; intros s rest; cbn [app exec]; [reflexivity| |apply IH].
  destruct (exec_step s ks kd sw dw v ws kw) as [s1 [e|]]; [reflexivity|apply IH].
Qed.

Lemma exec_stopped ks kd ws kw acts : forall s s' e, exec s ks kd acts ws kw = (s', Some e) ->
  exists pre sw dw v post s1,
    acts = (pre ++ Step sw dw v :: post)%list /\ exec s ks kd pre ws kw = (s1, None) /\
    exec_step s1 ks kd sw dw v ws kw = (s', Some e).
Proof.
  induction acts as [|[sw dw v|] acts IH]; intros s s' e H; cbn [exec] in H; [discriminate| |].
  - destruct (exec_step s ks kd sw dw v ws kw) as [s1 [e1|]] eqn:E.
    + injection H as <- <-. exists [], sw, dw, v, acts, s. split; [reflexivity|]. split; [reflexivity|exact E].
    + destruct (IH _ _ _ H) as (pre & sw' & dw' & v' & post & s2 & -> & Hpre & Hst).
      exists (Step sw dw v :: pre), sw', dw', v', post, s2. split; [reflexivity|]. split; [|exact Hst].
      cbn [exec]. rewrite E. exact Hpre.
  - destruct (IH _ _ _ H) as (pre & sw' & dw' & v' & post & s2 & -> & Hpre & Hst).
    exists (Commit :: pre), sw', dw', v', post, s2. split; [reflexivity|]. split; [|exact Hst].
    cbn [exec]. exact Hpre.
Qed.

Lemma exec_step_stopped s ks kd sw dw v ws kw s' e : exec_step s ks kd sw dw v ws kw = (s', Some e) ->
  aspirate s ks (A0 sw) (A0 (XQ v)) None kw = (s', Some e) \/
  exists s1, aspirate s ks (A0 sw) (A0 (XQ v)) None kw = (s1, None) /\
    ((s' = s1 /\ e = EReject) \/
     exists Ls c, nth_error (st_lw s1) ks = Some Ls /\ get_well_composition Ls sw = Ok c /\
       (dispense s1 kd (A0 dw) (A0 (XQ v)) None (Some [Some c]) kw = (s', Some e) \/
        exists s2, dispense s1 kd (A0 dw) (A0 (XQ v)) None (Some [Some c]) kw = (s2, None) /\
                   st_lw s' = st_lw s2 /\ e = EReject)).
Proof.
  unfold exec_step. intro H.
  destruct (aspirate s ks (A0 sw) (A0 (XQ v)) None kw) as [s1 [e1|]] eqn:Ea; [left; exact H|].
  right. exists s1. split; [reflexivity|].
  destruct (nth_error (st_lw s1) ks) as [Ls|] eqn:HLs; [|injection H as <- <-; left; split; reflexivity].
  destruct (get_well_composition Ls sw) as [c|e2] eqn:Eg.
  2:{ injection H as <- <-. left. split; [reflexivity|]. unfold get_well_composition in Eg.
      destruct (lw_index Ls sw); [discriminate|]. injection Eg as <-. reflexivity. }
  right. exists Ls, c. split; [reflexivity|]. split; [exact Eg|].
  destruct (dispense s1 kd (A0 dw) (A0 (XQ v)) None (Some [Some c]) kw) as [s2 [e3|]] eqn:Ed; [left; exact H|].
  right. exists s2. split; [reflexivity|].
  destruct (tip_action (st_wl s2) ws) as [w' e4] eqn:Et. injection H as <- ->. split; [reflexivity|].
  eapply tip_action_err. exact Et.
Qed.

(* ------------------------------------------------------------------ transfer: volume-limit errors, exactly *)

Lemma transfer_run_err s ks kd swells dwells vols label ws kw mode w s' e :
  transfer_run s ks kd swells dwells vols label ws kw mode w = (s', Some e) ->
  exec (set_wl s w) ks kd (plan (w_autosplit w) (w_max w) mode (t_triples swells dwells vols)) ws kw
  = (s', Some e).
Proof.
  unfold transfer_run. cbv zeta.
  destruct (exec (set_wl s w) ks kd _ ws kw) as [s2 [e2|]]; [exact (fun H => H)|].
  destruct (ks =? kd)%nat; discriminate.
Qed.

Lemma tracked_some_lw f s k s' e : tracked_call f s k s' (Some e) -> e <> EReject ->
  exists L, nth_error (st_lw s) k = Some L.
Proof.
  unfold tracked_call. destruct (nth_error (st_lw s) k) as [L|]; [intros _ _; exists L; reflexivity|].
  intros [_ C] Hne. injection C as ->. exfalso. apply Hne. reflexivity.
Qed.

(** VolumeUnderflowError of [transfer]: the arguments were accepted, [s'] is the state after the steps
    before the offending one (their liquid moved, their records written), and in [s'] the source well of
    the next step holds less than min_volume + its volume.  Both directions. *)
Lemma transfer_underflow_iff s ks kd swells dwells vols label ws pb kw s' :
  transfer s ks swells kd dwells vols label ws pb kw = (s', Some EUnderflow) <->
  exists Ls Ld mode w pre sw dw v post L i,
    transfer_valid s ks kd swells dwells vols label pb Ls Ld mode w /\
    plan (w_autosplit w) (w_max w) mode (t_triples swells dwells vols)
      = (pre ++ Step sw dw v :: post)%list /\
    exec (set_wl s w) ks kd pre ws kw = (s', None) /\
    nth_error (st_lw s') ks = Some L /\ lw_index L sw = Some i /\ vol_at L i - v < lw_min L.
Proof.
  split.
  - intro H. apply transfer_cases in H.
    destruct H as [(_ & [C|C])|(Ls & Ld & mode & w & Hval & Hrun)]; try discriminate.
    apply transfer_run_err in Hrun.
    destruct (exec_stopped _ _ _ _ _ _ _ _ Hrun) as (pre & sw & dw & v & post & s1 & Hplan & Hpre & Hst).
    apply exec_step_stopped in Hst.
    destruct Hst as [Ha|(s2 & Ha & [(_ & C)|(Lx & c & _ & _ & [Hd|(s3 & _ & _ & C)])])]; try discriminate.
    + pose proof (aspirate_tracked _ _ _ _ _ _ _ _ Ha) as T.
      destruct (tracked_some_lw _ _ _ _ _ T) as [L HL]; [discriminate|].
      destruct (removing_underflow _ _ _ _ _ _ _ T HL) as (L' & Hu & ->).
      apply (remove_underflow_iff L (A0 sw) (A0 (XQ v)) None) in Hu.
      apply remove_single_underflow_iff in Hu. destruct Hu as (-> & _ & i & Hi & Hlt).
      rewrite (set_lw_same _ _ _ HL) in *.
      exists Ls, Ld, mode, w, pre, sw, dw, v, post, L, i. split; [exact Hval|]. repeat split; assumption.
    + exfalso. exact (adding_no_underflow _ _ _ _ _ _ _ (dispense_tracked _ _ _ _ _ _ _ _ _ Hd)).
  - intros (Ls & Ld & mode & w & pre & sw & dw & v & post & L & i & Hval & Hplan & Hpre & HL & Hi & Hlt).
    rewrite (transfer_valid_eq _ _ _ _ _ _ _ ws _ kw _ _ _ _ Hval). unfold transfer_run. cbv zeta.
    assert (Hv : 0 < v).
    { apply (plan_steps_pos (w_autosplit w) (w_max w) mode (t_triples swells dwells vols) sw dw).
      rewrite Hplan. apply in_elt. }
    rewrite Hplan, exec_app, Hpre. cbn [exec]. unfold exec_step.
    assert (Hr : remove L (A0 sw) (A0 (XQ v)) None = (L, Some EUnderflow)).
    { apply remove_single_underflow_iff. split; [reflexivity|]. split; [lra|]. exists i. split; assumption. }
    rewrite (aspirate_of_remove_err _ _ _ _ _ kw _ _ _ HL Hr), (set_lw_same _ _ _ HL). reflexivity.
Qed.

(** VolumeOverflowError of [transfer]: as above, but the aspirate of the offending step has been applied
    ([s'] is the state after it): the liquid has left the source and the A record is written *)
Lemma transfer_overflow_iff s ks kd swells dwells vols label ws pb kw s' :
  transfer s ks swells kd dwells vols label ws pb kw = (s', Some EOverflow) <->
  exists Ls Ld mode w pre sw dw v post s1 L i,
    transfer_valid s ks kd swells dwells vols label pb Ls Ld mode w /\
    plan (w_autosplit w) (w_max w) mode (t_triples swells dwells vols)
      = (pre ++ Step sw dw v :: post)%list /\
    exec (set_wl s w) ks kd pre ws kw = (s1, None) /\
    aspirate s1 ks (A0 sw) (A0 (XQ v)) None kw = (s', None) /\
    nth_error (st_lw s') kd = Some L /\ lw_index L dw = Some i /\ lw_max L < vol_at L i + v.
Proof.
  split.
  - intro H. apply transfer_cases in H.
    destruct H as [(_ & [C|C])|(Ls & Ld & mode & w & Hval & Hrun)]; try discriminate.
    apply transfer_run_err in Hrun.
    destruct (exec_stopped _ _ _ _ _ _ _ _ Hrun) as (pre & sw & dw & v & post & s1 & Hplan & Hpre & Hst).
    apply exec_step_stopped in Hst.
    destruct Hst as [Ha|(s2 & Ha & [(_ & C)|(Lx & c & _ & _ & [Hd|(s3 & _ & _ & C)])])]; try discriminate.
    + exfalso. exact (removing_no_overflow _ _ _ _ _ _ (aspirate_tracked _ _ _ _ _ _ _ _ Ha)).
    + pose proof (dispense_tracked _ _ _ _ _ _ _ _ _ Hd) as T.
      destruct (tracked_some_lw _ _ _ _ _ T) as [L HL]; [discriminate|].
      destruct (adding_overflow _ _ _ _ _ _ _ _ T HL) as (L' & Hu & ->).
      apply (add_overflow_iff L (A0 dw) (A0 (XQ v)) None) in Hu.
      apply add_single_overflow_iff in Hu. destruct Hu as (-> & _ & i & Hi & Hlt).
      rewrite (set_lw_same _ _ _ HL) in *.
      exists Ls, Ld, mode, w, pre, sw, dw, v, post, s1, L, i. split; [exact Hval|]. repeat split; assumption.
  - intros (Ls & Ld & mode & w & pre & sw & dw & v & post & s1 & L & i & Hval & Hplan & Hpre & Ha & HL & Hi & Hlt).
    rewrite (transfer_valid_eq _ _ _ _ _ _ _ ws _ kw _ _ _ _ Hval). unfold transfer_run. cbv zeta.
    assert (Hv : 0 < v).
    { apply (plan_steps_pos (w_autosplit w) (w_max w) mode (t_triples swells dwells vols) sw dw).
      rewrite Hplan. apply in_elt. }
    rewrite Hplan, exec_app, Hpre. cbn [exec]. unfold exec_step. rewrite Ha.
    destruct (aspirate_single_state _ _ _ _ _ _ Ha) as (Ls0 & i_s & HLs0 & His & _ & _ & Hst).
    assert (HLs1 : nth_error (st_lw s') ks = Some (log (rem_one Ls0 i_s v) None)).
    { rewrite Hst. apply RefinementProofs.nth_error_upd_same. eapply nth_error_lt. exact HLs0. }
    rewrite HLs1. unfold get_well_composition.
    assert (Hidx : lw_index (log (rem_one Ls0 i_s v) None) sw = Some i_s) by exact His.
    rewrite Hidx.
    match goal with |- context [dispense s' kd (A0 dw) (A0 (XQ v)) None (Some [Some ?c]) kw] =>
      assert (Hr : add L (A0 dw) (A0 (XQ v)) None (Some [Some c]) = (L, Some EOverflow)) end.
    { apply add_single_overflow_iff. split; [reflexivity|]. split; [lra|]. exists i. split; assumption. }
    rewrite (dispense_of_add_err _ _ _ _ _ _ kw _ _ _ HL Hr), (set_lw_same _ _ _ HL). reflexivity.
Qed.

(* ------------------------------------------------------------------ limits and geometry never change *)

Definition lims (L : labware) : string * geom * Q * Q * nat :=
  (lw_name L, lw_geom L, lw_min L, lw_max L, length (lw_vols L)).

Lemma same_lims_eq L L' : same_lims L L' -> lims L' = lims L.
Proof. intros (A1 & A2 & A3 & A4 & A5). unfold lims. rewrite A1, A2, A3, A4, A5. reflexivity. Qed.

Lemma lims_eq_same L L' : lims L' = lims L -> same_lims L L'.
Proof. unfold lims. intro H. injection H as A1 A2 A3 A4 A5. repeat split; assumption. Qed.

Lemma lims_upd lws k L L' : nth_error lws k = Some L -> lims L' = lims L ->
  map lims (upd lws k L') = map lims lws.
Proof. intros HL E. rewrite map_upd, E. apply upd_same. apply map_nth_error. exact HL. Qed.

Lemma nth_error_map_inv {A B} (f : A -> B) l : forall j y, nth_error (map f l) j = Some y ->
  exists x, nth_error l j = Some x /\ f x = y.
Proof.
  induction l as [|a l IH]; intros [|j] y H; cbn [map nth_error] in H; try discriminate.
  - injection H as <-. exists a. split; reflexivity.
  - exact (IH j y H).
Qed.

Lemma lims_nth lws lws' j L : map lims lws' = map lims lws -> nth_error lws j = Some L ->
  exists L', nth_error lws' j = Some L' /\ same_lims L L'.
Proof.
  intros H HL. pose proof (map_nth_error lims _ _ HL) as E. rewrite <- H in E.
  destruct (nth_error_map_inv _ _ _ _ E) as (L' & HL' & El). exists L'. split; [exact HL'|].
  apply lims_eq_same. exact El.
Qed.

Lemma tracked_lims f : (forall L L' e, f L = (L', e) -> same_lims L L') ->
  forall s k s' e, tracked_call f s k s' e -> map lims (st_lw s') = map lims (st_lw s).
Proof.
  intros Hf s k s' e H. unfold tracked_call in H. destruct (nth_error (st_lw s) k) as [L|] eqn:HL.
  - destruct H as (L' & er & E & -> & _). cbn [set_lw st_lw]. apply (lims_upd _ _ L); [exact HL|].
    apply same_lims_eq. eapply Hf. exact E.
  - destruct H as [-> _]. reflexivity.
Qed.

Lemma aspirate_lims_all s k wells vols label kw s' e : aspirate s k wells vols label kw = (s', e) ->
  map lims (st_lw s') = map lims (st_lw s).
Proof.
  intro H. apply aspirate_tracked in H. revert H. apply tracked_lims.
  intros L L' e0 E. exact (proj1 (remove_any _ _ _ _ _ _ E)).
Qed.

Lemma dispense_lims_all s k wells vols label comps kw s' e : dispense s k wells vols label comps kw = (s', e) ->
  map lims (st_lw s') = map lims (st_lw s).
Proof.
  intro H. apply dispense_tracked in H. revert H. apply tracked_lims.
  intros L L' e0 E. exact (proj1 (add_any _ _ _ _ _ _ _ E)).
Qed.

Lemma exec_step_lims s ks kd sw dw v ws kw s' e : exec_step s ks kd sw dw v ws kw = (s', e) ->
  map lims (st_lw s') = map lims (st_lw s).
Proof.
  unfold exec_step. intro H.
  destruct (aspirate s ks (A0 sw) (A0 (XQ v)) None kw) as [s1 e1] eqn:Ea.
  pose proof (aspirate_lims_all _ _ _ _ _ _ _ _ Ea) as H1.
  destruct e1 as [e1|]; [injection H as <- _; exact H1|].
  destruct (nth_error (st_lw s1) ks) as [Ls|]; [|injection H as <- _; exact H1].
  destruct (get_well_composition Ls sw) as [c|e2]; [|injection H as <- _; exact H1].
  destruct (dispense s1 kd (A0 dw) (A0 (XQ v)) None (Some [Some c]) kw) as [s2 e3] eqn:Ed.
  pose proof (dispense_lims_all _ _ _ _ _ _ _ _ _ Ed) as H2.
  destruct e3 as [e3|]; [injection H as <- _; congruence|].
  destruct (tip_action (st_wl s2) ws) as [w' e4]. injection H as <- _. cbn [set_wl st_lw]. congruence.
Qed.

Lemma exec_lims ks kd ws kw acts : forall s s' e, exec s ks kd acts ws kw = (s', e) ->
  map lims (st_lw s') = map lims (st_lw s).
Proof.
  induction acts as [|[sw dw v|] acts IH]; intros s s' e H; cbn [exec] in H.
  - injection H as <- _. reflexivity.
  - destruct (exec_step s ks kd sw dw v ws kw) as [s1 [e1|]] eqn:E.
    + injection H as <- _. eapply exec_step_lims. exact E.
    + rewrite (IH _ _ _ H). eapply exec_step_lims. exact E.
  - exact (IH _ _ _ H).
Qed.

Lemma condense_at_lims s k n label : map lims (st_lw (condense_at s k n label)) = map lims (st_lw s).
Proof.
  unfold condense_at. destruct (nth_error (st_lw s) k) as [L|] eqn:HL; [|reflexivity].
  cbn [set_lw st_lw]. apply (lims_upd _ _ L); [exact HL|]. apply same_lims_eq, same_obs_lims, condense_obs.
Qed.

Lemma condense_at_nth s k n label j L : nth_error (st_lw s) j = Some L ->
  exists L', nth_error (st_lw (condense_at s k n label)) j = Some L' /\ same_obs L L'.
Proof.
  intro HL. unfold condense_at. destruct (nth_error (st_lw s) k) as [Lk|] eqn:Hk.
  - cbn [set_lw st_lw]. destruct (Nat.eq_dec k j) as [->|Hne].
    + rewrite HL in Hk. injection Hk as <-. exists (condense_log L n label).
      split; [apply RefinementProofs.nth_error_upd_same; eapply nth_error_lt; exact HL|apply condense_obs].
    + exists L. split; [rewrite nth_error_upd_other by exact Hne; exact HL|repeat split].
  - exists L. split; [exact HL|repeat split].
Qed.

(** every outcome of [transfer] keeps names, geometry, limits and array sizes of all labware *)
Lemma transfer_lims s ks kd swells dwells vols label ws pb kw s' e :
  transfer s ks swells kd dwells vols label ws pb kw = (s', e) ->
  map lims (st_lw s') = map lims (st_lw s).
Proof.
  intro H. apply transfer_cases in H.
  destruct H as [(-> & _)|(Ls & Ld & mode & w & _ & Hrun)]; [reflexivity|].
  unfold transfer_run in Hrun. cbv zeta in Hrun.
  destruct (exec (set_wl s w) ks kd _ ws kw) as [s2 [e2|]] eqn:Ee;
    pose proof (exec_lims _ _ _ _ _ _ _ _ Ee) as H2; cbn [set_wl st_lw] in H2.
  - injection Hrun as <- _. exact H2.
  - destruct (ks =? kd)%nat; injection Hrun as <- _; rewrite ?condense_at_lims; exact H2.
Qed.

(* ------------------------------------------------------------------ transfer: source wells stay at or above min *)

Lemma exec_step_ks s ks kd sw dw v ws kw s' L :
  exec_step s ks kd sw dw v ws kw = (s', None) -> wf_state s -> nth_error (st_lw s) ks = Some L ->
  exists L' i_s, nth_error (st_lw s') ks = Some L' /\ same_lims L L' /\ lw_index L sw = Some i_s /\
    (forall i, vol_at L i - (if (i_s =? i)%nat then v else 0) <= vol_at L' i) /\
    lw_min L <= vol_at L i_s - v /\ 0 <= v.
Proof.
  intros H HS HL.
  destruct (exec_step_state _ _ _ _ _ _ _ _ _ H)
    as (Ls & i_s & Ld1 & i_d & HLs & His & Hc & Hv & HLd1 & Hid & _ & Hst).
  rewrite HL in HLs. injection HLs as <-.
  pose proof (nth_error_lt _ _ _ HL) as Hks.
  pose proof (lw_index_bound _ _ _ (wf_shape_shape0 _ (proj1 (wf_nth _ _ _ HS HL))) His) as Hbs.
  apply Qltb_false in Hc. rewrite Qred_correct in Hc.
  set (L1 := log (rem_one L i_s v) None) in *.
  assert (Hl1 : same_lims L L1).
  { apply (same_lims_trans _ (rem_one L i_s v)); [apply same_frame_lims, rem_one_frame|].
    apply same_obs_lims, log_obs. }
  assert (Hv1 : forall i, vol_at L1 i == vol_at L i - (if (i_s =? i)%nat then v else 0)).
  { intro i. unfold L1. rewrite vol_at_log, vol_at_rem_one by exact Hbs. destruct (i_s =? i)%nat; ring. }
  destruct (Nat.eq_dec ks kd) as [<-|Hne].
  - rewrite RefinementProofs.nth_error_upd_same in HLd1 by exact Hks. injection HLd1 as <-.
    match type of Hst with _ = upd _ _ ?X => set (L2 := X) in * end.
    exists L2, i_s. split; [rewrite Hst; apply RefinementProofs.nth_error_upd_same; rewrite upd_length; exact Hks|].
    split.
    { apply (same_lims_trans _ L1); [exact Hl1|]. unfold L2.
      eapply same_lims_trans; [apply same_frame_lims, add_one_frame|apply same_obs_lims, log_obs]. }
    split; [exact His|]. split; [|split; [exact Hc|exact Hv]].
    intro i. rewrite <- (Hv1 i). unfold L2. rewrite vol_at_log. apply add_one_ge. exact Hv.
  - exists L1, i_s. split.
    { rewrite Hst, nth_error_upd_other by (intro C; apply Hne; symmetry; exact C).
      apply RefinementProofs.nth_error_upd_same. exact Hks. }
    split; [exact Hl1|]. split; [exact His|]. split; [|split; [exact Hc|exact Hv]].
    intro i. rewrite (Hv1 i). lra.
Qed.

Lemma exec_ge ks kd ws kw acts : forall s s', exec s ks kd acts ws kw = (s', None) -> wf_state s ->
  forall L, nth_error (st_lw s) ks = Some L ->
  exists L', nth_error (st_lw s') ks = Some L' /\ same_lims L L' /\
    (forall i, lw_min L <= vol_at L i -> lw_min L <= vol_at L' i) /\
    forall sw dw v, In (Step sw dw v) acts -> exists i, lw_index L sw = Some i /\ lw_min L <= vol_at L' i.
Proof.
  induction acts as [|[sw dw v|] acts IH]; intros s s' H HS L HL; cbn [exec] in H.
  - injection H as <-. exists L. split; [exact HL|]. split; [apply same_lims_refl|]. split; [auto|].
    intros sw dw v [].
  - destruct (exec_step s ks kd sw dw v ws kw) as [s1 [e1|]] eqn:E; [discriminate|].
    destruct (exec_step_ks _ _ _ _ _ _ _ _ _ _ E HS HL) as (L1 & i_s & HL1 & Hl1 & His & Hv1 & Hc & Hv).
    pose proof (exec_step_wf' _ _ _ _ _ _ _ _ _ _ E HS) as HS1.
    destruct (IH _ _ H HS1 L1 HL1) as (L' & HL' & Hl' & Hge & Hst).
    pose proof Hl1 as (_ & G1 & M1 & _).
    assert (Hkeep : forall i, lw_min L <= vol_at L i -> lw_min L <= vol_at L1 i).
    { intros i Hi. specialize (Hv1 i). destruct (i_s =? i)%nat eqn:Eq; [apply Nat.eqb_eq in Eq; subst i|]; lra. }
    exists L'. split; [exact HL'|]. split; [eapply same_lims_trans; eassumption|].
    split.
    { intros i Hi. rewrite <- M1. apply Hge. rewrite M1. apply Hkeep. exact Hi. }
    intros sw0 dw0 v0 [Heq|Hin].
    + injection Heq as <- <- <-. exists i_s. split; [exact His|].
      rewrite <- M1. apply Hge. rewrite M1. specialize (Hv1 i_s). rewrite Nat.eqb_refl in Hv1. lra.
    + destruct (Hst _ _ _ Hin) as (i & Hi & Hm). exists i.
      split; [rewrite <- (lw_index_geom L1 L sw0 G1); exact Hi|]. rewrite <- M1. exact Hm.
  - destruct (IH _ _ H (wf_set_wl _ _ HS) L HL) as (L' & HL' & Hl' & Hge & Hst).
    exists L'. split; [exact HL'|]. split; [exact Hl'|]. split; [exact Hge|].
    intros sw0 dw0 v0 [Heq|Hin]; [discriminate|]. exact (Hst _ _ _ Hin).
Qed.

(** every requested triple with a positive volume produces at least one step (no splitting, or a
    positive max_volume) *)
Lemma plan_covers a m mode triples sw dw v : In (sw, dw, v) triples -> 0 < v -> a = false \/ 0 < m ->
  exists v', In (Step sw dw v') (plan a m mode triples).
Proof.
  intros Hin Hv Ham.
  assert (Hex : exists v', In v' (vol_list a m v) /\ 0 < v').
  { destruct a.
    - destruct Ham as [C|Hm]; [discriminate|]. cbn [vol_list].
      destruct (partition_volume_spec v m Hm Hv) as (_ & Hall & Hsum). cbv zeta in Hall, Hsum.
      destruct (partition_volume v m) as [|x r].
      + unfold Qsum in Hsum. cbn [fold_right] in Hsum. lra.
      + exists x. split; [left; reflexivity|]. inversion Hall as [|y l Hx _]; subst. exact (proj1 Hx).
    - exists v. split; [left; reflexivity|exact Hv]. }
  destruct Hex as (v' & Hv' & Hpos). exists v'. apply plan_step_origin. exists v. repeat split; assumption.
Qed.

Lemma transfer_run_ok s ks kd swells dwells vols label ws kw mode w s' :
  transfer_run s ks kd swells dwells vols label ws kw mode w = (s', None) ->
  exists s2 n1 n2 lab,
    exec (set_wl s w) ks kd (plan (w_autosplit w) (w_max w) mode (t_triples swells dwells vols)) ws kw
    = (s2, None) /\
    s' = condense_at (condense_at s2 ks n1 lab) kd n2 lab.
Proof.
  unfold transfer_run. cbv zeta.
  destruct (exec (set_wl s w) ks kd _ ws kw) as [s2 [e2|]]; [discriminate|].
  destruct (Nat.eqb_spec ks kd) as [<-|Hne]; intro H; injection H as <-.
  - exists s2. eexists. exists 0%nat. eexists. split; [reflexivity|].
    match goal with |- _ = condense_at ?t ks 0 ?l => assert (E : condense_at t ks 0 l = t) end.
    { unfold condense_at. destruct (nth_error (st_lw _) ks) as [Lk|] eqn:Hk; [|reflexivity].
      unfold condense_log. cbn [Nat.ltb Nat.leb]. apply set_lw_same. exact Hk. }
    rewrite E. reflexivity.
  - exists s2. eexists. eexists. eexists. split; reflexivity.
Qed.

(** POST of an accepted [transfer] *)
Lemma transfer_post s ks kd swells dwells vols label ws pb kw s' :
  transfer s ks swells kd dwells vols label ws pb kw = (s', None) -> wf_state s ->
  exists Ls Ld Lsf Ldf,
    nth_error (st_lw s) ks = Some Ls /\ nth_error (st_lw s) kd = Some Ld /\
    nth_error (st_lw s') ks = Some Lsf /\ nth_error (st_lw s') kd = Some Ldf /\
    (lw_geom Lsf = lw_geom Ls /\ lw_min Lsf = lw_min Ls /\ lw_max Lsf = lw_max Ls) /\
    (lw_geom Ldf = lw_geom Ld /\ lw_min Ldf = lw_min Ld /\ lw_max Ldf = lw_max Ld) /\
    (forall x, In x (t_src swells dwells vols) ->
       exists i, lw_index Lsf x = Some i /\ (i < length (lw_vols Lsf))%nat /\
                 0 <= vol_at Lsf i /\ vol_at Lsf i <= lw_max Lsf) /\
    (forall x, In x (t_dst swells dwells vols) ->
       exists i, lw_index Ldf x = Some i /\ (i < length (lw_vols Ldf))%nat /\
                 0 <= vol_at Ldf i /\ vol_at Ldf i <= lw_max Ldf) /\
    (w_autosplit (st_wl s) = false \/ 0 < w_max (st_wl s) ->
     forall sw dw v, In (sw, dw, v) (t_triples swells dwells vols) -> 0 < v ->
       exists i, lw_index Lsf sw = Some i /\ lw_min Lsf <= vol_at Lsf i).
Proof.
  intros H HS. pose proof (transfer_wf s ks swells kd dwells vols label ws pb kw HS) as HS'.
  rewrite H in HS'. cbn [fst] in HS'.
  pose proof (transfer_lims _ _ _ _ _ _ _ _ _ _ _ _ H) as Hlims.
  apply transfer_cases in H. destruct H as [(_ & [C|C])|(Ls & Ld & mode & w & Hval & Hrun)]; try discriminate.
  destruct Hval as (Hdev & HLs & HLd & E1 & E2 & Hnn & Hsrc & Hdst & Eo & Ec).
  destruct (lims_nth _ _ _ _ Hlims HLs) as (Lsf & HLsf & (_ & Gs & Ms & Xs & _)).
  destruct (lims_nth _ _ _ _ Hlims HLd) as (Ldf & HLdf & (_ & Gd & Md & Xd & _)).
  exists Ls, Ld, Lsf, Ldf. split; [exact HLs|]. split; [exact HLd|]. split; [exact HLsf|]. split; [exact HLdf|].
  split; [repeat split; assumption|]. split; [repeat split; assumption|].
  assert (Hin : forall Lf L x, wf_labware Lf -> lw_geom Lf = lw_geom L -> lw_index L x <> None ->
            exists i, lw_index Lf x = Some i /\ (i < length (lw_vols Lf))%nat /\
                      0 <= vol_at Lf i /\ vol_at Lf i <= lw_max Lf).
  { intros Lf L x WL G Hx. rewrite <- (lw_index_geom Lf L x G) in Hx.
    destruct (lw_index Lf x) as [i|] eqn:Hi; [|congruence]. exists i. split; [reflexivity|].
    split; [apply (lw_index_bound Lf x); [apply wf_shape_shape0; exact (proj1 WL)|exact Hi]|].
    exact (vol_at_range _ i (proj2 WL)). }
  split; [intros x Hx; apply (Hin Lsf Ls); [exact (wf_nth _ _ _ HS' HLsf)|exact Gs|apply Hsrc; exact Hx]|].
  split; [intros x Hx; apply (Hin Ldf Ld); [exact (wf_nth _ _ _ HS' HLdf)|exact Gd|apply Hdst; exact Hx]|].
  intros Ham sw dw v Ht Hv.
  destruct (transfer_run_ok _ _ _ _ _ _ _ _ _ _ _ _ Hrun) as (s2 & n1 & n2 & lab & Ee & ->).
  pose proof (comment_cfg _ _ _ _ Ec) as (C1 & C2 & _).
  destruct (plan_covers (w_autosplit w) (w_max w) mode _ sw dw v Ht Hv) as [v' Hstep].
  { rewrite C1, C2. exact Ham. }
  destruct (exec_ge _ _ _ _ _ _ _ Ee (wf_set_wl _ _ HS) Ls HLs) as (L2 & HL2 & Hl2 & _ & Hsteps).
  destruct (Hsteps _ _ _ Hstep) as (i & Hi & Hge).
  destruct (condense_at_nth s2 ks n1 lab ks L2 HL2) as (L3 & HL3 & O3).
  destruct (condense_at_nth _ kd n2 lab ks L3 HL3) as (L4 & HL4 & O4).
  rewrite HLsf in HL4. injection HL4 as <-.
  exists i. split; [rewrite (lw_index_geom Lsf Ls sw Gs); exact Hi|].
  rewrite Ms, (vol_at_obs _ _ i O4), (vol_at_obs _ _ i O3). exact Hge.
Qed.

(* ------------------------------------------------------------------ transfer: rejected calls, unknown ids *)

Lemma transfer_rejected s ks kd swells dwells vols label ws pb kw s' e :
  transfer s ks swells kd dwells vols label ws pb kw = (s', Some e) ->
  (s' = s /\ (e = EReject \/ e = ECompat)) \/
  exists Ls Ld mode w pre sw dw v post s1,
    transfer_valid s ks kd swells dwells vols label pb Ls Ld mode w /\
    plan (w_autosplit w) (w_max w) mode (t_triples swells dwells vols)
      = (pre ++ Step sw dw v :: post)%list /\
    exec (set_wl s w) ks kd pre ws kw = (s1, None) /\
    exec_step s1 ks kd sw dw v ws kw = (s', Some e).
Proof.
  intro H. apply transfer_cases in H.
  destruct H as [(-> & [C|C])|(Ls & Ld & mode & w & Hval & Hrun)].
  - injection C as <-. left. split; [reflexivity|left; reflexivity].
  - injection C as <-. left. split; [reflexivity|right; reflexivity].
  - right. apply transfer_run_err in Hrun.
    destruct (exec_stopped _ _ _ _ _ _ _ _ Hrun) as (pre & sw & dw & v & post & s1 & Hplan & Hpre & Hst).
    exists Ls, Ld, mode, w, pre, sw, dw, v, post, s1. split; [exact Hval|]. repeat split; assumption.
Qed.

Lemma broadcast_In {A} (l : list A) n x : In x l -> (length l <= n)%nat -> In x (broadcast l n).
Proof.
  destruct l as [|y [|z r]]; cbn [broadcast]; intros Hin Hn; try exact Hin.
  destruct Hin as [->|[]]. cbn [length] in Hn. destruct n as [|n]; [lia|]. left. reflexivity.
Qed.

(** C08 / M7: [transfer] checks all ids before anything else happens *)
Lemma transfer_unknown_well s ks kd swells dwells vols label ws pb kw Ls Ld :
  nth_error (st_lw s) ks = Some Ls -> nth_error (st_lw s) kd = Some Ld ->
  (exists x, In x (flattenF swells) /\ lw_index Ls x = None) \/
  (exists x, In x (flattenF dwells) /\ lw_index Ld x = None) ->
  exists e, transfer s ks swells kd dwells vols label ws pb kw = (s, Some e) /\ (e = EReject \/ e = ECompat).
Proof.
  intros HLs HLd Hbad. destruct (w_dev (st_wl s)) eqn:Edev.
  3:{ exists ECompat. split; [apply transfer_compat; exact Edev|right; reflexivity]. }
  all: exists EReject; split; [|left; reflexivity].
  all: apply transfer_reject; [rewrite Edev; discriminate|].
  all: destruct Hbad as [(x & Hx & Hi)|(x & Hx & Hi)].
  all: try (right; right; right; left; exists Ls, x; split; [exact HLs|split; [|exact Hi]];
            unfold t_src, t_n; apply broadcast_In; [exact Hx|lia]).
  all: right; right; right; right; left; exists Ld, x; split; [exact HLd|split; [|exact Hi]];
       unfold t_dst, t_n; apply broadcast_In; [exact Hx|lia].
Qed.

(* ------------------------------------------------------------------ transfer: the ledger (C04) *)

Lemma gsum_triple_steps_gen q a m t : a = false \/ 0 < m -> 0 <= snd t ->
  gsum q (triple_steps a m t) == if q (fst t) then snd t else 0.
Proof.
  intros [->|Hm] Hv; [|apply gsum_triple_steps; assumption].
  destruct t as [[s d] v]. unfold triple_steps. cbn [vol_list flat_map fst snd] in *. rewrite app_nil_r.
  destruct (Qltb 0 v) eqn:E.
  - rewrite gsum_cons. cbn [fst snd]. change (gsum q []) with 0. destruct (q (s, d)); ring.
  - apply Qltb_false in E. change (gsum q []) with 0. destruct (q (s, d)); lra.
Qed.

Lemma gsum_plan_gen q a m mode T : a = false \/ 0 < m -> Forall (fun t => 0 <= snd t) T ->
  gsum q (steps_of (plan a m mode T)) == gsum q T.
Proof.
  intros Ham Hall. rewrite (gsum_perm q _ _ (plan_steps_perm a m mode T)).
  induction Hall as [|t r Ht Hr IH]; cbn [flat_map]; [reflexivity|].
  rewrite gsum_app, gsum_cons, IH, (gsum_triple_steps_gen q a m t Ham Ht). reflexivity.
Qed.

(** the ledger of an accepted [transfer], for a worklist without auto_split or with a positive
    max_volume: every real well changes by what the requested triples say *)
Lemma transfer_ledger_gen s ks swells kd dwells vols label ws pb kw s' :
  transfer s ks swells kd dwells vols label ws pb kw = (s', None) -> wf_state s ->
  w_autosplit (st_wl s) = false \/ 0 < w_max (st_wl s) ->
  length (st_lw s') = length (st_lw s) /\
  forall j L, nth_error (st_lw s) j = Some L ->
    exists L', nth_error (st_lw s') j = Some L' /\ lw_geom L' = lw_geom L /\
      forall i, vol_at L' i == vol_at L i
                             - (if (j =? ks)%nat then well_out L i (t_triples swells dwells vols) else 0)
                             + (if (j =? kd)%nat then well_in L i (t_triples swells dwells vols) else 0).
Proof.
  intros H HS Ham. apply transfer_cases in H.
  destruct H as [(_ & [C|C])|(Ls & Ld & mode & w & Hval & Hrun)]; try discriminate.
  destruct Hval as (Hdev & HLs & HLd & E1 & E2 & Hnn & Hsrc & Hdst & Eo & Ec).
  destruct (transfer_run_ok _ _ _ _ _ _ _ _ _ _ _ _ Hrun) as (s2 & n1 & n2 & lab & Ee & ->).
  pose proof (comment_cfg _ _ _ _ Ec) as (C1 & C2 & _).
  assert (Hall : Forall (fun t : triple => 0 <= snd t) (t_triples swells dwells vols)).
  { apply Forall_forall. intros [sd v] Ht. apply zip_In in Ht. cbn [snd]. apply Hnn. exact (proj2 Ht). }
  assert (Ham' : w_autosplit w = false \/ 0 < w_max w) by (rewrite C1, C2; exact Ham).
  pose proof (exec_ledger _ _ _ _ _ _ _ Ee (wf_set_wl _ _ HS)) as Hled. cbn [set_wl st_lw] in Hled.
  apply (ledger_rel_sums _ _ _ (t_triples swells dwells vols)) in Hled.
  2:{ intros L i. rewrite !well_out_gsum. apply gsum_plan_gen; assumption. }
  2:{ intros L i. rewrite !well_in_gsum. apply gsum_plan_gen; assumption. }
  apply (ledger_rel_condense _ _ _ _ _ ks n1 lab) in Hled.
  apply (ledger_rel_condense _ _ _ _ _ kd n2 lab) in Hled.
  exact Hled.
Qed.

(** without that hypothesis the ledger fails (auto_split with max_volume = -2: nothing moves) *)
Lemma transfer_ledger_gen_refuted :
  exists s ks sw kd dw vols label ws pb kw s' L L',
    transfer s ks sw kd dw vols label ws pb kw = (s', None) /\ wf_state s /\
    nth_error (st_lw s) ks = Some L /\ nth_error (st_lw s') ks = Some L' /\
    ~ vol_at L' 0 == vol_at L 0
                     - (if (ks =? ks)%nat then well_out L 0 (t_triples sw dw vols) else 0)
                     + (if (ks =? kd)%nat then well_in L 0 (t_triples sw dw vols) else 0).
Proof. exact c14_transfer_ledger_refuted. Qed.

(* ------------------------------------------------------------------ scalar volumes (C04) *)

Lemma remove_scalar L wells v label L' : remove L wells (A0 (XQ v)) label = (L', None) -> wf_shape L ->
  forall j, nth j (lw_vols L') 0 ==
            nth j (lw_vols L) 0 - inject_Z (Z.of_nat (occurrences L (flattenF wells) j)) * v.
Proof.
  intros H HS j. destruct (remove_ledger _ _ _ _ _ H HS) as (evs & Hev & _ & HJ).
  cbn [flattenF broadcast] in Hev. rewrite (HJ j), delta_neg, (events_scalar _ _ _ _ Hev j). ring.
Qed.

Lemma add_scalar L wells v label comps L' : add L wells (A0 (XQ v)) label comps = (L', None) -> wf_shape L ->
  forall j, nth j (lw_vols L') 0 ==
            nth j (lw_vols L) 0 + inject_Z (Z.of_nat (occurrences L (flattenF wells) j)) * v.
Proof.
  intros H HS j. destruct (add_ledger _ _ _ _ _ _ H HS) as (evs & Hev & _ & HJ).
  cbn [flattenF broadcast] in Hev. rewrite (HJ j), (events_scalar _ _ _ _ Hev j). ring.
Qed.

(** every occurrence counts: the general (non-scalar) ledger in the same form *)
Lemma occurrences_zero L ws j : (forall w, In w ws -> lw_index L w <> Some j) -> occurrences L ws j = 0%nat.
Proof.
  intro H. unfold occurrences. induction ws as [|w r IH]; [reflexivity|]. cbn [filter].
  destruct (lw_index L w) as [i|] eqn:Hi.
  - destruct (Nat.eqb_spec i j) as [->|_]; [exfalso; apply (H w); [left; reflexivity|exact Hi]|].
    apply IH. intros w' Hw'. apply H. right. exact Hw'.
  - apply IH. intros w' Hw'. apply H. right. exact Hw'.
Qed.

(* ------------------------------------------------------------------ the statements for the four tracked calls *)

(** shape of the POST statements: [lo] is the lower bound (min_volume after a removal, 0 after an addition) *)
Definition post_shape (lo : labware -> Q) (wells : arr string) (s : state) (k : nat) (s' : state) : Prop :=
  exists L L', nth_error (st_lw s) k = Some L /\ nth_error (st_lw s') k = Some L' /\
    lw_geom L' = lw_geom L /\ lw_min L' = lw_min L /\ lw_max L' = lw_max L /\
    forall w, In w (flattenF wells) ->
      exists i, lw_index L' w = Some i /\ (i < length (lw_vols L'))%nat /\
                lo L' <= vol_at L' i /\ vol_at L' i <= lw_max L'.

Definition ledger_shape (sgn : list event -> list event) (wells : arr string) (vols : arr xnum)
    (s : state) (k : nat) (s' : state) : Prop :=
  exists L L' evs, nth_error (st_lw s) k = Some L /\ nth_error (st_lw s') k = Some L' /\
    events_of L (pairs_of wells vols) = Some evs /\
    length (lw_vols L') = length (lw_vols L) /\
    (forall j, nth j (lw_vols L') 0 == nth j (lw_vols L) 0 + delta (sgn evs) j) /\
    length (st_lw s') = length (st_lw s) /\
    forall j, j <> k -> nth_error (st_lw s') j = nth_error (st_lw s) j.

Definition frame_shape (wells : arr string) (s : state) (k : nat) (s' : state) : Prop :=
  length (st_lw s') = length (st_lw s) /\
  (forall j, j <> k -> nth_error (st_lw s') j = nth_error (st_lw s) j) /\
  forall L, nth_error (st_lw s) k = Some L ->
    exists L', nth_error (st_lw s') k = Some L' /\
      forall i, (forall w, In w (flattenF wells) -> lw_index L w <> Some i) ->
                nth i (lw_vols L') 0 = nth i (lw_vols L) 0.

Definition scalar_shape (sign : Q) (wells : arr string) (v : Q) (s : state) (k : nat) (s' : state) : Prop :=
  exists L L', nth_error (st_lw s) k = Some L /\ nth_error (st_lw s') k = Some L' /\
    forall j, nth j (lw_vols L') 0 ==
              nth j (lw_vols L) 0 + sign * (inject_Z (Z.of_nat (occurrences L (flattenF wells) j)) * v).

Definition removing_rejected_shape (wells : arr string) (vols : arr xnum) (label : option string)
    (s : state) (k : nat) (s' : state) (e : err) (L : labware) : Prop :=
  (exists L', remove_stopped L wells vols L' e /\ s' = set_lw s k L' /\ lw_hist L' = lw_hist L /\
              (e = EUnderflow \/ e = EReject)) \/
  (exists L', remove L wells vols label = (L', None) /\ st_lw s' = upd (st_lw s) k L' /\ rec_err e).

Definition adding_rejected_shape (wells : arr string) (vols : arr xnum) (label : option string)
    (comps : option (list (option composition))) (s : state) (k : nat) (s' : state) (e : err) (L : labware)
    : Prop :=
  (exists L', add_stopped L wells vols comps L' e /\ s' = set_lw s k L' /\ lw_hist L' = lw_hist L /\
              (e = EOverflow \/ e = EReject)) \/
  (exists L', add L wells vols label comps = (L', None) /\ st_lw s' = upd (st_lw s) k L' /\ rec_err e).

(** unknown well id: the call is refused, the worklist and the histories are unchanged, and [L'] is the
    labware after the pairs before the refused one *)
Definition removing_unknown_shape (wells : arr string) (vols : arr xnum) (s : state) (k : nat)
    (L : labware) (r : state * option err) : Prop :=
  exists L' e, r = (set_lw s k L', Some e) /\ (e = EUnderflow \/ e = EReject) /\
    lw_hist L' = lw_hist L /\ lw_geom L' = lw_geom L /\ remove_stopped L wells vols L' e /\
    forall i, vol_at L' i <= vol_at L i.

Definition adding_unknown_shape (wells : arr string) (vols : arr xnum)
    (comps : option (list (option composition))) (s : state) (k : nat)
    (L : labware) (r : state * option err) : Prop :=
  exists L' e, r = (set_lw s k L', Some e) /\ (e = EOverflow \/ e = EReject) /\
    lw_hist L' = lw_hist L /\ lw_geom L' = lw_geom L /\ add_stopped L wells vols comps L' e /\
    forall i, vol_at L i <= vol_at L' i.

Section RemovingOps.
  Variables (wells : arr string) (vols : arr xnum) (label : option string).
  (** [op s k] is one of [aspirate], [evo_aspirate] with its remaining arguments fixed *)
  Variable op : state -> nat -> state * option err.
  Hypothesis op_tracked : forall s k s' e, op s k = (s', e) ->
    tracked_call (fun L => remove L wells vols label) s k s' e.
  Hypothesis op_err : forall s k L L' e, nth_error (st_lw s) k = Some L ->
    remove L wells vols label = (L', Some e) -> op s k = (set_lw s k L', Some e).

  Lemma rop_post s k s' : op s k = (s', None) -> wf_state s -> post_shape lw_min wells s k s'.
  Proof. intros H HS. exact (removing_post _ _ _ _ _ _ (op_tracked _ _ _ _ H) HS). Qed.

  Lemma rop_ledger s k s' : op s k = (s', None) -> wf_state s -> ledger_shape neg_events wells vols s k s'.
  Proof. intros H HS. exact (removing_ledger _ _ _ _ _ _ (op_tracked _ _ _ _ H) HS). Qed.

  Lemma rop_frame s k : frame_shape wells s k (fst (op s k)).
  Proof.
    destruct (op s k) as [s' e] eqn:H. exact (removing_frame _ _ _ _ _ _ _ (op_tracked _ _ _ _ H)).
  Qed.

  Lemma rop_underflow_iff s k s' L : nth_error (st_lw s) k = Some L ->
    (op s k = (s', Some EUnderflow) <-> exists L', underflow_at L wells vols L' /\ s' = set_lw s k L').
  Proof.
    intro HL. split.
    - intro H. exact (removing_underflow _ _ _ _ _ _ _ (op_tracked _ _ _ _ H) HL).
    - intros (L' & Hu & ->). apply (op_err _ _ L); [exact HL|].
      apply remove_underflow_iff. exact Hu.
  Qed.

  Lemma rop_no_overflow s k : snd (op s k) <> Some EOverflow.
  Proof.
    destruct (op s k) as [s' e] eqn:H. cbn [snd]. intros ->.
    exact (removing_no_overflow _ _ _ _ _ _ (op_tracked _ _ _ _ H)).
  Qed.

  Lemma rop_rejected s k s' e L : op s k = (s', Some e) -> nth_error (st_lw s) k = Some L ->
    removing_rejected_shape wells vols label s k s' e L.
  Proof. intros H HL. exact (removing_rejected _ _ _ _ _ _ _ _ (op_tracked _ _ _ _ H) HL). Qed.

  Lemma rop_rejected_conv s k L L' e : nth_error (st_lw s) k = Some L ->
    remove_stopped L wells vols L' e -> op s k = (set_lw s k L', Some e).
  Proof. intros HL Hs. apply (op_err _ _ L); [exact HL|]. apply remove_stopped_iff. exact Hs. Qed.

  Lemma rop_unknown s k L : nth_error (st_lw s) k = Some L ->
    (exists w, In w (flattenF wells) /\ lw_index L w = None) ->
    removing_unknown_shape wells vols s k L (op s k).
  Proof.
    intros HL Hbad. destruct (remove_unknown L wells vols label Hbad) as (L' & e & Hr).
    exists L', e. split; [apply (op_err _ _ L); assumption|].
    split; [exact (remove_errors _ _ _ _ _ _ Hr)|].
    destruct (remove_rejected_frame _ _ _ _ _ _ Hr) as (_ & Fg & _ & _ & Fh & _).
    split; [exact Fh|]. split; [exact Fg|]. split; [apply (remove_stopped_iff _ _ _ label); exact Hr|].
    exact (proj2 (remove_any _ _ _ _ _ _ Hr)).
  Qed.

  Lemma rop_unknown_first s k L w rest : nth_error (st_lw s) k = Some L ->
    flattenF wells = w :: rest -> lw_index L w = None -> op s k = (s, Some EReject).
  Proof.
    intros HL Hw Hi. rewrite (op_err _ _ L L EReject HL (remove_unknown_first _ _ _ _ _ _ Hw Hi)).
    rewrite (set_lw_same _ _ _ HL). reflexivity.
  Qed.
End RemovingOps.

Section AddingOps.
  Variables (wells : arr string) (vols : arr xnum) (label : option string)
            (comps : option (list (option composition))).
  Variable op : state -> nat -> state * option err.
  Hypothesis op_tracked : forall s k s' e, op s k = (s', e) ->
    tracked_call (fun L => add L wells vols label comps) s k s' e.
  Hypothesis op_err : forall s k L L' e, nth_error (st_lw s) k = Some L ->
    add L wells vols label comps = (L', Some e) -> op s k = (set_lw s k L', Some e).

  Lemma aop_post s k s' : op s k = (s', None) -> wf_state s -> post_shape (fun _ => 0) wells s k s'.
  Proof. intros H HS. exact (adding_post _ _ _ _ _ _ _ (op_tracked _ _ _ _ H) HS). Qed.

  Lemma aop_ledger s k s' : op s k = (s', None) -> wf_state s -> ledger_shape (fun e => e) wells vols s k s'.
  Proof. intros H HS. exact (adding_ledger _ _ _ _ _ _ _ (op_tracked _ _ _ _ H) HS). Qed.

  Lemma aop_frame s k : frame_shape wells s k (fst (op s k)).
  Proof.
    destruct (op s k) as [s' e] eqn:H. exact (adding_frame _ _ _ _ _ _ _ _ (op_tracked _ _ _ _ H)).
  Qed.

  Lemma aop_overflow_iff s k s' L : nth_error (st_lw s) k = Some L ->
    (op s k = (s', Some EOverflow) <-> exists L', overflow_at L wells vols comps L' /\ s' = set_lw s k L').
  Proof.
    intro HL. split.
    - intro H. exact (adding_overflow _ _ _ _ _ _ _ _ (op_tracked _ _ _ _ H) HL).
    - intros (L' & Hu & ->). apply (op_err _ _ L); [exact HL|].
      apply add_overflow_iff. exact Hu.
  Qed.

  Lemma aop_no_underflow s k : snd (op s k) <> Some EUnderflow.
  Proof.
    destruct (op s k) as [s' e] eqn:H. cbn [snd]. intros ->.
    exact (adding_no_underflow _ _ _ _ _ _ _ (op_tracked _ _ _ _ H)).
  Qed.

  Lemma aop_rejected s k s' e L : op s k = (s', Some e) -> nth_error (st_lw s) k = Some L ->
    adding_rejected_shape wells vols label comps s k s' e L.
  Proof. intros H HL. exact (adding_rejected _ _ _ _ _ _ _ _ _ (op_tracked _ _ _ _ H) HL). Qed.

  Lemma aop_rejected_conv s k L L' e : nth_error (st_lw s) k = Some L ->
    add_stopped L wells vols comps L' e -> op s k = (set_lw s k L', Some e).
  Proof. intros HL Hs. apply (op_err _ _ L); [exact HL|]. apply add_stopped_iff. exact Hs. Qed.

  Lemma aop_unknown s k L : nth_error (st_lw s) k = Some L ->
    (exists w, In w (flattenF wells) /\ lw_index L w = None) ->
    adding_unknown_shape wells vols comps s k L (op s k).
  Proof.
    intros HL Hbad. destruct (add_unknown L wells vols label comps Hbad) as (L' & e & Hr).
    exists L', e. split; [apply (op_err _ _ L); assumption|].
    split; [exact (add_errors _ _ _ _ _ _ _ Hr)|].
    destruct (add_rejected_frame _ _ _ _ _ _ _ Hr) as (_ & Fg & _ & _ & Fh & _).
    split; [exact Fh|]. split; [exact Fg|]. split; [apply (add_stopped_iff _ _ _ label); exact Hr|].
    exact (proj2 (add_any _ _ _ _ _ _ _ Hr)).
  Qed.

  Lemma aop_unknown_first s k L w rest : nth_error (st_lw s) k = Some L ->
    flattenF wells = w :: rest -> lw_index L w = None -> op s k = (s, Some EReject).
  Proof.
    intros HL Hw Hi. rewrite (op_err _ _ L L EReject HL (add_unknown_first _ _ _ _ _ _ _ Hw Hi)).
    rewrite (set_lw_same _ _ _ HL). reflexivity.
  Qed.
End AddingOps.

(* ------------------------------------------------------------------ the four tracked calls, one by one *)

Lemma aspirate_post s k wells vols label kw s' : aspirate s k wells vols label kw = (s', None) -> wf_state s -> post_shape lw_min wells s k s'.
Proof. exact (rop_post wells vols label (fun s0 k0 => aspirate s0 k0 wells vols label kw) (fun s0 k0 s1 e0 => aspirate_tracked s0 k0 wells vols label kw s1 e0) s k s'). Qed.

Lemma aspirate_ledger s k wells vols label kw s' : aspirate s k wells vols label kw = (s', None) -> wf_state s -> ledger_shape neg_events wells vols s k s'.
Proof. exact (rop_ledger wells vols label (fun s0 k0 => aspirate s0 k0 wells vols label kw) (fun s0 k0 s1 e0 => aspirate_tracked s0 k0 wells vols label kw s1 e0) s k s'). Qed.

Lemma aspirate_frame s k wells vols label kw : frame_shape wells s k (fst (aspirate s k wells vols label kw)).
Proof. exact (rop_frame wells vols label (fun s0 k0 => aspirate s0 k0 wells vols label kw) (fun s0 k0 s1 e0 => aspirate_tracked s0 k0 wells vols label kw s1 e0) s k). Qed.

Lemma aspirate_underflow_iff s k wells vols label kw s' L : nth_error (st_lw s) k = Some L ->
  (aspirate s k wells vols label kw = (s', Some EUnderflow) <-> exists L', underflow_at L wells vols L' /\ s' = set_lw s k L').
Proof. exact (rop_underflow_iff wells vols label (fun s0 k0 => aspirate s0 k0 wells vols label kw) (fun s0 k0 s1 e0 => aspirate_tracked s0 k0 wells vols label kw s1 e0) (fun s0 k0 L0 L1 e0 => aspirate_of_remove_err s0 k0 wells vols label kw L0 L1 e0) s k s' L). Qed.

Lemma aspirate_no_overflow s k wells vols label kw : snd (aspirate s k wells vols label kw) <> Some EOverflow.
Proof. exact (rop_no_overflow wells vols label (fun s0 k0 => aspirate s0 k0 wells vols label kw) (fun s0 k0 s1 e0 => aspirate_tracked s0 k0 wells vols label kw s1 e0) s k). Qed.

Lemma aspirate_rejected s k wells vols label kw s' e L : aspirate s k wells vols label kw = (s', Some e) -> nth_error (st_lw s) k = Some L ->
  removing_rejected_shape wells vols label s k s' e L.
Proof. exact (rop_rejected wells vols label (fun s0 k0 => aspirate s0 k0 wells vols label kw) (fun s0 k0 s1 e0 => aspirate_tracked s0 k0 wells vols label kw s1 e0) s k s' e L). Qed.

Lemma aspirate_rejected_conv s k wells vols label kw L L' e : nth_error (st_lw s) k = Some L ->
  remove_stopped L wells vols L' e -> aspirate s k wells vols label kw = (set_lw s k L', Some e).
Proof. exact (rop_rejected_conv wells vols label (fun s0 k0 => aspirate s0 k0 wells vols label kw) (fun s0 k0 L0 L1 e0 => aspirate_of_remove_err s0 k0 wells vols label kw L0 L1 e0) s k L L' e). Qed.

Lemma aspirate_unknown_well s k wells vols label kw L : nth_error (st_lw s) k = Some L ->
  (exists w, In w (flattenF wells) /\ lw_index L w = None) ->
  removing_unknown_shape wells vols s k L (aspirate s k wells vols label kw).
Proof. exact (rop_unknown wells vols label (fun s0 k0 => aspirate s0 k0 wells vols label kw) (fun s0 k0 L0 L1 e0 => aspirate_of_remove_err s0 k0 wells vols label kw L0 L1 e0) s k L). Qed.

Lemma aspirate_unknown_first s k wells vols label kw L w rest : nth_error (st_lw s) k = Some L ->
  flattenF wells = w :: rest -> lw_index L w = None -> aspirate s k wells vols label kw = (s, Some EReject).
Proof. exact (rop_unknown_first wells vols label (fun s0 k0 => aspirate s0 k0 wells vols label kw) (fun s0 k0 L0 L1 e0 => aspirate_of_remove_err s0 k0 wells vols label kw L0 L1 e0) s k L w rest). Qed.

Lemma evo_aspirate_post s k a label s' : evo_aspirate s k a label = (s', None) -> wf_state s -> post_shape lw_min (c_wells a) s k s'.
Proof. exact (rop_post (c_wells a) (evo_vols (c_volume a)) label (fun s0 k0 => evo_aspirate s0 k0 a label) (fun s0 k0 s1 e0 => evo_aspirate_tracked s0 k0 a label s1 e0) s k s'). Qed.

Lemma evo_aspirate_ledger s k a label s' : evo_aspirate s k a label = (s', None) -> wf_state s -> ledger_shape neg_events (c_wells a) (evo_vols (c_volume a)) s k s'.
Proof. exact (rop_ledger (c_wells a) (evo_vols (c_volume a)) label (fun s0 k0 => evo_aspirate s0 k0 a label) (fun s0 k0 s1 e0 => evo_aspirate_tracked s0 k0 a label s1 e0) s k s'). Qed.

Lemma evo_aspirate_frame s k a label : frame_shape (c_wells a) s k (fst (evo_aspirate s k a label)).
Proof. exact (rop_frame (c_wells a) (evo_vols (c_volume a)) label (fun s0 k0 => evo_aspirate s0 k0 a label) (fun s0 k0 s1 e0 => evo_aspirate_tracked s0 k0 a label s1 e0) s k). Qed.

Lemma evo_aspirate_underflow_iff s k a label s' L : nth_error (st_lw s) k = Some L ->
  (evo_aspirate s k a label = (s', Some EUnderflow) <-> exists L', underflow_at L (c_wells a) (evo_vols (c_volume a)) L' /\ s' = set_lw s k L').
Proof. exact (rop_underflow_iff (c_wells a) (evo_vols (c_volume a)) label (fun s0 k0 => evo_aspirate s0 k0 a label) (fun s0 k0 s1 e0 => evo_aspirate_tracked s0 k0 a label s1 e0) (fun s0 k0 L0 L1 e0 => evo_aspirate_of_remove_err s0 k0 a label L0 L1 e0) s k s' L). Qed.

Lemma evo_aspirate_no_overflow s k a label : snd (evo_aspirate s k a label) <> Some EOverflow.
Proof. exact (rop_no_overflow (c_wells a) (evo_vols (c_volume a)) label (fun s0 k0 => evo_aspirate s0 k0 a label) (fun s0 k0 s1 e0 => evo_aspirate_tracked s0 k0 a label s1 e0) s k). Qed.

Lemma evo_aspirate_rejected s k a label s' e L : evo_aspirate s k a label = (s', Some e) -> nth_error (st_lw s) k = Some L ->
  removing_rejected_shape (c_wells a) (evo_vols (c_volume a)) label s k s' e L.
Proof. exact (rop_rejected (c_wells a) (evo_vols (c_volume a)) label (fun s0 k0 => evo_aspirate s0 k0 a label) (fun s0 k0 s1 e0 => evo_aspirate_tracked s0 k0 a label s1 e0) s k s' e L). Qed.

Lemma evo_aspirate_rejected_conv s k a label L L' e : nth_error (st_lw s) k = Some L ->
  remove_stopped L (c_wells a) (evo_vols (c_volume a)) L' e -> evo_aspirate s k a label = (set_lw s k L', Some e).
Proof. exact (rop_rejected_conv (c_wells a) (evo_vols (c_volume a)) label (fun s0 k0 => evo_aspirate s0 k0 a label) (fun s0 k0 L0 L1 e0 => evo_aspirate_of_remove_err s0 k0 a label L0 L1 e0) s k L L' e). Qed.

Lemma evo_aspirate_unknown_well s k a label L : nth_error (st_lw s) k = Some L ->
  (exists w, In w (flattenF (c_wells a)) /\ lw_index L w = None) ->
  removing_unknown_shape (c_wells a) (evo_vols (c_volume a)) s k L (evo_aspirate s k a label).
Proof. exact (rop_unknown (c_wells a) (evo_vols (c_volume a)) label (fun s0 k0 => evo_aspirate s0 k0 a label) (fun s0 k0 L0 L1 e0 => evo_aspirate_of_remove_err s0 k0 a label L0 L1 e0) s k L). Qed.

Lemma evo_aspirate_unknown_first s k a label L w rest : nth_error (st_lw s) k = Some L ->
  flattenF (c_wells a) = w :: rest -> lw_index L w = None -> evo_aspirate s k a label = (s, Some EReject).
Proof. exact (rop_unknown_first (c_wells a) (evo_vols (c_volume a)) label (fun s0 k0 => evo_aspirate s0 k0 a label) (fun s0 k0 L0 L1 e0 => evo_aspirate_of_remove_err s0 k0 a label L0 L1 e0) s k L w rest). Qed.

Lemma dispense_post s k wells vols label comps kw s' : dispense s k wells vols label comps kw = (s', None) -> wf_state s -> post_shape (fun _ => 0) wells s k s'.
Proof. exact (aop_post wells vols label comps (fun s0 k0 => dispense s0 k0 wells vols label comps kw) (fun s0 k0 s1 e0 => dispense_tracked s0 k0 wells vols label comps kw s1 e0) s k s'). Qed.

Lemma dispense_ledger s k wells vols label comps kw s' : dispense s k wells vols label comps kw = (s', None) -> wf_state s -> ledger_shape (fun e => e) wells vols s k s'.
Proof. exact (aop_ledger wells vols label comps (fun s0 k0 => dispense s0 k0 wells vols label comps kw) (fun s0 k0 s1 e0 => dispense_tracked s0 k0 wells vols label comps kw s1 e0) s k s'). Qed.

Lemma dispense_frame s k wells vols label comps kw : frame_shape wells s k (fst (dispense s k wells vols label comps kw)).
Proof. exact (aop_frame wells vols label comps (fun s0 k0 => dispense s0 k0 wells vols label comps kw) (fun s0 k0 s1 e0 => dispense_tracked s0 k0 wells vols label comps kw s1 e0) s k). Qed.

Lemma dispense_overflow_iff s k wells vols label comps kw s' L : nth_error (st_lw s) k = Some L ->
  (dispense s k wells vols label comps kw = (s', Some EOverflow) <-> exists L', overflow_at L wells vols comps L' /\ s' = set_lw s k L').
Proof. exact (aop_overflow_iff wells vols label comps (fun s0 k0 => dispense s0 k0 wells vols label comps kw) (fun s0 k0 s1 e0 => dispense_tracked s0 k0 wells vols label comps kw s1 e0) (fun s0 k0 L0 L1 e0 => dispense_of_add_err s0 k0 wells vols label comps kw L0 L1 e0) s k s' L). Qed.

Lemma dispense_no_underflow s k wells vols label comps kw : snd (dispense s k wells vols label comps kw) <> Some EUnderflow.
Proof. exact (aop_no_underflow wells vols label comps (fun s0 k0 => dispense s0 k0 wells vols label comps kw) (fun s0 k0 s1 e0 => dispense_tracked s0 k0 wells vols label comps kw s1 e0) s k). Qed.

Lemma dispense_rejected s k wells vols label comps kw s' e L : dispense s k wells vols label comps kw = (s', Some e) -> nth_error (st_lw s) k = Some L ->
  adding_rejected_shape wells vols label comps s k s' e L.
Proof. exact (aop_rejected wells vols label comps (fun s0 k0 => dispense s0 k0 wells vols label comps kw) (fun s0 k0 s1 e0 => dispense_tracked s0 k0 wells vols label comps kw s1 e0) s k s' e L). Qed.

Lemma dispense_rejected_conv s k wells vols label comps kw L L' e : nth_error (st_lw s) k = Some L ->
  add_stopped L wells vols comps L' e -> dispense s k wells vols label comps kw = (set_lw s k L', Some e).
Proof. exact (aop_rejected_conv wells vols label comps (fun s0 k0 => dispense s0 k0 wells vols label comps kw) (fun s0 k0 L0 L1 e0 => dispense_of_add_err s0 k0 wells vols label comps kw L0 L1 e0) s k L L' e). Qed.

Lemma dispense_unknown_well s k wells vols label comps kw L : nth_error (st_lw s) k = Some L ->
  (exists w, In w (flattenF wells) /\ lw_index L w = None) ->
  adding_unknown_shape wells vols comps s k L (dispense s k wells vols label comps kw).
Proof. exact (aop_unknown wells vols label comps (fun s0 k0 => dispense s0 k0 wells vols label comps kw) (fun s0 k0 L0 L1 e0 => dispense_of_add_err s0 k0 wells vols label comps kw L0 L1 e0) s k L). Qed.

Lemma dispense_unknown_first s k wells vols label comps kw L w rest : nth_error (st_lw s) k = Some L ->
  flattenF wells = w :: rest -> lw_index L w = None -> dispense s k wells vols label comps kw = (s, Some EReject).
Proof. exact (aop_unknown_first wells vols label comps (fun s0 k0 => dispense s0 k0 wells vols label comps kw) (fun s0 k0 L0 L1 e0 => dispense_of_add_err s0 k0 wells vols label comps kw L0 L1 e0) s k L w rest). Qed.

Lemma evo_dispense_post s k a label comps s' : evo_dispense s k a label comps = (s', None) -> wf_state s -> post_shape (fun _ => 0) (c_wells a) s k s'.
Proof. exact (aop_post (c_wells a) (evo_vols (c_volume a)) label comps (fun s0 k0 => evo_dispense s0 k0 a label comps) (fun s0 k0 s1 e0 => evo_dispense_tracked s0 k0 a label comps s1 e0) s k s'). Qed.

Lemma evo_dispense_ledger s k a label comps s' : evo_dispense s k a label comps = (s', None) -> wf_state s -> ledger_shape (fun e => e) (c_wells a) (evo_vols (c_volume a)) s k s'.
Proof. exact (aop_ledger (c_wells a) (evo_vols (c_volume a)) label comps (fun s0 k0 => evo_dispense s0 k0 a label comps) (fun s0 k0 s1 e0 => evo_dispense_tracked s0 k0 a label comps s1 e0) s k s'). Qed.

Lemma evo_dispense_frame s k a label comps : frame_shape (c_wells a) s k (fst (evo_dispense s k a label comps)).
Proof. exact (aop_frame (c_wells a) (evo_vols (c_volume a)) label comps (fun s0 k0 => evo_dispense s0 k0 a label comps) (fun s0 k0 s1 e0 => evo_dispense_tracked s0 k0 a label comps s1 e0) s k). Qed.

Lemma evo_dispense_overflow_iff s k a label comps s' L : nth_error (st_lw s) k = Some L ->
  (evo_dispense s k a label comps = (s', Some EOverflow) <-> exists L', overflow_at L (c_wells a) (evo_vols (c_volume a)) comps L' /\ s' = set_lw s k L').
Proof. exact (aop_overflow_iff (c_wells a) (evo_vols (c_volume a)) label comps (fun s0 k0 => evo_dispense s0 k0 a label comps) (fun s0 k0 s1 e0 => evo_dispense_tracked s0 k0 a label comps s1 e0) (fun s0 k0 L0 L1 e0 => evo_dispense_of_add_err s0 k0 a label comps L0 L1 e0) s k s' L). Qed.

Lemma evo_dispense_no_underflow s k a label comps : snd (evo_dispense s k a label comps) <> Some EUnderflow.
Proof. exact (aop_no_underflow (c_wells a) (evo_vols (c_volume a)) label comps (fun s0 k0 => evo_dispense s0 k0 a label comps) (fun s0 k0 s1 e0 => evo_dispense_tracked s0 k0 a label comps s1 e0) s k). Qed.

Lemma evo_dispense_rejected s k a label comps s' e L : evo_dispense s k a label comps = (s', Some e) -> nth_error (st_lw s) k = Some L ->
  adding_rejected_shape (c_wells a) (evo_vols (c_volume a)) label comps s k s' e L.
Proof. exact (aop_rejected (c_wells a) (evo_vols (c_volume a)) label comps (fun s0 k0 => evo_dispense s0 k0 a label comps) (fun s0 k0 s1 e0 => evo_dispense_tracked s0 k0 a label comps s1 e0) s k s' e L). Qed.

Lemma evo_dispense_rejected_conv s k a label comps L L' e : nth_error (st_lw s) k = Some L ->
  add_stopped L (c_wells a) (evo_vols (c_volume a)) comps L' e -> evo_dispense s k a label comps = (set_lw s k L', Some e).
Proof. exact (aop_rejected_conv (c_wells a) (evo_vols (c_volume a)) label comps (fun s0 k0 => evo_dispense s0 k0 a label comps) (fun s0 k0 L0 L1 e0 => evo_dispense_of_add_err s0 k0 a label comps L0 L1 e0) s k L L' e). Qed.

Lemma evo_dispense_unknown_well s k a label comps L : nth_error (st_lw s) k = Some L ->
  (exists w, In w (flattenF (c_wells a)) /\ lw_index L w = None) ->
  adding_unknown_shape (c_wells a) (evo_vols (c_volume a)) comps s k L (evo_dispense s k a label comps).
Proof. exact (aop_unknown (c_wells a) (evo_vols (c_volume a)) label comps (fun s0 k0 => evo_dispense s0 k0 a label comps) (fun s0 k0 L0 L1 e0 => evo_dispense_of_add_err s0 k0 a label comps L0 L1 e0) s k L). Qed.

Lemma evo_dispense_unknown_first s k a label comps L w rest : nth_error (st_lw s) k = Some L ->
  flattenF (c_wells a) = w :: rest -> lw_index L w = None -> evo_dispense s k a label comps = (s, Some EReject).
Proof. exact (aop_unknown_first (c_wells a) (evo_vols (c_volume a)) label comps (fun s0 k0 => evo_dispense s0 k0 a label comps) (fun s0 k0 L0 L1 e0 => evo_dispense_of_add_err s0 k0 a label comps L0 L1 e0) s k L w rest). Qed.

Lemma aspirate_scalar s k wells v label kw s' :
  aspirate s k wells (A0 (XQ v)) label kw = (s', None) -> wf_state s -> scalar_shape (-(1)) wells v s k s'.
Proof.
  intros H HS. apply aspirate_tracked in H.
  destruct (tracked_accepted _ _ _ _ H) as (L & L' & HL & Hf & _ & HL').
  exists L, L'. split; [exact HL|]. split; [exact HL'|]. intro j.
  rewrite (remove_scalar _ _ _ _ _ Hf (proj1 (wf_nth _ _ _ HS HL)) j). ring.
Qed.

Lemma dispense_scalar s k wells v label comps kw s' :
  dispense s k wells (A0 (XQ v)) label comps kw = (s', None) -> wf_state s -> scalar_shape 1 wells v s k s'.
Proof.
  intros H HS. apply dispense_tracked in H.
  destruct (tracked_accepted _ _ _ _ H) as (L & L' & HL & Hf & _ & HL').
  exists L, L'. split; [exact HL|]. split; [exact HL'|]. intro j.
  rewrite (add_scalar _ _ _ _ _ _ Hf (proj1 (wf_nth _ _ _ HS HL)) j). ring.
Qed.

(* ------------------------------------------------------------------ every well within [0, max] in every state *)

Lemma wf_state_wells s j L i : wf_state s -> nth_error (st_lw s) j = Some L ->
  0 <= vol_at L i /\ vol_at L i <= lw_max L.
Proof. intros HS HL. exact (vol_at_range _ i (proj2 (wf_nth _ _ _ HS HL))). Qed.

(** after any call of a program, accepted or rejected, every well of every labware is within [0, max] *)
Lemma step_wells s o j L i : wf_state s -> nth_error (st_lw (fst (step s o))) j = Some L ->
  0 <= vol_at L i /\ vol_at L i <= lw_max L.
Proof. intros HS HL. exact (wf_state_wells _ _ _ i (step_wf s o HS) HL). Qed.

(* ------------------------------------------------------------------ C08: positions and the column-major enumeration *)

(** the EVO / Fluent position of a plate well is 1 + its index in the column-major enumeration of
    [make_well_array] (what [numpy.flatten("F")] of the wells array gives) *)
Lemma position_is_colmajor_index R C r c : (1 <= R <= 26)%nat -> (r < R)%nat -> (c < C)%nat ->
  let g := {| g_rows := R; g_cols := C; g_vrows := None |} in
  length (flattenF (A2 (make_well_array R C))) = (R * C)%nat /\
  nth (pos_of R r c - 1) (flattenF (A2 (make_well_array R C))) EmptyString = well_id r c /\
  evo_position g (well_id r c) = Ok (pos_of R r c) /\
  fluent_position g (well_id r c) = Ok (pos_of R r c).
Proof.
  intros HR Hr Hc g.
  assert (Hn : n_row_ids g = R) by (unfold n_row_ids, g; cbn [g_vrows g_rows]; lia).
  assert (Hlen : length (make_well_array R C) = R).
  { unfold make_well_array, wells_table. fold g. rewrite map_length, seq_length. exact Hn. }
  assert (Hne : make_well_array R C <> []).
  { intro E. rewrite E in Hlen. cbn [length] in Hlen. lia. }
  assert (Hrect : Forall (fun row => length row = C) (make_well_array R C)).
  { unfold make_well_array, wells_table. apply Forall_forall. intros row Hin.
    apply in_map_iff in Hin. destruct Hin as (r0 & <- & _). rewrite map_length, seq_length. reflexivity. }
  destruct (flattenF_A2_rect (make_well_array R C) C Hne Hrect) as [Hl Hnth].
  split; [rewrite Hl, Hlen; lia|]. split.
  - replace (pos_of R r c - 1)%nat with (c * length (make_well_array R C) + r)%nat
      by (rewrite Hlen; unfold pos_of; lia).
    rewrite (Hnth r c EmptyString) by (rewrite ?Hlen; assumption).
    apply (wells_table_nth g r c); [rewrite Hn; exact Hr|exact Hc].
  - split.
    + rewrite evo_position_ok by (rewrite ?Hn; assumption). cbn [g_vrows g]. rewrite Hn. reflexivity.
    + rewrite fluent_position_ok by (rewrite ?Hn; assumption). cbn [is_trough g_vrows g]. rewrite Hn. reflexivity.
Qed.

(* ------------------------------------------------------------------ refuted strengthenings, with witnesses *)

(** a plate with one well below its min_volume (possible after construction: the constructor only checks
    0 <= initial <= max) *)
Definition ex_low : labware :=
  {| lw_name := "low"; lw_geom := {| g_rows := 2; g_cols := 3; g_vrows := None |};
     lw_min := 10; lw_max := 100; lw_vols := [0; 50; 50; 50; 50; 50]; lw_comp := [];
     lw_hist := [(Some "initial"%string, [0; 50; 50; 50; 50; 50])] |}.

Lemma ex_low_wf : wf_labware ex_low.
Proof.
  unfold wf_labware, wf_shape, wf_geom, vol_inv, ex_low, n_wells.
  cbn [lw_geom lw_vols lw_comp lw_hist lw_min lw_max g_rows g_cols g_vrows length].
  repeat split; try lia; try lra; try discriminate; repeat constructor; try lra.
Qed.

Definition ex_wl_state (lws : list labware) : state :=
  {| st_lw := lws; st_wl := init_wl Evo 950 true false |}.

(** "after an accepted dispense every addressed well is at or above min_volume" is false *)
Lemma dispense_post_min_refuted :
  exists s k wells vols label comps kw s',
    dispense s k wells vols label comps kw = (s', None) /\ wf_state s /\
    ~ post_shape lw_min wells s k s'.
Proof.
  exists (ex_wl_state [ex_low]), 0%nat, (A0 "A01"%string), (A0 (XQ 5)), None, None, kw_default.
  eexists. split; [vm_compute; reflexivity|]. split; [constructor; [exact ex_low_wf|constructor]|].
  intros (L & L' & HL & HL' & _ & _ & _ & Hw). cbn in HL'. injection HL' as <-.
  destruct (Hw "A01"%string (or_introl eq_refl)) as (i & Hi & _ & Hge & _).
  vm_compute in Hi. injection Hi as <-. vm_compute in Hge. apply Hge. reflexivity.
Qed.

(** "a call naming an unknown well leaves all volumes unchanged" is false for the four loop-based calls:
    the pairs before the unknown id have been applied (here A01 loses / gains 5) *)
Lemma aspirate_unknown_volumes_refuted :
  exists s k L wells vols label kw,
    nth_error (st_lw s) k = Some L /\ (exists w, In w (flattenF wells) /\ lw_index L w = None) /\
    map lw_vols (st_lw (fst (aspirate s k wells vols label kw))) <> map lw_vols (st_lw s).
Proof.
  exists (ex_wl_state [ex_plate]), 0%nat, ex_plate, (A1 ["A01"; "Z09"]%string), (A0 (XQ 5)), None, kw_default.
  split; [reflexivity|]. split; [exists "Z09"%string; split; [right; left; reflexivity|vm_compute; reflexivity]|].
  vm_compute. intro H. discriminate H.
Qed.

Lemma dispense_unknown_volumes_refuted :
  exists s k L wells vols label comps kw,
    nth_error (st_lw s) k = Some L /\ (exists w, In w (flattenF wells) /\ lw_index L w = None) /\
    map lw_vols (st_lw (fst (dispense s k wells vols label comps kw))) <> map lw_vols (st_lw s).
Proof.
  exists (ex_wl_state [ex_plate]), 0%nat, ex_plate, (A1 ["A01"; "Z09"]%string), (A0 (XQ 5)), None, None, kw_default.
  split; [reflexivity|]. split; [exists "Z09"%string; split; [right; left; reflexivity|vm_compute; reflexivity]|].
  vm_compute. intro H. discriminate H.
Qed.

(* ------------------------------------------------------------------ distribute: the converse directions *)

(** the argument checks of [distribute] pass *)
Definition dist_ready (s : state) (ks kd : nat) (dwells : arr string) (a : distargs)
    (Ls Ld : labware) (v : Q) : Prop :=
  wf_state s /\ w_dev (st_wl s) <> BaseDev /\
  nth_error (st_lw s) ks = Some Ls /\ nth_error (st_lw s) kd = Some Ld /\
  g_vrows (lw_geom Ls) <> None /\ rvol_x (d_volume a) = Some (XQ v) /\ v <= w_max (st_wl s) /\
  flattenF dwells <> [] /\ (forall w, In w (flattenF dwells) -> lw_index Ld w <> None) /\
  (Z.to_nat (d_source_column a) < g_cols (lw_geom Ls))%nat.

Lemma positions_of_defined d g : wf_geom g -> d <> BaseDev -> forall ws,
  (forall w, In w ws -> well_index g w <> None) -> exists ps, positions_of d g ws = Ok ps.
Proof.
  intros Hg Hd. induction ws as [|w r IH]; intro H; cbn [positions_of]; [exists []; reflexivity|].
  destruct (well_index g w) as [rc|] eqn:Hi; [|exfalso; apply (H w); [left; reflexivity|exact Hi]].
  destruct (device_position_defined d g w rc Hg Hd Hi) as [p ->].
  destruct IH as [ps ->]; [intros w' Hw'; apply H; right; exact Hw'|]. exists (p :: ps). reflexivity.
Qed.

Lemma dist_ready_body s ks kd dwells a Ls Ld v : dist_ready s ks kd dwells a Ls Ld v ->
  exists ps p0 tl,
    positions_of (w_dev (st_wl s)) (lw_geom Ld) (flattenF dwells) = Ok ps /\
    sort_Z (map Z.of_nat ps) = p0 :: tl /\ length ps = length (flattenF dwells) /\
    distribute s ks kd dwells a = dist_body s ks kd dwells a Ls Ld (XQ v).
Proof.
  intros (HS & Hdev & HLs & HLd & Hvr & Exv & Hvm & Hne & Hids & Hcol).
  pose proof (wf_nth _ _ _ HS HLd) as [(Hg & _) _].
  destruct (positions_of_defined _ _ Hg Hdev (flattenF dwells)) as [ps Eps].
  { intros w Hw C. apply (Hids w Hw). unfold lw_index. rewrite C. reflexivity. }
  pose proof (positions_of_length _ _ _ _ Eps) as Hlen.
  destruct (sort_Z (map Z.of_nat ps)) as [|p0 tl] eqn:Es.
  { exfalso. pose proof (sort_Z_perm (map Z.of_nat ps)) as Hp. rewrite Es in Hp.
    apply Permutation_nil in Hp. apply map_eq_nil in Hp. subst ps. cbn [length] in Hlen.
    destruct (flattenF dwells); [apply Hne; reflexivity|discriminate]. }
  exists ps, p0, tl. split; [exact Eps|]. split; [exact Es|]. split; [exact Hlen|].
  rewrite distribute_unfold, HLs, HLd, Exv.
  destruct (g_vrows (lw_geom Ls)); [reflexivity|exfalso; apply Hvr; reflexivity].
Qed.

Lemma inject_nat_nonneg n : 0 <= inject_Z (Z.of_nat n).
Proof. change 0 with (inject_Z 0). rewrite <- Zle_Qle. lia. Qed.

(** the converse of [distribute_underflow]: when the argument checks pass and the source well does not hold
    [n * v] above its minimum, the call raises VolumeUnderflowError and nothing happens *)
Lemma distribute_underflow_conv s ks kd dwells a Ls Ld v i :
  dist_ready s ks kd dwells a Ls Ld v -> 0 <= v -> lw_index Ls (dist_src a) = Some i ->
  vol_at Ls i - inject_Z (Z.of_nat (length (flattenF dwells))) * v < lw_min Ls ->
  distribute s ks kd dwells a = (s, Some EUnderflow).
Proof.
  intros Hready Hv Hi Hlt.
  destruct (dist_ready_body _ _ _ _ _ _ _ _ Hready) as (ps & p0 & tl & Eps & Es & Hlen & ->).
  destruct Hready as (HS & Hdev & HLs & HLd & Hvr & Exv & Hvm & Hne & Hids & Hcol).
  unfold dist_body. cbv zeta.
  rewrite (Qgtb_false_intro _ _ Hvm).
  rewrite (existsb_false_all _ (flattenF dwells))
    by (intros x Hx; specialize (Hids x Hx); destruct (lw_index Ld x); [reflexivity|congruence]).
  rewrite Eps, Es. apply Nat.ltb_lt in Hcol. rewrite Hcol. cbn [negb]. rewrite Hlen. fold (dist_src a).
  cbn [xmul_nat].
  assert (Hr : remove Ls (A0 (dist_src a))
                 (A0 (XQ (Qred (v * inject_Z (Z.of_nat (length (flattenF dwells))))))) (d_label a)
               = (Ls, Some EUnderflow)).
  { apply remove_single_underflow_iff. split; [reflexivity|]. rewrite Qred_correct.
    pose proof (inject_nat_nonneg (length (flattenF dwells))) as Hn.
    split; [nra|]. exists i. split; [exact Hi|]. rewrite Qred_correct. lra. }
  rewrite Hr, (set_lw_same _ _ _ HLs). reflexivity.
Qed.

(** the converse of [distribute_overflow] *)
Lemma distribute_overflow_conv s ks kd dwells a Ls Ld v Ls' i Ld1 Ld' :
  dist_ready s ks kd dwells a Ls Ld v ->
  remove Ls (A0 (dist_src a)) (A0 (xmul_nat (XQ v) (length (flattenF dwells)))) (d_label a) = (Ls', None) ->
  lw_index Ls' (dist_src a) = Some i ->
  nth_error (st_lw (set_lw s ks Ls')) kd = Some Ld1 ->
  overflow_at Ld1 (A1 (flattenF dwells)) (A0 (XQ v))
              (Some (repeat (Some (well_composition_at Ls' i)) (length (flattenF dwells)))) Ld' ->
  distribute s ks kd dwells a = (set_lw (set_lw s ks Ls') kd Ld', Some EOverflow).
Proof.
  intros Hready Hr Hi HLd1 Ho.
  destruct (dist_ready_body _ _ _ _ _ _ _ _ Hready) as (ps & p0 & tl & Eps & Es & Hlen & ->).
  destruct Hready as (HS & Hdev & HLs & HLd & Hvr & Exv & Hvm & Hne & Hids & Hcol).
  unfold dist_body. cbv zeta.
  rewrite (Qgtb_false_intro _ _ Hvm).
  rewrite (existsb_false_all _ (flattenF dwells))
    by (intros x Hx; specialize (Hids x Hx); destruct (lw_index Ld x); [reflexivity|congruence]).
  rewrite Eps, Es. apply Nat.ltb_lt in Hcol. rewrite Hcol. cbn [negb]. rewrite Hlen. fold (dist_src a).
  rewrite Hr. unfold get_well_composition. rewrite Hi, HLd1.
  apply (add_overflow_iff _ _ _ (d_label a)) in Ho. rewrite Ho. reflexivity.
Qed.

(* ------------------------------------------------------------------ C08 / M7 in the wording of the property *)

(** "raise without emitting a record": the outcome is an error, the worklist (records included) is
    unchanged, no history entry is written, labware other than [k] are untouched *)
Definition no_record_shape (s : state) (k : nat) (r : state * option err) : Prop :=
  (exists e, snd r = Some e) /\ st_wl (fst r) = st_wl s /\ w_recs (st_wl (fst r)) = w_recs (st_wl s) /\
  map lw_hist (st_lw (fst r)) = map lw_hist (st_lw s) /\
  forall j, j <> k -> nth_error (st_lw (fst r)) j = nth_error (st_lw s) j.

Lemma no_record_of s k L L' e r : nth_error (st_lw s) k = Some L -> r = (set_lw s k L', Some e) ->
  lw_hist L' = lw_hist L -> no_record_shape s k r.
Proof.
  intros HL -> Hh. unfold no_record_shape. cbn [fst snd set_lw st_wl st_lw].
  split; [exists e; reflexivity|]. split; [reflexivity|]. split; [reflexivity|]. split.
  - rewrite map_upd, Hh. apply upd_same. apply map_nth_error. exact HL.
  - intros j Hj. apply nth_error_upd_other. intro C. apply Hj. symmetry. exact C.
Qed.

Lemma aspirate_unknown_no_record s k wells vols label kw L : nth_error (st_lw s) k = Some L ->
  (exists w, In w (flattenF wells) /\ lw_index L w = None) ->
  no_record_shape s k (aspirate s k wells vols label kw).
Proof.
  intros HL Hbad. destruct (aspirate_unknown_well s k wells vols label kw L HL Hbad) as (L' & e & Hr & _ & Hh & _).
  exact (no_record_of _ _ _ _ _ _ HL Hr Hh).
Qed.

Lemma dispense_unknown_no_record s k wells vols label comps kw L : nth_error (st_lw s) k = Some L ->
  (exists w, In w (flattenF wells) /\ lw_index L w = None) ->
  no_record_shape s k (dispense s k wells vols label comps kw).
Proof.
  intros HL Hbad.
  destruct (dispense_unknown_well s k wells vols label comps kw L HL Hbad) as (L' & e & Hr & _ & Hh & _).
  exact (no_record_of _ _ _ _ _ _ HL Hr Hh).
Qed.

Lemma evo_aspirate_unknown_no_record s k a label L : nth_error (st_lw s) k = Some L ->
  (exists w, In w (flattenF (c_wells a)) /\ lw_index L w = None) ->
  no_record_shape s k (evo_aspirate s k a label).
Proof.
  intros HL Hbad. destruct (evo_aspirate_unknown_well s k a label L HL Hbad) as (L' & e & Hr & _ & Hh & _).
  exact (no_record_of _ _ _ _ _ _ HL Hr Hh).
Qed.

Lemma evo_dispense_unknown_no_record s k a label comps L : nth_error (st_lw s) k = Some L ->
  (exists w, In w (flattenF (c_wells a)) /\ lw_index L w = None) ->
  no_record_shape s k (evo_dispense s k a label comps).
Proof.
  intros HL Hbad. destruct (evo_dispense_unknown_well s k a label comps L HL Hbad) as (L' & e & Hr & _ & Hh & _).
  exact (no_record_of _ _ _ _ _ _ HL Hr Hh).
Qed.

(* ------------------------------------------------------------------ the argument-check predicates, spelled out *)

Lemma transfer_valid_def s ks kd swells dwells vols label pb Ls Ld mode w :
  transfer_valid s ks kd swells dwells vols label pb Ls Ld mode w <->
  (w_dev (st_wl s) <> BaseDev /\
   nth_error (st_lw s) ks = Some Ls /\ nth_error (st_lw s) kd = Some Ld /\
   length (t_src swells dwells vols) = length (t_dst swells dwells vols) /\
   length (t_dst swells dwells vols) = length (t_vol swells dwells vols) /\
   (forall v, In v (t_vol swells dwells vols) -> 0 <= v) /\
   (forall x, In x (t_src swells dwells vols) -> lw_index Ls x <> None) /\
   (forall x, In x (t_dst swells dwells vols) -> lw_index Ld x <> None) /\
   optimize_partition_by (is_trough (lw_geom Ls)) (is_trough (lw_geom Ld)) pb = Ok mode /\
   comment (st_wl s) label = (w, None)).
Proof. unfold transfer_valid. reflexivity. Qed.

Lemma dist_ready_def s ks kd dwells a Ls Ld v :
  dist_ready s ks kd dwells a Ls Ld v <->
  (wf_state s /\ w_dev (st_wl s) <> BaseDev /\
   nth_error (st_lw s) ks = Some Ls /\ nth_error (st_lw s) kd = Some Ld /\
   g_vrows (lw_geom Ls) <> None /\ rvol_x (d_volume a) = Some (XQ v) /\ v <= w_max (st_wl s) /\
   flattenF dwells <> [] /\ (forall w, In w (flattenF dwells) -> lw_index Ld w <> None) /\
   (Z.to_nat (d_source_column a) < g_cols (lw_geom Ls))%nat).
Proof. unfold dist_ready. reflexivity. Qed.
