(** Lemmas for C09: the text of every worklist record parses back (with the independent parser of
    Spec/Gwl.v) to the arguments given; argument validation of the worklist methods. *)
From Robo Require Import Prelude Str Wells Utils Tips Records Params Gwl SaveProofs WellsProofs.
From Coq Require Import Lqa Sorted Permutation.
#[local] Open Scope string_scope.

(* ------------------------------------------------------------------------------------------ *)
(** * Characters in strings *)

Lemma rc_contains_app c a b : contains_char c (a ++ b) = contains_char c a || contains_char c b.
Proof.
  induction a as [|x a IH]; cbn [append contains_char]; [reflexivity|].
  rewrite IH. rewrite orb_assoc. reflexivity.
Qed.

Lemma rc_digits_no c s : is_digit c = false -> all_digits s = true -> contains_char c s = false.
Proof.
  intros Hc. induction s as [|a s IH]; intro H; [reflexivity|].
  cbn [all_digits] in H. apply andb_true_iff in H. destruct H as [Ha Hs].
  cbn [contains_char]. rewrite (IH Hs). rewrite orb_false_r.
  destruct (Ascii.eqb a c) eqn:E; [|reflexivity].
  apply Ascii.eqb_eq in E. subst a. congruence.
Qed.

Lemma rc_decN_no c n : is_digit c = false -> contains_char c (decN n) = false.
Proof. intro Hc. apply rc_digits_no; [exact Hc|apply all_digits_decN]. Qed.

Lemma rc_decZ_nonneg z : (0 <= z)%Z -> decZ z = decN (Z.to_N z).
Proof. intro H. destruct z as [|p|p]; [reflexivity|reflexivity|lia]. Qed.

Lemma rc_all_digits_app a b : all_digits (a ++ b) = all_digits a && all_digits b.
Proof.
  induction a as [|x a IH]; cbn [append all_digits]; [reflexivity|].
  rewrite IH. rewrite andb_assoc. reflexivity.
Qed.

Lemma rc_all_digits_pad_zeros k s : all_digits (pad_zeros k s) = all_digits s.
Proof.
  unfold pad_zeros. generalize (k - String.length s)%nat as n.
  induction n as [|n IH]; [reflexivity|]. cbn [all_digits]. rewrite IH. reflexivity.
Qed.

Lemma rc_all_digits_frac n k : all_digits (frac_digits n k) = true.
Proof. unfold frac_digits. rewrite rc_all_digits_pad_zeros. apply all_digits_decN. Qed.

(** a printed fixed-point number consists of digits and one point *)
Lemma rc_fixed_dec_no c n k : is_digit c = false -> c <> "."%char -> contains_char c (fixed_dec n k) = false.
Proof.
  intros Hc Hp. unfold fixed_dec. rewrite !rc_contains_app.
  rewrite rc_decN_no by exact Hc.
  rewrite (rc_digits_no c (frac_digits n k) Hc (rc_all_digits_frac n k)).
  cbn [contains_char]. destruct (Ascii.eqb "." c) eqn:E; [|reflexivity].
  apply Ascii.eqb_eq in E. congruence.
Qed.

(** * Splitting a joined line *)

Lemma rc_split_join c x l :
  contains_char c x = false -> Forall (fun y => contains_char c y = false) l ->
  split_on c (join (String c "") (x :: l)) = x :: l.
Proof. intros Hx Hl. unfold split_on. rewrite sv_split_on_join by assumption. reflexivity. Qed.

Lemma rc_contains_join c sep l :
  contains_char c sep = false -> Forall (fun y => contains_char c y = false) l ->
  contains_char c (join sep l) = false.
Proof.
  intros Hs Hl. induction Hl as [|x l Hx Hl IH]; [reflexivity|].
  destruct l as [|y l]; [exact Hx|].
  rewrite sv_join_cons. rewrite !rc_contains_app. rewrite Hx, Hs, IH. reflexivity.
Qed.

(** * Decimal round trips *)

Definition rc_frac2_chk (m : N) : bool :=
  match pad_zeros 2 (decN m) with
  | String a (String b EmptyString) =>
      match parse_decN (String a (String b EmptyString)) with Some k => N.eqb k m | None => false end
  | _ => false
  end.

Lemma rc_frac2_all : forallb rc_frac2_chk (map N.of_nat (seq 0 100)) = true.
Proof. vm_compute. reflexivity. Qed.

Lemma rc_frac2 m : (m < 100)%N ->
  exists a b, pad_zeros 2 (decN m) = String a (String b "") /\
              parse_decN (String a (String b "")) = Some m.
Proof.
  intro Hm. pose proof rc_frac2_all as H. rewrite forallb_forall in H.
  assert (Hin : In m (map N.of_nat (seq 0 100))).
  { rewrite <- (N2Nat.id m). apply in_map. apply in_seq. lia. }
  specialize (H m Hin). unfold rc_frac2_chk in H.
  destruct (pad_zeros 2 (decN m)) as [|a [|b [|c r]]]; try discriminate H.
  exists a, b. split; [reflexivity|].
  destruct (parse_decN (String a (String b ""))) as [k|]; [|discriminate H].
  apply N.eqb_eq in H. subst k. reflexivity.
Qed.

Lemma rc_dot_not_digit : is_digit "."%char = false.
Proof. reflexivity. Qed.
Lemma rc_semi_not_digit : is_digit ";"%char = false.
Proof. reflexivity. Qed.

(** "ddd.dd" is read back as the number of hundredths *)
Lemma rc_parse_cents_fixed n : parse_cents (fixed_dec n 2) = Some n.
Proof.
  unfold parse_cents, fixed_dec, frac_digits.
  change (10 ^ N.of_nat 2)%N with 100%N.
  assert (Hm : (n mod 100 < 100)%N) by (apply N.mod_lt; discriminate).
  destruct (rc_frac2 _ Hm) as [a [b [E P]]]. rewrite E.
  change (decN (n / 100) ++ "." ++ String a (String b ""))
    with (join "." [decN (n / 100)%N; String a (String b "")]).
  rewrite rc_split_join.
  - rewrite parse_decN_decN, P. f_equal. pose proof (N.div_mod n 100). lia.
  - apply rc_decN_no. exact rc_dot_not_digit.
  - constructor; [|constructor]. rewrite <- E.
    apply rc_digits_no; [exact rc_dot_not_digit|]. rewrite rc_all_digits_pad_zeros. apply all_digits_decN.
Qed.

Lemma rc_parse_mask_tip t : parse_mask (render_tip t) = Some t.
Proof.
  destruct t as [m|]; [|reflexivity]. unfold render_tip.
  pose proof (decN_nonempty m) as Hne. pose proof (parse_decN_decN m) as P.
  destruct (decN m) as [|a s]; [congruence|]. unfold parse_mask. rewrite P. reflexivity.
Qed.

Lemma rc_render_tip_no c t : is_digit c = false -> contains_char c (render_tip t) = false.
Proof. intro Hc. destruct t as [m|]; [apply rc_decN_no; exact Hc|reflexivity]. Qed.

Lemma rc_parse_decZ z : (0 <= z)%Z -> parse_decN (decZ z) = Some (Z.to_N z).
Proof. intro H. rewrite rc_decZ_nonneg by exact H. apply parse_decN_decN. Qed.

Lemma rc_decZ_no c z : is_digit c = false -> (0 <= z)%Z -> contains_char c (decZ z) = false.
Proof. intros Hc H. rewrite rc_decZ_nonneg by exact H. apply rc_decN_no. exact Hc. Qed.

(* ------------------------------------------------------------------------------------------ *)
(** * Rounding to two decimals *)

Local Open Scope Q_scope.

Lemma rc_floor_frac q : 0 <= q - inject_Z (Qfloor q) /\ q - inject_Z (Qfloor q) < 1.
Proof.
  pose proof (Qfloor_le q) as H1. pose proof (Qlt_floor q) as H2.
  rewrite inject_Z_plus in H2. change (inject_Z 1) with 1 in H2. split; lra.
Qed.

Lemma rc_Qrint_bound q : Qabs (inject_Z (Qrint q) - q) <= 1 # 2.
Proof.
  destruct (rc_floor_frac q) as [H0 H1]. unfold Qrint. cbv zeta.
  apply Qabs_Qle_condition.
  destruct (Qcompare (q - inject_Z (Qfloor q)) (1 # 2)) eqn:E.
  - apply Qeq_alt in E. destruct (Z.even (Qfloor q)).
    + split; lra.
    + rewrite inject_Z_plus. change (inject_Z 1) with 1. split; lra.
  - apply Qlt_alt in E. split; lra.
  - apply Qgt_alt in E. rewrite inject_Z_plus. change (inject_Z 1) with 1. split; lra.
Qed.

Lemma rc_Qrint_int q z : q == inject_Z z -> Qrint q = z.
Proof.
  intro H. unfold Qrint. cbv zeta.
  assert (Hf : Qfloor q = z). { rewrite H. apply Qfloor_Z. }
  rewrite Hf.
  assert (E : Qcompare (q - inject_Z z) (1 # 2) = Lt). { rewrite <- Qlt_alt. lra. }
  rewrite E. reflexivity.
Qed.

Lemma rc_Qrint_nonneg q : 0 <= q -> (0 <= Qrint q)%Z.
Proof.
  intro H. assert (Hf : (0 <= Qfloor q)%Z).
  { change 0%Z with (Qfloor 0). apply Qfloor_resp_le. exact H. }
  unfold Qrint. cbv zeta.
  destruct (Qcompare (q - inject_Z (Qfloor q)) (1 # 2)); [destruct (Z.even (Qfloor q))| |]; lia.
Qed.

(** the emitted volume is within half a hundredth of the requested one *)
Lemma rc_round2c_bound v : Qabs (inject_Z (round2c v) / 100 - v) <= 1 # 200.
Proof.
  unfold round2c. pose proof (rc_Qrint_bound (v * 100)) as H.
  apply Qabs_Qle_condition in H. destruct H as [H1 H2].
  apply Qabs_Qle_condition. split.
  - apply Qle_minus_iff. apply Qle_minus_iff in H1.
    setoid_replace (inject_Z (Qrint (v * 100)) / 100 - v + - - (1 # 200))
      with ((inject_Z (Qrint (v * 100)) - v * 100 + - - (1 # 2)) * (1 # 100)) by field.
    apply Qmult_le_0_compat; [exact H1|discriminate].
  - apply Qle_minus_iff. apply Qle_minus_iff in H2.
    setoid_replace ((1 # 200) + - (inject_Z (Qrint (v * 100)) / 100 - v))
      with (((1 # 2) + - (inject_Z (Qrint (v * 100)) - v * 100)) * (1 # 100)) by field.
    apply Qmult_le_0_compat; [exact H2|discriminate].
Qed.

(** a volume that already has at most two decimals is emitted exactly *)
Lemma rc_round2c_exact v z : v * 100 == inject_Z z -> round2c v = z.
Proof. intro H. unfold round2c. apply rc_Qrint_int. exact H. Qed.

Lemma rc_round2c_nonneg v : 0 <= v -> (0 <= round2c v)%Z.
Proof. intro H. unfold round2c. apply rc_Qrint_nonneg. nra. Qed.

Local Close Scope Q_scope.

(* ------------------------------------------------------------------------------------------ *)
(** * Dispatch of the parser on the first field *)

Definition rc_semi : ascii := ";"%char.
Definition rc_nosep (s : string) : Prop := contains_char ";"%char s = false.

Lemma rc_parse_A line rest : split_on ";"%char line = "A" :: rest ->
  parse_record line = match parse_ad rest with Some f => Some (PA f) | None => None end.
Proof. intro H. unfold parse_record. rewrite H. reflexivity. Qed.

Lemma rc_parse_D line rest : split_on ";"%char line = "D" :: rest ->
  parse_record line = match parse_ad rest with Some f => Some (PD f) | None => None end.
Proof. intro H. unfold parse_record. rewrite H. reflexivity. Qed.

Lemma rc_parse_R line rest : split_on ";"%char line = "R" :: rest ->
  parse_record line = match parse_r rest with Some f => Some (PR f) | None => None end.
Proof. intro H. unfold parse_record. rewrite H. reflexivity. Qed.

Lemma rc_parse_C line t : split_on ";"%char line = ["C"; t] -> parse_record line = Some (PC t).
Proof. intro H. unfold parse_record. rewrite H. reflexivity. Qed.

Lemma rc_parse_S line i : split_on ";"%char line = ["S"; i] ->
  parse_record line = match parse_decN i with Some n => Some (PS n) | None => None end.
Proof. intro H. unfold parse_record. rewrite H. reflexivity. Qed.

(* ------------------------------------------------------------------------------------------ *)
(** * Simple records *)

Lemma rc_simple_texts :
  map render [RW None; RW (Some 1%nat); RW (Some 2%nat); RW (Some 3%nat); RW (Some 4%nat); RWD; RF; RB]
  = ["W;"; "W1;"; "W2;"; "W3;"; "W4;"; "WD;"; "F;"; "B;"].
Proof. vm_compute. reflexivity. Qed.

Lemma rc_roundtrip_Wn n : (1 <= n <= 4)%nat ->
  parse_record (render (RW (Some n))) = Some (PW (Some (N.of_nat n))).
Proof. intro H. destruct n as [|[|[|[|[|n]]]]]; try lia; vm_compute; reflexivity. Qed.

Lemma rc_roundtrip_C t : rc_nosep t -> parse_record (render (RC t)) = Some (PC t).
Proof.
  intro H. apply rc_parse_C. cbn [render].
  change ("C;" ++ t) with (join ";" ["C"; t]).
  apply rc_split_join; [reflexivity|]. constructor; [exact H|constructor].
Qed.

Lemma rc_roundtrip_S i : (0 <= i)%Z -> parse_record (render (RS i)) = Some (PS (Z.to_N i)).
Proof.
  intro H. rewrite (rc_parse_S _ (decZ i)).
  - rewrite rc_parse_decZ by exact H. reflexivity.
  - cbn [render]. change ("S;" ++ decZ i) with (join ";" ["S"; decZ i]).
    apply rc_split_join; [reflexivity|]. constructor; [|constructor].
    apply rc_decZ_no; [reflexivity|exact H].
Qed.

Lemma rc_roundtrip_simple :
  parse_record (render (RW None)) = Some (PW None) /\
  (forall n, (1 <= n <= 4)%nat -> parse_record (render (RW (Some n))) = Some (PW (Some (N.of_nat n)))) /\
  parse_record (render RWD) = Some PWD /\
  parse_record (render RF) = Some PF /\
  parse_record (render RB) = Some PB /\
  (forall t, contains_char ";"%char t = false -> parse_record (render (RC t)) = Some (PC t)) /\
  (forall i, (0 <= i)%Z -> parse_record (render (RS i)) = Some (PS (Z.to_N i))).
Proof.
  split; [reflexivity|]. split; [exact rc_roundtrip_Wn|].
  split; [reflexivity|]. split; [reflexivity|]. split; [reflexivity|].
  split; [exact rc_roundtrip_C|exact rc_roundtrip_S].
Qed.

(** the keyword records and the comment have exactly two fields, the second one empty for keywords *)
Lemma rc_fields_simple :
  (forall r, In r [RW None; RW (Some 1%nat); RW (Some 2%nat); RW (Some 3%nat); RW (Some 4%nat); RWD; RF; RB] ->
     exists k, split_on ";"%char (render r) = [k; ""]) /\
  (forall t, contains_char ";"%char t = false -> split_on ";"%char (render (RC t)) = ["C"; t]) /\
  (forall i, (0 <= i)%Z -> split_on ";"%char (render (RS i)) = ["S"; decN (Z.to_N i)]).
Proof.
  split; [|split].
  - intros r H. cbn [In] in H.
    repeat (destruct H as [H|H]; [subst r; eexists; vm_compute; reflexivity|]). destruct H.
  - intros t H. cbn [render]. change ("C;" ++ t) with (join ";" ["C"; t]).
    apply rc_split_join; [reflexivity|]. constructor; [exact H|constructor].
  - intros i H. cbn [render]. rewrite rc_decZ_nonneg by exact H.
    change ("S;" ++ decN (Z.to_N i)) with (join ";" ["S"; decN (Z.to_N i)]).
    apply rc_split_join; [reflexivity|]. constructor; [|constructor].
    apply rc_decN_no. reflexivity.
Qed.

(* ------------------------------------------------------------------------------------------ *)
(** * Aspirate / dispense records *)

Definition rc_ad_nosep (f : adfields) : Prop :=
  rc_nosep (ad_rack_label f) /\ rc_nosep (ad_rack_id f) /\ rc_nosep (ad_rack_type f) /\
  rc_nosep (ad_tube_id f) /\ rc_nosep (ad_liquid_class f) /\ rc_nosep (ad_forced_rack_type f).

Definition rc_pad_of (f : adfields) : pad :=
  {| pa_rack_label := ad_rack_label f; pa_rack_id := ad_rack_id f; pa_rack_type := ad_rack_type f;
     pa_position := Z.to_N (ad_position f); pa_tube_id := ad_tube_id f;
     pa_volume_c := Z.to_N (round2c (ad_volume f)); pa_liquid_class := ad_liquid_class f;
     pa_tip := ad_tip f; pa_forced_rack_type := ad_forced_rack_type f |}.

(** a character that is not a digit, the point or (for the statement about [c]) one of the text fields *)
Lemma rc_ad_fields_no c kind f :
  is_digit c = false -> c <> "."%char -> (0 <= ad_position f)%Z ->
  contains_char c kind = false ->
  contains_char c (ad_rack_label f) = false -> contains_char c (ad_rack_id f) = false ->
  contains_char c (ad_rack_type f) = false -> contains_char c (ad_tube_id f) = false ->
  contains_char c (ad_liquid_class f) = false -> contains_char c (ad_forced_rack_type f) = false ->
  Forall (fun y => contains_char c y = false)
    [kind; ad_rack_label f; ad_rack_id f; ad_rack_type f; decZ (ad_position f); ad_tube_id f;
     fmt2 (ad_volume f); ad_liquid_class f; ""; render_tip (ad_tip f); ad_forced_rack_type f].
Proof.
  intros Hd Hp Hpos Hk H1 H2 H3 H4 H5 H6.
  repeat apply Forall_cons; try apply Forall_nil; try assumption.
  - apply rc_decZ_no; assumption.
  - unfold fmt2. apply rc_fixed_dec_no; assumption.
  - reflexivity.
  - apply rc_render_tip_no. exact Hd.
Qed.

Lemma rc_split_ad kind f : rc_nosep kind -> rc_ad_nosep f -> (0 <= ad_position f)%Z ->
  split_on ";"%char (render_ad kind f) =
    [kind; ad_rack_label f; ad_rack_id f; ad_rack_type f; decZ (ad_position f); ad_tube_id f;
     fmt2 (ad_volume f); ad_liquid_class f; ""; render_tip (ad_tip f); ad_forced_rack_type f].
Proof.
  intros Hk [H1 [H2 [H3 [H4 [H5 H6]]]]] Hpos. unfold render_ad.
  assert (HF := rc_ad_fields_no ";"%char kind f eq_refl ltac:(discriminate) Hpos Hk H1 H2 H3 H4 H5 H6).
  inversion HF as [|x l Hx Hl]. subst x l.
  apply rc_split_join; assumption.
Qed.

Lemma rc_parse_ad_fields f : (0 <= ad_position f)%Z ->
  parse_ad [ad_rack_label f; ad_rack_id f; ad_rack_type f; decZ (ad_position f); ad_tube_id f;
            fmt2 (ad_volume f); ad_liquid_class f; ""; render_tip (ad_tip f); ad_forced_rack_type f]
  = Some (rc_pad_of f).
Proof.
  intro Hpos. unfold parse_ad. rewrite rc_parse_decZ by exact Hpos.
  unfold fmt2. rewrite rc_parse_cents_fixed, rc_parse_mask_tip. reflexivity.
Qed.

Lemma rc_roundtrip_A f : rc_ad_nosep f -> (0 <= ad_position f)%Z ->
  parse_record (render (RA f)) = Some (PA (rc_pad_of f)).
Proof.
  intros Hs Hpos. cbn [render].
  rewrite (rc_parse_A _ _ (rc_split_ad "A" f eq_refl Hs Hpos)).
  rewrite rc_parse_ad_fields by exact Hpos. reflexivity.
Qed.

Lemma rc_roundtrip_D f : rc_ad_nosep f -> (0 <= ad_position f)%Z ->
  parse_record (render (RD f)) = Some (PD (rc_pad_of f)).
Proof.
  intros Hs Hpos. cbn [render].
  rewrite (rc_parse_D _ _ (rc_split_ad "D" f eq_refl Hs Hpos)).
  rewrite rc_parse_ad_fields by exact Hpos. reflexivity.
Qed.

Lemma rc_roundtrip_AD f :
  contains_char ";"%char (ad_rack_label f) = false /\ contains_char ";"%char (ad_rack_id f) = false /\
  contains_char ";"%char (ad_rack_type f) = false /\ contains_char ";"%char (ad_tube_id f) = false /\
  contains_char ";"%char (ad_liquid_class f) = false /\
  contains_char ";"%char (ad_forced_rack_type f) = false ->
  (0 <= ad_position f)%Z -> (0 <= ad_volume f)%Q ->
  exists p,
    parse_record (render (RA f)) = Some (PA p) /\ parse_record (render (RD f)) = Some (PD p) /\
    pa_rack_label p = ad_rack_label f /\ pa_rack_id p = ad_rack_id f /\ pa_rack_type p = ad_rack_type f /\
    Z.of_N (pa_position p) = ad_position f /\ pa_tube_id p = ad_tube_id f /\
    Z.of_N (pa_volume_c p) = round2c (ad_volume f) /\
    pa_liquid_class p = ad_liquid_class f /\ pa_tip p = ad_tip f /\
    pa_forced_rack_type p = ad_forced_rack_type f.
Proof.
  intros Hs Hpos Hvol. exists (rc_pad_of f).
  split; [apply rc_roundtrip_A; assumption|]. split; [apply rc_roundtrip_D; assumption|].
  pose proof (rc_round2c_nonneg _ Hvol) as Hr.
  unfold rc_pad_of. cbn [pa_rack_label pa_rack_id pa_rack_type pa_position pa_tube_id pa_volume_c
    pa_liquid_class pa_tip pa_forced_rack_type].
  repeat split; try reflexivity; apply Z2N.id; assumption.
Qed.

(** eleven fields, and no line break unless a text field has one *)
Lemma rc_fields_AD f :
  contains_char ";"%char (ad_rack_label f) = false /\ contains_char ";"%char (ad_rack_id f) = false /\
  contains_char ";"%char (ad_rack_type f) = false /\ contains_char ";"%char (ad_tube_id f) = false /\
  contains_char ";"%char (ad_liquid_class f) = false /\
  contains_char ";"%char (ad_forced_rack_type f) = false ->
  (0 <= ad_position f)%Z ->
  n_fields (render (RA f)) = 11%nat /\ n_fields (render (RD f)) = 11%nat /\
  forall c, is_digit c = false -> c <> "."%char -> c <> ";"%char -> c <> "A"%char -> c <> "D"%char ->
    contains_char c (ad_rack_label f) = false -> contains_char c (ad_rack_id f) = false ->
    contains_char c (ad_rack_type f) = false -> contains_char c (ad_tube_id f) = false ->
    contains_char c (ad_liquid_class f) = false -> contains_char c (ad_forced_rack_type f) = false ->
    contains_char c (render (RA f)) = false /\ contains_char c (render (RD f)) = false.
Proof.
  intros Hs Hpos. unfold n_fields. cbn [render].
  rewrite (rc_split_ad "A" f eq_refl Hs Hpos), (rc_split_ad "D" f eq_refl Hs Hpos).
  split; [reflexivity|]. split; [reflexivity|].
  intros c Hd Hp Hsc HA HD H1 H2 H3 H4 H5 H6.
  assert (Hsep : contains_char c ";" = false).
  { cbn [contains_char]. destruct (Ascii.eqb ";" c) eqn:E; [|reflexivity].
    apply Ascii.eqb_eq in E. congruence. }
  split; unfold render_ad; apply rc_contains_join; try exact Hsep;
    apply rc_ad_fields_no; try assumption.
  - cbn [contains_char]. destruct (Ascii.eqb "A" c) eqn:E; [|reflexivity].
    apply Ascii.eqb_eq in E. congruence.
  - cbn [contains_char]. destruct (Ascii.eqb "D" c) eqn:E; [|reflexivity].
    apply Ascii.eqb_eq in E. congruence.
Qed.

(* ------------------------------------------------------------------------------------------ *)
(** * Argument validation of aspirate_well / dispense_well *)

Lemma rc_Qltb_false a b : Qltb a b = false -> (b <= a)%Q.
Proof. unfold Qltb. intro H. apply negb_false_iff in H. apply Qle_bool_iff. exact H. Qed.
Lemma rc_Qltb_true a b : Qltb a b = true -> (a < b)%Q.
Proof.
  unfold Qltb. intro H. apply negb_true_iff in H. apply Qnot_le_lt. intro C.
  apply Qle_bool_iff in C. congruence.
Qed.
Lemma rc_Qgtb_false a b : Qgtb a b = false -> (a <= b)%Q.
Proof. unfold Qgtb. intro H. apply negb_false_iff in H. apply Qle_bool_iff. exact H. Qed.
Lemma rc_Qgtb_true a b : Qgtb a b = true -> (b < a)%Q.
Proof.
  unfold Qgtb. intro H. apply negb_true_iff in H. apply Qnot_le_lt. intro C.
  apply Qle_bool_iff in C. congruence.
Qed.
Lemma rc_Qltb_iff a b : Qltb a b = true <-> (a < b)%Q.
Proof.
  split; [apply rc_Qltb_true|]. intro H. destruct (Qltb a b) eqn:E; [reflexivity|].
  apply rc_Qltb_false in E. lra.
Qed.
Lemma rc_Qgtb_iff a b : Qgtb a b = true <-> (b < a)%Q.
Proof.
  split; [apply rc_Qgtb_true|]. intro H. destruct (Qgtb a b) eqn:E; [reflexivity|].
  apply rc_Qgtb_false in E. lra.
Qed.

(** what makes a text argument unusable *)
Definition rc_text_bad (limit : bool) (t : ptext) : Prop :=
  match t with
  | PNotStr => True
  | PStr s => contains_char ";"%char s = true \/ (limit = true /\ (32 < String.length s)%nat)
  end.

Lemma rc_text_ok_inv limit t s : text_ok limit t = Some s ->
  t = PStr s /\ contains_char ";"%char s = false /\ (limit = true -> (String.length s <= 32)%nat).
Proof.
  destruct t as [s'|]; [|discriminate]. unfold text_ok, semi.
  destruct (contains_char ";" s') eqn:E1; [discriminate|].
  destruct (limit && (32 <? String.length s')%nat) eqn:E2; [discriminate|].
  intro H. injection H as H. subst s'. split; [reflexivity|]. split; [exact E1|].
  intro Hl. subst limit. cbn [andb] in E2. apply Nat.ltb_ge in E2. exact E2.
Qed.

Lemma rc_text_ok_some limit s :
  contains_char ";"%char s = false -> (limit = true -> (String.length s <= 32)%nat) ->
  text_ok limit (PStr s) = Some s.
Proof.
  intros H1 H2. unfold text_ok, semi. rewrite H1.
  destruct limit; [|reflexivity]. cbn [andb].
  assert (E : (32 <? String.length s)%nat = false) by (apply Nat.ltb_ge; apply H2; reflexivity).
  rewrite E. reflexivity.
Qed.

Lemma rc_text_ok_none limit t : text_ok limit t = None <-> rc_text_bad limit t.
Proof.
  destruct t as [s|]; [|split; [intros _; exact I|reflexivity]].
  unfold text_ok, rc_text_bad, semi.
  destruct (contains_char ";" s) eqn:E1.
  - split; [intros _; left; reflexivity|reflexivity].
  - destruct limit; cbn [andb].
    + destruct (32 <? String.length s)%nat eqn:E2.
      * apply Nat.ltb_lt in E2. split; [intros _; right; split; [reflexivity|exact E2]|reflexivity].
      * apply Nat.ltb_ge in E2. split; [discriminate|]. intros [H|[_ H]]; [discriminate|lia].
    + split; [discriminate|]. intros [H|[H _]]; discriminate.
Qed.

Lemma rc_check_position_inv p z : check_position p = Ok z -> p = PInt z /\ (0 <= z)%Z.
Proof.
  destruct p as [z'|]; [|discriminate]. unfold check_position.
  destruct (z' <? 0)%Z eqn:E; [discriminate|]. intro H. injection H as H. subst z'.
  apply Z.ltb_ge in E. split; [reflexivity|exact E].
Qed.

Lemma rc_check_position_ok z : (0 <= z)%Z -> check_position (PInt z) = Ok z.
Proof. intro H. unfold check_position. apply Z.ltb_ge in H. rewrite H. reflexivity. Qed.

Lemma rc_check_position_err p e : check_position p = Err e ->
  e = EReject /\ match p with PInt z => (z < 0)%Z | PNotInt => True end.
Proof.
  destruct p as [z|]; unfold check_position.
  - destruct (z <? 0)%Z eqn:E; [|discriminate]. apply Z.ltb_lt in E.
    intro H. injection H as H. split; [symmetry; exact H|exact E].
  - intro H. injection H as H. split; [symmetry; exact H|exact I].
Qed.

Definition rc_max_ok (max_volume : option Q) (q : Q) : Prop :=
  match max_volume with Some m => (q <= m)%Q | None => True end.

Lemma rc_check_volume_inv v max q : check_volume v max = Ok q ->
  v = PV (XQ q) /\ (0 <= q)%Q /\ (q <= 7158278)%Q /\ rc_max_ok max q.
Proof.
  destruct v as [[q'| | |]|]; try discriminate. unfold check_volume, max_tecan_volume.
  destruct (Qltb q' 0) eqn:E1; [discriminate|]. apply rc_Qltb_false in E1.
  destruct (Qgtb q' 7158278) eqn:E2; [discriminate|]. apply rc_Qgtb_false in E2.
  destruct max as [m|]; unfold rc_max_ok.
  - destruct (Qgtb q' m) eqn:E3; [discriminate|]. apply rc_Qgtb_false in E3.
    intro H. injection H as H. subst q'. repeat split; assumption.
  - intro H. injection H as H. subst q'. repeat split; assumption.
Qed.

Lemma rc_check_volume_ok max q : (0 <= q)%Q -> (q <= 7158278)%Q -> rc_max_ok max q ->
  check_volume (PV (XQ q)) max = Ok q.
Proof.
  intros H1 H2 H3. unfold check_volume, max_tecan_volume.
  assert (E1 : Qltb q 0 = false).
  { destruct (Qltb q 0) eqn:E; [|reflexivity]. apply rc_Qltb_true in E. lra. }
  assert (E2 : Qgtb q 7158278 = false).
  { destruct (Qgtb q 7158278) eqn:E; [|reflexivity]. apply rc_Qgtb_true in E. lra. }
  rewrite E1, E2. destruct max as [m|]; [|reflexivity]. unfold rc_max_ok in H3.
  assert (E3 : Qgtb q m = false).
  { destruct (Qgtb q m) eqn:E; [|reflexivity]. apply rc_Qgtb_true in E. lra. }
  rewrite E3. reflexivity.
Qed.

(** a volume that is negative, NaN, infinite, not a number or too large for the record format *)
Definition rc_vol_bad (v : pvol) : Prop :=
  match v with PV (XQ q) => (q < 0)%Q \/ (7158278 < q)%Q | _ => True end.

Lemma rc_check_volume_err v max e : check_volume v max = Err e ->
  (e = EReject /\ rc_vol_bad v) \/
  (e = EInvalidOp /\ exists q m, v = PV (XQ q) /\ max = Some m /\ (0 <= q)%Q /\ (q <= 7158278)%Q /\ (m < q)%Q).
Proof.
  destruct v as [[q| | |]|]; unfold check_volume, max_tecan_volume, rc_vol_bad;
    try (intro H; injection H as H; left; split; [symmetry; exact H|exact I]).
  destruct (Qltb q 0) eqn:E1.
  { apply rc_Qltb_true in E1. intro H. injection H as H. left. split; [symmetry; exact H|left; exact E1]. }
  apply rc_Qltb_false in E1.
  destruct (Qgtb q 7158278) eqn:E2.
  { apply rc_Qgtb_true in E2. intro H. injection H as H. left. split; [symmetry; exact H|right; exact E2]. }
  apply rc_Qgtb_false in E2.
  destruct max as [m|]; [|discriminate].
  destruct (Qgtb q m) eqn:E3; [|discriminate]. apply rc_Qgtb_true in E3.
  intro H. injection H as H. right. split; [symmetry; exact H|].
  exists q, m. repeat split; assumption.
Qed.

Lemma rc_check_volume_bad v max : rc_vol_bad v -> check_volume v max = Err EReject.
Proof.
  intro H. destruct (check_volume v max) as [q|e] eqn:E.
  - apply rc_check_volume_inv in E. destruct E as [Ev [H0 [H1 _]]]. subst v.
    unfold rc_vol_bad in H. destruct H as [H|H]; lra.
  - apply rc_check_volume_err in E. destruct E as [[Ee _]|[_ [q [m [Ev [_ [H0 [H1 _]]]]]]]].
    + subst e. reflexivity.
    + subst v. unfold rc_vol_bad in H. destruct H as [H|H]; lra.
Qed.

Lemma rc_tip_mask_err t e : tip_mask t = Err e -> e = EReject.
Proof.
  unfold tip_mask. destruct t as [[z|n| |]|l].
  - destruct (int_to_tip z); [discriminate|]. intro H. injection H as H. symmetry. exact H.
  - destruct (elem_bit (TTip n)); [discriminate|]. intro H. injection H as H. symmetry. exact H.
  - discriminate.
  - intro H. injection H as H. symmetry. exact H.
  - destruct (elems_bits l); [discriminate|]. intro H. injection H as H. symmetry. exact H.
Qed.

(** the record fields produced by an accepted call *)
Definition rc_ad_valid (f : adfields) (max_volume : option Q) : Prop :=
  (contains_char ";"%char (ad_rack_label f) = false /\ contains_char ";"%char (ad_rack_id f) = false /\
   contains_char ";"%char (ad_rack_type f) = false /\ contains_char ";"%char (ad_tube_id f) = false /\
   contains_char ";"%char (ad_liquid_class f) = false /\
   contains_char ";"%char (ad_forced_rack_type f) = false) /\
  ((String.length (ad_rack_label f) <= 32)%nat /\ (String.length (ad_rack_id f) <= 32)%nat /\
   (String.length (ad_rack_type f) <= 32)%nat /\ (String.length (ad_forced_rack_type f) <= 32)%nat) /\
  (0 <= ad_position f)%Z /\
  (0 <= ad_volume f)%Q /\ (ad_volume f <= 7158278)%Q /\
  match max_volume with Some m => (ad_volume f <= m)%Q | None => True end.

Definition rc_ad_args (a : adargs) (f : adfields) : Prop :=
  x_rack_label a = PStr (ad_rack_label f) /\ x_rack_id a = PStr (ad_rack_id f) /\
  x_rack_type a = PStr (ad_rack_type f) /\ x_tube_id a = PStr (ad_tube_id f) /\
  x_liquid_class a = PStr (ad_liquid_class f) /\ x_forced a = PStr (ad_forced_rack_type f) /\
  x_position a = PInt (ad_position f) /\ x_volume a = PV (XQ (ad_volume f)) /\
  tip_mask (x_tip a) = Ok (ad_tip f).

Lemma rc_prepare_ok a max f : prepare_ad a max = Ok f -> rc_ad_args a f /\ rc_ad_valid f max.
Proof.
  unfold prepare_ad.
  destruct (text_ok true (x_rack_label a)) as [label|] eqn:E1; [|discriminate].
  destruct (check_position (x_position a)) as [pos|e] eqn:E2; [|discriminate].
  destruct (check_volume (x_volume a) max) as [v|e] eqn:E3; [|discriminate].
  destruct (text_ok false (x_liquid_class a)) as [lc|] eqn:E4; [|discriminate].
  destruct (tip_mask (x_tip a)) as [mask|e] eqn:E5; [|discriminate].
  destruct (text_ok true (x_rack_id a)) as [rid|] eqn:E6; [|discriminate].
  destruct (text_ok false (x_tube_id a)) as [tid|] eqn:E7; [|discriminate].
  destruct (text_ok true (x_rack_type a)) as [rty|] eqn:E8; [|discriminate].
  destruct (text_ok true (x_forced a)) as [frt|] eqn:E9; [|discriminate].
  intro H. injection H as H. subst f.
  apply rc_text_ok_inv in E1, E4, E6, E7, E8, E9.
  destruct E1 as [A1 [B1 C1]]. destruct E4 as [A4 [B4 _]]. destruct E6 as [A6 [B6 C6]].
  destruct E7 as [A7 [B7 _]]. destruct E8 as [A8 [B8 C8]]. destruct E9 as [A9 [B9 C9]].
  apply rc_check_position_inv in E2. destruct E2 as [A2 B2].
  apply rc_check_volume_inv in E3. destruct E3 as [A3 [B3 [C3 D3]]].
  unfold rc_ad_args, rc_ad_valid.
  cbn [ad_rack_label ad_rack_id ad_rack_type ad_position ad_tube_id ad_volume ad_liquid_class ad_tip
       ad_forced_rack_type].
  split.
  - repeat split; assumption.
  - split; [repeat split; assumption|]. split; [repeat split; auto|].
    split; [exact B2|]. split; [exact B3|]. split; [exact C3|exact D3].
Qed.

(** conversely, representable arguments are accepted and give exactly this record *)
Lemma rc_prepare_complete a max f : rc_ad_args a f -> rc_ad_valid f max -> prepare_ad a max = Ok f.
Proof.
  intros [A1 [A2 [A3 [A4 [A5 [A6 [A7 [A8 A9]]]]]]]] [[S1 [S2 [S3 [S4 [S5 S6]]]]] [[L1 [L2 [L3 L4]]] [P [V0 [V1 VM]]]]].
  unfold prepare_ad. rewrite A1, A2, A3, A4, A5, A6, A7, A8, A9.
  rewrite (rc_text_ok_some true _ S1 (fun _ => L1)).
  rewrite (rc_check_position_ok _ P).
  rewrite (rc_check_volume_ok max _ V0 V1 VM).
  rewrite (rc_text_ok_some false _ S5) by discriminate.
  rewrite (rc_text_ok_some true _ S2 (fun _ => L2)).
  rewrite (rc_text_ok_some false _ S4) by discriminate.
  rewrite (rc_text_ok_some true _ S3 (fun _ => L3)).
  rewrite (rc_text_ok_some true _ S6 (fun _ => L4)).
  destruct f; reflexivity.
Qed.

(** the round trip applies to every accepted call *)
Lemma rc_prepare_roundtrip a max f : prepare_ad a max = Ok f ->
  parse_record (render (RA f)) = Some (PA (rc_pad_of f)) /\
  parse_record (render (RD f)) = Some (PD (rc_pad_of f)).
Proof.
  intro H. apply rc_prepare_ok in H. destruct H as [_ [Hs [_ [Hp _]]]].
  split; [apply rc_roundtrip_A|apply rc_roundtrip_D]; assumption.
Qed.

(** ** Rejections *)

Lemma rc_prepare_err_class a max e : prepare_ad a max = Err e ->
  e = EReject \/
  (e = EInvalidOp /\ exists q m, x_volume a = PV (XQ q) /\ max = Some m /\
                                 (0 <= q)%Q /\ (q <= 7158278)%Q /\ (m < q)%Q).
Proof.
  unfold prepare_ad.
  destruct (text_ok true (x_rack_label a)) as [label|] eqn:E1;
    [|intro H; injection H as H; left; symmetry; exact H].
  destruct (check_position (x_position a)) as [pos|e2] eqn:E2.
  2:{ intro H. injection H as H. subst e2. apply rc_check_position_err in E2. left. apply E2. }
  destruct (check_volume (x_volume a) max) as [v|e3] eqn:E3.
  2:{ intro H. injection H as H. subst e3. apply rc_check_volume_err in E3.
      destruct E3 as [[E3 _]|[E3 Hq]]; [left; exact E3|right; split; [exact E3|exact Hq]]. }
  destruct (text_ok false (x_liquid_class a)) as [lc|] eqn:E4;
    [|intro H; injection H as H; left; symmetry; exact H].
  destruct (tip_mask (x_tip a)) as [mask|e5] eqn:E5.
  2:{ intro H. injection H as H. subst e5. left. apply (rc_tip_mask_err _ _ E5). }
  destruct (text_ok true (x_rack_id a)) as [rid|] eqn:E6;
    [|intro H; injection H as H; left; symmetry; exact H].
  destruct (text_ok false (x_tube_id a)) as [tid|] eqn:E7;
    [|intro H; injection H as H; left; symmetry; exact H].
  destruct (text_ok true (x_rack_type a)) as [rty|] eqn:E8;
    [|intro H; injection H as H; left; symmetry; exact H].
  destruct (text_ok true (x_forced a)) as [frt|] eqn:E9;
    [|intro H; injection H as H; left; symmetry; exact H].
  discriminate.
Qed.

(** generic: whatever contradicts the conclusions of [rc_prepare_ok] is rejected *)
Lemma rc_prepare_reject_if a max :
  (forall f, rc_ad_args a f -> rc_ad_valid f max -> False) -> exists e, prepare_ad a max = Err e.
Proof.
  intro H. destruct (prepare_ad a max) as [f|e] eqn:E; [|exists e; reflexivity].
  exfalso. apply rc_prepare_ok in E. destruct E as [E1 E2]. exact (H f E1 E2).
Qed.

(** a separator in one of the six text fields *)
Lemma rc_reject_separator a max s :
  contains_char ";"%char s = true ->
  x_rack_label a = PStr s \/ x_rack_id a = PStr s \/ x_rack_type a = PStr s \/
  x_tube_id a = PStr s \/ x_liquid_class a = PStr s \/ x_forced a = PStr s ->
  exists e, prepare_ad a max = Err e.
Proof.
  intros Hs H. apply rc_prepare_reject_if.
  intros f [A1 [A2 [A3 [A4 [A5 [A6 _]]]]]] [[S1 [S2 [S3 [S4 [S5 S6]]]]] _].
  destruct H as [H|[H|[H|[H|[H|H]]]]]; congruence.
Qed.

(** a text argument that is not a str *)
Lemma rc_reject_nonstr a max :
  x_rack_label a = PNotStr \/ x_rack_id a = PNotStr \/ x_rack_type a = PNotStr \/
  x_tube_id a = PNotStr \/ x_liquid_class a = PNotStr \/ x_forced a = PNotStr ->
  exists e, prepare_ad a max = Err e.
Proof.
  intro H. apply rc_prepare_reject_if.
  intros f [A1 [A2 [A3 [A4 [A5 [A6 _]]]]]] _.
  destruct H as [H|[H|[H|[H|[H|H]]]]]; congruence.
Qed.

(** rack label, rack ID, rack type or forced rack type longer than 32 characters *)
Lemma rc_reject_long a max s :
  (32 < String.length s)%nat ->
  x_rack_label a = PStr s \/ x_rack_id a = PStr s \/ x_rack_type a = PStr s \/ x_forced a = PStr s ->
  exists e, prepare_ad a max = Err e.
Proof.
  intros Hs H. apply rc_prepare_reject_if.
  intros f [A1 [A2 [A3 [_ [_ [A6 _]]]]]] [_ [[L1 [L2 [L3 L4]]] _]].
  destruct H as [H|[H|[H|H]]].
  - rewrite H in A1. injection A1 as A1. subst s. lia.
  - rewrite H in A2. injection A2 as A2. subst s. lia.
  - rewrite H in A3. injection A3 as A3. subst s. lia.
  - rewrite H in A6. injection A6 as A6. subst s. lia.
Qed.

(** the rack label is checked first: its rejection is always a ValueError *)
Lemma rc_reject_label a max : rc_text_bad true (x_rack_label a) -> prepare_ad a max = Err EReject.
Proof.
  intro H. apply rc_text_ok_none in H. unfold prepare_ad. rewrite H. reflexivity.
Qed.

(** negative or non-int position: ValueError *)
Lemma rc_reject_position a max :
  (match x_position a with PInt z => (z < 0)%Z | PNotInt => True end) ->
  prepare_ad a max = Err EReject.
Proof.
  intro H. destruct (prepare_ad a max) as [f|e] eqn:E.
  - apply rc_prepare_ok in E. destruct E as [[_ [_ [_ [_ [_ [_ [A7 _]]]]]]] [_ [_ [P _]]]].
    rewrite A7 in H. lia.
  - pose proof E as E'. apply rc_prepare_err_class in E'. destruct E' as [E'|[E' _]]; [subst e; reflexivity|].
    subst e. exfalso. unfold prepare_ad in E.
    destruct (text_ok true (x_rack_label a)); [|discriminate].
    destruct (check_position (x_position a)) as [pos|e2] eqn:E2.
    + apply rc_check_position_inv in E2. destruct E2 as [E2 P]. rewrite E2 in H. lia.
    + apply rc_check_position_err in E2. destruct E2 as [E2 _]. congruence.
Qed.

(** negative, NaN, infinite, non-numeric or oversized volume: ValueError *)
Lemma rc_reject_volume a max : rc_vol_bad (x_volume a) -> prepare_ad a max = Err EReject.
Proof.
  intro H. destruct (prepare_ad a max) as [f|e] eqn:E.
  - apply rc_prepare_ok in E. destruct E as [[_ [_ [_ [_ [_ [_ [_ [A8 _]]]]]]]] [_ [_ [_ [V0 [V1 _]]]]]].
    rewrite A8 in H. unfold rc_vol_bad in H. destruct H as [H|H]; lra.
  - apply rc_prepare_err_class in E. destruct E as [E|[_ [q [m [Ev [_ [H0 [H1 _]]]]]]]]; [subst e; reflexivity|].
    rewrite Ev in H. unfold rc_vol_bad in H. destruct H as [H|H]; lra.
Qed.

(** a volume above the worklist's max_volume: InvalidOperationError, provided the arguments checked
    before the volume (rack label, position) and the volume itself are fine *)
Lemma rc_reject_over_max a m : 
  prepare_ad a (Some m) = Err EInvalidOp <->
  (exists s, text_ok true (x_rack_label a) = Some s) /\ (exists z, x_position a = PInt z /\ (0 <= z)%Z) /\
  exists q, x_volume a = PV (XQ q) /\ (0 <= q)%Q /\ (q <= 7158278)%Q /\ (m < q)%Q.
Proof.
  split.
  - intro E. unfold prepare_ad in E.
    destruct (text_ok true (x_rack_label a)) as [label|] eqn:E1; [|discriminate].
    destruct (check_position (x_position a)) as [pos|e2] eqn:E2.
    2:{ apply rc_check_position_err in E2. destruct E2 as [E2 _]. congruence. }
    destruct (check_volume (x_volume a) (Some m)) as [v|e3] eqn:E3.
    2:{ injection E as E. subst e3. apply rc_check_volume_err in E3.
        destruct E3 as [[E3 _]|[_ [q [m' [Ev [Em [H0 [H1 H2]]]]]]]]; [discriminate|].
        injection Em as Em. subst m'.
        apply rc_check_position_inv in E2.
        split; [exists label; reflexivity|]. split; [exists pos; exact E2|].
        exists q. repeat split; assumption. }
    destruct (text_ok false (x_liquid_class a)); [|discriminate].
    destruct (tip_mask (x_tip a)) as [mask|e5] eqn:E5.
    2:{ apply rc_tip_mask_err in E5. congruence. }
    destruct (text_ok true (x_rack_id a)); [|discriminate].
    destruct (text_ok false (x_tube_id a)); [|discriminate].
    destruct (text_ok true (x_rack_type a)); [|discriminate].
    destruct (text_ok true (x_forced a)); discriminate.
  - intros [[s Hs] [[z [Hz Hz0]] [q [Hq [H0 [H1 H2]]]]]].
    unfold prepare_ad. rewrite Hs, Hz, Hq. rewrite (rc_check_position_ok _ Hz0).
    unfold check_volume, max_tecan_volume.
    assert (E1 : Qltb q 0 = false).
    { destruct (Qltb q 0) eqn:E; [|reflexivity]. apply rc_Qltb_true in E. lra. }
    assert (E2 : Qgtb q 7158278 = false).
    { destruct (Qgtb q 7158278) eqn:E; [|reflexivity]. apply rc_Qgtb_true in E. lra. }
    assert (E3 : Qgtb q m = true) by (apply rc_Qgtb_iff; exact H2).
    rewrite E1, E2, E3. reflexivity.
Qed.

Lemma rc_reject_over_max_any a m q : x_volume a = PV (XQ q) -> (m < q)%Q ->
  exists e, prepare_ad a (Some m) = Err e.
Proof.
  intros Hq Hm. apply rc_prepare_reject_if.
  intros f [_ [_ [_ [_ [_ [_ [_ [A8 _]]]]]]]] [_ [_ [_ [_ [_ VM]]]]].
  rewrite Hq in A8. injection A8 as A8. rewrite <- A8 in VM. lra.
Qed.

(** an invalid tip argument *)
Lemma rc_reject_tip a max e' : tip_mask (x_tip a) = Err e' -> exists e, prepare_ad a max = Err e.
Proof.
  intro H. apply rc_prepare_reject_if.
  intros f [_ [_ [_ [_ [_ [_ [_ [_ A9]]]]]]]] _. congruence.
Qed.

(** the exception is a ValueError or an InvalidOperationError *)
Lemma rc_prepare_err_two a max e : prepare_ad a max = Err e -> e = EReject \/ e = EInvalidOp.
Proof.
  intro H. apply rc_prepare_err_class in H. destruct H as [H|[H _]]; [left|right]; exact H.
Qed.

(** ** aspirate_well / dispense_well *)

Lemma rc_aspirate_well w a w' r : aspirate_well w a = (w', r) ->
  match r with
  | Some e => w' = w /\ prepare_ad a (Some (w_max w)) = Err e
  | None => exists f, prepare_ad a (Some (w_max w)) = Ok f /\ w' = emit w [RA f] /\
                      w_recs w' = (w_recs w ++ [RA f])%list
  end.
Proof.
  unfold aspirate_well. destruct (prepare_ad a (Some (w_max w))) as [f|e] eqn:E; intro H;
    injection H as H1 H2; subst w' r.
  - exists f. repeat split; reflexivity.
  - split; reflexivity.
Qed.

Lemma rc_dispense_well w a w' r : dispense_well w a = (w', r) ->
  match r with
  | Some e => w' = w /\ prepare_ad a (Some (w_max w)) = Err e
  | None => exists f, prepare_ad a (Some (w_max w)) = Ok f /\ w' = emit w [RD f] /\
                      w_recs w' = (w_recs w ++ [RD f])%list
  end.
Proof.
  unfold dispense_well. destruct (prepare_ad a (Some (w_max w))) as [f|e] eqn:E; intro H;
    injection H as H1 H2; subst w' r.
  - exists f. repeat split; reflexivity.
  - split; reflexivity.
Qed.
