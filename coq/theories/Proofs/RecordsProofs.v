(** Lemmas for C09: the text of every worklist record parses back (with the independent parser of
    Spec/Gwl.v) to the arguments given; argument validation of the worklist methods. *)
From Robo Require Import Prelude Str Wells Utils Tips Records Params Gwl SaveProofs WellsProofs.
From Coq Require Import Lqa Sorted Permutation.
#[local] Open Scope string_scope.

(* ------------------------------------------------------------------------------------------ *)
(** * Characters in strings *)

Lemma rc_contains_app c a b : contains_char c (a ++ b) = contains_char c a || contains_char c b.
Proof.
  induction a as [|x a IH]; cbn [append contains_char]; [reflexivity|].
  rewrite IH. rewrite orb_assoc. reflexivity.
Qed.

Lemma rc_digits_no c s : is_digit c = false -> all_digits s = true -> contains_char c s = false.
Proof.
  intros Hc. induction s as [|a s IH]; intro H; [reflexivity|].
  cbn [all_digits] in H. apply andb_true_iff in H. destruct H as [Ha Hs].
  cbn [contains_char]. rewrite (IH Hs). rewrite orb_false_r.
  destruct (Ascii.eqb a c) eqn:E; [|reflexivity].
  apply Ascii.eqb_eq in E. subst a. congruence.
Qed.

Lemma rc_decN_no c n : is_digit c = false -> contains_char c (decN n) = false.
Proof. intro Hc. apply rc_digits_no; [exact Hc|apply all_digits_decN]. Qed.

Lemma rc_decZ_nonneg z : (0 <= z)%Z -> decZ z = decN (Z.to_N z).
Proof. intro H. destruct z as [|p|p]; [reflexivity|reflexivity|lia]. Qed.

Lemma rc_all_digits_app a b : all_digits (a ++ b) = all_digits a && all_digits b.
Proof.
  induction a as [|x a IH]; cbn [append all_digits]; [reflexivity|].
  rewrite IH. rewrite andb_assoc. reflexivity.
Qed.

Lemma rc_all_digits_pad_zeros k s : all_digits (pad_zeros k s) = all_digits s.
Proof.
  unfold pad_zeros. generalize (k - String.length s)%nat as n.
  induction n as [|n IH]; [reflexivity|]. cbn [all_digits]. rewrite IH. reflexivity.
Qed.

Lemma rc_all_digits_frac n k : all_digits (frac_digits n k) = true.
Proof. unfold frac_digits. rewrite rc_all_digits_pad_zeros. apply all_digits_decN. Qed.

(** a printed fixed-point number consists of digits and one point *)
Lemma rc_fixed_dec_no c n k : is_digit c = false -> c <> "."%char -> contains_char c (fixed_dec n k) = false.
Proof.
  intros Hc Hp. unfold fixed_dec. rewrite !rc_contains_app.
  rewrite rc_decN_no by exact Hc.
  rewrite (rc_digits_no c (frac_digits n k) Hc (rc_all_digits_frac n k)).
  cbn [contains_char]. destruct (Ascii.eqb "." c) eqn:E; [|reflexivity].
  apply Ascii.eqb_eq in E. congruence.
Qed.

(** * Splitting a joined line *)

Lemma rc_split_join c x l :
  contains_char c x = false -> Forall (fun y => contains_char c y = false) l ->
  split_on c (join (String c "") (x :: l)) = x :: l.
Proof. intros Hx Hl. unfold split_on. rewrite sv_split_on_join by assumption. reflexivity. Qed.

Lemma rc_contains_join c sep l :
  contains_char c sep = false -> Forall (fun y => contains_char c y = false) l ->
  contains_char c (join sep l) = false.
Proof.
  intros Hs Hl. induction Hl as [|x l Hx Hl IH]; [reflexivity|].
  destruct l as [|y l]; [exact Hx|].
  rewrite sv_join_cons. rewrite !rc_contains_app. rewrite Hx, Hs, IH. reflexivity.
Qed.

(** * Decimal round trips *)

Definition rc_frac2_chk (m : N) : bool :=
  match pad_zeros 2 (decN m) with
  | String a (String b EmptyString) =>
      match parse_decN (String a (String b EmptyString)) with Some k => N.eqb k m | None => false end
  | _ => false
  end.

Lemma rc_frac2_all : forallb rc_frac2_chk (map N.of_nat (seq 0 100)) = true.
Proof. vm_compute. reflexivity. Qed.

Lemma rc_frac2 m : (m < 100)%N ->
  exists a b, pad_zeros 2 (decN m) = String a (String b "") /\
              parse_decN (String a (String b "")) = Some m.
Proof.
  intro Hm. pose proof rc_frac2_all as H. rewrite forallb_forall in H.
  assert (Hin : In m (map N.of_nat (seq 0 100))).
  { rewrite <- (N2Nat.id m). apply in_map. apply in_seq. lia. }
  specialize (H m Hin). unfold rc_frac2_chk in H.
  destruct (pad_zeros 2 (decN m)) as [|a [|b [|c r]]]; try discriminate H.
  exists a, b. split; [reflexivity|].
  destruct (parse_decN (String a (String b ""))) as [k|]; [|discriminate H].
  apply N.eqb_eq in H. subst k. reflexivity.
Qed.

Lemma rc_dot_not_digit : is_digit "."%char = false.
Proof. reflexivity. Qed.
Lemma rc_semi_not_digit : is_digit ";"%char = false.
Proof. reflexivity. Qed.

(** "ddd.dd" is read back as the number of hundredths *)
Lemma rc_parse_cents_fixed n : parse_cents (fixed_dec n 2) = Some n.
Proof.
  unfold parse_cents, fixed_dec, frac_digits.
  change (10 ^ N.of_nat 2)%N with 100%N.
  assert (Hm : (n mod 100 < 100)%N) by (apply N.mod_lt; discriminate).
  destruct (rc_frac2 _ Hm) as [a [b [E P]]]. rewrite E.
  change (decN (n / 100) ++ "." ++ String a (String b ""))
    with (join "." [decN (n / 100)%N; String a (String b "")]).
  rewrite rc_split_join.
  - rewrite parse_decN_decN, P. f_equal. pose proof (N.div_mod n 100). lia.
  - apply rc_decN_no. exact rc_dot_not_digit.
  - constructor; [|constructor]. rewrite <- E.
    apply rc_digits_no; [exact rc_dot_not_digit|]. rewrite rc_all_digits_pad_zeros. apply all_digits_decN.
Qed.

Lemma rc_parse_mask_tip t : parse_mask (render_tip t) = Some t.
Proof.
  destruct t as [m|]; [|reflexivity]. unfold render_tip.
  pose proof (decN_nonempty m) as Hne. pose proof (parse_decN_decN m) as P.
  destruct (decN m) as [|a s]; [congruence|]. unfold parse_mask. rewrite P. reflexivity.
Qed.

Lemma rc_render_tip_no c t : is_digit c = false -> contains_char c (render_tip t) = false.
Proof. intro Hc. destruct t as [m|]; [apply rc_decN_no; exact Hc|reflexivity]. Qed.

Lemma rc_parse_decZ z : (0 <= z)%Z -> parse_decN (decZ z) = Some (Z.to_N z).
Proof. intro H. rewrite rc_decZ_nonneg by exact H. apply parse_decN_decN. Qed.

Lemma rc_decZ_no c z : is_digit c = false -> (0 <= z)%Z -> contains_char c (decZ z) = false.
Proof. intros Hc H. rewrite rc_decZ_nonneg by exact H. apply rc_decN_no. exact Hc. Qed.

(* ------------------------------------------------------------------------------------------ *)
(** * Rounding to two decimals *)

Local Open Scope Q_scope.

Lemma rc_floor_frac q : 0 <= q - inject_Z (Qfloor q) /\ q - inject_Z (Qfloor q) < 1.
Proof.
  pose proof (Qfloor_le q) as H1. pose proof (Qlt_floor q) as H2.
  rewrite inject_Z_plus in H2. change (inject_Z 1) with 1 in H2. split; lra.
Qed.

Lemma rc_Qrint_bound q : Qabs (inject_Z (Qrint q) - q) <= 1 # 2.
Proof.
  destruct (rc_floor_frac q) as [H0 H1]. unfold Qrint. cbv zeta.
  apply Qabs_Qle_condition.
  destruct (Qcompare (q - inject_Z (Qfloor q)) (1 # 2)) eqn:E.
  - apply Qeq_alt in E. destruct (Z.even (Qfloor q)).
    + split; lra.
    + rewrite inject_Z_plus. change (inject_Z 1) with 1. split; lra.
  - apply Qlt_alt in E. split; lra.
  - apply Qgt_alt in E. rewrite inject_Z_plus. change (inject_Z 1) with 1. split; lra.
Qed.

Lemma rc_Qrint_int q z : q == inject_Z z -> Qrint q = z.
Proof.
  intro H. unfold Qrint. cbv zeta.
  assert (Hf : Qfloor q = z). { rewrite H. apply Qfloor_Z. }
  rewrite Hf.
  assert (E : Qcompare (q - inject_Z z) (1 # 2) = Lt). { rewrite <- Qlt_alt. lra. }
  rewrite E. reflexivity.
Qed.

Lemma rc_Qrint_nonneg q : 0 <= q -> (0 <= Qrint q)%Z.
Proof.
  intro H. assert (Hf : (0 <= Qfloor q)%Z).
  { change 0%Z with (Qfloor 0). apply Qfloor_resp_le. exact H. }
  unfold Qrint. cbv zeta.
  destruct (Qcompare (q - inject_Z (Qfloor q)) (1 # 2)); [destruct (Z.even (Qfloor q))| |]; lia.
Qed.

(** the emitted volume is within half a hundredth of the requested one *)
Lemma rc_round2c_bound v : Qabs (inject_Z (round2c v) / 100 - v) <= 1 # 200.
Proof.
  unfold round2c. pose proof (rc_Qrint_bound (v * 100)) as H.
  apply Qabs_Qle_condition in H. destruct H as [H1 H2].
  apply Qabs_Qle_condition. split.
  - apply Qle_minus_iff. apply Qle_minus_iff in H1.
    setoid_replace (inject_Z (Qrint (v * 100)) / 100 - v + - - (1 # 200))
      with ((inject_Z (Qrint (v * 100)) - v * 100 + - - (1 # 2)) * (1 # 100)) by field.
    apply Qmult_le_0_compat; [exact H1|discriminate].
  - apply Qle_minus_iff. apply Qle_minus_iff in H2.
    setoid_replace ((1 # 200) + - (inject_Z (Qrint (v * 100)) / 100 - v))
      with (((1 # 2) + - (inject_Z (Qrint (v * 100)) - v * 100)) * (1 # 100)) by field.
    apply Qmult_le_0_compat; [exact H2|discriminate].
Qed.

(** a volume that already has at most two decimals is emitted exactly *)
Lemma rc_round2c_exact v z : v * 100 == inject_Z z -> round2c v = z.
Proof. intro H. unfold round2c. apply rc_Qrint_int. exact H. Qed.

Lemma rc_round2c_nonneg v : 0 <= v -> (0 <= round2c v)%Z.
Proof. intro H. unfold round2c. apply rc_Qrint_nonneg. nra. Qed.

Local Close Scope Q_scope.

(* ------------------------------------------------------------------------------------------ *)
(** * Dispatch of the parser on the first field *)

Definition rc_semi : ascii := ";"%char.
Definition rc_nosep (s : string) : Prop := contains_char ";"%char s = false.

Lemma rc_parse_A line rest : split_on ";"%char line = "A" :: rest ->
  parse_record line = match parse_ad rest with Some f => Some (PA f) | None => None end.
Proof. intro H. unfold parse_record. rewrite H. reflexivity. Qed.

Lemma rc_parse_D line rest : split_on ";"%char line = "D" :: rest ->
  parse_record line = match parse_ad rest with Some f => Some (PD f) | None => None end.
Proof. intro H. unfold parse_record. rewrite H. reflexivity. Qed.

Lemma rc_parse_R line rest : split_on ";"%char line = "R" :: rest ->
  parse_record line = match parse_r rest with Some f => Some (PR f) | None => None end.
Proof. intro H. unfold parse_record. rewrite H. reflexivity. Qed.

Lemma rc_parse_C line t : split_on ";"%char line = ["C"; t] -> parse_record line = Some (PC t).
Proof. intro H. unfold parse_record. rewrite H. reflexivity. Qed.

Lemma rc_parse_S line i : split_on ";"%char line = ["S"; i] ->
  parse_record line = match parse_decN i with Some n => Some (PS n) | None => None end.
Proof. intro H. unfold parse_record. rewrite H. reflexivity. Qed.

(* ------------------------------------------------------------------------------------------ *)
(** * Simple records *)

Lemma rc_simple_texts :
  map render [RW None; RW (Some 1%nat); RW (Some 2%nat); RW (Some 3%nat); RW (Some 4%nat); RWD; RF; RB]
  = ["W;"; "W1;"; "W2;"; "W3;"; "W4;"; "WD;"; "F;"; "B;"].
Proof. vm_compute. reflexivity. Qed.

Lemma rc_roundtrip_Wn n : (1 <= n <= 4)%nat ->
  parse_record (render (RW (Some n))) = Some (PW (Some (N.of_nat n))).
Proof. intro H. destruct n as [|[|[|[|[|n]]]]]; try lia; vm_compute; reflexivity. Qed.

Lemma rc_roundtrip_C t : rc_nosep t -> parse_record (render (RC t)) = Some (PC t).
Proof.
  intro H. apply rc_parse_C. cbn [render].
  change ("C;" ++ t) with (join ";" ["C"; t]).
  apply rc_split_join; [reflexivity|]. constructor; [exact H|constructor].
Qed.

Lemma rc_roundtrip_S i : (0 <= i)%Z -> parse_record (render (RS i)) = Some (PS (Z.to_N i)).
Proof.
  intro H. rewrite (rc_parse_S _ (decZ i)).
  - rewrite rc_parse_decZ by exact H. reflexivity.
  - cbn [render]. change ("S;" ++ decZ i) with (join ";" ["S"; decZ i]).
    apply rc_split_join; [reflexivity|]. constructor; [|constructor].
    apply rc_decZ_no; [reflexivity|exact H].
Qed.

Lemma rc_roundtrip_simple :
  parse_record (render (RW None)) = Some (PW None) /\
  (forall n, (1 <= n <= 4)%nat -> parse_record (render (RW (Some n))) = Some (PW (Some (N.of_nat n)))) /\
  parse_record (render RWD) = Some PWD /\
  parse_record (render RF) = Some PF /\
  parse_record (render RB) = Some PB /\
  (forall t, contains_char ";"%char t = false -> parse_record (render (RC t)) = Some (PC t)) /\
  (forall i, (0 <= i)%Z -> parse_record (render (RS i)) = Some (PS (Z.to_N i))).
Proof.
  split; [reflexivity|]. split; [exact rc_roundtrip_Wn|].
  split; [reflexivity|]. split; [reflexivity|]. split; [reflexivity|].
  split; [exact rc_roundtrip_C|exact rc_roundtrip_S].
Qed.

(** the keyword records and the comment have exactly two fields, the second one empty for keywords *)
Lemma rc_fields_simple :
  (forall r, In r [RW None; RW (Some 1%nat); RW (Some 2%nat); RW (Some 3%nat); RW (Some 4%nat); RWD; RF; RB] ->
     exists k, split_on ";"%char (render r) = [k; ""]) /\
  (forall t, contains_char ";"%char t = false -> split_on ";"%char (render (RC t)) = ["C"; t]) /\
  (forall i, (0 <= i)%Z -> split_on ";"%char (render (RS i)) = ["S"; decN (Z.to_N i)]).
Proof.
  split; [|split].
  - intros r H. cbn [In] in H.
    repeat (destruct H as [H|H]; [subst r; eexists; vm_compute; reflexivity|]). destruct H.
  - intros t H. cbn [render]. change ("C;" ++ t) with (join ";" ["C"; t]).
    apply rc_split_join; [reflexivity|]. constructor; [exact H|constructor].
  - intros i H. cbn [render]. rewrite rc_decZ_nonneg by exact H.
    change ("S;" ++ decN (Z.to_N i)) with (join ";" ["S"; decN (Z.to_N i)]).
    apply rc_split_join; [reflexivity|]. constructor; [|constructor].
    apply rc_decN_no. reflexivity.
Qed.

(* ------------------------------------------------------------------------------------------ *)
(** * Aspirate / dispense records *)

Definition rc_ad_nosep (f : adfields) : Prop :=
  rc_nosep (ad_rack_label f) /\ rc_nosep (ad_rack_id f) /\ rc_nosep (ad_rack_type f) /\
  rc_nosep (ad_tube_id f) /\ rc_nosep (ad_liquid_class f) /\ rc_nosep (ad_forced_rack_type f).

Definition rc_pad_of (f : adfields) : pad :=
  {| pa_rack_label := ad_rack_label f; pa_rack_id := ad_rack_id f; pa_rack_type := ad_rack_type f;
     pa_position := Z.to_N (ad_position f); pa_tube_id := ad_tube_id f;
     pa_volume_c := Z.to_N (round2c (ad_volume f)); pa_liquid_class := ad_liquid_class f;
     pa_tip := ad_tip f; pa_forced_rack_type := ad_forced_rack_type f |}.

(** a character that is not a digit, the point or (for the statement about [c]) one of the text fields *)
Lemma rc_ad_fields_no c kind f :
  is_digit c = false -> c <> "."%char -> (0 <= ad_position f)%Z ->
  contains_char c kind = false ->
  contains_char c (ad_rack_label f) = false -> contains_char c (ad_rack_id f) = false ->
  contains_char c (ad_rack_type f) = false -> contains_char c (ad_tube_id f) = false ->
  contains_char c (ad_liquid_class f) = false -> contains_char c (ad_forced_rack_type f) = false ->
  Forall (fun y => contains_char c y = false)
    [kind; ad_rack_label f; ad_rack_id f; ad_rack_type f; decZ (ad_position f); ad_tube_id f;
     fmt2 (ad_volume f); ad_liquid_class f; ""; render_tip (ad_tip f); ad_forced_rack_type f].
Proof.
  intros Hd Hp Hpos Hk H1 H2 H3 H4 H5 H6.
  repeat apply Forall_cons; try apply Forall_nil; try assumption.
  - apply rc_decZ_no; assumption.
  - unfold fmt2. apply rc_fixed_dec_no; assumption.
  - reflexivity.
  - apply rc_render_tip_no. exact Hd.
Qed.

Lemma rc_split_ad kind f : rc_nosep kind -> rc_ad_nosep f -> (0 <= ad_position f)%Z ->
  split_on ";"%char (render_ad kind f) =
    [kind; ad_rack_label f; ad_rack_id f; ad_rack_type f; decZ (ad_position f); ad_tube_id f;
     fmt2 (ad_volume f); ad_liquid_class f; ""; render_tip (ad_tip f); ad_forced_rack_type f].
Proof.
  intros Hk [H1 [H2 [H3 [H4 [H5 H6]]]]] Hpos. unfold render_ad.
  assert (HF := rc_ad_fields_no ";"%char kind f eq_refl ltac:(discriminate) Hpos Hk H1 H2 H3 H4 H5 H6).
  inversion HF as [|x l Hx Hl]. subst x l.
  apply rc_split_join; assumption.
Qed.

Lemma rc_parse_ad_fields f : (0 <= ad_position f)%Z ->
  parse_ad [ad_rack_label f; ad_rack_id f; ad_rack_type f; decZ (ad_position f); ad_tube_id f;
            fmt2 (ad_volume f); ad_liquid_class f; ""; render_tip (ad_tip f); ad_forced_rack_type f]
  = Some (rc_pad_of f).
Proof.
  intro Hpos. unfold parse_ad. rewrite rc_parse_decZ by exact Hpos.
  unfold fmt2. rewrite rc_parse_cents_fixed, rc_parse_mask_tip. reflexivity.
Qed.

Lemma rc_roundtrip_A f : rc_ad_nosep f -> (0 <= ad_position f)%Z ->
  parse_record (render (RA f)) = Some (PA (rc_pad_of f)).
Proof.
  intros Hs Hpos. cbn [render].
  rewrite (rc_parse_A _ _ (rc_split_ad "A" f eq_refl Hs Hpos)).
  rewrite rc_parse_ad_fields by exact Hpos. reflexivity.
Qed.

Lemma rc_roundtrip_D f : rc_ad_nosep f -> (0 <= ad_position f)%Z ->
  parse_record (render (RD f)) = Some (PD (rc_pad_of f)).
Proof.
  intros Hs Hpos. cbn [render].
  rewrite (rc_parse_D _ _ (rc_split_ad "D" f eq_refl Hs Hpos)).
  rewrite rc_parse_ad_fields by exact Hpos. reflexivity.
Qed.

Lemma rc_roundtrip_AD f :
  contains_char ";"%char (ad_rack_label f) = false /\ contains_char ";"%char (ad_rack_id f) = false /\
  contains_char ";"%char (ad_rack_type f) = false /\ contains_char ";"%char (ad_tube_id f) = false /\
  contains_char ";"%char (ad_liquid_class f) = false /\
  contains_char ";"%char (ad_forced_rack_type f) = false ->
  (0 <= ad_position f)%Z -> (0 <= ad_volume f)%Q ->
  exists p,
    parse_record (render (RA f)) = Some (PA p) /\ parse_record (render (RD f)) = Some (PD p) /\
    pa_rack_label p = ad_rack_label f /\ pa_rack_id p = ad_rack_id f /\ pa_rack_type p = ad_rack_type f /\
    Z.of_N (pa_position p) = ad_position f /\ pa_tube_id p = ad_tube_id f /\
    Z.of_N (pa_volume_c p) = round2c (ad_volume f) /\
    pa_liquid_class p = ad_liquid_class f /\ pa_tip p = ad_tip f /\
    pa_forced_rack_type p = ad_forced_rack_type f.
Proof.
  intros Hs Hpos Hvol. exists (rc_pad_of f).
  split; [apply rc_roundtrip_A; assumption|]. split; [apply rc_roundtrip_D; assumption|].
  pose proof (rc_round2c_nonneg _ Hvol) as Hr.
  unfold rc_pad_of. cbn [pa_rack_label pa_rack_id pa_rack_type pa_position pa_tube_id pa_volume_c
    pa_liquid_class pa_tip pa_forced_rack_type].
  repeat split; try reflexivity; apply Z2N.id; assumption.
Qed.

(** eleven fields, and no line break unless a text field has one *)
Lemma rc_fields_AD f :
  contains_char ";"%char (ad_rack_label f) = false /\ contains_char ";"%char (ad_rack_id f) = false /\
  contains_char ";"%char (ad_rack_type f) = false /\ contains_char ";"%char (ad_tube_id f) = false /\
  contains_char ";"%char (ad_liquid_class f) = false /\
  contains_char ";"%char (ad_forced_rack_type f) = false ->
  (0 <= ad_position f)%Z ->
  n_fields (render (RA f)) = 11%nat /\ n_fields (render (RD f)) = 11%nat /\
  forall c, is_digit c = false -> c <> "."%char -> c <> ";"%char -> c <> "A"%char -> c <> "D"%char ->
    contains_char c (ad_rack_label f) = false -> contains_char c (ad_rack_id f) = false ->
    contains_char c (ad_rack_type f) = false -> contains_char c (ad_tube_id f) = false ->
    contains_char c (ad_liquid_class f) = false -> contains_char c (ad_forced_rack_type f) = false ->
    contains_char c (render (RA f)) = false /\ contains_char c (render (RD f)) = false.
Proof.
  intros Hs Hpos. unfold n_fields. cbn [render].
  rewrite (rc_split_ad "A" f eq_refl Hs Hpos), (rc_split_ad "D" f eq_refl Hs Hpos).
  split; [reflexivity|]. split; [reflexivity|].
  intros c Hd Hp Hsc HA HD H1 H2 H3 H4 H5 H6.
  assert (Hsep : contains_char c ";" = false).
  { cbn [contains_char]. destruct (Ascii.eqb ";" c) eqn:E; [|reflexivity].
    apply Ascii.eqb_eq in E. congruence. }
  split; unfold render_ad; apply rc_contains_join; try exact Hsep;
    apply rc_ad_fields_no; try assumption.
  - cbn [contains_char]. destruct (Ascii.eqb "A" c) eqn:E; [|reflexivity].
    apply Ascii.eqb_eq in E. congruence.
  - cbn [contains_char]. destruct (Ascii.eqb "D" c) eqn:E; [|reflexivity].
    apply Ascii.eqb_eq in E. congruence.
Qed.

(* ------------------------------------------------------------------------------------------ *)
(** * Argument validation of aspirate_well / dispense_well *)

Lemma rc_Qltb_false a b : Qltb a b = false -> (b <= a)%Q.
Proof. unfold Qltb. intro H. apply negb_false_iff in H. apply Qle_bool_iff. exact H. Qed.
Lemma rc_Qltb_true a b : Qltb a b = true -> (a < b)%Q.
Proof.
  unfold Qltb. intro H. apply negb_true_iff in H. apply Qnot_le_lt. intro C.
  apply Qle_bool_iff in C. congruence.
Qed.
Lemma rc_Qgtb_false a b : Qgtb a b = false -> (a <= b)%Q.
Proof. unfold Qgtb. intro H. apply negb_false_iff in H. apply Qle_bool_iff. exact H. Qed.
Lemma rc_Qgtb_true a b : Qgtb a b = true -> (b < a)%Q.
Proof.
  unfold Qgtb. intro H. apply negb_true_iff in H. apply Qnot_le_lt. intro C.
  apply Qle_bool_iff in C. congruence.
Qed.
Lemma rc_Qltb_iff a b : Qltb a b = true <-> (a < b)%Q.
Proof.
  split; [apply rc_Qltb_true|]. intro H. destruct (Qltb a b) eqn:E; [reflexivity|].
  apply rc_Qltb_false in E. lra.
Qed.
Lemma rc_Qgtb_iff a b : Qgtb a b = true <-> (b < a)%Q.
Proof.
  split; [apply rc_Qgtb_true|]. intro H. destruct (Qgtb a b) eqn:E; [reflexivity|].
  apply rc_Qgtb_false in E. lra.
Qed.

(** what makes a text argument unusable *)
Definition rc_text_bad (limit : bool) (t : ptext) : Prop :=
  match t with
  | PNotStr => True
  | PStr s => contains_char ";"%char s = true \/ (limit = true /\ (32 < String.length s)%nat)
  end.

Lemma rc_text_ok_inv limit t s : text_ok limit t = Some s ->
  t = PStr s /\ contains_char ";"%char s = false /\ (limit = true -> (String.length s <= 32)%nat).
Proof.
  destruct t as [s'|]; [|discriminate]. unfold text_ok, semi.
  destruct (contains_char ";" s') eqn:E1; [discriminate|].
  destruct (limit && (32 <? String.length s')%nat) eqn:E2; [discriminate|].
  intro H. injection H as H. subst s'. split; [reflexivity|]. split; [exact E1|].
  intro Hl. subst limit. cbn [andb] in E2. apply Nat.ltb_ge in E2. exact E2.
Qed.

Lemma rc_text_ok_some limit s :
  contains_char ";"%char s = false -> (limit = true -> (String.length s <= 32)%nat) ->
  text_ok limit (PStr s) = Some s.
Proof.
  intros H1 H2. unfold text_ok, semi. rewrite H1.
  destruct limit; [|reflexivity]. cbn [andb].
  assert (E : (32 <? String.length s)%nat = false) by (apply Nat.ltb_ge; apply H2; reflexivity).
  rewrite E. reflexivity.
Qed.

Lemma rc_text_ok_none limit t : text_ok limit t = None <-> rc_text_bad limit t.
Proof.
  destruct t as [s|]; [|split; [intros _; exact I|reflexivity]].
  unfold text_ok, rc_text_bad, semi.
  destruct (contains_char ";" s) eqn:E1.
  - split; [intros _; left; reflexivity|reflexivity].
  - destruct limit; cbn [andb].
    + destruct (32 <? String.length s)%nat eqn:E2.
      * apply Nat.ltb_lt in E2. split; [intros _; right; split; [reflexivity|exact E2]|reflexivity].
      * apply Nat.ltb_ge in E2. split; [discriminate|]. intros [H|[_ H]]; [discriminate|lia].
    + split; [discriminate|]. intros [H|[H _]]; discriminate.
Qed.

Lemma rc_check_position_inv p z : check_position p = Ok z -> p = PInt z /\ (0 <= z)%Z.
Proof.
  destruct p as [z'|]; [|discriminate]. unfold check_position.
  destruct (z' <? 0)%Z eqn:E; [discriminate|]. intro H. injection H as H. subst z'.
  apply Z.ltb_ge in E. split; [reflexivity|exact E].
Qed.

Lemma rc_check_position_ok z : (0 <= z)%Z -> check_position (PInt z) = Ok z.
Proof. intro H. unfold check_position. apply Z.ltb_ge in H. rewrite H. reflexivity. Qed.

Lemma rc_check_position_err p e : check_position p = Err e ->
  e = EReject /\ match p with PInt z => (z < 0)%Z | PNotInt => True end.
Proof.
  destruct p as [z|]; unfold check_position.
  - destruct (z <? 0)%Z eqn:E; [|discriminate]. apply Z.ltb_lt in E.
    intro H. injection H as H. split; [symmetry; exact H|exact E].
  - intro H. injection H as H. split; [symmetry; exact H|exact I].
Qed.

Definition rc_max_ok (max_volume : option Q) (q : Q) : Prop :=
  match max_volume with Some m => (q <= m)%Q | None => True end.

Lemma rc_check_volume_inv v max q : check_volume v max = Ok q ->
  v = PV (XQ q) /\ (0 <= q)%Q /\ (q <= 7158278)%Q /\ rc_max_ok max q.
Proof.
  destruct v as [[q'| | |]|]; try discriminate. unfold check_volume, max_tecan_volume.
  destruct (Qltb q' 0) eqn:E1; [discriminate|]. apply rc_Qltb_false in E1.
  destruct (Qgtb q' 7158278) eqn:E2; [discriminate|]. apply rc_Qgtb_false in E2.
  destruct max as [m|]; unfold rc_max_ok.
  - destruct (Qgtb q' m) eqn:E3; [discriminate|]. apply rc_Qgtb_false in E3.
    intro H. injection H as H. subst q'. repeat split; assumption.
  - intro H. injection H as H. subst q'. repeat split; assumption.
Qed.

Lemma rc_check_volume_ok max q : (0 <= q)%Q -> (q <= 7158278)%Q -> rc_max_ok max q ->
  check_volume (PV (XQ q)) max = Ok q.
Proof.
  intros H1 H2 H3. unfold check_volume, max_tecan_volume.
  assert (E1 : Qltb q 0 = false).
  { destruct (Qltb q 0) eqn:E; [|reflexivity]. apply rc_Qltb_true in E. lra. }
  assert (E2 : Qgtb q 7158278 = false).
  { destruct (Qgtb q 7158278) eqn:E; [|reflexivity]. apply rc_Qgtb_true in E. lra. }
  rewrite E1, E2. destruct max as [m|]; [|reflexivity]. unfold rc_max_ok in H3.
  assert (E3 : Qgtb q m = false).
  { destruct (Qgtb q m) eqn:E; [|reflexivity]. apply rc_Qgtb_true in E. lra. }
  rewrite E3. reflexivity.
Qed.

(** a volume that is negative, NaN, infinite, not a number or too large for the record format *)
Definition rc_vol_bad (v : pvol) : Prop :=
  match v with PV (XQ q) => (q < 0)%Q \/ (7158278 < q)%Q | _ => True end.

Lemma rc_check_volume_err v max e : check_volume v max = Err e ->
  (e = EReject /\ rc_vol_bad v) \/
  (e = EInvalidOp /\ exists q m, v = PV (XQ q) /\ max = Some m /\ (0 <= q)%Q /\ (q <= 7158278)%Q /\ (m < q)%Q).
Proof.
  destruct v as [[q| | |]|]; unfold check_volume, max_tecan_volume, rc_vol_bad;
    try (intro H; injection H as H; left; split; [symmetry; exact H|exact I]).
  destruct (Qltb q 0) eqn:E1.
  { apply rc_Qltb_true in E1. intro H. injection H as H. left. split; [symmetry; exact H|left; exact E1]. }
  apply rc_Qltb_false in E1.
  destruct (Qgtb q 7158278) eqn:E2.
  { apply rc_Qgtb_true in E2. intro H. injection H as H. left. split; [symmetry; exact H|right; exact E2]. }
  apply rc_Qgtb_false in E2.
  destruct max as [m|]; [|discriminate].
  destruct (Qgtb q m) eqn:E3; [|discriminate]. apply rc_Qgtb_true in E3.
  intro H. injection H as H. right. split; [symmetry; exact H|].
  exists q, m. repeat split; assumption.
Qed.

Lemma rc_check_volume_bad v max : rc_vol_bad v -> check_volume v max = Err EReject.
Proof.
  intro H. destruct (check_volume v max) as [q|e] eqn:E.
  - apply rc_check_volume_inv in E. destruct E as [Ev [H0 [H1 _]]]. subst v.
    unfold rc_vol_bad in H. destruct H as [H|H]; lra.
  - apply rc_check_volume_err in E. destruct E as [[Ee _]|[_ [q [m [Ev [_ [H0 [H1 _]]]]]]]].
    + subst e. reflexivity.
    + subst v. unfold rc_vol_bad in H. destruct H as [H|H]; lra.
Qed.

Lemma rc_tip_mask_err t e : tip_mask t = Err e -> e = EReject.
Proof.
  unfold tip_mask. destruct t as [[z|n| |]|l].
  - destruct (int_to_tip z); [discriminate|]. intro H. injection H as H. symmetry. exact H.
  - destruct (elem_bit (TTip n)); [discriminate|]. intro H. injection H as H. symmetry. exact H.
  - discriminate.
  - intro H. injection H as H. symmetry. exact H.
  - destruct (elems_bits l); [discriminate|]. intro H. injection H as H. symmetry. exact H.
Qed.

(** the record fields produced by an accepted call *)
Definition rc_ad_valid (f : adfields) (max_volume : option Q) : Prop :=
  (contains_char ";"%char (ad_rack_label f) = false /\ contains_char ";"%char (ad_rack_id f) = false /\
   contains_char ";"%char (ad_rack_type f) = false /\ contains_char ";"%char (ad_tube_id f) = false /\
   contains_char ";"%char (ad_liquid_class f) = false /\
   contains_char ";"%char (ad_forced_rack_type f) = false) /\
  ((String.length (ad_rack_label f) <= 32)%nat /\ (String.length (ad_rack_id f) <= 32)%nat /\
   (String.length (ad_rack_type f) <= 32)%nat /\ (String.length (ad_forced_rack_type f) <= 32)%nat) /\
  (0 <= ad_position f)%Z /\
  (0 <= ad_volume f)%Q /\ (ad_volume f <= 7158278)%Q /\
  match max_volume with Some m => (ad_volume f <= m)%Q | None => True end.

Definition rc_ad_args (a : adargs) (f : adfields) : Prop :=
  x_rack_label a = PStr (ad_rack_label f) /\ x_rack_id a = PStr (ad_rack_id f) /\
  x_rack_type a = PStr (ad_rack_type f) /\ x_tube_id a = PStr (ad_tube_id f) /\
  x_liquid_class a = PStr (ad_liquid_class f) /\ x_forced a = PStr (ad_forced_rack_type f) /\
  x_position a = PInt (ad_position f) /\ x_volume a = PV (XQ (ad_volume f)) /\
  tip_mask (x_tip a) = Ok (ad_tip f).

Lemma rc_prepare_ok a max f : prepare_ad a max = Ok f -> rc_ad_args a f /\ rc_ad_valid f max.
Proof.
  unfold prepare_ad.
  destruct (text_ok true (x_rack_label a)) as [label|] eqn:E1; [|discriminate].
  destruct (check_position (x_position a)) as [pos|e] eqn:E2; [|discriminate].
  destruct (check_volume (x_volume a) max) as [v|e] eqn:E3; [|discriminate].
  destruct (text_ok false (x_liquid_class a)) as [lc|] eqn:E4; [|discriminate].
  destruct (tip_mask (x_tip a)) as [mask|e] eqn:E5; [|discriminate].
  destruct (text_ok true (x_rack_id a)) as [rid|] eqn:E6; [|discriminate].
  destruct (text_ok false (x_tube_id a)) as [tid|] eqn:E7; [|discriminate].
  destruct (text_ok true (x_rack_type a)) as [rty|] eqn:E8; [|discriminate].
  destruct (text_ok true (x_forced a)) as [frt|] eqn:E9; [|discriminate].
  intro H. injection H as H. subst f.
  apply rc_text_ok_inv in E1, E4, E6, E7, E8, E9.
  destruct E1 as [A1 [B1 C1]]. destruct E4 as [A4 [B4 _]]. destruct E6 as [A6 [B6 C6]].
  destruct E7 as [A7 [B7 _]]. destruct E8 as [A8 [B8 C8]]. destruct E9 as [A9 [B9 C9]].
  apply rc_check_position_inv in E2. destruct E2 as [A2 B2].
  apply rc_check_volume_inv in E3. destruct E3 as [A3 [B3 [C3 D3]]].
  unfold rc_ad_args, rc_ad_valid.
  cbn [ad_rack_label ad_rack_id ad_rack_type ad_position ad_tube_id ad_volume ad_liquid_class ad_tip
       ad_forced_rack_type].
  split.
  - repeat split; assumption.
  - split; [repeat split; assumption|]. split; [repeat split; auto|].
    split; [exact B2|]. split; [exact B3|]. split; [exact C3|exact D3].
Qed.

(** conversely, representable arguments are accepted and give exactly this record *)
Lemma rc_prepare_complete a max f : rc_ad_args a f -> rc_ad_valid f max -> prepare_ad a max = Ok f.
Proof.
  intros [A1 [A2 [A3 [A4 [A5 [A6 [A7 [A8 A9]]]]]]]] [[S1 [S2 [S3 [S4 [S5 S6]]]]] [[L1 [L2 [L3 L4]]] [P [V0 [V1 VM]]]]].
  unfold prepare_ad. rewrite A1, A2, A3, A4, A5, A6, A7, A8, A9.
  rewrite (rc_text_ok_some true _ S1 (fun _ => L1)).
  rewrite (rc_check_position_ok _ P).
  rewrite (rc_check_volume_ok max _ V0 V1 VM).
  rewrite (rc_text_ok_some false _ S5) by discriminate.
  rewrite (rc_text_ok_some true _ S2 (fun _ => L2)).
  rewrite (rc_text_ok_some false _ S4) by discriminate.
  rewrite (rc_text_ok_some true _ S3 (fun _ => L3)).
  rewrite (rc_text_ok_some true _ S6 (fun _ => L4)).
  destruct f; reflexivity.
Qed.

(** the round trip applies to every accepted call *)
Lemma rc_prepare_roundtrip a max f : prepare_ad a max = Ok f ->
  parse_record (render (RA f)) = Some (PA (rc_pad_of f)) /\
  parse_record (render (RD f)) = Some (PD (rc_pad_of f)).
Proof.
  intro H. apply rc_prepare_ok in H. destruct H as [_ [Hs [_ [Hp _]]]].
  split; [apply rc_roundtrip_A|apply rc_roundtrip_D]; assumption.
Qed.

(** ** Rejections *)

Lemma rc_prepare_err_class a max e : prepare_ad a max = Err e ->
  e = EReject \/
  (e = EInvalidOp /\ exists q m, x_volume a = PV (XQ q) /\ max = Some m /\
                                 (0 <= q)%Q /\ (q <= 7158278)%Q /\ (m < q)%Q).
Proof.
  unfold prepare_ad.
  destruct (text_ok true (x_rack_label a)) as [label|] eqn:E1;
    [|intro H; injection H as H; left; symmetry; exact H].
  destruct (check_position (x_position a)) as [pos|e2] eqn:E2.
  2:{ intro H. injection H as H. subst e2. apply rc_check_position_err in E2. left. apply E2. }
  destruct (check_volume (x_volume a) max) as [v|e3] eqn:E3.
  2:{ intro H. injection H as H. subst e3. apply rc_check_volume_err in E3.
      destruct E3 as [[E3 _]|[E3 Hq]]; [left; exact E3|right; split; [exact E3|exact Hq]]. }
  destruct (text_ok false (x_liquid_class a)) as [lc|] eqn:E4;
    [|intro H; injection H as H; left; symmetry; exact H].
  destruct (tip_mask (x_tip a)) as [mask|e5] eqn:E5.
  2:{ intro H. injection H as H. subst e5. left. apply (rc_tip_mask_err _ _ E5). }
  destruct (text_ok true (x_rack_id a)) as [rid|] eqn:E6;
    [|intro H; injection H as H; left; symmetry; exact H].
  destruct (text_ok false (x_tube_id a)) as [tid|] eqn:E7;
    [|intro H; injection H as H; left; symmetry; exact H].
  destruct (text_ok true (x_rack_type a)) as [rty|] eqn:E8;
    [|intro H; injection H as H; left; symmetry; exact H].
  destruct (text_ok true (x_forced a)) as [frt|] eqn:E9;
    [|intro H; injection H as H; left; symmetry; exact H].
  discriminate.
Qed.

(** generic: whatever contradicts the conclusions of [rc_prepare_ok] is rejected *)
Lemma rc_prepare_reject_if a max :
  (forall f, rc_ad_args a f -> rc_ad_valid f max -> False) -> exists e, prepare_ad a max = Err e.
Proof.
  intro H. destruct (prepare_ad a max) as [f|e] eqn:E; [|exists e; reflexivity].
  exfalso. apply rc_prepare_ok in E. destruct E as [E1 E2]. exact (H f E1 E2).
Qed.

(** a separator in one of the six text fields *)
Lemma rc_reject_separator a max s :
  contains_char ";"%char s = true ->
  x_rack_label a = PStr s \/ x_rack_id a = PStr s \/ x_rack_type a = PStr s \/
  x_tube_id a = PStr s \/ x_liquid_class a = PStr s \/ x_forced a = PStr s ->
  exists e, prepare_ad a max = Err e.
Proof.
  intros Hs H. apply rc_prepare_reject_if.
  intros f [A1 [A2 [A3 [A4 [A5 [A6 _]]]]]] [[S1 [S2 [S3 [S4 [S5 S6]]]]] _].
  destruct H as [H|[H|[H|[H|[H|H]]]]]; congruence.
Qed.

(** a text argument that is not a str *)
Lemma rc_reject_nonstr a max :
  x_rack_label a = PNotStr \/ x_rack_id a = PNotStr \/ x_rack_type a = PNotStr \/
  x_tube_id a = PNotStr \/ x_liquid_class a = PNotStr \/ x_forced a = PNotStr ->
  exists e, prepare_ad a max = Err e.
Proof.
  intro H. apply rc_prepare_reject_if.
  intros f [A1 [A2 [A3 [A4 [A5 [A6 _]]]]]] _.
  destruct H as [H|[H|[H|[H|[H|H]]]]]; congruence.
Qed.

(** rack label, rack ID, rack type or forced rack type longer than 32 characters *)
Lemma rc_reject_long a max s :
  (32 < String.length s)%nat ->
  x_rack_label a = PStr s \/ x_rack_id a = PStr s \/ x_rack_type a = PStr s \/ x_forced a = PStr s ->
  exists e, prepare_ad a max = Err e.
Proof.
  intros Hs H. apply rc_prepare_reject_if.
  intros f [A1 [A2 [A3 [_ [_ [A6 _]]]]]] [_ [[L1 [L2 [L3 L4]]] _]].
  destruct H as [H|[H|[H|H]]].
  - rewrite H in A1. injection A1 as A1. subst s. lia.
  - rewrite H in A2. injection A2 as A2. subst s. lia.
  - rewrite H in A3. injection A3 as A3. subst s. lia.
  - rewrite H in A6. injection A6 as A6. subst s. lia.
Qed.

(** the rack label is checked first: its rejection is always a ValueError *)
Lemma rc_reject_label a max : rc_text_bad true (x_rack_label a) -> prepare_ad a max = Err EReject.
Proof.
  intro H. apply rc_text_ok_none in H. unfold prepare_ad. rewrite H. reflexivity.
Qed.

(** negative or non-int position: ValueError *)
Lemma rc_reject_position a max :
  (match x_position a with PInt z => (z < 0)%Z | PNotInt => True end) ->
  prepare_ad a max = Err EReject.
Proof.
  intro H. destruct (prepare_ad a max) as [f|e] eqn:E.
  - apply rc_prepare_ok in E. destruct E as [[_ [_ [_ [_ [_ [_ [A7 _]]]]]]] [_ [_ [P _]]]].
    rewrite A7 in H. lia.
  - pose proof E as E'. apply rc_prepare_err_class in E'. destruct E' as [E'|[E' _]]; [subst e; reflexivity|].
    subst e. exfalso. unfold prepare_ad in E.
    destruct (text_ok true (x_rack_label a)); [|discriminate].
    destruct (check_position (x_position a)) as [pos|e2] eqn:E2.
    + apply rc_check_position_inv in E2. destruct E2 as [E2 P]. rewrite E2 in H. lia.
    + apply rc_check_position_err in E2. destruct E2 as [E2 _]. congruence.
Qed.

(** negative, NaN, infinite, non-numeric or oversized volume: ValueError *)
Lemma rc_reject_volume a max : rc_vol_bad (x_volume a) -> prepare_ad a max = Err EReject.
Proof.
  intro H. destruct (prepare_ad a max) as [f|e] eqn:E.
  - apply rc_prepare_ok in E. destruct E as [[_ [_ [_ [_ [_ [_ [_ [A8 _]]]]]]]] [_ [_ [_ [V0 [V1 _]]]]]].
    rewrite A8 in H. unfold rc_vol_bad in H. destruct H as [H|H]; lra.
  - apply rc_prepare_err_class in E. destruct E as [E|[_ [q [m [Ev [_ [H0 [H1 _]]]]]]]]; [subst e; reflexivity|].
    rewrite Ev in H. unfold rc_vol_bad in H. destruct H as [H|H]; lra.
Qed.

(** a volume above the worklist's max_volume: InvalidOperationError, provided the arguments checked
    before the volume (rack label, position) and the volume itself are fine *)
Lemma rc_reject_over_max a m : 
  prepare_ad a (Some m) = Err EInvalidOp <->
  (exists s, text_ok true (x_rack_label a) = Some s) /\ (exists z, x_position a = PInt z /\ (0 <= z)%Z) /\
  exists q, x_volume a = PV (XQ q) /\ (0 <= q)%Q /\ (q <= 7158278)%Q /\ (m < q)%Q.
Proof.
  split.
  - intro E. unfold prepare_ad in E.
    destruct (text_ok true (x_rack_label a)) as [label|] eqn:E1; [|discriminate].
    destruct (check_position (x_position a)) as [pos|e2] eqn:E2.
    2:{ apply rc_check_position_err in E2. destruct E2 as [E2 _]. congruence. }
    destruct (check_volume (x_volume a) (Some m)) as [v|e3] eqn:E3.
    2:{ injection E as E. subst e3. apply rc_check_volume_err in E3.
        destruct E3 as [[E3 _]|[_ [q [m' [Ev [Em [H0 [H1 H2]]]]]]]]; [discriminate|].
        injection Em as Em. subst m'.
        apply rc_check_position_inv in E2.
        split; [exists label; reflexivity|]. split; [exists pos; exact E2|].
        exists q. repeat split; assumption. }
    destruct (text_ok false (x_liquid_class a)); [|discriminate].
    destruct (tip_mask (x_tip a)) as [mask|e5] eqn:E5.
    2:{ apply rc_tip_mask_err in E5. congruence. }
    destruct (text_ok true (x_rack_id a)); [|discriminate].
    destruct (text_ok false (x_tube_id a)); [|discriminate].
    destruct (text_ok true (x_rack_type a)); [|discriminate].
    destruct (text_ok true (x_forced a)); discriminate.
  - intros [[s Hs] [[z [Hz Hz0]] [q [Hq [H0 [H1 H2]]]]]].
    unfold prepare_ad. rewrite Hs, Hz, Hq. rewrite (rc_check_position_ok _ Hz0).
    unfold check_volume, max_tecan_volume.
    assert (E1 : Qltb q 0 = false).
    { destruct (Qltb q 0) eqn:E; [|reflexivity]. apply rc_Qltb_true in E. lra. }
    assert (E2 : Qgtb q 7158278 = false).
    { destruct (Qgtb q 7158278) eqn:E; [|reflexivity]. apply rc_Qgtb_true in E. lra. }
    assert (E3 : Qgtb q m = true) by (apply rc_Qgtb_iff; exact H2).
    rewrite E1, E2, E3. reflexivity.
Qed.

Lemma rc_reject_over_max_any a m q : x_volume a = PV (XQ q) -> (m < q)%Q ->
  exists e, prepare_ad a (Some m) = Err e.
Proof.
  intros Hq Hm. apply rc_prepare_reject_if.
  intros f [_ [_ [_ [_ [_ [_ [_ [A8 _]]]]]]]] [_ [_ [_ [_ [_ VM]]]]].
  rewrite Hq in A8. injection A8 as A8. rewrite <- A8 in VM. lra.
Qed.

(** an invalid tip argument *)
Lemma rc_reject_tip a max e' : tip_mask (x_tip a) = Err e' -> exists e, prepare_ad a max = Err e.
Proof.
  intro H. apply rc_prepare_reject_if.
  intros f [_ [_ [_ [_ [_ [_ [_ [_ A9]]]]]]]] _. congruence.
Qed.

(** the exception is a ValueError or an InvalidOperationError *)
Lemma rc_prepare_err_two a max e : prepare_ad a max = Err e -> e = EReject \/ e = EInvalidOp.
Proof.
  intro H. apply rc_prepare_err_class in H. destruct H as [H|[H _]]; [left|right]; exact H.
Qed.

(** ** aspirate_well / dispense_well *)

Lemma rc_aspirate_well w a w' r : aspirate_well w a = (w', r) ->
  match r with
  | Some e => w' = w /\ prepare_ad a (Some (w_max w)) = Err e
  | None => exists f, prepare_ad a (Some (w_max w)) = Ok f /\ w' = emit w [RA f] /\
                      w_recs w' = (w_recs w ++ [RA f])%list
  end.
Proof.
  unfold aspirate_well. destruct (prepare_ad a (Some (w_max w))) as [f|e] eqn:E; intro H;
    injection H as H1 H2; subst w' r.
  - exists f. repeat split; reflexivity.
  - split; reflexivity.
Qed.

Lemma rc_dispense_well w a w' r : dispense_well w a = (w', r) ->
  match r with
  | Some e => w' = w /\ prepare_ad a (Some (w_max w)) = Err e
  | None => exists f, prepare_ad a (Some (w_max w)) = Ok f /\ w' = emit w [RD f] /\
                      w_recs w' = (w_recs w ++ [RD f])%list
  end.
Proof.
  unfold dispense_well. destruct (prepare_ad a (Some (w_max w))) as [f|e] eqn:E; intro H;
    injection H as H1 H2; subst w' r.
  - exists f. repeat split; reflexivity.
  - split; reflexivity.
Qed.

(* ------------------------------------------------------------------------------------------ *)
(** * The simple emitters *)

Lemma rc_emit_recs w rs :
  w_recs (emit w rs) = (w_recs w ++ rs)%list /\ w_max (emit w rs) = w_max w /\
  w_autosplit (emit w rs) = w_autosplit w /\ w_diti (emit w rs) = w_diti w /\ w_dev (emit w rs) = w_dev w.
Proof. repeat split; reflexivity. Qed.

Lemma rc_wash w s :
  (w_diti w = true -> wash w s = (emit w [RW None], None)) /\
  (w_diti w = false -> forall n, (1 <= n <= 4)%nat -> s = SInt (Z.of_nat n) ->
     wash w s = (emit w [RW (Some n)], None)) /\
  (w_diti w = false -> (forall z, s = SInt z -> (z < 1 \/ 4 < z)%Z) -> wash w s = (w, Some EReject)).
Proof.
  unfold wash. split; [|split].
  - intro H. rewrite H. reflexivity.
  - intros H n Hn Hs. rewrite H. subst s.
    assert (E : ((1 <=? Z.of_nat n) && (Z.of_nat n <=? 4))%Z = true)
      by (apply andb_true_iff; split; apply Z.leb_le; lia).
    rewrite E. rewrite Nat2Z.id. reflexivity.
  - intros H Hs. rewrite H. destruct s as [z| | | |]; try reflexivity.
    assert (E : ((1 <=? z) && (z <=? 4))%Z = false).
    { apply andb_false_iff. destruct (Hs z eq_refl) as [Hz|Hz];
        [left; apply Z.leb_gt; exact Hz|right; apply Z.leb_gt; exact Hz]. }
    rewrite E. reflexivity.
Qed.

Lemma rc_decontaminate w :
  (w_diti w = true -> decontaminate w = (w, Some EInvalidOp)) /\
  (w_diti w = false -> decontaminate w = (emit w [RWD], None)).
Proof. unfold decontaminate. split; intro H; rewrite H; reflexivity. Qed.

Lemma rc_flush_commit w : flush w = (emit w [RF], None) /\ commit w = (emit w [RB], None).
Proof. split; reflexivity. Qed.

Lemma rc_last_opt_snoc {A} (l : list A) r : last_opt (l ++ [r]) = Some r.
Proof.
  induction l as [|x l IH]; [reflexivity|].
  cbn [app last_opt]. destruct (l ++ [r])%list as [|y t] eqn:E.
  - destruct l; discriminate E.
  - exact IH.
Qed.

(** a negative DiTi index is a ValueError (checked first; /repo commit 26768d9, finding F21); otherwise the
    call is accepted only at the start of the worklist or directly after a break record *)
Lemma rc_set_diti w i :
  ((i < 0)%Z -> set_diti w i = (w, Some EReject)) /\
  ((0 <= i)%Z -> w_recs w = [] -> set_diti w i = (emit w [RS i], None)) /\
  (forall l r, (0 <= i)%Z -> w_recs w = (l ++ [r])%list -> is_break_like r = true ->
     set_diti w i = (emit w [RS i], None)) /\
  (forall l r, (0 <= i)%Z -> w_recs w = (l ++ [r])%list -> is_break_like r = false ->
     set_diti w i = (w, Some EInvalidOp)).
Proof.
  unfold set_diti. split; [|split; [|split]].
  - intro Hi. apply Z.ltb_lt in Hi. rewrite Hi. reflexivity.
  - intros Hi H. apply Z.ltb_ge in Hi. rewrite Hi, H. reflexivity.
  - intros l r Hi H Hb. apply Z.ltb_ge in Hi. rewrite Hi, H, rc_last_opt_snoc, Hb. reflexivity.
  - intros l r Hi H Hb. apply Z.ltb_ge in Hi. rewrite Hi, H, rc_last_opt_snoc, Hb. reflexivity.
Qed.

Lemma rc_last_opt_inv {A} (l : list A) r : last_opt l = Some r -> exists l0, l = (l0 ++ [r])%list.
Proof.
  induction l as [|x l IH]; [discriminate|]. cbn [last_opt]. destruct l as [|y t].
  - intro H. injection H as <-. exists []. reflexivity.
  - intro H. destruct (IH H) as [l0 E]. exists (x :: l0). rewrite E. reflexivity.
Qed.

(** every outcome of [set_diti]: a raising call appends nothing; an accepted call had a non-negative index,
    was made at the start or after a break, and appends exactly the S record *)
Lemma rc_set_diti_cases w i w' e : set_diti w i = (w', e) ->
  match e with
  | Some _ => w' = w
  | None => (0 <= i)%Z /\ w' = emit w [RS i] /\
            (w_recs w = [] \/ exists l r, w_recs w = (l ++ [r])%list /\ is_break_like r = true)
  end.
Proof.
  unfold set_diti. intro H. destruct (i <? 0)%Z eqn:Hi; [injection H as <- <-; reflexivity|].
  apply Z.ltb_ge in Hi.
  destruct (last_opt (w_recs w)) as [r|] eqn:L.
  - destruct (is_break_like r) eqn:B; injection H as <- <-; [|reflexivity].
    split; [exact Hi|]. split; [reflexivity|]. right.
    destruct (rc_last_opt_inv _ _ L) as [l0 E]. exists l0, r. split; assumption.
  - injection H as <- <-. split; [exact Hi|]. split; [reflexivity|]. left.
    destruct (w_recs w) as [|x l]; [reflexivity|]. exfalso.
    assert (Hx : exists y, last_opt (x :: l) = Some y).
    { clear L. revert x. induction l as [|z t IH]; intro x; [exists x; reflexivity|].
      destruct (IH z) as [y Hy]. exists y. exact Hy. }
    destruct Hx as [y Hy]. rewrite Hy in L. discriminate L.
Qed.

(** which records count as a break *)
Lemma rc_is_break_like r :
  is_break_like r = true <-> r = RB \/ exists s, r = RCmd (String "B" s).
Proof.
  split.
  - destruct r as [f|f|f|sc| | | |t|i|s]; try discriminate; intro H.
    + left. reflexivity.
    + right. destruct s as [|a s]; [discriminate|]. cbn [is_break_like] in H.
      apply Ascii.eqb_eq in H. subst a. exists s. reflexivity.
  - intros [H|[s H]]; subst r; reflexivity.
Qed.

(** ** comment *)

Lemma rc_split_aux_nosep c s : forall cur, contains_char c cur = false ->
  Forall (fun p => contains_char c p = false) (split_on_aux c s cur).
Proof.
  induction s as [|a r IH]; intros cur Hc; cbn [split_on_aux].
  - constructor; [exact Hc|constructor].
  - destruct (Ascii.eqb a c) eqn:E.
    + constructor; [exact Hc|]. apply IH. reflexivity.
    + apply IH. rewrite rc_contains_app. rewrite Hc. cbn [contains_char]. rewrite E. reflexivity.
Qed.

Lemma rc_split_aux_sub d c s : forall cur, contains_char d s = false -> contains_char d cur = false ->
  Forall (fun p => contains_char d p = false) (split_on_aux c s cur).
Proof.
  induction s as [|a r IH]; intros cur Hs Hc; cbn [split_on_aux].
  - constructor; [exact Hc|constructor].
  - cbn [contains_char] in Hs. apply orb_false_elim in Hs. destruct Hs as [Ha Hr].
    destruct (Ascii.eqb a c) eqn:E.
    + constructor; [exact Hc|]. apply IH; [exact Hr|reflexivity].
    + apply IH; [exact Hr|]. rewrite rc_contains_app. rewrite Hc. cbn [contains_char]. rewrite Ha. reflexivity.
Qed.

Lemma rc_contains_lstrip d s : contains_char d s = false -> contains_char d (lstrip_sp s) = false.
Proof.
  induction s as [|a r IH]; intro H; [reflexivity|]. cbn [lstrip_sp].
  destruct (py_isspace a); [|exact H].
  cbn [contains_char] in H. apply orb_false_elim in H. apply IH. apply H.
Qed.

Lemma rc_contains_rev_aux d s : forall acc,
  contains_char d (rev_string_aux s acc) = contains_char d s || contains_char d acc.
Proof.
  induction s as [|a r IH]; intro acc; cbn [rev_string_aux contains_char]; [reflexivity|].
  rewrite IH. cbn [contains_char].
  destruct (Ascii.eqb a d), (contains_char d r), (contains_char d acc); reflexivity.
Qed.

Lemma rc_contains_rev d s : contains_char d (rev_string s) = contains_char d s.
Proof. unfold rev_string. rewrite rc_contains_rev_aux. cbn [contains_char]. apply orb_false_r. Qed.

Lemma rc_contains_strip d s : contains_char d s = false -> contains_char d (strip_sp s) = false.
Proof.
  intro H. unfold strip_sp. rewrite rc_contains_rev. apply rc_contains_lstrip.
  rewrite rc_contains_rev. apply rc_contains_lstrip. exact H.
Qed.

Definition rc_lf : ascii := ascii_of_nat 10.

Lemma rc_comment_lines_spec s t : In t (comment_lines s) ->
  t <> "" /\ (exists line, In line (split_on rc_lf s) /\ t = strip_sp line) /\
  contains_char rc_lf t = false /\
  (forall d, contains_char d s = false -> contains_char d t = false).
Proof.
  unfold comment_lines. intro H. apply filter_In in H. destruct H as [H Hne].
  apply in_map_iff in H. destruct H as [line [Ht Hin]]. subst t.
  split.
  { intro C. rewrite C in Hne. discriminate Hne. }
  split; [exists line; split; [exact Hin|reflexivity]|].
  split.
  - apply rc_contains_strip.
    pose proof (rc_split_aux_nosep (ascii_of_nat 10) s "" eq_refl) as HF.
    rewrite Forall_forall in HF. apply HF. exact Hin.
  - intros d Hs. apply rc_contains_strip.
    pose proof (rc_split_aux_sub d (ascii_of_nat 10) s "" Hs eq_refl) as HF.
    rewrite Forall_forall in HF. apply HF. exact Hin.
Qed.

Lemma rc_comment w :
  comment w None = (w, None) /\ comment w (Some "") = (w, None) /\
  (forall s, contains_char ";"%char s = true -> comment w (Some s) = (w, Some EReject)) /\
  (forall s, s <> "" -> contains_char ";"%char s = false ->
     comment w (Some s) =
       (emit w (map RC (filter (fun l => negb (String.eqb l ""))
                               (map strip_sp (split_on (ascii_of_nat 10) s)))), None) /\
     forall t, In t (filter (fun l => negb (String.eqb l "")) (map strip_sp (split_on (ascii_of_nat 10) s))) ->
       t <> "" /\ contains_char ";"%char t = false /\ contains_char (ascii_of_nat 10) t = false /\
       (forall d, contains_char d s = false -> contains_char d t = false) /\
       parse_record (render (RC t)) = Some (PC t)).
Proof.
  split; [reflexivity|]. split; [reflexivity|]. split.
  - intros s Hs. unfold comment. destruct (String.eqb s "") eqn:E.
    + apply String.eqb_eq in E. subst s. discriminate Hs.
    + unfold semi. rewrite Hs. reflexivity.
  - intros s Hne Hs. split.
    + unfold comment. destruct (String.eqb s "") eqn:E.
      * apply String.eqb_eq in E. congruence.
      * unfold semi. rewrite Hs. reflexivity.
    + intros t Ht. destruct (rc_comment_lines_spec s t Ht) as [H1 [_ [H3 H4]]].
      split; [exact H1|]. split; [exact (H4 _ Hs)|]. split; [exact H3|]. split; [exact H4|].
      apply rc_roundtrip_C. exact (H4 _ Hs).
Qed.

(* ------------------------------------------------------------------------------------------ *)
(** * Reagent-distribution records *)

Lemma rc_all_digits_rev_aux s : forall acc,
  all_digits (rev_string_aux s acc) = all_digits s && all_digits acc.
Proof.
  induction s as [|a r IH]; intro acc; cbn [rev_string_aux all_digits]; [reflexivity|].
  rewrite IH. cbn [all_digits].
  destruct (is_digit a), (all_digits r), (all_digits acc); reflexivity.
Qed.

Lemma rc_all_digits_rev s : all_digits (rev_string s) = all_digits s.
Proof. unfold rev_string. rewrite rc_all_digits_rev_aux. cbn [all_digits]. apply andb_true_r. Qed.

Lemma rc_all_digits_rstrip0_rev s : all_digits s = true -> all_digits (rstrip0_rev s) = true.
Proof.
  induction s as [|a r IH]; intro H; [reflexivity|]. cbn [rstrip0_rev].
  destruct (Ascii.eqb a "0"); [|exact H]. destruct r as [|b r']; [exact H|].
  apply IH. cbn [all_digits] in H. apply andb_true_iff in H. apply H.
Qed.

Lemma rc_rstrip0_rev_nonempty s : s <> "" -> rstrip0_rev s <> "".
Proof.
  induction s as [|a r IH]; intro H; [congruence|]. cbn [rstrip0_rev].
  destruct (Ascii.eqb a "0"); [|discriminate]. destruct r as [|b r']; [discriminate|].
  apply IH. discriminate.
Qed.

Lemma rc_rev_aux_nonempty s : forall acc, (s <> "" \/ acc <> "") -> rev_string_aux s acc <> "".
Proof.
  induction s as [|a r IH]; intros acc H; cbn [rev_string_aux].
  - destruct H as [H|H]; [congruence|exact H].
  - apply IH. right. discriminate.
Qed.

Lemma rc_all_digits_rstrip0 s : all_digits s = true -> all_digits (rstrip0 s) = true.
Proof.
  intro H. unfold rstrip0. rewrite rc_all_digits_rev. apply rc_all_digits_rstrip0_rev.
  rewrite rc_all_digits_rev. exact H.
Qed.

Lemma rc_rstrip0_nonempty s : s <> "" -> rstrip0 s <> "".
Proof.
  intro H. unfold rstrip0, rev_string. apply rc_rev_aux_nonempty. left.
  apply rc_rstrip0_rev_nonempty. apply rc_rev_aux_nonempty. left. exact H.
Qed.

Lemma rc_pad_zeros_nonempty k s : s <> "" -> pad_zeros k s <> "".
Proof.
  intro H. unfold pad_zeros. generalize (k - String.length s)%nat as n.
  destruct n as [|n]; [exact H|discriminate].
Qed.

(** the fraction digits printed by [repr(float)] *)
Definition rc_repr_frac (n : N) (k : nat) : string :=
  match k with O => "0" | _ => rstrip0 (frac_digits n k) end.

Lemma rc_repr_dec_eq n k : repr_dec n k = decN (n / 10 ^ N.of_nat k)%N ++ "." ++ rc_repr_frac n k.
Proof. reflexivity. Qed.

Lemma rc_repr_frac_digits n k : all_digits (rc_repr_frac n k) = true /\ rc_repr_frac n k <> "".
Proof.
  unfold rc_repr_frac. destruct k as [|k]; [split; [reflexivity|discriminate]|]. split.
  - apply rc_all_digits_rstrip0. apply rc_all_digits_frac.
  - apply rc_rstrip0_nonempty. unfold frac_digits. apply rc_pad_zeros_nonempty. apply decN_nonempty.
Qed.

Lemma rc_repr_dec_no c n k : is_digit c = false -> c <> "."%char -> contains_char c (repr_dec n k) = false.
Proof.
  intros Hc Hp. rewrite rc_repr_dec_eq. rewrite !rc_contains_app.
  rewrite rc_decN_no by exact Hc.
  rewrite (rc_digits_no c _ Hc (proj1 (rc_repr_frac_digits n k))).
  cbn [contains_char]. destruct (Ascii.eqb "." c) eqn:E; [|reflexivity].
  apply Ascii.eqb_eq in E. congruence.
Qed.

Lemma rc_decZ_no_any c z : is_digit c = false -> c <> "-"%char -> contains_char c (decZ z) = false.
Proof.
  intros Hc Hm. destruct z as [|p|p]; [apply rc_decN_no; exact Hc|apply rc_decN_no; exact Hc|].
  cbn [decZ contains_char]. rewrite rc_decN_no by exact Hc.
  destruct (Ascii.eqb "-" c) eqn:E; [|reflexivity]. apply Ascii.eqb_eq in E. congruence.
Qed.

(** a printed number never contains a separator or a line break *)
Lemma rc_pynum_no c p : is_digit c = false -> c <> "."%char -> c <> "-"%char ->
  contains_char c (render_pynum p) = false.
Proof.
  intros Hc Hp Hm. destruct p as [z|q]; cbn [render_pynum].
  - apply rc_decZ_no_any; assumption.
  - unfold pyrepr_float. cbv zeta. apply rc_repr_dec_no; assumption.
Qed.

(** a printed float is a well-formed decimal: digits, a point, at least one digit *)
Lemma rc_parse_decimal_repr n k :
  parse_decimal (repr_dec n k) = Some ((n / 10 ^ N.of_nat k)%N, rc_repr_frac n k).
Proof.
  rewrite rc_repr_dec_eq. destruct (rc_repr_frac_digits n k) as [Hd Hne].
  unfold parse_decimal.
  change (decN (n / 10 ^ N.of_nat k) ++ "." ++ rc_repr_frac n k)
    with (join "." [decN (n / 10 ^ N.of_nat k)%N; rc_repr_frac n k]).
  rewrite rc_split_join.
  - rewrite parse_decN_decN. destruct (rc_repr_frac n k) as [|a s]; [congruence|]. rewrite Hd. reflexivity.
  - apply rc_decN_no. reflexivity.
  - constructor; [|constructor]. apply rc_digits_no; [reflexivity|exact Hd].
Qed.

Lemma rc_parse_decimal_float q : exists i fp,
  parse_decimal (render_pynum (PyF q)) = Some (i, fp) /\ all_digits fp = true /\ fp <> "".
Proof.
  cbn [render_pynum]. unfold pyrepr_float. cbv zeta. eexists. eexists.
  split; [apply rc_parse_decimal_repr|]. apply rc_repr_frac_digits.
Qed.

Lemma rc_parse_decimal_int z : (0 <= z)%Z -> parse_decimal (render_pynum (PyI z)) = Some (Z.to_N z, "").
Proof.
  intro H. cbn [render_pynum]. rewrite rc_decZ_nonneg by exact H. unfold parse_decimal.
  change (decN (Z.to_N z)) with (join "." [decN (Z.to_N z)]) at 1.
  rewrite rc_split_join; [|apply rc_decN_no; reflexivity|constructor].
  rewrite parse_decN_decN. reflexivity.
Qed.

Lemma rc_parse_decs l : Forall (fun x => (0 <= x)%Z) l -> parse_decs (map decZ l) = Some (map Z.to_N l).
Proof.
  induction l as [|x l IH]; intro H; [reflexivity|].
  inversion H as [|x0 l0 Hx Hl]. subst x0 l0. cbn [map parse_decs].
  rewrite rc_parse_decZ by exact Hx. rewrite IH by exact Hl. reflexivity.
Qed.

Lemma rc_decs_nosep c l : is_digit c = false -> Forall (fun x => (0 <= x)%Z) l ->
  Forall (fun y => contains_char c y = false) (map decZ l).
Proof.
  intros Hc H. induction H as [|x l Hx Hl IH]; [constructor|].
  cbn [map]. constructor; [apply rc_decZ_no; assumption|exact IH].
Qed.

Lemma rc_of_to_N_list l : Forall (fun x => (0 <= x)%Z) l -> map Z.of_N (map Z.to_N l) = l.
Proof.
  intro H. induction H as [|x l Hx Hl IH]; [reflexivity|].
  cbn [map]. rewrite IH. rewrite Z2N.id by exact Hx. reflexivity.
Qed.

Lemma rc_parse_dir (d : bool) : parse_dir (if d then "1" else "0") = Some d.
Proof. destruct d; reflexivity. Qed.

Definition rc_r_nosep (f : rfields) : Prop :=
  rc_nosep (r_src_label f) /\ rc_nosep (r_src_id f) /\ rc_nosep (r_src_type f) /\
  rc_nosep (r_dst_label f) /\ rc_nosep (r_dst_id f) /\ rc_nosep (r_dst_type f) /\
  rc_nosep (r_liquid_class f).

Definition rc_r_nonneg (f : rfields) : Prop :=
  (0 <= r_src_start f)%Z /\ (0 <= r_src_end f)%Z /\ (0 <= r_dst_start f)%Z /\ (0 <= r_dst_end f)%Z /\
  (0 <= r_diti_reuse f)%Z /\ (0 <= r_multi_disp f)%Z /\ Forall (fun x => (0 <= x)%Z) (r_exclude f).

Definition rc_prd_of (f : rfields) : prd :=
  {| pr_src_label := r_src_label f; pr_src_id := r_src_id f; pr_src_type := r_src_type f;
     pr_src_start := Z.to_N (r_src_start f); pr_src_end := Z.to_N (r_src_end f);
     pr_dst_label := r_dst_label f; pr_dst_id := r_dst_id f; pr_dst_type := r_dst_type f;
     pr_dst_start := Z.to_N (r_dst_start f); pr_dst_end := Z.to_N (r_dst_end f);
     pr_volume := render_pynum (r_volume f); pr_liquid_class := r_liquid_class f;
     pr_diti_reuse := Z.to_N (r_diti_reuse f); pr_multi_disp := Z.to_N (r_multi_disp f);
     pr_direction := r_direction f; pr_exclude := map Z.to_N (r_exclude f) |}.

Definition rc_r_fields (f : rfields) : list string :=
  [ r_src_label f; r_src_id f; r_src_type f; decZ (r_src_start f); decZ (r_src_end f);
    r_dst_label f; r_dst_id f; r_dst_type f; decZ (r_dst_start f); decZ (r_dst_end f);
    render_pynum (r_volume f); r_liquid_class f; decZ (r_diti_reuse f); decZ (r_multi_disp f);
    if r_direction f then "1" else "0" ] ++ map decZ (r_exclude f).

Lemma rc_render_r_eq f : render_r f = join ";" ("R" :: rc_r_fields f).
Proof. reflexivity. Qed.

Lemma rc_r_fields_no c f :
  is_digit c = false -> c <> "."%char -> c <> "-"%char -> rc_r_nonneg f ->
  contains_char c (r_src_label f) = false -> contains_char c (r_src_id f) = false ->
  contains_char c (r_src_type f) = false -> contains_char c (r_dst_label f) = false ->
  contains_char c (r_dst_id f) = false -> contains_char c (r_dst_type f) = false ->
  contains_char c (r_liquid_class f) = false ->
  Forall (fun y => contains_char c y = false) (rc_r_fields f).
Proof.
  intros Hd Hp Hm [P1 [P2 [P3 [P4 [P5 [P6 PX]]]]]] H1 H2 H3 H4 H5 H6 H7.
  unfold rc_r_fields. apply Forall_app. split.
  - repeat apply Forall_cons; try apply Forall_nil; try assumption;
      try (apply rc_decZ_no; assumption).
    + apply rc_pynum_no; assumption.
    + destruct (r_direction f); apply rc_digits_no; try exact Hd; reflexivity.
  - apply rc_decs_nosep; assumption.
Qed.

Lemma rc_split_r f : rc_r_nosep f -> rc_r_nonneg f ->
  split_on ";"%char (render_r f) = "R" :: rc_r_fields f.
Proof.
  intros [H1 [H2 [H3 [H4 [H5 [H6 H7]]]]]] Hn. rewrite rc_render_r_eq.
  apply rc_split_join; [reflexivity|].
  apply rc_r_fields_no; try assumption; try reflexivity; discriminate.
Qed.

Lemma rc_parse_r_fields f : rc_r_nonneg f -> parse_r (rc_r_fields f) = Some (rc_prd_of f).
Proof.
  intros [P1 [P2 [P3 [P4 [P5 [P6 PX]]]]]]. unfold rc_r_fields. cbn [app]. unfold parse_r.
  rewrite !rc_parse_decZ by assumption. rewrite rc_parse_dir. rewrite rc_parse_decs by exact PX.
  reflexivity.
Qed.

Lemma rc_roundtrip_R_rec f : rc_r_nosep f -> rc_r_nonneg f ->
  parse_record (render (RR f)) = Some (PR (rc_prd_of f)).
Proof.
  intros Hs Hn. cbn [render]. rewrite (rc_parse_R _ _ (rc_split_r f Hs Hn)).
  rewrite rc_parse_r_fields by exact Hn. reflexivity.
Qed.

Lemma rc_roundtrip_R f :
  contains_char ";"%char (r_src_label f) = false /\ contains_char ";"%char (r_src_id f) = false /\
  contains_char ";"%char (r_src_type f) = false /\ contains_char ";"%char (r_dst_label f) = false /\
  contains_char ";"%char (r_dst_id f) = false /\ contains_char ";"%char (r_dst_type f) = false /\
  contains_char ";"%char (r_liquid_class f) = false ->
  (0 <= r_src_start f)%Z /\ (0 <= r_src_end f)%Z /\ (0 <= r_dst_start f)%Z /\ (0 <= r_dst_end f)%Z /\
  (0 <= r_diti_reuse f)%Z /\ (0 <= r_multi_disp f)%Z /\ Forall (fun x => (0 <= x)%Z) (r_exclude f) ->
  exists p,
    parse_record (render (RR f)) = Some (PR p) /\
    pr_src_label p = r_src_label f /\ pr_src_id p = r_src_id f /\ pr_src_type p = r_src_type f /\
    Z.of_N (pr_src_start p) = r_src_start f /\ Z.of_N (pr_src_end p) = r_src_end f /\
    pr_dst_label p = r_dst_label f /\ pr_dst_id p = r_dst_id f /\ pr_dst_type p = r_dst_type f /\
    Z.of_N (pr_dst_start p) = r_dst_start f /\ Z.of_N (pr_dst_end p) = r_dst_end f /\
    pr_volume p = render_pynum (r_volume f) /\
    (forall z, r_volume f = PyI z -> (0 <= z)%Z -> parse_decimal (pr_volume p) = Some (Z.to_N z, "")) /\
    (forall q, r_volume f = PyF q ->
       exists i fp, parse_decimal (pr_volume p) = Some (i, fp) /\ all_digits fp = true /\ fp <> "") /\
    pr_liquid_class p = r_liquid_class f /\
    Z.of_N (pr_diti_reuse p) = r_diti_reuse f /\ Z.of_N (pr_multi_disp p) = r_multi_disp f /\
    pr_direction p = r_direction f /\
    map Z.of_N (pr_exclude p) = r_exclude f /\
    n_fields (render (RR f)) = (16 + List.length (r_exclude f))%nat.
Proof.
  intros Hs Hn. exists (rc_prd_of f).
  split; [apply rc_roundtrip_R_rec; assumption|].
  pose proof Hn as [P1 [P2 [P3 [P4 [P5 [P6 PX]]]]]].
  unfold rc_prd_of. cbn [pr_src_label pr_src_id pr_src_type pr_src_start pr_src_end pr_dst_label pr_dst_id
    pr_dst_type pr_dst_start pr_dst_end pr_volume pr_liquid_class pr_diti_reuse pr_multi_disp
    pr_direction pr_exclude].
  rewrite !Z2N.id by assumption. rewrite rc_of_to_N_list by exact PX.
  repeat (split; [reflexivity|]).
  split; [intros z Hz Hz0; rewrite Hz; apply rc_parse_decimal_int; exact Hz0|].
  split; [intros q Hq; rewrite Hq; apply rc_parse_decimal_float|].
  repeat (split; [reflexivity|]).
  unfold n_fields. cbn [render]. rewrite (rc_split_r f Hs Hn).
  unfold rc_r_fields. cbn [List.length app]. rewrite map_length. reflexivity.
Qed.

(** no line break unless a text field has one *)
Lemma rc_oneline_R f c : rc_r_nonneg f ->
  is_digit c = false -> c <> "."%char -> c <> "-"%char -> c <> ";"%char -> c <> "R"%char ->
  contains_char c (r_src_label f) = false -> contains_char c (r_src_id f) = false ->
  contains_char c (r_src_type f) = false -> contains_char c (r_dst_label f) = false ->
  contains_char c (r_dst_id f) = false -> contains_char c (r_dst_type f) = false ->
  contains_char c (r_liquid_class f) = false ->
  contains_char c (render (RR f)) = false.
Proof.
  intros Hn Hd Hp Hm Hs HR H1 H2 H3 H4 H5 H6 H7. cbn [render]. rewrite rc_render_r_eq.
  apply rc_contains_join.
  - cbn [contains_char]. destruct (Ascii.eqb ";" c) eqn:E; [|reflexivity].
    apply Ascii.eqb_eq in E. congruence.
  - constructor; [|apply rc_r_fields_no; assumption].
    cbn [contains_char]. destruct (Ascii.eqb "R" c) eqn:E; [|reflexivity].
    apply Ascii.eqb_eq in E. congruence.
Qed.

(* ------------------------------------------------------------------------------------------ *)
(** * sort_Z *)

Lemma rc_insert_perm x l : Permutation (insert_Z x l) (x :: l).
Proof.
  induction l as [|y r IH]; [apply Permutation_refl|]. cbn [insert_Z].
  destruct (y <=? x)%Z; [|apply Permutation_refl].
  apply Permutation_trans with (y :: x :: r); [apply perm_skip; exact IH|apply perm_swap].
Qed.

Lemma rc_insert_sorted x l : StronglySorted Z.le l -> StronglySorted Z.le (insert_Z x l).
Proof.
  induction l as [|y r IH]; intro H.
  - cbn [insert_Z]. constructor; [constructor|constructor].
  - inversion H as [|y0 r0 Hr Hy]. subst y0 r0. cbn [insert_Z].
    destruct (y <=? x)%Z eqn:E.
    + apply Z.leb_le in E. constructor; [apply IH; exact Hr|].
      rewrite Forall_forall. intros z Hz.
      apply (Permutation_in _ (rc_insert_perm x r)) in Hz. destruct Hz as [Hz|Hz]; [subst z; exact E|].
      rewrite Forall_forall in Hy. apply Hy. exact Hz.
    + apply Z.leb_gt in E. constructor; [exact H|].
      constructor; [lia|]. rewrite Forall_forall in Hy. rewrite Forall_forall.
      intros z Hz. specialize (Hy z Hz). lia.
Qed.

Lemma rc_sort_fold l : forall acc, StronglySorted Z.le acc ->
  StronglySorted Z.le (fold_left (fun acc x => insert_Z x acc) l acc) /\
  Permutation (fold_left (fun acc x => insert_Z x acc) l acc) (acc ++ l).
Proof.
  induction l as [|x l IH]; intros acc Hacc; cbn [fold_left].
  - split; [exact Hacc|]. rewrite app_nil_r. apply Permutation_refl.
  - destruct (IH (insert_Z x acc) (rc_insert_sorted x acc Hacc)) as [H1 H2]. split; [exact H1|].
    apply Permutation_trans with (insert_Z x acc ++ l)%list; [exact H2|].
    apply Permutation_trans with ((x :: acc) ++ l)%list.
    + apply Permutation_app_tail. apply rc_insert_perm.
    + cbn [app]. apply Permutation_middle.
Qed.

(** [sorted(...)]: ascending, same elements with the same multiplicities *)
Lemma rc_sort_Z l : StronglySorted Z.le (sort_Z l) /\ Permutation (sort_Z l) l.
Proof. unfold sort_Z. apply (rc_sort_fold l [] (SSorted_nil _)). Qed.

Lemma rc_sort_Z_Forall (P : Z -> Prop) l : Forall P l -> Forall P (sort_Z l).
Proof.
  intro H. rewrite Forall_forall in *. intros z Hz. apply H.
  apply (Permutation_in _ (proj2 (rc_sort_Z l))). exact Hz.
Qed.

(* ------------------------------------------------------------------------------------------ *)
(** * reagent_distribution *)

Definition rc_excl (a : rdargs) : list Z := match rd_exclude a with Some l => l | None => [] end.

Definition rc_rd_multi (w : wstate) (a : rdargs) (v : Q) : Z :=
  if Qgtb (inject_Z (rd_multi_disp a) * v) (w_max w) then Qfloor (w_max w / v) else rd_multi_disp a.

(** the record emitted by an accepted call, in terms of the validated components *)
Definition rc_rd_record (w : wstate) (a : rdargs) (d : bool) (ss se ds de : Z) (sl sid sty dl did dty lc : string)
    (v : Q) : rfields :=
  {| r_src_label := sl; r_src_id := sid; r_src_type := sty; r_src_start := ss; r_src_end := se;
     r_dst_label := dl; r_dst_id := did; r_dst_type := dty; r_dst_start := ds; r_dst_end := de;
     r_volume := match rd_volume a with RVInt z => PyI z | _ => PyF v end;
     r_liquid_class := lc; r_diti_reuse := rd_diti_reuse a; r_multi_disp := rc_rd_multi w a v;
     r_direction := d; r_exclude := sort_Z (rc_excl a) |}.

(** every call either leaves the worklist unchanged and raises, or all checks pass and one record is added *)
Lemma rc_reagent_cases w a :
  (exists e, reagent_distribution w a = (w, Some e)) \/
  (exists (d : bool) ss se ds de sl sid sty dl did dty lc v,
     rd_direction a = (if d then "right_to_left" else "left_to_right") /\
     check_position (rd_src_start a) = Ok ss /\ check_position (rd_src_end a) = Ok se /\
     check_position (rd_dst_start a) = Ok ds /\ check_position (rd_dst_end a) = Ok de /\
     existsb (fun x => negb ((ds <=? x) && (x <=? de))%Z) (rc_excl a) = false /\
     text_ok true (rd_src_label a) = Some sl /\ text_ok true (rd_src_id a) = Some sid /\
     text_ok true (rd_src_type a) = Some sty /\ text_ok true (rd_dst_label a) = Some dl /\
     text_ok true (rd_dst_id a) = Some did /\ text_ok true (rd_dst_type a) = Some dty /\
     text_ok false (rd_liquid_class a) = Some lc /\
     check_volume (rvol_pvol (rd_volume a)) (Some (w_max w)) = Ok v /\
     reagent_distribution w a =
       (emit w [RR (rc_rd_record w a d ss se ds de sl sid sty dl did dty lc v)], None)).
Proof.
  unfold reagent_distribution.
  assert (Hd : (exists d : bool,
              (if String.eqb (rd_direction a) "left_to_right" then Some false
               else if String.eqb (rd_direction a) "right_to_left" then Some true else None) = Some d /\
              rd_direction a = (if d then "right_to_left" else "left_to_right")) \/
            (if String.eqb (rd_direction a) "left_to_right" then Some false
             else if String.eqb (rd_direction a) "right_to_left" then Some true else None) = None).
  { destruct (String.eqb (rd_direction a) "left_to_right") eqn:E1.
    - apply String.eqb_eq in E1. left. exists false. split; [reflexivity|exact E1].
    - destruct (String.eqb (rd_direction a) "right_to_left") eqn:E2.
      + apply String.eqb_eq in E2. left. exists true. split; [reflexivity|exact E2].
      + right. reflexivity. }
  destruct Hd as [[d [Hd1 Hd2]]|Hd]; rewrite ?Hd1, ?Hd; [|left; eexists; reflexivity].
  destruct (check_position (rd_src_start a)) as [ss|e1] eqn:P1; [|left; eexists; reflexivity].
  destruct (check_position (rd_src_end a)) as [se|e2] eqn:P2; [|left; eexists; reflexivity].
  destruct (check_position (rd_dst_start a)) as [ds|e3] eqn:P3; [|left; eexists; reflexivity].
  destruct (check_position (rd_dst_end a)) as [de|e4] eqn:P4; [|left; eexists; reflexivity].
  destruct ((rd_diti_reuse a <? 0) || (rd_multi_disp a <? 0))%Z eqn:C; [left; eexists; reflexivity|].
  fold (rc_excl a).
  destruct (existsb (fun x => negb ((ds <=? x) && (x <=? de))%Z) (rc_excl a)) eqn:X;
    [left; eexists; reflexivity|].
  destruct (text_ok true (rd_src_label a)) as [sl|] eqn:T1; [|left; eexists; reflexivity].
  destruct (check_volume (rvol_pvol (rd_volume a)) (Some (w_max w))) as [v|ev] eqn:V;
    [|left; eexists; reflexivity].
  destruct (text_ok true (rd_src_id a)) as [sid|] eqn:T2; [|left; eexists; reflexivity].
  destruct (text_ok true (rd_src_type a)) as [sty|] eqn:T3; [|left; eexists; reflexivity].
  destruct (text_ok true (rd_dst_label a)) as [dl|] eqn:T4; [|left; eexists; reflexivity].
  destruct (text_ok true (rd_dst_id a)) as [did|] eqn:T5; [|left; eexists; reflexivity].
  destruct (text_ok true (rd_dst_type a)) as [dty|] eqn:T6; [|left; eexists; reflexivity].
  destruct (text_ok false (rd_liquid_class a)) as [lc|] eqn:T7; [|left; eexists; reflexivity].
  right. exists d, ss, se, ds, de, sl, sid, sty, dl, did, dty, lc, v.
  repeat (split; [first [assumption|reflexivity]|]). reflexivity.
Qed.

(** a raising call appends nothing *)
Lemma rc_reagent_err w a w' e : reagent_distribution w a = (w', Some e) -> w' = w.
Proof.
  intro H. destruct (rc_reagent_cases w a) as [[e' E]|[d [ss [se [ds [de [sl [sid [sty [dl [did [dty [lc [v E]]]]]]]]]]]]]].
  - rewrite E in H. injection H as H _. symmetry. exact H.
  - destruct E as [_ [_ [_ [_ [_ [_ [_ [_ [_ [_ [_ [_ [_ [_ E]]]]]]]]]]]]]]. rewrite E in H. discriminate H.
Qed.

Lemma rc_existsb_range ds de l :
  existsb (fun x => negb ((ds <=? x) && (x <=? de))%Z) l = false <->
  Forall (fun x => (ds <= x <= de)%Z) l.
Proof.
  induction l as [|x l IH]; cbn [existsb].
  - split; [constructor|reflexivity].
  - rewrite orb_false_iff, IH, negb_false_iff, andb_true_iff, !Z.leb_le. split.
    + intros [H1 H2]. constructor; assumption.
    + intro H. inversion H as [|x0 l0 H1 H2]. subst x0 l0. split; assumption.
Qed.

Local Open Scope Q_scope.

(** the multi-dispense count: unchanged when it fits, otherwise the largest count that fits *)
Lemma rc_rd_multi_spec w a v : 0 <= v -> v <= w_max w ->
  (inject_Z (rd_multi_disp a) * v <= w_max w -> rc_rd_multi w a v = rd_multi_disp a) /\
  (w_max w < inject_Z (rd_multi_disp a) * v ->
     rc_rd_multi w a v = Qfloor (w_max w / v) /\ 0 < v /\
     inject_Z (rc_rd_multi w a v) * v <= w_max w /\
     w_max w < inject_Z (rc_rd_multi w a v + 1) * v /\
     (1 <= rc_rd_multi w a v < rd_multi_disp a)%Z).
Proof.
  intros H0 Hmax. unfold rc_rd_multi. split.
  - intro H. destruct (Qgtb (inject_Z (rd_multi_disp a) * v) (w_max w)) eqn:E; [|reflexivity].
    apply rc_Qgtb_true in E. lra.
  - intro H. apply rc_Qgtb_iff in H. rewrite H. apply rc_Qgtb_true in H.
    assert (Hv : 0 < v).
    { destruct (Qlt_le_dec 0 v) as [Hv|Hv]; [exact Hv|]. exfalso.
      assert (Hz : v == 0) by lra. rewrite Hz in H. lra. }
    assert (Hx : w_max w / v * v == w_max w) by (field; lra).
    pose proof (Qfloor_le (w_max w / v)) as F1. pose proof (Qlt_floor (w_max w / v)) as F2.
    assert (G1 : inject_Z (Qfloor (w_max w / v)) * v <= w_max w).
    { rewrite <- Hx at 2. apply Qmult_le_compat_r; [exact F1|lra]. }
    assert (G2 : w_max w < inject_Z (Qfloor (w_max w / v) + 1) * v).
    { rewrite <- Hx at 1. apply Qmult_lt_compat_r; [exact Hv|exact F2]. }
    split; [reflexivity|]. split; [exact Hv|]. split; [exact G1|]. split; [exact G2|].
    split.
    + assert (H1 : 1 <= w_max w / v) by (apply Qle_shift_div_l; lra).
      change 1%Z with (Qfloor 1). apply Qfloor_resp_le. exact H1.
    + assert (H2 : inject_Z (Qfloor (w_max w / v)) * v < inject_Z (rd_multi_disp a) * v) by lra.
      assert (H3 : inject_Z (Qfloor (w_max w / v)) < inject_Z (rd_multi_disp a)).
      { destruct (Qlt_le_dec (inject_Z (Qfloor (w_max w / v))) (inject_Z (rd_multi_disp a))) as [L|L];
          [exact L|]. exfalso.
        assert (inject_Z (rd_multi_disp a) * v <= inject_Z (Qfloor (w_max w / v)) * v)
          by (apply Qmult_le_compat_r; lra). lra. }
      rewrite <- Zlt_Qlt in H3. exact H3.
Qed.

Local Close Scope Q_scope.

(** an accepted call has non-negative DiTi-reuse and multi-dispense counts ... *)
Lemma rc_reagent_counts w a w' : reagent_distribution w a = (w', None) ->
  (0 <= rd_diti_reuse a)%Z /\ (0 <= rd_multi_disp a)%Z.
Proof.
  unfold reagent_distribution. intro H.
  destruct (if String.eqb (rd_direction a) "left_to_right" then Some false
            else if String.eqb (rd_direction a) "right_to_left" then Some true else None) as [d|];
    [|discriminate H].
  destruct (check_position (rd_src_start a)) as [ss|e1]; [|discriminate H].
  destruct (check_position (rd_src_end a)) as [se|e2]; [|discriminate H].
  destruct (check_position (rd_dst_start a)) as [ds|e3]; [|discriminate H].
  destruct (check_position (rd_dst_end a)) as [de|e4]; [|discriminate H].
  destruct ((rd_diti_reuse a <? 0) || (rd_multi_disp a <? 0))%Z eqn:C; [discriminate H|].
  apply orb_false_iff in C. destruct C as [C1 C2]. apply Z.ltb_ge in C1, C2. split; assumption.
Qed.

(** ... and a call with a negative count is a ValueError unless the direction or one of the four positions,
    which are checked before, is already one; in every case it is a ValueError and appends nothing *)
Lemma rc_reagent_reject_counts w a : (rd_diti_reuse a < 0 \/ rd_multi_disp a < 0)%Z ->
  reagent_distribution w a = (w, Some EReject).
Proof.
  intro Hneg. unfold reagent_distribution.
  destruct (if String.eqb (rd_direction a) "left_to_right" then Some false
            else if String.eqb (rd_direction a) "right_to_left" then Some true else None) as [d|];
    [|reflexivity].
  destruct (check_position (rd_src_start a)) as [ss|e1]; [|reflexivity].
  destruct (check_position (rd_src_end a)) as [se|e2]; [|reflexivity].
  destruct (check_position (rd_dst_start a)) as [ds|e3]; [|reflexivity].
  destruct (check_position (rd_dst_end a)) as [de|e4]; [|reflexivity].
  assert (C : ((rd_diti_reuse a <? 0) || (rd_multi_disp a <? 0))%Z = true).
  { apply orb_true_iff. destruct Hneg as [Hn|Hn]; [left|right]; apply Z.ltb_lt; exact Hn. }
  rewrite C. reflexivity.
Qed.

(** what an accepted call appends *)
Lemma rc_reagent_ok w a w' : reagent_distribution w a = (w', None) ->
  exists f, w' = emit w [RR f] /\ w_recs w' = (w_recs w ++ [RR f])%list /\
    (* the arguments *)
    rd_src_label a = PStr (r_src_label f) /\ rd_src_id a = PStr (r_src_id f) /\
    rd_src_type a = PStr (r_src_type f) /\ rd_dst_label a = PStr (r_dst_label f) /\
    rd_dst_id a = PStr (r_dst_id f) /\ rd_dst_type a = PStr (r_dst_type f) /\
    rd_liquid_class a = PStr (r_liquid_class f) /\
    rd_src_start a = PInt (r_src_start f) /\ rd_src_end a = PInt (r_src_end f) /\
    rd_dst_start a = PInt (r_dst_start f) /\ rd_dst_end a = PInt (r_dst_end f) /\
    match rd_volume a with
    | RVInt z => r_volume f = PyI z
    | RVFloat x => exists q, x = XQ q /\ r_volume f = PyF q
    | RVBad => False
    end /\
    r_diti_reuse f = rd_diti_reuse a /\
    rd_direction a = (if r_direction f then "right_to_left" else "left_to_right") /\
    r_exclude f = sort_Z (rc_excl a) /\
    (* the multi-dispense count *)
    ((inject_Z (rd_multi_disp a) * pynum_q (r_volume f) <= w_max w)%Q -> r_multi_disp f = rd_multi_disp a) /\
    ((w_max w < inject_Z (rd_multi_disp a) * pynum_q (r_volume f))%Q ->
       r_multi_disp f = Qfloor (w_max w / pynum_q (r_volume f)) /\ (0 < pynum_q (r_volume f))%Q /\
       (inject_Z (r_multi_disp f) * pynum_q (r_volume f) <= w_max w)%Q /\
       (w_max w < inject_Z (r_multi_disp f + 1) * pynum_q (r_volume f))%Q /\
       (1 <= r_multi_disp f < rd_multi_disp a)%Z) /\
    (* the record is representable *)
    rc_r_nosep f /\
    ((String.length (r_src_label f) <= 32)%nat /\ (String.length (r_src_id f) <= 32)%nat /\
     (String.length (r_src_type f) <= 32)%nat /\ (String.length (r_dst_label f) <= 32)%nat /\
     (String.length (r_dst_id f) <= 32)%nat /\ (String.length (r_dst_type f) <= 32)%nat) /\
    (0 <= r_src_start f)%Z /\ (0 <= r_src_end f)%Z /\ (0 <= r_dst_start f)%Z /\ (0 <= r_dst_end f)%Z /\
    (0 <= pynum_q (r_volume f))%Q /\ (pynum_q (r_volume f) <= 7158278)%Q /\
    (pynum_q (r_volume f) <= w_max w)%Q /\
    Forall (fun x => (r_dst_start f <= x <= r_dst_end f)%Z) (r_exclude f) /\
    Forall (fun x => (0 <= x)%Z) (r_exclude f) /\
    (* the two counts are validated (since /repo commit 26768d9, F21) *)
    (0 <= r_diti_reuse f)%Z /\ (0 <= r_multi_disp f)%Z.
Proof.
  intro H. destruct (rc_reagent_counts w a w' H) as [Hc1 Hc2].
  destruct (rc_reagent_cases w a) as [[e' E]|[d [ss [se [ds [de [sl [sid [sty [dl [did [dty [lc [v E]]]]]]]]]]]]]].
  { rewrite E in H. discriminate H. }
  destruct E as [D [P1 [P2 [P3 [P4 [X [T1 [T2 [T3 [T4 [T5 [T6 [T7 [V E]]]]]]]]]]]]]].
  rewrite E in H. injection H as H. subst w'.
  exists (rc_rd_record w a d ss se ds de sl sid sty dl did dty lc v).
  split; [reflexivity|]. split; [reflexivity|].
  apply rc_text_ok_inv in T1, T2, T3, T4, T5, T6, T7.
  destruct T1 as [A1 [B1 C1]]. destruct T2 as [A2 [B2 C2]]. destruct T3 as [A3 [B3 C3]].
  destruct T4 as [A4 [B4 C4]]. destruct T5 as [A5 [B5 C5]]. destruct T6 as [A6 [B6 C6]].
  destruct T7 as [A7 [B7 _]].
  apply rc_check_position_inv in P1, P2, P3, P4.
  destruct P1 as [Q1 R1]. destruct P2 as [Q2 R2]. destruct P3 as [Q3 R3]. destruct P4 as [Q4 R4].
  apply rc_check_volume_inv in V. destruct V as [V1 [V2 [V3 V4]]]. unfold rc_max_ok in V4.
  apply rc_existsb_range in X.
  assert (Hq : (pynum_q (match rd_volume a with RVInt z => PyI z | _ => PyF v end) == v)%Q).
  { destruct (rd_volume a) as [z|x|]; cbn [rvol_pvol] in V1; cbn [pynum_q]; try reflexivity.
    injection V1 as V1. rewrite V1. reflexivity. }
  unfold rc_rd_record.
  cbn [r_src_label r_src_id r_src_type r_src_start r_src_end r_dst_label r_dst_id r_dst_type r_dst_start
       r_dst_end r_volume r_liquid_class r_diti_reuse r_multi_disp r_direction r_exclude].
  repeat (split; [assumption|]).
  split.
  { destruct (rd_volume a) as [z|x|]; cbn [rvol_pvol] in V1.
    - reflexivity.
    - injection V1 as V1. exists v. split; [exact V1|reflexivity].
    - discriminate V1. }
  split; [reflexivity|]. split; [exact D|]. split; [reflexivity|].
  destruct (rc_rd_multi_spec w a v V2 V4) as [M1 M2].
  split; [intro Hm; apply M1; rewrite <- Hq; exact Hm|].
  split.
  { intro Hm. rewrite Hq in Hm. destruct (M2 Hm) as [N1 [N2 [N3 [N4 N5]]]].
    split; [rewrite N1; apply Qfloor_comp; rewrite Hq; reflexivity|].
    split; [rewrite Hq; exact N2|]. split; [rewrite Hq; exact N3|]. split; [rewrite Hq; exact N4|exact N5]. }
  split; [unfold rc_r_nosep, rc_nosep; cbn [r_src_label r_src_id r_src_type r_dst_label r_dst_id r_dst_type
            r_liquid_class]; repeat split; assumption|].
  split; [repeat split; auto|].
  repeat (split; [assumption|]).
  split; [rewrite Hq; exact V2|]. split; [rewrite Hq; exact V3|]. split; [rewrite Hq; exact V4|].
  split; [apply rc_sort_Z_Forall; exact X|].
  split; [apply rc_sort_Z_Forall; rewrite Forall_forall in *; intros x Hx; specialize (X x Hx); lia|].
  split; [exact Hc1|].
  destruct (Qlt_le_dec (w_max w) (inject_Z (rd_multi_disp a) * v)) as [L|L].
  - destruct (M2 L) as [_ [_ [_ [_ N]]]]. lia.
  - rewrite (M1 L). exact Hc2.
Qed.

(** an accepted record parses back *)
Lemma rc_reagent_roundtrip w a w' : reagent_distribution w a = (w', None) ->
  exists f, w_recs w' = (w_recs w ++ [RR f])%list /\ rc_r_nosep f /\ rc_r_nonneg f /\
            parse_record (render (RR f)) = Some (PR (rc_prd_of f)).
Proof.
  intro H. destruct (rc_reagent_ok w a w' H) as [f Hf]. exists f.
  destruct Hf as [_ [Hrec [_ [_ [_ [_ [_ [_ [_ [_ [_ [_ [_ [_ [_ [_ [_ [_ [_ [Hs [_ [P1 [P2 [P3 [P4 [_ [_ [_ [_ [HX [C1 C2]]]]]]]]]]]]]]]]]]]]]]]]]]]]]]].
  assert (Hn : rc_r_nonneg f) by (unfold rc_r_nonneg; repeat (split; [assumption|]); exact HX).
  split; [exact Hrec|]. split; [exact Hs|]. split; [exact Hn|].
  apply rc_roundtrip_R_rec; assumption.
Qed.

(** ** Rejections *)

Lemma rc_reagent_reject_if w a :
  (forall w', reagent_distribution w a = (w', None) -> False) ->
  exists e, reagent_distribution w a = (w, Some e).
Proof.
  intro H. destruct (rc_reagent_cases w a) as [E|[d [ss [se [ds [de [sl [sid [sty [dl [did [dty [lc [v E]]]]]]]]]]]]]];
    [exact E|].
  destruct E as [_ [_ [_ [_ [_ [_ [_ [_ [_ [_ [_ [_ [_ [_ E]]]]]]]]]]]]]]. exfalso. exact (H _ E).
Qed.

Lemma rc_reagent_reject_direction w a :
  rd_direction a <> "left_to_right" -> rd_direction a <> "right_to_left" ->
  reagent_distribution w a = (w, Some EReject).
Proof.
  intros H1 H2. unfold reagent_distribution.
  apply String.eqb_neq in H1. apply String.eqb_neq in H2. rewrite H1, H2. reflexivity.
Qed.

Lemma rc_reagent_reject_position w a :
  (exists p, (p = rd_src_start a \/ p = rd_src_end a \/ p = rd_dst_start a \/ p = rd_dst_end a) /\
             match p with PInt z => (z < 0)%Z | PNotInt => True end) ->
  exists e, reagent_distribution w a = (w, Some e).
Proof.
  intros [p [Hp Hbad]]. apply rc_reagent_reject_if. intros w' H.
  destruct (rc_reagent_ok w a w' H) as [f Hf].
  destruct Hf as [_ [_ [_ [_ [_ [_ [_ [_ [_ [Q1 [Q2 [Q3 [Q4 [_ [_ [_ [_ [_ [_ [_ [_ [P1 [P2 [P3 [P4 _]]]]]]]]]]]]]]]]]]]]]]]]].
  destruct Hp as [Hp|[Hp|[Hp|Hp]]]; subst p;
    [rewrite Q1 in Hbad|rewrite Q2 in Hbad|rewrite Q3 in Hbad|rewrite Q4 in Hbad]; lia.
Qed.

Lemma rc_reagent_reject_exclude w a x ds de :
  In x (rc_excl a) -> rd_dst_start a = PInt ds -> rd_dst_end a = PInt de -> (x < ds \/ de < x)%Z ->
  exists e, reagent_distribution w a = (w, Some e).
Proof.
  intros Hin Hds Hde Hx. apply rc_reagent_reject_if. intros w' H.
  destruct (rc_reagent_ok w a w' H) as [f Hf].
  destruct Hf as [_ [_ [_ [_ [_ [_ [_ [_ [_ [_ [_ [Q3 [Q4 [_ [_ [_ [HE [_ [_ [_ [_ [_ [_ [_ [_ [_ [_ [_ [HX _]]]]]]]]]]]]]]]]]]]]]]]]]]]]].
  rewrite Hds in Q3. rewrite Hde in Q4. injection Q3 as Q3. injection Q4 as Q4.
  rewrite Forall_forall in HX. specialize (HX x).
  assert (Hin' : In x (r_exclude f)).
  { rewrite HE. apply (Permutation_in _ (Permutation_sym (proj2 (rc_sort_Z (rc_excl a))))). exact Hin. }
  specialize (HX Hin'). lia.
Qed.

Lemma rc_reagent_reject_text w a :
  rc_text_bad true (rd_src_label a) \/ rc_text_bad true (rd_src_id a) \/ rc_text_bad true (rd_src_type a) \/
  rc_text_bad true (rd_dst_label a) \/ rc_text_bad true (rd_dst_id a) \/ rc_text_bad true (rd_dst_type a) \/
  rc_text_bad false (rd_liquid_class a) ->
  exists e, reagent_distribution w a = (w, Some e).
Proof.
  intro Hbad. destruct (rc_reagent_cases w a) as [E|[d [ss [se [ds [de [sl [sid [sty [dl [did [dty [lc [v E]]]]]]]]]]]]]];
    [exact E|].
  destruct E as [_ [_ [_ [_ [_ [_ [T1 [T2 [T3 [T4 [T5 [T6 [T7 _]]]]]]]]]]]]]. exfalso.
  rewrite <- !rc_text_ok_none in Hbad.
  destruct Hbad as [H|[H|[H|[H|[H|[H|H]]]]]]; congruence.
Qed.

Lemma rc_reagent_reject_volume w a :
  rc_vol_bad (rvol_pvol (rd_volume a)) \/
  (exists q, rvol_pvol (rd_volume a) = PV (XQ q) /\ (w_max w < q)%Q) ->
  exists e, reagent_distribution w a = (w, Some e).
Proof.
  intro Hbad. destruct (rc_reagent_cases w a) as [E|[d [ss [se [ds [de [sl [sid [sty [dl [did [dty [lc [v E]]]]]]]]]]]]]];
    [exact E|].
  destruct E as [_ [_ [_ [_ [_ [_ [_ [_ [_ [_ [_ [_ [_ [V _]]]]]]]]]]]]]]. exfalso.
  destruct Hbad as [H|[q [Hq Hm]]].
  - rewrite (rc_check_volume_bad _ (Some (w_max w)) H) in V. discriminate V.
  - apply rc_check_volume_inv in V. destruct V as [V1 [_ [_ V4]]]. unfold rc_max_ok in V4.
    rewrite Hq in V1. injection V1 as V1. rewrite V1 in Hm. lra.
Qed.

(* ------------------------------------------------------------------------------------------ *)
(** * End to end: method call -> record text -> independent parser -> the arguments *)

Lemma rc_decimal n :
  parse_decN (decN n) = Some n /\ all_digits (decN n) = true /\ decN n <> "" /\
  contains_char ";"%char (decN n) = false /\ contains_char "."%char (decN n) = false /\
  parse_cents (fixed_dec n 2) = Some n.
Proof.
  split; [apply parse_decN_decN|]. split; [apply all_digits_decN|]. split; [apply decN_nonempty|].
  split; [apply rc_decN_no; reflexivity|]. split; [apply rc_decN_no; reflexivity|].
  apply rc_parse_cents_fixed.
Qed.

(** the shape of "ddd.dd" *)
Lemma rc_fixed_dec2_shape n : exists a b,
  fixed_dec n 2 = decN (n / 100) ++ "." ++ String a (String b "") /\
  parse_decN (String a (String b "")) = Some (n mod 100)%N.
Proof.
  assert (Hm : (n mod 100 < 100)%N) by (apply N.mod_lt; discriminate).
  destruct (rc_frac2 _ Hm) as [a [b [E P]]]. exists a, b. split; [|exact P].
  unfold fixed_dec, frac_digits. change (10 ^ N.of_nat 2)%N with 100%N. rewrite E. reflexivity.
Qed.

Lemma rc_ad_end_to_end a max f : prepare_ad a max = Ok f ->
  exists p v,
    parse_record (render (RA f)) = Some (PA p) /\ parse_record (render (RD f)) = Some (PD p) /\
    x_rack_label a = PStr (pa_rack_label p) /\ x_rack_id a = PStr (pa_rack_id p) /\
    x_rack_type a = PStr (pa_rack_type p) /\ x_position a = PInt (Z.of_N (pa_position p)) /\
    x_tube_id a = PStr (pa_tube_id p) /\
    x_volume a = PV (XQ v) /\ Z.of_N (pa_volume_c p) = round2c v /\
    x_liquid_class a = PStr (pa_liquid_class p) /\ tip_mask (x_tip a) = Ok (pa_tip p) /\
    x_forced a = PStr (pa_forced_rack_type p).
Proof.
  intro H. destruct (rc_prepare_roundtrip a max f H) as [RA_ RD_].
  apply rc_prepare_ok in H.
  destruct H as [[A1 [A2 [A3 [A4 [A5 [A6 [A7 [A8 A9]]]]]]]] [_ [_ [P [V0 _]]]]].
  exists (rc_pad_of f), (ad_volume f).
  split; [exact RA_|]. split; [exact RD_|].
  unfold rc_pad_of. cbn [pa_rack_label pa_rack_id pa_rack_type pa_position pa_tube_id pa_volume_c
    pa_liquid_class pa_tip pa_forced_rack_type].
  rewrite !Z2N.id by (first [exact P|apply rc_round2c_nonneg; exact V0]).
  repeat split; assumption.
Qed.

Lemma rc_aspirate_end_to_end w a w' : aspirate_well w a = (w', None) ->
  exists f p v,
    w_recs w' = (w_recs w ++ [RA f])%list /\ parse_record (render (RA f)) = Some (PA p) /\
    x_rack_label a = PStr (pa_rack_label p) /\ x_rack_id a = PStr (pa_rack_id p) /\
    x_rack_type a = PStr (pa_rack_type p) /\ x_position a = PInt (Z.of_N (pa_position p)) /\
    x_tube_id a = PStr (pa_tube_id p) /\
    x_volume a = PV (XQ v) /\ Z.of_N (pa_volume_c p) = round2c v /\
    x_liquid_class a = PStr (pa_liquid_class p) /\ tip_mask (x_tip a) = Ok (pa_tip p) /\
    x_forced a = PStr (pa_forced_rack_type p).
Proof.
  intro H. apply rc_aspirate_well in H. destruct H as [f [Hf [_ Hr]]].
  destruct (rc_ad_end_to_end _ _ _ Hf) as [p [v [H1 [_ H3]]]].
  exists f, p, v. split; [exact Hr|]. split; [exact H1|exact H3].
Qed.

Lemma rc_dispense_end_to_end w a w' : dispense_well w a = (w', None) ->
  exists f p v,
    w_recs w' = (w_recs w ++ [RD f])%list /\ parse_record (render (RD f)) = Some (PD p) /\
    x_rack_label a = PStr (pa_rack_label p) /\ x_rack_id a = PStr (pa_rack_id p) /\
    x_rack_type a = PStr (pa_rack_type p) /\ x_position a = PInt (Z.of_N (pa_position p)) /\
    x_tube_id a = PStr (pa_tube_id p) /\
    x_volume a = PV (XQ v) /\ Z.of_N (pa_volume_c p) = round2c v /\
    x_liquid_class a = PStr (pa_liquid_class p) /\ tip_mask (x_tip a) = Ok (pa_tip p) /\
    x_forced a = PStr (pa_forced_rack_type p).
Proof.
  intro H. apply rc_dispense_well in H. destruct H as [f [Hf [_ Hr]]].
  destruct (rc_ad_end_to_end _ _ _ Hf) as [p [v [_ [H2 H3]]]].
  exists f, p, v. split; [exact Hr|]. split; [exact H2|exact H3].
Qed.

Lemma rc_ad_worklist w a w' :
  (forall e, aspirate_well w a = (w', Some e) -> w' = w /\ prepare_ad a (Some (w_max w)) = Err e) /\
  (aspirate_well w a = (w', None) ->
     exists f, prepare_ad a (Some (w_max w)) = Ok f /\ w_recs w' = (w_recs w ++ [RA f])%list) /\
  (forall e, dispense_well w a = (w', Some e) -> w' = w /\ prepare_ad a (Some (w_max w)) = Err e) /\
  (dispense_well w a = (w', None) ->
     exists f, prepare_ad a (Some (w_max w)) = Ok f /\ w_recs w' = (w_recs w ++ [RD f])%list).
Proof.
  split; [intros e H; exact (rc_aspirate_well _ _ _ _ H)|].
  split; [intro H; destruct (rc_aspirate_well _ _ _ _ H) as [f [H1 [_ H2]]]; exists f; split; assumption|].
  split; [intros e H; exact (rc_dispense_well _ _ _ _ H)|].
  intro H. destruct (rc_dispense_well _ _ _ _ H) as [f [H1 [_ H2]]]. exists f. split; assumption.
Qed.

Lemma rc_reagent_end_to_end w a w' : reagent_distribution w a = (w', None) ->
  exists f p,
    w_recs w' = (w_recs w ++ [RR f])%list /\ parse_record (render (RR f)) = Some (PR p) /\
    rd_src_label a = PStr (pr_src_label p) /\ rd_src_id a = PStr (pr_src_id p) /\
    rd_src_type a = PStr (pr_src_type p) /\
    rd_src_start a = PInt (Z.of_N (pr_src_start p)) /\ rd_src_end a = PInt (Z.of_N (pr_src_end p)) /\
    rd_dst_label a = PStr (pr_dst_label p) /\ rd_dst_id a = PStr (pr_dst_id p) /\
    rd_dst_type a = PStr (pr_dst_type p) /\
    rd_dst_start a = PInt (Z.of_N (pr_dst_start p)) /\ rd_dst_end a = PInt (Z.of_N (pr_dst_end p)) /\
    pr_volume p = render_pynum (r_volume f) /\
    rd_liquid_class a = PStr (pr_liquid_class p) /\
    Z.of_N (pr_diti_reuse p) = rd_diti_reuse a /\
    Z.of_N (pr_multi_disp p) = r_multi_disp f /\
    rd_direction a = (if pr_direction p then "right_to_left" else "left_to_right") /\
    map Z.of_N (pr_exclude p) = sort_Z (rc_excl a).
Proof.
  intro H. destruct (rc_reagent_roundtrip w a w' H) as [f [Hrec [Hs [Hn Hp]]]].
  destruct (rc_reagent_ok w a w' H) as [f' Hf].
  destruct Hf as [_ [Hrec' Hf]].
  assert (Ef : f' = f).
  { rewrite Hrec in Hrec'. apply app_inv_head in Hrec'. injection Hrec' as E. symmetry. exact E. }
  subst f'.
  destruct Hf as [A1 [A2 [A3 [A4 [A5 [A6 [A7 [Q1 [Q2 [Q3 [Q4 [_ [Hru [Hd [He _]]]]]]]]]]]]]]].
  destruct Hn as [P1 [P2 [P3 [P4 [P5 [P6 PX]]]]]].
  exists f, (rc_prd_of f). split; [exact Hrec|]. split; [exact Hp|].
  unfold rc_prd_of. cbn [pr_src_label pr_src_id pr_src_type pr_src_start pr_src_end pr_dst_label pr_dst_id
    pr_dst_type pr_dst_start pr_dst_end pr_volume pr_liquid_class pr_diti_reuse pr_multi_disp
    pr_direction pr_exclude].
  rewrite !Z2N.id by assumption. rewrite rc_of_to_N_list by exact PX.
  repeat (split; [first [assumption|reflexivity]|]). exact He.
Qed.

(** one line: an accepted call writes a character that is not a digit, ".", "-", ";", "R" only if a text
    argument contains it *)
Lemma rc_reagent_oneline w a w' c : reagent_distribution w a = (w', None) ->
  is_digit c = false -> c <> "."%char -> c <> "-"%char -> c <> ";"%char -> c <> "R"%char ->
  (forall t s, In t [rd_src_label a; rd_src_id a; rd_src_type a; rd_dst_label a; rd_dst_id a; rd_dst_type a;
                     rd_liquid_class a] -> t = PStr s -> contains_char c s = false) ->
  exists f, w_recs w' = (w_recs w ++ [RR f])%list /\ contains_char c (render (RR f)) = false.
Proof.
  intros H Hd Hp Hm Hs HR Ht. destruct (rc_reagent_roundtrip w a w' H) as [f [Hrec [_ [Hn _]]]].
  destruct (rc_reagent_ok w a w' H) as [f' Hf].
  destruct Hf as [_ [Hrec' Hf]].
  assert (Ef : f' = f).
  { rewrite Hrec in Hrec'. apply app_inv_head in Hrec'. injection Hrec' as E. symmetry. exact E. }
  subst f'.
  destruct Hf as [A1 [A2 [A3 [A4 [A5 [A6 [A7 _]]]]]]].
  exists f. split; [exact Hrec|].
  apply rc_oneline_R; try assumption.
  - apply (Ht (rd_src_label a)); [cbn [In]; tauto|exact A1].
  - apply (Ht (rd_src_id a)); [cbn [In]; tauto|exact A2].
  - apply (Ht (rd_src_type a)); [cbn [In]; tauto|exact A3].
  - apply (Ht (rd_dst_label a)); [cbn [In]; tauto|exact A4].
  - apply (Ht (rd_dst_id a)); [cbn [In]; tauto|exact A5].
  - apply (Ht (rd_dst_type a)); [cbn [In]; tauto|exact A6].
  - apply (Ht (rd_liquid_class a)); [cbn [In]; tauto|exact A7].
Qed.

(** set_diti: method call -> S record -> text -> parser -> the index given *)
Lemma rc_set_diti_end_to_end w i w' : set_diti w i = (w', None) ->
  exists n, w' = emit w [RS i] /\ w_recs w' = (w_recs w ++ [RS i])%list /\
            parse_record (render (RS i)) = Some (PS n) /\ Z.of_N n = i /\
            split_on ";"%char (render (RS i)) = ["S"; decN n].
Proof.
  intro H. destruct (rc_set_diti_cases _ _ _ _ H) as [Hi [-> _]].
  exists (Z.to_N i). split; [reflexivity|]. split; [reflexivity|].
  split; [apply rc_roundtrip_S; exact Hi|]. split; [apply Z2N.id; exact Hi|].
  apply (proj2 (proj2 rc_fields_simple)). exact Hi.
Qed.

(** negative DiTi index / DiTi reuse / multi-dispense counts: ValueError, nothing appended *)
Lemma rc_reject_negative_counts w :
  (forall i, (i < 0)%Z -> set_diti w i = (w, Some EReject)) /\
  (forall a, (rd_diti_reuse a < 0 \/ rd_multi_disp a < 0)%Z ->
     reagent_distribution w a = (w, Some EReject)).
Proof.
  split; [intros i Hi; exact (proj1 (rc_set_diti w i) Hi)|intros a Ha; exact (rc_reagent_reject_counts w a Ha)].
Qed.

(* ------------------------------------------------------------------------------------------ *)
(** * Grammar: every record appended by the record-level methods is read by the independent parser *)

Definition rc_parsable (r : srec) : Prop := parse_record (render r) <> None.

(** the call appended the records [rs] (none if it raised), all inside the grammar *)
Definition rc_appends_parsable (w w' : wstate) : Prop :=
  exists rs, w_recs w' = (w_recs w ++ rs)%list /\ Forall rc_parsable rs.

Lemma rc_appends_none w : rc_appends_parsable w w.
Proof. exists []. split; [symmetry; apply app_nil_r|constructor]. Qed.

Lemma rc_appends_one w r : rc_parsable r -> rc_appends_parsable w (emit w [r]).
Proof. intro H. exists [r]. split; [reflexivity|]. constructor; [exact H|constructor]. Qed.

Lemma rc_grammar_set_diti w i w' e : set_diti w i = (w', e) -> rc_appends_parsable w w'.
Proof.
  intro H. apply rc_set_diti_cases in H. destruct e as [e|].
  - subst w'. apply rc_appends_none.
  - destruct H as [Hi [-> _]]. apply rc_appends_one. unfold rc_parsable.
    rewrite (rc_roundtrip_S i Hi). discriminate.
Qed.

Lemma rc_grammar_reagent w a w' e : reagent_distribution w a = (w', e) -> rc_appends_parsable w w'.
Proof.
  intro H. destruct e as [e|].
  - rewrite (rc_reagent_err _ _ _ _ H). apply rc_appends_none.
  - destruct (rc_reagent_roundtrip _ _ _ H) as [f [Hrec [_ [_ Hp]]]].
    exists [RR f]. split; [exact Hrec|]. constructor; [|constructor].
    unfold rc_parsable. rewrite Hp. discriminate.
Qed.

Lemma rc_grammar_comment w c w' e : comment w c = (w', e) -> rc_appends_parsable w w'.
Proof.
  unfold comment. intro H. destruct c as [s|]; [|injection H as <- <-; apply rc_appends_none].
  destruct (String.eqb s ""); [injection H as <- <-; apply rc_appends_none|].
  destruct (contains_char semi s) eqn:Hs; injection H as <- <-; [apply rc_appends_none|].
  exists (map RC (comment_lines s)). split; [reflexivity|].
  apply Forall_forall. intros r Hr. apply in_map_iff in Hr. destruct Hr as [t [<- Ht]].
  destruct (rc_comment_lines_spec s t Ht) as [_ [_ [_ H4]]].
  unfold rc_parsable. rewrite (rc_roundtrip_C t (H4 _ Hs)). discriminate.
Qed.

Lemma rc_grammar_wash w s w' e : wash w s = (w', e) -> rc_appends_parsable w w'.
Proof.
  unfold wash. intro H. destruct (w_diti w).
  - injection H as <- <-. apply rc_appends_one. unfold rc_parsable. vm_compute. discriminate.
  - destruct s as [z| | | |]; try (injection H as <- <-; apply rc_appends_none).
    destruct ((1 <=? z) && (z <=? 4))%Z eqn:E; injection H as <- <-; [|apply rc_appends_none].
    apply andb_true_iff in E. destruct E as [E1 E2]. apply Z.leb_le in E1, E2.
    apply rc_appends_one. unfold rc_parsable. rewrite rc_roundtrip_Wn by lia. discriminate.
Qed.

Lemma rc_grammar_ad w a w' e :
  (aspirate_well w a = (w', e) -> rc_appends_parsable w w') /\
  (dispense_well w a = (w', e) -> rc_appends_parsable w w').
Proof.
  split; intro H; [apply rc_aspirate_well in H|apply rc_dispense_well in H]; destruct e as [e|].
  - destruct H as [-> _]. apply rc_appends_none.
  - destruct H as [f [Hf [-> _]]]. apply rc_appends_one. unfold rc_parsable.
    rewrite (proj1 (rc_prepare_roundtrip _ _ _ Hf)). discriminate.
  - destruct H as [-> _]. apply rc_appends_none.
  - destruct H as [f [Hf [-> _]]]. apply rc_appends_one. unfold rc_parsable.
    rewrite (proj2 (rc_prepare_roundtrip _ _ _ Hf)). discriminate.
Qed.

Lemma rc_grammar w w' e :
  (forall i, set_diti w i = (w', e) -> rc_appends_parsable w w') /\
  (forall a, reagent_distribution w a = (w', e) -> rc_appends_parsable w w') /\
  (forall c, comment w c = (w', e) -> rc_appends_parsable w w') /\
  (forall s, wash w s = (w', e) -> rc_appends_parsable w w') /\
  (decontaminate w = (w', e) -> rc_appends_parsable w w') /\
  (flush w = (w', e) -> rc_appends_parsable w w') /\
  (commit w = (w', e) -> rc_appends_parsable w w') /\
  (forall a, aspirate_well w a = (w', e) -> rc_appends_parsable w w') /\
  (forall a, dispense_well w a = (w', e) -> rc_appends_parsable w w').
Proof.
  split; [intro i; apply rc_grammar_set_diti|]. split; [intro a; apply rc_grammar_reagent|].
  split; [intro c; apply rc_grammar_comment|]. split; [intro s; apply rc_grammar_wash|].
  split.
  { unfold decontaminate. intro H. destruct (w_diti w); injection H as <- <-;
      [apply rc_appends_none|apply rc_appends_one; unfold rc_parsable; vm_compute; discriminate]. }
  split; [intro H; injection H as <- <-; apply rc_appends_one; unfold rc_parsable; vm_compute; discriminate|].
  split; [intro H; injection H as <- <-; apply rc_appends_one; unfold rc_parsable; vm_compute; discriminate|].
  split; intro a; apply rc_grammar_ad.
Qed.

(** the hypotheses of the record-level lemmas hold of every record [reagent_distribution] appends *)
Lemma rc_reagent_representable w a w' : reagent_distribution w a = (w', None) ->
  exists f, w_recs w' = (w_recs w ++ [RR f])%list /\ rc_r_nosep f /\ rc_r_nonneg f /\
            exists p, parse_record (render (RR f)) = Some (PR p).
Proof.
  intro H. destruct (rc_reagent_roundtrip w a w' H) as [f [A [B [C D]]]].
  exists f. split; [exact A|]. split; [exact B|]. split; [exact C|]. eexists. exact D.
Qed.
