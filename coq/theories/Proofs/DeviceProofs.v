(** Lemmas for C16: EvoWorklist and FluentWorklist run the same device-independent operations in
    lock step (same labware, same outcomes, records equal up to trough positions); the generic base
    worklist refuses operations that need device-specific numbering. *)
From Robo Require Import Prelude Str Wells Utils Labware Tips Records Partition Params Worklist EvoCmd
  Program Invariants WellsProofs LabwareProofs.

(* ================================================================== definitions used by Props/C16.v *)

(** an operation that exists on every worklist type with the same intended meaning: not one of the
    EVOware script commands, and not a transfer with the deprecated wash scheme [None] (which washes
    on one device and flushes on the other by design) *)
Definition dev_indep (o : op) : Prop :=
  match o with
  | OEvoAsp _ _ _ | OEvoDisp _ _ _ _ | OEvoWash _ => False
  | OTransfer _ _ _ _ _ _ ws _ _ => ws <> SNone
  | _ => True
  end.

(** [troughs_of lws name]: some labware of the list with that name is a trough *)
Definition troughs_of (lws : list labware) (name : string) : bool :=
  existsb (fun L => String.eqb (lw_name L) name && is_trough (lw_geom L)) lws.

(** A/D records: everything but the position agrees, and the rack label names a trough *)
Definition ad_sim (T : string -> bool) (f1 f2 : adfields) : Prop :=
  ad_rack_label f1 = ad_rack_label f2 /\ ad_rack_id f1 = ad_rack_id f2 /\
  ad_rack_type f1 = ad_rack_type f2 /\ ad_tube_id f1 = ad_tube_id f2 /\
  ad_volume f1 = ad_volume f2 /\ ad_liquid_class f1 = ad_liquid_class f2 /\
  ad_tip f1 = ad_tip f2 /\ ad_forced_rack_type f1 = ad_forced_rack_type f2 /\
  T (ad_rack_label f1) = true.

(** R records: everything but the well ranges and the exclusion list agrees; the source range may differ
    only if the source label names a trough, the destination range and the exclusion list only if the
    destination label names a trough *)
Definition r_sim (T : string -> bool) (f1 f2 : rfields) : Prop :=
  r_src_label f1 = r_src_label f2 /\ r_src_id f1 = r_src_id f2 /\ r_src_type f1 = r_src_type f2 /\
  r_dst_label f1 = r_dst_label f2 /\ r_dst_id f1 = r_dst_id f2 /\ r_dst_type f1 = r_dst_type f2 /\
  r_volume f1 = r_volume f2 /\ r_liquid_class f1 = r_liquid_class f2 /\
  r_diti_reuse f1 = r_diti_reuse f2 /\ r_multi_disp f1 = r_multi_disp f2 /\
  r_direction f1 = r_direction f2 /\
  (T (r_src_label f1) = true \/
   (r_src_start f1 = r_src_start f2 /\ r_src_end f1 = r_src_end f2)) /\
  (T (r_dst_label f1) = true \/
   (r_dst_start f1 = r_dst_start f2 /\ r_dst_end f1 = r_dst_end f2 /\ r_exclude f1 = r_exclude f2)).

Inductive rec_sim (T : string -> bool) : srec -> srec -> Prop :=
| RS_eq r : rec_sim T r r
| RS_A f1 f2 : ad_sim T f1 f2 -> rec_sim T (RA f1) (RA f2)
| RS_D f1 f2 : ad_sim T f1 f2 -> rec_sim T (RD f1) (RD f2)
| RS_R f1 f2 : r_sim T f1 f2 -> rec_sim T (RR f1) (RR f2).

(** the two program states of one experiment: same labware, same worklist configuration, one EVO and
    one Fluent worklist whose records agree up to trough positions *)
Definition state_sim (s1 s2 : state) : Prop :=
  st_lw s1 = st_lw s2 /\
  w_max (st_wl s1) = w_max (st_wl s2) /\
  w_autosplit (st_wl s1) = w_autosplit (st_wl s2) /\
  w_diti (st_wl s1) = w_diti (st_wl s2) /\
  w_dev (st_wl s1) = Evo /\ w_dev (st_wl s2) = Fluent /\
  Forall2 (rec_sim (troughs_of (st_lw s1))) (w_recs (st_wl s1)) (w_recs (st_wl s2)).

(** the destination ids of a [distribute] are ids of the destination labware *)
Definition dist_ids_known (lws : list labware) (o : op) : Prop :=
  match o with
  | ODistribute _ kd dwells _ =>
      forall Ld, nth_error lws kd = Some Ld ->
      forall w, In w (flattenF dwells) -> well_index (lw_geom Ld) w <> None
  | _ => True
  end.

(** records that carry no well position *)
Definition plain_rec (r : srec) : Prop :=
  match r with
  | RC _ | RW _ | RWD | RF | RB | RS _ => True
  | _ => False
  end.

(** the three emitters that take explicit, caller-computed positions *)
Definition raw_record_op (o : op) : Prop :=
  match o with
  | OAspWell _ | ODispWell _ | OReagent _ => True
  | _ => False
  end.

(* ================================================================== positions *)

Lemma known_id_positions g s : well_index g s <> None ->
  exists r c, r < n_row_ids g /\ c < g_cols g /\ s = well_id r c /\
    evo_position g s = Ok (pos_of (match g_vrows g with Some v => v | None => n_row_ids g end) r c) /\
    fluent_position g s = Ok (if is_trough g then 1 + c else pos_of (n_row_ids g) r c).
Proof.
  intro H. destruct (well_index g s) as [rc|] eqn:E; [|congruence].
  destruct (well_index_domain _ _ _ E) as (r & c & Hr & Hc & Hs & _). subst s.
  exists r, c. split; [exact Hr|]. split; [exact Hc|]. split; [reflexivity|]. split.
  - apply evo_position_ok; assumption.
  - apply fluent_position_ok; assumption.
Qed.

(** ids of the labware: both devices accept; same number unless the labware is a trough *)
Lemma positions_known g s : well_index g s <> None ->
  exists p1 p2, evo_position g s = Ok p1 /\ fluent_position g s = Ok p2 /\
                (is_trough g = false -> p1 = p2).
Proof.
  intro H. destruct (known_id_positions g s H) as (r & c & _ & _ & _ & He & Hf).
  eexists. eexists. split; [exact He|]. split; [exact Hf|].
  intro Ht. rewrite Ht. unfold is_trough in Ht. destruct (g_vrows g); [discriminate|reflexivity].
Qed.

Lemma positions_trough g v s : g_vrows g = Some v -> well_index g s <> None ->
  exists r c, r < n_row_ids g /\ c < g_cols g /\ s = well_id r c /\
    evo_position g s = Ok (1 + c * v + r) /\ fluent_position g s = Ok (1 + c).
Proof.
  intros Hv H. destruct (known_id_positions g s H) as (r & c & Hr & Hc & Hs & He & Hf).
  exists r, c. unfold is_trough in Hf. rewrite Hv in He, Hf.
  repeat split; assumption.
Qed.

Lemma split_letters_head s a l d : split_letters s = (String a l, d) -> str_head s = Some a.
Proof.
  destruct s as [|b r]; cbn [split_letters]; [discriminate|].
  destruct (is_letter b); [|discriminate].
  destruct (split_letters r) as [l' d']. intro H. injection H as -> _ _. reflexivity.
Qed.

Lemma parse_id_head s a n : parse_id s = Some (String a EmptyString, n) -> str_head s = Some a.
Proof.
  unfold parse_id. destruct (split_letters s) as [l d] eqn:E.
  destruct l as [|b l']; [discriminate|]. destruct d as [|x d']; [discriminate|].
  destruct (all_digits (String x d')); [|discriminate].
  destruct (parse_decN (String x d')) as [m|]; [|discriminate].
  intro H. injection H as -> -> _. eapply split_letters_head. exact E.
Qed.

(** any id: whatever the EVO numbering accepts, the Fluent numbering accepts too *)
Lemma evo_ok_fluent_ok g s p : evo_position g s = Ok p ->
  exists p', fluent_position g s = Ok p' /\ (is_trough g = false -> p' = p).
Proof.
  unfold evo_position, fluent_position.
  destruct (parse_id s) as [[l n]|] eqn:Ep; [|discriminate].
  destruct (single_letter_row g l) as [r|] eqn:Er; [|discriminate].
  destruct (column_index g n) as [c|] eqn:Ec; [|discriminate].
  intro H. injection H as <-.
  destruct (is_trough g) eqn:Et.
  - eexists. split; [reflexivity|discriminate].
  - assert (Hl : exists a, l = String a EmptyString).
    { unfold single_letter_row in Er. destruct l as [|a [|b l']]; try discriminate. exists a. reflexivity. }
    destruct Hl as [a ->]. rewrite (parse_id_head _ _ _ Ep). rewrite Er.
    eexists. split; [reflexivity|]. intros _.
    unfold is_trough in Et. destruct (g_vrows g); [discriminate|reflexivity].
Qed.

(** ... but not the other way round: the Fluent numbering re-reads the row from the first character
    only (and ignores the row altogether on troughs) *)
Lemma positions_agree_refuted :
  exists g s, wf_geom g /\ fluent_position g s = Ok 1 /\ evo_position g s = Err EReject.
Proof.
  exists {| g_rows := 2; g_cols := 3; g_vrows := None |}, "AB01"%string.
  split; [|split; vm_compute; reflexivity].
  unfold wf_geom. cbn [g_rows g_cols g_vrows]. lia.
Qed.

Lemma positions_of_known g ws : (forall w, In w ws -> well_index g w <> None) ->
  exists ps1 ps2, positions_of Evo g ws = Ok ps1 /\ positions_of Fluent g ws = Ok ps2 /\
    length ps1 = length ws /\ length ps2 = length ws /\ (is_trough g = false -> ps1 = ps2).
Proof.
  induction ws as [|w r IH]; intro Hk.
  - exists [], []. repeat split.
  - destruct IH as (ps1 & ps2 & H1 & H2 & L1 & L2 & Heq); [intros x Hx; apply Hk; right; exact Hx|].
    destruct (positions_known g w) as (p1 & p2 & E1 & E2 & Hp); [apply Hk; left; reflexivity|].
    exists (p1 :: ps1), (p2 :: ps2). cbn [positions_of device_position].
    rewrite E1, E2, H1, H2. cbn [length]. repeat split; try congruence.
    intro Ht. rewrite (Hp Ht), (Heq Ht). reflexivity.
Qed.

(* ================================================================== the base type *)

Lemma emit_wells_base asp w L items k : w_dev w = BaseDev ->
  emit_wells asp w L items k =
  (w, if existsb (fun it => xpos (snd it)) items then Some ECompat else None).
Proof.
  intro Hd. induction items as [|[well x] rest IH]; [reflexivity|].
  cbn [emit_wells existsb snd]. destruct (xpos x); cbn [orb].
  - rewrite Hd. reflexivity.
  - exact IH.
Qed.

(** [w'] extends [w] by plain records only *)
Definition wl_ext (w w' : wstate) : Prop :=
  w_dev w' = w_dev w /\ exists rs, w_recs w' = (w_recs w ++ rs)%list /\ Forall plain_rec rs.

Lemma wl_ext_refl w : wl_ext w w.
Proof. split; [reflexivity|]. exists []. split; [symmetry; apply app_nil_r|constructor]. Qed.

Lemma wl_ext_emit w rs : Forall plain_rec rs -> wl_ext w (emit w rs).
Proof. intro H. split; [reflexivity|]. exists rs. split; [reflexivity|exact H]. Qed.

Lemma wl_ext_trans w1 w2 w3 : wl_ext w1 w2 -> wl_ext w2 w3 -> wl_ext w1 w3.
Proof.
  intros [D1 (r1 & E1 & F1)] [D2 (r2 & E2 & F2)]. split; [congruence|].
  exists (r1 ++ r2)%list. split; [rewrite E2, E1, app_assoc; reflexivity|].
  apply Forall_app. split; assumption.
Qed.

Lemma comment_ext w c : wl_ext w (fst (comment w c)).
Proof.
  unfold comment. destruct c as [s|]; [|apply wl_ext_refl].
  destruct (String.eqb s ""); [apply wl_ext_refl|].
  destruct (contains_char semi s); [apply wl_ext_refl|].
  cbn [fst]. apply wl_ext_emit. apply Forall_forall. intros r Hr.
  apply in_map_iff in Hr. destruct Hr as (t & <- & _). exact I.
Qed.

Lemma wash_ext w sch : wl_ext w (fst (wash w sch)).
Proof.
  unfold wash. destruct (w_diti w).
  - apply wl_ext_emit. repeat constructor.
  - destruct sch as [z| | | |]; try apply wl_ext_refl.
    destruct ((1 <=? z) && (z <=? 4))%Z; [|apply wl_ext_refl].
    apply wl_ext_emit. repeat constructor.
Qed.

Lemma set_diti_ext w i : wl_ext w (fst (set_diti w i)).
Proof.
  unfold set_diti. destruct (last_opt (w_recs w)) as [r|].
  - destruct (is_break_like r); [|apply wl_ext_refl]. apply wl_ext_emit. repeat constructor.
  - apply wl_ext_emit. repeat constructor.
Qed.

Lemma base_transfer s ks sw kd dw vols label ws pb kw : w_dev (st_wl s) = BaseDev ->
  transfer s ks sw kd dw vols label ws pb kw = (s, Some ECompat).
Proof. intro Hd. unfold transfer. rewrite Hd. reflexivity. Qed.

Lemma base_aspirate s k wells vols label kw L L' w :
  w_dev (st_wl s) = BaseDev ->
  nth_error (st_lw s) k = Some L ->
  remove L (A1 (fst (wells_vols wells vols))) (A1 (snd (wells_vols wells vols))) label = (L', None) ->
  comment (st_wl s) label = (w, None) ->
  aspirate s k wells vols label kw =
  ({| st_lw := upd (st_lw s) k L'; st_wl := w |},
   if existsb (fun it => xpos (snd it)) (zip (fst (wells_vols wells vols)) (snd (wells_vols wells vols)))
   then Some ECompat else None).
Proof.
  intros Hd HL Hr Hc. unfold aspirate. rewrite HL.
  destruct (wells_vols wells vols) as [ws vs]. cbn [fst snd] in *. rewrite Hr.
  cbn [st_wl set_lw]. rewrite Hc.
  rewrite emit_wells_base; [reflexivity|].
  pose proof (comment_ext (st_wl s) label) as [Hd' _]. rewrite Hc in Hd'. cbn [fst] in Hd'. congruence.
Qed.

Lemma base_dispense s k wells vols label comps kw L L' w :
  w_dev (st_wl s) = BaseDev ->
  nth_error (st_lw s) k = Some L ->
  add L (A1 (fst (wells_vols wells vols))) (A1 (snd (wells_vols wells vols))) label comps = (L', None) ->
  comment (st_wl s) label = (w, None) ->
  dispense s k wells vols label comps kw =
  ({| st_lw := upd (st_lw s) k L'; st_wl := w |},
   if existsb (fun it => xpos (snd it)) (zip (fst (wells_vols wells vols)) (snd (wells_vols wells vols)))
   then Some ECompat else None).
Proof.
  intros Hd HL Hr Hc. unfold dispense. rewrite HL.
  destruct (wells_vols wells vols) as [ws vs]. cbn [fst snd] in *. rewrite Hr.
  cbn [st_wl set_lw]. rewrite Hc.
  rewrite emit_wells_base; [reflexivity|].
  pose proof (comment_ext (st_wl s) label) as [Hd' _]. rewrite Hc in Hd'. cbn [fst] in Hd'. congruence.
Qed.

Lemma positions_of_base g ws :
  positions_of BaseDev g ws = match ws with [] => Ok [] | _ => Err ECompat end.
Proof. destruct ws as [|w r]; reflexivity. Qed.

(** [distribute] computes the positions before anything else: refused without any effect *)
Lemma base_distribute s ks kd dwells a Ls Ld v xv :
  w_dev (st_wl s) = BaseDev ->
  nth_error (st_lw s) ks = Some Ls -> nth_error (st_lw s) kd = Some Ld ->
  g_vrows (lw_geom Ls) = Some v -> rvol_x (d_volume a) = Some xv -> xv <> XNaN ->
  (match xv with XQ q => Qgtb q (w_max (st_wl s)) | XPInf => true | _ => false end) = false ->
  flattenF dwells <> [] ->
  distribute s ks kd dwells a = (s, Some ECompat).
Proof.
  intros Hd Hs Hk Hv Hx Hn Hm Hw. unfold distribute. rewrite Hs, Hk, Hv, Hx.
  cbv zeta. rewrite Hd, positions_of_base.
  destruct (flattenF dwells) as [|w0 r]; [congruence|].
  destruct xv as [q| | |]; try congruence; rewrite Hm; reflexivity.
Qed.

Lemma base_distribute_state s ks kd dwells a : w_dev (st_wl s) = BaseDev ->
  fst (distribute s ks kd dwells a) = s.
Proof.
  intro Hd. unfold distribute. cbv zeta. rewrite Hd, positions_of_base.
  destruct (flattenF dwells) as [|w0 r]; cbn [map sort_Z fold_left]; repeat dmatch; reflexivity.
Qed.

Lemma base_aspirate_ext s k wells vols label kw : w_dev (st_wl s) = BaseDev ->
  wl_ext (st_wl s) (st_wl (fst (aspirate s k wells vols label kw))).
Proof.
  intro Hd. unfold aspirate.
  destruct (nth_error (st_lw s) k) as [L|]; [|apply wl_ext_refl].
  destruct (wells_vols wells vols) as [ws vs].
  destruct (remove L (A1 ws) (A1 vs) label) as [L' [e|]]; [apply wl_ext_refl|].
  cbn [st_wl set_lw]. pose proof (comment_ext (st_wl s) label) as Hc.
  destruct (comment (st_wl s) label) as [w [e|]]; cbn [fst] in Hc; [exact Hc|].
  rewrite emit_wells_base by (destruct Hc as [Hc _]; congruence). exact Hc.
Qed.

Lemma base_dispense_ext s k wells vols label comps kw : w_dev (st_wl s) = BaseDev ->
  wl_ext (st_wl s) (st_wl (fst (dispense s k wells vols label comps kw))).
Proof.
  intro Hd. unfold dispense.
  destruct (nth_error (st_lw s) k) as [L|]; [|apply wl_ext_refl].
  destruct (wells_vols wells vols) as [ws vs].
  destruct (add L (A1 ws) (A1 vs) label comps) as [L' [e|]]; [apply wl_ext_refl|].
  cbn [st_wl set_lw]. pose proof (comment_ext (st_wl s) label) as Hc.
  destruct (comment (st_wl s) label) as [w [e|]]; cbn [fst] in Hc; [exact Hc|].
  rewrite emit_wells_base by (destruct Hc as [Hc _]; congruence). exact Hc.
Qed.

Lemma on_lw_wl s k f : st_wl (fst (on_lw s k f)) = st_wl s.
Proof.
  unfold on_lw. destruct (nth_error (st_lw s) k) as [L|]; [|reflexivity].
  destruct (f L) as [L' e]. reflexivity.
Qed.

Lemma on_wl_wl s f : st_wl (fst (on_wl s f)) = fst (f (st_wl s)).
Proof. unfold on_wl. destruct (f (st_wl s)) as [w e]. reflexivity. Qed.

(** on the base type a step appends plain records only, unless it is one of the raw emitters *)
Lemma base_step_ext s o : w_dev (st_wl s) = BaseDev -> ~ raw_record_op o ->
  wl_ext (st_wl s) (st_wl (fst (step s o))).
Proof.
  intros Hd Hr. destruct o; cbn [step]; cbn [raw_record_op] in Hr;
    try (rewrite on_lw_wl; apply wl_ext_refl); try rewrite on_wl_wl; try (exfalso; apply Hr; exact I).
  - apply base_aspirate_ext. exact Hd.
  - apply base_dispense_ext. exact Hd.
  - rewrite base_transfer by exact Hd. apply wl_ext_refl.
  - rewrite base_distribute_state by exact Hd. apply wl_ext_refl.
  - apply comment_ext.
  - apply wash_ext.
  - unfold decontaminate. destruct (w_diti (st_wl s)); [apply wl_ext_refl|].
    apply wl_ext_emit. repeat constructor.
  - apply wl_ext_emit. repeat constructor.
  - apply wl_ext_emit. repeat constructor.
  - apply set_diti_ext.
  - rewrite Hd. apply wl_ext_refl.
  - rewrite Hd. apply wl_ext_refl.
  - rewrite Hd. apply wl_ext_refl.
Qed.

Lemma base_run_ext ops : forall s, w_dev (st_wl s) = BaseDev -> Forall (fun o => ~ raw_record_op o) ops ->
  wl_ext (st_wl s) (st_wl (fst (run s ops))).
Proof.
  induction ops as [|o r IH]; intros s Hd Hf; cbn [run]; [apply wl_ext_refl|].
  inversion Hf as [|o' r' Ho Hr']; subst.
  pose proof (base_step_ext s o Hd Ho) as H1. destruct (step s o) as [s1 e]. cbn [fst] in H1.
  assert (Hd1 : w_dev (st_wl s1) = BaseDev) by (destruct H1 as [H1 _]; congruence).
  pose proof (IH s1 Hd1 Hr') as H2. destruct (run s1 r) as [s2 es]. cbn [fst] in *.
  eapply wl_ext_trans; eassumption.
Qed.

(** the raw emitters do append position records on the base type (positions supplied by the caller) *)
Lemma base_no_position_records_refuted :
  exists s o, w_dev (st_wl s) = BaseDev /    ~ (exists rs, w_recs (st_wl (fst (step s o))) = (w_recs (st_wl s) ++ rs)%list /\ Forall plain_rec rs).
Proof.
  exists {| st_lw := []; st_wl := init_wl BaseDev 950 true false |},
         (OAspWell (ad_of_kw "plate" 1 10 kw_default)).
  split; [reflexivity|]. intros (rs & E & F).
  vm_compute in E. subst rs. inversion F as [|r l Hr Hl]. exact Hr.
Qed.
