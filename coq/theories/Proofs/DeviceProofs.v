(** Lemmas for C16: EvoWorklist and FluentWorklist run the same device-independent operations in
    lock step (same labware, same outcomes, records equal up to trough positions); the generic base
    worklist refuses operations that need device-specific numbering. *)
From Robo Require Import Prelude Str Wells Utils Labware Tips Records Partition Params Worklist EvoCmd
  Program Invariants WellsProofs.
(* self-contained w.r.t. the labware loops: does not import LabwareProofs *)

(* ================================================================== definitions used by Props/C16.v *)

(** an operation that exists on every worklist type with the same intended meaning: not one of the
    EVOware script commands, and not a transfer with the deprecated wash scheme [None] (which washes
    on one device and flushes on the other by design) *)
Definition dev_indep (o : op) : Prop :=
  match o with
  | OEvoAsp _ _ _ | OEvoDisp _ _ _ _ | OEvoWash _ => False
  | OTransfer _ _ _ _ _ _ ws _ _ => ws <> SNone
  | _ => True
  end.

(** [troughs_of lws name]: some labware of the list with that name is a trough *)
Definition troughs_of (lws : list labware) (name : string) : bool :=
  existsb (fun L => String.eqb (lw_name L) name && is_trough (lw_geom L)) lws.

(** A/D records: everything but the position agrees, and the rack label names a trough *)
Definition ad_sim (T : string -> bool) (f1 f2 : adfields) : Prop :=
  ad_rack_label f1 = ad_rack_label f2 /\ ad_rack_id f1 = ad_rack_id f2 /\
  ad_rack_type f1 = ad_rack_type f2 /\ ad_tube_id f1 = ad_tube_id f2 /\
  ad_volume f1 = ad_volume f2 /\ ad_liquid_class f1 = ad_liquid_class f2 /\
  ad_tip f1 = ad_tip f2 /\ ad_forced_rack_type f1 = ad_forced_rack_type f2 /\
  T (ad_rack_label f1) = true.

(** R records: everything but the well ranges and the exclusion list agrees; the source range may differ
    only if the source label names a trough, the destination range and the exclusion list only if the
    destination label names a trough *)
Definition r_sim (T : string -> bool) (f1 f2 : rfields) : Prop :=
  r_src_label f1 = r_src_label f2 /\ r_src_id f1 = r_src_id f2 /\ r_src_type f1 = r_src_type f2 /\
  r_dst_label f1 = r_dst_label f2 /\ r_dst_id f1 = r_dst_id f2 /\ r_dst_type f1 = r_dst_type f2 /\
  r_volume f1 = r_volume f2 /\ r_liquid_class f1 = r_liquid_class f2 /\
  r_diti_reuse f1 = r_diti_reuse f2 /\ r_multi_disp f1 = r_multi_disp f2 /\
  r_direction f1 = r_direction f2 /\
  (T (r_src_label f1) = true \/
   (r_src_start f1 = r_src_start f2 /\ r_src_end f1 = r_src_end f2)) /\
  (T (r_dst_label f1) = true \/
   (r_dst_start f1 = r_dst_start f2 /\ r_dst_end f1 = r_dst_end f2 /\ r_exclude f1 = r_exclude f2)).

Inductive rec_sim (T : string -> bool) : srec -> srec -> Prop :=
| RS_eq r : rec_sim T r r
| RS_A f1 f2 : ad_sim T f1 f2 -> rec_sim T (RA f1) (RA f2)
| RS_D f1 f2 : ad_sim T f1 f2 -> rec_sim T (RD f1) (RD f2)
| RS_R f1 f2 : r_sim T f1 f2 -> rec_sim T (RR f1) (RR f2).

(** the two program states of one experiment: same labware, same worklist configuration, one EVO and
    one Fluent worklist whose records agree up to trough positions *)
Definition state_sim (s1 s2 : state) : Prop :=
  st_lw s1 = st_lw s2 /\
  w_max (st_wl s1) = w_max (st_wl s2) /\
  w_autosplit (st_wl s1) = w_autosplit (st_wl s2) /\
  w_diti (st_wl s1) = w_diti (st_wl s2) /\
  w_dev (st_wl s1) = Evo /\ w_dev (st_wl s2) = Fluent /\
  Forall2 (rec_sim (troughs_of (st_lw s1))) (w_recs (st_wl s1)) (w_recs (st_wl s2)).

(** records that carry no well position *)
Definition plain_rec (r : srec) : Prop :=
  match r with
  | RC _ | RW _ | RWD | RF | RB | RS _ => True
  | _ => False
  end.

(** the three emitters that take explicit, caller-computed positions *)
Definition raw_record_op (o : op) : Prop :=
  match o with
  | OAspWell _ | ODispWell _ | OReagent _ => True
  | _ => False
  end.

(* ================================================================== positions *)

Lemma known_id_positions g s : well_index g s <> None ->
  exists r c, r < n_row_ids g /\ c < g_cols g /\ s = well_id r c /\
    evo_position g s = Ok (pos_of (match g_vrows g with Some v => v | None => n_row_ids g end) r c) /\
    fluent_position g s = Ok (if is_trough g then 1 + c else pos_of (n_row_ids g) r c).
Proof.
  intro H. destruct (well_index g s) as [rc|] eqn:E; [|congruence].
  destruct (well_index_domain _ _ _ E) as (r & c & Hr & Hc & Hs & _). subst s.
  exists r, c. split; [exact Hr|]. split; [exact Hc|]. split; [reflexivity|]. split.
  - apply evo_position_ok; assumption.
  - apply fluent_position_ok; assumption.
Qed.

(** ids of the labware: both devices accept; same number unless the labware is a trough *)
Lemma positions_known g s : well_index g s <> None ->
  exists p1 p2, evo_position g s = Ok p1 /\ fluent_position g s = Ok p2 /\
                (is_trough g = false -> p1 = p2).
Proof.
  intro H. destruct (known_id_positions g s H) as (r & c & _ & _ & _ & He & Hf).
  eexists. eexists. split; [exact He|]. split; [exact Hf|].
  intro Ht. rewrite Ht. unfold is_trough in Ht. destruct (g_vrows g); [discriminate|reflexivity].
Qed.

Lemma positions_trough g v s : g_vrows g = Some v -> well_index g s <> None ->
  exists r c, r < n_row_ids g /\ c < g_cols g /\ s = well_id r c /\
    evo_position g s = Ok (1 + c * v + r) /\ fluent_position g s = Ok (1 + c).
Proof.
  intros Hv H. destruct (known_id_positions g s H) as (r & c & Hr & Hc & Hs & He & Hf).
  exists r, c. unfold is_trough in Hf. rewrite Hv in He, Hf.
  repeat split; assumption.
Qed.

Lemma split_letters_head s a l d : split_letters s = (String a l, d) -> str_head s = Some a.
Proof.
  destruct s as [|b r]; cbn [split_letters]; [discriminate|].
  destruct (is_letter b); [|discriminate].
  destruct (split_letters r) as [l' d']. intro H. injection H as -> _ _. reflexivity.
Qed.

Lemma parse_id_head s a n : parse_id s = Some (String a EmptyString, n) -> str_head s = Some a.
Proof.
  unfold parse_id. destruct (split_letters s) as [l d] eqn:E.
  destruct l as [|b l']; [discriminate|]. destruct d as [|x d']; [discriminate|].
  destruct (all_digits (String x d')); [|discriminate].
  destruct (parse_decN (String x d')) as [m|]; [|discriminate].
  intro H. injection H as -> -> _. eapply split_letters_head. exact E.
Qed.

(** any id: whatever the EVO numbering accepts, the Fluent numbering accepts too *)
Lemma evo_ok_fluent_ok g s p : evo_position g s = Ok p ->
  exists p', fluent_position g s = Ok p' /\ (is_trough g = false -> p' = p).
Proof.
  unfold evo_position, fluent_position.
  destruct (parse_id s) as [[l n]|] eqn:Ep; [|discriminate].
  destruct (single_letter_row g l) as [r|] eqn:Er; [|discriminate].
  destruct (column_index g n) as [c|] eqn:Ec; [|discriminate].
  intro H. injection H as <-.
  destruct (is_trough g) eqn:Et.
  - eexists. split; [reflexivity|discriminate].
  - assert (Hl : exists a, l = String a EmptyString).
    { unfold single_letter_row in Er. destruct l as [|a [|b l']]; try discriminate. exists a. reflexivity. }
    destruct Hl as [a ->]. rewrite (parse_id_head _ _ _ Ep). rewrite Er.
    eexists. split; [reflexivity|]. intros _.
    unfold is_trough in Et. destruct (g_vrows g); [discriminate|reflexivity].
Qed.

(** ... but not the other way round: the Fluent numbering re-reads the row from the first character
    only (and ignores the row altogether on troughs) *)
Lemma positions_agree_refuted :
  exists g s, wf_geom g /\ fluent_position g s = Ok 1 /\ evo_position g s = Err EReject.
Proof.
  exists {| g_rows := 2; g_cols := 3; g_vrows := None |}, "AB01"%string.
  split; [|split; vm_compute; reflexivity].
  unfold wf_geom. cbn [g_rows g_cols g_vrows]. lia.
Qed.

Lemma positions_of_known g ws : (forall w, In w ws -> well_index g w <> None) ->
  exists ps1 ps2, positions_of Evo g ws = Ok ps1 /\ positions_of Fluent g ws = Ok ps2 /\
    length ps1 = length ws /\ length ps2 = length ws /\ (is_trough g = false -> ps1 = ps2).
Proof.
  induction ws as [|w r IH]; intro Hk.
  - exists [], []. repeat split.
  - destruct IH as (ps1 & ps2 & H1 & H2 & L1 & L2 & Heq); [intros x Hx; apply Hk; right; exact Hx|].
    destruct (positions_known g w) as (p1 & p2 & E1 & E2 & Hp); [apply Hk; left; reflexivity|].
    exists (p1 :: ps1), (p2 :: ps2). cbn [positions_of device_position].
    rewrite E1, E2, H1, H2. cbn [length]. repeat split; try congruence.
    intro Ht. rewrite (Hp Ht), (Heq Ht). reflexivity.
Qed.

(* ================================================================== the base type *)

Lemma emit_wells_base asp w L items k : w_dev w = BaseDev ->
  emit_wells asp w L items k =
  (w, if existsb (fun it => xpos (snd it)) items then Some ECompat else None).
Proof.
  intro Hd. induction items as [|[well x] rest IH]; [reflexivity|].
  cbn [emit_wells existsb snd]. destruct (xpos x); cbn [orb].
  - rewrite Hd. reflexivity.
  - exact IH.
Qed.

(** [w'] extends [w] by plain records only *)
Definition wl_ext (w w' : wstate) : Prop :=
  w_dev w' = w_dev w /\ exists rs, w_recs w' = (w_recs w ++ rs)%list /\ Forall plain_rec rs.

Lemma wl_ext_refl w : wl_ext w w.
Proof. split; [reflexivity|]. exists []. split; [symmetry; apply app_nil_r|constructor]. Qed.

Lemma wl_ext_emit w rs : Forall plain_rec rs -> wl_ext w (emit w rs).
Proof. intro H. split; [reflexivity|]. exists rs. split; [reflexivity|exact H]. Qed.

Lemma wl_ext_trans w1 w2 w3 : wl_ext w1 w2 -> wl_ext w2 w3 -> wl_ext w1 w3.
Proof.
  intros [D1 (r1 & E1 & F1)] [D2 (r2 & E2 & F2)]. split; [congruence|].
  exists (r1 ++ r2)%list. split; [rewrite E2, E1, app_assoc; reflexivity|].
  apply Forall_app. split; assumption.
Qed.

Lemma comment_ext w c : wl_ext w (fst (comment w c)).
Proof.
  unfold comment. destruct c as [s|]; [|apply wl_ext_refl].
  destruct (String.eqb s ""); [apply wl_ext_refl|].
  destruct (contains_char semi s); [apply wl_ext_refl|].
  cbn [fst]. apply wl_ext_emit. apply Forall_forall. intros r Hr.
  apply in_map_iff in Hr. destruct Hr as (t & <- & _). exact I.
Qed.

Lemma wash_ext w sch : wl_ext w (fst (wash w sch)).
Proof.
  unfold wash. destruct (w_diti w).
  - apply wl_ext_emit. repeat constructor.
  - destruct sch as [z| | | |]; try apply wl_ext_refl.
    destruct ((1 <=? z) && (z <=? 4))%Z; [|apply wl_ext_refl].
    apply wl_ext_emit. repeat constructor.
Qed.

Lemma set_diti_ext w i : wl_ext w (fst (set_diti w i)).
Proof.
  unfold set_diti. destruct (i <? 0)%Z; [apply wl_ext_refl|].
  destruct (last_opt (w_recs w)) as [r|].
  - destruct (is_break_like r); [|apply wl_ext_refl]. apply wl_ext_emit. repeat constructor.
  - apply wl_ext_emit. repeat constructor.
Qed.

Lemma base_transfer s ks sw kd dw vols label ws pb kw : w_dev (st_wl s) = BaseDev ->
  transfer s ks sw kd dw vols label ws pb kw = (s, Some ECompat).
Proof. intro Hd. unfold transfer. rewrite Hd. reflexivity. Qed.

Lemma base_aspirate s k wells vols label kw L L' w :
  w_dev (st_wl s) = BaseDev ->
  nth_error (st_lw s) k = Some L ->
  remove L (A1 (fst (wells_vols wells vols))) (A1 (snd (wells_vols wells vols))) label = (L', None) ->
  comment (st_wl s) label = (w, None) ->
  aspirate s k wells vols label kw =
  ({| st_lw := upd (st_lw s) k L'; st_wl := w |},
   if existsb (fun it => xpos (snd it)) (zip (fst (wells_vols wells vols)) (snd (wells_vols wells vols)))
   then Some ECompat else None).
Proof.
  intros Hd HL Hr Hc. unfold aspirate. rewrite HL.
  destruct (wells_vols wells vols) as [ws vs]. cbn [fst snd] in *. rewrite Hr.
  cbn [st_wl set_lw]. rewrite Hc.
  rewrite emit_wells_base; [reflexivity|].
  pose proof (comment_ext (st_wl s) label) as [Hd' _]. rewrite Hc in Hd'. cbn [fst] in Hd'. congruence.
Qed.

Lemma base_dispense s k wells vols label comps kw L L' w :
  w_dev (st_wl s) = BaseDev ->
  nth_error (st_lw s) k = Some L ->
  add L (A1 (fst (wells_vols wells vols))) (A1 (snd (wells_vols wells vols))) label comps = (L', None) ->
  comment (st_wl s) label = (w, None) ->
  dispense s k wells vols label comps kw =
  ({| st_lw := upd (st_lw s) k L'; st_wl := w |},
   if existsb (fun it => xpos (snd it)) (zip (fst (wells_vols wells vols)) (snd (wells_vols wells vols)))
   then Some ECompat else None).
Proof.
  intros Hd HL Hr Hc. unfold dispense. rewrite HL.
  destruct (wells_vols wells vols) as [ws vs]. cbn [fst snd] in *. rewrite Hr.
  cbn [st_wl set_lw]. rewrite Hc.
  rewrite emit_wells_base; [reflexivity|].
  pose proof (comment_ext (st_wl s) label) as [Hd' _]. rewrite Hc in Hd'. cbn [fst] in Hd'. congruence.
Qed.

Lemma positions_of_base g ws :
  positions_of BaseDev g ws = match ws with [] => Ok [] | _ => Err ECompat end.
Proof. destruct ws as [|w r]; reflexivity. Qed.

(** [distribute] computes the positions right after its argument checks: refused without any effect *)
Lemma base_distribute s ks kd dwells a Ls Ld v xv :
  w_dev (st_wl s) = BaseDev ->
  nth_error (st_lw s) ks = Some Ls -> nth_error (st_lw s) kd = Some Ld ->
  g_vrows (lw_geom Ls) = Some v -> rvol_x (d_volume a) = Some xv -> xv <> XNaN ->
  (match xv with XQ q => Qgtb q (w_max (st_wl s)) | XPInf => true | _ => false end) = false ->
  flattenF dwells <> [] ->
  (forall w, In w (flattenF dwells) -> lw_index Ld w <> None) ->
  distribute s ks kd dwells a = (s, Some ECompat).
Proof.
  intros Hd Hs Hk Hv Hx Hn Hm Hw Hkn. unfold distribute. rewrite Hs, Hk, Hv, Hx.
  cbv zeta. rewrite Hd, positions_of_base.
  assert (Eu : existsb (fun x => match lw_index Ld x with None => true | Some _ => false end)
                       (flattenF dwells) = false).
  { destruct (existsb _ (flattenF dwells)) eqn:E; [|reflexivity].
    apply existsb_exists in E. destruct E as (w & Hin & Hb). specialize (Hkn w Hin).
    destruct (lw_index Ld w); [discriminate|congruence]. }
  rewrite Eu.
  destruct (flattenF dwells) as [|w0 r]; [congruence|].
  destruct xv as [q| | |]; try congruence; rewrite Hm; reflexivity.
Qed.

Lemma base_distribute_state s ks kd dwells a : w_dev (st_wl s) = BaseDev ->
  fst (distribute s ks kd dwells a) = s.
Proof.
  intro Hd. unfold distribute. cbv zeta.
  destruct (nth_error (st_lw s) ks) as [Ls|]; [|reflexivity].
  destruct (nth_error (st_lw s) kd) as [Ld|]; [|reflexivity].
  destruct (g_vrows (lw_geom Ls)) as [v|]; [|reflexivity].
  destruct (rvol_x (d_volume a)) as [xv|]; [|reflexivity].
  rewrite Hd, positions_of_base.
  destruct (existsb (fun x => match lw_index Ld x with None => true | Some _ => false end) (flattenF dwells));
    destruct (flattenF dwells) as [|w0 r]; cbn [map sort_Z fold_left];
    destruct xv as [q| | |]; try reflexivity; try (destruct (Qgtb q (w_max (st_wl s))); reflexivity).
Qed.

Lemma base_aspirate_ext s k wells vols label kw : w_dev (st_wl s) = BaseDev ->
  wl_ext (st_wl s) (st_wl (fst (aspirate s k wells vols label kw))).
Proof.
  intro Hd. unfold aspirate.
  destruct (nth_error (st_lw s) k) as [L|]; [|apply wl_ext_refl].
  destruct (wells_vols wells vols) as [ws vs].
  destruct (remove L (A1 ws) (A1 vs) label) as [L' [e|]]; [apply wl_ext_refl|].
  cbn [st_wl set_lw]. pose proof (comment_ext (st_wl s) label) as Hc.
  destruct (comment (st_wl s) label) as [w [e|]]; cbn [fst] in Hc; [exact Hc|].
  rewrite emit_wells_base by (destruct Hc as [Hc _]; congruence). exact Hc.
Qed.

Lemma base_dispense_ext s k wells vols label comps kw : w_dev (st_wl s) = BaseDev ->
  wl_ext (st_wl s) (st_wl (fst (dispense s k wells vols label comps kw))).
Proof.
  intro Hd. unfold dispense.
  destruct (nth_error (st_lw s) k) as [L|]; [|apply wl_ext_refl].
  destruct (wells_vols wells vols) as [ws vs].
  destruct (add L (A1 ws) (A1 vs) label comps) as [L' [e|]]; [apply wl_ext_refl|].
  cbn [st_wl set_lw]. pose proof (comment_ext (st_wl s) label) as Hc.
  destruct (comment (st_wl s) label) as [w [e|]]; cbn [fst] in Hc; [exact Hc|].
  rewrite emit_wells_base by (destruct Hc as [Hc _]; congruence). exact Hc.
Qed.

Lemma on_lw_wl s k f : st_wl (fst (on_lw s k f)) = st_wl s.
Proof.
  unfold on_lw. destruct (nth_error (st_lw s) k) as [L|]; [|reflexivity].
  destruct (f L) as [L' e]. reflexivity.
Qed.

Lemma on_wl_wl s f : st_wl (fst (on_wl s f)) = fst (f (st_wl s)).
Proof. unfold on_wl. destruct (f (st_wl s)) as [w e]. reflexivity. Qed.

(** on the base type a step appends plain records only, unless it is one of the raw emitters *)
Lemma base_step_ext s o : w_dev (st_wl s) = BaseDev -> ~ raw_record_op o ->
  wl_ext (st_wl s) (st_wl (fst (step s o))).
Proof.
  intros Hd Hr. destruct o; cbn [step]; cbn [raw_record_op] in Hr;
    try (rewrite on_lw_wl; apply wl_ext_refl); try rewrite on_wl_wl; try (exfalso; apply Hr; exact I).
  - apply base_aspirate_ext. exact Hd.
  - apply base_dispense_ext. exact Hd.
  - rewrite base_transfer by exact Hd. apply wl_ext_refl.
  - rewrite base_distribute_state by exact Hd. apply wl_ext_refl.
  - apply comment_ext.
  - apply wash_ext.
  - unfold decontaminate. destruct (w_diti (st_wl s)); [apply wl_ext_refl|].
    apply wl_ext_emit. repeat constructor.
  - apply wl_ext_emit. repeat constructor.
  - apply wl_ext_emit. repeat constructor.
  - apply set_diti_ext.
  - rewrite Hd. apply wl_ext_refl.
  - rewrite Hd. apply wl_ext_refl.
  - rewrite Hd. apply wl_ext_refl.
Qed.

Lemma base_run_ext ops : forall s, w_dev (st_wl s) = BaseDev -> Forall (fun o => ~ raw_record_op o) ops ->
  wl_ext (st_wl s) (st_wl (fst (run s ops))).
Proof.
  induction ops as [|o r IH]; intros s Hd Hf; cbn [run]; [apply wl_ext_refl|].
  inversion Hf as [|o' r' Ho Hr']; subst.
  pose proof (base_step_ext s o Hd Ho) as H1. destruct (step s o) as [s1 e]. cbn [fst] in H1.
  assert (Hd1 : w_dev (st_wl s1) = BaseDev) by (destruct H1 as [H1 _]; congruence).
  pose proof (IH s1 Hd1 Hr') as H2. destruct (run s1 r) as [s2 es]. cbn [fst] in *.
  eapply wl_ext_trans; eassumption.
Qed.

(** the raw emitters do append position records on the base type (positions supplied by the caller) *)
Lemma base_no_position_records_refuted :
  exists s o, w_dev (st_wl s) = BaseDev /\
    ~ (exists rs, w_recs (st_wl (fst (step s o))) = (w_recs (st_wl s) ++ rs)%list /\ Forall plain_rec rs).
Proof.
  exists {| st_lw := []; st_wl := init_wl BaseDev 950 true false |},
         (OAspWell (ad_of_kw "plate" 1 10 kw_default)).
  split; [reflexivity|]. intros (rs & E & F).
  vm_compute in E. subst rs. inversion F as [|r l Hr Hl]. exact Hr.
Qed.
(* ================================================================== the labware frame: names and geometries *)

Definition lsig (L : labware) : string * geom := (lw_name L, lw_geom L).

Lemma zip_In {A B} (l1 : list A) : forall (l2 : list B) a b, In (a, b) (zip l1 l2) -> In a l1 /\ In b l2.
Proof.
  induction l1 as [|x r IH]; intros [|y s] a b H; cbn [zip In] in H; try contradiction.
  destruct H as [H|H].
  - injection H as <- <-. split; left; reflexivity.
  - destruct (IH s a b H) as [H1 H2]. split; right; assumption.
Qed.

Lemma zip_In_l {A B} (l1 : list A) : forall (l2 : list B) a, length l2 = length l1 -> In a l1 ->
  exists b, In (a, b) (zip l1 l2).
Proof.
  induction l1 as [|x r IH]; intros [|y s] a Hl Hin; cbn [length] in Hl; try discriminate; [contradiction|].
  destruct Hin as [<-|Hin].
  - exists y. left. reflexivity.
  - destruct (IH s a (eq_add_S _ _ Hl) Hin) as [b Hb]. exists b. right. exact Hb.
Qed.

Lemma prep_wells_vols_zip wells vols wv : prep_wells_vols wells vols = Ok wv ->
  exists vs, wv = zip (flattenF wells) vs /\ length vs = length (flattenF wells).
Proof.
  unfold prep_wells_vols. intro H.
  destruct (length (broadcast (flattenF vols) (length (flattenF wells))) =? length (flattenF wells)) eqn:E1;
    cbn [negb] in H; [|discriminate].
  destruct (forallb vol_ok (broadcast (flattenF vols) (length (flattenF wells)))); cbn [negb] in H; [|discriminate].
  injection H as <-. eexists. split; [reflexivity|]. apply Nat.eqb_eq. exact E1.
Qed.

Lemma lw_index_known L w i : lw_index L w = Some i -> well_index (lw_geom L) w <> None.
Proof. unfold lw_index. destruct (well_index (lw_geom L) w); discriminate. Qed.

Lemma lw_index_lsig L1 L2 w : lsig L1 = lsig L2 -> lw_index L1 w = lw_index L2 w.
Proof. unfold lsig, lw_index. intro H. injection H as _ ->. reflexivity. Qed.

(** the loops keep name and geometry, whatever the outcome *)
Lemma remove_loop_lsig items : forall L, lsig (fst (remove_loop L items)) = lsig L.
Proof.
  induction items as [|[w x] rest IH]; intro L; cbn [remove_loop]; [reflexivity|].
  destruct (lw_index L w) as [i|]; [|reflexivity].
  destruct x as [v| | |]; try reflexivity.
  destruct (Qltb (Qred (vol_at L i - v)) (lw_min L)); [reflexivity|].
  rewrite IH. reflexivity.
Qed.

Lemma add_loop_lsig items : forall L, lsig (fst (add_loop L items)) = lsig L.
Proof.
  induction items as [|[[w x] oc] rest IH]; intro L; cbn [add_loop]; [reflexivity|].
  destruct (lw_index L w) as [i|]; [|reflexivity].
  destruct x as [v| | |]; try reflexivity. cbv zeta.
  destruct (Qgtb (Qred (vol_at L i + v)) (lw_max L)); [reflexivity|].
  rewrite IH. destruct oc as [c|]; reflexivity.
Qed.

(** an accepted loop has found every id *)
Lemma remove_loop_known items : forall L L', remove_loop L items = (L', None) ->
  forall it, In it items -> well_index (lw_geom L) (fst it) <> None.
Proof.
  induction items as [|[w x] rest IH]; intros L L' H it Hin; [contradiction|].
  cbn [remove_loop] in H. destruct (lw_index L w) as [i|] eqn:Ei; [|discriminate].
  destruct x as [v| | |]; try discriminate.
  destruct (Qltb (Qred (vol_at L i - v)) (lw_min L)); [discriminate|].
  destruct Hin as [<-|Hin]; [cbn [fst]; eapply lw_index_known; exact Ei|].
  apply (IH _ _ H it Hin).
Qed.

Lemma add_loop_known items : forall L L', add_loop L items = (L', None) ->
  forall it, In it items -> well_index (lw_geom L) (fst (fst it)) <> None.
Proof.
  induction items as [|[[w x] oc] rest IH]; intros L L' H it Hin; [contradiction|].
  cbn [add_loop] in H. destruct (lw_index L w) as [i|] eqn:Ei; [|discriminate].
  destruct x as [v| | |]; try discriminate. cbv zeta in H.
  destruct (Qgtb (Qred (vol_at L i + v)) (lw_max L)); [discriminate|].
  destruct Hin as [<-|Hin]; [cbn [fst]; eapply lw_index_known; exact Ei|].
  pose proof (IH _ _ H it Hin) as HK. destruct oc as [c|]; exact HK.
Qed.

Lemma remove_known L wells vols label L' : remove L wells vols label = (L', None) ->
  forall w, In w (flattenF wells) -> well_index (lw_geom L) w <> None.
Proof.
  unfold remove. intros H w Hw.
  destruct (prep_wells_vols wells vols) as [wv|e0] eqn:Ep; [|discriminate].
  destruct (prep_wells_vols_zip _ _ _ Ep) as (vs & -> & Hlen).
  destruct (remove_loop L (zip (flattenF wells) vs)) as [L1 [e|]] eqn:El; [discriminate|].
  destruct (zip_In_l _ _ w Hlen Hw) as [x Hx].
  apply (remove_loop_known _ _ _ El (w, x) Hx).
Qed.

Lemma add_known L wells vols label comps L' : add L wells vols label comps = (L', None) ->
  forall w, In w (flattenF wells) -> well_index (lw_geom L) w <> None.
Proof.
  unfold add. intros H w Hw.
  destruct (prep_wells_vols wells vols) as [wv|e0] eqn:Ep; [|discriminate].
  destruct (prep_wells_vols_zip _ _ _ Ep) as (vs & -> & Hlen).
  match type of H with context [negb ?b] => destruct b eqn:Ec end; cbn [negb] in H; [|discriminate].
  apply Nat.eqb_eq in Ec.
  match type of H with context [add_loop L ?it] => set (items := it) in * end.
  destruct (add_loop L items) as [L1 [e|]] eqn:El; [discriminate|].
  destruct (zip_In_l _ _ w Hlen Hw) as [x Hx].
  destruct (zip_In_l _ _ (w, x) Ec Hx) as [c Hc].
  apply (add_loop_known _ _ _ El (w, x, c)). subst items.
  apply in_map_iff. exists ((w, x), c). split; [reflexivity|exact Hc].
Qed.

Lemma remove_lsig L wells vols label : lsig (fst (remove L wells vols label)) = lsig L.
Proof.
  unfold remove. destruct (prep_wells_vols wells vols) as [wv|e0]; [|reflexivity].
  pose proof (remove_loop_lsig wv L) as Hl.
  destruct (remove_loop L wv) as [L1 [e|]]; cbn [fst] in *; exact Hl.
Qed.

Lemma add_lsig L wells vols label comps : lsig (fst (add L wells vols label comps)) = lsig L.
Proof.
  unfold add. destruct (prep_wells_vols wells vols) as [wv|e0]; [|reflexivity].
  destruct (negb _); [reflexivity|].
  match goal with |- context [add_loop L ?it] => set (items := it) end.
  pose proof (add_loop_lsig items L) as Hl.
  destruct (add_loop L items) as [L1 [e|]]; cbn [fst] in *; exact Hl.
Qed.

Lemma condense_log_lsig L n label : lsig (condense_log L n label) = lsig L.
Proof. unfold condense_log. destruct (n <? 1); reflexivity. Qed.

Lemma map_upd_same {A B} (f : A -> B) (l : list A) : forall k x y,
  nth_error l k = Some x -> f y = f x -> map f (upd l k y) = map f l.
Proof.
  induction l as [|a r IH]; intros [|k] x y H E; cbn [nth_error upd map] in *; try discriminate.
  - injection H as ->. rewrite E. reflexivity.
  - rewrite (IH k x y H E). reflexivity.
Qed.

(* ================================================================== the relation, for a fixed frame *)

Lemma Forall2_mono {A B} (R R' : A -> B -> Prop) l l' :
  (forall a b, R a b -> R' a b) -> Forall2 R l l' -> Forall2 R' l l'.
Proof. intros HR H. induction H as [|a b l l' Hab Hl IH]; constructor; auto. Qed.

Lemma Forall2_eq {A} (l l' : list A) : Forall2 eq l l' -> l = l'.
Proof. intro H. induction H as [|a b l l' Hab Hl IH]; [reflexivity|congruence]. Qed.

Lemma Forall2_same {A} (R : A -> A -> Prop) (l : list A) : (forall a, R a a) -> Forall2 R l l.
Proof. intro HR. induction l as [|a r IH]; constructor; auto. Qed.

Lemma Forall2_last_opt {A B} (R : A -> B -> Prop) l l' : Forall2 R l l' ->
  match last_opt l, last_opt l' with
  | None, None => True
  | Some a, Some b => R a b
  | _, _ => False
  end.
Proof.
  intro H. induction H as [|a b l l' Hab Hl IH]; [exact I|].
  cbn [last_opt]. destruct Hl as [|a' b' l l' Hab' Hl]; [exact Hab|exact IH].
Qed.

Lemma rec_sim_mono (T T' : string -> bool) r1 r2 :
  (forall n, T n = true -> T' n = true) -> rec_sim T r1 r2 -> rec_sim T' r1 r2.
Proof.
  intros HT H. destruct H as [r|f1 f2 H|f1 f2 H|f1 f2 H].
  - apply RS_eq.
  - apply RS_A. unfold ad_sim in *. intuition.
  - apply RS_D. unfold ad_sim in *. intuition.
  - apply RS_R. unfold r_sim in *. intuition.
Qed.

Lemma rec_sim_break T r1 r2 : rec_sim T r1 r2 -> is_break_like r1 = is_break_like r2.
Proof. intro H. destruct H; reflexivity. Qed.

Lemma adfields_eq f1 f2 :
  ad_rack_label f1 = ad_rack_label f2 -> ad_rack_id f1 = ad_rack_id f2 ->
  ad_rack_type f1 = ad_rack_type f2 -> ad_position f1 = ad_position f2 -> ad_tube_id f1 = ad_tube_id f2 ->
  ad_volume f1 = ad_volume f2 -> ad_liquid_class f1 = ad_liquid_class f2 ->
  ad_tip f1 = ad_tip f2 -> ad_forced_rack_type f1 = ad_forced_rack_type f2 -> f1 = f2.
Proof. destruct f1, f2. cbn. intros. subst. reflexivity. Qed.

(** without troughs the relation is equality *)
Lemma rec_sim_no_trough T r1 r2 : (forall n, T n = false) -> rec_sim T r1 r2 -> r1 = r2.
Proof.
  intros HT H. destruct H as [r|f1 f2 H|f1 f2 H|f1 f2 H]; [reflexivity| | |].
  - destruct H as (_ & _ & _ & _ & _ & _ & _ & _ & H). rewrite HT in H. discriminate.
  - destruct H as (_ & _ & _ & _ & _ & _ & _ & _ & H). rewrite HT in H. discriminate.
  - destruct H as (H1 & H2 & H3 & H4 & H5 & H6 & H7 & H8 & H9 & H10 & H11 & Hs & Hd).
    destruct Hs as [Hs|[Hs1 Hs2]]; [rewrite HT in Hs; discriminate|].
    destruct Hd as [Hd|(Hd1 & Hd2 & Hd3)]; [rewrite HT in Hd; discriminate|].
    destruct f1, f2. cbn in *. subst. reflexivity.
Qed.

(* ------------------------------------------------------------------ sorting positions *)

Lemma insert_Z_In x y l : In x (insert_Z y l) -> x = y \/ In x l.
Proof.
  induction l as [|z r IH]; cbn [insert_Z]; intro H.
  - destruct H as [H|[]]. left. congruence.
  - destruct (z <=? y)%Z.
    + destruct H as [H|H]; [right; left; exact H|]. destruct (IH H) as [E|E]; [left; exact E|right; right; exact E].
    + destruct H as [H|H]; [left; congruence|right; exact H].
Qed.

Lemma insert_Z_length y l : length (insert_Z y l) = Datatypes.S (length l).
Proof.
  induction l as [|z r IH]; cbn [insert_Z length]; [reflexivity|].
  destruct (z <=? y)%Z; cbn [length]; [rewrite IH|]; reflexivity.
Qed.

Lemma sort_Z_acc_In l : forall acc x, In x (fold_left (fun a y => insert_Z y a) l acc) -> In x acc \/ In x l.
Proof.
  induction l as [|y r IH]; intros acc x H; cbn [fold_left] in H; [left; exact H|].
  destruct (IH _ _ H) as [E|E]; [|right; right; exact E].
  destruct (insert_Z_In _ _ _ E) as [E'|E']; [right; left; congruence|left; exact E'].
Qed.

Lemma sort_Z_In x l : In x (sort_Z l) -> In x l.
Proof. intro H. destruct (sort_Z_acc_In l [] x H) as [[]|E]. exact E. Qed.

Lemma sort_Z_acc_length l : forall acc,
  length (fold_left (fun a y => insert_Z y a) l acc) = length l + length acc.
Proof.
  induction l as [|y r IH]; intro acc; cbn [fold_left length]; [reflexivity|].
  rewrite IH, insert_Z_length. lia.
Qed.

Lemma sort_Z_length l : length (sort_Z l) = length l.
Proof. unfold sort_Z. rewrite sort_Z_acc_length. cbn [length]. lia. Qed.

Lemma sorted_positions_nonneg ps x : In x (sort_Z (map Z.of_nat ps)) -> (0 <= x)%Z.
Proof. intro H. apply sort_Z_In, in_map_iff in H. destruct H as (n & <- & _). lia. Qed.

Lemma last_In {A} (l : list A) d : l <> [] -> In (last l d) l.
Proof.
  induction l as [|a r IH]; intro H; [congruence|].
  destruct r as [|b r']; [left; reflexivity|]. right. apply IH. discriminate.
Qed.

Definition excl_of (p0 : Z) (sorted : list Z) : list Z :=
  filter (fun z => negb (existsb (Z.eqb z) sorted))
         (map (fun i => (p0 + Z.of_nat i)%Z) (seq 0 (Z.to_nat (last sorted p0 - p0 + 1)))).

Lemma excl_of_range p0 sorted x : In x (excl_of p0 sorted) -> (p0 <= x <= last sorted p0)%Z.
Proof.
  unfold excl_of. intro H. apply filter_In in H. destruct H as [H _].
  apply in_map_iff in H. destruct H as (i & <- & Hi). apply in_seq in Hi. lia.
Qed.

Lemma check_position_nonneg z : (0 <= z)%Z -> check_position (PInt z) = Ok z.
Proof. intro H. unfold check_position. destruct (z <? 0)%Z eqn:E; [apply Z.ltb_lt in E; lia|reflexivity]. Qed.

Lemma excl_check_false ds de ex : (forall x, In x ex -> (ds <= x <= de)%Z) ->
  existsb (fun x => negb ((ds <=? x) && (x <=? de))%Z) ex = false.
Proof.
  intro H. destruct (existsb _ ex) eqn:E; [|reflexivity].
  apply existsb_exists in E. destruct E as (x & Hx & Hb). specialize (H x Hx).
  assert (E1 : (ds <=? x)%Z = true) by (apply Z.leb_le; lia).
  assert (E2 : (x <=? de)%Z = true) by (apply Z.leb_le; lia).
  rewrite E1, E2 in Hb. discriminate.
Qed.

Lemma text_ok_PStr b t s : text_ok b t = Some s -> t = PStr s.
Proof.
  unfold text_ok. destruct t as [s'|]; [|discriminate].
  destruct (contains_char semi s'); [discriminate|].
  destruct (b && (32 <? String.length s')); [discriminate|]. congruence.
Qed.

Section Sim.
Variable T : string -> bool.
Variable S : list (string * geom).
Hypothesis HT : forall n g, In (n, g) S -> is_trough g = true -> T n = true.

Definition wl_sim (w1 w2 : wstate) : Prop :=
  w_max w1 = w_max w2 /\ w_autosplit w1 = w_autosplit w2 /\ w_diti w1 = w_diti w2 /\
  w_dev w1 = Evo /\ w_dev w2 = Fluent /\ Forall2 (rec_sim T) (w_recs w1) (w_recs w2).

Definition ssim (s1 s2 : state) : Prop :=
  st_lw s1 = st_lw s2 /\ map lsig (st_lw s1) = S /\ wl_sim (st_wl s1) (st_wl s2).

Definition wosim (r1 r2 : wstate * option err) : Prop := wl_sim (fst r1) (fst r2) /\ snd r1 = snd r2.
Definition osim (r1 r2 : state * option err) : Prop := ssim (fst r1) (fst r2) /\ snd r1 = snd r2.

Lemma wosim_same w1 w2 e : wl_sim w1 w2 -> wosim (w1, e) (w2, e).
Proof. intro H. split; [exact H|reflexivity]. Qed.

Lemma osim_same s1 s2 e : ssim s1 s2 -> osim (s1, e) (s2, e).
Proof. intro H. split; [exact H|reflexivity]. Qed.

Lemma emit_sim w1 w2 rs1 rs2 : wl_sim w1 w2 -> Forall2 (rec_sim T) rs1 rs2 ->
  wl_sim (emit w1 rs1) (emit w2 rs2).
Proof.
  intros (H1 & H2 & H3 & H4 & H5 & H6) Hr. unfold wl_sim, emit. cbn [w_recs w_max w_autosplit w_diti w_dev].
  repeat split; try assumption. apply Forall2_app; assumption.
Qed.

Lemma emit_sim_same w1 w2 rs : wl_sim w1 w2 -> wl_sim (emit w1 rs) (emit w2 rs).
Proof. intro H. apply emit_sim; [exact H|]. apply Forall2_same. apply RS_eq. Qed.

Lemma comment_sim w1 w2 c : wl_sim w1 w2 -> wosim (comment w1 c) (comment w2 c).
Proof.
  intro H. unfold comment. destruct c as [s|]; [|apply wosim_same; exact H].
  destruct (String.eqb s ""); [apply wosim_same; exact H|].
  destruct (contains_char semi s); apply wosim_same; [exact H|]. apply emit_sim_same. exact H.
Qed.

Lemma wash_sim w1 w2 sch : wl_sim w1 w2 -> wosim (wash w1 sch) (wash w2 sch).
Proof.
  intro H. unfold wash. destruct H as (H1 & H2 & H3 & H') . rewrite <- H3.
  assert (Hw : wl_sim w1 w2) by (repeat split; tauto).
  destruct (w_diti w1); [apply wosim_same, emit_sim_same; exact Hw|].
  destruct sch as [z| | | |]; try (apply wosim_same; exact Hw).
  destruct ((1 <=? z) && (z <=? 4))%Z; apply wosim_same; [apply emit_sim_same|]; exact Hw.
Qed.

Lemma decontaminate_sim w1 w2 : wl_sim w1 w2 -> wosim (decontaminate w1) (decontaminate w2).
Proof.
  intro H. unfold decontaminate. destruct H as (H1 & H2 & H3 & H'). rewrite <- H3.
  assert (Hw : wl_sim w1 w2) by (repeat split; tauto).
  destruct (w_diti w1); apply wosim_same; [|apply emit_sim_same]; exact Hw.
Qed.

Lemma flush_sim w1 w2 : wl_sim w1 w2 -> wosim (flush w1) (flush w2).
Proof. intro H. apply wosim_same, emit_sim_same. exact H. Qed.

Lemma commit_sim w1 w2 : wl_sim w1 w2 -> wosim (commit w1) (commit w2).
Proof. intro H. apply wosim_same, emit_sim_same. exact H. Qed.

Lemma set_diti_sim w1 w2 i : wl_sim w1 w2 -> wosim (set_diti w1 i) (set_diti w2 i).
Proof.
  intro H. unfold set_diti. destruct (i <? 0)%Z; [apply wosim_same; exact H|].
  pose proof (Forall2_last_opt _ _ _ (proj2 (proj2 (proj2 (proj2 (proj2 H)))))) as HL.
  destruct (last_opt (w_recs w1)) as [r1|], (last_opt (w_recs w2)) as [r2|]; try contradiction.
  - rewrite <- (rec_sim_break _ _ _ HL).
    destruct (is_break_like r1); apply wosim_same; [apply emit_sim_same|]; exact H.
  - apply wosim_same, emit_sim_same. exact H.
Qed.

Lemma aspirate_well_sim w1 w2 a : wl_sim w1 w2 -> wosim (aspirate_well w1 a) (aspirate_well w2 a).
Proof.
  intro H. unfold aspirate_well. rewrite <- (proj1 H).
  destruct (prepare_ad a (Some (w_max w1))) as [f|e]; apply wosim_same; [apply emit_sim_same|]; exact H.
Qed.

Lemma dispense_well_sim w1 w2 a : wl_sim w1 w2 -> wosim (dispense_well w1 a) (dispense_well w2 a).
Proof.
  intro H. unfold dispense_well. rewrite <- (proj1 H).
  destruct (prepare_ad a (Some (w_max w1))) as [f|e]; apply wosim_same; [apply emit_sim_same|]; exact H.
Qed.

(** the same A/D arguments with two positions: same verdict, records equal up to the position *)
Lemma prepare_ad_positions name p1 p2 v k m :
  match prepare_ad (ad_of_kw name p1 v k) m, prepare_ad (ad_of_kw name p2 v k) m with
  | Ok f1, Ok f2 =>
      ad_rack_label f1 = name /\
      ad_rack_label f1 = ad_rack_label f2 /\ ad_rack_id f1 = ad_rack_id f2 /\
      ad_rack_type f1 = ad_rack_type f2 /\ ad_tube_id f1 = ad_tube_id f2 /\
      ad_volume f1 = ad_volume f2 /\ ad_liquid_class f1 = ad_liquid_class f2 /\
      ad_tip f1 = ad_tip f2 /\ ad_forced_rack_type f1 = ad_forced_rack_type f2 /\
      (p1 = p2 -> f1 = f2)
  | Err e1, Err e2 => e1 = e2
  | _, _ => False
  end.
Proof.
  unfold prepare_ad, ad_of_kw.
  cbn [x_rack_label x_position x_volume x_liquid_class x_tip x_rack_id x_tube_id x_rack_type x_forced].
  destruct (text_ok true (PStr name)) as [label|] eqn:El; [|reflexivity].
  assert (Hl : label = name).
  { unfold text_ok in El. destruct (contains_char semi name); [discriminate|].
    destruct (true && (32 <? String.length name)); [discriminate|]. congruence. }
  unfold check_position.
  assert (E1 : (Z.of_nat p1 <? 0)%Z = false) by (apply Z.ltb_ge; lia).
  assert (E2 : (Z.of_nat p2 <? 0)%Z = false) by (apply Z.ltb_ge; lia).
  rewrite E1, E2.
  destruct (check_volume (PV (XQ v)) m) as [q|e]; [|reflexivity].
  destruct (text_ok false (k_liquid_class k)) as [lc|]; [|reflexivity].
  destruct (tip_mask (k_tip k)) as [mask|e]; [|reflexivity].
  destruct (text_ok true (k_rack_id k)) as [rid|]; [|reflexivity].
  destruct (text_ok false (k_tube_id k)) as [tid|]; [|reflexivity].
  destruct (text_ok true (k_rack_type k)) as [rty|]; [|reflexivity].
  destruct (text_ok true (k_forced k)) as [frt|]; [|reflexivity].
  cbn [ad_rack_label ad_rack_id ad_rack_type ad_tube_id ad_volume ad_liquid_class ad_tip ad_forced_rack_type].
  repeat split; try assumption. intros ->. reflexivity.
Qed.

Lemma emit_wells_sim asp L k items : forall w1 w2, wl_sim w1 w2 ->
  (forall it, In it items -> well_index (lw_geom L) (fst it) <> None) ->
  (is_trough (lw_geom L) = true -> T (lw_name L) = true) ->
  wosim (emit_wells asp w1 L items k) (emit_wells asp w2 L items k).
Proof.
  induction items as [|[well x] rest IH]; intros w1 w2 Hw Hk Ht; [apply wosim_same; exact Hw|].
  cbn [emit_wells]. destruct (xpos x).
  2:{ apply IH; [exact Hw| |exact Ht]. intros it Hin. apply Hk. right. exact Hin. }
  destruct Hw as (H1 & H2 & H3 & H4 & H5 & H6).
  assert (Hw : wl_sim w1 w2) by (repeat split; assumption).
  rewrite H4, H5. cbn [device_position].
  destruct (positions_known (lw_geom L) well) as (p1 & p2 & E1 & E2 & Hp);
    [apply (Hk (well, x)); left; reflexivity|].
  rewrite E1, E2.
  assert (Hstep : forall (mk : adfields -> srec) (Hmk : forall f1 f2, ad_sim T f1 f2 -> rec_sim T (mk f1) (mk f2)),
    wosim (match (match prepare_ad (ad_of_kw (lw_name L) p1 (xq x) k) (Some (w_max w1)) with
                  | Ok f => (emit w1 [mk f], None) | Err e => (w1, Some e) end) with
           | (w', None) => emit_wells asp w' L rest k | (w', Some e) => (w', Some e) end)
          (match (match prepare_ad (ad_of_kw (lw_name L) p2 (xq x) k) (Some (w_max w2)) with
                  | Ok f => (emit w2 [mk f], None) | Err e => (w2, Some e) end) with
           | (w', None) => emit_wells asp w' L rest k | (w', Some e) => (w', Some e) end)).
  { intros mk Hmk. rewrite <- H1.
    pose proof (prepare_ad_positions (lw_name L) p1 p2 (xq x) k (Some (w_max w1))) as HP.
    destruct (prepare_ad (ad_of_kw (lw_name L) p1 (xq x) k) (Some (w_max w1))) as [f1|e1],
             (prepare_ad (ad_of_kw (lw_name L) p2 (xq x) k) (Some (w_max w1))) as [f2|e2];
      try contradiction.
    - apply IH; [|intros it Hin; apply Hk; right; exact Hin|exact Ht].
      apply emit_sim; [exact Hw|]. constructor; [|constructor].
      destruct HP as (Hn & A1 & A2 & A3 & A4 & A5 & A6 & A7 & A8 & Heq).
      destruct (is_trough (lw_geom L)) eqn:Etr.
      + apply Hmk. unfold ad_sim. rewrite Hn. repeat split; try assumption; try congruence.
        apply Ht. reflexivity.
      + rewrite (Heq (Hp eq_refl)). apply RS_eq.
    - subst e2. apply wosim_same. exact Hw. }
  destruct asp.
  - apply (Hstep RA). intros f1 f2 Hf. apply RS_A. exact Hf.
  - apply (Hstep RD). intros f1 f2 Hf. apply RS_D. exact Hf.
Qed.

(* ------------------------------------------------------------------ states *)

Lemma lsig_inv L L' : lsig L' = lsig L -> lw_name L' = lw_name L /\ lw_geom L' = lw_geom L.
Proof. unfold lsig. intro H. injection H as H1 H2. split; assumption. Qed.

Lemma ssim_set_lw s1 s2 k L L' : ssim s1 s2 -> nth_error (st_lw s1) k = Some L -> lsig L' = lsig L ->
  ssim (set_lw s1 k L') (set_lw s2 k L').
Proof.
  intros (H1 & H2 & H3) Hn Hl. unfold ssim, set_lw. cbn [st_lw st_wl].
  split; [rewrite H1; reflexivity|]. split; [|exact H3].
  rewrite (map_upd_same lsig _ k L L' Hn Hl). exact H2.
Qed.

Lemma ssim_set_wl s1 s2 w1 w2 : ssim s1 s2 -> wl_sim w1 w2 -> ssim (set_wl s1 w1) (set_wl s2 w2).
Proof. intros (H1 & H2 & H3) Hw. unfold ssim, set_wl. cbn [st_lw st_wl].
  split; [exact H1|split; [exact H2|exact Hw]].
Qed.

Lemma T_cover s1 s2 k L L' : ssim s1 s2 -> nth_error (st_lw s1) k = Some L -> lsig L' = lsig L ->
  is_trough (lw_geom L') = true -> T (lw_name L') = true.
Proof.
  intros (_ & H2 & _) Hn Hl Ht. apply (HT (lw_name L') (lw_geom L')); [|exact Ht].
  change (In (lsig L') S). rewrite Hl, <- H2. apply in_map. eapply nth_error_In. exact Hn.
Qed.

Lemma aspirate_sim s1 s2 k wells vols label kw : ssim s1 s2 ->
  osim (aspirate s1 k wells vols label kw) (aspirate s2 k wells vols label kw).
Proof.
  intro H. pose proof H as (Hlw & HS & Hw). unfold aspirate. rewrite <- Hlw.
  destruct (nth_error (st_lw s1) k) as [L|] eqn:EL; [|apply osim_same; exact H].
  destruct (wells_vols wells vols) as [ws vs].
  pose proof (remove_lsig L (A1 ws) (A1 vs) label) as Hsig.
  destruct (remove L (A1 ws) (A1 vs) label) as [L' [e|]] eqn:Er; cbn [fst] in Hsig.
  - apply osim_same. eapply ssim_set_lw; eassumption.
  - pose proof (ssim_set_lw _ _ k L L' H EL Hsig) as H1. cbv zeta.
    change (st_wl (set_lw s1 k L')) with (st_wl s1). change (st_wl (set_lw s2 k L')) with (st_wl s2).
    destruct (comment_sim _ _ label Hw) as [Hc He].
    destruct (comment (st_wl s1) label) as [w1 e1], (comment (st_wl s2) label) as [w2 e2].
    cbn [fst snd] in Hc, He. subst e2. destruct e1 as [e|].
    + apply osim_same. apply ssim_set_wl; assumption.
    + assert (HE : wosim (emit_wells true w1 L' (zip ws vs) kw) (emit_wells true w2 L' (zip ws vs) kw)).
      { apply emit_wells_sim; [exact Hc| |].
        - intros [w x] Hin. cbn [fst]. apply zip_In in Hin.
          destruct (lsig_inv _ _ Hsig) as [_ Hg]. rewrite Hg.
          eapply remove_known; [exact Er|]. cbn [flattenF]. apply Hin.
        - exact (T_cover _ _ _ _ _ H EL Hsig). }
      destruct HE as [HE1 HE2].
      destruct (emit_wells true w1 L' (zip ws vs) kw) as [w1' e1'],
               (emit_wells true w2 L' (zip ws vs) kw) as [w2' e2'].
      cbn [fst snd] in HE1, HE2. subst e2'. apply osim_same. apply ssim_set_wl; assumption.
Qed.

Lemma dispense_sim s1 s2 k wells vols label comps kw : ssim s1 s2 ->
  osim (dispense s1 k wells vols label comps kw) (dispense s2 k wells vols label comps kw).
Proof.
  intro H. pose proof H as (Hlw & HS & Hw). unfold dispense. rewrite <- Hlw.
  destruct (nth_error (st_lw s1) k) as [L|] eqn:EL; [|apply osim_same; exact H].
  destruct (wells_vols wells vols) as [ws vs].
  pose proof (add_lsig L (A1 ws) (A1 vs) label comps) as Hsig.
  destruct (add L (A1 ws) (A1 vs) label comps) as [L' [e|]] eqn:Er; cbn [fst] in Hsig.
  - apply osim_same. eapply ssim_set_lw; eassumption.
  - pose proof (ssim_set_lw _ _ k L L' H EL Hsig) as H1. cbv zeta.
    change (st_wl (set_lw s1 k L')) with (st_wl s1). change (st_wl (set_lw s2 k L')) with (st_wl s2).
    destruct (comment_sim _ _ label Hw) as [Hc He].
    destruct (comment (st_wl s1) label) as [w1 e1], (comment (st_wl s2) label) as [w2 e2].
    cbn [fst snd] in Hc, He. subst e2. destruct e1 as [e|].
    + apply osim_same. apply ssim_set_wl; assumption.
    + assert (HE : wosim (emit_wells false w1 L' (zip ws vs) kw) (emit_wells false w2 L' (zip ws vs) kw)).
      { apply emit_wells_sim; [exact Hc| |].
        - intros [w x] Hin. cbn [fst]. apply zip_In in Hin.
          destruct (lsig_inv _ _ Hsig) as [_ Hg]. rewrite Hg.
          eapply add_known; [exact Er|]. cbn [flattenF]. apply Hin.
        - exact (T_cover _ _ _ _ _ H EL Hsig). }
      destruct HE as [HE1 HE2].
      destruct (emit_wells false w1 L' (zip ws vs) kw) as [w1' e1'],
               (emit_wells false w2 L' (zip ws vs) kw) as [w2' e2'].
      cbn [fst snd] in HE1, HE2. subst e2'. apply osim_same. apply ssim_set_wl; assumption.
Qed.

Lemma tip_action_sim w1 w2 ws : wl_sim w1 w2 -> ws <> SNone ->
  wosim (tip_action w1 ws) (tip_action w2 ws).
Proof.
  intros H Hn. destruct ws as [z| | | |]; cbn [tip_action].
  - apply wash_sim; exact H.
  - apply flush_sim; exact H.
  - apply wosim_same; exact H.
  - congruence.
  - apply wash_sim; exact H.
Qed.

Lemma exec_step_sim s1 s2 ks kd sw dw v ws kw : ssim s1 s2 -> ws <> SNone ->
  osim (exec_step s1 ks kd sw dw v ws kw) (exec_step s2 ks kd sw dw v ws kw).
Proof.
  intros H Hn. unfold exec_step.
  destruct (aspirate_sim s1 s2 ks (A0 sw) (A0 (XQ v)) None kw H) as [Ha He].
  destruct (aspirate s1 ks (A0 sw) (A0 (XQ v)) None kw) as [s1a e1],
           (aspirate s2 ks (A0 sw) (A0 (XQ v)) None kw) as [s2a e2].
  cbn [fst snd] in Ha, He. subst e2. destruct e1 as [e|]; [apply osim_same; exact Ha|].
  pose proof Ha as (Hlw & _ & _). rewrite <- Hlw.
  destruct (nth_error (st_lw s1a) ks) as [Ls|]; [|apply osim_same; exact Ha].
  destruct (get_well_composition Ls sw) as [c|e]; [|apply osim_same; exact Ha].
  destruct (dispense_sim s1a s2a kd (A0 dw) (A0 (XQ v)) None (Some [Some c]) kw Ha) as [Hd He].
  destruct (dispense s1a kd (A0 dw) (A0 (XQ v)) None (Some [Some c]) kw) as [s1d e1],
           (dispense s2a kd (A0 dw) (A0 (XQ v)) None (Some [Some c]) kw) as [s2d e2].
  cbn [fst snd] in Hd, He. subst e2. destruct e1 as [e|]; [apply osim_same; exact Hd|].
  pose proof Hd as (_ & _ & Hw).
  destruct (tip_action_sim _ _ ws Hw Hn) as [Ht He].
  destruct (tip_action (st_wl s1d) ws) as [w1 e1], (tip_action (st_wl s2d) ws) as [w2 e2].
  cbn [fst snd] in Ht, He. subst e2. apply osim_same. apply ssim_set_wl; assumption.
Qed.

Lemma exec_sim ks kd ws kw acts : ws <> SNone -> forall s1 s2, ssim s1 s2 ->
  osim (exec s1 ks kd acts ws kw) (exec s2 ks kd acts ws kw).
Proof.
  intro Hn. induction acts as [|a rest IH]; intros s1 s2 H; cbn [exec]; [apply osim_same; exact H|].
  destruct a as [sw dw v|].
  - destruct (exec_step_sim s1 s2 ks kd sw dw v ws kw H Hn) as [Hs He].
    destruct (exec_step s1 ks kd sw dw v ws kw) as [s1' e1], (exec_step s2 ks kd sw dw v ws kw) as [s2' e2].
    cbn [fst snd] in Hs, He. subst e2.
    destruct e1 as [e|]; [apply osim_same; exact Hs|apply IH; exact Hs].
  - apply IH. pose proof H as (_ & _ & Hw). apply ssim_set_wl; [exact H|].
    apply (proj1 (commit_sim _ _ Hw)).
Qed.

Lemma condense_at_sim s1 s2 k n label : ssim s1 s2 ->
  ssim (condense_at s1 k n label) (condense_at s2 k n label).
Proof.
  intro H. pose proof H as (Hlw & _ & _). unfold condense_at. rewrite <- Hlw.
  destruct (nth_error (st_lw s1) k) as [L|] eqn:E; [|exact H].
  eapply ssim_set_lw; [exact H|exact E|apply condense_log_lsig].
Qed.

Lemma transfer_sim s1 s2 ks sw kd dw vols label ws pb kw : ssim s1 s2 -> ws <> SNone ->
  osim (transfer s1 ks sw kd dw vols label ws pb kw) (transfer s2 ks sw kd dw vols label ws pb kw).
Proof.
  intros H Hn. pose proof H as (Hlw & HS & Hw).
  pose proof Hw as (Hmax & Hauto & Hdi & Hd1 & Hd2 & Hrecs).
  unfold transfer. rewrite Hd1, Hd2, <- Hlw. cbv beta iota zeta.
  destruct (nth_error (st_lw s1) ks) as [Ls|]; [|apply osim_same; exact H].
  destruct (nth_error (st_lw s1) kd) as [Ld|]; [|apply osim_same; exact H].
  repeat (match goal with
          | |- osim (if ?b then _ else _) (if ?b then _ else _) => destruct b; [apply osim_same; exact H|]
          end).
  match goal with
  | |- osim (match ?x with _ => _ end) _ => destruct x as [mode|e]; [|apply osim_same; exact H]
  end.
  destruct (comment_sim _ _ label Hw) as [Hc He].
  destruct (comment (st_wl s1) label) as [w1 e1], (comment (st_wl s2) label) as [w2 e2].
  cbn [fst snd] in Hc, He. subst e2.
  destruct e1 as [e|]; [apply osim_same; apply ssim_set_wl; assumption|].
  pose proof Hc as (Hmax' & Hauto' & _). rewrite <- Hmax', <- Hauto'.
  match goal with |- context [plan ?a ?m ?md ?tr] => set (acts := plan a m md tr) end.
  destruct (exec_sim ks kd ws kw acts Hn _ _ (ssim_set_wl _ _ _ _ H Hc)) as [Hx He].
  destruct (exec (set_wl s1 w1) ks kd acts ws kw) as [s1' e1], (exec (set_wl s2 w2) ks kd acts ws kw) as [s2' e2].
  cbn [fst snd] in Hx, He. subst e2.
  destruct e1 as [e|]; [apply osim_same; exact Hx|].
  destruct (ks =? kd); apply osim_same; repeat apply condense_at_sim; exact Hx.
Qed.

(* ------------------------------------------------------------------ reagent_distribution, distribute *)

Ltac wboth Hw :=
  match goal with
  | |- wosim (match ?x with _ => _ end) (match ?x with _ => _ end) =>
      destruct x eqn:?; try (apply wosim_same; exact Hw)
  end.

Lemma reagent_distribution_same w1 w2 a : wl_sim w1 w2 ->
  wosim (reagent_distribution w1 a) (reagent_distribution w2 a).
Proof.
  intro Hw. unfold reagent_distribution. rewrite <- (proj1 Hw). cbv zeta.
  repeat wboth Hw. apply wosim_same. apply emit_sim_same. exact Hw.
Qed.

(** two calls that differ in the destination range and the exclusion list only *)
Lemma reagent_distribution_sim w1 w2 a1 a2 ds1 de1 ex1 ds2 de2 ex2 :
  wl_sim w1 w2 ->
  rd_src_label a1 = rd_src_label a2 -> rd_src_start a1 = rd_src_start a2 -> rd_src_end a1 = rd_src_end a2 ->
  rd_dst_label a1 = rd_dst_label a2 -> rd_volume a1 = rd_volume a2 ->
  rd_diti_reuse a1 = rd_diti_reuse a2 -> rd_multi_disp a1 = rd_multi_disp a2 ->
  rd_liquid_class a1 = rd_liquid_class a2 -> rd_direction a1 = rd_direction a2 ->
  rd_src_id a1 = rd_src_id a2 -> rd_src_type a1 = rd_src_type a2 ->
  rd_dst_id a1 = rd_dst_id a2 -> rd_dst_type a1 = rd_dst_type a2 ->
  rd_dst_start a1 = PInt ds1 -> rd_dst_end a1 = PInt de1 -> rd_exclude a1 = Some ex1 ->
  rd_dst_start a2 = PInt ds2 -> rd_dst_end a2 = PInt de2 -> rd_exclude a2 = Some ex2 ->
  (0 <= ds1)%Z -> (0 <= de1)%Z -> (0 <= ds2)%Z -> (0 <= de2)%Z ->
  (forall x, In x ex1 -> (ds1 <= x <= de1)%Z) -> (forall x, In x ex2 -> (ds2 <= x <= de2)%Z) ->
  ((forall n, rd_dst_label a1 = PStr n -> T n = true) \/ (ds1 = ds2 /\ de1 = de2 /\ ex1 = ex2)) ->
  wosim (reagent_distribution w1 a1) (reagent_distribution w2 a2).
Proof.
  intros Hw E1 E2 E3 E4 E5 E6 E7 E8 E9 E10 E11 E12 E13 S1 S2 S3 S4 S5 S6 N1 N2 N3 N4 R1 R2 HD.
  unfold reagent_distribution.
  rewrite <- E1, <- E2, <- E3, <- E4, <- E5, <- E6, <- E7, <- E8, <- E9, <- E10, <- E11, <- E12, <- E13.
  rewrite S1, S2, S3, S4, S5, S6, <- (proj1 Hw).
  rewrite !check_position_nonneg by assumption.
  rewrite (excl_check_false _ _ _ R1), (excl_check_false _ _ _ R2). cbv zeta.
  repeat wboth Hw.
  apply wosim_same. apply emit_sim; [exact Hw|]. constructor; [|constructor].
  apply RS_R. unfold r_sim.
  cbn [r_src_label r_src_id r_src_type r_src_start r_src_end r_dst_label r_dst_id r_dst_type r_dst_start
       r_dst_end r_volume r_liquid_class r_diti_reuse r_multi_disp r_direction r_exclude].
  repeat (split; [reflexivity|]). split; [right; split; reflexivity|].
  destruct HD as [HD|(-> & -> & ->)]; [left|right; repeat split].
  apply HD. eapply text_ok_PStr. eassumption.
Qed.

Lemma distribute_sim s1 s2 ks kd dwells a : ssim s1 s2 ->
  osim (distribute s1 ks kd dwells a) (distribute s2 ks kd dwells a).
Proof.
  intro H. pose proof H as (Hlw & HS & Hw).
  pose proof Hw as (Hmax & Hauto & Hdi & Hd1 & Hd2 & Hrecs).
  unfold distribute. rewrite <- Hlw. cbv zeta.
  destruct (nth_error (st_lw s1) ks) as [Ls|] eqn:ELs; [|apply osim_same; exact H].
  destruct (nth_error (st_lw s1) kd) as [Ld|] eqn:ELd; [|apply osim_same; exact H].
  destruct (g_vrows (lw_geom Ls)) as [v|]; [|apply osim_same; exact H].
  destruct (rvol_x (d_volume a)) as [xv|]; [|apply osim_same; exact H].
  rewrite <- Hmax, Hd1, Hd2.
  destruct (existsb (fun x => match lw_index Ld x with None => true | Some _ => false end) (flattenF dwells))
    eqn:Eu.
  { destruct xv as [q| | |]; try (apply osim_same; exact H).
    destruct (Qgtb q (w_max (st_wl s1))); apply osim_same; exact H. }
  assert (Hk : forall w, In w (flattenF dwells) -> well_index (lw_geom Ld) w <> None).
  { intros w Hin. destruct (lw_index Ld w) as [i|] eqn:Ei; [eapply lw_index_known; exact Ei|].
    assert (Ht : existsb (fun x => match lw_index Ld x with None => true | Some _ => false end)
                         (flattenF dwells) = true)
      by (apply existsb_exists; exists w; split; [exact Hin|rewrite Ei; reflexivity]).
    congruence. }
  destruct (positions_of_known (lw_geom Ld) (flattenF dwells) Hk)
    as (ps1 & ps2 & P1 & P2 & L1 & L2 & Peq).
  rewrite P1.
  assert (Hdst : T (lw_name Ld) = true \/ ps1 = ps2).
  { destruct (is_trough (lw_geom Ld)) eqn:Et; [left|right; apply Peq; reflexivity].
    exact (T_cover _ _ _ _ _ H ELd eq_refl Et). }
  rewrite P2, L1, L2.
  destruct xv as [q| | |]; try (apply osim_same; exact H).
  1: destruct (Qgtb q (w_max (st_wl s1))); [apply osim_same; exact H|].
  all: destruct (sort_Z (map Z.of_nat ps1)) as [|p1 r1] eqn:Es1;
       [destruct (sort_Z (map Z.of_nat ps2)) as [|p2 r2] eqn:Es2; [apply osim_same; exact H|];
        exfalso; apply (f_equal (@length Z)) in Es1, Es2;
        rewrite sort_Z_length, map_length in Es1, Es2; cbn [length] in Es1, Es2; lia|].
  all: destruct (sort_Z (map Z.of_nat ps2)) as [|p2 r2] eqn:Es2;
       [exfalso; apply (f_equal (@length Z)) in Es1, Es2;
        rewrite sort_Z_length, map_length in Es1, Es2; cbn [length] in Es1, Es2; lia|].
  all: match goal with
       | |- osim (if ?b then _ else _) (if ?b then _ else _) => destruct b; [apply osim_same; exact H|]
       end.
  all: match goal with
       | |- context [remove ?L0 ?ws ?vs ?lab] =>
           pose proof (remove_lsig Ls ws vs lab) as Hsig;
           destruct (remove Ls ws vs lab) as [Ls' [e|]] eqn:Er; cbn [fst] in Hsig;
           [apply osim_same; eapply ssim_set_lw; eassumption|]
       end.
  all: pose proof (ssim_set_lw _ _ ks Ls Ls' H ELs Hsig) as H1.
  all: match goal with
       | |- osim (match ?x with _ => _ end) (match ?x with _ => _ end) =>
           destruct x as [c|e]; [|apply osim_same; exact H1]
       end.
  all: pose proof H1 as (Hlw1 & _ & _); rewrite <- Hlw1.
  all: destruct (nth_error (st_lw (set_lw s1 ks Ls')) kd) as [Ld1|] eqn:ELd1; [|apply osim_same; exact H1].
  all: match goal with
       | |- context [add ?L0 ?ws ?vs ?lab ?cs] =>
           pose proof (add_lsig Ld1 ws vs lab cs) as Hsig2;
           destruct (add Ld1 ws vs lab cs) as [Ld' [e|]] eqn:Ea; cbn [fst] in Hsig2;
           [apply osim_same; eapply ssim_set_lw; eassumption|]
       end.
  all: pose proof (ssim_set_lw _ _ kd Ld1 Ld' H1 ELd1 Hsig2) as H2.
  all: match goal with
       | |- osim (match comment (st_wl ?A) _ with _ => _ end) (match comment (st_wl ?B) _ with _ => _ end) =>
           set (t1 := A); set (t2 := B);
           assert (H3 : ssim t1 t2) by (subst t1 t2; destruct (ks =? kd)%nat; [apply condense_at_sim|]; exact H2);
           clearbody t1 t2
       end.
  all: pose proof H3 as (_ & _ & Hw3).
  all: destruct (comment_sim _ _ (d_label a) Hw3) as [Hc He];
       destruct (comment (st_wl t1) (d_label a)) as [w1 e1], (comment (st_wl t2) (d_label a)) as [w2 e2];
       cbn [fst snd] in Hc, He; subst e2;
       destruct e1 as [e|]; [apply osim_same; apply ssim_set_wl; assumption|].
  all: match goal with
       | |- osim (match reagent_distribution _ ?a1 with _ => _ end)
                 (match reagent_distribution _ ?a2 with _ => _ end) =>
           assert (HR : wosim (reagent_distribution w1 a1) (reagent_distribution w2 a2));
           [|destruct HR as [HR1 HR2];
             destruct (reagent_distribution w1 a1) as [w1' e1'], (reagent_distribution w2 a2) as [w2' e2'];
             cbn [fst snd] in HR1, HR2; subst e2'; apply osim_same; apply ssim_set_wl; assumption]
       end.
  all: eapply (reagent_distribution_sim w1 w2 _ _ p1 (last (p1 :: r1) p1) (excl_of p1 (p1 :: r1))
                                         p2 (last (p2 :: r2) p2) (excl_of p2 (p2 :: r2)));
       try reflexivity; try exact Hc.
  all: try (apply (sorted_positions_nonneg ps1); rewrite Es1; first [left; reflexivity | apply last_In; discriminate]).
  all: try (apply (sorted_positions_nonneg ps2); rewrite Es2; first [left; reflexivity | apply last_In; discriminate]).
  all: try apply excl_of_range.
  all: destruct Hdst as [Hdst|Hdst];
       [left; cbn [rd_dst_label]; intros n Hn; injection Hn as <-; exact Hdst
       |right; subst ps2; rewrite Es1 in Es2; injection Es2 as <- <-; repeat split].
Qed.

(* ------------------------------------------------------------------ steps and programs *)

Lemma on_wl_sim s1 s2 f : ssim s1 s2 -> (forall w1 w2, wl_sim w1 w2 -> wosim (f w1) (f w2)) ->
  osim (on_wl s1 f) (on_wl s2 f).
Proof.
  intros H Hf. pose proof H as (_ & _ & Hw). unfold on_wl. destruct (Hf _ _ Hw) as [H1 H2].
  destruct (f (st_wl s1)) as [w1 e1], (f (st_wl s2)) as [w2 e2]. cbn [fst snd] in H1, H2. subst e2.
  apply osim_same. apply ssim_set_wl; assumption.
Qed.

Lemma on_lw_sim s1 s2 k f : ssim s1 s2 -> (forall L, lsig (fst (f L)) = lsig L) ->
  osim (on_lw s1 k f) (on_lw s2 k f).
Proof.
  intros H Hf. pose proof H as (Hlw & _ & _). unfold on_lw. rewrite <- Hlw.
  destruct (nth_error (st_lw s1) k) as [L|] eqn:E; [|apply osim_same; exact H].
  pose proof (Hf L) as HL. destruct (f L) as [L' e]. cbn [fst] in HL.
  apply osim_same. eapply ssim_set_lw; eassumption.
Qed.

Lemma step_sim s1 s2 o : ssim s1 s2 -> dev_indep o ->
  osim (step s1 o) (step s2 o).
Proof.
  intros H Hi. destruct o; cbn [step]; cbn [dev_indep] in Hi; try contradiction.
  - apply on_lw_sim; [exact H|]. intro L. apply add_lsig.
  - apply on_lw_sim; [exact H|]. intro L. apply remove_lsig.
  - apply on_lw_sim; [exact H|]. intro L. apply condense_log_lsig.
  - apply aspirate_sim. exact H.
  - apply dispense_sim. exact H.
  - apply transfer_sim; assumption.
  - apply distribute_sim. exact H.
  - apply on_wl_sim; [exact H|]. intros w1 w2 Hw. apply comment_sim. exact Hw.
  - apply on_wl_sim; [exact H|]. intros w1 w2 Hw. apply wash_sim. exact Hw.
  - apply on_wl_sim; [exact H|]. exact decontaminate_sim.
  - apply on_wl_sim; [exact H|]. exact flush_sim.
  - apply on_wl_sim; [exact H|]. exact commit_sim.
  - apply on_wl_sim; [exact H|]. intros w1 w2 Hw. apply set_diti_sim. exact Hw.
  - apply on_wl_sim; [exact H|]. intros w1 w2 Hw. apply aspirate_well_sim. exact Hw.
  - apply on_wl_sim; [exact H|]. intros w1 w2 Hw. apply dispense_well_sim. exact Hw.
  - apply on_wl_sim; [exact H|]. intros w1 w2 Hw. apply reagent_distribution_same. exact Hw.
Qed.

Lemma run_sim ops : forall s1 s2, ssim s1 s2 -> Forall dev_indep ops ->
  ssim (fst (run s1 ops)) (fst (run s2 ops)) /\ snd (run s1 ops) = snd (run s2 ops).
Proof.
  induction ops as [|o r IH]; intros s1 s2 H Hi; cbn [run]; [split; [exact H|reflexivity]|].
  inversion Hi as [|o' r' Hi1 Hi2]; subst.
  destruct (step_sim s1 s2 o H Hi1) as [Hs He].
  destruct (step s1 o) as [s1' e1], (step s2 o) as [s2' e2]. cbn [fst snd] in Hs, He. subst e2.
  destruct (IH s1' s2' Hs Hi2) as [Hr He].
  destruct (run s1' r) as [s1'' es1], (run s2' r) as [s2'' es2]. cbn [fst snd] in *.
  split; [exact Hr|congruence].
Qed.

End Sim.

(* ================================================================== the statements of C16 *)

Lemma troughs_of_cover lws n g : In (n, g) (map lsig lws) -> is_trough g = true -> troughs_of lws n = true.
Proof.
  intros Hin Ht. apply in_map_iff in Hin. destruct Hin as (L & HL & Hin).
  unfold lsig in HL. injection HL as <- <-.
  unfold troughs_of. apply existsb_exists. exists L. split; [exact Hin|].
  rewrite String.eqb_refl, Ht. reflexivity.
Qed.

Lemma troughs_of_sig l : forall l' n, map lsig l = map lsig l' -> troughs_of l n = troughs_of l' n.
Proof.
  induction l as [|L r IH]; intros [|L' r'] n H; cbn [map] in H; try discriminate; [reflexivity|].
  injection H as Hn Hg H2.
  unfold troughs_of. cbn [existsb]. fold (troughs_of r n). fold (troughs_of r' n).
  rewrite (IH r' n H2), Hn, Hg. reflexivity.
Qed.

(** with distinct names, [troughs_of] says whether THE labware of that name is a trough *)
Lemma troughs_of_spec lws L : NoDup (map lw_name lws) -> In L lws ->
  troughs_of lws (lw_name L) = is_trough (lw_geom L).
Proof.
  induction lws as [|L0 r IH]; intros Hnd Hin; [contradiction|].
  cbn [map] in Hnd. inversion Hnd as [|x l Hx Hr]; subst.
  unfold troughs_of. cbn [existsb]. fold (troughs_of r (lw_name L)).
  destruct Hin as [->|Hin].
  - rewrite String.eqb_refl. cbn [andb].
    destruct (troughs_of r (lw_name L)) eqn:E; [|apply orb_false_r].
    exfalso. apply Hx. unfold troughs_of in E. apply existsb_exists in E.
    destruct E as (L1 & Hin1 & Hb). apply andb_true_iff in Hb. destruct Hb as [Hb _].
    apply String.eqb_eq in Hb. rewrite <- Hb. apply in_map. exact Hin1.
  - destruct (String.eqb (lw_name L0) (lw_name L)) eqn:E.
    + exfalso. apply Hx. apply String.eqb_eq in E. rewrite E. apply in_map. exact Hin.
    + cbn [andb orb]. apply IH; assumption.
Qed.

Lemma state_sim_ssim s1 s2 : state_sim s1 s2 ->
  ssim (troughs_of (st_lw s1)) (map lsig (st_lw s1)) s1 s2.
Proof.
  intros (H1 & H2 & H3 & H4 & H5 & H6 & H7). unfold ssim, wl_sim. repeat split; assumption.
Qed.

Lemma ssim_state_sim lws s1 s2 : ssim (troughs_of lws) (map lsig lws) s1 s2 -> state_sim s1 s2.
Proof.
  intros (H1 & HS & (H2 & H3 & H4 & H5 & H6 & H7)). unfold state_sim. repeat split; try assumption.
  eapply Forall2_mono; [|exact H7]. intros r1 r2 Hr. eapply rec_sim_mono; [|exact Hr].
  intros n Hn. rewrite <- Hn. apply troughs_of_sig. exact HS.
Qed.

Lemma step_state_sim s1 s2 o : state_sim s1 s2 -> dev_indep o ->
  let '(s1', e1) := step s1 o in let '(s2', e2) := step s2 o in
  state_sim s1' s2' /\ e1 = e2 /\ map lsig (st_lw s1') = map lsig (st_lw s1).
Proof.
  intros H Hi.
  destruct (step_sim _ _ (troughs_of_cover (st_lw s1)) s1 s2 o (state_sim_ssim _ _ H) Hi) as [Hs He].
  destruct (step s1 o) as [s1' e1], (step s2 o) as [s2' e2]. cbn [fst snd] in Hs, He.
  split; [eapply ssim_state_sim; exact Hs|]. split; [exact He|]. apply Hs.
Qed.

Lemma run_state_sim ops s1 s2 : state_sim s1 s2 -> Forall dev_indep ops ->
  let '(s1', es1) := run s1 ops in let '(s2', es2) := run s2 ops in
  state_sim s1' s2' /\ es1 = es2 /\ map lsig (st_lw s1') = map lsig (st_lw s1).
Proof.
  intros H Hi.
  destruct (run_sim _ _ (troughs_of_cover (st_lw s1)) ops s1 s2 (state_sim_ssim _ _ H) Hi) as [Hs He].
  destruct (run s1 ops) as [s1' es1], (run s2 ops) as [s2' es2]. cbn [fst snd] in Hs, He.
  split; [eapply ssim_state_sim; exact Hs|]. split; [exact He|]. apply Hs.
Qed.

Lemma init_state_sim lws m a d :
  state_sim {| st_lw := lws; st_wl := init_wl Evo m a d |} {| st_lw := lws; st_wl := init_wl Fluent m a d |}.
Proof. unfold state_sim, init_wl. cbn. repeat split. constructor. Qed.

Lemma no_trough_false lws : (forall L, In L lws -> is_trough (lw_geom L) = false) ->
  forall n, troughs_of lws n = false.
Proof.
  intros H n. unfold troughs_of. destruct (existsb _ lws) eqn:E; [|reflexivity].
  apply existsb_exists in E. destruct E as (L & Hin & Hb). rewrite (H L Hin), andb_false_r in Hb. discriminate.
Qed.

Lemma no_trough_identical s1 s2 : state_sim s1 s2 ->
  (forall L, In L (st_lw s1) -> is_trough (lw_geom L) = false) ->
  w_recs (st_wl s1) = w_recs (st_wl s2).
Proof.
  intros (_ & _ & _ & _ & _ & _ & H) Hn. apply Forall2_eq.
  eapply Forall2_mono; [|exact H]. intros r1 r2 Hr.
  eapply rec_sim_no_trough; [|exact Hr]. apply no_trough_false. exact Hn.
Qed.

Lemma no_trough_sig l l' : map lsig l = map lsig l' ->
  (forall L, In L l -> is_trough (lw_geom L) = false) -> forall L, In L l' -> is_trough (lw_geom L) = false.
Proof.
  intros Hs H L' Hin. apply (in_map lsig) in Hin. rewrite <- Hs in Hin.
  apply in_map_iff in Hin. destruct Hin as (L & HL & Hin). destruct (lsig_inv _ _ (eq_sym HL)) as [_ Hg].
  rewrite Hg. apply H. exact Hin.
Qed.

Lemma run_no_trough_identical ops s1 s2 : state_sim s1 s2 -> Forall dev_indep ops ->
  (forall L, In L (st_lw s1) -> is_trough (lw_geom L) = false) ->
  w_recs (st_wl (fst (run s1 ops))) = w_recs (st_wl (fst (run s2 ops))) /\
  st_lw (fst (run s1 ops)) = st_lw (fst (run s2 ops)) /\
  snd (run s1 ops) = snd (run s2 ops).
Proof.
  intros H Hi Hn. pose proof (run_state_sim ops s1 s2 H Hi) as HR.
  destruct (run s1 ops) as [s1' es1], (run s2 ops) as [s2' es2]. cbn [fst snd].
  destruct HR as (Hs & He & Hsig). split; [|split; [apply Hs|exact He]].
  apply no_trough_identical; [exact Hs|]. eapply no_trough_sig; [symmetry; exact Hsig|exact Hn].
Qed.

(** from the two empty worklists: equal labware, equal outcomes, records related w.r.t. the troughs of
    the initial labware list *)
Lemma run_init_sim lws m a d ops : Forall dev_indep ops ->
  let r1 := run {| st_lw := lws; st_wl := init_wl Evo m a d |} ops in
  let r2 := run {| st_lw := lws; st_wl := init_wl Fluent m a d |} ops in
  st_lw (fst r1) = st_lw (fst r2) /\ snd r1 = snd r2 /\
  Forall2 (rec_sim (troughs_of lws)) (w_recs (st_wl (fst r1))) (w_recs (st_wl (fst r2))).
Proof.
  intro Hi. cbv zeta.
  pose proof (run_state_sim ops _ _ (init_state_sim lws m a d) Hi) as HR.
  destruct (run {| st_lw := lws; st_wl := init_wl Evo m a d |} ops) as [s1' es1],
           (run {| st_lw := lws; st_wl := init_wl Fluent m a d |} ops) as [s2' es2].
  cbn [fst snd st_lw] in *. destruct HR as (Hs & He & Hsig).
  destruct Hs as (H1 & _ & _ & _ & _ & _ & H7). split; [exact H1|]. split; [exact He|].
  eapply Forall2_mono; [|exact H7]. intros r1 r2 Hr. eapply rec_sim_mono; [|exact Hr].
  intros n Hn. rewrite <- Hn. symmetry. apply troughs_of_sig. exact Hsig.
Qed.

(* ================================================================== concrete objects for the examples *)

#[local] Open Scope string_scope.

(** a trough with 4 virtual rows and 2 columns; a 2 x 3 plate *)
Definition ex16_trough : labware :=
  {| lw_name := "trough"; lw_geom := {| g_rows := 1; g_cols := 2; g_vrows := Some 4 |};
     lw_min := 1000; lw_max := 30000; lw_vols := [20000; 5000]%Q;
     lw_comp := [("water", [1; 0]%Q); ("buffer", [0; 1]%Q)];
     lw_hist := [(Some "initial", [20000; 5000]%Q)] |}.
Definition ex16_plate : labware :=
  {| lw_name := "plate"; lw_geom := {| g_rows := 2; g_cols := 3; g_vrows := None |};
     lw_min := 10; lw_max := 300; lw_vols := [50; 50; 50; 50; 50; 50]%Q; lw_comp := [];
     lw_hist := [(Some "initial", [50; 50; 50; 50; 50; 50]%Q)] |}.
Definition ex16_state (d : device) : state :=
  {| st_lw := [ex16_trough; ex16_plate]; st_wl := init_wl d 100 true false |}.
Definition ex16_dist (v : Z) : distargs :=
  {| d_source_column := 1; d_volume := RVInt v; d_diti_reuse := 1; d_multi_disp := 1;
     d_liquid_class := PStr "W"; d_label := Some "dist"; d_direction := "left_to_right";
     d_src_id := PStr ""; d_src_type := PStr ""; d_dst_id := PStr ""; d_dst_type := PStr "" |}.
(** a transfer out of the trough with a volume that is split, a distribute, an aspirate above the
    worklist's max_volume (rejected after the removal and the comment), an aspirate whose second well
    would fall below min_volume (rejected after the first well has been removed) *)
Definition ex16_prog : list op :=
  [OTransfer 0 (A1 ["A01"; "C01"]) 1 (A1 ["A01"; "B01"]) (A1 [150; 30]%Q) (Some "t") (SInt 1) "auto" kw_default;
   ODistribute 0 1 (A1 ["A02"; "B03"]) (ex16_dist 20);
   OAspirate 0 (A1 ["A02"; "D02"]) (A1 [XQ 1000; XQ 2500]) (Some "too much") kw_default;
   OAspirate 0 (A1 ["A02"; "D02"]) (A1 [XQ 60; XQ 500]) (Some "too low") kw_default].

Lemma ex16_wf d : wf_state (ex16_state d).
Proof.
  constructor; [|constructor; [|constructor]];
    unfold wf_labware, wf_shape, wf_geom, vol_inv, ex16_trough, ex16_plate, n_wells;
    cbn [lw_geom lw_vols lw_comp lw_hist lw_min lw_max g_rows g_cols g_vrows length snd];
    repeat split; try lia; try (apply Qlt_alt; reflexivity); try (apply Qle_bool_iff; reflexivity);
    try discriminate; repeat constructor; try (apply Qle_bool_iff; reflexivity).
Qed.

Lemma ex16_hyps :
  state_sim (ex16_state Evo) (ex16_state Fluent) /\
  Forall dev_indep ex16_prog /\
  wf_state (ex16_state Evo) /\ NoDup (map lw_name (st_lw (ex16_state Evo))).
Proof.
  split; [apply init_state_sim|]. split; [|split; [apply ex16_wf|]].
  - repeat constructor. discriminate.
  - cbn. repeat constructor; cbn; intuition discriminate.
Qed.

(** destination ids that are no ids of the destination labware (accepted by the Fluent numbering,
    refused by the EVO numbering) *)
Definition ex16_unknown_1 : op := ODistribute 0 1 (A1 ["AB01"]) (ex16_dist 20).
Definition ex16_unknown_2 : op := ODistribute 0 1 (A1 ("AB01" :: repeat "A01" 45)) (ex16_dist 90).
