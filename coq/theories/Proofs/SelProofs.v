(** Lemmas about the EVOware selection string (C12): the faithful loop [sel_codes] equals a
    chunk-wise encoder, which the independent decoder of Spec/SelDecode.v inverts. *)
From Robo Require Import Prelude Str EvoCmd SelDecode.

(* ------------------------------------------------------------------ chunk view of the encoder *)

(** value of a little-endian bit list *)
Fixpoint bits_val (l : list bool) : N :=
  match l with
  | [] => 0%N
  | b :: r => (N.b2n b + 2 * bits_val r)%N
  end.

Fixpoint chunks (fuel : nat) (l : list bool) : list (list bool) :=
  match fuel with
  | O => []
  | S f => match l with
           | [] => []
           | _ :: _ => firstn 7 l :: chunks f (skipn 7 l)
           end
  end.

Definition enc (ch : list bool) : N := (bits_val ch + 48)%N.
Definition encode_chunks (sel : list bool) : list N := map enc (chunks (length sel) sel).

Lemma chunks_nil f : chunks f [] = [].
Proof. destruct f as [|f]; reflexivity. Qed.

Lemma chunks_cons f l : l <> [] -> chunks (S f) l = firstn 7 l :: chunks f (skipn 7 l).
Proof. destruct l as [|b r]; [congruence|reflexivity]. Qed.

Lemma length_pos_nonnil {A} (l : list A) : l <> [] -> 0 < length l.
Proof. destruct l as [|a r]; [congruence|cbn [length]; lia]. Qed.

(* ------------------------------------------------------------------ bits_val arithmetic *)

Lemma bits_val_lt l : (bits_val l < 2 ^ N.of_nat (length l))%N.
Proof.
  induction l as [|b r IH]; cbn [bits_val length].
  - cbn. lia.
  - rewrite Nat2N.inj_succ, N.pow_succ_r'. destruct b; cbn [N.b2n]; lia.
Qed.

Lemma bits_val_app p q : bits_val (p ++ q) = (bits_val p + 2 ^ N.of_nat (length p) * bits_val q)%N.
Proof.
  induction p as [|b r IH]; cbn [app bits_val length].
  - change (2 ^ N.of_nat 0)%N with 1%N. lia.
  - rewrite IH, Nat2N.inj_succ, N.pow_succ_r'. ring.
Qed.

Lemma testbit_high a n : (a < 2 ^ n)%N -> N.testbit a n = false.
Proof.
  intro H. destruct (N.eq_dec a 0) as [->|Hne]; [apply N.bits_0|].
  apply N.bits_above_log2. apply N.log2_lt_pow2; [lia|exact H].
Qed.

Lemma lor_pow2_add a n : (a < 2 ^ n)%N -> N.lor a (N.shiftl 1 n) = (a + 2 ^ n)%N.
Proof.
  intro H. rewrite N.shiftl_1_l.
  assert (D : N.land a (2 ^ n) = 0%N).
  { apply N.bits_inj. intro k. rewrite N.land_spec, N.bits_0, N.pow2_bits_eqb.
    destruct (N.eqb_spec n k) as [<-|Hne].
    - rewrite testbit_high by exact H. reflexivity.
    - apply andb_false_r. }
  rewrite <- N.lxor_lor by exact D. symmetry. apply N.add_nocarry_lxor. exact D.
Qed.

Lemma bits_val_snoc p b :
  bits_val (p ++ [b]) =
  if b then N.lor (bits_val p) (N.shiftl 1 (N.of_nat (length p))) else bits_val p.
Proof.
  rewrite bits_val_app. cbn [bits_val]. destruct b; cbn [N.b2n].
  - rewrite lor_pow2_add by apply bits_val_lt. lia.
  - lia.
Qed.

(* ------------------------------------------------------------------ the loop, one chunk at a time *)

Definition finish (st : nat * N * list N) : list N :=
  let '(cnt, mask, out) := st in
  if 0 <? cnt then (out ++ [(mask + 48)%N]) else out.

Lemma sel_codes_finish sel : sel_codes sel = finish (fold_left sel_step sel (0, 0%N, [])).
Proof. reflexivity. Qed.

Lemma sel_step_keep p out b : length p < 6 ->
  sel_step (length p, bits_val p, out) b = (length (p ++ [b]), bits_val (p ++ [b]), out).
Proof.
  intro H. unfold sel_step.
  replace (6 <? S (length p)) with false by (symmetry; apply Nat.ltb_ge; lia).
  rewrite bits_val_snoc, app_length. cbn [length]. rewrite Nat.add_1_r. reflexivity.
Qed.

Lemma sel_step_flush p out b : length p = 6 ->
  sel_step (length p, bits_val p, out) b = (0, 0%N, out ++ [enc (p ++ [b])]).
Proof.
  intro H. unfold sel_step, enc.
  replace (6 <? S (length p)) with true by (symmetry; apply Nat.ltb_lt; lia).
  rewrite bits_val_snoc. reflexivity.
Qed.

(** fewer than seven wells pending: the state just accumulates them *)
Lemma loop_partial : forall c p out, length p + length c <= 6 ->
  fold_left sel_step c (length p, bits_val p, out) = (length (p ++ c), bits_val (p ++ c), out).
Proof.
  induction c as [|b c IH]; intros p out H.
  - rewrite app_nil_r. reflexivity.
  - cbn [length] in H. cbn [fold_left]. rewrite sel_step_keep by lia.
    rewrite IH by (rewrite app_length; cbn [length]; lia).
    rewrite <- app_assoc. reflexivity.
Qed.

(** the seventh well flushes one code *)
Lemma loop_full : forall c p out, c <> [] -> length p + length c = 7 ->
  fold_left sel_step c (length p, bits_val p, out) = (0, 0%N, out ++ [enc (p ++ c)]).
Proof.
  induction c as [|b c IH]; intros p out Hne H; [congruence|].
  cbn [length] in H. cbn [fold_left]. destruct c as [|b' c'].
  - cbn [length] in H. rewrite sel_step_flush by lia. reflexivity.
  - cbn [length] in H. rewrite sel_step_keep by lia.
    rewrite IH; [|discriminate|rewrite app_length; cbn [length]; lia].
    rewrite <- app_assoc. reflexivity.
Qed.

Lemma loop_chunks : forall fuel l out, length l <= fuel ->
  finish (fold_left sel_step l (0, 0%N, out)) = out ++ map enc (chunks fuel l).
Proof.
  induction fuel as [|f IH]; intros l out H.
  - destruct l as [|b r]; [|cbn [length] in H; lia]. cbn [fold_left finish chunks map].
    rewrite app_nil_r. reflexivity.
  - destruct l as [|b r] eqn:El.
    + cbn [fold_left finish chunks map]. rewrite app_nil_r. reflexivity.
    + rewrite <- El in *. assert (Hne : l <> []) by (rewrite El; discriminate).
      pose proof (length_pos_nonnil l Hne) as Hpos.
      rewrite chunks_cons by exact Hne. cbn [map].
      destruct (le_lt_dec (length l) 6) as [Hle|Hgt].
      * change (0, 0%N, out) with (length (@nil bool), bits_val [], out).
        rewrite loop_partial by (cbn [length]; lia). cbn [app finish].
        replace (0 <? length l) with true by (symmetry; apply Nat.ltb_lt; exact Hpos).
        rewrite (firstn_all2 l) by lia. rewrite (skipn_all2 l) by lia.
        rewrite chunks_nil. reflexivity.
      * rewrite <- (firstn_skipn 7 l) at 1. rewrite fold_left_app.
        assert (L7 : length (firstn 7 l) = 7) by (rewrite firstn_length; lia).
        change (0, 0%N, out) with (length (@nil bool), bits_val [], out).
        rewrite loop_full; [|intro E; rewrite E in L7; discriminate L7|cbn [length]; lia].
        cbn [app]. rewrite IH by (rewrite skipn_length; lia).
        rewrite <- app_assoc. reflexivity.
Qed.

(** the faithful loop is the chunk-wise encoder *)
Lemma sel_codes_chunks sel : sel_codes sel = encode_chunks sel.
Proof. rewrite sel_codes_finish. apply (loop_chunks (length sel) sel []). apply le_n. Qed.

(* ------------------------------------------------------------------ shape of the chunks *)

Lemma chunks_length : forall fuel l, length l <= fuel -> length (chunks fuel l) = (length l + 6) / 7.
Proof.
  induction fuel as [|f IH]; intros l H.
  - destruct l as [|b r]; [reflexivity|cbn [length] in H; lia].
  - destruct l as [|b r] eqn:El; [reflexivity|]. rewrite <- El in *.
    assert (Hne : l <> []) by (rewrite El; discriminate).
    pose proof (length_pos_nonnil l Hne) as Hpos.
    rewrite chunks_cons by exact Hne. cbn [length].
    rewrite IH by (rewrite skipn_length; lia). rewrite skipn_length.
    destruct (le_lt_dec (length l) 7) as [Hle|Hgt].
    + replace (length l - 7) with 0 by lia.
      change ((0 + 6) / 7) with 0. apply Nat.div_unique with (r := length l - 1); lia.
    + replace (length l + 6) with ((length l - 7 + 6) + 1 * 7) by lia.
      rewrite Nat.div_add by lia. lia.
Qed.

Lemma chunks_le7 : forall fuel l ch, In ch (chunks fuel l) -> length ch <= 7.
Proof.
  induction fuel as [|f IH]; intros l ch H; [destruct H|].
  destruct l as [|b r] eqn:El; [destruct H|]. rewrite <- El in *.
  rewrite chunks_cons in H by (rewrite El; discriminate). destruct H as [<-|H].
  - rewrite firstn_length. lia.
  - exact (IH _ _ H).
Qed.

Lemma sel_codes_length sel : length (sel_codes sel) = (length sel + 6) / 7.
Proof.
  rewrite sel_codes_chunks. unfold encode_chunks. rewrite map_length. apply chunks_length. apply le_n.
Qed.

Lemma sel_codes_range sel c : In c (sel_codes sel) -> (48 <= c < 176)%N.
Proof.
  rewrite sel_codes_chunks. unfold encode_chunks. rewrite in_map_iff.
  intros [ch [<- Hin]]. apply chunks_le7 in Hin. unfold enc.
  pose proof (bits_val_lt ch) as Hlt.
  assert (Hp : (2 ^ N.of_nat (length ch) <= 2 ^ 7)%N) by (apply N.pow_le_mono_r; lia).
  change (2 ^ 7)%N with 128%N in Hp. lia.
Qed.

(* ------------------------------------------------------------------ decoding *)

Lemma unbits_zero k : unbits k 0 = repeat false k.
Proof. induction k as [|k IH]; cbn [unbits repeat]; [reflexivity|]. f_equal. exact IH. Qed.

Lemma unbits_length k : forall n, length (unbits k n) = k.
Proof. induction k as [|k IH]; intro n; cbn [unbits length]; [reflexivity|]. rewrite IH. reflexivity. Qed.

Lemma bits_step b n : N.odd (N.b2n b + 2 * n) = b /\ N.div2 (N.b2n b + 2 * n) = n.
Proof.
  split.
  - rewrite N.odd_add_mul_2. destruct b; reflexivity.
  - rewrite N.div2_div. destruct b; cbn [N.b2n].
    + replace (1 + 2 * n)%N with (1 + n * 2)%N by lia. rewrite N.div_add by lia. reflexivity.
    + replace (0 + 2 * n)%N with (n * 2)%N by lia. apply N.div_mul. lia.
Qed.

Lemma unbits_bits_val : forall k l, length l <= k ->
  unbits k (bits_val l) = l ++ repeat false (k - length l).
Proof.
  induction k as [|k IH]; intros [|b r] H; cbn [length] in H.
  - reflexivity.
  - lia.
  - cbn [bits_val length app]. rewrite unbits_zero. f_equal; lia.
  - cbn [bits_val unbits length app]. destruct (bits_step b (bits_val r)) as [E1 E2].
    rewrite E1, E2. f_equal. rewrite IH by lia. f_equal.
Qed.

Lemma decode_all_cons c r : decode_all (c :: r) = unbits 7 (c - 48)%N ++ decode_all r.
Proof. reflexivity. Qed.

Lemma decode_all_length codes : length (decode_all codes) = 7 * length codes.
Proof.
  induction codes as [|c r IH]; [reflexivity|].
  rewrite decode_all_cons, app_length, unbits_length, IH. cbn [length]. lia.
Qed.

Lemma decode_all_chunks : forall fuel l, length l <= fuel ->
  decode_all (map enc (chunks fuel l)) = l ++ repeat false (7 * length (chunks fuel l) - length l).
Proof.
  induction fuel as [|f IH]; intros l H.
  - destruct l as [|b r]; [reflexivity|cbn [length] in H; lia].
  - destruct l as [|b r] eqn:El; [reflexivity|]. rewrite <- El in *.
    assert (Hne : l <> []) by (rewrite El; discriminate).
    rewrite chunks_cons by exact Hne. cbn [map length]. rewrite decode_all_cons.
    unfold enc at 1. rewrite N.add_sub.
    rewrite unbits_bits_val by (rewrite firstn_length; lia).
    destruct (le_lt_dec (length l) 7) as [Hle|Hgt].
    + rewrite (firstn_all2 l) by lia. rewrite (skipn_all2 l) by lia.
      rewrite chunks_nil. cbn [map length]. change (decode_all []) with (@nil bool).
      rewrite app_nil_r. f_equal; f_equal; lia.
    + assert (L7 : length (firstn 7 l) = 7) by (rewrite firstn_length; lia).
      rewrite L7. replace (7 - 7) with 0 by lia. cbn [repeat]. rewrite app_nil_r.
      rewrite IH by (rewrite skipn_length; lia). rewrite skipn_length.
      rewrite app_assoc, firstn_skipn. f_equal. f_equal. lia.
Qed.

Lemma decode_all_sel_codes sel :
  decode_all (sel_codes sel) = sel ++ repeat false (7 * length (sel_codes sel) - length sel).
Proof.
  rewrite sel_codes_chunks. unfold encode_chunks. rewrite map_length.
  apply decode_all_chunks. apply le_n.
Qed.

Lemma sel_codes_roundtrip sel : decode_codes (length sel) (sel_codes sel) = sel.
Proof.
  unfold decode_codes. rewrite decode_all_sel_codes.
  rewrite firstn_app, firstn_all, Nat.sub_diag. cbn [firstn]. apply app_nil_r.
Qed.

Lemma sel_codes_padding sel :
  decode_codes (7 * length (sel_codes sel)) (sel_codes sel) =
  sel ++ repeat false (7 * length (sel_codes sel) - length sel).
Proof.
  unfold decode_codes. rewrite <- decode_all_sel_codes.
  apply firstn_all2. rewrite decode_all_length. apply le_n.
Qed.

Lemma sel_codes_range_padding sel :
  (forall c, In c (sel_codes sel) -> (48 <= c < 176)%N) /\
  length sel <= 7 * length (sel_codes sel) < length sel + 7 /\
  decode_codes (7 * length (sel_codes sel)) (sel_codes sel) =
  sel ++ repeat false (7 * length (sel_codes sel) - length sel).
Proof.
  split; [exact (sel_codes_range sel)|]. split; [|exact (sel_codes_padding sel)].
  rewrite sel_codes_length.
  pose proof (Nat.div_mod (length sel + 6) 7) as Hd.
  pose proof (Nat.mod_upper_bound (length sel + 6) 7) as Hm. lia.
Qed.

Lemma sel_codes_injective sel sel' :
  length sel = length sel' -> sel_codes sel = sel_codes sel' -> sel = sel'.
Proof.
  intros Hl Hc. rewrite <- (sel_codes_roundtrip sel), <- (sel_codes_roundtrip sel'), Hl, Hc.
  reflexivity.
Qed.

(* ------------------------------------------------------------------ strings *)

Lemma string_length_append s t : String.length (s ++ t) = String.length s + String.length t.
Proof. induction s as [|a s IH]; cbn [append String.length]; [reflexivity|]. rewrite IH. reflexivity. Qed.

Lemma string_of_codes_length l : String.length (string_of_codes l) = length l.
Proof.
  induction l as [|c r IH]; cbn [string_of_codes fold_right String.length]; [reflexivity|].
  fold (string_of_codes r). rewrite IH. reflexivity.
Qed.

Lemma codes_of_string_of_codes l : (forall c, In c l -> (c < 256)%N) ->
  codes_of_string (string_of_codes l) = l.
Proof.
  induction l as [|c r IH]; intro H; cbn [string_of_codes fold_right codes_of_string]; [reflexivity|].
  fold (string_of_codes r). rewrite N_ascii_embedding by (apply H; left; reflexivity).
  rewrite IH by (intros c' Hc'; apply H; right; exact Hc'). reflexivity.
Qed.

(* ------------------------------------------------------------------ the hex header *)

Definition hex_ok (n : N) : bool :=
  (String.length (pad_left0_2 (to_hex n)) =? 2) &&
  match parse_hex2 (pad_left0_2 (to_hex n)) with Some m => (m =? n)%N | None => false end.

Lemma hex_ok_all : forallb (fun k => hex_ok (N.of_nat k)) (seq 0 256) = true.
Proof. vm_compute. reflexivity. Qed.

Lemma hex_header n : (n < 256)%N ->
  String.length (pad_left0_2 (to_hex n)) = 2 /\ parse_hex2 (pad_left0_2 (to_hex n)) = Some n.
Proof.
  intro H. pose proof hex_ok_all as A. rewrite forallb_forall in A.
  specialize (A (N.to_nat n)). rewrite N2Nat.id in A.
  assert (Hin : In (N.to_nat n) (seq 0 256)) by (apply in_seq; lia).
  apply A in Hin. unfold hex_ok in Hin. apply andb_true_iff in Hin. destruct Hin as [H1 H2].
  split; [apply Nat.eqb_eq; exact H1|].
  destruct (parse_hex2 (pad_left0_2 (to_hex n))) as [m|]; [|discriminate].
  apply N.eqb_eq in H2. rewrite H2. reflexivity.
Qed.

Lemma string_length2 s : String.length s = 2 -> exists a b, s = String a (String b EmptyString).
Proof.
  destruct s as [|a [|b [|c r]]]; cbn [String.length]; intro H; try discriminate.
  exists a, b. reflexivity.
Qed.

(* ------------------------------------------------------------------ the whole string *)

Lemma evo_get_selection_length rows cols sel : rows < 256 -> cols < 256 ->
  String.length (evo_get_selection rows cols sel) = 4 + (length sel + 6) / 7.
Proof.
  intros Hr Hc. unfold evo_get_selection.
  destruct (hex_header (N.of_nat cols)) as [Lc _]; [lia|].
  destruct (hex_header (N.of_nat rows)) as [Lr _]; [lia|].
  rewrite !string_length_append, Lc, Lr, string_of_codes_length, sel_codes_length. reflexivity.
Qed.

Lemma evo_get_selection_decode rows cols sel : rows < 256 -> cols < 256 ->
  length sel = rows * cols ->
  decode_selection (evo_get_selection rows cols sel) = Some (rows, cols, sel).
Proof.
  intros Hr Hc Hl. unfold evo_get_selection.
  destruct (hex_header (N.of_nat cols)) as [Lc Pc]; [lia|].
  destruct (hex_header (N.of_nat rows)) as [Lr Pr]; [lia|].
  destruct (string_length2 _ Lc) as [c1 [c2 Ec]]. destruct (string_length2 _ Lr) as [r1 [r2 Er]].
  rewrite Ec in *. rewrite Er in *. cbn [append]. unfold decode_selection.
  rewrite Pc, Pr, !Nat2N.id.
  rewrite codes_of_string_of_codes
    by (intros c Hin; apply sel_codes_range in Hin; lia).
  rewrite <- Hl, sel_codes_roundtrip. reflexivity.
Qed.

Lemma evo_get_selection_roundtrip rows cols sel : rows < 256 -> cols < 256 ->
  length sel = rows * cols ->
  decode_selection (evo_get_selection rows cols sel) = Some (rows, cols, sel) /\
  String.length (evo_get_selection rows cols sel) = 4 + (rows * cols + 6) / 7.
Proof.
  intros Hr Hc Hl. split; [apply evo_get_selection_decode; assumption|].
  rewrite <- Hl. apply evo_get_selection_length; assumption.
Qed.

(** distinct selections (or geometries) give distinct strings *)
Lemma evo_get_selection_injective rows cols sel rows' cols' sel' :
  rows < 256 -> cols < 256 -> rows' < 256 -> cols' < 256 ->
  length sel = rows * cols -> length sel' = rows' * cols' ->
  evo_get_selection rows cols sel = evo_get_selection rows' cols' sel' ->
  rows = rows' /\ cols = cols' /\ sel = sel'.
Proof.
  intros Hr Hc Hr' Hc' Hl Hl' E.
  pose proof (evo_get_selection_decode rows cols sel Hr Hc Hl) as D.
  pose proof (evo_get_selection_decode rows' cols' sel' Hr' Hc' Hl') as D'.
  rewrite E, D' in D. injection D as E1 E2 E3. repeat split; congruence.
Qed.
